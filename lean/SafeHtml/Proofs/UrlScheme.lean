/-
Lemmas for C11: what a `javascript` verdict of the WHATWG scheme states says about the input
(`whatwg_js_shape`), the rejection lemma for such inputs (`reject`), the two acceptance lemmas.
-/
import SafeHtml.Spec.UrlScheme
import SafeHtml.Proofs.UrlRx
namespace SafeHtml.UrlSchemeFacts
open SafeHtml SafeHtml.Model SafeHtml.UrlRx SafeHtml.Spec.UrlScheme

/-! ### spec side -/

theorem schemeState_some : ∀ (x buf r : List Nat), schemeState buf x = some r →
    ∃ a b, x = a ++ 58 :: b ∧ (∀ c ∈ a, isSchemeChar c = true) ∧ r = buf.reverse ++ a.map asciiLower := by
  intro x
  induction x with
  | nil => intro buf r h; simp [schemeState] at h
  | cons c t ih =>
    intro buf r h
    simp only [schemeState] at h
    by_cases hc : isSchemeChar c = true
    · simp only [hc, if_true] at h
      obtain ⟨a, b, ht, ha, hr⟩ := ih _ _ h
      refine ⟨c :: a, b, by rw [ht]; rfl, ?_, ?_⟩
      · intro y hy
        rcases List.mem_cons.1 hy with rfl | hy
        · exact hc
        · exact ha y hy
      · rw [hr]; simp
    · simp only [hc] at h
      by_cases h58 : (c == 58) = true
      · simp only [h58, if_true] at h
        have : c = 58 := by simpa using h58
        subst this
        refine ⟨[], t, rfl, by simp, ?_⟩
        simp at h ⊢; exact h.symm
      · simp [h58] at h

theorem schemeStart_some (x r : List Nat) (h : schemeStart x = some r) :
    ∃ a b, x = a ++ 58 :: b ∧ (∀ c ∈ a, isSchemeChar c = true) ∧ r = a.map asciiLower := by
  cases x with
  | nil => simp [schemeStart] at h
  | cons c t =>
    simp only [schemeStart] at h
    by_cases hc : isAlpha c = true
    · simp only [hc, if_true] at h
      obtain ⟨a, b, ht, ha, hr⟩ := schemeState_some _ _ _ h
      refine ⟨c :: a, b, by rw [ht]; rfl, ?_, by rw [hr]; simp⟩
      intro y hy
      rcases List.mem_cons.1 hy with rfl | hy
      · simp [isSchemeChar, isAlnum, hc]
      · exact ha y hy
    · simp [hc] at h

/-- first occurrence of 58 in a filtered list -/
theorem filter_first58 (f : Nat → Bool) (hf : f 58 = true) : ∀ (v a b : List Nat),
    v.filter f = a ++ 58 :: b → 58 ∉ a →
    ∃ p q, v = p ++ 58 :: q ∧ 58 ∉ p ∧ p.filter f = a := by
  intro v
  induction v with
  | nil => intro a b h; simp at h
  | cons h v ih =>
    intro a b hv ha
    by_cases h58 : h = 58
    · subst h58
      refine ⟨[], v, rfl, by simp, ?_⟩
      simp only [List.filter_cons, hf, if_true] at hv
      cases a with
      | nil => rfl
      | cons x a' =>
        simp only [List.cons_append, List.cons.injEq] at hv
        exact absurd (by simp [hv.1]) ha
    · by_cases hfh : f h = true
      · simp only [List.filter_cons, hfh, if_true] at hv
        cases a with
        | nil => simp only [List.nil_append, List.cons.injEq] at hv; exact absurd hv.1 h58
        | cons x a' =>
          simp only [List.cons_append, List.cons.injEq] at hv
          obtain ⟨p, q, hpq, hp, hfa⟩ := ih a' b hv.2 (by intro hm; exact ha (by simp [hm]))
          refine ⟨h :: p, q, by rw [hpq]; rfl, ?_, ?_⟩
          · intro hm
            rcases List.mem_cons.1 hm with e | e
            · exact h58 e.symm
            · exact hp e
          · rw [← hv.1]; simp [hfh, hfa]
      · simp only [List.filter_cons, hfh] at hv
        obtain ⟨p, q, hpq, hp, hfa⟩ := ih a b (by simpa using hv) ha
        refine ⟨h :: p, q, by rw [hpq]; rfl, ?_, ?_⟩
        · intro hm
          rcases List.mem_cons.1 hm with e | e
          · exact h58 e.symm
          · exact hp e
        · simp [hfh, hfa]

theorem stripTrailing_prefix (u : List Nat) : ∃ w, u = stripTrailing u ++ w := by
  refine ⟨(u.reverse.takeWhile isC0OrSpace).reverse, ?_⟩
  unfold stripTrailing
  rw [← List.reverse_append, List.takeWhile_append_dropWhile, List.reverse_reverse]

theorem lower_in_js_alpha (c : Nat) (h : asciiLower c ∈ javascript) : isAlpha c = true := by
  simp only [javascript, List.mem_cons, List.not_mem_nil, or_false] at h
  unfold asciiLower at h
  simp only [isAlpha, isLowerAlpha, isUpperAlpha, Bool.or_eq_true, Bool.and_eq_true, decide_eq_true_eq] at h ⊢
  split at h <;> omega

/-- If the WHATWG scheme states find `javascript` in `y`, then `y` is: bytes that are C0/space or
    ASCII letters, then ':'; and when no C0/space occurs before the colon, the letters spell
    `javascript` (any case). -/
theorem whatwg_js_shape (y : List Nat) (h : whatwgScheme y = some javascript) :
    ∃ pfx q, y = pfx ++ 58 :: q ∧ (∀ b ∈ pfx, b ≤ 32 ∨ isAlpha b = true) ∧
      ((∀ b ∈ pfx, isAlpha b = true) → pfx.map asciiLower = javascript) := by
  unfold whatwgScheme at h
  obtain ⟨a, b, hpre, ha, hr⟩ := schemeStart_some _ _ h
  have ha_alpha : ∀ c ∈ a, isAlpha c = true := by
    intro c hc
    apply lower_in_js_alpha
    rw [hr]; exact List.mem_map.2 ⟨c, hc, rfl⟩
  have h58a : 58 ∉ a := by
    intro hm; have := ha_alpha 58 hm; simp [isAlpha, isLowerAlpha, isUpperAlpha] at this
  unfold preprocess at hpre
  obtain ⟨p, q, hv, hp58, hpf⟩ := filter_first58 (fun c => !isTabOrNewline c) (by decide) _ a b hpre h58a
  obtain ⟨w, hw⟩ := stripTrailing_prefix (stripLeading y)
  obtain ⟨ws0, u, hy, _, hu, hws0, _⟩ := span_split isC0OrSpace y
  have hu' : stripLeading y = u := hu
  rw [hu'] at hv hw
  rw [hv] at hw
  refine ⟨ws0 ++ p, q ++ w, by rw [hy, hw]; simp, ?_, ?_⟩
  · intro x hx
    rcases List.mem_append.1 hx with hx | hx
    · left; simpa [isC0OrSpace] using hws0 x hx
    · by_cases ht : isTabOrNewline x = true
      · left
        simp only [isTabOrNewline, Bool.or_eq_true, beq_iff_eq] at ht
        omega
      · right
        apply ha_alpha
        rw [← hpf]
        exact List.mem_filter.2 ⟨hx, by simpa using ht⟩
  · intro hall
    have hws_nil : ws0 = [] := by
      cases ws0 with
      | nil => rfl
      | cons x l =>
        have h1 := hws0 x (by simp)
        have h2 := hall x (by simp)
        simp only [isC0OrSpace, decide_eq_true_eq] at h1
        simp only [isAlpha, isLowerAlpha, isUpperAlpha, Bool.or_eq_true, Bool.and_eq_true, decide_eq_true_eq] at h2
        omega
    subst hws_nil
    have hpid : p.filter (fun c => !isTabOrNewline c) = p := by
      apply List.filter_eq_self.2
      intro x hx
      have h2 := hall x (by simp [hx])
      simp only [isAlpha, isLowerAlpha, isUpperAlpha, Bool.or_eq_true, Bool.and_eq_true, decide_eq_true_eq] at h2
      simp only [isTabOrNewline, Bool.not_eq_true', Bool.or_eq_false_iff, beq_eq_false_iff_ne]
      omega
    rw [List.nil_append, hr, ← hpf, hpid]

/-! ### model side -/

theorem takeDrop_all_append (p : Nat → Bool) : ∀ (a r : Bytes), (∀ b ∈ a, p b = true) →
    (r = [] ∨ ∃ d r', r = d :: r' ∧ p d = false) →
    (a ++ r).takeWhile p = a ∧ (a ++ r).dropWhile p = r := by
  intro a
  induction a with
  | nil =>
    intro r _ hr
    rcases hr with rfl | ⟨d, r', rfl, hd⟩
    · simp
    · simp [hd]
  | cons x a ih =>
    intro r ha hr
    have hx := ha x (by simp)
    obtain ⟨h1, h2⟩ := ih r (fun b hb => ha b (by simp [hb])) hr
    simp [hx, h1, h2]

theorem asciiLower_lt (b : Nat) (h : b < 128) : asciiLower b < 128 := by
  unfold asciiLower isUpperAlpha; split <;> simp_all <;> omega

theorem handCaps_colon (t : Bytes) (c : Nat) (sch r' : Bytes)
    (hta : t.takeWhile isSchemeLower = c :: sch) (hr : t.dropWhile isSchemeLower = 58 :: r') :
    handCaps t = some (some (c :: sch)) := by
  unfold handCaps; rw [hta, hr]; rfl

theorem handCaps_other (t : Bytes) (d : Nat) (r' : Bytes)
    (hr : t.dropWhile isSchemeLower = d :: r') (hd : (d == 58) = false) :
    handCaps t = handCaps2 t := by
  unfold handCaps; rw [hr]
  cases t.takeWhile isSchemeLower <;> simp [hd]

theorem handCaps_end (t : Bytes) (hr : t.dropWhile isSchemeLower = []) :
    handCaps t = handCaps2 t := by
  unfold handCaps; rw [hr]
  cases t.takeWhile isSchemeLower <;> rfl

theorem handCaps_empty (t : Bytes) (hta : t.takeWhile isSchemeLower = []) :
    handCaps t = handCaps2 t := by
  unfold handCaps; rw [hta]

/-- rejection: letters and C0/space, then ':' or '&' — unless the letters alone spell something
    other than javascript before a ':' -/
theorem reject (pfx rest : Bytes) (c : Nat) (hc : c = 58 ∨ c = 38)
    (hpfx : ∀ b ∈ pfx, b ≤ 32 ∨ isAlpha b = true)
    (hjs : c = 58 → (∀ b ∈ pfx, isAlpha b = true) → pfx.map asciiLower = javascript) :
    isSafeURL (pfx ++ c :: rest) = false := by
  have hascii : ∀ b ∈ pfx, b < 128 := by
    intro b hb
    rcases hpfx b hb with h | h
    · omega
    · simp only [isAlpha, isLowerAlpha, isUpperAlpha, Bool.or_eq_true, Bool.and_eq_true, decide_eq_true_eq] at h
      omega
  have hc128 : c < 128 := by omega
  have hclow : asciiLower c = c := by
    rcases hc with rfl | rfl <;> decide
  rw [isSafeURL_eq]
  have ht : toLowerForScheme (pfx ++ c :: rest) = pfx.map asciiLower ++ c :: toLowerForScheme rest := by
    rw [toLower_ascii_append _ _ hascii]
    have := toLower_ascii_append [c] rest (by simpa using hc128)
    simp only [List.cons_append, List.nil_append, List.map_cons, List.map_nil, hclow] at this
    rw [this]
  rw [ht]
  -- second alternative never matches
  have h2 : handCaps2 (pfx.map asciiLower ++ c :: toLowerForScheme rest) = none := by
    unfold handCaps2
    have := (takeDrop_all_append isNegB (pfx.map asciiLower) (c :: toLowerForScheme rest) ?_ ?_).2
    · rw [this]
      rcases hc with rfl | rfl <;> rfl
    · intro b hb
      obtain ⟨x, hx, rfl⟩ := List.mem_map.1 hb
      rcases hpfx x hx with h | h
      · have : asciiLower x = x := by
          unfold asciiLower isUpperAlpha; split <;> simp_all; omega
        rw [this]
        simp only [isNegB, Bool.not_eq_true', Bool.or_eq_false_iff, beq_eq_false_iff_ne]
        omega
      · simp only [isAlpha, isLowerAlpha, isUpperAlpha, Bool.or_eq_true, Bool.and_eq_true, decide_eq_true_eq] at h
        simp only [isNegB, Bool.not_eq_true', Bool.or_eq_false_iff, beq_eq_false_iff_ne]
        unfold asciiLower isUpperAlpha
        split <;> simp_all <;> omega
    · right
      refine ⟨c, _, rfl, ?_⟩
      rcases hc with rfl | rfl <;> rfl
  -- first alternative: split the prefix at its first non-letter
  obtain ⟨a0, r0, hp0, _, _, ha0, hr0⟩ := span_split isAlpha pfx
  have hlow_scheme : ∀ b ∈ a0.map asciiLower, isSchemeLower b = true := by
    intro b hb
    obtain ⟨x, hx, rfl⟩ := List.mem_map.1 hb
    have h := ha0 x hx
    simp only [isAlpha, isLowerAlpha, isUpperAlpha, Bool.or_eq_true, Bool.and_eq_true, decide_eq_true_eq] at h
    simp only [isSchemeLower, isLowerAlpha, isDigit, Bool.or_eq_true, Bool.and_eq_true, decide_eq_true_eq, beq_iff_eq]
    unfold asciiLower isUpperAlpha
    split <;> simp_all <;> omega
  rcases hr0 with rfl | ⟨d, r0', rfl, hd⟩
  · -- the prefix is all letters
    rw [List.append_nil] at hp0
    subst hp0
    have hnc : isSchemeLower c = false := by rcases hc with rfl | rfl <;> rfl
    obtain ⟨e1, e2⟩ := takeDrop_all_append isSchemeLower (pfx.map asciiLower) (c :: toLowerForScheme rest)
      hlow_scheme (Or.inr ⟨c, _, rfl, hnc⟩)
    rcases hc with rfl | rfl
    · have hj := hjs rfl ha0
      rw [hj] at e1 e2 ⊢
      rw [handCaps_colon _ 106 [97, 118, 97, 115, 99, 114, 105, 112, 116] _ e1 e2]
      rfl
    · rw [handCaps_other _ 38 _ e2 rfl, h2]
  · -- a C0/space byte occurs before the delimiter
    have hd32 : d ≤ 32 := by
      rcases hpfx d (by rw [hp0]; simp) with h | h
      · exact h
      · rw [h] at hd; simp at hd
    have hdl : asciiLower d = d := by
      unfold asciiLower isUpperAlpha; split <;> simp_all; omega
    have hnd : isSchemeLower d = false := by
      simp only [isSchemeLower, isLowerAlpha, isDigit, Bool.or_eq_false_iff, Bool.and_eq_false_iff,
        decide_eq_false_iff_not, beq_eq_false_iff_ne]
      omega
    have hform : pfx.map asciiLower ++ c :: toLowerForScheme rest =
        a0.map asciiLower ++ d :: (r0'.map asciiLower ++ c :: toLowerForScheme rest) := by
      rw [hp0]; simp [hdl]
    obtain ⟨e1, e2⟩ := takeDrop_all_append isSchemeLower (a0.map asciiLower)
      (d :: (r0'.map asciiLower ++ c :: toLowerForScheme rest)) hlow_scheme (Or.inr ⟨d, _, rfl, hnd⟩)
    rw [hform] at h2 ⊢
    have : (d == 58) = false := by simp; omega
    rw [handCaps_other _ d _ e2 this, h2]

/-- acceptance 1: an ASCII scheme other than javascript, then ':' -/
theorem accept_scheme (sch rest : Bytes) (c0 : Nat) (hs : ∀ b ∈ c0 :: sch, isAsciiSchemeByte b = true)
    (hne : (c0 :: sch).map asciiLower ≠ javascript) :
    isSafeURL ((c0 :: sch) ++ 58 :: rest) = true := by
  have hascii : ∀ b ∈ c0 :: sch, b < 128 := by
    intro b hb
    have := hs b hb
    simp only [isAsciiSchemeByte, isAlnum, isAlpha, isLowerAlpha, isUpperAlpha, isDigit, Bool.or_eq_true,
      Bool.and_eq_true, decide_eq_true_eq, beq_iff_eq] at this
    omega
  rw [isSafeURL_eq, toLower_ascii_append _ _ hascii]
  have h58 := toLower_ascii_append [58] rest (by simp)
  simp only [List.cons_append, List.nil_append, List.map_cons, List.map_nil] at h58
  have h58' : asciiLower 58 = 58 := by decide
  rw [h58'] at h58
  have hlow : ∀ b ∈ (c0 :: sch).map asciiLower, isSchemeLower b = true := by
    intro b hb
    obtain ⟨x, hx, rfl⟩ := List.mem_map.1 hb
    have h := hs x hx
    simp only [isAsciiSchemeByte, isAlnum, isAlpha, isLowerAlpha, isUpperAlpha, isDigit, Bool.or_eq_true,
      Bool.and_eq_true, decide_eq_true_eq, beq_iff_eq] at h
    simp only [isSchemeLower, isLowerAlpha, isDigit, Bool.or_eq_true, Bool.and_eq_true, decide_eq_true_eq, beq_iff_eq]
    unfold asciiLower isUpperAlpha
    split <;> simp_all <;> omega
  obtain ⟨e1, e2⟩ := takeDrop_all_append isSchemeLower ((c0 :: sch).map asciiLower) (58 :: toLowerForScheme rest)
    hlow (Or.inr ⟨58, _, rfl, rfl⟩)
  rw [h58, handCaps_colon _ (asciiLower c0) (sch.map asciiLower) _ (by simpa using e1) e2]
  simpa [jsScheme, javascript] using hne

/-- acceptance 2: no ':' and no '&' before the first '/', '?' or '#' (or anywhere, if there is none) -/
theorem accept_relative (s : Bytes) (h : noColonAmpBeforeFirstDelim s = true) : isSafeURL s = true := by
  unfold noColonAmpBeforeFirstDelim at h
  obtain ⟨p, r, hs, hta, _, hp, hr⟩ := span_split (fun c => !isDelim c) s
  rw [hta] at h
  have hpneg : ∀ b ∈ toLowerForScheme p, isNegB b = true := by
    intro b' hb'
    rcases toLower_bytes p b' hb' with h1 | h1 | h1 | ⟨b, hb, hlt, rfl⟩
    · simp only [isNegB, Bool.not_eq_true', Bool.or_eq_false_iff, beq_eq_false_iff_ne]; omega
    · subst h1; decide
    · subst h1; decide
    · have h1 := hp b hb
      have h2 := List.all_eq_true.1 h b hb
      simp only [isDelim, Bool.not_eq_true', Bool.or_eq_false_iff, beq_eq_false_iff_ne] at h1
      simp only [Bool.and_eq_true, bne_iff_ne, ne_eq] at h2
      simp only [isNegB, Bool.not_eq_true', Bool.or_eq_false_iff, beq_eq_false_iff_ne]
      unfold asciiLower isUpperAlpha
      split <;> simp_all <;> omega
  -- the lowered string: lowered p, then nothing or a delimiter
  have ht : ∃ r2, toLowerForScheme s = toLowerForScheme p ++ r2 ∧
      (r2 = [] ∨ ∃ d r', r2 = d :: r' ∧ isDelimB d = true) := by
    rcases hr with rfl | ⟨d, r', rfl, hd⟩
    · exact ⟨[], by rw [hs]; simp, Or.inl rfl⟩
    · have hdd : isDelim d = true := by simpa using hd
      have hd128 : d < 128 := by
        simp only [isDelim, Bool.or_eq_true, beq_iff_eq] at hdd; omega
      have hdl : asciiLower d = d := by
        simp only [isDelim, Bool.or_eq_true, beq_iff_eq] at hdd
        unfold asciiLower isUpperAlpha; split <;> simp_all; omega
      refine ⟨d :: toLowerForScheme r', by rw [hs, toLower_append_ascii p d r' hd128, hdl], Or.inr ⟨d, _, rfl, ?_⟩⟩
      simp only [isDelim, Bool.or_eq_true, beq_iff_eq] at hdd
      simp only [isDelimB, Bool.or_eq_true, beq_iff_eq]; omega
  obtain ⟨r2, htl, hr2⟩ := ht
  rw [isSafeURL_eq, htl]
  have hr2' : r2 = [] ∨ ∃ d r', r2 = d :: r' ∧ isNegB d = false := by
    rcases hr2 with h0 | ⟨d, r', h1, h2⟩
    · exact Or.inl h0
    · refine Or.inr ⟨d, r', h1, ?_⟩
      simp only [isDelimB, Bool.or_eq_true, beq_iff_eq] at h2
      simp only [isNegB, Bool.not_eq_false', Bool.or_eq_true, beq_iff_eq]; omega
  have h2 : handCaps2 (toLowerForScheme p ++ r2) = some none := by
    unfold handCaps2
    rw [(takeDrop_all_append isNegB _ r2 hpneg hr2').2]
    rcases hr2 with rfl | ⟨d, r', rfl, hd⟩
    · rfl
    · simp [hd]
  -- the first alternative cannot match: the first non-scheme byte is in lowered p or is the delimiter
  obtain ⟨a1, r1, hL, _, _, ha1, hr1⟩ := span_split isSchemeLower (toLowerForScheme p)
  have hfirst : handCaps (toLowerForScheme p ++ r2) = handCaps2 (toLowerForScheme p ++ r2) := by
    rcases hr1 with rfl | ⟨x, r1', rfl, hx⟩
    · rw [List.append_nil] at hL
      rw [← hL] at ha1
      rcases hr2 with rfl | ⟨d, r', rfl, hd⟩
      · exact handCaps_end _ (takeDrop_all_append isSchemeLower (toLowerForScheme p) [] ha1 (Or.inl rfl)).2
      · have hds : isSchemeLower d = false := by
          simp only [isDelimB, Bool.or_eq_true, beq_iff_eq] at hd
          rcases hd with (rfl | rfl) | rfl <;> rfl
        have h58 : (d == 58) = false := by
          simp only [isDelimB, Bool.or_eq_true, beq_iff_eq] at hd
          rcases hd with (rfl | rfl) | rfl <;> rfl
        exact handCaps_other _ d r' (takeDrop_all_append isSchemeLower (toLowerForScheme p) (d :: r') ha1
          (Or.inr ⟨d, r', rfl, hds⟩)).2 h58
    · have hx58 : (x == 58) = false := by
        have := hpneg x (by rw [hL]; simp)
        simp only [isNegB, Bool.not_eq_true', Bool.or_eq_false_iff, beq_eq_false_iff_ne] at this
        simp; omega
      have hform : toLowerForScheme p ++ r2 = a1 ++ x :: (r1' ++ r2) := by rw [hL]; simp
      rw [hform]
      exact handCaps_other _ x _ (takeDrop_all_append isSchemeLower a1 (x :: (r1' ++ r2)) ha1
        (Or.inr ⟨x, _, rfl, hx⟩)).2 hx58
  rw [hfirst, h2]

end SafeHtml.UrlSchemeFacts
