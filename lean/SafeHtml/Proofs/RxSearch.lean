/- Unanchored search with a single character class, read at byte level (for ASCII classes). -/
import SafeHtml.Rx.Thm
import SafeHtml.Proofs.Utf8
namespace SafeHtml
namespace Utf8

/-- the bytes a multi-byte symbol skips after its first byte are continuation bytes (≥ 128) -/
theorem decode1_skipped (b : Nat) (t : Bytes) : ∀ x ∈ t.take ((decode1 b t).2 - 1), 128 ≤ x := by
  unfold decode1
  repeat' split
  all_goals (try simp)
  all_goals (repeat' split)
  all_goals (try simp)
  all_goals (simp only [isCont, Bool.and_eq_true, decide_eq_true_eq] at *)
  all_goals (try omega)
  all_goals (intro x hx; rcases hx with hx | hx | hx <;> omega)

theorem any_drop_nonascii (p : Nat → Bool) (hp : ∀ c, p c = true → c < 128) :
    ∀ (n : Nat) (t : Bytes), (∀ x ∈ t.take n, 128 ≤ x) → t.any p = (t.drop n).any p := by
  intro n
  induction n with
  | zero => intro t _; simp
  | succ n ih =>
    intro t h
    cases t with
    | nil => simp
    | cons a u =>
      have ha : p a = false := by
        cases hh : p a with
        | false => rfl
        | true => have := hp a hh; have := h a (by simp); omega
      simp only [List.any_cons, ha, Bool.false_or, List.drop_succ_cons]
      exact ih u (fun x hx => h x (by simp [hx]))

/-- some symbol's rune satisfies an ASCII-only predicate iff some byte does -/
theorem any_ascii_iff (p : Nat → Bool) (hp : ∀ c, p c = true → c < 128) (s : Bytes) :
    (decodeSyms s).any (fun x => p x.rune) = s.any p := by
  induction s using decode_induction with
  | hnil => simp [decodeSyms_nil]
  | hcons b t ih =>
    by_cases hb : b < 128
    · rw [decodeSyms_cons_ascii b t hb]
      rw [decode1_ascii b t hb] at ih
      simp only [List.drop_succ_cons, List.drop_zero] at ih
      simp [ih]
    · have hr := decode1_nonascii b t (by omega)
      rw [decodeSyms_cons]
      have h1 : p (decode1 b t).1 = false := by
        cases h : p (decode1 b t).1 with
        | false => rfl
        | true => have := hp _ h; omega
      have h2 : p b = false := by
        cases h : p b with
        | false => rfl
        | true => have := hp _ h; omega
      have hw := decode1_width_pos b t
      have hd : (b :: t).drop (decode1 b t).2 = t.drop ((decode1 b t).2 - 1) := by
        obtain ⟨k, hk⟩ : ∃ k, (decode1 b t).2 = k + 1 := ⟨(decode1 b t).2 - 1, by omega⟩
        rw [hk]; simp
      rw [hd] at ih ⊢
      simp only [List.any_cons, h1, h2, Bool.false_or, ih]
      exact (any_drop_nonascii p hp _ t (decode1_skipped b t)).symm

end Utf8

namespace Rx

theorem findFrom_cls (rs : List (Nat × Nat)) (f : Nat) : ∀ (s : List Sym) (i : Nat),
    (findFrom (.cls rs) f i s).isSome = s.any (fun x => inCls rs x.rune) := by
  intro s
  induction s with
  | nil => intro i; simp [findFrom, m]
  | cons c t ih =>
    intro i
    simp only [findFrom, m, List.any_cons]
    by_cases hc : inCls rs c.rune = true
    · simp [hc]
    · simp only [hc, Bool.false_eq_true, if_false, Bool.false_or]
      exact ih (i + 1)

/-- an unanchored single ASCII class: some byte is in the class -/
theorem match_cls_any_bytes (rs) (h : asciiCls rs = true) (s : Bytes) :
    matchString (.cls rs) s = s.any (inCls rs) := by
  unfold matchString find
  rw [findFrom_cls]
  exact Utf8.any_ascii_iff (inCls rs) (inCls_ascii rs h) s

end Rx
end SafeHtml
