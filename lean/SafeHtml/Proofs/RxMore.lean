/-
More generic matcher facts (extends Rx/Thm.lean without touching it):
* a greedy class star followed by a continuation that cannot start with a class member
  only ever tries the longest run (`star_cls_then`);
* the shape `\A(?:(C+)D|N*(?:E|\z))` (safeURLPattern) as an explicit function of two spans,
  capture included (`find_schemeAlt`).
-/
import SafeHtml.Rx.Thm
namespace SafeHtml
namespace Rx

theorem tryDown_only_top (k : MSt → List Sym → Option α) (st : MSt) (s : List Sym) (n : Nat)
    (h : ∀ j, j < n → k (adv st j) (s.drop j) = none) :
    tryDown k st s n = k (adv st n) (s.drop n) := by
  induction n with
  | zero => simp [tryDown]
  | succ n ih =>
    simp only [tryDown]
    cases hk : k (adv st (n+1)) (s.drop (n+1)) with
    | some r => rfl
    | none =>
      simp only []
      rw [ih (fun j hj => h j (by omega))]
      exact h n (by omega)

theorem spanCls_drop_lt (C : List (Nat × Nat)) : ∀ (s : List Sym) (j : Nat), j < spanCls C s →
    ∃ x r, s.drop j = x :: r ∧ inCls C x.rune = true := by
  intro s
  induction s with
  | nil => intro j h; simp [spanCls] at h
  | cons c t ih =>
    intro j h
    simp only [spanCls] at h
    by_cases hc : inCls C c.rune = true
    · simp only [hc, if_true] at h
      cases j with
      | zero => exact ⟨c, t, rfl, hc⟩
      | succ j => simpa using ih j (by omega)
    · simp [hc] at h

theorem spanCls_drop_eq (C : List (Nat × Nat)) : ∀ (s : List Sym),
    s.drop (spanCls C s) = [] ∨ ∃ x r, s.drop (spanCls C s) = x :: r ∧ inCls C x.rune = false := by
  intro s
  induction s with
  | nil => left; simp [spanCls]
  | cons c t ih =>
    simp only [spanCls]
    by_cases hc : inCls C c.rune = true
    · simp only [hc, if_true, List.drop_succ_cons]; exact ih
    · right; refine ⟨c, t, by simp [hc], by simpa using hc⟩

/-- greedy class star, continuation that fails on every text starting with a class member:
    only the longest run is tried -/
theorem star_cls_then (C : List (Nat × Nat)) (k : MSt → List Sym → Option α)
    (hk : ∀ st x r, inCls C x.rune = true → k st (x :: r) = none)
    (s : List Sym) (f : Nat) (st : MSt) (hf : s.length < f) :
    m (.star (.cls C) true) f st s k = k (adv st (spanCls C s)) (s.drop (spanCls C s)) := by
  rw [star_cls_greedy C k s f st hf]
  apply tryDown_only_top
  intro j hj
  obtain ⟨x, r, hx, hc⟩ := spanCls_drop_lt C s j hj
  rw [hx]; exact hk _ x r hc

/-- `\A(?:(C+)D|N*(?:E|\z))` -/
def schemeAltRe (C D N E : List (Nat × Nat)) : Re :=
  .cat .bot (.alt (.cat (.cap 1 (Re.plus (.cls C) true)) (.cls D))
                  (.cat (.star (.cls N) true) (.alt (.cls E) .eot)))

/-- explicit result of the leftmost-first search for `schemeAltRe` -/
def schemeAltFind (C D N E : List (Nat × Nat)) (syms : List Sym) : Option Match :=
  let n := spanCls C syms
  match n, syms.drop n with
  | n'+1, x :: _ =>
    if inCls D x.rune then some ⟨0, n'+2, [(1, 0, n'+1)]⟩ else schemeAltFind2 syms
  | _, _ => schemeAltFind2 syms
where
  schemeAltFind2 (syms : List Sym) : Option Match :=
    let k := spanCls N syms
    match syms.drop k with
    | [] => some ⟨0, k, []⟩
    | x :: _ => if inCls E x.rune then some ⟨0, k+1, []⟩ else none

theorem m_alt2 (N E : List (Nat × Nat)) (hNE : ∀ c, inCls N c = true → inCls E c = false)
    (s : List Sym) (f : Nat) (hf : s.length < f) :
    m (.cat (.star (.cls N) true) (.alt (.cls E) .eot)) f ⟨0, []⟩ s K0 =
      schemeAltFind.schemeAltFind2 N E s := by
  rw [m_cat]
  rw [star_cls_then N _ _ s f _ hf]
  · unfold schemeAltFind.schemeAltFind2
    simp only []
    cases hd : s.drop (spanCls N s) with
    | nil => simp [m_alt, m_cls_nil, m_eot, K0, adv]
    | cons x r =>
      simp only [m_alt, m_cls_cons, m_eot]
      by_cases hx : inCls E x.rune = true
      · simp [hx, K0, adv]
      · simp [hx]
  · intro st x r hx
    simp [m_alt, m_cls_cons, m_eot, hNE _ hx]

theorem find_schemeAlt (C D N E : List (Nat × Nat))
    (hCD : ∀ c, inCls C c = true → inCls D c = false)
    (hNE : ∀ c, inCls N c = true → inCls E c = false) (syms : List Sym) :
    find (schemeAltRe C D N E) syms = schemeAltFind C D N E syms := by
  unfold schemeAltRe
  rw [find_bot, m_alt, m_alt2 N E hNE syms _ (by omega)]
  -- first alternative
  have h1 : m (.cat (.cap 1 (Re.plus (.cls C) true)) (.cls D)) (syms.length + 1) ⟨0, []⟩ syms K0 =
      match spanCls C syms, syms.drop (spanCls C syms) with
      | n'+1, x :: _ => if inCls D x.rune then some ⟨0, n'+2, [(1, 0, n'+1)]⟩ else none
      | _, _ => none := by
    rw [m_cat, m_cap]
    unfold Re.plus
    rw [m_cat]
    cases syms with
    | nil => simp [m_cls_nil, spanCls]
    | cons c t =>
      rw [m_cls_cons]
      by_cases hc : inCls C c.rune = true
      · simp only [hc, if_true, spanCls, List.drop_succ_cons]
        rw [star_cls_then C _ _ t _ _ (by simp only [List.length_cons]; omega)]
        · cases hd : t.drop (spanCls C t) with
          | nil => simp [m_cls_nil]
          | cons x r =>
            simp only [m_cls_cons]
            by_cases hx : inCls D x.rune = true
            · simp [hx, K0, adv]; omega
            · simp [hx]
        · intro st x r hx
          simp [m_cls_cons, hCD _ hx]
      · simp [hc, spanCls]
  rw [h1]
  unfold schemeAltFind
  simp only []
  generalize spanCls C syms = n
  generalize syms.drop n = d
  cases n with
  | zero => rfl
  | succ n' =>
    cases d with
    | nil => rfl
    | cons x r =>
      simp only []
      by_cases hx : inCls D x.rune = true <;> simp [hx]

end Rx
end SafeHtml
