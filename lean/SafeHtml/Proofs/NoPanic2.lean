/-
C08, remaining explicit panic sites: "node shared between templates" (analysis) and the execution-time nil-tree
dereference. (summary at the end of the file)
-/
import SafeHtml.Proofs.NoPanic
namespace SafeHtml.Proofs.NoPanic2
open SafeHtml SafeHtml.Model.Tmpl SafeHtml.Proofs.Frozen SafeHtml.Proofs.ConcApi SafeHtml.Proofs.ConcReach
  SafeHtml.Proofs.ApiFrames SafeHtml.Proofs.NoPanic

/-! ### 1. "node shared between templates" -/

mutual
/-- the ids of all nodes of a tree (assigned by position by the wire format, hence pairwise distinct) -/
def nodeIds : Node → List Nat
  | .text id _ => [id]
  | .action id _ => [id]
  | .tmpl id _ _ => [id]
  | .ifN id _ t e => id :: (listIds t ++ listIds e)
  | .rangeN id _ t e => id :: (listIds t ++ listIds e)
  | .withN id _ t e => id :: (listIds t ++ listIds e)
  | .brk id => [id]
  | .cont id => [id]
  | .comment id => [id]
def listIds : NodeList → List Nat
  | .nil => []
  | .cons n ns => nodeIds n ++ listIds ns
end

def IdsDistinct (l : NodeList) : Prop := (listIds l).Nodup

def kA (e : Esc) : List EditKey := e.actionEdits.map (·.1)
def kT (e : Esc) : List EditKey := e.tmplEdits.map (·.1)
def kX (e : Esc) : List EditKey := e.textEdits.map (·.1)
/-- `k` is the key of a pending edit -/
def Keys (e : Esc) (k : EditKey) : Prop := k ∈ kA e ∨ k ∈ kT e ∨ k ∈ kX e
/-- no key occurs twice in one of the three edit lists -/
def ND (e : Esc) : Prop := (kA e).Nodup ∧ (kT e).Nodup ∧ (kX e).Nodup
/-- the template names of pending edits are memoized -/
def KM (e : Esc) : Prop := ∀ k, Keys e k → Memo e k.1
def TD (text : TextSet) : Prop := ∀ n tr, text.lookup n = some (some tr) → IdsDistinct tr.root
def ED (e : Esc) : Prop := (∀ p ∈ e.derived, IdsDistinct p.2.root) ∧ (∀ p ∈ e.pristine, IdsDistinct p.2.root)

/-- outcome predicate: a result satisfies `Q`; a panic is not "node shared between templates" -/
def OutS {α} (Q : α → Prop) : Out α → Prop
  | .ok a => Q a
  | .panic m => m ≠ msgShared
  | .fuel => True

theorem OutS.bind {α β} {Q : α → Prop} {R : β → Prop} {x : Out α} {f : α → Out β}
    (hx : OutS Q x) (hf : ∀ a, Q a → OutS R (f a)) : OutS R (x >>= f) := by
  cases x with
  | ok a => exact hf a hx
  | panic m => exact hx
  | fuel => trivial

theorem OutS.mono {α} {Q R : α → Prop} {x : Out α} (hx : OutS Q x) (h : ∀ a, Q a → R a) : OutS R x := by
  cases x with
  | ok a => exact h a hx
  | panic m => exact hx
  | fuel => trivial

theorem OutS.ok_of {α} {Q : α → Prop} {x : Out α} {r : α} (h : OutS Q x) (he : x = .ok r) : Q r := by
  subst he; exact h
theorem OutS.panic_of {α} {Q : α → Prop} {x : Out α} {m : String} (h : OutS Q x) (he : x = .panic m) :
    m ≠ msgShared := by
  subst he; exact h

/-- merging edit lists with disjoint keys never panics and is concatenation -/
theorem mergeEdits_disjoint {β} (from_ : List (EditKey × β)) : ∀ (into : List (EditKey × β)),
    (∀ p ∈ from_, ∀ q ∈ into, q.1 ≠ p.1) → (from_.map (·.1)).Nodup →
    mergeEdits into from_ = .ok (into ++ from_) := by
  induction from_ with
  | nil => intro into _ _; simp [mergeEdits]; rfl
  | cons p t ih =>
    intro into hd hn
    unfold mergeEdits
    rw [List.foldlM_cons]
    have hany : (into.any fun q => q.1 == p.1) = false := by
      rw [List.any_eq_false]
      intro q hq
      have := hd p (List.mem_cons_self ..) q hq
      simpa using this
    simp only [hany, Bool.false_eq_true, if_false]
    rw [List.map_cons, List.nodup_cons] at hn
    have := ih (into ++ [p]) (by
      intro p' hp' q hq
      rcases List.mem_append.mp hq with hq | hq
      · exact hd p' (List.mem_cons_of_mem _ hp') q hq
      · simp only [List.mem_singleton] at hq
        rw [hq]
        intro heq
        exact hn.1 (List.mem_map.mpr ⟨p', hp', heq.symm⟩)) hn.2
    unfold mergeEdits at this
    show (List.foldlM _ (into ++ [p]) t) = _
    rw [this]
    simp


def Mono (e e' : Esc) : Prop := ∀ n, Memo e n → Memo e' n
/-- new keys are in `S` or have a template name that was not memoized before -/
def Grow (S : EditKey → Prop) (e e' : Esc) : Prop := ∀ k, Keys e' k → Keys e k ∨ S k ∨ ¬ Memo e k.1
def PostS (S : EditKey → Prop) (e e' : Esc) : Prop := Mono e e' ∧ ND e' ∧ KM e' ∧ ED e' ∧ Grow S e e'

theorem PostS.refl (S : EditKey → Prop) (e : Esc) (h1 : ND e) (h2 : KM e) (h3 : ED e) : PostS S e e :=
  ⟨fun _ h => h, h1, h2, h3, fun _ h => .inl h⟩

theorem PostS.trans {S : EditKey → Prop} {e e1 e2 : Esc} (h1 : PostS S e e1) (h2 : PostS S e1 e2) : PostS S e e2 := by
  obtain ⟨m1, _, _, _, g1⟩ := h1
  obtain ⟨m2, n2, k2, d2, g2⟩ := h2
  refine ⟨fun n h => m2 n (m1 n h), n2, k2, d2, ?_⟩
  intro k hk
  rcases g2 k hk with h | h | h
  · exact g1 k h
  · exact .inr (.inl h)
  · exact .inr (.inr (fun hm => h (m1 _ hm)))

theorem PostS.weaken {S S' : EditKey → Prop} {e e' : Esc} (h : PostS S e e') (hs : ∀ k, S k → S' k ∨ ¬ Memo e k.1) :
    PostS S' e e' := by
  obtain ⟨m, n, k, d, g⟩ := h
  refine ⟨m, n, k, d, ?_⟩
  intro k' hk
  rcases g k' hk with h | h | h
  · exact .inl h
  · rcases hs k' h with h | h
    · exact .inr (.inl h)
    · exact .inr (.inr h)
  · exact .inr (.inr h)

/-- same memo / derived / pristine / keys: everything carries over -/
theorem PostS.of_same (S : EditKey → Prop) (e e' : Esc) (h1 : ND e) (h2 : KM e) (h3 : ED e)
    (ho : e'.output = e.output) (hd : e'.derived = e.derived) (hp : e'.pristine = e.pristine)
    (ha : e'.actionEdits = e.actionEdits) (ht : e'.tmplEdits = e.tmplEdits) (hx : e'.textEdits = e.textEdits) :
    PostS S e e' := by
  have hk : ∀ k, Keys e' k ↔ Keys e k := by intro k; unfold Keys kA kT kX; rw [ha, ht, hx]
  refine ⟨?_, ?_, ?_, ?_, ?_⟩
  · intro n h; unfold Memo at h ⊢; rw [ho]; exact h
  · unfold ND kA kT kX; rw [ha, ht, hx]; exact h1
  · intro k h; unfold Memo; rw [ho]; exact h2 k ((hk k).mp h)
  · unfold ED; rw [hd, hp]; exact h3
  · intro k h; exact .inl ((hk k).mp h)

theorem any_key_false {β} (l : List (EditKey × β)) (k : EditKey) (h : k ∉ l.map (·.1)) :
    (l.any fun p => p.1 == k) = false := by
  rw [List.any_eq_false]
  intro p hp
  have : p.1 ≠ k := fun heq => h (List.mem_map.mpr ⟨p, hp, heq⟩)
  simpa using this

/-- adding ONE edit with a key `(tn, id)` that is not pending yet -/
theorem PostS.of_add (S : EditKey → Prop) (e e' : Esc) (k : EditKey) (h1 : ND e) (h2 : KM e) (h3 : ED e)
    (ho : e'.output = e.output) (hd : e'.derived = e.derived) (hp : e'.pristine = e.pristine)
    (hnd : ND e') (hk : ∀ k', Keys e' k' → Keys e k' ∨ k' = k) (hm : Memo e k.1) (hS : S k) : PostS S e e' := by
  refine ⟨?_, hnd, ?_, ?_, ?_⟩
  · intro n h; unfold Memo at h ⊢; rw [ho]; exact h
  · intro k' h
    unfold Memo; rw [ho]
    rcases hk k' h with h | h
    · exact h2 k' h
    · rw [h]; exact hm
  · unfold ED; rw [hd, hp]; exact h3
  · intro k' h
    rcases hk k' h with h | h
    · exact .inl h
    · rw [h]; exact .inr (.inl hS)

theorem escapeAction_S (env : Env) (tn : String) (e : Esc) (c : Ctx) (id : Nat) (p : Pipe)
    (h1 : ND e) (h2 : KM e) (h3 : ED e) (hm : Memo e tn) (hfr : ¬ Keys e (tn, id)) :
    OutS (fun r : Esc × Ctx => PostS (fun k => k.1 = tn ∧ k.2 ∈ [id]) e r.1) (escapeAction env tn e c id p) := by
  unfold escapeAction
  split
  · exact PostS.refl _ e h1 h2 h3
  · simp only []
    split
    · show msgArgs ≠ msgShared; decide
    · exact PostS.refl _ e h1 h2 h3
    · split
      · exact PostS.refl _ e h1 h2 h3
      · split
        · exact PostS.refl _ e h1 h2 h3
        · rename_i s _
          have hnot : (tn, id) ∉ e.actionEdits.map (·.1) := fun h => hfr (.inl h)
          unfold Esc.editAction
          rw [any_key_false _ _ hnot]
          simp only [Bool.false_eq_true, if_false]
          show PostS _ e _
          refine PostS.of_add _ e _ (tn, id) h1 h2 h3 rfl rfl rfl ?_ ?_ hm ⟨rfl, List.mem_singleton.mpr rfl⟩
          · refine ⟨?_, h1.2.1, h1.2.2⟩
            show (List.map (·.1) (e.actionEdits ++ [((tn, id), s)])).Nodup
            rw [List.map_append, List.nodup_append]
            refine ⟨h1.1, by simp, ?_⟩
            intro a ha b hb
            simp only [List.map_cons, List.map_nil, List.mem_singleton] at hb
            rw [hb]; intro heq; exact hnot (heq ▸ ha)
          · intro k' hk'
            rcases hk' with h | h | h
            · have : k' ∈ (e.actionEdits ++ [((tn, id), s)]).map (·.1) := h
              rw [List.map_append, List.mem_append] at this
              rcases this with h | h
              · exact .inl (.inl h)
              · simp only [List.map_cons, List.map_nil, List.mem_singleton] at h; exact .inr h
            · exact .inl (.inr (.inl h))
            · exact .inl (.inr (.inr h))


theorem nodup_add (l : List EditKey) (k : EditKey) (h : l.Nodup) (hk : k ∉ l) : (l ++ [k]).Nodup := by
  rw [List.nodup_append]
  refine ⟨h, by simp, ?_⟩
  intro a ha b hb
  simp only [List.mem_singleton] at hb
  rw [hb]; intro heq; exact hk (heq ▸ ha)

theorem escapeTextNode_S (env : Env) (tn : String) (e : Esc) (c : Ctx) (id : Nat) (b : Bytes)
    (h1 : ND e) (h2 : KM e) (h3 : ED e) (hm : Memo e tn) (hfr : ¬ Keys e (tn, id)) :
    OutS (fun r : Esc × Ctx => PostS (fun k => k.1 = tn ∧ k.2 ∈ [id]) e r.1) (escapeTextNode env tn e c id b) := by
  unfold escapeTextNode
  split
  · show msgLoop ≠ msgShared; decide
  · exact PostS.refl _ e h1 h2 h3
  · rename_i c' nb _
    have hnot : (tn, id) ∉ e.textEdits.map (·.1) := fun h => hfr (.inr (.inr h))
    unfold Esc.editText
    rw [any_key_false _ _ hnot]
    simp only [Bool.false_eq_true, if_false]
    show PostS _ e _
    refine PostS.of_add _ e _ (tn, id) h1 h2 h3 rfl rfl rfl ?_ ?_ hm ⟨rfl, List.mem_singleton.mpr rfl⟩
    · refine ⟨h1.1, h1.2.1, ?_⟩
      show (List.map (·.1) (e.textEdits ++ [((tn, id), nb)])).Nodup
      rw [List.map_append]
      exact nodup_add _ _ h1.2.2 hnot
    · intro k' hk'
      rcases hk' with h | h | h
      · exact .inl (.inl h)
      · exact .inl (.inr (.inl h))
      · have : k' ∈ (e.textEdits ++ [((tn, id), nb)]).map (·.1) := h
        rw [List.map_append, List.mem_append] at this
        rcases this with h | h
        · exact .inl (.inr (.inr h))
        · simp only [List.map_cons, List.map_nil, List.mem_singleton] at h; exact .inr h

theorem editTmpl_S (tn : String) (e : Esc) (id : Nat) (v : String)
    (h1 : ND e) (h2 : KM e) (h3 : ED e) (hm : Memo e tn) (hfr : ¬ Keys e (tn, id)) :
    OutS (fun e' : Esc => PostS (fun k => k.1 = tn ∧ k.2 ∈ [id]) e e') (e.editTmpl (tn, id) v) := by
  have hnot : (tn, id) ∉ e.tmplEdits.map (·.1) := fun h => hfr (.inr (.inl h))
  unfold Esc.editTmpl
  rw [any_key_false _ _ hnot]
  simp only [Bool.false_eq_true, if_false]
  show PostS _ e _
  refine PostS.of_add _ e _ (tn, id) h1 h2 h3 rfl rfl rfl ?_ ?_ hm ⟨rfl, List.mem_singleton.mpr rfl⟩
  · refine ⟨h1.1, ?_, h1.2.2⟩
    show (List.map (·.1) (e.tmplEdits ++ [((tn, id), v)])).Nodup
    rw [List.map_append]
    exact nodup_add _ _ h1.2.1 hnot
  · intro k' hk'
    rcases hk' with h | h | h
    · exact .inl (.inl h)
    · have : k' ∈ (e.tmplEdits ++ [((tn, id), v)]).map (·.1) := h
      rw [List.map_append, List.mem_append] at this
      rcases this with h | h
      · exact .inl (.inr (.inl h))
      · simp only [List.map_cons, List.map_nil, List.mem_singleton] at h; exact .inr h
    · exact .inl (.inr (.inr h))

def NodeS (env : Env) (f : Nat) : Prop :=
  ∀ tn e c n, ND e → KM e → ED e → Memo e tn → (∀ id ∈ nodeIds n, ¬ Keys e (tn, id)) → (nodeIds n).Nodup →
    OutS (fun r : Esc × Ctx => PostS (fun k => k.1 = tn ∧ k.2 ∈ nodeIds n) e r.1) (escapeNode env f tn e c n)
def ListS (env : Env) (f : Nat) : Prop :=
  ∀ tn e c l, ND e → KM e → ED e → Memo e tn → (∀ id ∈ listIds l, ¬ Keys e (tn, id)) → (listIds l).Nodup →
    OutS (fun r : Esc × Ctx => PostS (fun k => k.1 = tn ∧ k.2 ∈ listIds l) e r.1) (escapeList env f tn e c l)
def BranchS (env : Env) (f : Nat) : Prop :=
  ∀ tn e c t el b, ND e → KM e → ED e → Memo e tn → (∀ id ∈ listIds t ++ listIds el, ¬ Keys e (tn, id)) →
    (listIds t ++ listIds el).Nodup →
    OutS (fun r : Esc × Ctx => PostS (fun k => k.1 = tn ∧ k.2 ∈ listIds t ++ listIds el) e r.1)
      (escapeBranch env f tn e c t el b)
def TreeS (env : Env) (f : Nat) : Prop :=
  ∀ e c name, ND e → KM e → ED e →
    OutS (fun r : Esc × Ctx × String => PostS (fun _ => False) e r.1) (escapeTree env f e c name)
def OutSp (env : Env) (f : Nat) : Prop :=
  ∀ e c tname t, ND e → KM e → ED e → (∀ k, Keys e k → k.1 ≠ tname) → (∀ tr, t = some tr → IdsDistinct tr.root) →
    OutS (fun r : Esc × Ctx => PostS (fun k => k.1 = tname) e r.1) (computeOutCtx env f e c tname t)
def BodyS (env : Env) (f : Nat) : Prop :=
  ∀ e c tname t, ND e → KM e → ED e → (∀ k, Keys e k → k.1 ≠ tname) → (∀ tr, t = some tr → IdsDistinct tr.root) →
    OutS (fun r : Esc × Ctx × Bool => PostS (fun k => k.1 = tname) e r.1 ∧
        (r.2.2 = false → r.1.actionEdits = e.actionEdits ∧ r.1.tmplEdits = e.tmplEdits ∧ r.1.textEdits = e.textEdits))
      (escapeTemplateBody env f e c tname t)

/-- chaining two steps over disjoint id sets -/
theorem chain_fresh {tn : String} {ids1 ids2 : List Nat} {e e1 : Esc}
    (hp : PostS (fun k => k.1 = tn ∧ k.2 ∈ ids1) e e1) (hm : Memo e tn)
    (hfr : ∀ id ∈ ids1 ++ ids2, ¬ Keys e (tn, id)) (hnd : (ids1 ++ ids2).Nodup) :
    ∀ id ∈ ids2, ¬ Keys e1 (tn, id) := by
  intro id hid hk
  rcases hp.2.2.2.2 _ hk with h | h | h
  · exact hfr id (List.mem_append_right _ hid) h
  · rw [List.nodup_append] at hnd
    exact hnd.2.2 id h.2 id hid rfl
  · exact h hm

theorem chain_post {tn : String} {ids1 ids2 : List Nat} {e e1 e2 : Esc}
    (h1 : PostS (fun k => k.1 = tn ∧ k.2 ∈ ids1) e e1) (h2 : PostS (fun k => k.1 = tn ∧ k.2 ∈ ids2) e1 e2) :
    PostS (fun k => k.1 = tn ∧ k.2 ∈ ids1 ++ ids2) e e2 :=
  (h1.weaken (fun k hk => .inl ⟨hk.1, List.mem_append_left _ hk.2⟩)).trans
    (h2.weaken (fun k hk => .inl ⟨hk.1, List.mem_append_right _ hk.2⟩))

theorem listS_succ {env f} (hn : NodeS env f) (hl : ListS env f) : ListS env (f + 1) := by
  intro tn e c l h1 h2 h3 hm hfr hnd
  cases l with
  | nil => simp only [escapeList]; exact PostS.refl _ e h1 h2 h3
  | cons n ns =>
    simp only [escapeList]
    simp only [listIds] at hfr hnd ⊢
    have hnd' := hnd
    rw [List.nodup_append] at hnd'
    apply OutS.bind (hn tn e c n h1 h2 h3 hm (fun id hid => hfr id (List.mem_append_left _ hid)) hnd'.1)
    intro r hr
    apply OutS.mono (hl tn r.1 r.2 ns hr.2.1 hr.2.2.1 hr.2.2.2.1 (hr.1 tn hm) (chain_fresh hr hm hfr hnd) hnd'.2.1)
    intro r2 hr2
    exact chain_post hr hr2


theorem keys_scratch (e : Esc) (k : EditKey) :
    ¬ Keys { output := e.output, pristine := e.pristine, memoPrefix := e.memoPrefix } k := by
  intro h; rcases h with h | h | h <;> cases h

theorem branchS_succ {env f} (hl : ListS env f) : BranchS env (f + 1) := by
  intro tn e c t el b h1 h2 h3 hm hfr hnd
  simp only [escapeBranch]
  have hnd' := hnd
  rw [List.nodup_append] at hnd'
  apply OutS.bind (hl tn e c t h1 h2 h3 hm (fun id hid => hfr id (List.mem_append_left _ hid)) hnd'.1)
  intro r hr
  apply OutS.bind (Q := fun _ => True)
  · split
    · apply OutS.bind (Q := fun _ => True)
      · apply OutS.mono (hl tn { output := r.1.output, pristine := r.1.pristine, memoPrefix := r.1.memoPrefix } r.2 t
          ⟨List.nodup_nil, List.nodup_nil, List.nodup_nil⟩ (fun k hk => absurd hk (keys_scratch r.1 k))
          ⟨(by intro p h; cases h), hr.2.2.2.1.2⟩ (hr.1 tn hm) (fun id _ => keys_scratch r.1 _) hnd'.1)
        intro _ _; trivial
      · intro _ _; trivial
    · trivial
  · intro j _
    have key : OutS (fun r2 : Esc × Ctx => PostS (fun k => k.1 = tn ∧ k.2 ∈ listIds t ++ listIds el) e r2.1)
        (escapeList env f tn r.1 c el) := by
      apply OutS.mono (hl tn r.1 c el hr.2.1 hr.2.2.1 hr.2.2.2.1 (hr.1 tn hm) (chain_fresh hr hm hfr hnd) hnd'.2.1)
      intro r2 hr2
      exact chain_post hr hr2
    split
    · split
      · exact hr.weaken (fun k hk => .inl ⟨hk.1, List.mem_append_left _ hk.2⟩)
      · apply OutS.bind key
        intro r2 hr2; exact hr2
    · apply OutS.bind key
      intro r2 hr2; exact hr2

theorem nodeS_succ {env f} (hb : BranchS env f) (ht : TreeS env f) : NodeS env (f + 1) := by
  intro tn e c n h1 h2 h3 hm hfr hnd
  have hbr : ∀ (id : Nat) (t el : NodeList) (b : Bool),
      (∀ i ∈ id :: (listIds t ++ listIds el), ¬ Keys e (tn, i)) → (id :: (listIds t ++ listIds el)).Nodup →
      OutS (fun r : Esc × Ctx => PostS (fun k => k.1 = tn ∧ k.2 ∈ id :: (listIds t ++ listIds el)) e r.1)
        (escapeBranch env f tn e c t el b) := by
    intro id t el b hfr' hnd'
    apply OutS.mono (hb tn e c t el b h1 h2 h3 hm (fun i hi => hfr' i (List.mem_cons_of_mem _ hi))
      (List.nodup_cons.mp hnd').2)
    intro r hr
    exact hr.weaken (fun k hk => .inl ⟨hk.1, List.mem_cons_of_mem _ hk.2⟩)
  cases n with
  | action id p =>
    simp only [escapeNode, nodeIds] at hfr ⊢
    exact escapeAction_S env tn e c id p h1 h2 h3 hm (hfr id (List.mem_singleton.mpr rfl))
  | text id b =>
    simp only [escapeNode, nodeIds] at hfr ⊢
    exact escapeTextNode_S env tn e c id b h1 h2 h3 hm (hfr id (List.mem_singleton.mpr rfl))
  | ifN id p t el => simp only [escapeNode, nodeIds] at hfr hnd ⊢; exact hbr id t el false hfr hnd
  | withN id p t el => simp only [escapeNode, nodeIds] at hfr hnd ⊢; exact hbr id t el false hfr hnd
  | rangeN id p t el => simp only [escapeNode, nodeIds] at hfr hnd ⊢; exact hbr id t el true hfr hnd
  | tmpl id name p =>
    simp only [escapeNode, nodeIds] at hfr ⊢
    apply OutS.bind (ht e c name h1 h2 h3)
    intro r hr
    have hr' : PostS (fun k => k.1 = tn ∧ k.2 ∈ [id]) e r.1 := hr.weaken (fun _ hk => hk.elim)
    split
    · have hfr1 : ¬ Keys r.1 (tn, id) := by
        intro hk
        rcases hr.2.2.2.2 _ hk with h | h | h
        · exact hfr id (List.mem_singleton.mpr rfl) h
        · exact h
        · exact h hm
      apply OutS.bind (editTmpl_S tn r.1 id r.2.2 hr.2.1 hr.2.2.1 hr.2.2.2.1 (hr.1 tn hm) hfr1)
      intro e' he'
      exact hr'.trans he'
    · exact hr'
  | brk id => simp only [escapeNode]; exact PostS.refl _ e h1 h2 h3
  | cont id => simp only [escapeNode]; exact PostS.refl _ e h1 h2 h3
  | comment id => simp only [escapeNode]; exact PostS.refl _ e h1 h2 h3


/-- only the memo grows (one more entry / an entry overwritten); edits, derived, pristine unchanged -/
theorem PostS.of_setOutput (S : EditKey → Prop) (e e' : Esc) (n : String) (v : Ctx) (h1 : ND e) (h2 : KM e) (h3 : ED e)
    (ho : e'.output = aset e.output n v) (hd : e'.derived = e.derived) (hp : e'.pristine = e.pristine)
    (ha : e'.actionEdits = e.actionEdits) (ht : e'.tmplEdits = e.tmplEdits) (hx : e'.textEdits = e.textEdits) :
    PostS S e e' := by
  have hk : ∀ k, Keys e' k ↔ Keys e k := by intro k; unfold Keys kA kT kX; rw [ha, ht, hx]
  have hm : Mono e e' := by intro m h; unfold Memo at h ⊢; rw [ho]; exact isSome_aset _ _ _ _ h
  refine ⟨hm, ?_, ?_, ?_, ?_⟩
  · unfold ND kA kT kX; rw [ha, ht, hx]; exact h1
  · intro k h; exact hm _ (h2 k ((hk k).mp h))
  · unfold ED; rw [hd, hp]; exact h3
  · intro k h; exact .inl ((hk k).mp h)

@[reducible] def scr (e : Esc) (o : List (String × Ctx)) : Esc := { output := o, pristine := e.pristine, memoPrefix := e.memoPrefix }

theorem bodyS_succ {env f} (hl : ListS env f) : BodyS env (f + 1) := by
  intro e c tname t h1 h2 h3 hnoK ht
  simp only [escapeTemplateBody]
  split
  · show msgNilTree ≠ msgShared; decide
  · rename_i tr
    have hms : ∀ n, Memo e n → Memo (scr e (aset e.output tname c)) n := fun n h => isSome_aset _ _ _ _ h
    have hmt : Memo (scr e (aset e.output tname c)) tname := by
      unfold Memo; simp only []; rw [alookup_aset, if_pos rfl]; rfl
    apply OutS.bind (hl tname (scr e (aset e.output tname c)) c tr.root ⟨List.nodup_nil, List.nodup_nil, List.nodup_nil⟩ (fun k hk => absurd hk (by
        intro h; rcases h with h | h | h <;> cases h))
      ⟨(by intro p h; cases h), h3.2⟩ hmt (fun id _ => by intro h; rcases h with h | h | h <;> cases h) (ht tr rfl))
    intro r hr
    obtain ⟨m1, n1, k1, d1, g1⟩ := hr
    -- keys of the scratch escaper are disjoint from the outer keys
    have hdisj : ∀ k, Keys r.1 k → ¬ Keys e k := by
      intro k hk1 hk
      rcases g1 k hk1 with h | h | h
      · rcases h with h | h | h <;> cases h
      · exact hnoK k hk h.1
      · exact h (hms _ (h2 k hk))
    split
    · -- ok: the three merges are concatenations
      have ea := mergeEdits_disjoint r.1.actionEdits e.actionEdits (by
        intro p hp q hq heq
        exact hdisj p.1 (.inl (List.mem_map.mpr ⟨p, hp, rfl⟩)) (.inl (List.mem_map.mpr ⟨q, hq, heq⟩))) n1.1
      have et := mergeEdits_disjoint r.1.tmplEdits e.tmplEdits (by
        intro p hp q hq heq
        exact hdisj p.1 (.inr (.inl (List.mem_map.mpr ⟨p, hp, rfl⟩))) (.inr (.inl (List.mem_map.mpr ⟨q, hq, heq⟩))))
        n1.2.1
      have ex := mergeEdits_disjoint r.1.textEdits e.textEdits (by
        intro p hp q hq heq
        exact hdisj p.1 (.inr (.inr (List.mem_map.mpr ⟨p, hp, rfl⟩))) (.inr (.inr (List.mem_map.mpr ⟨q, hq, heq⟩))))
        n1.2.2
      rw [ea, et, ex]
      show PostS _ e _ ∧ _
      refine ⟨⟨?_, ?_, ?_, ?_, ?_⟩, fun hf => nomatch hf⟩
      · intro n hn
        exact isSome_foldl_aset _ _ _ (isSome_aset _ _ _ _ hn)
      · have app : ∀ (l1 l2 : List EditKey), l1.Nodup → l2.Nodup → (∀ k, k ∈ l2 → k ∉ l1) → (l1 ++ l2).Nodup := by
          intro l1 l2 a b cdis
          rw [List.nodup_append]
          exact ⟨a, b, fun x hx y hy hxy => cdis y hy (hxy ▸ hx)⟩
        refine ⟨?_, ?_, ?_⟩
        · show (List.map (·.1) (e.actionEdits ++ r.1.actionEdits)).Nodup
          rw [List.map_append]
          exact app _ _ h1.1 n1.1 (fun k hk hk' => hdisj k (.inl hk) (.inl hk'))
        · show (List.map (·.1) (e.tmplEdits ++ r.1.tmplEdits)).Nodup
          rw [List.map_append]
          exact app _ _ h1.2.1 n1.2.1 (fun k hk hk' => hdisj k (.inr (.inl hk)) (.inr (.inl hk')))
        · show (List.map (·.1) (e.textEdits ++ r.1.textEdits)).Nodup
          rw [List.map_append]
          exact app _ _ h1.2.2 n1.2.2 (fun k hk hk' => hdisj k (.inr (.inr hk)) (.inr (.inr hk')))
      · -- KM
        intro k hk
        have hk' : Keys e k ∨ Keys r.1 k := by
          rcases hk with h | h | h
          · have : k ∈ (e.actionEdits ++ r.1.actionEdits).map (·.1) := h
            rw [List.map_append, List.mem_append] at this
            exact this.elim (fun h => .inl (.inl h)) (fun h => .inr (.inl h))
          · have : k ∈ (e.tmplEdits ++ r.1.tmplEdits).map (·.1) := h
            rw [List.map_append, List.mem_append] at this
            exact this.elim (fun h => .inl (.inr (.inl h))) (fun h => .inr (.inr (.inl h)))
          · have : k ∈ (e.textEdits ++ r.1.textEdits).map (·.1) := h
            rw [List.map_append, List.mem_append] at this
            exact this.elim (fun h => .inl (.inr (.inr h))) (fun h => .inr (.inr (.inr h)))
        rcases hk' with h | h
        · exact isSome_foldl_aset _ _ _ (isSome_aset _ _ _ _ (h2 k h))
        · exact isSome_foldl_aset_list _ _ _ (k1 k h)
      · refine ⟨?_, h3.2⟩
        intro p hp
        rcases mem_foldl_aset _ _ p hp with h | h
        · exact h3.1 p h
        · exact d1.1 p h
      · intro k hk
        have hk' : Keys e k ∨ Keys r.1 k := by
          rcases hk with h | h | h
          · have : k ∈ (e.actionEdits ++ r.1.actionEdits).map (·.1) := h
            rw [List.map_append, List.mem_append] at this
            exact this.elim (fun h => .inl (.inl h)) (fun h => .inr (.inl h))
          · have : k ∈ (e.tmplEdits ++ r.1.tmplEdits).map (·.1) := h
            rw [List.map_append, List.mem_append] at this
            exact this.elim (fun h => .inl (.inr (.inl h))) (fun h => .inr (.inr (.inl h)))
          · have : k ∈ (e.textEdits ++ r.1.textEdits).map (·.1) := h
            rw [List.map_append, List.mem_append] at this
            exact this.elim (fun h => .inl (.inr (.inr h))) (fun h => .inr (.inr (.inr h)))
        rcases hk' with h | h
        · exact .inl h
        · rcases g1 k h with h | h | h
          · rcases h with h | h | h <;> cases h
          · exact .inr (.inl h.1)
          · exact .inr (.inr (fun hm => h (hms _ hm)))
    · exact ⟨PostS.of_setOutput _ e _ tname c h1 h2 h3 rfl rfl rfl rfl rfl rfl, fun _ => ⟨rfl, rfl, rfl⟩⟩


theorem outS_succ {env f} (hb : BodyS env f) : OutSp env (f + 1) := by
  intro e c tname t h1 h2 h3 hnoK ht
  simp only [computeOutCtx]
  apply OutS.bind (hb e c tname t h1 h2 h3 hnoK ht)
  intro r hr
  obtain ⟨p1, q1⟩ := hr
  have fin : ∀ (e2 : Esc) (v : Ctx), PostS (fun k => k.1 = tname) e e2 →
      PostS (fun k => k.1 = tname) e { e2 with output := aset e2.output tname v } := by
    intro e2 v hp
    exact hp.trans (PostS.of_setOutput _ e2 _ tname v hp.2.1 hp.2.2.1 hp.2.2.2.1 rfl rfl rfl rfl rfl rfl)
  split
  · exact fin r.1 r.2.1 p1
  · rename_i hok
    have hokf : r.2.2 = false := by simpa using hok
    obtain ⟨ea, et, ex⟩ := q1 hokf
    have hnoK1 : ∀ k, Keys r.1 k → k.1 ≠ tname := by
      intro k hk
      apply hnoK k
      unfold Keys kA kT kX at hk ⊢
      rw [ea, et, ex] at hk; exact hk
    apply OutS.bind (hb r.1 r.2.1 tname t p1.2.1 p1.2.2.1 p1.2.2.2.1 hnoK1 ht)
    intro r2 hr2
    have p12 := p1.trans hr2.1
    split
    · exact fin r2.1 r2.2.1 p12
    · split
      · exact fin r2.1 _ p12
      · exact fin r2.1 r.2.1 p12

theorem template_ids {env : Env} (htd : TD env.text) {e : Esc} (he : ED e) {n : String} {tr : Tree}
    (h : Esc.template env e n = some (some tr)) : IdsDistinct tr.root := by
  unfold Esc.template at h
  split at h
  · rename_i t hl
    cases h
    exact htd n tr hl
  · cases hd : alookup e.derived n with
    | none => rw [hd] at h; cases h
    | some d =>
      rw [hd] at h
      simp only [Option.map_some, Option.some.injEq] at h
      subst h
      exact he.1 _ (mem_of_alookup _ _ _ hd)

theorem treeS_succ {env f} (htd : TD env.text) (ho : OutSp env f) : TreeS env (f + 1) := by
  intro e c name h1 h2 h3
  simp only [escapeTree]
  split
  · exact PostS.refl _ e h1 h2 h3
  · split
    · exact PostS.of_same _ e _ h1 h2 h3 rfl rfl rfl rfl rfl rfl
    · rename_i hnone
      have hnm : ¬ Memo e (mangle c name) := by unfold Memo; rw [hnone]; simp
      split
      · exact PostS.of_same _ e _ h1 h2 h3 rfl rfl rfl rfl rfl rfl
      · exact PostS.of_same _ e _ h1 h2 h3 rfl rfl rfl rfl rfl rfl
      · rename_i tr htmpl
        have hids : IdsDistinct tr.root := template_ids htd (e := _) (by exact h3) htmpl
        have hnoK : ∀ k, Keys e k → k.1 ≠ mangle c name := fun k hk heq => hnm (heq ▸ h2 k hk)
        -- turning the result of `computeOutCtx` into the result of `escapeTree`
        have conv : ∀ (em : Esc), PostS (fun _ => False) e em → Mono em e → ∀ r : Esc × Ctx,
            PostS (fun k => k.1 = mangle c name) em r.1 → PostS (fun _ => False) e r.1 := by
          intro em hpm hback r hr
          refine hpm.trans (hr.weaken ?_)
          intro k hk
          exact .inr (fun hm => hnm (hk ▸ hback _ hm))
        split
        · split
          · rename_i dt hdt
            have hpm := PostS.of_same (fun _ => False) e { e with
              called := if e.called.contains (mangle c name) then e.called else e.called ++ [mangle c name],
              memoPrefix := aset e.memoPrefix (mangle c name) (c.attrValue, c.ambiguous) } h1 h2 h3 rfl rfl rfl rfl rfl rfl
            apply OutS.bind (ho _ c _ dt hpm.2.1 hpm.2.2.1 hpm.2.2.2.1 (by exact hnoK) (by
              intro tr2 h2'; subst h2'
              exact template_ids htd (e := _) (by exact h3) hdt))
            intro r hr
            exact conv _ hpm (fun _ h => h) r hr
          · have hsrc : IdsDistinct ((alookup e.pristine name).getD tr).root := by
              cases hp : alookup e.pristine name with
              | none => exact hids
              | some t2 => exact h3.2 _ (mem_of_alookup _ _ _ hp)
            have hpm : PostS (fun _ => False) e { e with
                derived := aset e.derived (mangle c name) { name := mangle c name, root := ((alookup e.pristine name).getD tr).root },
                called := if e.called.contains (mangle c name) then e.called else e.called ++ [mangle c name],
                memoPrefix := aset e.memoPrefix (mangle c name) (c.attrValue, c.ambiguous) } := by
              refine ⟨fun _ h => h, h1, h2, ⟨?_, h3.2⟩, fun _ h => .inl h⟩
              intro p hp
              rcases mem_aset _ _ _ p hp with h | h
              · exact h3.1 p h
              · rw [h]; exact hsrc
            apply OutS.bind (ho _ c _ _ hpm.2.1 hpm.2.2.1 hpm.2.2.2.1 (by exact hnoK) (by
              intro tr2 h2'
              simp only [Option.some.injEq] at h2'
              subst h2'; exact hsrc))
            intro r hr
            exact conv _ hpm (fun _ h => h) r hr
        · have hpm := PostS.of_same (fun _ => False) e { e with
            called := if e.called.contains (mangle c name) then e.called else e.called ++ [mangle c name],
            memoPrefix := aset e.memoPrefix (mangle c name) (c.attrValue, c.ambiguous) } h1 h2 h3 rfl rfl rfl rfl rfl rfl
          apply OutS.bind (ho _ c _ (some tr) hpm.2.1 hpm.2.2.1 hpm.2.2.2.1 (by exact hnoK) (by
            intro tr2 h2'
            simp only [Option.some.injEq] at h2'
            subst h2'; exact hids))
          intro r hr
          exact conv _ hpm (fun _ h => h) r hr

/-- **"node shared between templates" cannot happen in the analysis** when node ids are distinct within every tree -/
theorem analysis_shared (env : Env) (htd : TD env.text) : ∀ f,
    NodeS env f ∧ ListS env f ∧ BranchS env f ∧ TreeS env f ∧ OutSp env f ∧ BodyS env f := by
  intro f
  induction f with
  | zero =>
    refine ⟨?_, ?_, ?_, ?_, ?_, ?_⟩
    · intro tn e c n _ _ _ _ _ _; simp only [escapeNode]; trivial
    · intro tn e c l _ _ _ _ _ _; simp only [escapeList]; trivial
    · intro tn e c t el b _ _ _ _ _ _; simp only [escapeBranch]; trivial
    · intro e c name _ _ _; simp only [escapeTree]; trivial
    · intro e c tname t _ _ _ _ _; simp only [computeOutCtx]; trivial
    · intro e c tname t _ _ _ _ _; simp only [escapeTemplateBody]; trivial
  | succ f ih =>
    obtain ⟨hn, hl, hb, ht, ho, hbd⟩ := ih
    exact ⟨nodeS_succ hb ht, listS_succ hn hl, branchS_succ hl, treeS_succ htd ho, outS_succ hbd, bodyS_succ hl⟩


/-! #### the commit keeps node ids -/

mutual
theorem node_apply_ids (tn : String) (e : Esc) : ∀ (n r : Node), Node.applyEdits tn e n = some r → nodeIds r = nodeIds n
  | .text id b, r, h => by
    simp only [Node.applyEdits] at h; cases h
    split <;> simp only [nodeIds]
  | .action id p, r, h => by
    simp only [Node.applyEdits] at h
    split at h
    · cases hh : ensurePipelineContains p _ with
      | none => rw [hh] at h; cases h
      | some p' => rw [hh] at h; cases h; simp only [nodeIds]
    · cases h; rfl
  | .tmpl id name p, r, h => by
    simp only [Node.applyEdits] at h; cases h
    split <;> simp only [nodeIds]
  | .ifN id p t el, r, h => by
    simp only [Node.applyEdits] at h
    cases ht : NodeList.applyEdits tn e t with
    | none => rw [ht] at h; cases h
    | some t' =>
      cases hel : NodeList.applyEdits tn e el with
      | none => rw [ht, hel] at h; cases h
      | some el' =>
        rw [ht, hel] at h; cases h
        simp only [nodeIds, list_apply_ids tn e t t' ht, list_apply_ids tn e el el' hel]
  | .rangeN id p t el, r, h => by
    simp only [Node.applyEdits] at h
    cases ht : NodeList.applyEdits tn e t with
    | none => rw [ht] at h; cases h
    | some t' =>
      cases hel : NodeList.applyEdits tn e el with
      | none => rw [ht, hel] at h; cases h
      | some el' =>
        rw [ht, hel] at h; cases h
        simp only [nodeIds, list_apply_ids tn e t t' ht, list_apply_ids tn e el el' hel]
  | .withN id p t el, r, h => by
    simp only [Node.applyEdits] at h
    cases ht : NodeList.applyEdits tn e t with
    | none => rw [ht] at h; cases h
    | some t' =>
      cases hel : NodeList.applyEdits tn e el with
      | none => rw [ht, hel] at h; cases h
      | some el' =>
        rw [ht, hel] at h; cases h
        simp only [nodeIds, list_apply_ids tn e t t' ht, list_apply_ids tn e el el' hel]
  | .brk id, r, h => by simp only [Node.applyEdits] at h; cases h; rfl
  | .cont id, r, h => by simp only [Node.applyEdits] at h; cases h; rfl
  | .comment id, r, h => by simp only [Node.applyEdits] at h; cases h; rfl
theorem list_apply_ids (tn : String) (e : Esc) : ∀ (l r : NodeList), NodeList.applyEdits tn e l = some r →
    listIds r = listIds l
  | .nil, r, h => by simp only [NodeList.applyEdits] at h; cases h; rfl
  | .cons n ns, r, h => by
    simp only [NodeList.applyEdits] at h
    cases hn : Node.applyEdits tn e n with
    | none => rw [hn] at h; cases h
    | some n' =>
      cases hns : NodeList.applyEdits tn e ns with
      | none => rw [hn, hns] at h; cases h
      | some ns' =>
        rw [hn, hns] at h; cases h
        simp only [listIds, node_apply_ids tn e n n' hn, list_apply_ids tn e ns ns' hns]
end

theorem install_td (ds : List (String × Tree)) (ts : TextSet) (h : TD ts) (hd : ∀ p ∈ ds, IdsDistinct p.2.root) :
    TD (ds.foldl installStep ts) := by
  intro n tr hl
  rcases install_lookup ds ts n with h1 | ⟨d, hm, h1⟩
  · rw [h1] at hl; exact h n tr hl
  · rw [h1] at hl; cases hl; exact hd _ hm

theorem editStep_td (e : Esc) (ts : TextSet) (n : String) (h : TD ts) : OutS TD (editStep e ts n) := by
  unfold editStep
  split
  · rename_i tr hl
    split
    · rename_i r hr
      intro m tr2 hl2
      rw [lookup_set] at hl2
      split at hl2
      · cases hl2
        unfold IdsDistinct
        simp only []
        rw [list_apply_ids n e tr.root r hr]
        exact h n tr hl
      · exact h m tr2 hl2
    · show msgArgs ≠ msgShared; decide
  · exact h

theorem edits_td (e : Esc) (names : List String) : ∀ ts, TD ts → OutS TD (names.foldlM (editStep e) ts) := by
  induction names with
  | nil => intro ts h; exact h
  | cons n t ih =>
    intro ts h
    rw [List.foldlM_cons]
    exact OutS.bind (editStep_td e ts n h) (fun ts1 h1 => ih ts1 h1)

theorem pristine_td (text : TextSet) (derived : List (String × Tree)) (htd : TD text)
    (hd : ∀ p ∈ derived, IdsDistinct p.2.root) (l : List (String × Ctx)) : ∀ (acc : List (String × Tree)),
    (∀ p ∈ acc, IdsDistinct p.2.root) →
    ∀ p ∈ l.foldl (fun (acc : List (String × Tree)) p =>
      if (alookup acc p.1).isSome then acc
      else match text.lookup p.1 with
        | some (some t) => acc ++ [(p.1, t)]
        | some none => acc
        | none => match alookup derived p.1 with
          | some t => acc ++ [(p.1, t)]
          | none => acc) acc, IdsDistinct p.2.root := by
  induction l with
  | nil => intro acc h; exact h
  | cons q t ih =>
    intro acc h
    rw [List.foldl_cons]
    apply ih
    split
    · exact h
    · split
      · rename_i tr hl
        intro p hp
        rcases List.mem_append.mp hp with hp | hp
        · exact h p hp
        · simp only [List.mem_singleton] at hp; rw [hp]; exact htd _ tr hl
      · exact h
      · split
        · rename_i tr hl
          intro p hp
          rcases List.mem_append.mp hp with hp | hp
          · exact h p hp
          · simp only [List.mem_singleton] at hp; rw [hp]; exact hd _ (mem_of_alookup _ _ _ hl)
        · exact h

/-- the invariant between critical sections needed for this panic site -/
def SI (text : TextSet) (e : Esc) : Prop := TD text ∧ ND e ∧ KM e ∧ ED e

theorem commit_shared (text : TextSet) (e : Esc) (h : SI text e) :
    OutS (fun r : TextSet × Esc => SI r.1 r.2) (commit text e) := by
  obtain ⟨htd, _, _, hed⟩ := h
  unfold commit
  simp only []
  split
  · show msgCommit ≠ msgShared; decide
  · apply OutS.bind (Q := TD)
    · exact edits_td _ _ _ (install_td e.derived text htd hed.1)
    · intro text2 h2
      refine ⟨h2, ⟨List.nodup_nil, List.nodup_nil, List.nodup_nil⟩, ?_, ?_, ?_⟩
      · intro k hk; rcases hk with h | h | h <;> cases h
      · intro p hp
        simp only [List.mem_map] at hp
        obtain ⟨q, hq, rfl⟩ := hp
        split
        · rename_i t hl; exact h2 _ t hl
        · exact hed.1 q hq
      · exact pristine_td text e.derived htd hed.1 e.output e.pristine hed.2

/-- **`escapeTemplateTop` never reports "node shared between templates"**, and the invariant is kept -/
theorem top_shared (w : World) (ns : Nat) (name : String) (h : SI (w.ns ns).text (w.ns ns).esc) :
    (∀ m, escapeTemplateTop w ns name = .inl (.panic m) → m ≠ msgShared) ∧
    (∀ w' r, escapeTemplateTop w ns name = .inr (w', r) → SI (w'.ns ns).text (w'.ns ns).esc) := by
  obtain ⟨htd, hnd, hkm, hed⟩ := h
  have key : ∀ env : Env, env.text = (w.ns ns).text →
      OutS (fun r : Esc × Ctx × String => PostS (fun _ => False) (w.ns ns).esc r.1)
        (escapeTree env w.fuel (w.ns ns).esc {} name) :=
    fun env henv => (analysis_shared env (by rw [henv]; exact htd) w.fuel).2.2.2.1 _ _ _ hnd hkm hed
  refine ⟨?_, ?_⟩
  · intro m h
    unfold escapeTemplateTop at h
    simp only [] at h
    split at h
    · rename_i m' hesc
      simp only [Sum.inl.injEq, Res.panic.injEq] at h
      subst h
      exact (key _ rfl).panic_of hesc
    · cases h
    · rename_i e1 c d hesc
      have hA := (key _ rfl).ok_of hesc
      split at h
      · cases h
      · split at h
        · rename_i m' hc
          simp only [Sum.inl.injEq, Res.panic.injEq] at h
          subst h
          exact (commit_shared (w.ns ns).text e1 ⟨htd, hA.2.1, hA.2.2.1, hA.2.2.2.1⟩).panic_of hc
        · cases h
        · cases h
  · intro w' r h
    obtain ⟨env, e1, c, d, henv, hesc, hr⟩ := escapeTemplateTop_spec_env w ns name w' r h
    have hA := (key env henv).ok_of hesc
    rcases hr with ⟨code, _, hns⟩ | ⟨text2, e2, _, _, hc, hns⟩
    · rw [hns]; exact ⟨htd, hA.2.1, hA.2.2.1, hA.2.2.2.1⟩
    · rw [hns]; exact (commit_shared (w.ns ns).text e1 ⟨htd, hA.2.1, hA.2.2.1, hA.2.2.2.1⟩).ok_of hc


/-! ### 2. the execution-time nil dereference -/

/-- `n` is not registered with a nil parse tree -/
def NTn (text : TextSet) (n : String) : Prop := text.lookup n ≠ some none
/-- no memoized name is registered with a nil tree -/
def NT (text : TextSet) (e : Esc) : Prop := ∀ n, Memo e n → NTn text n

def OutK {α} (Q : α → Prop) : Out α → Prop
  | .ok a => Q a
  | _ => True

theorem OutK.bind {α β} {Q : α → Prop} {R : β → Prop} {x : Out α} {f : α → Out β}
    (hx : OutK Q x) (hf : ∀ a, Q a → OutK R (f a)) : OutK R (x >>= f) := by
  cases x with
  | ok a => exact hf a hx
  | panic m => trivial
  | fuel => trivial

theorem OutK.ok_of {α} {Q : α → Prop} {x : Out α} {r : α} (h : OutK Q x) (he : x = .ok r) : Q r := by
  subst he; exact h

/-- names memoized by a step are not registered with a nil tree -/
def NM (text : TextSet) (e e' : Esc) : Prop := ∀ n, Memo e' n → Memo e n ∨ NTn text n

theorem NM.refl (text : TextSet) (e : Esc) : NM text e e := fun _ h => .inl h
theorem NM.trans {text : TextSet} {e e1 e2 : Esc} (h1 : NM text e e1) (h2 : NM text e1 e2) : NM text e e2 := by
  intro n h
  rcases h2 n h with h | h
  · exact h1 n h
  · exact .inr h
theorem NM.of_out {text : TextSet} {e e' : Esc} (h : e'.output = e.output) : NM text e e' := by
  intro n hm; left; unfold Memo at hm ⊢; rw [h] at hm; exact hm

def NodeN (env : Env) (f : Nat) : Prop :=
  ∀ tn e c n, OutK (fun r : Esc × Ctx => NM env.text e r.1) (escapeNode env f tn e c n)
def ListN (env : Env) (f : Nat) : Prop :=
  ∀ tn e c l, OutK (fun r : Esc × Ctx => NM env.text e r.1) (escapeList env f tn e c l)
def BranchN (env : Env) (f : Nat) : Prop :=
  ∀ tn e c t el b, OutK (fun r : Esc × Ctx => NM env.text e r.1) (escapeBranch env f tn e c t el b)
def TreeN (env : Env) (f : Nat) : Prop :=
  ∀ e c name, OutK (fun r : Esc × Ctx × String => NM env.text e r.1) (escapeTree env f e c name)
def OutN (env : Env) (f : Nat) : Prop :=
  ∀ e c tname t, (t ≠ none → NTn env.text tname) →
    OutK (fun r : Esc × Ctx => NM env.text e r.1) (computeOutCtx env f e c tname t)
def BodyN (env : Env) (f : Nat) : Prop :=
  ∀ e c tname t, (t ≠ none → NTn env.text tname) →
    OutK (fun r : Esc × Ctx × Bool => NM env.text e r.1 ∧ t ≠ none) (escapeTemplateBody env f e c tname t)

theorem nodeN_succ {env f} (hb : BranchN env f) (ht : TreeN env f) : NodeN env (f + 1) := by
  intro tn e c n
  cases n with
  | action id p =>
    simp only [escapeNode]
    cases h : escapeAction env tn e c id p with
    | ok r => exact NM.of_out (escapeAction_od env tn e c id p r h).1
    | panic m => trivial
    | fuel => trivial
  | text id b =>
    simp only [escapeNode]
    cases h : escapeTextNode env tn e c id b with
    | ok r => exact NM.of_out (escapeTextNode_od env tn e c id b r h).1
    | panic m => trivial
    | fuel => trivial
  | ifN id p t el => simp only [escapeNode]; exact hb _ _ _ _ _ _
  | withN id p t el => simp only [escapeNode]; exact hb _ _ _ _ _ _
  | rangeN id p t el => simp only [escapeNode]; exact hb _ _ _ _ _ _
  | tmpl id name p =>
    simp only [escapeNode]
    apply OutK.bind (ht e c name)
    intro r hr
    split
    · unfold Esc.editTmpl
      split
      · trivial
      · exact hr.trans (NM.of_out rfl)
    · exact hr
  | brk id => simp only [escapeNode]; exact NM.refl _ _
  | cont id => simp only [escapeNode]; exact NM.refl _ _
  | comment id => simp only [escapeNode]; exact NM.refl _ _

theorem listN_succ {env f} (hn : NodeN env f) (hl : ListN env f) : ListN env (f + 1) := by
  intro tn e c l
  cases l with
  | nil => simp only [escapeList]; exact NM.refl _ _
  | cons n ns =>
    simp only [escapeList]
    apply OutK.bind (hn tn e c n)
    intro r hr
    have := hl tn r.1 r.2 ns
    cases hx : escapeList env f tn r.1 r.2 ns with
    | ok r2 => rw [hx] at this; exact hr.trans this
    | panic m => trivial
    | fuel => trivial

theorem branchN_succ {env f} (hl : ListN env f) : BranchN env (f + 1) := by
  intro tn e c t el b
  simp only [escapeBranch]
  apply OutK.bind (hl tn e c t)
  intro r hr
  apply OutK.bind (Q := fun _ => True)
  · split
    · cases escapeList env f tn _ r.2 t <;> trivial
    · trivial
  · intro j _
    have key : OutK (fun r2 : Esc × Ctx => NM env.text e r2.1) (escapeList env f tn r.1 c el) := by
      have := hl tn r.1 c el
      cases hx : escapeList env f tn r.1 c el with
      | ok r2 => rw [hx] at this; exact hr.trans this
      | panic m => trivial
      | fuel => trivial
    split
    · split
      · exact hr
      · exact OutK.bind key (fun r2 h2 => h2)
    · exact OutK.bind key (fun r2 h2 => h2)

theorem bodyN_succ {env f} (hl : ListN env f) : BodyN env (f + 1) := by
  intro e c tname t ht
  simp only [escapeTemplateBody]
  split
  · trivial
  · rename_i tr
    have hN : NTn env.text tname := ht (by intro h; cases h)
    have hback : ∀ n, (alookup (aset e.output tname c) n).isSome = true → Memo e n ∨ NTn env.text n := by
      intro n hm
      rw [alookup_aset] at hm
      by_cases hn : n = tname
      · exact .inr (hn ▸ hN)
      · rw [if_neg hn] at hm; exact .inl hm
    apply OutK.bind (hl tname (scr e (aset e.output tname c)) c tr.root)
    intro r hr
    split
    · apply OutK.bind (Q := fun _ => True) (by cases mergeEdits e.actionEdits r.1.actionEdits <;> trivial)
      intro _ _
      apply OutK.bind (Q := fun _ => True) (by cases mergeEdits e.tmplEdits r.1.tmplEdits <;> trivial)
      intro _ _
      apply OutK.bind (Q := fun _ => True) (by cases mergeEdits e.textEdits r.1.textEdits <;> trivial)
      intro _ _
      refine ⟨?_, by intro h; cases h⟩
      intro n hm
      rcases isSome_foldl_aset_inv _ _ n hm with h | h
      · exact hback n h
      · rcases hr n h with h | h
        · exact hback n h
        · exact .inr h
    · exact ⟨fun n hm => hback n hm, by intro h; cases h⟩

theorem outN_succ {env f} (hb : BodyN env f) : OutN env (f + 1) := by
  intro e c tname t ht
  simp only [computeOutCtx]
  apply OutK.bind (hb e c tname t ht)
  intro r hr
  have fin : ∀ (e2 : Esc) (v : Ctx), NM env.text e e2 → t ≠ none →
      NM env.text e { e2 with output := aset e2.output tname v } := by
    intro e2 v h2 htn n hm
    rcases memo_setOutput e2 tname v n hm with rfl | hm
    · exact .inr (ht htn)
    · exact h2 n hm
  obtain ⟨hr1, htn⟩ := hr
  split
  · exact fin r.1 r.2.1 hr1 htn
  · apply OutK.bind (hb r.1 r.2.1 tname t ht)
    intro r2 hr2
    have h12 := hr1.trans hr2.1
    split
    · exact fin r2.1 r2.2.1 h12 htn
    · split
      · exact fin r2.1 _ h12 htn
      · exact fin r2.1 r.2.1 h12 htn

theorem template_NT {env : Env} {e : Esc} {n : String} {tr : Tree}
    (h : Esc.template env e n = some (some tr)) : NTn env.text n := by
  unfold Esc.template at h
  unfold NTn
  split at h
  · rename_i t hl; cases h; rw [hl]; intro hx; cases hx
  · rename_i hl; rw [hl]; intro hx; cases hx

theorem treeN_succ {env f} (ho : OutN env f) : TreeN env (f + 1) := by
  intro e c name
  simp only [escapeTree]
  split
  · exact NM.refl _ _
  · split
    · exact NM.of_out rfl
    · split
      · exact NM.of_out rfl
      · exact NM.of_out rfl
      · rename_i tr htmpl
        split
        · split
          · rename_i dt hdt
            apply OutK.bind (ho _ c _ dt (by
              intro hne
              cases dt with
              | none => exact absurd rfl hne
              | some tr2 => exact template_NT hdt))
            intro r hr
            exact fun n hm => hr n hm
          · rename_i hdt
            apply OutK.bind (ho _ c _ _ (by
              intro _
              unfold NTn
              rw [template_none _ hdt]; intro hx; cases hx))
            intro r hr
            exact fun n hm => hr n hm
        · rename_i hdn
          have hdn' : mangle c name = name := by simpa using hdn
          apply OutK.bind (ho _ c _ (some tr) (by intro _; rw [hdn']; exact template_NT htmpl))
          intro r hr
          exact fun n hm => hr n hm

theorem analysis_NM (env : Env) : ∀ f,
    NodeN env f ∧ ListN env f ∧ BranchN env f ∧ TreeN env f ∧ OutN env f ∧ BodyN env f := by
  intro f
  induction f with
  | zero =>
    refine ⟨?_, ?_, ?_, ?_, ?_, ?_⟩
    · intro tn e c n; simp only [escapeNode]; trivial
    · intro tn e c l; simp only [escapeList]; trivial
    · intro tn e c t el b; simp only [escapeBranch]; trivial
    · intro e c name; simp only [escapeTree]; trivial
    · intro e c tname t _; simp only [computeOutCtx]; trivial
    · intro e c tname t _; simp only [escapeTemplateBody]; trivial
  | succ f ih =>
    obtain ⟨hn, hl, hb, ht, ho, hbd⟩ := ih
    exact ⟨nodeN_succ hb ht, listN_succ hn hl, branchN_succ hl, treeN_succ ho, outN_succ hbd, bodyN_succ hl⟩


theorem nt_analysis {env : Env} {e : Esc} (h : NT env.text e) (f : Nat) (c : Ctx) (name : String)
    (r : Esc × Ctx × String) (hr : escapeTree env f e c name = .ok r) : NT env.text r.1 := by
  have := ((analysis_NM env f).2.2.2.1 e c name).ok_of hr
  intro n hm
  rcases this n hm with h1 | h1
  · exact h n h1
  · exact h1

theorem installStep_NTn (ts : TextSet) (p : String × Tree) (n : String) (h : NTn ts n) : NTn (installStep ts p) n := by
  unfold NTn at h ⊢
  rcases installStep_lookup ts p n with h1 | ⟨_, h1⟩
  · rw [h1]; exact h
  · rw [h1]; intro hx; cases hx

theorem install_NTn (ds : List (String × Tree)) : ∀ (ts : TextSet) (n : String), NTn ts n →
    NTn (ds.foldl installStep ts) n := by
  induction ds with
  | nil => intro ts n h; exact h
  | cons q t ih => intro ts n h; exact ih _ n (installStep_NTn ts q n h)

theorem editStep_NTn (e : Esc) (ts ts' : TextSet) (m n : String) (h : editStep e ts m = .ok ts') (hn : NTn ts n) :
    NTn ts' n := by
  unfold editStep at h
  split at h
  · split at h
    · cases h
      unfold NTn at hn ⊢
      rw [lookup_set]
      split
      · intro hx; cases hx
      · exact hn
    · cases h
  · cases h; exact hn

theorem edits_NTn (e : Esc) (names : List String) : ∀ (ts ts' : TextSet) (n : String),
    names.foldlM (editStep e) ts = .ok ts' → NTn ts n → NTn ts' n := by
  induction names with
  | nil => intro ts ts' n h hn; cases h; exact hn
  | cons m t ih =>
    intro ts ts' n h hn
    rw [List.foldlM_cons] at h
    obtain ⟨ts1, h1, h2⟩ := bind_ok h
    exact ih ts1 ts' n h2 (editStep_NTn e ts ts1 m n h1 hn)

theorem nt_commit (text : TextSet) (e : Esc) (text2 : TextSet) (e2 : Esc) (h : NT text e)
    (hc : commit text e = .ok (text2, e2)) : NT text2 e2 := by
  have hout := (commit_post text e text2 e2 hc).1
  obtain ⟨pr, h1, _⟩ := commit_spec text e text2 e2 hc
  intro n hm
  have hm' : Memo e n := by unfold Memo at hm ⊢; rw [hout] at hm; exact hm
  exact edits_NTn _ _ _ _ n h1 (install_NTn e.derived text n (h n hm'))

/-- `NT` is an invariant of the critical sections -/
theorem top_keeps_NT (w w' : World) (ns : Nat) (name : String) (r : Option ErrCode)
    (h : NT (w.ns ns).text (w.ns ns).esc) (ht : escapeTemplateTop w ns name = .inr (w', r)) :
    NT (w'.ns ns).text (w'.ns ns).esc := by
  obtain ⟨env, e1, c, d, henv, hesc, hr⟩ := escapeTemplateTop_spec_env w ns name w' r ht
  have h1 : NT (w.ns ns).text e1 := by
    have := nt_analysis (env := env) (by rw [henv]; exact h) _ _ _ _ hesc
    rw [henv] at this; exact this
  rcases hr with ⟨code, _, hns⟩ | ⟨text2, e2, _, _, hc, hns⟩
  · rw [hns]; exact h1
  · rw [hns]; exact nt_commit _ _ _ _ h1 hc

theorem nt_fresh (text : TextSet) (e : Esc) (ho : e.output = []) : NT text e := by
  intro n hm; unfold Memo at hm; rw [ho] at hm; cases hm

theorem fieldChain_ne : ∀ (l : List String) (v : Value), fieldChain v l ≠ .error .nilTree := by
  intro l
  induction l with
  | nil => intro v; simp only [fieldChain]; intro h; cases h
  | cons f rest ih =>
    intro v
    simp only [fieldChain]
    split
    · split
      · exact ih _
      · intro h; cases h
    · intro h; cases h
    · intro h; cases h
    · intro h; cases h

theorem runFn_map_ne (f : String) (v : Value) :
    (match runFn f v with
      | .ok r => (Except.ok r : Except ExecErr Value)
      | .error .sanitizer => .error .exec
      | .error .unsupported => .error .unsupported) ≠ .error .nilTree := by
  split <;> (intro h; cases h)

theorem evalCmd_ne (dot root : Value) (cmd : Cmd) (piped : Option Value) :
    evalCmd dot root cmd piped ≠ .error .nilTree := by
  unfold evalCmd
  split
  · intro h; cases h
  · split
    · exact runFn_map_ne _ _
    · rename_i a
      have key : ∀ (fn : String) (av : Except ExecErr Value), av ≠ .error .nilTree →
          (match av with
            | .error e => (Except.error e : Except ExecErr Value)
            | .ok v =>
              match runFn fn v with
              | .ok r => .ok r
              | .error .sanitizer => .error .exec
              | .error .unsupported => .error .unsupported) ≠ .error .nilTree := by
        intro fn av hav
        cases av with
        | error e => simp only []; intro h; cases h; exact hav rfl
        | ok v => exact runFn_map_ne fn v
      apply key
      split
      · intro h; cases h
      · exact fieldChain_ne _ _
      · intro h; cases h
      · intro h; cases h
    · intro h; cases h
  · split
    · intro h; cases h
    · split
      · intro h; cases h
      · exact fieldChain_ne _ _
      · intro h; cases h
      · intro h; cases h
      · intro h; cases h
      · exact fieldChain_ne _ _
      · intro h; cases h
      · split <;> (intro h; cases h)
      · intro h; cases h
  · intro h; cases h

theorem evalPipe_go_ne (dot root : Value) : ∀ (cs : List Cmd) (piped : Option Value),
    evalPipe.go dot root cs piped ≠ .error .nilTree := by
  intro cs
  induction cs with
  | nil => intro piped; cases piped <;> (simp only [evalPipe.go]; intro h; cases h)
  | cons c rest ih =>
    intro piped
    simp only [evalPipe.go]
    cases hc : evalCmd dot root c piped with
    | error er =>
      intro h
      have : er = .nilTree := by
        simp only [bind, Except.bind] at h
        cases h; rfl
      rw [this] at hc
      exact evalCmd_ne dot root c piped hc
    | ok v => exact ih (some v)

theorem evalPipe_ne (dot root : Value) (p : Pipe) : evalPipe dot root p ≠ .error .nilTree := by
  unfold evalPipe
  split
  · intro h; cases h
  · exact evalPipe_go_ne dot root _ _

/-- execution never dereferences a nil tree when all reachable names have trees -/
def WalkOK (F : String → Prop) (plain : Bool) (text : TextSet) (f : Nat) : Prop :=
  (∀ depth dot root out n, nodeCallsIn F n → (walkNode plain text depth f dot root out n).err ≠ some .nilTree) ∧
  (∀ depth dot root out l, listCallsIn F l → (walkList plain text depth f dot root out l).err ≠ some .nilTree) ∧
  (∀ depth vs root out l, listCallsIn F l → (walkRange plain text depth f vs root out l).err ≠ some .nilTree)

theorem walk_no_nil (F : String → Prop) (plain : Bool) (text : TextSet) (hcl : Closed F text)
    (hnt : ∀ n, F n → NTn text n) : ∀ f, WalkOK F plain text f := by
  intro f
  induction f with
  | zero =>
    refine ⟨?_, ?_, ?_⟩
    · intro depth dot root out n _; simp only [walkNode]; intro h; cases h
    · intro depth dot root out l _; simp only [walkList]; intro h; cases h
    · intro depth vs root out l _; simp only [walkRange]; intro h; cases h
  | succ f ih =>
    obtain ⟨hn, hl, hr⟩ := ih
    refine ⟨?_, ?_, ?_⟩
    · intro depth dot root out n hc
      cases n with
      | text id b => simp only [walkNode]; intro h; cases h
      | action id p =>
        simp only [walkNode]
        have hp := evalPipe_ne dot root p
        cases hev : evalPipe dot root p with
        | error er =>
          simp only []
          intro h
          simp only [Option.some.injEq] at h
          rw [h] at hev; exact hp hev
        | ok v =>
          simp only []
          repeat' split
          all_goals (intro h; cases h)
      | brk id => simp only [walkNode]; intro h; cases h
      | cont id => simp only [walkNode]; intro h; cases h
      | comment id => simp only [walkNode]; intro h; cases h
      | ifN id p t e =>
        simp only [nodeCallsIn] at hc
        simp only [walkNode]
        have hp := evalPipe_ne dot root p
        cases hev : evalPipe dot root p with
        | error er =>
          simp only []
          intro h
          simp only [Option.some.injEq] at h
          rw [h] at hev; exact hp hev
        | ok v =>
          simp only []
          split
          · exact hl _ _ _ _ _ hc.1
          · exact hl _ _ _ _ _ hc.2
      | withN id p t e =>
        simp only [nodeCallsIn] at hc
        simp only [walkNode]
        have hp := evalPipe_ne dot root p
        cases hev : evalPipe dot root p with
        | error er =>
          simp only []
          intro h
          simp only [Option.some.injEq] at h
          rw [h] at hev; exact hp hev
        | ok v =>
          simp only []
          split
          · exact hl _ _ _ _ _ hc.1
          · exact hl _ _ _ _ _ hc.2
      | rangeN id p t e =>
        simp only [nodeCallsIn] at hc
        simp only [walkNode]
        have hp := evalPipe_ne dot root p
        cases hev : evalPipe dot root p with
        | error er =>
          simp only []
          intro h
          simp only [Option.some.injEq] at h
          rw [h] at hev; exact hp hev
        | ok v =>
          simp only []
          split
          · split
            · exact hl _ _ _ _ _ hc.2
            · exact hr _ _ _ _ _ hc.1
          · split
            · exact hl _ _ _ _ _ hc.2
            · exact hr _ _ _ _ _ hc.1
          · exact hl _ _ _ _ _ hc.2
          · exact hl _ _ _ _ _ hc.2
          · intro h; cases h
      | tmpl id name p =>
        simp only [nodeCallsIn] at hc
        simp only [walkNode]
        split
        · rename_i tr htr
          have hdv : ∀ dv : Except ExecErr Value, dv ≠ .error .nilTree →
              (match dv with
                | .error er => (⟨out, some er⟩ : ExecRes)
                | .ok d => if depth ≥ 2000 then ⟨out, some .depth⟩
                    else walkList plain text (depth + 1) f d d out tr.root).err ≠ some .nilTree := by
            intro dv hdv
            cases dv with
            | error er =>
              simp only []
              intro h
              simp only [Option.some.injEq] at h
              exact hdv (by rw [h])
            | ok d =>
              simp only []
              split
              · intro h; cases h
              · exact hl _ _ _ _ _ (hcl name hc tr htr)
          apply hdv
          split
          · intro h; cases h
          · exact evalPipe_ne _ _ _
        · rename_i hnone
          exact absurd hnone (hnt name hc)
        · intro h; cases h
    · intro depth dot root out l hc
      cases l with
      | nil => simp only [walkList]; intro h; cases h
      | cons n ns =>
        simp only [listCallsIn] at hc
        simp only [walkList]
        split
        · exact hn _ _ _ _ _ hc.1
        · exact hl _ _ _ _ _ hc.2
    · intro depth vs root out l hc
      cases vs with
      | nil => simp only [walkRange]; intro h; cases h
      | cons v rest =>
        simp only [walkRange]
        split
        · exact hl _ _ _ _ _ hc
        · exact hr _ _ _ _ _ hc


theorem textExecute_no_panic (F : String → Prop) (w : World) (o : TObj) (d : Value)
    (hcl : Closed F (w.ns o.ns).text) (hnt : ∀ n, F n → NTn (w.ns o.ns).text n) (hF : F o.name) (m : String) :
    textExecute w o d ≠ .panic m := by
  unfold textExecute
  simp only []
  split
  · intro h; cases h
  · rename_i tr htr
    have hc : listCallsIn F tr.root := by
      split at htr
      · split at htr
        · rename_i t hl; subst htr; exact hcl o.name hF tr hl
        · cases htr
      · cases htr
    have := (walk_no_nil F false (w.ns o.ns).text hcl hnt w.fuel).2.1 0 d d [] tr.root hc
    split
    · intro h; cases h
    · rename_i hnil; exact absurd hnil this
    · intro h; cases h
    · intro h; cases h
    · intro h; cases h
    · intro h; cases h

/-- **The execution-time nil dereference is unreachable for analysed templates.** If the analysis of `o` succeeds in a
    name space satisfying `GoodNs` and `NT` (both hold for a set that has not been executed, and both are invariants
    of the critical sections — also when `Clone` has registered tree-less templates), then executing `o` never panics,
    neither right away nor after any later analyses in the set. -/
theorem C08_exec_no_panic (w0 : World) (ns : Nat) (hg : GoodNs (w0.ns ns)) (hnt : NT (w0.ns ns).text (w0.ns ns).esc)
    (o : TObj) (hons : o.ns = ns) (w1 : World) (h : escapeTemplateTop w0 ns o.name = .inr (w1, none))
    (after : List String) (d : Value) (m : String) :
    textExecute (analyses ns w1 after) o d ≠ .panic m := by
  obtain ⟨_, hcl⟩ := good_top w0 w1 ns o.name none hg h
  obtain ⟨hm, hc⟩ := hcl rfl
  have hnt1 := top_keeps_NT w0 w1 ns o.name none hnt h
  have hfro := C09_frozen_reachable w0 ns hg [] o hons w1 h after d
  rw [hfro]
  subst hons
  exact textExecute_no_panic (MemoOk (w1.ns o.ns).esc) w1 o d hc (fun n hn => hnt1 n hn.memo) hm m

/-! ### 3. the wire format assigns distinct node ids -/

def InRange (lo hi : Nat) (l : List Nat) : Prop := l.Nodup ∧ ∀ i ∈ l, lo ≤ i ∧ i < hi

theorem inRange_single (id hi : Nat) (h : id < hi) : InRange id hi [id] :=
  ⟨by simp, fun i hi' => by simp only [List.mem_singleton] at hi'; omega⟩

theorem inRange_mono {lo lo' hi hi' : Nat} {l : List Nat} (h : InRange lo hi l) (h1 : lo' ≤ lo) (h2 : hi ≤ hi') :
    InRange lo' hi' l := ⟨h.1, fun i hi => by have := h.2 i hi; omega⟩

theorem inRange_append {a b c : Nat} {l1 l2 : List Nat} (h1 : InRange a b l1) (h2 : InRange b c l2)
    (hab : a ≤ b) (hbc : b ≤ c) : InRange a c (l1 ++ l2) := by
  refine ⟨?_, ?_⟩
  · rw [List.nodup_append]
    refine ⟨h1.1, h2.1, ?_⟩
    intro x hx y hy hxy
    have := h1.2 x hx; have := h2.2 y hy; omega
  · intro i hi
    rcases List.mem_append.mp hi with h | h
    · have := h1.2 i h; omega
    · have := h2.2 i h; omega

theorem inRange_cons {id hi : Nat} {l : List Nat} (h : InRange (id + 1) hi l) (hlt : id < hi) :
    InRange id hi (id :: l) := by
  refine ⟨?_, ?_⟩
  · rw [List.nodup_cons]
    exact ⟨fun hm => by have := h.2 id hm; omega, h.1⟩
  · intro i hi'
    rcases List.mem_cons.mp hi' with rfl | h'
    · omega
    · have := h.2 i h'; omega

def NodeWr (f : Nat) : Prop := ∀ id ts n id' r, parseNode f id ts = some (n, id', r) → id < id' ∧ InRange id id' (nodeIds n)
def ListWr (f : Nat) : Prop := ∀ id ts l id' r, parseList f id ts = some (l, id', r) → id ≤ id' ∧ InRange id id' (listIds l)
def ItemsWr (f : Nat) : Prop := ∀ id ts l id' r, parseItems f id ts = some (l, id', r) → id ≤ id' ∧ InRange id id' (listIds l)

theorem branch_range {id id1 id2 : Nat} {t e : List Nat} (h1 : id + 1 ≤ id1 ∧ InRange (id + 1) id1 t)
    (h2 : id1 ≤ id2 ∧ InRange id1 id2 e) : id < id2 ∧ InRange id id2 (id :: (t ++ e)) :=
  ⟨by omega, inRange_cons (inRange_append h1.2 h2.2 h1.1 h2.1) (by omega)⟩

theorem nodeWr_succ {f} (hl : ListWr f) : NodeWr (f + 1) := by
  intro id ts n id' r h
  simp only [parseNode] at h
  split at h
  · -- T
    rename_i hx rest
    cases hu : unhex hx with
    | none => simp [hu] at h
    | some b =>
      simp [hu] at h
      obtain ⟨rfl, rfl, rfl⟩ := h
      exact ⟨by omega, by simp only [nodeIds]; exact inRange_single id _ (by omega)⟩
  · -- A
    rename_i rest
    cases hp : parsePipe rest with
    | none => simp [hp] at h
    | some q =>
      simp [hp] at h
      obtain ⟨rfl, rfl, rfl⟩ := h
      exact ⟨by omega, by simp only [nodeIds]; exact inRange_single id _ (by omega)⟩
  · -- I
    rename_i rest
    cases hp : parsePipe rest with
    | none => simp [hp] at h
    | some q =>
      cases h1 : parseList f (id + 1) q.2 with
      | none => simp [hp, h1] at h
      | some x =>
        obtain ⟨t, id1, r1⟩ := x
        cases h2 : parseList f id1 r1 with
        | none => simp [hp, h1, h2] at h
        | some y =>
          obtain ⟨e, id2, r2⟩ := y
          simp [hp, h1, h2] at h
          obtain ⟨rfl, rfl, rfl⟩ := h
          simp only [nodeIds]
          exact branch_range (hl _ _ _ _ _ h1) (hl _ _ _ _ _ h2)
  · -- R
    rename_i rest
    cases hp : parsePipe rest with
    | none => simp [hp] at h
    | some q =>
      cases h1 : parseList f (id + 1) q.2 with
      | none => simp [hp, h1] at h
      | some x =>
        obtain ⟨t, id1, r1⟩ := x
        cases h2 : parseList f id1 r1 with
        | none => simp [hp, h1, h2] at h
        | some y =>
          obtain ⟨e, id2, r2⟩ := y
          simp [hp, h1, h2] at h
          obtain ⟨rfl, rfl, rfl⟩ := h
          simp only [nodeIds]
          exact branch_range (hl _ _ _ _ _ h1) (hl _ _ _ _ _ h2)
  · -- W
    rename_i rest
    cases hp : parsePipe rest with
    | none => simp [hp] at h
    | some q =>
      cases h1 : parseList f (id + 1) q.2 with
      | none => simp [hp, h1] at h
      | some x =>
        obtain ⟨t, id1, r1⟩ := x
        cases h2 : parseList f id1 r1 with
        | none => simp [hp, h1, h2] at h
        | some y =>
          obtain ⟨e, id2, r2⟩ := y
          simp [hp, h1, h2] at h
          obtain ⟨rfl, rfl, rfl⟩ := h
          simp only [nodeIds]
          exact branch_range (hl _ _ _ _ _ h1) (hl _ _ _ _ _ h2)
  · -- C name -
    rename_i nm rest
    cases hu : hexStr nm with
    | none => simp [hu] at h
    | some b =>
      simp [hu] at h
      obtain ⟨rfl, rfl, rfl⟩ := h
      exact ⟨by omega, by simp only [nodeIds]; exact inRange_single id _ (by omega)⟩
  · -- C name pipe
    rename_i nm rest _
    cases hp : parsePipe rest with
    | none => simp [hp] at h
    | some q =>
      cases hu : hexStr nm with
      | none => simp [hp, hu] at h
      | some b =>
        simp [hp, hu] at h
        obtain ⟨rfl, rfl, rfl⟩ := h
        exact ⟨by omega, by simp only [nodeIds]; exact inRange_single id _ (by omega)⟩
  · cases h; exact ⟨by omega, by simp only [nodeIds]; exact inRange_single id _ (by omega)⟩
  · cases h; exact ⟨by omega, by simp only [nodeIds]; exact inRange_single id _ (by omega)⟩
  · cases h; exact ⟨by omega, by simp only [nodeIds]; exact inRange_single id _ (by omega)⟩
  · cases h


theorem listWr_succ {f} (hi : ItemsWr f) : ListWr (f + 1) := by
  intro id ts l id' r h
  simp only [parseList] at h
  split at h
  · exact hi _ _ _ _ _ h
  · cases h

theorem itemsWr_succ {f} (hn : NodeWr f) (hi : ItemsWr f) : ItemsWr (f + 1) := by
  intro id ts l id' r h
  simp only [parseItems] at h
  split at h
  · cases h
    exact ⟨Nat.le_refl _, by simp only [listIds]; exact ⟨List.nodup_nil, fun _ hx => nomatch hx⟩⟩
  · cases h1 : parseNode f id ts with
    | none => simp [h1] at h
    | some x =>
      obtain ⟨n, id1, r1⟩ := x
      cases h2 : parseItems f id1 r1 with
      | none => simp [h1, h2] at h
      | some y =>
        obtain ⟨ns, id2, r2⟩ := y
        simp [h1, h2] at h
        obtain ⟨rfl, rfl, rfl⟩ := h
        obtain ⟨a1, a2⟩ := hn _ _ _ _ _ h1
        obtain ⟨b1, b2⟩ := hi _ _ _ _ _ h2
        simp only [listIds]
        exact ⟨by omega, inRange_append a2 b2 (by omega) b1⟩

theorem wire_ranges : ∀ f, NodeWr f ∧ ListWr f ∧ ItemsWr f := by
  intro f
  induction f with
  | zero =>
    refine ⟨?_, ?_, ?_⟩
    · intro id ts n id' r h; simp only [parseNode] at h; cases h
    · intro id ts l id' r h; simp only [parseList] at h; cases h
    · intro id ts l id' r h; simp only [parseItems] at h; cases h
  | succ f ih =>
    obtain ⟨hn, hl, hi⟩ := ih
    exact ⟨nodeWr_succ hl, listWr_succ hi, itemsWr_succ hn hi⟩

/-- **the harness' wire format yields trees with pairwise distinct node ids** -/
theorem parseDefs_ids : ∀ (f : Nat) (ts : Toks) (defs : List Tree), parseDefs f ts = some defs →
    ∀ tr ∈ defs, IdsDistinct tr.root := by
  intro f
  induction f with
  | zero =>
    intro ts defs h
    unfold parseDefs at h
    cases h
  | succ f ih =>
    intro ts defs h
    unfold parseDefs at h
    split at h
    · rename_i heq; cases heq
    · cases h; intro tr htr; cases htr
    · rename_i f' nm rest heq
      cases heq
      cases h1 : parseList (rest.length + 1) 0 rest with
      | none => simp [h1] at h
      | some x =>
        obtain ⟨root, idn, r⟩ := x
        cases h2 : parseDefs f r with
        | none => simp [h1, h2] at h
        | some restDefs =>
          cases hu : hexStr nm with
          | none => simp [h1, h2, hu] at h
          | some name =>
            simp [h1, h2, hu] at h
            subst h
            intro tr htr
            rcases List.mem_cons.mp htr with rfl | htr
            · exact ((wire_ranges _).2.1 _ _ _ _ _ h1).2.1
            · exact ih r restDefs h2 tr htr
    · cases h

theorem parseDefsBytes_ids (b : Bytes) (defs : List Tree) (h : parseDefsBytes b = some defs) :
    ∀ tr ∈ defs, IdsDistinct tr.root := parseDefs_ids _ _ defs h

/-! ### 4. summary theorem -/

/-- all invariants of one name space used below; each is kept by every critical section
    (`ConcApi.top_keeps_hasT_noNil`, `NoPanic.top_args`, `top_shared`) -/
def AnalysisInv (n : NS) : Prop :=
  HasT n.text n.esc ∧ NoNil n.text ∧ TW n.text ∧ EW n.esc ∧ SI n.text n.esc

theorem analysisInv_kept (w w' : World) (ns : Nat) (name : String) (r : Option ErrCode) (h : AnalysisInv (w.ns ns))
    (ht : escapeTemplateTop w ns name = .inr (w', r)) : AnalysisInv (w'.ns ns) := by
  obtain ⟨h1, h2, h3, h4, h5⟩ := h
  obtain ⟨a1, a2⟩ := top_keeps_hasT_noNil w w' ns name r h1 h2 ht
  obtain ⟨b1, b2⟩ := (top_args w ns name h3 h4).2 w' r ht
  exact ⟨a1, a2, b1, b2, (top_shared w ns name h5).2 w' r ht⟩

/-- a freshly parsed, never executed set satisfies the invariants if its trees have no nil entries, commands with
    arguments and distinct node ids (the last is guaranteed by the wire format: `parseDefsBytes_ids`) -/
theorem analysisInv_fresh (n : NS) (ho : n.esc.output = []) (hd : n.esc.derived = []) (hp : n.esc.pristine = [])
    (ha : n.esc.actionEdits = []) (ht : n.esc.tmplEdits = []) (hx : n.esc.textEdits = [])
    (hnn : NoNil n.text) (htw : TW n.text) (htd : TD n.text) : AnalysisInv n := by
  refine ⟨hasT_fresh _ _ ho, hnn, htw, ⟨?_, ?_⟩, htd, ⟨?_, ?_, ?_⟩, ?_, ⟨?_, ?_⟩⟩
  · intro p h; rw [hd] at h; cases h
  · intro p h; rw [hp] at h; cases h
  · unfold kA; rw [ha]; exact List.nodup_nil
  · unfold kT; rw [ht]; exact List.nodup_nil
  · unfold kX; rw [hx]; exact List.nodup_nil
  · intro k hk
    unfold Keys kA kT kX at hk
    rw [ha, ht, hx] at hk
    rcases hk with h | h | h <;> cases h
  · intro p h; rw [hd] at h; cases h
  · intro p h; rw [hp] at h; cases h

/-- **C08 for the analysis.** Under `AnalysisInv`, one critical section returns a result (`.inr`: success or analysis
    error), or runs out of fuel, or reports the ONE panic not covered: "infinite loop in escapeText". -/
theorem C08_analysis_total (w : World) (ns : Nat) (name : String) (h : AnalysisInv (w.ns ns)) :
    (∃ w' r, escapeTemplateTop w ns name = .inr (w', r)) ∨ escapeTemplateTop w ns name = .inl .fuel ∨
    escapeTemplateTop w ns name = .inl (.panic msgLoop) := by
  obtain ⟨h1, h2, h3, h4, h5⟩ := h
  rcases C08_analysis_total_partial w ns name h1 h2 h3 h4 with h | h | h | h
  · exact .inl h
  · exact .inr (.inl h)
  · exact absurd rfl ((top_shared w ns name h5).1 msgShared h)
  · exact .inr (.inr h)

/-! ### Summary

(1) "node shared between templates": `nodeIds`/`listIds`, `IdsDistinct`, `TD text`, `ED e` (installed / derived and
pristine trees have pairwise distinct node ids), `ND e` (no key twice in an edit list), `KM e` (template names of pending
edits are memoized), `SI` = all four. `mergeEdits_disjoint` (disjoint keys ⇒ concatenation, no panic),
`escapeAction_S`, `escapeTextNode_S`, `editTmpl_S`; **`analysis_shared`** (six functions): under `TD`, with keys of the
current template's remaining nodes fresh, no step reports this panic, and `ND`/`KM`/`ED` are kept; new keys are
`(tn, id)` for visited nodes or have a template name that was not memoized before — which is why the outer and the
scratch edit lists of `escapeTemplateBody` are disjoint. `list_apply_ids`, `commit_shared`; **`top_shared`**:
`escapeTemplateTop` never reports "node shared between templates" and keeps `SI`. `parseDefsBytes_ids`: trees decoded
from the harness' wire format have distinct node ids (`wire_ranges`).
(2) execution-time nil dereference: `NT text e` (no memoized name is registered with a nil tree; holds for an unexecuted
set, kept by every critical section: `analysis_NM`, `nt_commit`, `top_keeps_NT` — no `NoNil` needed),
`evalPipe_ne`, `walk_no_nil`, `textExecute_no_panic`, **`C08_exec_no_panic`**: an object analysed successfully in a
`GoodNs` ∧ `NT` name space never makes `textExecute` panic, immediately or after any later analyses.
(4) **`C08_analysis_total`**: under `AnalysisInv` (`HasT`, `NoNil`, `TW`, `EW`, `SI`; all kept by critical sections,
`analysisInv_kept`; `analysisInv_fresh`), `escapeTemplateTop` returns `.inr _`, `.inl .fuel`, or
`.inl (.panic "infinite loop in escapeText")`.

NOT done: (3) the no-progress guard / fuel of `escapeTextLoop` and a fuel bound for `escapeTemplateTop`. The guard fires
when `contextAfterText` reads 0 bytes without changing the state; `tSpecialTagEnd` does that for a context in state
`text` whose element name is a special element (`</script` at offset 0) — excluding it needs an invariant on contexts
("state text ⇒ element name not special") through all transitions and `join`, plus a progress lemma per transition;
not attempted. Also not proved: that `Parse`/`Clone` keep `TW`/`TD`/`NT`/`HasT` for reachable worlds (they are shown to be
invariants of the critical sections and to hold for unexecuted sets); `NoNil` is still used for the ANALYSIS panic
"t.Tree.Root of a nil Tree" (a user template whose NAME is a mangled name and whose tree is nil).
-/

end SafeHtml.Proofs.NoPanic2
