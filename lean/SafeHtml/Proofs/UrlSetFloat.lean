/-
C12: every string accepted by the model of `strconv.ParseFloat` is over `[0-9A-Za-z+-._]`
(`PfAlphabet parseFloatOk`) — in particular it contains no parenthesis, whitespace or comma.
-/
import SafeHtml.Proofs.UrlSet
namespace SafeHtml.Proofs.UrlSet
open SafeHtml SafeHtml.Model.UrlSet

/-- every byte of `l` is in `rest` or is a float byte: `l = consumed ++ rest` with `consumed` over the alphabet -/
def Consumed (l rest : Bytes) : Prop := ∀ b ∈ l, b ∈ rest ∨ floatByte b = true

theorem consumed_refl (l : Bytes) : Consumed l l := fun _ hb => Or.inl hb

theorem consumed_cons (c : Nat) (t rest : Bytes) (hc : floatByte c = true) (h : Consumed t rest) :
    Consumed (c :: t) rest := by
  intro b hb
  simp at hb
  rcases hb with rfl | hb
  · exact Or.inr hc
  · exact h b hb

theorem consumed_trans (a b c : Bytes) (h1 : Consumed a b) (h2 : Consumed b c) : Consumed a c := by
  intro x hx
  rcases h1 x hx with h | h
  · exact h2 x h
  · exact Or.inr h

theorem consumed_nil_all (l : Bytes) (h : Consumed l []) : ∀ b ∈ l, floatByte b = true := by
  intro b hb
  rcases h b hb with h | h
  · simp at h
  · exact h

theorem fb_digit (c : Nat) (h : isDigit c = true) : floatByte c = true := by simp [floatByte, h]

theorem fb_hexLetter (c : Nat) (h : isHexLetter c = true) : floatByte c = true := by
  simp only [isHexLetter, Bool.or_eq_true, Bool.and_eq_true, decide_eq_true_eq] at h
  simp only [floatByte, isAlpha, isLowerAlpha, isUpperAlpha, isDigit, Bool.or_eq_true, Bool.and_eq_true,
    decide_eq_true_eq, beq_iff_eq]
  omega

theorem orBit5_eq (c v : Nat) (h : orBit5 c = v) : c = v ∨ c + 32 = v := by
  unfold orBit5 at h
  split at h <;> omega

theorem fb_orBit5_letter (c v : Nat) (h : orBit5 c = v) (hv : 97 ≤ v ∧ v ≤ 122) : floatByte c = true := by
  have := orBit5_eq c v h
  simp only [floatByte, isAlpha, isLowerAlpha, isUpperAlpha, isDigit, Bool.or_eq_true, Bool.and_eq_true,
    decide_eq_true_eq, beq_iff_eq]
  omega

theorem readMant_consumed (hex : Bool) : ∀ (l : Bytes) (st : Mant), Consumed l (readMant hex st l).2 := by
  intro l
  induction l with
  | nil => intro st; simp [readMant, Consumed]
  | cons c t ih =>
    intro st
    unfold readMant
    by_cases h95 : c = 95
    · simp only [h95, if_true]; exact consumed_cons _ _ _ (by decide) (ih _)
    · simp only [h95, if_false]
      by_cases h46 : c = 46
      · simp only [h46, if_true]
        cases st.sawdot
        · simp only [Bool.false_eq_true, if_false]; exact consumed_cons _ _ _ (by decide) (ih _)
        · simp only [if_true]; exact consumed_refl _
      · simp only [h46, if_false]
        by_cases hd : isDigit c = true
        · simp only [hd, if_true]; exact consumed_cons _ _ _ (fb_digit c hd) (ih _)
        · simp only [hd]
          by_cases hh : (hex && isHexLetter c) = true
          · simp only [hh, if_true]
            exact consumed_cons _ _ _ (fb_hexLetter c (by simp at hh; exact hh.2)) (ih _)
          · simp only [hh]; exact consumed_refl _

theorem readExpDigits_consumed : ∀ (l : Bytes) (e : Nat), Consumed l (readExpDigits e l).2 := by
  intro l
  induction l with
  | nil => intro e; simp [readExpDigits, Consumed]
  | cons c t ih =>
    intro e
    unfold readExpDigits
    by_cases h95 : c = 95
    · simp only [h95, if_true]; exact consumed_cons _ _ _ (by decide) (ih _)
    · simp only [h95, if_false]
      by_cases hd : isDigit c = true
      · simp only [hd, if_true]; exact consumed_cons _ _ _ (fb_digit c hd) (ih _)
      · simp only [hd]; exact consumed_refl _

theorem stripSign_consumed (s : Bytes) : Consumed s (stripSign s) := by
  unfold stripSign
  cases s with
  | nil => exact consumed_refl _
  | cons c t =>
    by_cases h : c = 43 ∨ c = 45
    · simp only [h, if_true]
      exact consumed_cons _ _ _ (by rcases h with rfl | rfl <;> decide) (consumed_refl _)
    · simp only [h, if_false]; exact consumed_refl _

theorem stripHex_consumed (body : Bytes) : Consumed body (stripHex body).2 := by
  unfold stripHex
  split
  · rename_i x y t
    by_cases h : orBit5 x = 120
    · simp only [h, if_true]
      exact consumed_cons _ _ _ (by decide)
        (consumed_cons _ _ _ (fb_orBit5_letter x 120 h (by omega)) (consumed_refl _))
    · simp only [h, if_false]; exact consumed_refl _
  · exact consumed_refl _

theorem readExponent_all (hex : Bool) (rest : Bytes) (r : Bool × Nat) (h : readExponent hex rest = some r) :
    ∀ b ∈ rest, floatByte b = true := by
  unfold readExponent at h
  cases rest with
  | nil => simp
  | cons c t =>
    simp only at h
    by_cases hc : orBit5 c = (if hex = true then 112 else 101)
    · rw [if_pos hc] at h
      have fc : floatByte c = true := by
        cases hex
        · exact fb_orBit5_letter c 101 (by simpa using hc) (by omega)
        · exact fb_orBit5_letter c 112 (by simpa using hc) (by omega)
      cases t with
      | nil => simp at h
      | cons d t' =>
        simp only at h
        -- the part after the exponent character
        have key : ∀ (t2 : Bytes), Consumed (d :: t') t2 →
            (match t2 with
              | [] => none
              | d2 :: _ => if (!isDigit d2) = true then none
                  else if (readExpDigits 0 t2).2.isEmpty = true then some (decide (d = 45), (readExpDigits 0 t2).1) else none)
              = some r → ∀ b ∈ d :: t', floatByte b = true := by
          intro t2 hcons hm
          cases t2 with
          | nil => simp at hm
          | cons d2 t3 =>
            simp only at hm
            by_cases hd2 : (!isDigit d2) = true
            · rw [if_pos hd2] at hm; cases hm
            · rw [if_neg hd2] at hm
              by_cases he : (readExpDigits 0 (d2 :: t3)).2.isEmpty = true
              · have hnil : (readExpDigits 0 (d2 :: t3)).2 = [] := by simpa using he
                have := readExpDigits_consumed (d2 :: t3) 0
                rw [hnil] at this
                exact consumed_nil_all _ (consumed_trans _ _ _ hcons this)
              · rw [if_neg he] at hm; cases hm
        have hall := key _ (by
          by_cases hs : d = 43 ∨ d = 45
          · simp only [hs, if_true]
            exact consumed_cons _ _ _ (by rcases hs with rfl | rfl <;> decide) (consumed_refl _)
          · simp only [hs, if_false]; exact consumed_refl _) h
        intro b hb
        simp only [List.mem_cons] at hb
        rcases hb with rfl | hb
        · exact fc
        · exact hall b (by simpa using hb)
    · rw [if_neg hc] at h; cases h

theorem readFloatOk_all (s : Bytes) (h : readFloatOk s = true) : ∀ b ∈ s, floatByte b = true := by
  unfold readFloatOk at h
  by_cases he : s.isEmpty = true
  · rw [if_pos he] at h; cases h
  · rw [if_neg he] at h
    simp only at h
    by_cases hd : (!(readMant (stripHex (stripSign s)).1 {} (stripHex (stripSign s)).2).1.sawdigits) = true
    · rw [if_pos hd] at h; cases h
    · rw [if_neg hd] at h
      cases hx : readExponent (stripHex (stripSign s)).1 (readMant (stripHex (stripSign s)).1 {} (stripHex (stripSign s)).2).2 with
      | none => rw [hx] at h; cases h
      | some r =>
        have hrest := readExponent_all _ _ r hx
        have c1 := stripSign_consumed s
        have c2 := stripHex_consumed (stripSign s)
        have c3 := readMant_consumed (stripHex (stripSign s)).1 (stripHex (stripSign s)).2 {}
        intro b hb
        rcases consumed_trans _ _ _ (consumed_trans _ _ _ c1 c2) c3 b hb with h' | h'
        · exact hrest b h'
        · exact h'

/-! `special` -/

theorem cpl_take (p : Bytes) (hp : ∀ q ∈ p, isLowerAlpha q = true) : ∀ (s : Bytes),
    commonPrefixLenIgnoreCase s p ≤ s.length ∧
    ∀ b ∈ s.take (commonPrefixLenIgnoreCase s p), floatByte b = true := by
  induction p with
  | nil => intro s; cases s <;> simp [commonPrefixLenIgnoreCase]
  | cons q ps ih =>
    intro s
    cases s with
    | nil => simp [commonPrefixLenIgnoreCase]
    | cons c t =>
      unfold commonPrefixLenIgnoreCase
      by_cases hc : lowerB c = q
      · rw [if_pos hc]
        have ⟨i1, i2⟩ := ih (fun x hx => hp x (by simp [hx])) t
        refine ⟨by simp; omega, ?_⟩
        intro b hb
        simp only [List.take_succ_cons, List.mem_cons] at hb
        rcases hb with rfl | hb
        · have hq := hp q (by simp)
          unfold lowerB at hc
          simp only [isLowerAlpha, Bool.and_eq_true, decide_eq_true_eq] at hq
          simp only [floatByte, isAlpha, isLowerAlpha, isUpperAlpha, isDigit, Bool.or_eq_true, Bool.and_eq_true,
            decide_eq_true_eq, beq_iff_eq]
          split at hc <;> omega
        · exact i2 b hb
      · rw [if_neg hc]; simp

theorem take_all_of_le (s : Bytes) (n k : Nat) (hnk : n ≤ k) (hn : n = s.length)
    (h : ∀ b ∈ s.take k, floatByte b = true) : ∀ b ∈ s, floatByte b = true := by
  have : s.take k = s := List.take_of_length_le (by omega)
  rw [this] at h; exact h

theorem infLen_all (t : Bytes) (n : Nat)
    (h : (let n := commonPrefixLenIgnoreCase t strInfinity
          let n := if 3 < n ∧ n < 8 then 3 else n
          if n = 3 ∨ n = 8 then some n else none) = some n) (hn : n = t.length) :
    ∀ b ∈ t, floatByte b = true := by
  have ⟨_, i2⟩ := cpl_take strInfinity (by decide) t
  simp only at h
  generalize commonPrefixLenIgnoreCase t strInfinity = k at h i2
  have hle : n ≤ k := by
    by_cases hc : 3 < k ∧ k < 8
    · rw [if_pos hc] at h
      simp at h; omega
    · rw [if_neg hc] at h
      by_cases h2 : k = 3 ∨ k = 8
      · rw [if_pos h2] at h; simp at h; omega
      · rw [if_neg h2] at h; cases h
  exact take_all_of_le t n k hle hn i2

theorem special_all (s : Bytes) (n : Nat) (h : special s = some n) (hn : n = s.length) :
    ∀ b ∈ s, floatByte b = true := by
  unfold special at h
  cases s with
  | nil => simp
  | cons c t =>
    simp only at h
    by_cases h1 : c = 43 ∨ c = 45
    · rw [if_pos h1] at h
      simp only [Option.map_eq_some_iff] at h
      obtain ⟨k, hk, hkn⟩ := h
      have := infLen_all t k hk (by simp at hn; omega)
      intro b hb
      simp only [List.mem_cons] at hb
      rcases hb with rfl | hb
      · rcases h1 with rfl | rfl <;> decide
      · exact this b hb
    · rw [if_neg h1] at h
      by_cases h2 : c = 105 ∨ c = 73
      · rw [if_pos h2] at h
        exact infLen_all (c :: t) n h hn
      · rw [if_neg h2] at h
        by_cases h3 : c = 110 ∨ c = 78
        · rw [if_pos h3] at h
          split at h
          · rename_i h4
            cases h
            have ⟨_, i2⟩ := cpl_take strNan (by decide) (c :: t)
            exact take_all_of_le (c :: t) 3 _ (by omega) hn i2
          · cases h
        · rw [if_neg h3] at h; cases h

/-- the one fact the C12 proofs use about `strconv.ParseFloat` -/
theorem parseFloatOk_alphabet : PfAlphabet parseFloatOk := by
  intro p hp
  unfold parseFloatOk at hp
  cases hs : special p with
  | none => rw [hs] at hp; exact readFloatOk_all p hp
  | some n =>
    rw [hs] at hp
    exact special_all p n hs (by simpa using hp)

end SafeHtml.Proofs.UrlSet
