/-
Generic reading of the backtracking matcher for "simple" regexes (no `\A`, no captures, stars only
greedy over one character class): the matcher tries exactly the match lengths `lens r s`, in that
priority order.  Consequences: leftmost-first search (`findFrom`, `matchString`) and
`ReplaceAllStringFunc` for patterns that never match the empty string.
-/
import SafeHtml.Rx.Thm
namespace SafeHtml
namespace Rx

/-- regexes handled here: no `bot`, no `cap`, stars only greedy over a single class -/
def simple : Re → Bool
  | .eps => true
  | .cls _ => true
  | .cat a b => simple a && simple b
  | .alt a b => simple a && simple b
  | .star (.cls _) true => true
  | .star _ _ => false
  | .bot => false
  | .eot => true
  | .cap _ _ => false

/-- all match lengths (in symbols) of `r` at the front of `s`, in the matcher's priority order -/
def lens : Re → List Sym → List Nat
  | .eps, _ => [0]
  | .cls _, [] => []
  | .cls rs, c :: _ => if inCls rs c.rune then [1] else []
  | .cat a b, s => (lens a s).flatMap fun n => (lens b (s.drop n)).map (n + ·)
  | .alt a b, s => lens a s ++ lens b s
  | .star (.cls rs) true, s => (List.range (spanCls rs s + 1)).reverse
  | .star _ _, _ => []
  | .bot, _ => []
  | .eot, s => if s.isEmpty then [0] else []
  | .cap _ _, _ => []

/-- a lower bound of every match length -/
def minLen : Re → Nat
  | .eps => 0
  | .cls _ => 1
  | .cat a b => minLen a + minLen b
  | .alt a b => min (minLen a) (minLen b)
  | .star _ _ => 0
  | .bot => 0
  | .eot => 0
  | .cap _ a => minLen a

theorem tryDown_findSome {α : Type} (k : MSt → List Sym → Option α) (st : MSt) (s : List Sym) (n : Nat) :
    tryDown k st s n = (List.range (n+1)).reverse.findSome? (fun j => k (adv st j) (s.drop j)) := by
  induction n with
  | zero =>
    simp [tryDown, List.range_succ]
  | succ n ih =>
    rw [List.range_succ, List.reverse_append]
    simp only [List.reverse_cons, List.reverse_nil, List.nil_append, List.singleton_append, List.findSome?_cons]
    rw [tryDown, ih]
    cases k (adv st (n + 1)) (List.drop (n + 1) s) <;> rfl

theorem findSome_flatMap_aux {α β γ : Type} (f : β → Option γ) (g : α → List β) (l : List α) :
    (l.flatMap g).findSome? f = l.findSome? (fun x => (g x).findSome? f) := by
  induction l with
  | nil => simp
  | cons a t ih =>
    simp only [List.flatMap_cons, List.findSome?_append, List.findSome?_cons, ih]
    cases (g a).findSome? f <;> rfl

/-- the matcher tries exactly `lens r s`, in order -/
theorem m_lens {α : Type} (r : Re) (hr : simple r = true) (f : Nat) (st : MSt) (s : List Sym)
    (hf : s.length < f) (k : MSt → List Sym → Option α) :
    m r f st s k = (lens r s).findSome? (fun n => k (adv st n) (s.drop n)) := by
  induction r generalizing st s k with
  | eps => simp [m, lens]
  | cls rs =>
    cases s with
    | nil => simp [m, lens]
    | cons c t =>
      rw [m_cls_cons]; simp only [lens]
      split <;> simp
  | cat a b iha ihb =>
    simp only [simple, Bool.and_eq_true] at hr
    rw [m_cat, iha hr.1 st s hf]
    simp only [lens, findSome_flatMap_aux, List.findSome?_map]
    congr 1
    funext n
    rw [ihb hr.2 _ _ (by simp; omega)]
    simp [Function.comp_def, List.drop_drop]
  | alt a b iha ihb =>
    simp only [simple, Bool.and_eq_true] at hr
    rw [m_alt, iha hr.1 st s hf, ihb hr.2 st s hf]
    simp only [lens, List.findSome?_append]
    cases (lens a s).findSome? _ <;> rfl
  | star a g _ =>
    cases a <;> cases g <;> simp [simple] at hr
    rw [star_cls_greedy _ _ _ _ _ hf, tryDown_findSome]
    simp [lens]
  | bot => simp [simple] at hr
  | eot => rw [m_eot]; simp only [lens]; split <;> simp
  | cap _ _ _ => simp [simple] at hr


theorem lens_le (r : Re) (s : List Sym) : ∀ l ∈ lens r s, l ≤ s.length := by
  induction r generalizing s with
  | eps => simp [lens]
  | cls rs =>
    cases s with
    | nil => simp [lens]
    | cons c t => simp only [lens]; split <;> simp
  | cat a b iha ihb =>
    intro l hl
    simp only [lens, List.mem_flatMap, List.mem_map] at hl
    obtain ⟨n, hn, l', hl', rfl⟩ := hl
    have h1 := iha s n hn
    have h2 := ihb _ l' hl'
    simp at h2; omega
  | alt a b iha ihb =>
    intro l hl
    simp only [lens, List.mem_append] at hl
    rcases hl with h | h
    · exact iha s l h
    · exact ihb s l h
  | star a g _ =>
    cases a <;> cases g <;> simp [lens]
    have := spanCls_le ‹_› s
    intro l hl; omega
  | bot => simp [lens]
  | eot => simp only [lens]; split <;> simp
  | cap _ _ _ => simp [lens]

theorem lens_ge_minLen (r : Re) (s : List Sym) : ∀ l ∈ lens r s, minLen r ≤ l := by
  induction r generalizing s with
  | eps => simp [lens, minLen]
  | cls rs =>
    cases s with
    | nil => simp [lens]
    | cons c t => simp only [lens, minLen]; split <;> simp
  | cat a b iha ihb =>
    intro l hl
    simp only [lens, List.mem_flatMap, List.mem_map] at hl
    obtain ⟨n, hn, l', hl', rfl⟩ := hl
    have h1 := iha s n hn
    have h2 := ihb _ l' hl'
    simp only [minLen]; omega
  | alt a b iha ihb =>
    intro l hl
    simp only [lens, List.mem_append] at hl
    simp only [minLen]
    rcases hl with h | h
    · have := iha s l h; omega
    · have := ihb s l h; omega
  | star a g _ => simp [minLen]
  | bot => simp [lens]
  | eot => simp [minLen]
  | cap _ _ _ => simp [lens]

theorem findSome_some_head {α β : Type} (g : α → β) (l : List α) :
    l.findSome? (fun n => some (g n)) = l.head?.map g := by
  cases l <;> simp

/-- leftmost-first search: offset of the first suffix with a match, and the preferred length there -/
def firstMatch (r : Re) : List Sym → Option (Nat × Nat)
  | [] => (lens r []).head?.map fun l => (0, l)
  | c :: t =>
    match (lens r (c :: t)).head? with
    | some l => some (0, l)
    | none => (firstMatch r t).map fun p => (p.1 + 1, p.2)

theorem findFrom_lens (r : Re) (hr : simple r = true) (f i : Nat) (s : List Sym) (hf : s.length < f) :
    findFrom r f i s = (firstMatch r s).map fun p => (⟨i + p.1, i + p.1 + p.2, []⟩ : Match) := by
  induction s generalizing i with
  | nil =>
    simp only [findFrom, firstMatch]
    rw [m_lens r hr f _ _ hf]
    simp only [adv_pos, adv_caps]
    rw [findSome_some_head (fun n => (⟨i, i + n, []⟩ : Match))]
    cases (lens r []).head? <;> simp
  | cons c t ih =>
    simp only [findFrom, firstMatch]
    rw [m_lens r hr f _ _ hf]
    simp only [adv_pos, adv_caps]
    rw [findSome_some_head (fun n => (⟨i, i + n, []⟩ : Match))]
    cases (lens r (c :: t)).head? with
    | some l => simp
    | none =>
      simp only [Option.map_none]
      rw [ih (i+1) (by simp at hf; omega)]
      cases firstMatch r t with
      | none => simp
      | some p => simp [Nat.add_assoc, Nat.add_comm 1]

/-- Go `MatchString` for an unanchored simple pattern -/
theorem matchString_simple (r : Re) (hr : simple r = true) (s : Bytes) :
    matchString r s = (firstMatch r (Utf8.decodeSyms s)).isSome := by
  unfold matchString find
  rw [findFrom_lens r hr _ _ _ (Nat.lt_succ_self _)]
  simp

/-- Go `MatchString` for `^r` -/
theorem matchString_bot_simple (r : Re) (hr : simple r = true) (s : Bytes) :
    matchString (.cat .bot r) s = !(lens r (Utf8.decodeSyms s)).isEmpty := by
  unfold matchString
  rw [find_bot, m_lens r hr _ _ _ (Nat.lt_succ_self _)]
  unfold K0
  simp only [adv_pos, adv_caps]
  rw [findSome_some_head (fun n => (⟨0, 0 + n, []⟩ : Match))]
  cases lens r (Utf8.decodeSyms s) <;> simp

/-- symbol-by-symbol reading of `ReplaceAllStringFunc` for a pattern that never matches the empty string -/
def replSyms (r : Re) (repl : Bytes → Bytes) : Nat → List Sym → Bytes
  | 0, s => Utf8.symsBytes s
  | _, [] => []
  | f+1, c :: t =>
    match (lens r (c :: t)).head? with
    | some l => repl (Utf8.symsBytes ((c :: t).take l)) ++ replSyms r repl f ((c :: t).drop l)
    | none => c.bytes ++ replSyms r repl f t

theorem head_bounds (r : Re) (hne : 1 ≤ minLen r) (s : List Sym) (l : Nat)
    (h : (lens r s).head? = some l) : 1 ≤ l ∧ l ≤ s.length := by
  have hm : l ∈ lens r s := List.mem_of_mem_head? h
  have := lens_le r s l hm
  have := lens_ge_minLen r s l hm
  omega

theorem replSyms_nil (r : Re) (repl : Bytes → Bytes) (f : Nat) : replSyms r repl f [] = [] := by
  cases f <;> simp [replSyms, Utf8.symsBytes]

theorem replSyms_fuel (r : Re) (hne : 1 ≤ minLen r) (repl : Bytes → Bytes) (f1 f2 : Nat) (s : List Sym)
    (h1 : s.length ≤ f1) (h2 : s.length ≤ f2) : replSyms r repl f1 s = replSyms r repl f2 s := by
  induction f1 generalizing f2 s with
  | zero =>
    have : s = [] := List.length_eq_zero_iff.mp (by omega)
    subst this; simp [replSyms_nil]
  | succ f1 ih =>
    cases s with
    | nil => simp [replSyms_nil]
    | cons c t =>
      cases f2 with
      | zero => simp at h2
      | succ f2 =>
        simp only [replSyms]
        simp only [List.length_cons] at h1 h2
        cases hh : (lens r (c :: t)).head? with
        | some l =>
          simp only []
          have hb := head_bounds r hne _ _ hh
          simp only [List.length_cons] at hb
          rw [ih f2 _ (by simp; omega) (by simp; omega)]
        | none =>
          simp only []
          rw [ih f2 t (by omega) (by omega)]

theorem replSyms_none (r : Re) (repl : Bytes → Bytes) (s : List Sym) (h : firstMatch r s = none)
    (f : Nat) : replSyms r repl f s = Utf8.symsBytes s := by
  induction s generalizing f with
  | nil => simp [replSyms_nil, Utf8.symsBytes]
  | cons c t ih =>
    cases f with
    | zero => simp [replSyms]
    | succ f =>
      simp only [firstMatch] at h
      cases hh : (lens r (c :: t)).head? with
      | some l => simp [hh] at h
      | none =>
        simp only [hh, Option.map_eq_none_iff] at h
        simp only [replSyms, hh, ih h f]
        simp [Utf8.symsBytes]

theorem firstMatch_bounds (r : Re) (hne : 1 ≤ minLen r) (s : List Sym) (j l : Nat)
    (h : firstMatch r s = some (j, l)) : 1 ≤ l ∧ j + l ≤ s.length := by
  induction s generalizing j with
  | nil =>
    simp only [firstMatch] at h
    cases hh : (lens r []).head? with
    | none => simp [hh] at h
    | some l0 =>
      have := head_bounds r hne _ _ hh
      simp at this; omega
  | cons c t ih =>
    simp only [firstMatch] at h
    cases hh : (lens r (c :: t)).head? with
    | some l0 =>
      simp only [hh, Option.some.injEq, Prod.mk.injEq] at h
      obtain ⟨rfl, rfl⟩ := h
      have := head_bounds r hne _ _ hh
      omega
    | none =>
      simp only [hh] at h
      cases hfm : firstMatch r t with
      | none => simp [hfm] at h
      | some p =>
        obtain ⟨j', l'⟩ := p
        simp only [hfm, Option.map_some, Option.some.injEq, Prod.mk.injEq] at h
        obtain ⟨rfl, rfl⟩ := h
        have := ih j' hfm
        simp only [List.length_cons]; omega

theorem replSyms_some (r : Re) (hne : 1 ≤ minLen r) (repl : Bytes → Bytes) (s : List Sym) (j l : Nat)
    (h : firstMatch r s = some (j, l)) (f f' : Nat) (hf : s.length ≤ f)
    (hf' : (s.drop (j + l)).length ≤ f') :
    replSyms r repl f s = Utf8.symsBytes (s.take j) ++ repl (Utf8.symsBytes ((s.drop j).take l)) ++
      replSyms r repl f' (s.drop (j + l)) := by
  induction s generalizing j f with
  | nil =>
    have := firstMatch_bounds r hne _ _ _ h
    simp at this; omega
  | cons c t ih =>
    cases f with
    | zero => simp at hf
    | succ f =>
      simp only [List.length_cons] at hf
      simp only [firstMatch] at h
      cases hh : (lens r (c :: t)).head? with
      | some l0 =>
        simp only [hh, Option.some.injEq, Prod.mk.injEq] at h
        obtain ⟨rfl, rfl⟩ := h
        have hb := head_bounds r hne _ _ hh
        simp only [List.length_cons] at hb
        simp only [replSyms, hh, Nat.zero_add, List.take_zero, List.drop_zero]
        rw [replSyms_fuel r hne repl f f' _ (by simp; omega) (by simpa using hf')]
        simp [Utf8.symsBytes]
      | none =>
        simp only [hh] at h
        cases hfm : firstMatch r t with
        | none => simp [hfm] at h
        | some p =>
          obtain ⟨j', l'⟩ := p
          simp only [hfm, Option.map_some, Option.some.injEq, Prod.mk.injEq] at h
          obtain ⟨rfl, rfl⟩ := h
          have e : j' + 1 + l' = (j' + l') + 1 := by omega
          rw [e] at hf' ⊢
          simp only [List.drop_succ_cons] at hf' ⊢
          simp only [replSyms, hh]
          rw [ih j' hfm f (by omega) hf']
          simp [Utf8.symsBytes]

theorem replaceAux_replSyms (r : Re) (hr : simple r = true) (hne : 1 ≤ minLen r) (repl : Bytes → Bytes)
    (all : List Sym) (n : Nat) (hn : all.length = n) (fuel p : Nat) (acc : Bytes)
    (hp : p ≤ n) (hfuel : n - p + 1 ≤ fuel) :
    replaceAux r repl all n fuel p p acc = acc ++ replSyms r repl (n - p) (all.drop p) := by
  induction fuel generalizing p acc with
  | zero => omega
  | succ fuel ih =>
    have hlen : (all.drop p).length = n - p := by simp [hn]
    simp only [replaceAux]
    rw [if_neg (by omega)]
    rw [findFrom_lens r hr (n+1) p (all.drop p) (by omega)]
    cases hfm : firstMatch r (all.drop p) with
    | none =>
      simp only [Option.map_none]
      rw [replSyms_none r repl _ hfm]
      simp only [slice]
      rw [List.take_of_length_le (by omega)]
    | some q =>
      obtain ⟨j, l⟩ := q
      have hb := firstMatch_bounds r hne _ _ _ hfm
      rw [hlen] at hb
      simp only [Option.map_some]
      have h1 : (p + j + l > p) = True := by simp; omega
      have h2 : ¬ (p + 1 > p + j + l) := by omega
      simp only [h1, decide_true, Bool.true_or, if_true, if_neg h2]
      rw [ih (p + j + l) _ (by omega) (by omega)]
      rw [replSyms_some r hne repl _ j l hfm (n - p) (n - (p + j + l)) (by omega)
        (by simp [hn]; omega)]
      simp only [slice, List.drop_drop, List.append_assoc]
      have e1 : p + j - p = j := by omega
      have e2 : p + j + l - (p + j) = l := by omega
      have e3 : p + (j + l) = p + j + l := by omega
      rw [e1, e2, e3]

theorem replaceAllFunc_replSyms (r : Re) (hr : simple r = true) (hne : 1 ≤ minLen r)
    (s : Bytes) (repl : Bytes → Bytes) :
    replaceAllFunc r s repl = replSyms r repl (Utf8.decodeSyms s).length (Utf8.decodeSyms s) := by
  unfold replaceAllFunc
  simp only []
  rw [replaceAux_replSyms r hr hne repl _ _ rfl _ 0 [] (by omega) (by omega)]
  simp

end Rx
end SafeHtml
