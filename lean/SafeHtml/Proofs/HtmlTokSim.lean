/-
Simulation argument for the HTML tokenizer spec (Spec/HtmlTok): two tokenizer states that are equal
except for the *contents* of pending character data (`txt`), of the current attribute value (`av`), of
the values of completed attributes and of text tokens stay so under every byte. Consequently the
token skeleton (tags, attribute names, comments, doctype) and the final state of a rendering do not
depend on the `Esc` data inserted at inert positions (C01 for one action and for n actions).
Core Lean only.
-/
import SafeHtml.Props.C01
namespace SafeHtml.Proofs.HtmlTokSim
open SafeHtml SafeHtml.Spec SafeHtml.Spec.HtmlTok
open SafeHtml.Props.C01 (InertPos run_nil run_cons run_append run_data run_rcdata run_dq run_sq Esc_no_special)

/-- equal except for character data, attribute values, and text tokens -/
structure Sim (a b : T) : Prop where
  st : a.st = b.st
  toks : skeleton a.toks = skeleton b.toks
  isEnd : a.isEnd = b.isEnd
  name : a.name = b.name
  attrs : a.attrs.map Prod.fst = b.attrs.map Prod.fst
  an : a.an = b.an
  hasAttr : a.hasAttr = b.hasAttr
  selfClosing : a.selfClosing = b.selfClosing
  lastStart : a.lastStart = b.lastStart
  tmp : a.tmp = b.tmp
  cmt : a.cmt = b.cmt
  bogus : a.bogus = b.bogus
  pend : a.pend = b.pend

theorem Sim.refl (a : T) : Sim a a := ⟨rfl, rfl, rfl, rfl, rfl, rfl, rfl, rfl, rfl, rfl, rfl, rfl, rfl⟩

theorem Sim.symm {a b : T} (h : Sim a b) : Sim b a :=
  ⟨h.st.symm, h.toks.symm, h.isEnd.symm, h.name.symm, h.attrs.symm, h.an.symm, h.hasAttr.symm,
   h.selfClosing.symm, h.lastStart.symm, h.tmp.symm, h.cmt.symm, h.bogus.symm, h.pend.symm⟩

theorem Sim.trans {a b c : T} (h : Sim a b) (g : Sim b c) : Sim a c :=
  ⟨h.st.trans g.st, h.toks.trans g.toks, h.isEnd.trans g.isEnd, h.name.trans g.name, h.attrs.trans g.attrs,
   h.an.trans g.an, h.hasAttr.trans g.hasAttr, h.selfClosing.trans g.selfClosing,
   h.lastStart.trans g.lastStart, h.tmp.trans g.tmp, h.cmt.trans g.cmt, h.bogus.trans g.bogus,
   h.pend.trans g.pend⟩

/-! ### skeleton -/

theorem skeleton_text (k : String) (d : Bytes) (l : List Token) : skeleton (.text k d :: l) = skeleton l := by
  simp [skeleton]

theorem skeleton_start (n : Bytes) (as : List (Bytes × Bytes)) (sc : Bool) (l : List Token) :
    skeleton (.startTag n as sc :: l) = .start n (as.map Prod.fst) sc :: skeleton l := by
  simp [skeleton]

theorem skeleton_end (n : Bytes) (l : List Token) : skeleton (.endTag n :: l) = .close n :: skeleton l := by
  simp [skeleton]

theorem skeleton_comment (d : Bytes) (b : Bool) (l : List Token) :
    skeleton (.comment d b :: l) = .comment :: skeleton l := by
  simp [skeleton]

theorem skeleton_doctype (l : List Token) : skeleton (.doctype :: l) = .doctype :: skeleton l := by
  simp [skeleton]

theorem skeleton_reverse (l : List Token) : skeleton l.reverse = (skeleton l).reverse := by
  simp [skeleton, List.filterMap_reverse]

/-! ### flush: field lemmas -/

theorem flush_st (t : T) (k : String) : (flush t k).st = t.st := by unfold flush; split <;> rfl
theorem flush_skel (t : T) (k : String) : skeleton (flush t k).toks = skeleton t.toks := by
  unfold flush; split
  · rfl
  · exact skeleton_text _ _ _
theorem flush_isEnd (t : T) (k : String) : (flush t k).isEnd = t.isEnd := by unfold flush; split <;> rfl
theorem flush_name (t : T) (k : String) : (flush t k).name = t.name := by unfold flush; split <;> rfl
theorem flush_attrs (t : T) (k : String) : (flush t k).attrs = t.attrs := by unfold flush; split <;> rfl
theorem flush_an (t : T) (k : String) : (flush t k).an = t.an := by unfold flush; split <;> rfl
theorem flush_av (t : T) (k : String) : (flush t k).av = t.av := by unfold flush; split <;> rfl
theorem flush_hasAttr (t : T) (k : String) : (flush t k).hasAttr = t.hasAttr := by unfold flush; split <;> rfl
theorem flush_selfClosing (t : T) (k : String) : (flush t k).selfClosing = t.selfClosing := by
  unfold flush; split <;> rfl
theorem flush_lastStart (t : T) (k : String) : (flush t k).lastStart = t.lastStart := by
  unfold flush; split <;> rfl
theorem flush_tmp (t : T) (k : String) : (flush t k).tmp = t.tmp := by unfold flush; split <;> rfl
theorem flush_cmt (t : T) (k : String) : (flush t k).cmt = t.cmt := by unfold flush; split <;> rfl
theorem flush_bogus (t : T) (k : String) : (flush t k).bogus = t.bogus := by unfold flush; split <;> rfl
theorem flush_pend (t : T) (k : String) : (flush t k).pend = t.pend := by unfold flush; split <;> rfl

theorem Sim.flush {a b : T} (h : Sim a b) (k k' : String) : Sim (flush a k) (flush b k') := by
  constructor <;>
    simp only [flush_st, flush_skel, flush_isEnd, flush_name, flush_attrs, flush_an, flush_hasAttr,
      flush_selfClosing, flush_lastStart, flush_tmp, flush_cmt, flush_bogus, flush_pend]
  · exact h.st
  · exact h.toks
  · exact h.isEnd
  · exact h.name
  · exact h.attrs
  · exact h.an
  · exact h.hasAttr
  · exact h.selfClosing
  · exact h.lastStart
  · exact h.tmp
  · exact h.cmt
  · exact h.bogus
  · exact h.pend

/-! ### finishAttr: field lemmas -/

/-- the attribute names after `finishAttr`, as a function of the names before -/
def finNames (ns : List Bytes) (has : Bool) (an : Bytes) : List Bytes :=
  if !has then ns else if ns.any (fun a => a == an.reverse) then ns else an.reverse :: ns

theorem finishAttr_st (t : T) : (finishAttr t).st = t.st := by unfold finishAttr; split <;> rfl
theorem finishAttr_toks (t : T) : (finishAttr t).toks = t.toks := by unfold finishAttr; split <;> rfl
theorem finishAttr_txt (t : T) : (finishAttr t).txt = t.txt := by unfold finishAttr; split <;> rfl
theorem finishAttr_isEnd (t : T) : (finishAttr t).isEnd = t.isEnd := by unfold finishAttr; split <;> rfl
theorem finishAttr_name (t : T) : (finishAttr t).name = t.name := by unfold finishAttr; split <;> rfl
theorem finishAttr_names (t : T) :
    (finishAttr t).attrs.map Prod.fst = finNames (t.attrs.map Prod.fst) t.hasAttr t.an := by
  unfold finishAttr finNames
  split
  · rfl
  · simp only [List.any_map]
    have : (fun a : Bytes × Bytes => a.1 == t.an.reverse) = ((fun a : Bytes => a == t.an.reverse) ∘ Prod.fst) := rfl
    rw [this]
    split <;> simp
theorem finishAttr_an (t : T) : (finishAttr t).an = if t.hasAttr then [] else t.an := by
  unfold finishAttr; cases h : t.hasAttr <;> simp
theorem finishAttr_hasAttr (t : T) : (finishAttr t).hasAttr = false := by
  unfold finishAttr; cases h : t.hasAttr <;> simp [h]
theorem finishAttr_selfClosing (t : T) : (finishAttr t).selfClosing = t.selfClosing := by
  unfold finishAttr; split <;> rfl
theorem finishAttr_lastStart (t : T) : (finishAttr t).lastStart = t.lastStart := by
  unfold finishAttr; split <;> rfl
theorem finishAttr_tmp (t : T) : (finishAttr t).tmp = t.tmp := by unfold finishAttr; split <;> rfl
theorem finishAttr_cmt (t : T) : (finishAttr t).cmt = t.cmt := by unfold finishAttr; split <;> rfl
theorem finishAttr_bogus (t : T) : (finishAttr t).bogus = t.bogus := by unfold finishAttr; split <;> rfl
theorem finishAttr_pend (t : T) : (finishAttr t).pend = t.pend := by unfold finishAttr; split <;> rfl

theorem Sim.finishAttr {a b : T} (h : Sim a b) : Sim (finishAttr a) (finishAttr b) := by
  constructor <;>
    simp only [finishAttr_st, finishAttr_toks, finishAttr_isEnd, finishAttr_name, finishAttr_names,
      finishAttr_an, finishAttr_hasAttr, finishAttr_selfClosing, finishAttr_lastStart, finishAttr_tmp,
      finishAttr_cmt, finishAttr_bogus, finishAttr_pend]
  · exact h.st
  · exact h.toks
  · exact h.isEnd
  · exact h.name
  · rw [h.attrs, h.hasAttr, h.an]
  · rw [h.hasAttr, h.an]
  · exact h.selfClosing
  · exact h.lastStart
  · exact h.tmp
  · exact h.cmt
  · exact h.bogus
  · exact h.pend

/-- close a field goal from the fields of a `Sim` hypothesis -/
syntax "sim_field " ident : tactic
macro_rules
  | `(tactic| sim_field $h:ident) => `(tactic| first
      | with_reducible rfl | exact (Sim.st $h :) | exact (Sim.toks $h :) | exact (Sim.isEnd $h :) | exact (Sim.name $h :) | exact (Sim.attrs $h :)
      | exact (Sim.an $h :) | exact (Sim.hasAttr $h :) | exact (Sim.selfClosing $h :) | exact (Sim.lastStart $h :)
      | exact (Sim.tmp $h :) | exact (Sim.cmt $h :) | exact (Sim.bogus $h :) | exact (Sim.pend $h :))

/-! ### emitTag, emitComment -/

theorem emitTag_core {a b : T} (h : Sim a b) :
    Sim (if a.isEnd then
          { a with toks := .endTag a.name.reverse :: a.toks, st := .data, name := [], attrs := [], selfClosing := false }
        else
          let nm := a.name.reverse
          let next : St :=
            if nm == [116,105,116,108,101] || nm == [116,101,120,116,97,114,101,97] then .rcdata
            else if nm == [115,116,121,108,101] || nm == [120,109,112] || nm == [105,102,114,97,109,101] ||
                    nm == [110,111,101,109,98,101,100] || nm == [110,111,102,114,97,109,101,115] ||
                    nm == [110,111,115,99,114,105,112,116] then .rawtext
            else if nm == [115,99,114,105,112,116] then .script
            else if nm == [112,108,97,105,110,116,101,120,116] then .plaintext
            else .data
          { a with toks := .startTag nm a.attrs.reverse a.selfClosing :: a.toks, st := next, lastStart := nm,
                   name := [], attrs := [], selfClosing := false })
        (if b.isEnd then
          { b with toks := .endTag b.name.reverse :: b.toks, st := .data, name := [], attrs := [], selfClosing := false }
        else
          let nm := b.name.reverse
          let next : St :=
            if nm == [116,105,116,108,101] || nm == [116,101,120,116,97,114,101,97] then .rcdata
            else if nm == [115,116,121,108,101] || nm == [120,109,112] || nm == [105,102,114,97,109,101] ||
                    nm == [110,111,101,109,98,101,100] || nm == [110,111,102,114,97,109,101,115] ||
                    nm == [110,111,115,99,114,105,112,116] then .rawtext
            else if nm == [115,99,114,105,112,116] then .script
            else if nm == [112,108,97,105,110,116,101,120,116] then .plaintext
            else .data
          { b with toks := .startTag nm b.attrs.reverse b.selfClosing :: b.toks, st := next, lastStart := nm,
                   name := [], attrs := [], selfClosing := false }) := by
  rw [← h.isEnd, ← h.name]
  cases a.isEnd
  · simp only [Bool.false_eq_true, if_false]
    constructor <;> simp only [skeleton_start, List.map_reverse, List.map_nil] <;> try sim_field h
    rw [h.toks, h.attrs, h.selfClosing]
  · simp only [if_true]
    constructor <;> simp only [skeleton_end, List.map_nil] <;> try sim_field h
    rw [h.toks]

theorem Sim.emitTag {a b : T} (h : Sim a b) (k k' : String) : Sim (emitTag a k) (emitTag b k') :=
  emitTag_core (h.finishAttr.flush k k')

theorem Sim.emitComment {a b : T} (h : Sim a b) : Sim (emitComment a) (emitComment b) := by
  have g := h.flush "data" "data"
  unfold HtmlTok.emitComment
  constructor <;> simp only [skeleton_comment] <;> try sim_field g
  rw [g.toks]

/-! ### step -/

theorem sim_ite {p : Prop} [Decidable p] {x y x' y' : T} (h1 : p → Sim x x') (h2 : ¬p → Sim y y') :
    Sim (if p then x else y) (if p then x' else y') := by
  by_cases h : p
  · simp only [h, if_true]; exact h1 h
  · simp only [h, if_false]; exact h2 h

theorem foldl_sim (g : T → Nat → T) (hg : ∀ a b c, Sim a b → Sim (g a c) (g b c)) :
    ∀ (l : List Nat) (a b : T), Sim a b → Sim (l.foldl g a) (l.foldl g b)
  | [], _, _, h => h
  | c :: l, a, b, h => foldl_sim g hg l _ _ (hg a b c h)


/-- closes `Sim X Y` where `X`, `Y` are the same record update of Sim-related `a`, `b` -/
syntax "sim_leaf " ident : tactic
macro_rules
  | `(tactic| sim_leaf $h:ident) => `(tactic| first
      | with_reducible exact $h
      | (constructor <;>
          simp only [newTag, emitChar, emitChars, skeleton_doctype,
            flush_st, flush_skel, flush_isEnd, flush_name, flush_attrs, flush_an, flush_hasAttr,
            flush_selfClosing, flush_lastStart, flush_tmp, flush_cmt, flush_bogus, flush_pend,
            finishAttr_st, finishAttr_toks, finishAttr_isEnd, finishAttr_name, finishAttr_names,
            finishAttr_an, finishAttr_hasAttr, finishAttr_selfClosing, finishAttr_lastStart, finishAttr_tmp,
            finishAttr_cmt, finishAttr_bogus, finishAttr_pend] <;>
          first
            | sim_field $h
            | simp only [Sim.st $h, Sim.toks $h, Sim.isEnd $h, Sim.name $h, Sim.attrs $h, Sim.an $h, Sim.hasAttr $h,
                Sim.selfClosing $h, Sim.lastStart $h, Sim.tmp $h, Sim.cmt $h, Sim.bogus $h, Sim.pend $h]))


/-- one state of `step`: unfold, split the conditions, use the induction hypothesis for reconsumption -/
syntax "sim_state " ident ident ident : tactic
macro_rules
  | `(tactic| sim_state $h:ident $ih:ident $hs:ident) => `(tactic| (
      have hb := (Sim.st $h).symm.trans $hs
      simp only [step, $hs:ident, hb, ← Sim.name $h, ← Sim.lastStart $h, ← Sim.tmp $h, ← Sim.pend $h]
      repeat' (with_reducible first
        | refine sim_ite (fun _ => ?_) (fun _ => ?_)
        | apply $ih
        | apply Sim.emitTag
        | apply Sim.emitComment
        | refine foldl_sim _ $ih _ _ _ ?_)
      all_goals sim_leaf $h))

set_option linter.unusedVariables false

/-- the induction hypothesis on the reconsumption fuel -/
abbrev IH (f : Nat) : Prop := ∀ (a b : T) (c : Nat), Sim a b → Sim (step f a c) (step f b c)

theorem step_sim_data (f : Nat) (ih : IH f) (a b : T) (c : Nat) (h : Sim a b) (hs : a.st = .data) :
    Sim (step (f+1) a c) (step (f+1) b c) := by
  sim_state h ih hs

theorem step_sim_rcdata (f : Nat) (ih : IH f) (a b : T) (c : Nat) (h : Sim a b) (hs : a.st = .rcdata) :
    Sim (step (f+1) a c) (step (f+1) b c) := by
  sim_state h ih hs

theorem step_sim_rawtext (f : Nat) (ih : IH f) (a b : T) (c : Nat) (h : Sim a b) (hs : a.st = .rawtext) :
    Sim (step (f+1) a c) (step (f+1) b c) := by
  sim_state h ih hs

theorem step_sim_script (f : Nat) (ih : IH f) (a b : T) (c : Nat) (h : Sim a b) (hs : a.st = .script) :
    Sim (step (f+1) a c) (step (f+1) b c) := by
  sim_state h ih hs

theorem step_sim_plaintext (f : Nat) (ih : IH f) (a b : T) (c : Nat) (h : Sim a b) (hs : a.st = .plaintext) :
    Sim (step (f+1) a c) (step (f+1) b c) := by
  sim_state h ih hs

theorem step_sim_tagOpen (f : Nat) (ih : IH f) (a b : T) (c : Nat) (h : Sim a b) (hs : a.st = .tagOpen) :
    Sim (step (f+1) a c) (step (f+1) b c) := by
  sim_state h ih hs

theorem step_sim_endTagOpen (f : Nat) (ih : IH f) (a b : T) (c : Nat) (h : Sim a b) (hs : a.st = .endTagOpen) :
    Sim (step (f+1) a c) (step (f+1) b c) := by
  sim_state h ih hs

theorem step_sim_tagName (f : Nat) (ih : IH f) (a b : T) (c : Nat) (h : Sim a b) (hs : a.st = .tagName) :
    Sim (step (f+1) a c) (step (f+1) b c) := by
  sim_state h ih hs

theorem step_sim_scriptEscStart (f : Nat) (ih : IH f) (a b : T) (c : Nat) (h : Sim a b) (hs : a.st = .scriptEscStart) :
    Sim (step (f+1) a c) (step (f+1) b c) := by
  sim_state h ih hs

theorem step_sim_scriptEscStartDash (f : Nat) (ih : IH f) (a b : T) (c : Nat) (h : Sim a b) (hs : a.st = .scriptEscStartDash) :
    Sim (step (f+1) a c) (step (f+1) b c) := by
  sim_state h ih hs

theorem step_sim_scriptEsc (f : Nat) (ih : IH f) (a b : T) (c : Nat) (h : Sim a b) (hs : a.st = .scriptEsc) :
    Sim (step (f+1) a c) (step (f+1) b c) := by
  sim_state h ih hs

theorem step_sim_scriptEscDash (f : Nat) (ih : IH f) (a b : T) (c : Nat) (h : Sim a b) (hs : a.st = .scriptEscDash) :
    Sim (step (f+1) a c) (step (f+1) b c) := by
  sim_state h ih hs

theorem step_sim_scriptEscDashDash (f : Nat) (ih : IH f) (a b : T) (c : Nat) (h : Sim a b) (hs : a.st = .scriptEscDashDash) :
    Sim (step (f+1) a c) (step (f+1) b c) := by
  sim_state h ih hs

theorem step_sim_scriptEscLt (f : Nat) (ih : IH f) (a b : T) (c : Nat) (h : Sim a b) (hs : a.st = .scriptEscLt) :
    Sim (step (f+1) a c) (step (f+1) b c) := by
  sim_state h ih hs

theorem step_sim_scriptEscEndOpen (f : Nat) (ih : IH f) (a b : T) (c : Nat) (h : Sim a b) (hs : a.st = .scriptEscEndOpen) :
    Sim (step (f+1) a c) (step (f+1) b c) := by
  sim_state h ih hs

theorem step_sim_scriptEscEndName (f : Nat) (ih : IH f) (a b : T) (c : Nat) (h : Sim a b) (hs : a.st = .scriptEscEndName) :
    Sim (step (f+1) a c) (step (f+1) b c) := by
  sim_state h ih hs

theorem step_sim_scriptDblEscStart (f : Nat) (ih : IH f) (a b : T) (c : Nat) (h : Sim a b) (hs : a.st = .scriptDblEscStart) :
    Sim (step (f+1) a c) (step (f+1) b c) := by
  sim_state h ih hs

theorem step_sim_scriptDblEsc (f : Nat) (ih : IH f) (a b : T) (c : Nat) (h : Sim a b) (hs : a.st = .scriptDblEsc) :
    Sim (step (f+1) a c) (step (f+1) b c) := by
  sim_state h ih hs

theorem step_sim_scriptDblEscDash (f : Nat) (ih : IH f) (a b : T) (c : Nat) (h : Sim a b) (hs : a.st = .scriptDblEscDash) :
    Sim (step (f+1) a c) (step (f+1) b c) := by
  sim_state h ih hs

theorem step_sim_scriptDblEscDashDash (f : Nat) (ih : IH f) (a b : T) (c : Nat) (h : Sim a b) (hs : a.st = .scriptDblEscDashDash) :
    Sim (step (f+1) a c) (step (f+1) b c) := by
  sim_state h ih hs

theorem step_sim_scriptDblEscLt (f : Nat) (ih : IH f) (a b : T) (c : Nat) (h : Sim a b) (hs : a.st = .scriptDblEscLt) :
    Sim (step (f+1) a c) (step (f+1) b c) := by
  sim_state h ih hs

theorem step_sim_scriptDblEscEnd (f : Nat) (ih : IH f) (a b : T) (c : Nat) (h : Sim a b) (hs : a.st = .scriptDblEscEnd) :
    Sim (step (f+1) a c) (step (f+1) b c) := by
  sim_state h ih hs

theorem step_sim_beforeAttrName (f : Nat) (ih : IH f) (a b : T) (c : Nat) (h : Sim a b) (hs : a.st = .beforeAttrName) :
    Sim (step (f+1) a c) (step (f+1) b c) := by
  sim_state h ih hs

theorem step_sim_attrName (f : Nat) (ih : IH f) (a b : T) (c : Nat) (h : Sim a b) (hs : a.st = .attrName) :
    Sim (step (f+1) a c) (step (f+1) b c) := by
  sim_state h ih hs

theorem step_sim_afterAttrName (f : Nat) (ih : IH f) (a b : T) (c : Nat) (h : Sim a b) (hs : a.st = .afterAttrName) :
    Sim (step (f+1) a c) (step (f+1) b c) := by
  sim_state h ih hs

theorem step_sim_beforeAttrValue (f : Nat) (ih : IH f) (a b : T) (c : Nat) (h : Sim a b) (hs : a.st = .beforeAttrValue) :
    Sim (step (f+1) a c) (step (f+1) b c) := by
  sim_state h ih hs

theorem step_sim_attrValueDq (f : Nat) (ih : IH f) (a b : T) (c : Nat) (h : Sim a b) (hs : a.st = .attrValueDq) :
    Sim (step (f+1) a c) (step (f+1) b c) := by
  sim_state h ih hs

theorem step_sim_attrValueSq (f : Nat) (ih : IH f) (a b : T) (c : Nat) (h : Sim a b) (hs : a.st = .attrValueSq) :
    Sim (step (f+1) a c) (step (f+1) b c) := by
  sim_state h ih hs

theorem step_sim_attrValueUnq (f : Nat) (ih : IH f) (a b : T) (c : Nat) (h : Sim a b) (hs : a.st = .attrValueUnq) :
    Sim (step (f+1) a c) (step (f+1) b c) := by
  sim_state h ih hs

theorem step_sim_afterAttrValueQ (f : Nat) (ih : IH f) (a b : T) (c : Nat) (h : Sim a b) (hs : a.st = .afterAttrValueQ) :
    Sim (step (f+1) a c) (step (f+1) b c) := by
  sim_state h ih hs

theorem step_sim_selfClosingStart (f : Nat) (ih : IH f) (a b : T) (c : Nat) (h : Sim a b) (hs : a.st = .selfClosingStart) :
    Sim (step (f+1) a c) (step (f+1) b c) := by
  sim_state h ih hs

theorem step_sim_bogusComment (f : Nat) (ih : IH f) (a b : T) (c : Nat) (h : Sim a b) (hs : a.st = .bogusComment) :
    Sim (step (f+1) a c) (step (f+1) b c) := by
  sim_state h ih hs

theorem step_sim_markupDeclOpen (f : Nat) (ih : IH f) (a b : T) (c : Nat) (h : Sim a b) (hs : a.st = .markupDeclOpen) :
    Sim (step (f+1) a c) (step (f+1) b c) := by
  sim_state h ih hs

theorem step_sim_commentStart (f : Nat) (ih : IH f) (a b : T) (c : Nat) (h : Sim a b) (hs : a.st = .commentStart) :
    Sim (step (f+1) a c) (step (f+1) b c) := by
  sim_state h ih hs

theorem step_sim_commentStartDash (f : Nat) (ih : IH f) (a b : T) (c : Nat) (h : Sim a b) (hs : a.st = .commentStartDash) :
    Sim (step (f+1) a c) (step (f+1) b c) := by
  sim_state h ih hs

theorem step_sim_comment (f : Nat) (ih : IH f) (a b : T) (c : Nat) (h : Sim a b) (hs : a.st = .comment) :
    Sim (step (f+1) a c) (step (f+1) b c) := by
  sim_state h ih hs

theorem step_sim_commentLt (f : Nat) (ih : IH f) (a b : T) (c : Nat) (h : Sim a b) (hs : a.st = .commentLt) :
    Sim (step (f+1) a c) (step (f+1) b c) := by
  sim_state h ih hs

theorem step_sim_commentLtBang (f : Nat) (ih : IH f) (a b : T) (c : Nat) (h : Sim a b) (hs : a.st = .commentLtBang) :
    Sim (step (f+1) a c) (step (f+1) b c) := by
  sim_state h ih hs

theorem step_sim_commentLtBangDash (f : Nat) (ih : IH f) (a b : T) (c : Nat) (h : Sim a b) (hs : a.st = .commentLtBangDash) :
    Sim (step (f+1) a c) (step (f+1) b c) := by
  sim_state h ih hs

theorem step_sim_commentLtBangDashDash (f : Nat) (ih : IH f) (a b : T) (c : Nat) (h : Sim a b) (hs : a.st = .commentLtBangDashDash) :
    Sim (step (f+1) a c) (step (f+1) b c) := by
  sim_state h ih hs

theorem step_sim_commentEndDash (f : Nat) (ih : IH f) (a b : T) (c : Nat) (h : Sim a b) (hs : a.st = .commentEndDash) :
    Sim (step (f+1) a c) (step (f+1) b c) := by
  sim_state h ih hs

theorem step_sim_commentEnd (f : Nat) (ih : IH f) (a b : T) (c : Nat) (h : Sim a b) (hs : a.st = .commentEnd) :
    Sim (step (f+1) a c) (step (f+1) b c) := by
  sim_state h ih hs

theorem step_sim_commentEndBang (f : Nat) (ih : IH f) (a b : T) (c : Nat) (h : Sim a b) (hs : a.st = .commentEndBang) :
    Sim (step (f+1) a c) (step (f+1) b c) := by
  sim_state h ih hs

theorem step_sim_doctype (f : Nat) (ih : IH f) (a b : T) (c : Nat) (h : Sim a b) (hs : a.st = .doctype) :
    Sim (step (f+1) a c) (step (f+1) b c) := by
  sim_state h ih hs

theorem step_sim_textLt (f : Nat) (ih : IH f) (a b : T) (c : Nat) (h : Sim a b) (k : Nat) (hs : a.st = .textLt k) :
    Sim (step (f+1) a c) (step (f+1) b c) := by
  sim_state h ih hs

theorem step_sim_textEndOpen (f : Nat) (ih : IH f) (a b : T) (c : Nat) (h : Sim a b) (k : Nat) (hs : a.st = .textEndOpen k) :
    Sim (step (f+1) a c) (step (f+1) b c) := by
  sim_state h ih hs

theorem step_sim_textEndName (f : Nat) (ih : IH f) (a b : T) (c : Nat) (h : Sim a b) (k : Nat) (hs : a.st = .textEndName k) :
    Sim (step (f+1) a c) (step (f+1) b c) := by
  sim_state h ih hs

set_option linter.unusedVariables true

/-- **`Sim` is preserved by every byte**, for every reconsumption fuel -/
theorem step_sim : ∀ (f : Nat) (a b : T) (c : Nat), Sim a b → Sim (step f a c) (step f b c)
  | 0, a, b, c, h => by unfold step; exact h
  | f+1, a, b, c, h => by
    have ih : IH f := step_sim f
    cases hs : a.st with
    | data => exact step_sim_data f ih a b c h hs
    | rcdata => exact step_sim_rcdata f ih a b c h hs
    | rawtext => exact step_sim_rawtext f ih a b c h hs
    | script => exact step_sim_script f ih a b c h hs
    | plaintext => exact step_sim_plaintext f ih a b c h hs
    | tagOpen => exact step_sim_tagOpen f ih a b c h hs
    | endTagOpen => exact step_sim_endTagOpen f ih a b c h hs
    | tagName => exact step_sim_tagName f ih a b c h hs
    | scriptEscStart => exact step_sim_scriptEscStart f ih a b c h hs
    | scriptEscStartDash => exact step_sim_scriptEscStartDash f ih a b c h hs
    | scriptEsc => exact step_sim_scriptEsc f ih a b c h hs
    | scriptEscDash => exact step_sim_scriptEscDash f ih a b c h hs
    | scriptEscDashDash => exact step_sim_scriptEscDashDash f ih a b c h hs
    | scriptEscLt => exact step_sim_scriptEscLt f ih a b c h hs
    | scriptEscEndOpen => exact step_sim_scriptEscEndOpen f ih a b c h hs
    | scriptEscEndName => exact step_sim_scriptEscEndName f ih a b c h hs
    | scriptDblEscStart => exact step_sim_scriptDblEscStart f ih a b c h hs
    | scriptDblEsc => exact step_sim_scriptDblEsc f ih a b c h hs
    | scriptDblEscDash => exact step_sim_scriptDblEscDash f ih a b c h hs
    | scriptDblEscDashDash => exact step_sim_scriptDblEscDashDash f ih a b c h hs
    | scriptDblEscLt => exact step_sim_scriptDblEscLt f ih a b c h hs
    | scriptDblEscEnd => exact step_sim_scriptDblEscEnd f ih a b c h hs
    | beforeAttrName => exact step_sim_beforeAttrName f ih a b c h hs
    | attrName => exact step_sim_attrName f ih a b c h hs
    | afterAttrName => exact step_sim_afterAttrName f ih a b c h hs
    | beforeAttrValue => exact step_sim_beforeAttrValue f ih a b c h hs
    | attrValueDq => exact step_sim_attrValueDq f ih a b c h hs
    | attrValueSq => exact step_sim_attrValueSq f ih a b c h hs
    | attrValueUnq => exact step_sim_attrValueUnq f ih a b c h hs
    | afterAttrValueQ => exact step_sim_afterAttrValueQ f ih a b c h hs
    | selfClosingStart => exact step_sim_selfClosingStart f ih a b c h hs
    | bogusComment => exact step_sim_bogusComment f ih a b c h hs
    | markupDeclOpen => exact step_sim_markupDeclOpen f ih a b c h hs
    | commentStart => exact step_sim_commentStart f ih a b c h hs
    | commentStartDash => exact step_sim_commentStartDash f ih a b c h hs
    | comment => exact step_sim_comment f ih a b c h hs
    | commentLt => exact step_sim_commentLt f ih a b c h hs
    | commentLtBang => exact step_sim_commentLtBang f ih a b c h hs
    | commentLtBangDash => exact step_sim_commentLtBangDash f ih a b c h hs
    | commentLtBangDashDash => exact step_sim_commentLtBangDashDash f ih a b c h hs
    | commentEndDash => exact step_sim_commentEndDash f ih a b c h hs
    | commentEnd => exact step_sim_commentEnd f ih a b c h hs
    | commentEndBang => exact step_sim_commentEndBang f ih a b c h hs
    | doctype => exact step_sim_doctype f ih a b c h hs
    | textLt k => exact step_sim_textLt f ih a b c h k hs
    | textEndOpen k => exact step_sim_textEndOpen f ih a b c h k hs
    | textEndName k => exact step_sim_textEndName f ih a b c h k hs

/-- hence by `run` on equal input -/
theorem run_sim (s : Bytes) (a b : T) (h : Sim a b) : Sim (run a s) (run b s) :=
  foldl_sim (fun acc c => step 4 acc c) (step_sim 4) s a b h


/-- end of input -/
theorem finish_sim (a b : T) (h : Sim a b) : Sim (finish a) (finish b) := by
  have hb := h.st
  have g := h.emitComment
  unfold finish
  rw [← hb]
  cases hs : a.st <;> simp only [] <;>
    first
    | exact h.flush _ _
    | (constructor <;> first | sim_field g | sim_field h)

theorem result_sim (a b : T) (h : Sim a b) :
    skeleton a.toks.reverse = skeleton b.toks.reverse ∧ a.st = b.st := by
  rw [skeleton_reverse, skeleton_reverse, h.toks]
  exact ⟨rfl, h.st⟩

/-- Sim-related states give the same token skeleton and final state after any common suffix -/
theorem suffix_sim (a b : T) (h : Sim a b) (post : Bytes) :
    skeleton (finish (run a post)).toks.reverse = skeleton (finish (run b post)).toks.reverse ∧
    (finish (run a post)).st = (finish (run b post)).st :=
  result_sim _ _ (finish_sim _ _ (run_sim post a b h))

/-! ### inert text -/

/-- at an inert position, `Esc` text leaves the state `Sim`-related to what it was -/
theorem inert_sim (t : T) (x : Bytes) (hx : Esc x = true) (hp : InertPos t.st) : Sim t (run t x) := by
  have hs := Esc_no_special x hx
  rcases hp with h | h | h | h
  · rw [run_data x _ h (fun c hc => (hs c hc).1)]
    exact ⟨rfl, rfl, rfl, rfl, rfl, rfl, rfl, rfl, rfl, rfl, rfl, rfl, rfl⟩
  · rw [run_rcdata x _ h (fun c hc => (hs c hc).1)]
    exact ⟨rfl, rfl, rfl, rfl, rfl, rfl, rfl, rfl, rfl, rfl, rfl, rfl, rfl⟩
  · rw [run_dq x _ h (fun c hc => (hs c hc).2.2.1)]
    exact ⟨rfl, rfl, rfl, rfl, rfl, rfl, rfl, rfl, rfl, rfl, rfl, rfl, rfl⟩
  · rw [run_sq x _ h (fun c hc => (hs c hc).2.2.2.1)]
    exact ⟨rfl, rfl, rfl, rfl, rfl, rfl, rfl, rfl, rfl, rfl, rfl, rfl, rfl⟩

/-- two `Esc` texts at the same inert position, in `Sim`-related states -/
theorem inert_sim2 (a b : T) (h : Sim a b) (x y : Bytes) (hx : Esc x = true) (hy : Esc y = true)
    (hp : InertPos a.st) : Sim (run a x) (run b y) :=
  (inert_sim a x hx hp).symm.trans (h.trans (inert_sim b y hy (h.st ▸ hp)))

/-! ### C01, one action -/

theorem tokenize_tokens (s : Bytes) : (tokenize s).tokens = (finish (run {} s)).toks.reverse := rfl
theorem tokenize_final (s : Bytes) : (tokenize s).final = (finish (run {} s)).st := rfl

/-- **C01 for one action**: the token skeleton and the final tokenizer state of `pre ++ data ++ post` do not
    depend on the (escaped) data inserted at an inert position. -/
theorem C01_one_action : SafeHtml.Props.C01.C01_one_action_statement := by
  intro pre post x y hx hy hp
  simp only [tokenize_tokens, tokenize_final, run_append]
  exact suffix_sim _ _ (inert_sim2 _ _ (Sim.refl _) x y hx hy hp) post

/-! ### C01, n actions -/

/-- `static₁ ++ data₁ ++ static₂ ++ data₂ ++ … ++ tail` -/
def render : List (Bytes × Bytes) → Bytes → Bytes
  | [], tail => tail
  | (s, d) :: ps, tail => s ++ d ++ render ps tail

/-- started in `t`, the tokenizer is at an inert position after each static part -/
def InertAll (t : T) : List (Bytes × Bytes) → Prop
  | [] => True
  | (s, d) :: ps => InertPos (run t s).st ∧ InertAll (run (run t s) d) ps

/-- the same, spelled out with prefixes of the rendering: for every `k`, after
    `static₁ ++ data₁ ++ … ++ dataₖ ++ staticₖ₊₁` the tokenizer is at an inert position -/
theorem inertAll_iff : ∀ (ps : List (Bytes × Bytes)) (t : T),
    InertAll t ps ↔ ∀ (k : Nat) (hk : k < ps.length), InertPos (run t (render (ps.take k) (ps[k]'hk).1)).st
  | [], t => by simp [InertAll]
  | (s, d) :: ps, t => by
    simp only [InertAll, inertAll_iff ps]
    constructor
    · rintro ⟨h0, h1⟩ k hk
      cases k with
      | zero => simpa [render] using h0
      | succ k =>
        have := h1 k (by simpa using hk)
        simpa [render, run_append] using this
    · intro h
      refine ⟨by simpa [render] using h 0 (Nat.zero_lt_succ _), fun k hk => ?_⟩
      have := h (k+1) (by simpa using hk)
      simpa [render, run_append] using this

theorem render_sim : ∀ (ps qs : List (Bytes × Bytes)) (tail : Bytes) (a b : T), Sim a b →
    ps.map Prod.fst = qs.map Prod.fst → (∀ p ∈ ps, Esc p.2 = true) → (∀ q ∈ qs, Esc q.2 = true) →
    InertAll a ps → Sim (run a (render ps tail)) (run b (render qs tail))
  | [], [], tail, a, b, h, _, _, _, _ => run_sim tail a b h
  | [], _ :: _, _, _, _, _, hs, _, _, _ => by simp at hs
  | _ :: _, [], _, _, _, _, hs, _, _, _ => by simp at hs
  | (s, d) :: ps, (s', d') :: qs, tail, a, b, h, hs, hp, hq, hi => by
    simp only [List.map_cons, List.cons.injEq] at hs
    obtain ⟨rfl, hs⟩ := hs
    simp only [render, run_append]
    have h1 := run_sim s a b h
    have h2 := inert_sim2 _ _ h1 d d' (hp (s, d) (by simp)) (hq (s, d') (by simp)) hi.1
    exact render_sim ps qs tail _ _ h2 hs (fun p hp' => hp p (by simp [hp'])) (fun q hq' => hq q (by simp [hq']))
      hi.2

/-- **C01 for n actions**: two renderings with the same static parts and `Esc` data at inert positions have the
    same token skeleton and the same final tokenizer state. -/
theorem C01_n_actions (ps qs : List (Bytes × Bytes)) (tail : Bytes)
    (hs : ps.map Prod.fst = qs.map Prod.fst)
    (hp : ∀ p ∈ ps, Esc p.2 = true) (hq : ∀ q ∈ qs, Esc q.2 = true) (hi : InertAll {} ps) :
    skeleton (tokenize (render ps tail)).tokens = skeleton (tokenize (render qs tail)).tokens ∧
    (tokenize (render ps tail)).final = (tokenize (render qs tail)).final := by
  simp only [tokenize_tokens, tokenize_final]
  exact result_sim _ _ (finish_sim _ _ (render_sim ps qs tail {} {} (Sim.refl _) hs hp hq hi))

/-- the n-action statement with the inert-position hypothesis spelled out on prefixes of the first rendering -/
theorem C01_n_actions' (ps qs : List (Bytes × Bytes)) (tail : Bytes)
    (hs : ps.map Prod.fst = qs.map Prod.fst)
    (hp : ∀ p ∈ ps, Esc p.2 = true) (hq : ∀ q ∈ qs, Esc q.2 = true)
    (hi : ∀ (k : Nat) (hk : k < ps.length), InertPos (run {} (render (ps.take k) (ps[k]'hk).1)).st) :
    skeleton (tokenize (render ps tail)).tokens = skeleton (tokenize (render qs tail)).tokens ∧
    (tokenize (render ps tail)).final = (tokenize (render qs tail)).final :=
  C01_n_actions ps qs tail hs hp hq ((inertAll_iff ps {}).2 hi)

end SafeHtml.Proofs.HtmlTokSim
