/- Lemmas about the model of `urlProcessor` (internal/safehtmlutil), over the regenerated case lists. -/
import SafeHtml.Model.UrlUtil
import SafeHtml.Spec.UrlComponents
namespace SafeHtml.Proofs.UrlProc
open SafeHtml SafeHtml.Model SafeHtml.Generated.Tables SafeHtml.Spec.UrlComp

theorem hexDigitLower_isHex (n : Nat) (h : n < 16) : isHexDigit (hexDigitLower n) = true := by
  unfold hexDigitLower isHexDigit isDigit
  split <;> simp <;> omega

theorem hexDigitLower_isAlnum (n : Nat) (h : n < 16) : isAlnum (hexDigitLower n) = true := by
  unfold hexDigitLower isAlnum isAlpha isLowerAlpha isUpperAlpha isDigit
  split <;> simp <;> omega

theorem isHex_isAlnum (c : Nat) (h : isHexDigit c = true) : isAlnum c = true := by
  simp only [isHexDigit, isDigit, isAlnum, isAlpha, isLowerAlpha, isUpperAlpha, Bool.or_eq_true, Bool.and_eq_true,
    decide_eq_true_eq] at *
  omega

/-- table obligation: an alphanumeric byte is kept in both modes, whatever follows -/
theorem keeps_alnum (norm : Bool) (c : Nat) (r : Bytes) (h : isAlnum c = true) : urlKeeps norm c r = true := by
  simp only [isAlnum, isAlpha, isLowerAlpha, isUpperAlpha, isDigit, Bool.or_eq_true, Bool.and_eq_true,
    decide_eq_true_eq] at h
  have h1 : urlProcNormOnly.contains c = false := by
    simp only [urlProcNormOnly, List.contains_cons, List.contains_nil, Bool.or_false, Bool.or_eq_false_iff, beq_eq_false_iff_ne]
    omega
  have h2 : urlProcAlways.contains c = false := by
    simp only [urlProcAlways, List.contains_cons, List.contains_nil, Bool.or_false, Bool.or_eq_false_iff, beq_eq_false_iff_ne]
    omega
  have h3 : urlProcPercent.contains c = false := by
    simp only [urlProcPercent, List.contains_cons, List.contains_nil, Bool.or_false, beq_eq_false_iff_ne]
    omega
  simp only [urlKeeps, h1, h2, h3, Bool.false_eq_true, if_false, urlProcDefaultRanges, List.any_cons, List.any_nil,
    Bool.or_false, Bool.or_eq_true, Bool.and_eq_true, decide_eq_true_eq]
  omega

/-- table obligation: what `urlKeeps` can keep when escaping for a query: unreserved bytes only -/
theorem keeps_query (c : Nat) (r : Bytes) (h : urlKeeps false c r = true) : isUnreserved c = true ∧ c ≠ 37 := by
  unfold urlKeeps at h
  by_cases h1 : urlProcNormOnly.contains c = true
  · rw [if_pos h1] at h; exact absurd h (by simp)
  · simp only [h1, Bool.false_eq_true, if_false] at h
    by_cases h2 : urlProcAlways.contains c = true
    · simp only [urlProcAlways, List.contains_cons, List.contains_nil, Bool.or_false, Bool.or_eq_true, beq_iff_eq] at h2
      rcases h2 with h2 | h2 | h2 | h2 <;> subst h2 <;> decide
    · simp only [h2, Bool.false_eq_true, if_false] at h
      by_cases h3 : urlProcPercent.contains c = true
      · rw [if_pos h3] at h; exact absurd h (by simp)
      · simp only [h3, Bool.false_eq_true, if_false, urlProcDefaultRanges, List.any_cons, List.any_nil, Bool.or_false,
          Bool.or_eq_true, Bool.and_eq_true, decide_eq_true_eq] at h
        simp only [isUnreserved, isAlnum, isAlpha, isLowerAlpha, isUpperAlpha, isDigit, Bool.or_eq_true, Bool.and_eq_true,
          decide_eq_true_eq, beq_iff_eq]
        omega

/-- the bytes `normalizeURL` may emit (property text: no quotes, angle brackets, spaces, controls, backslashes, non-ASCII) -/
def normOk (c : Nat) : Bool :=
  32 < c && c < 127 && c != 34 && c != 39 && c != 60 && c != 62 && c != 92 && c != 96

/-- table obligation: what `urlKeeps` can keep when normalising -/
theorem keeps_norm (c : Nat) (r : Bytes) (h : urlKeeps true c r = true) : normOk c = true := by
  unfold urlKeeps at h
  by_cases h1 : urlProcNormOnly.contains c = true
  · simp only [urlProcNormOnly, List.contains_cons, List.contains_nil, Bool.or_false, Bool.or_eq_true, beq_iff_eq] at h1
    rcases h1 with h1 | h1 | h1 | h1 | h1 | h1 | h1 | h1 | h1 | h1 | h1 | h1 | h1 | h1 | h1 <;> subst h1 <;> decide
  · simp only [h1, Bool.false_eq_true, if_false] at h
    by_cases h2 : urlProcAlways.contains c = true
    · simp only [urlProcAlways, List.contains_cons, List.contains_nil, Bool.or_false, Bool.or_eq_true, beq_iff_eq] at h2
      rcases h2 with h2 | h2 | h2 | h2 <;> subst h2 <;> decide
    · simp only [h2, Bool.false_eq_true, if_false] at h
      by_cases h3 : urlProcPercent.contains c = true
      · simp only [urlProcPercent, List.contains_cons, List.contains_nil, Bool.or_false, beq_iff_eq] at h3
        subst h3; decide
      · simp only [h3, Bool.false_eq_true, if_false, urlProcDefaultRanges, List.any_cons, List.any_nil, Bool.or_false,
          Bool.or_eq_true, Bool.and_eq_true, decide_eq_true_eq] at h
        simp only [normOk, Bool.and_eq_true, decide_eq_true_eq, bne_iff_ne]
        omega

/-- table obligation: `%` is kept when normalising iff two hex digits follow -/
theorem keeps_pct (r : Bytes) :
    urlKeeps true 37 r = (match r with | a :: b :: _ => isHexDigit a && isHexDigit b | _ => false) := by
  rcases r with _ | ⟨a, _ | ⟨b, u⟩⟩ <;> simp [urlKeeps, urlProcNormOnly, urlProcAlways, urlProcPercent]

/-- a byte other than `%` is kept or not independently of what follows -/
theorem keeps_indep (norm : Bool) (c : Nat) (r r' : Bytes) (h : c ≠ 37) : urlKeeps norm c r = urlKeeps norm c r' := by
  unfold urlKeeps
  have h3 : urlProcPercent.contains c = false := by
    simp only [urlProcPercent, List.contains_cons, List.contains_nil, Bool.or_false, beq_eq_false_iff_ne]; exact h
  simp only [h3, Bool.false_eq_true, if_false]

theorem proc_cons (norm : Bool) (c : Nat) (t : Bytes) :
    urlProcessor norm (c :: t) = (if urlKeeps norm c t then [c] else pctEncode c) ++ urlProcessor norm t := rfl

theorem pct_lt (c : Nat) : c / 16 % 16 < 16 ∧ c % 16 < 16 := by omega

/-! ### queryEscapeURL -/

theorem query_bytes (s : Bytes) : ∀ b ∈ queryEscapeURL s, isUnreserved b = true ∨ b = 37 := by
  unfold queryEscapeURL
  induction s with
  | nil => simp [urlProcessor]
  | cons c t ih =>
    intro b hb
    rw [proc_cons] at hb
    rcases List.mem_append.mp hb with hb | hb
    · by_cases hk : urlKeeps false c t = true
      · simp only [hk, if_true, List.mem_singleton] at hb
        subst hb; exact Or.inl (keeps_query b t hk).1
      · simp only [hk, Bool.false_eq_true, if_false, pctEncode, List.mem_cons, List.not_mem_nil, or_false] at hb
        have := pct_lt c
        rcases hb with hb | hb | hb
        · exact Or.inr hb
        · left; subst hb
          have := hexDigitLower_isAlnum _ this.1
          simp [isUnreserved, this]
        · left; subst hb
          have := hexDigitLower_isAlnum _ this.2
          simp [isUnreserved, this]
    · exact ih b hb

theorem uop_cons_ne (c : Nat) (t : Bytes) (h : c ≠ 37) :
    unreservedOrPct (c :: t) = (isUnreserved c && unreservedOrPct t) := by
  conv => lhs; unfold unreservedOrPct
  simp [h]

theorem uop_pct (a b : Nat) (u : Bytes) :
    unreservedOrPct (37 :: a :: b :: u) = (isHexDigit a && isHexDigit b && unreservedOrPct u) := by
  conv => lhs; unfold unreservedOrPct
  simp

theorem query_unreservedOrPct (s : Bytes) : unreservedOrPct (queryEscapeURL s) = true := by
  unfold queryEscapeURL
  induction s with
  | nil => simp [urlProcessor, unreservedOrPct]
  | cons c t ih =>
    rw [proc_cons]
    by_cases hk : urlKeeps false c t = true
    · have := keeps_query c t hk
      simp only [hk, if_true, List.singleton_append]
      rw [uop_cons_ne c _ this.2, this.1, ih]; rfl
    · have hl := pct_lt c
      simp only [hk, Bool.false_eq_true, if_false, pctEncode, List.cons_append, List.nil_append]
      rw [uop_pct, hexDigitLower_isHex _ hl.1, hexDigitLower_isHex _ hl.2, ih]; rfl

/-! ### normalizeURL -/

theorem norm_bytes (s : Bytes) : ∀ b ∈ normalizeURL s, normOk b = true := by
  unfold normalizeURL
  induction s with
  | nil => simp [urlProcessor]
  | cons c t ih =>
    intro b hb
    rw [proc_cons] at hb
    rcases List.mem_append.mp hb with hb | hb
    · by_cases hk : urlKeeps true c t = true
      · simp only [hk, if_true, List.mem_singleton] at hb
        subst hb; exact keeps_norm b t hk
      · simp only [hk, Bool.false_eq_true, if_false, pctEncode, List.mem_cons, List.not_mem_nil, or_false] at hb
        have hl := pct_lt c
        rcases hb with hb | hb | hb
        · subst hb; decide
        · subst hb
          have := hexDigitLower_isAlnum _ hl.1
          exact keeps_norm _ [] (keeps_alnum true _ [] this)
        · subst hb
          have := hexDigitLower_isAlnum _ hl.2
          exact keeps_norm _ [] (keeps_alnum true _ [] this)
    · exact ih b hb

/-- two hex digits at the head are copied -/
theorem proc_hex2 (norm : Bool) (a b : Nat) (u : Bytes) (ha : isHexDigit a = true) (hb : isHexDigit b = true) :
    urlProcessor norm (a :: b :: u) = a :: b :: urlProcessor norm u := by
  rw [proc_cons, proc_cons, keeps_alnum norm a _ (isHex_isAlnum a ha), keeps_alnum norm b _ (isHex_isAlnum b hb)]
  rfl

/-- a valid escape in the input is kept, and what follows it is normalised on its own -/
theorem norm_keeps_escape (pre post : Bytes) (a b : Nat) (ha : isHexDigit a = true) (hb : isHexDigit b = true) :
    ∃ X, normalizeURL (pre ++ 37 :: a :: b :: post) = X ++ 37 :: a :: b :: normalizeURL post := by
  unfold normalizeURL
  induction pre with
  | nil =>
    refine ⟨[], ?_⟩
    rw [List.nil_append, proc_cons, keeps_pct]
    simp only [ha, hb, Bool.and_self, if_true, List.nil_append, List.singleton_append]
    rw [proc_hex2 true a b post ha hb]
  | cons c t ih =>
    obtain ⟨X, hX⟩ := ih
    rw [List.cons_append, proc_cons, hX]
    exact ⟨(if urlKeeps true c (t ++ 37 :: a :: b :: post) = true then [c] else pctEncode c) ++ X, by simp⟩

theorem norm_idem (s : Bytes) : normalizeURL (normalizeURL s) = normalizeURL s := by
  unfold normalizeURL
  induction s with
  | nil => simp [urlProcessor]
  | cons c t ih =>
    rw [proc_cons]
    by_cases hk : urlKeeps true c t = true
    · simp only [hk, if_true, List.singleton_append]
      rw [proc_cons, ih]
      have : urlKeeps true c (urlProcessor true t) = true := by
        by_cases hc : c = 37
        · subst hc
          rw [keeps_pct] at hk
          match t, hk with
          | a :: b :: u, hk =>
            simp only [Bool.and_eq_true] at hk
            rw [proc_hex2 true a b u hk.1 hk.2, keeps_pct]
            simp [hk.1, hk.2]
        · rw [keeps_indep true c _ t hc]; exact hk
      simp [this]
    · have hl := pct_lt c
      have h1 := hexDigitLower_isHex _ hl.1
      have h2 := hexDigitLower_isHex _ hl.2
      simp only [hk, Bool.false_eq_true, if_false, pctEncode, List.cons_append, List.nil_append]
      rw [proc_cons, keeps_pct]
      simp only [h1, h2, Bool.and_self, if_true, List.singleton_append]
      rw [proc_hex2 true _ _ _ h1 h2, ih]

end SafeHtml.Proofs.UrlProc
