/-
Follow-ups to `Layer3E2E` (C01 for straight-line templates).

(A) Execution. `Layer3E2E.exec` is connected to the model's execution of the committed tree:
  * `applyEdits_out`: applying the edits recorded by the analysis (`NodeList.applyEdits`, what `commit` does per
    template) to the parse tree of a straight-line template with actions `{{.}}` / `{{.A.B}}` yields `outNodes`: text
    nodes with the emitted text, action nodes with the pipeline `arg | f₁ | … | fₙ` (`ensure_chain`);
  * `exec_walk` / `walk_exec`: `walkList` (plain = false) on `outNodes` ends without error iff the arguments evaluate
    and `exec` succeeds on their values, and then writes exactly `exec`'s output;
  * `escapeList_refinesA`: the refinement lemma of `Layer3E2E` for action arguments `.dot` / `.field`;
  * `C01_straight_line_walk`, `C01_straight_line_exec`: the C01 conclusion for `walkList` / `textExecute` outputs.

(B) Branches. Pieces `BP`/`BPs` with `ifElse`; `analyseP`/`analyseL` accept a branch when both arms are accepted from
the same context and end in `Ctx.eq`-equal contexts, and continue in the model's `join`; `execP`/`execL` execute along
a control path (`List Bool`). `simP`/`simL` (analogue of `straight_line_sim`), `C01_branches`; `refP`/`refL`: the
model's `escapeList` on `{{if}}` / `{{with}}` nodes computes `analyseL` and records `editsL`; `C01_branches_model`.
Core Lean only; axioms: propext, Classical.choice, Quot.sound.
-/
import SafeHtml.Proofs.Layer3E2E
import SafeHtml.Model.Tmpl.Api
set_option linter.unusedSimpArgs false
set_option linter.unusedVariables false
namespace SafeHtml.Proofs.Layer3Branch
open SafeHtml SafeHtml.Model SafeHtml.Model.Tmpl SafeHtml.Spec SafeHtml.Spec.HtmlTok SafeHtml.Generated.Policy
open SafeHtml.Props.C01 (InertPos run_nil run_cons run_append)
open SafeHtml.Props.C02 (Untrusted)
open SafeHtml.Proofs.HtmlTokSim
open SafeHtml.Proofs.Layer3 SafeHtml.Proofs.Layer3E2E

/-! ## (A) execution of the rewritten tree -/

/-- the argument of an action `{{.}}` or `{{.A.B}}` -/
def ActArg (a : Arg) : Prop := a = .dot ∨ ∃ ns, a = .field ns

/-- the pipeline `{{a}}` -/
def actPipe (a : Arg) : Pipe := { cmds := [{ args := [a] }] }

/-- the pipeline `{{a | f₁ | … | fₙ}}` that `commit` leaves for an action with chain `ch` -/
def chainPipe (a : Arg) (ch : List String) : Pipe := { cmds := { args := [a] } :: ch.map identCmd }

/-- the value of the argument for data `d` -/
def argVal (d : Value) : Arg → Except ExecErr Value
  | .dot => .ok d
  | .field ns => fieldChain d ns
  | _ => .error .unsupported

/-- the parse-tree nodes of a straight-line template whose actions print the arguments `as` (ids `i, i+1, …`;
    missing arguments default to dot) -/
def toNodesA : Nat → List Piece → List Arg → List Node
  | _, [], _ => []
  | i, .text s :: ps, as => .text i s :: toNodesA (i + 1) ps as
  | i, .action :: ps, a :: as => .action i (actPipe a) :: toNodesA (i + 1) ps as
  | i, .action :: ps, [] => .action i (actPipe .dot) :: toNodesA (i + 1) ps []

/-- the nodes after `commit` has applied the edits: emitted texts, pipelines with the sanitizer chains -/
def outNodes : Nat → List EPiece → List Arg → List Node
  | _, [], _ => []
  | i, .text o :: es, as => .text i o :: outNodes (i + 1) es as
  | i, .action ch :: es, a :: as => .action i (chainPipe a ch) :: outNodes (i + 1) es as
  | i, .action ch :: es, [] => .action i (chainPipe .dot ch) :: outNodes (i + 1) es []

/-- the values the actions print for data `d`: `none` if an argument cannot be evaluated -/
def argVals (d : Value) : List EPiece → List Arg → Option (List Value)
  | [], _ => some []
  | .text _ :: es, as => argVals d es as
  | .action _ :: es, a :: as =>
    match argVal d a with
    | .ok v => (argVals d es as).map (v :: ·)
    | .error _ => none
  | .action _ :: es, [] => (argVals d es []).map (d :: ·)

/-- run-time errors of a chain as text/template reports them -/
def liftErr : Except RunErr Value → Except ExecErr Value
  | .ok v => .ok v
  | .error .sanitizer => .error .exec
  | .error .unsupported => .error .unsupported

theorem go_chain (d root : Value) : ∀ (ch : List String) (v : Value),
    evalPipe.go d root (ch.map identCmd) (some v) = liftErr (runChain ch v)
  | [], v => rfl
  | f :: fs, v => by
    simp only [List.map_cons, evalPipe.go, identCmd, evalCmd, runChain]
    cases h : runFn f v with
    | ok w => simp [bind, Except.bind, go_chain d root fs w, identCmd]
    | error e => cases e <;> simp [bind, Except.bind, liftErr]

theorem evalCmd_arg (d root : Value) (a : Arg) (ha : ActArg a) :
    evalCmd d root { args := [a] } none = argVal d a := by
  rcases ha with rfl | ⟨ns, rfl⟩ <;> simp [evalCmd, argVal]

/-- the rewritten pipeline evaluates the argument and runs the chain on it -/
theorem evalPipe_chain (d root : Value) (a : Arg) (ha : ActArg a) (ch : List String) :
    evalPipe d root (chainPipe a ch) =
      match argVal d a with
      | .ok v => liftErr (runChain ch v)
      | .error e => .error e := by
  simp only [evalPipe, chainPipe, List.isEmpty_nil, Bool.not_true, Bool.false_eq_true, if_false, evalPipe.go,
    evalCmd_arg d root a ha]
  cases argVal d a with
  | ok v => simp [bind, Except.bind, go_chain]
  | error e => simp [bind, Except.bind]


theorem actArg_dot : ActArg .dot := Or.inl rfl

/-- one rewritten action node -/
theorem walk_action (text : TextSet) (depth f : Nat) (d root : Value) (out : Bytes) (id : Nat) (a : Arg)
    (ha : ActArg a) (ch : List String) :
    walkNode false text depth (f + 1) d root out (.action id (chainPipe a ch)) =
      match argVal d a with
      | .ok v =>
        (match runChain ch v with
         | .ok (.str b) => ⟨out ++ b, none⟩
         | .ok _ => ⟨out, some .unsupported⟩
         | .error .sanitizer => ⟨out, some .exec⟩
         | .error .unsupported => ⟨out, some .unsupported⟩)
      | .error e => ⟨out, some e⟩ := by
  simp only [walkNode, evalPipe_chain d root a ha ch]
  cases argVal d a with
  | error e => rfl
  | ok v =>
    cases h : runChain ch v with
    | error e => cases e <;> simp [liftErr, h]
    | ok w => cases w <;> simp [liftErr, h]

theorem walkList_cons (plain : Bool) (text : TextSet) (depth f : Nat) (d root : Value) (out : Bytes) (n : Node)
    (ns : NodeList) :
    walkList plain text depth (f + 1) d root out (.cons n ns) =
      (match (walkNode plain text depth f d root out n).err with
       | some _ => walkNode plain text depth f d root out n
       | none => walkList plain text depth f d root (walkNode plain text depth f d root out n).out ns) := by
  rw [walkList]
  cases (walkNode plain text depth f d root out n).err <;> rfl

theorem walkNode_text (plain : Bool) (text : TextSet) (depth f : Nat) (d root : Value) (out : Bytes) (id : Nat)
    (b : Bytes) : walkNode plain text depth (f + 1) d root out (.text id b) = ⟨out ++ b, none⟩ := by
  simp only [walkNode]

/-- **the model's execution of the rewritten nodes is `exec`** (success direction): if the arguments evaluate to
    `vs` and `exec` yields `o`, the walk writes `o` -/
theorem exec_walk (text : TextSet) (depth : Nat) (d root : Value) : ∀ (es : List EPiece) (i : Nat) (as : List Arg)
    (vs : List Value) (o out : Bytes) (f : Nat), (∀ a ∈ as, ActArg a) → argVals d es as = some vs →
    exec es vs = some o → es.length + 1 ≤ f →
    walkList false text depth f d root out (NodeList.ofList (outNodes i es as)) = ⟨out ++ o, none⟩
  | [], i, as, vs, o, out, f, _, hv, he, hf => by
    obtain ⟨f', rfl⟩ : ∃ f', f = f' + 1 := ⟨f - 1, by omega⟩
    simp only [argVals, Option.some.injEq] at hv
    subst hv
    simp only [exec, Option.some.injEq] at he
    subst he
    simp [outNodes, NodeList.ofList, walkList]
  | .text t :: es, i, as, vs, o, out, f, has, hv, he, hf => by
    obtain ⟨f', rfl⟩ : ∃ f', f = f' + 2 := ⟨f - 2, by simp at hf; omega⟩
    simp only [exec, Option.map_eq_some_iff] at he
    obtain ⟨o', he, rfl⟩ := he
    have := exec_walk text depth d root es (i + 1) as vs o' (out ++ t) (f' + 1) has hv he (by simp at hf ⊢; omega)
    simp only [outNodes, NodeList.ofList]
    rw [walkList_cons, walkNode_text]
    simp only [this, List.append_assoc]
  | .action ch :: es, i, [], vs, o, out, f, has, hv, he, hf => by
    obtain ⟨f', rfl⟩ : ∃ f', f = f' + 2 := ⟨f - 2, by simp at hf; omega⟩
    simp only [argVals, Option.map_eq_some_iff] at hv
    obtain ⟨vs', hv, rfl⟩ := hv
    simp only [exec] at he
    cases hr : runChain ch d with
    | error e => simp [hr] at he
    | ok w =>
      cases w <;> simp only [hr] at he <;> try cases he
      next b =>
      simp only [Option.map_eq_some_iff] at he
      obtain ⟨o', he, rfl⟩ := he
      have := exec_walk text depth d root es (i + 1) [] vs' o' (out ++ b) (f' + 1) has hv he (by simp at hf ⊢; omega)
      simp only [outNodes, NodeList.ofList]
      rw [walkList_cons, walk_action text depth f' d root out i .dot actArg_dot ch]
      simp only [argVal, hr, this, List.append_assoc]
  | .action ch :: es, i, a :: as, vs, o, out, f, has, hv, he, hf => by
    obtain ⟨f', rfl⟩ : ∃ f', f = f' + 2 := ⟨f - 2, by simp at hf; omega⟩
    simp only [argVals] at hv
    cases hav : argVal d a with
    | error e => simp [hav] at hv
    | ok v =>
      simp only [hav, Option.map_eq_some_iff] at hv
      obtain ⟨vs', hv, rfl⟩ := hv
      simp only [exec] at he
      cases hr : runChain ch v with
      | error e => simp [hr] at he
      | ok w =>
        cases w <;> simp only [hr] at he <;> try cases he
        next b =>
        simp only [Option.map_eq_some_iff] at he
        obtain ⟨o', he, rfl⟩ := he
        have := exec_walk text depth d root es (i + 1) as vs' o' (out ++ b) (f' + 1)
          (fun x hx => has x (by simp [hx])) hv he (by simp at hf ⊢; omega)
        simp only [outNodes, NodeList.ofList]
        rw [walkList_cons, walk_action text depth f' d root out i a (has a (by simp)) ch]
        simp only [hav, hr, this, List.append_assoc]


theorem walkNode_zero (plain : Bool) (text : TextSet) (depth : Nat) (d root : Value) (out : Bytes) (n : Node) :
    (walkNode plain text depth 0 d root out n).err = some .fuel := by simp [walkNode]

/-- converse: a walk of the rewritten nodes that ends without error wrote `exec es vs` for the values `vs` of the
    arguments -/
theorem walk_exec (text : TextSet) (depth : Nat) (d root : Value) : ∀ (es : List EPiece) (i : Nat) (as : List Arg)
    (out : Bytes) (f : Nat), (∀ a ∈ as, ActArg a) →
    (walkList false text depth f d root out (NodeList.ofList (outNodes i es as))).err = none →
    ∃ vs o, argVals d es as = some vs ∧ exec es vs = some o ∧
      (walkList false text depth f d root out (NodeList.ofList (outNodes i es as))).out = out ++ o
  | es, i, as, out, 0, _, h => by simp [walkList] at h
  | [], i, as, out, f + 1, _, h => ⟨[], [], rfl, rfl, by simp [outNodes, NodeList.ofList, walkList]⟩
  | .text t :: es, i, as, out, f + 1, has, h => by
    simp only [outNodes, NodeList.ofList] at h ⊢
    rw [walkList_cons] at h ⊢
    cases f with
    | zero => simp [walkNode_zero] at h
    | succ f =>
      rw [walkNode_text] at h ⊢
      simp only at h ⊢
      obtain ⟨vs, o, h1, h2, h3⟩ := walk_exec text depth d root es (i + 1) as (out ++ t) (f + 1) has h
      exact ⟨vs, t ++ o, h1, by simp [exec, h2], by rw [h3]; simp⟩
  | .action ch :: es, i, [], out, f + 1, has, h => by
    simp only [outNodes, NodeList.ofList] at h ⊢
    rw [walkList_cons] at h ⊢
    cases f with
    | zero => simp [walkNode_zero] at h
    | succ f =>
      rw [walk_action text depth f d root out i .dot actArg_dot ch] at h ⊢
      simp only [argVal] at h ⊢
      cases hr : runChain ch d with
      | error e => cases e <;> simp [hr] at h
      | ok w =>
        cases w <;> simp only [hr] at h ⊢ <;> try (simp at h)
        next b =>
        obtain ⟨vs, o, h1, h2, h3⟩ := walk_exec text depth d root es (i + 1) [] (out ++ b) (f + 1) has h
        exact ⟨d :: vs, b ++ o, by simp [argVals, h1], by simp [exec, hr, h2], by rw [h3]; simp⟩
  | .action ch :: es, i, a :: as, out, f + 1, has, h => by
    simp only [outNodes, NodeList.ofList] at h ⊢
    rw [walkList_cons] at h ⊢
    cases f with
    | zero => simp [walkNode_zero] at h
    | succ f =>
      rw [walk_action text depth f d root out i a (has a (by simp)) ch] at h ⊢
      cases hav : argVal d a with
      | error e => simp [hav] at h
      | ok v =>
        simp only [hav] at h ⊢
        cases hr : runChain ch v with
        | error e => cases e <;> simp [hr] at h
        | ok w =>
          cases w <;> simp only [hr] at h ⊢ <;> try (simp at h)
          next b =>
          obtain ⟨vs, o, h1, h2, h3⟩ := walk_exec text depth d root es (i + 1) as (out ++ b) (f + 1)
            (fun x hx => has x (by simp [hx])) h
          exact ⟨v :: vs, b ++ o, by simp [argVals, hav, h1], by simp [exec, hr, h2], by rw [h3]; simp⟩

/-! ### `commit`: applying the edits of the analysis -/

theorem ensure_chain (a : Arg) (ha : ActArg a) (ch : List String) :
    ensurePipelineContains (actPipe a) ch = some (chainPipe a ch) := by
  unfold ensurePipelineContains
  cases ch with
  | nil => rfl
  | cons f fs =>
    rcases ha with rfl | ⟨ns, rfl⟩ <;> simp [actPipe, chainPipe, List.getLast?]

theorem find_none_of_any {β} (l : List (EditKey × β)) (k : EditKey) (h : l.any (fun p => p.1 == k) = false) :
    l.find? (fun p => p.1 == k) = none := by
  rw [List.find?_eq_none]
  intro x hx
  have := (List.any_eq_false.1 h) x hx
  simpa using this

/-- edits of later nodes do not affect the lookup of an earlier node id -/
theorem find_editsOf (v : Validators) (tn : String) : ∀ (ps : List Piece) (i : Nat) (c : Ctx) (e : Esc) (k : Nat),
    k < i →
    (editsOf v tn i c ps e).textEdits.find? (fun p => p.1 == (tn, k)) = e.textEdits.find? (fun p => p.1 == (tn, k)) ∧
    (editsOf v tn i c ps e).actionEdits.find? (fun p => p.1 == (tn, k)) =
      e.actionEdits.find? (fun p => p.1 == (tn, k))
  | [], i, c, e, k, _ => ⟨rfl, rfl⟩
  | .text s :: ps, i, c, e, k, hk => by
    simp only [editsOf]
    obtain ⟨h1, h2⟩ := find_editsOf v tn ps (i + 1) (scanD c s).1
      { e with textEdits := addText tn i c s e.textEdits } k (by omega)
    refine ⟨?_, h2⟩
    rw [h1]
    simp only [addText]
    split
    · rw [List.find?_append]
      have : (List.find? (fun p => p.1 == (tn, k)) [((tn, i), (‹Bytes› : Bytes))]) = none := by
        simp; omega
      simp [this]
    · rfl
  | .action :: ps, i, c, e, k, hk => by
    simp only [editsOf]
    split
    · next c' ch _ =>
      obtain ⟨h1, h2⟩ := find_editsOf v tn ps (i + 1) c' { e with actionEdits := e.actionEdits ++ [((tn, i), ch)] } k
        (by omega)
      refine ⟨h1, ?_⟩
      rw [h2, List.find?_append]
      have : (List.find? (fun p => p.1 == (tn, k)) [((tn, i), ch)]) = none := by simp; omega
      simp [this]
    · exact ⟨rfl, rfl⟩


theorem applyEdits_cons (tn : String) (E : Esc) (n n' : Node) (ns ns' : NodeList)
    (h1 : Node.applyEdits tn E n = some n') (h2 : NodeList.applyEdits tn E ns = some ns') :
    NodeList.applyEdits tn E (.cons n ns) = some (.cons n' ns') := by
  rw [NodeList.applyEdits]; simp [h1, h2, bind, Option.bind]

/-- **`commit` turns the analysed nodes into `outNodes`**: with the edits `E` recorded by the analysis, every text
    node carries the emitted text and every action the pipeline `a | f₁ | … | fₙ` -/
theorem applyEdits_out (v : Validators) (tn : String) (E : Esc) : ∀ (ps : List Piece) (i : Nat) (c cf : Ctx) (e : Esc)
    (es : List EPiece) (as : List Arg), analyse v c ps = some (cf, es) → Fresh tn i e →
    E = editsOf v tn i c ps e → (∀ a ∈ as, ActArg a) →
    NodeList.applyEdits tn E (NodeList.ofList (toNodesA i ps as)) = some (NodeList.ofList (outNodes i es as))
  | [], i, c, cf, e, es, as, ha, _, _, _ => by
    simp only [analyse, Option.some.injEq, Prod.mk.injEq] at ha
    obtain ⟨_, rfl⟩ := ha
    simp [toNodesA, outNodes, NodeList.ofList, NodeList.applyEdits]
  | .text s :: ps, i, c, cf, e, es, as, ha, hfr, hE, has => by
    simp only [analyse] at ha
    cases hsc : scan c s with
    | none => simp [hsc] at ha
    | some r =>
      obtain ⟨c', out⟩ := r
      simp only [hsc] at ha
      split at ha
      · cases ha
      · cases hrec : analyse v c' ps with
        | none => simp [hrec] at ha
        | some r2 =>
          obtain ⟨cf', es'⟩ := r2
          simp only [hrec, Option.some.injEq, Prod.mk.injEq] at ha
          obtain ⟨rfl, rfl⟩ := ha
          have hsd : (scanD c s).1 = c' := by simp [scanD, hsc]
          simp only [editsOf, hsd] at hE
          have hk := find_none_of_any _ _ (hfr i (Nat.le_refl _)).2
          have hfind := (find_editsOf v tn ps (i + 1) c' { e with textEdits := addText tn i c s e.textEdits } i
            (by omega)).1
          rw [← hE] at hfind
          have hfr' : Fresh tn (i + 1) { e with textEdits := addText tn i c s e.textEdits } := by
            intro k hk
            refine ⟨(hfr k (by omega)).1, ?_⟩
            simp only [addText]
            split
            · simp only [List.any_append, (hfr k (by omega)).2, List.any_cons, List.any_nil, Bool.or_false,
                Bool.false_or]
              simp; omega
            · exact (hfr k (by omega)).2
          have ih := applyEdits_out v tn E ps (i + 1) c' cf' _ es' as hrec hfr' hE has
          simp only [toNodesA, outNodes, NodeList.ofList]
          refine applyEdits_cons tn E _ _ _ _ ?_ ih
          simp only [Node.applyEdits, hfind, Option.some.injEq]
          simp only [scan] at hsc
          simp only [addText]
          cases het : escapeText false c s with
          | panic => simp [het] at hsc
          | done c2 nt =>
            cases nt with
            | none =>
              simp only [het, Option.some.injEq, Prod.mk.injEq] at hsc
              simp [hk, hsc.2]
            | some nb =>
              simp only [het, Option.some.injEq, Prod.mk.injEq] at hsc
              simp [List.find?_append, hk, hsc.2]
  | .action :: ps, i, c, cf, e, es, as, ha, hfr, hE, has => by
    simp only [analyse] at ha
    cases hact : actionStep v c with
    | none => simp [hact] at ha
    | some r =>
      obtain ⟨c', ch⟩ := r
      simp only [hact] at ha
      cases hrec : analyse v c' ps with
      | none => simp [hrec] at ha
      | some r2 =>
        obtain ⟨cf', es'⟩ := r2
        simp only [hrec, Option.some.injEq, Prod.mk.injEq] at ha
        obtain ⟨rfl, rfl⟩ := ha
        simp only [editsOf, hact] at hE
        have hk := find_none_of_any _ _ (hfr i (Nat.le_refl _)).1
        have hfind := (find_editsOf v tn ps (i + 1) c' { e with actionEdits := e.actionEdits ++ [((tn, i), ch)] } i
          (by omega)).2
        rw [← hE] at hfind
        have hfr' : Fresh tn (i + 1) { e with actionEdits := e.actionEdits ++ [((tn, i), ch)] } := by
          intro k hk
          refine ⟨?_, (hfr k (by omega)).2⟩
          simp only [List.any_append, (hfr k (by omega)).1, List.any_cons, List.any_nil, Bool.or_false,
            Bool.false_or]
          simp; omega
        have hf2 : E.actionEdits.find? (fun q => q.1 == (tn, i)) = some ((tn, i), ch) := by
          rw [hfind]; simp [List.find?_append, hk]
        cases as with
        | nil =>
          have ih := applyEdits_out v tn E ps (i + 1) c' cf' _ es' [] hrec hfr' hE has
          simp only [toNodesA, outNodes, NodeList.ofList]
          refine applyEdits_cons tn E _ _ _ _ ?_ ih
          simp [Node.applyEdits, hf2, ensure_chain .dot actArg_dot ch]
        | cons a as =>
          have ih := applyEdits_out v tn E ps (i + 1) c' cf' _ es' as hrec hfr' hE
            (fun x hx => has x (by simp [hx]))
          simp only [toNodesA, outNodes, NodeList.ofList]
          refine applyEdits_cons tn E _ _ _ _ ?_ ih
          simp [Node.applyEdits, hf2, ensure_chain a (has a (by simp)) ch]

/-! ### the analysis of the nodes with arguments -/

theorem predefined_arg (c : Ctx) (a : Arg) (ha : ActArg a) : predefinedCheck c (actPipe a).cmds = some false := by
  rcases ha with rfl | ⟨ns, rfl⟩ <;> simp [predefinedCheck, predefinedCheck.go, actPipe]

/-- one action node `{{a}}` is analysed like `actionStep` -/
theorem escapeAction_arg (env : Env) (tn : String) (e : Esc) (c c' : Ctx) (ch : List String) (i : Nat) (a : Arg)
    (ha : ActArg a) (hact : actionStep env.v c = some (c', ch))
    (hk : e.actionEdits.any (fun p => p.1 == (tn, i)) = false) :
    escapeAction env tn e c i (actPipe a) = .ok ({ e with actionEdits := e.actionEdits ++ [((tn, i), ch)] }, c') := by
  unfold actionStep at hact
  simp only [] at hact
  have hd : (actPipe a).decl.isEmpty = true := rfl
  simp only [escapeAction, hd, Bool.not_true, Bool.false_eq_true, if_false, predefined_arg _ a ha]
  split at hact
  · cases hact
  · next hne =>
    simp only [hne, Bool.false_eq_true, if_false]
    split at hact
    · cases hact
    · next s hs =>
      simp only [Option.some.injEq, Prod.mk.injEq] at hact
      obtain ⟨rfl, rfl⟩ := hact
      simp only [hs, bind, Out.bind, Esc.editAction, hk, Bool.false_eq_true, if_false, pure]

theorem escapeList_refinesA (env : Env) (hcsp : env.csp = false) (tn : String) :
    ∀ (ps : List Piece) (i : Nat) (c cf : Ctx) (e : Esc) (es : List EPiece) (as : List Arg) (f : Nat),
      analyse env.v c ps = some (cf, es) → Fresh tn i e → (∀ a ∈ as, ActArg a) → ps.length + 1 ≤ f →
      escapeList env f tn e c (NodeList.ofList (toNodesA i ps as)) = .ok (editsOf env.v tn i c ps e, cf)
  | [], i, c, cf, e, es, as, f, ha, _, _, hf => by
    obtain ⟨f', rfl⟩ : ∃ f', f = f' + 1 := ⟨f - 1, by omega⟩
    simp only [analyse, Option.some.injEq, Prod.mk.injEq] at ha
    simp [toNodesA, NodeList.ofList, escapeList, editsOf, ha.1]
  | .text s :: ps, i, c, cf, e, es, as, f, ha, hfr, has, hf => by
    obtain ⟨f', rfl⟩ : ∃ f', f = f' + 2 := ⟨f - 2, by simp at hf; omega⟩
    simp only [analyse] at ha
    cases hsc : scan c s with
    | none => simp [hsc] at ha
    | some r =>
      obtain ⟨c', out⟩ := r
      simp only [hsc] at ha
      split at ha
      · cases ha
      · cases hrec : analyse env.v c' ps with
        | none => simp [hrec] at ha
        | some r2 =>
          obtain ⟨cf', es'⟩ := r2
          simp only [hrec, Option.some.injEq, Prod.mk.injEq] at ha
          obtain ⟨rfl, _⟩ := ha
          have hsd : (scanD c s).1 = c' := by simp [scanD, hsc]
          have hk := (hfr i (Nat.le_refl _)).2
          simp only [toNodesA, NodeList.ofList, escapeList, escapeNode, escapeTextNode, hcsp, editsOf, hsd]
          simp only [scan] at hsc
          cases het : escapeText false c s with
          | panic => simp [het] at hsc
          | done c2 nt =>
            cases nt with
            | none =>
              simp only [het, Option.some.injEq, Prod.mk.injEq] at hsc
              obtain ⟨rfl, _⟩ := hsc
              have := escapeList_refinesA env hcsp tn ps (i + 1) c2 cf' e es' as (f' + 1) hrec
                (fun k hk => hfr k (by omega)) has (by simp at hf ⊢; omega)
              simp only [addText, het, bind, Out.bind]
              exact this
            | some nb =>
              simp only [het, Option.some.injEq, Prod.mk.injEq] at hsc
              obtain ⟨rfl, _⟩ := hsc
              have hfr' : Fresh tn (i + 1) { e with textEdits := e.textEdits ++ [((tn, i), nb)] } := by
                intro k hk
                refine ⟨(hfr k (by omega)).1, ?_⟩
                simp only [List.any_append, (hfr k (by omega)).2, List.any_cons, List.any_nil, Bool.or_false,
                  Bool.false_or]
                simp; omega
              have := escapeList_refinesA env hcsp tn ps (i + 1) c2 cf' _ es' as (f' + 1) hrec hfr' has
                (by simp at hf ⊢; omega)
              simp only [addText, het, bind, Out.bind, Esc.editText, hk, Bool.false_eq_true, if_false]
              exact this
  | .action :: ps, i, c, cf, e, es, as, f, ha, hfr, has, hf => by
    obtain ⟨f', rfl⟩ : ∃ f', f = f' + 2 := ⟨f - 2, by simp at hf; omega⟩
    simp only [analyse] at ha
    cases hact : actionStep env.v c with
    | none => simp [hact] at ha
    | some r =>
      obtain ⟨c', ch⟩ := r
      simp only [hact] at ha
      cases hrec : analyse env.v c' ps with
      | none => simp [hrec] at ha
      | some r2 =>
        obtain ⟨cf', es'⟩ := r2
        simp only [hrec, Option.some.injEq, Prod.mk.injEq] at ha
        obtain ⟨rfl, _⟩ := ha
        have hk := (hfr i (Nat.le_refl _)).1
        have hfr' : Fresh tn (i + 1) { e with actionEdits := e.actionEdits ++ [((tn, i), ch)] } := by
          intro k hk
          refine ⟨?_, (hfr k (by omega)).2⟩
          simp only [List.any_append, (hfr k (by omega)).1, List.any_cons, List.any_nil, Bool.or_false,
            Bool.false_or]
          simp; omega
        cases as with
        | nil =>
          have := escapeList_refinesA env hcsp tn ps (i + 1) c' cf' _ es' [] (f' + 1) hrec hfr' has
            (by simp at hf ⊢; omega)
          simp only [toNodesA, NodeList.ofList, escapeList, escapeNode, editsOf, hact,
            escapeAction_arg env tn e c c' ch i .dot actArg_dot hact hk, bind, Out.bind]
          exact this
        | cons a as =>
          have := escapeList_refinesA env hcsp tn ps (i + 1) c' cf' _ es' as (f' + 1) hrec hfr'
            (fun x hx => has x (by simp [hx])) (by simp at hf ⊢; omega)
          simp only [toNodesA, NodeList.ofList, escapeList, escapeNode, editsOf, hact,
            escapeAction_arg env tn e c c' ch i a (has a (by simp)) hact hk, bind, Out.bind]
          exact this

/-! ### C01 for the model's execution -/

/-- every value an action of the template can print for data `d` is untrusted: `d` itself (for `{{.}}`) and the
    fields `{{.A.B}}` that are used -/
def LeavesUntrusted (d : Value) (as : List Arg) : Prop :=
  Untrusted d ∧ ∀ a ∈ as, ∀ x, argVal d a = .ok x → Untrusted x

theorem argVals_untrusted (d : Value) : ∀ (es : List EPiece) (as : List Arg) (vs : List Value),
    LeavesUntrusted d as → argVals d es as = some vs → ∀ x ∈ vs, Untrusted x
  | [], as, vs, _, h => by simp [argVals] at h; subst h; simp
  | .text _ :: es, as, vs, hl, h => argVals_untrusted d es as vs hl (by simpa [argVals] using h)
  | .action _ :: es, [], vs, hl, h => by
    simp only [argVals, Option.map_eq_some_iff] at h
    obtain ⟨vs', h, rfl⟩ := h
    intro x hx
    rcases List.mem_cons.1 hx with rfl | hx
    · exact hl.1
    · exact argVals_untrusted d es [] vs' hl h x hx
  | .action _ :: es, a :: as, vs, hl, h => by
    simp only [argVals] at h
    cases hav : argVal d a with
    | error e => simp [hav] at h
    | ok v =>
      simp only [hav, Option.map_eq_some_iff] at h
      obtain ⟨vs', h, rfl⟩ := h
      intro x hx
      rcases List.mem_cons.1 hx with rfl | hx
      · exact hl.2 a (by simp) _ hav
      · exact argVals_untrusted d es as vs' ⟨hl.1, fun b hb => hl.2 b (by simp [hb])⟩ h x hx

/-- **C01 for straight-line templates, on the model's execution of the committed tree.** The template `ps` with
    action arguments `as` is analysed (`escapeList`) and rewritten (`applyEdits`, what `commit` does) by the model;
    if the walks of the rewritten tree over two data values whose printed leaves are untrusted both end without
    error, the two outputs have the same markup skeleton and the same final tokenizer state (`data` when the
    template ends in the text context). -/
theorem C01_straight_line_walk (env : Env) (hcsp : env.csp = false) (tn : String) (ps : List Piece) (as : List Arg)
    (has : ∀ a ∈ as, ActArg a) (cf : Ctx) (es : List EPiece)
    (hs : SimpleAll env.v {} ps) (ha : analyse env.v {} ps = some (cf, es))
    (text : TextSet) (depth f1 f2 : Nat) (d1 d2 root1 root2 : Value)
    (hu1 : LeavesUntrusted d1 as) (hu2 : LeavesUntrusted d2 as) (root : NodeList)
    (hroot : NodeList.applyEdits tn (editsOf env.v tn 0 {} ps {}) (NodeList.ofList (toNodesA 0 ps as)) = some root)
    (h1 : (walkList false text depth f1 d1 root1 [] root).err = none)
    (h2 : (walkList false text depth f2 d2 root2 [] root).err = none) :
    escapeList env (ps.length + 1) tn {} {} (NodeList.ofList (toNodesA 0 ps as)) =
      .ok (editsOf env.v tn 0 {} ps {}, cf) ∧
    skeleton (HtmlTok.tokenize (walkList false text depth f1 d1 root1 [] root).out).tokens =
      skeleton (HtmlTok.tokenize (walkList false text depth f2 d2 root2 [] root).out).tokens ∧
    (HtmlTok.tokenize (walkList false text depth f1 d1 root1 [] root).out).final =
      (HtmlTok.tokenize (walkList false text depth f2 d2 root2 [] root).out).final ∧
    (cf.state = .text → (HtmlTok.tokenize (walkList false text depth f1 d1 root1 [] root).out).final = .data ∧
      (HtmlTok.tokenize (walkList false text depth f2 d2 root2 [] root).out).final = .data) := by
  have hfresh : Fresh tn 0 {} := fun k _ => ⟨rfl, rfl⟩
  have hout := applyEdits_out env.v tn _ ps 0 {} cf {} es as ha hfresh rfl has
  rw [hout] at hroot
  cases hroot
  obtain ⟨vs, o1, hv1, he1, ho1⟩ := walk_exec text depth d1 root1 es 0 as [] f1 has h1
  obtain ⟨ws, o2, hv2, he2, ho2⟩ := walk_exec text depth d2 root2 es 0 as [] f2 has h2
  rw [ho1, ho2]
  simp only [List.nil_append]
  exact ⟨escapeList_refinesA env hcsp tn ps 0 {} cf {} es as _ ha hfresh has (Nat.le_refl _),
    C01_straight_line env.v ps cf es vs ws o1 o2 hs ha (argVals_untrusted d1 es as vs hu1 hv1)
      (argVals_untrusted d2 es as ws hu2 hv2) he1 he2⟩


/-- the analysis environment of a name space, as in `escapeTemplateTop` -/
def envOf (w : World) (nsId : Nat) : Env :=
  ⟨(w.ns nsId).text, fun n => (alookup (w.ns nsId).set n).isSome, (w.ns nsId).csp, w.v⟩

theorem textExecute_ok (w : World) (o : TObj) (d : Value) (out : Bytes) (tr : Tree) (hreg : o.registered = true)
    (hlook : (w.ns o.ns).text.lookup o.name = some (some tr)) (h : textExecute w o d = .ok out) :
    (walkList false (w.ns o.ns).text 0 w.fuel d d [] tr.root).err = none ∧
    out = (walkList false (w.ns o.ns).text 0 w.fuel d d [] tr.root).out := by
  simp only [textExecute, hreg, if_true, hlook] at h
  cases he : (walkList false (w.ns o.ns).text 0 w.fuel d d [] tr.root).err with
  | none => simp only [he] at h; cases h; exact ⟨rfl, rfl⟩
  | some e => cases e <;> simp [he] at h

/-- **C01 for straight-line templates at the level of `textExecute`** (the model function that the correspondence
    check compares with `Template.Execute` of the real package): the template object `o` is registered with the tree
    the model's `commit` produces for the straight-line template `ps` (its `escapeList` analysis is part of the
    conclusion); two executions over data whose printed leaves are untrusted that both return `ok` have the same
    markup skeleton and final tokenizer state. -/
theorem C01_straight_line_exec (w : World) (o : TObj) (hcsp : (w.ns o.ns).csp = false) (tn : String)
    (ps : List Piece) (as : List Arg) (has : ∀ a ∈ as, ActArg a) (cf : Ctx) (es : List EPiece)
    (hs : SimpleAll w.v {} ps) (ha : analyse w.v {} ps = some (cf, es))
    (tr : Tree) (hreg : o.registered = true) (hlook : (w.ns o.ns).text.lookup o.name = some (some tr))
    (hroot : NodeList.applyEdits tn (editsOf w.v tn 0 {} ps {}) (NodeList.ofList (toNodesA 0 ps as)) = some tr.root)
    (d1 d2 : Value) (hu1 : LeavesUntrusted d1 as) (hu2 : LeavesUntrusted d2 as) (o1 o2 : Bytes)
    (h1 : textExecute w o d1 = .ok o1) (h2 : textExecute w o d2 = .ok o2) :
    escapeList (envOf w o.ns) (ps.length + 1) tn {} {}
        (NodeList.ofList (toNodesA 0 ps as)) = .ok (editsOf w.v tn 0 {} ps {}, cf) ∧
    skeleton (HtmlTok.tokenize o1).tokens = skeleton (HtmlTok.tokenize o2).tokens ∧
    (HtmlTok.tokenize o1).final = (HtmlTok.tokenize o2).final ∧
    (cf.state = .text → (HtmlTok.tokenize o1).final = .data ∧ (HtmlTok.tokenize o2).final = .data) := by
  obtain ⟨e1, rfl⟩ := textExecute_ok w o d1 o1 tr hreg hlook h1
  obtain ⟨e2, rfl⟩ := textExecute_ok w o d2 o2 tr hreg hlook h2
  exact C01_straight_line_walk (envOf w o.ns) hcsp tn ps as has cf es hs ha (w.ns o.ns).text 0 w.fuel w.fuel d1 d2 d1 d2
    hu1 hu2 tr.root hroot e1 e2


/-! ### non-vacuity of (A): `<p title="{{.T}}">{{.T}}</p>` over map data -/

def exArgs : List Arg := [.field ["T"], .field ["T"]]
def exData (b : Bytes) : Value := .map (.cons "T" (.str b) .nil)

theorem exData_untrusted (b : Bytes) : LeavesUntrusted (exData b) exArgs := by
  refine ⟨fun t x h => by simp [exData, Value.indirect] at h, ?_⟩
  intro a ha x hx
  simp only [exArgs, List.mem_cons, List.not_mem_nil, or_false, or_self] at ha
  subst ha
  simp [argVal, fieldChain, exData, Value.indirect, KVList.get] at hx
  subst hx
  intro t y h; simp [Value.indirect] at h

/-- the committed tree of the example template is `outNodes 0 exOut exArgs`, and its execution succeeds -/
example : NodeList.applyEdits "t" (editsOf v0 "t" 0 {} exTemplate {}) (NodeList.ofList (toNodesA 0 exTemplate exArgs)) =
    some (NodeList.ofList (outNodes 0 exOut exArgs)) :=
  applyEdits_out v0 "t" _ exTemplate 0 {} {} {} exOut exArgs ex_analyse (fun k _ => ⟨rfl, rfl⟩) rfl
    (by intro a ha; simp [exArgs] at ha; subst ha; exact Or.inr ⟨_, rfl⟩)

example : (walkList false [] 0 10 (exData [34, 62, 60]) (exData [34, 62, 60]) []
    (NodeList.ofList (outNodes 0 exOut exArgs))).err = none := by decide +kernel

/-! ## (B) branches -/

mutual
/-- a template with `{{if}}…{{else}}…{{end}}` / `{{with}}…{{else}}…{{end}}` branches (no range, no template calls) -/
inductive BP where
  | text (s : Bytes)
  | action
  | ifElse (t e : BPs)
inductive BPs where
  | nil
  | cons (p : BP) (ps : BPs)
end

mutual
inductive EB where
  | text (out : Bytes)
  | action (chain : List String)
  | ifElse (t e : EBs)
inductive EBs where
  | nil
  | cons (p : EB) (ps : EBs)
end

mutual
/-- analysis of one piece: context after it and the emitted piece. A branch is accepted when both arms are accepted
    from the same context and end in `Ctx.eq`-equal contexts; the analysis continues in their `join`. -/
def analyseP (v : Validators) : Ctx → BP → Option (Ctx × EB)
  | c, .text s =>
    match scan c s with
    | none => none
    | some (c', out) => if c'.state == .error then none else some (c', .text out)
  | c, .action =>
    match actionStep v c with
    | none => none
    | some (c', ch) => some (c', .action ch)
  | c, .ifElse t e =>
    match analyseL v c t, analyseL v c e with
    | some (ct, et), some (ce, ee) => if ct.eq ce then some (join ct ce, .ifElse et ee) else none
    | _, _ => none
def analyseL (v : Validators) : Ctx → BPs → Option (Ctx × EBs)
  | c, .nil => some (c, .nil)
  | c, .cons p ps =>
    match analyseP v c p with
    | none => none
    | some (c', ep) =>
      match analyseL v c' ps with
      | none => none
      | some (cf, es) => some (cf, .cons ep es)
end

mutual
/-- execution along a control path: each branch consumes one `Bool` of the path (`true` = first arm), each executed
    action one value; the unused rest of the path and of the values is returned -/
def execP : EB → List Bool → List Value → Option (Bytes × List Bool × List Value)
  | .text o, path, vs => some (o, path, vs)
  | .action ch, path, v :: vs =>
    match runChain ch v with
    | .ok (.str s) => some (s, path, vs)
    | _ => none
  | .action _, _, [] => none
  | .ifElse t e, b :: path, vs => if b then execL t path vs else execL e path vs
  | .ifElse _ _, [], _ => none
def execL : EBs → List Bool → List Value → Option (Bytes × List Bool × List Value)
  | .nil, path, vs => some ([], path, vs)
  | .cons p ps, path, vs =>
    match execP p path vs with
    | none => none
    | some (o, path', vs') =>
      match execL ps path' vs' with
      | none => none
      | some (o', path'', vs'') => some (o ++ o', path'', vs'')
end

mutual
/-- every static text is simple for the context it is scanned in, in both arms of every branch -/
def SimpleP (v : Validators) : Ctx → BP → Prop
  | c, .text s =>
    ∃ js out se, Simple js c.elemName c.state c.delim s out se ∧
      (memKey specialElements c.elemName = true → InTagState c.state → ∀ x ∈ s, x ≠ 60) ∧
      (js = true → isJsTemplateBalanced s = true)
  | c, .action => c.state = .beforeValue → c.attrName ≠ []
  | c, .ifElse t e => SimpleL v c t ∧ SimpleL v c e
def SimpleL (v : Validators) : Ctx → BPs → Prop
  | _, .nil => True
  | c, .cons p ps =>
    SimpleP v c p ∧
    match analyseP v c p with
    | some (c', _) => SimpleL v c' ps
    | none => True
end


/-- `Rel` reads only the state, the delimiter, the element name and the attribute name of the context -/
theorem Rel_congr (c c' : Ctx) (t : T) (h1 : c'.state = c.state) (h2 : c'.delim = c.delim)
    (h3 : c'.elemName = c.elemName) (h4 : c'.attrName = c.attrName) (h : Rel c t) : Rel c' t := by
  unfold Rel InTag at *
  rw [h1, h2, h3, h4]; exact h

theorem ctx_eq_fields (a b : Ctx) (h : a.eq b = true) :
    b.state = a.state ∧ b.delim = a.delim ∧ b.elemName = a.elemName ∧ b.attrName = a.attrName := by
  simp only [Ctx.eq, Bool.and_eq_true, beq_iff_eq] at h
  obtain ⟨⟨⟨⟨⟨⟨⟨h1, h2⟩, h3⟩, h4⟩, _⟩, _⟩, _⟩, _⟩ := h
  exact ⟨h1.symm, h2.symm, h3.symm, h4.symm⟩

/-- the join of two `Ctx.eq`-equal non-error contexts is the first one up to the name lists and the ambiguity flag -/
theorem join_eq (a b : Ctx) (ha : a.state ≠ .error) (hb : b.state ≠ .error) (h : a.eq b = true) :
    (join a b).state = a.state ∧ (join a b).delim = a.delim ∧ (join a b).elemName = a.elemName ∧
    (join a b).attrName = a.attrName := by
  have ha' : (a.state == State.error) = false := by simpa using ha
  have hb' : (b.state == State.error) = false := by simpa using hb
  have he : ({ a with elemNames := joinNames a.elemName b.elemName a.elemNames b.elemNames,
                      attrNames := joinNames a.attrName b.attrName a.attrNames b.attrNames,
                      ambiguous := a.ambiguous || (a.attrValue != b.attrValue) || b.ambiguous } : Ctx).eq b = true := h
  simp only [join, joinCore, ha', hb', Bool.false_eq_true, if_false, he, if_true]
  simp

theorem rel_join_left (a b : Ctx) (t : T) (h : a.eq b = true) (hb : b.state ≠ .error) (hr : Rel a t) :
    Rel (join a b) t := by
  obtain ⟨h1, h2, h3, h4⟩ := join_eq a b (rel_not_error hr) hb h
  exact Rel_congr a _ t h1 h2 h3 h4 hr

theorem rel_join_right (a b : Ctx) (t : T) (h : a.eq b = true) (hr : Rel b t) : Rel (join a b) t := by
  obtain ⟨e1, e2, e3, e4⟩ := ctx_eq_fields a b h
  have ha : a.state ≠ .error := by rw [← e1]; exact rel_not_error hr
  obtain ⟨h1, h2, h3, h4⟩ := join_eq a b ha (rel_not_error hr) h
  exact Rel_congr b _ t (h1.trans e1.symm) (h2.trans e2.symm) (h3.trans e3.symm) (h4.trans e4.symm) hr


/-- what is carried through a template with branches, for two executions along the same control path -/
def Carried (c' : Ctx) (a b : T) (o1 o2 : Bytes) (path1 path2 : List Bool) (vs' ws' : List Value) : Prop :=
  path1 = path2 ∧ (∀ x ∈ vs', Untrusted x) ∧ (∀ x ∈ ws', Untrusted x) ∧
  Rel c' (run a o1) ∧ Rel c' (run b o2) ∧ Sim (run a o1) (run b o2)

mutual
theorem simP (v : Validators) : ∀ (p : BP) (c c' : Ctx) (a b : T) (ep : EB) (path path1 path2 : List Bool)
    (vs vs' ws ws' : List Value) (o1 o2 : Bytes), Rel c a → Rel c b → Sim a b → SimpleP v c p →
    analyseP v c p = some (c', ep) → (∀ x ∈ vs, Untrusted x) → (∀ x ∈ ws, Untrusted x) →
    execP ep path vs = some (o1, path1, vs') → execP ep path ws = some (o2, path2, ws') →
    Carried c' a b o1 o2 path1 path2 vs' ws'
  | .text s, c, c', a, b, ep, path, path1, path2, vs, vs', ws, ws', o1, o2, ha, hb, hsim, hsp, han, hu, hw, h1, h2 => by
    obtain ⟨js, out, se, hsimple, hlt, hjs⟩ := hsp
    obtain ⟨c1, hsc, _, hra⟩ := layer3_simple js c a s out se ha hsimple hlt hjs
    obtain ⟨c2, hsc2, _, hrb⟩ := layer3_simple js c b s out se hb hsimple hlt hjs
    rw [hsc] at hsc2
    simp only [Option.some.injEq, Prod.mk.injEq, and_true] at hsc2
    subst hsc2
    simp only [analyseP, hsc] at han
    split at han
    · cases han
    · simp only [Option.some.injEq, Prod.mk.injEq] at han
      obtain ⟨rfl, rfl⟩ := han
      simp only [execP, Option.some.injEq, Prod.mk.injEq] at h1 h2
      obtain ⟨rfl, rfl, rfl⟩ := h1
      obtain ⟨rfl, rfl, rfl⟩ := h2
      exact ⟨rfl, hu, hw, hra, hrb, run_sim _ a b hsim⟩
  | .action, c, c', a, b, ep, path, path1, path2, vs, vs', ws, ws', o1, o2, ha, hb, hsim, hsp, han, hu, hw, h1, h2 => by
    simp only [analyseP] at han
    cases hact : actionStep v c with
    | none => simp [hact] at han
    | some r =>
      obtain ⟨c1, ch⟩ := r
      simp only [hact, Option.some.injEq, Prod.mk.injEq] at han
      obtain ⟨rfl, rfl⟩ := han
      obtain ⟨rfl, hst, hch⟩ := action_ok v c c1 a ch ha hsp hact
      cases vs with
      | nil => simp [execP] at h1
      | cons x vs =>
      cases ws with
      | nil => simp [execP] at h2
      | cons y ws =>
      simp only [execP] at h1 h2
      cases hx : runChain ch x with
      | error e => simp [hx] at h1
      | ok ox =>
      cases hy : runChain ch y with
      | error e => simp [hy] at h2
      | ok oy =>
      obtain ⟨dx, rfl, hex⟩ := ctx_chain_esc v c1 ch x ox hch (hu x (by simp)) hx
      obtain ⟨dy, rfl, hey⟩ := ctx_chain_esc v c1 ch y oy hch (hw y (by simp)) hy
      simp only [hx, hy, Option.some.injEq, Prod.mk.injEq] at h1 h2
      obtain ⟨rfl, rfl, rfl⟩ := h1
      obtain ⟨rfl, rfl, rfl⟩ := h2
      exact ⟨rfl, fun z hz => hu z (by simp [hz]), fun z hz => hw z (by simp [hz]),
        rel_esc c1 a _ ha hst hex, rel_esc c1 b _ hb hst hey,
        inert_sim2' a b hsim _ _ hex hey (rel_inert_pos c1 a ha hst)⟩
  | .ifElse t e, c, c', a, b, ep, path, path1, path2, vs, vs', ws, ws', o1, o2, ha, hb, hsim, hsp, han, hu, hw, h1,
      h2 => by
    simp only [analyseP] at han
    cases ht : analyseL v c t with
    | none => simp [ht] at han
    | some rt =>
    cases he : analyseL v c e with
    | none => simp [ht, he] at han
    | some re =>
    obtain ⟨ct, et⟩ := rt
    obtain ⟨ce, ee⟩ := re
    simp only [ht, he] at han
    split at han
    · next heq =>
      simp only [Option.some.injEq, Prod.mk.injEq] at han
      obtain ⟨rfl, rfl⟩ := han
      cases path with
      | nil => simp [execP] at h1
      | cons bch path =>
        simp only [execP] at h1 h2
        cases bch with
        | true =>
          simp only [if_true] at h1 h2
          obtain ⟨hp, hu', hw', hra, hrb, hs'⟩ := simL v t c ct a b et path path1 path2 vs vs' ws ws' o1 o2 ha hb hsim
            hsp.1 ht hu hw h1 h2
          have hce : ce.state ≠ .error := by
            rw [(ctx_eq_fields ct ce heq).1]; exact rel_not_error hra
          exact ⟨hp, hu', hw', rel_join_left ct ce _ heq hce hra, rel_join_left ct ce _ heq hce hrb, hs'⟩
        | false =>
          simp only [Bool.false_eq_true, if_false] at h1 h2
          obtain ⟨hp, hu', hw', hra, hrb, hs'⟩ := simL v e c ce a b ee path path1 path2 vs vs' ws ws' o1 o2 ha hb hsim
            hsp.2 he hu hw h1 h2
          exact ⟨hp, hu', hw', rel_join_right ct ce _ heq hra, rel_join_right ct ce _ heq hrb, hs'⟩
    · cases han
theorem simL (v : Validators) : ∀ (ps : BPs) (c cf : Ctx) (a b : T) (es : EBs) (path path1 path2 : List Bool)
    (vs vs' ws ws' : List Value) (o1 o2 : Bytes), Rel c a → Rel c b → Sim a b → SimpleL v c ps →
    analyseL v c ps = some (cf, es) → (∀ x ∈ vs, Untrusted x) → (∀ x ∈ ws, Untrusted x) →
    execL es path vs = some (o1, path1, vs') → execL es path ws = some (o2, path2, ws') →
    Carried cf a b o1 o2 path1 path2 vs' ws'
  | .nil, c, cf, a, b, es, path, path1, path2, vs, vs', ws, ws', o1, o2, ha, hb, hsim, _, han, hu, hw, h1, h2 => by
    simp only [analyseL, Option.some.injEq, Prod.mk.injEq] at han
    obtain ⟨rfl, rfl⟩ := han
    simp only [execL, Option.some.injEq, Prod.mk.injEq] at h1 h2
    obtain ⟨rfl, rfl, rfl⟩ := h1
    obtain ⟨rfl, rfl, rfl⟩ := h2
    exact ⟨rfl, hu, hw, ha, hb, hsim⟩
  | .cons p ps, c, cf, a, b, es, path, path1, path2, vs, vs', ws, ws', o1, o2, ha, hb, hsim, hsl, han, hu, hw, h1,
      h2 => by
    simp only [analyseL] at han
    cases hp : analyseP v c p with
    | none => simp [hp] at han
    | some r =>
      obtain ⟨c1, ep⟩ := r
      simp only [hp] at han
      cases hrec : analyseL v c1 ps with
      | none => simp [hrec] at han
      | some r2 =>
        obtain ⟨cf', es'⟩ := r2
        simp only [hrec, Option.some.injEq, Prod.mk.injEq] at han
        obtain ⟨rfl, rfl⟩ := han
        obtain ⟨hsp, hsrest⟩ := hsl
        simp only [hp] at hsrest
        simp only [execL] at h1 h2
        cases hx1 : execP ep path vs with
        | none => simp [hx1] at h1
        | some r1 =>
        cases hx2 : execP ep path ws with
        | none => simp [hx2] at h2
        | some r2 =>
        obtain ⟨p1, pa1, va1⟩ := r1
        obtain ⟨p2, pa2, va2⟩ := r2
        simp only [hx1, hx2] at h1 h2
        obtain ⟨hpe, hu1, hw1, hra, hrb, hs1⟩ := simP v p c c1 a b ep path pa1 pa2 vs va1 ws va2 p1 p2 ha hb hsim hsp hp
          hu hw hx1 hx2
        subst hpe
        cases hy1 : execL es' pa1 va1 with
        | none => simp [hy1] at h1
        | some q1 =>
        cases hy2 : execL es' pa1 va2 with
        | none => simp [hy2] at h2
        | some q2 =>
        obtain ⟨r1, pb1, vb1⟩ := q1
        obtain ⟨r2, pb2, vb2⟩ := q2
        simp only [hy1, hy2, Option.some.injEq, Prod.mk.injEq] at h1 h2
        obtain ⟨rfl, rfl, rfl⟩ := h1
        obtain ⟨rfl, rfl, rfl⟩ := h2
        have := simL v ps c1 cf' (run a p1) (run b p2) es' pa1 pb1 pb2 va1 vb1 va2 vb2 r1 r2 hra hrb hs1 hsrest hrec
          hu1 hw1 hy1 hy2
        simpa [Carried, run_append] using this
end


/-- **C01 for templates with branches, for the control path taken.** Every static text is simple for the context it
    is scanned in (both arms of every branch), the analysis accepts (the two arms of each branch end in
    `Ctx.eq`-equal contexts), and two executions follow the same control path `path` with untrusted values and both
    succeed: then the outputs have the same markup skeleton and the same final tokenizer state (`data` when the
    template ends in the text context). Executions along different control paths may differ legitimately. -/
theorem C01_branches (v : Validators) (ps : BPs) (cf : Ctx) (es : EBs) (path p1 p2 : List Bool)
    (vs vs' ws ws' : List Value) (o1 o2 : Bytes)
    (hs : SimpleL v {} ps) (ha : analyseL v {} ps = some (cf, es))
    (hu : ∀ x ∈ vs, Untrusted x) (hw : ∀ x ∈ ws, Untrusted x)
    (h1 : execL es path vs = some (o1, p1, vs')) (h2 : execL es path ws = some (o2, p2, ws')) :
    skeleton (HtmlTok.tokenize o1).tokens = skeleton (HtmlTok.tokenize o2).tokens ∧
    (HtmlTok.tokenize o1).final = (HtmlTok.tokenize o2).final ∧
    (cf.state = .text → (HtmlTok.tokenize o1).final = .data ∧ (HtmlTok.tokenize o2).final = .data) := by
  obtain ⟨_, _, _, hr1, hr2, hsim⟩ := simL v ps {} cf {} {} es path p1 p2 vs vs' ws ws' o1 o2 Layer3.rel_init Layer3.rel_init
    (Sim.refl _) hs ha hu hw h1 h2
  have hres := result_sim _ _ (finish_sim _ _ hsim)
  simp only [tokenize_tokens, tokenize_final]
  refine ⟨hres.1, hres.2, fun hcf => ?_⟩
  simp only [Rel, hcf] at hr1 hr2
  constructor
  · simp only [finish, hr1.2.2, flush_st]
  · simp only [finish, hr2.2.2, flush_st]

/-! ### non-vacuity of (B): `<p{{if .}} title="{{.}}"{{end}}>` -/

def bT0 : Bytes := [60, 112]                                   -- `<p`
def bT1 : Bytes := [32, 116, 105, 116, 108, 101, 61, 34]       -- ` title="`
def bT2 : Bytes := [34]                                        -- `"`
def bT3 : Bytes := [62]                                        -- `>`

def exBranch : BPs :=
  .cons (.text bT0) (.cons (.ifElse (.cons (.text bT1) (.cons .action (.cons (.text bT2) .nil))) .nil)
    (.cons (.text bT3) .nil))

def bC1 : Ctx := { state := .tag, elemName := [112] }

theorem b_scan0 : scan {} bT0 = some (bC1, bT0) := by decide +kernel
theorem b_scan1 : scan bC1 bT1 = some (cAttr, bT1) := by decide +kernel
theorem b_act : actionStep v0 cAttr = some (cAttr, ["_evalArgs", "_sanitizeHTML"]) := by decide +kernel
theorem b_scan2 : scan cAttr bT2 = some (bC1, bT2) := by decide +kernel
theorem b_scan3 : scan bC1 bT3 = some ({ state := .text, elemName := [112] }, bT3) := by decide +kernel
theorem b_join : join bC1 bC1 = bC1 := by decide +kernel

theorem hErrA : (cAttr.state == State.error) = false := by decide
theorem hErrB : (bC1.state == State.error) = false := by decide
theorem hErrT : (({ state := .text, elemName := [112] } : Ctx).state == State.error) = false := by decide
theorem hEq : bC1.eq bC1 = true := by decide

def exBranchOut : EBs :=
  .cons (.text bT0) (.cons (.ifElse (.cons (.text bT1) (.cons (.action ["_evalArgs", "_sanitizeHTML"])
    (.cons (.text bT2) .nil))) .nil) (.cons (.text bT3) .nil))

theorem b_thenArm : analyseL v0 bC1 (.cons (.text bT1) (.cons .action (.cons (.text bT2) .nil))) =
    some (bC1, .cons (.text bT1) (.cons (.action ["_evalArgs", "_sanitizeHTML"]) (.cons (.text bT2) .nil))) := by
  simp only [analyseL, analyseP, b_scan1, b_act, b_scan2, hErrA, hErrB, Bool.false_eq_true, if_false]

theorem b_if : analyseP v0 bC1 (.ifElse (.cons (.text bT1) (.cons .action (.cons (.text bT2) .nil))) .nil) =
    some (bC1, .ifElse (.cons (.text bT1) (.cons (.action ["_evalArgs", "_sanitizeHTML"]) (.cons (.text bT2) .nil)))
      .nil) := by
  rw [analyseP, b_thenArm]
  simp only [analyseL, b_join, hEq, if_true]

theorem b_analyse : analyseL v0 {} exBranch = some ({ state := .text, elemName := [112] }, exBranchOut) := by
  have h0 : analyseP v0 {} (.text bT0) = some (bC1, .text bT0) := by
    simp only [analyseP, b_scan0, hErrB, Bool.false_eq_true, if_false]
  have h3 : analyseP v0 bC1 (.text bT3) = some ({ state := .text, elemName := [112] }, .text bT3) := by
    simp only [analyseP, b_scan3]
    rfl
  simp only [exBranch, analyseL, h0, b_if, h3, exBranchOut]

theorem b_simple : SimpleL v0 {} exBranch := by
  have h0 : analyseP v0 {} (.text bT0) = some (bC1, .text bT0) := by
    simp only [analyseP, b_scan0, hErrB, Bool.false_eq_true, if_false]
  have h1 : analyseP v0 bC1 (.text bT1) = some (cAttr, .text bT1) := by
    simp only [analyseP, b_scan1, hErrA, Bool.false_eq_true, if_false]
  have h2 : analyseP v0 cAttr .action = some (cAttr, .action ["_evalArgs", "_sanitizeHTML"]) := by
    simp only [analyseP, b_act]
  simp only [exBranch, SimpleL, SimpleP, h0, b_if, h1, h2]
  refine ⟨⟨false, bT0, .tag, ?_, fun h => absurd h (by decide), fun h => by simp at h⟩,
    ⟨⟨⟨false, bT1, .attr, ?_, fun h => absurd h (by decide), fun h => by simp at h⟩,
      (fun h => by cases h), ⟨false, bT2, .tag, ?_, fun h => absurd h (by decide), fun h => by simp at h⟩, ?_⟩,
      trivial⟩, ⟨false, bT3, .text, ?_, fun h => absurd h (by decide), fun h => by simp at h⟩, ?_⟩
  · exact Simple.openTag [] [] 112 [] [] [] (by decide) (by decide) (by decide) (by decide) (by decide)
      (Simple.nil _ _ _)
  · exact Simple.attrNm _ [32] [116, 105, 116, 108, 101] _ _ (by decide) (by decide) (by decide) (by decide)
      (by decide) (Simple.eq _ [] _ _ (by decide)
        (Simple.quote _ .dq [] [] [] (Or.inl rfl) (by decide) (Simple.nil _ _ _)))
  · exact Simple.closeQ _ .dq [] [] [] (Or.inl rfl) (by decide) (Simple.nil _ _ _)
  · split <;> trivial
  · exact Simple.tagEnd _ [] [] [] [] (by decide) (fun h => absurd h (by decide)) (Simple.nil _ _ _)
  · split <;> trivial

/-- both renderings along the `then` arm have the same skeleton, whatever the untrusted attribute values -/
theorem b_C01 (x y : Value) (hx : Untrusted x) (hy : Untrusted y) (o1 o2 : Bytes) (p1 p2 : List Bool)
    (r1 r2 : List Value) (h1 : execL exBranchOut [true] [x] = some (o1, p1, r1))
    (h2 : execL exBranchOut [true] [y] = some (o2, p2, r2)) :
    skeleton (HtmlTok.tokenize o1).tokens = skeleton (HtmlTok.tokenize o2).tokens ∧
    (HtmlTok.tokenize o1).final = .data ∧ (HtmlTok.tokenize o2).final = .data := by
  have := C01_branches v0 exBranch _ exBranchOut [true] p1 p2 [x] r1 [y] r2 o1 o2 b_simple b_analyse
    (by intro z hz; simp at hz; subst hz; exact hx) (by intro z hz; simp at hz; subst hz; exact hy) h1 h2
  exact ⟨this.1, this.2.2 rfl⟩

/-! ### refinement of (B): the model's `escapeList` on `{{if}}` / `{{with}}` nodes -/

mutual
/-- number of parse-tree nodes (= node ids) of a piece -/
def cntP : BP → Nat
  | .text _ => 1
  | .action => 1
  | .ifElse t e => 1 + cntL t + cntL e
def cntL : BPs → Nat
  | .nil => 0
  | .cons p ps => cntP p + cntL ps
end

mutual
/-- the parse tree of a template with branches; every branch is `{{if cond}}` (`isWith = false`) or
    `{{with cond}}` (`isWith = true`): the analysis ignores the pipeline and treats both alike -/
def nodeP (cond : Pipe) (isWith : Bool) : Nat → BP → Node
  | i, .text s => .text i s
  | i, .action => .action i dotPipe
  | i, .ifElse t e =>
    if isWith then .withN i cond (nodesL cond isWith (i + 1) t) (nodesL cond isWith (i + 1 + cntL t) e)
    else .ifN i cond (nodesL cond isWith (i + 1) t) (nodesL cond isWith (i + 1 + cntL t) e)
def nodesL (cond : Pipe) (isWith : Bool) : Nat → BPs → NodeList
  | _, .nil => .nil
  | i, .cons p ps => .cons (nodeP cond isWith i p) (nodesL cond isWith (i + cntP p) ps)
end

mutual
/-- the edits the analysis records -/
def editsP (v : Validators) (tn : String) : Nat → Ctx → BP → Esc → Esc
  | i, c, .text s, e => { e with textEdits := addText tn i c s e.textEdits }
  | i, c, .action, e =>
    match actionStep v c with
    | some (_, ch) => { e with actionEdits := e.actionEdits ++ [((tn, i), ch)] }
    | none => e
  | i, c, .ifElse t el, e => editsL v tn (i + 1 + cntL t) c el (editsL v tn (i + 1) c t e)
def editsL (v : Validators) (tn : String) : Nat → Ctx → BPs → Esc → Esc
  | _, _, .nil, e => e
  | i, c, .cons p ps, e =>
    match analyseP v c p with
    | some (c', _) => editsL v tn (i + cntP p) c' ps (editsP v tn i c p e)
    | none => e
end

mutual
/-- fuel the model needs -/
def fuelP : BP → Nat
  | .text _ => 1
  | .action => 1
  | .ifElse t e => max (fuelL t) (fuelL e) + 2
def fuelL : BPs → Nat
  | .nil => 1
  | .cons p ps => max (fuelP p) (fuelL ps) + 1
end

theorem Fresh_mono {tn : String} {i j : Nat} {e : Esc} (h : Fresh tn i e) (hij : i ≤ j) : Fresh tn j e :=
  fun k hk => h k (by omega)

theorem Fresh_addText (tn : String) (i : Nat) (c : Ctx) (s : Bytes) (e : Esc) (h : Fresh tn i e) :
    Fresh tn (i + 1) { e with textEdits := addText tn i c s e.textEdits } := by
  intro k hk
  refine ⟨(h k (by omega)).1, ?_⟩
  simp only [addText]
  split
  · simp only [List.any_append, (h k (by omega)).2, List.any_cons, List.any_nil, Bool.or_false, Bool.false_or]
    simp; omega
  · exact (h k (by omega)).2

theorem Fresh_addAction (tn : String) (i : Nat) (ch : List String) (e : Esc) (h : Fresh tn i e) :
    Fresh tn (i + 1) { e with actionEdits := e.actionEdits ++ [((tn, i), ch)] } := by
  intro k hk
  refine ⟨?_, (h k (by omega)).2⟩
  simp only [List.any_append, (h k (by omega)).1, List.any_cons, List.any_nil, Bool.or_false, Bool.false_or]
  simp; omega

mutual
theorem FreshP (v : Validators) (tn : String) : ∀ (p : BP) (i : Nat) (c : Ctx) (e : Esc), Fresh tn i e →
    Fresh tn (i + cntP p) (editsP v tn i c p e)
  | .text s, i, c, e, h => by simpa [editsP, cntP] using Fresh_addText tn i c s e h
  | .action, i, c, e, h => by
    simp only [editsP, cntP]
    split
    · exact Fresh_addAction tn i _ e h
    · exact Fresh_mono h (by omega)
  | .ifElse t el, i, c, e, h => by
    simp only [editsP, cntP]
    have h1 := FreshL v tn t (i + 1) c e (Fresh_mono h (by omega))
    have h2 := FreshL v tn el (i + 1 + cntL t) c _ h1
    exact Fresh_mono h2 (by omega)
theorem FreshL (v : Validators) (tn : String) : ∀ (ps : BPs) (i : Nat) (c : Ctx) (e : Esc), Fresh tn i e →
    Fresh tn (i + cntL ps) (editsL v tn i c ps e)
  | .nil, i, c, e, h => by simpa [editsL, cntL] using h
  | .cons p ps, i, c, e, h => by
    simp only [editsL, cntL]
    split
    · next c' _ _ =>
      have h1 := FreshP v tn p i c e h
      have h2 := FreshL v tn ps (i + cntP p) c' _ h1
      exact Fresh_mono h2 (by omega)
    · exact Fresh_mono h (by omega)
end


theorem escapeTextNode_scan (env : Env) (hcsp : env.csp = false) (tn : String) (e : Esc) (c c' : Ctx) (i : Nat)
    (s out : Bytes) (hsc : scan c s = some (c', out)) (hk : e.textEdits.any (fun p => p.1 == (tn, i)) = false) :
    escapeTextNode env tn e c i s = .ok ({ e with textEdits := addText tn i c s e.textEdits }, c') := by
  simp only [escapeTextNode, hcsp, addText]
  simp only [scan] at hsc
  cases het : escapeText false c s with
  | panic => simp [het] at hsc
  | done c2 nt =>
    cases nt with
    | none =>
      simp only [het, Option.some.injEq, Prod.mk.injEq] at hsc
      obtain ⟨rfl, _⟩ := hsc
      rfl
    | some nb =>
      simp only [het, Option.some.injEq, Prod.mk.injEq] at hsc
      obtain ⟨rfl, _⟩ := hsc
      simp only [bind, Out.bind, Esc.editText, hk, Bool.false_eq_true, if_false, pure]

theorem escapeBranch_if (env : Env) (f : Nat) (tn : String) (e e1 e2 : Esc) (c c0 c1 : Ctx) (t el : NodeList)
    (h1 : escapeList env f tn e c t = .ok (e1, c0)) (h2 : escapeList env f tn e1 c el = .ok (e2, c1)) :
    escapeBranch env (f + 1) tn e c t el false = .ok (e2, join c0 c1) := by
  simp [escapeBranch, h1, h2, bind, Out.bind, pure]

mutual
theorem refP (env : Env) (hcsp : env.csp = false) (tn : String) (cond : Pipe) (isWith : Bool) :
    ∀ (p : BP) (i : Nat) (c c' : Ctx) (e : Esc) (ep : EB) (f : Nat),
      analyseP env.v c p = some (c', ep) → Fresh tn i e → fuelP p ≤ f →
      escapeNode env f tn e c (nodeP cond isWith i p) = .ok (editsP env.v tn i c p e, c')
  | .text s, i, c, c', e, ep, f, ha, hfr, hf => by
    obtain ⟨f', rfl⟩ : ∃ f', f = f' + 1 := ⟨f - 1, by simp [fuelP] at hf; omega⟩
    simp only [analyseP] at ha
    cases hsc : scan c s with
    | none => simp [hsc] at ha
    | some r =>
      obtain ⟨c1, out⟩ := r
      simp only [hsc] at ha
      split at ha
      · cases ha
      · simp only [Option.some.injEq, Prod.mk.injEq] at ha
        obtain ⟨rfl, _⟩ := ha
        simp only [nodeP, escapeNode, editsP]
        exact escapeTextNode_scan env hcsp tn e c c1 i s out hsc (hfr i (Nat.le_refl _)).2
  | .action, i, c, c', e, ep, f, ha, hfr, hf => by
    obtain ⟨f', rfl⟩ : ∃ f', f = f' + 1 := ⟨f - 1, by simp [fuelP] at hf; omega⟩
    simp only [analyseP] at ha
    cases hact : actionStep env.v c with
    | none => simp [hact] at ha
    | some r =>
      obtain ⟨c1, ch⟩ := r
      simp only [hact, Option.some.injEq, Prod.mk.injEq] at ha
      obtain ⟨rfl, _⟩ := ha
      simp only [nodeP, escapeNode, editsP, hact]
      exact escapeAction_arg env tn e c c1 ch i .dot actArg_dot hact (hfr i (Nat.le_refl _)).1
  | .ifElse t el, i, c, c', e, ep, f, ha, hfr, hf => by
    obtain ⟨f', rfl⟩ : ∃ f', f = f' + 2 := ⟨f - 2, by simp [fuelP] at hf; omega⟩
    simp only [fuelP] at hf
    simp only [analyseP] at ha
    cases ht : analyseL env.v c t with
    | none => simp [ht] at ha
    | some rt =>
    cases he : analyseL env.v c el with
    | none => simp [ht, he] at ha
    | some re =>
    obtain ⟨ct, et⟩ := rt
    obtain ⟨ce, ee⟩ := re
    simp only [ht, he] at ha
    split at ha
    · simp only [Option.some.injEq, Prod.mk.injEq] at ha
      obtain ⟨rfl, _⟩ := ha
      have h1 := refL env hcsp tn cond isWith t (i + 1) c ct e et f' ht (Fresh_mono hfr (by omega)) (by omega)
      have h2 := refL env hcsp tn cond isWith el (i + 1 + cntL t) c ce _ ee f' he
        (FreshL env.v tn t (i + 1) c e (Fresh_mono hfr (by omega))) (by omega)
      have hb := escapeBranch_if env f' tn e _ _ c ct ce _ _ h1 h2
      cases isWith <;> simp only [nodeP, escapeNode, editsP, Bool.false_eq_true, if_false, if_true] <;> exact hb
    · cases ha
theorem refL (env : Env) (hcsp : env.csp = false) (tn : String) (cond : Pipe) (isWith : Bool) :
    ∀ (ps : BPs) (i : Nat) (c cf : Ctx) (e : Esc) (es : EBs) (f : Nat),
      analyseL env.v c ps = some (cf, es) → Fresh tn i e → fuelL ps ≤ f →
      escapeList env f tn e c (nodesL cond isWith i ps) = .ok (editsL env.v tn i c ps e, cf)
  | .nil, i, c, cf, e, es, f, ha, _, hf => by
    obtain ⟨f', rfl⟩ : ∃ f', f = f' + 1 := ⟨f - 1, by simp [fuelL] at hf; omega⟩
    simp only [analyseL, Option.some.injEq, Prod.mk.injEq] at ha
    simp [nodesL, escapeList, editsL, ha.1]
  | .cons p ps, i, c, cf, e, es, f, ha, hfr, hf => by
    obtain ⟨f', rfl⟩ : ∃ f', f = f' + 1 := ⟨f - 1, by simp [fuelL] at hf; omega⟩
    simp only [fuelL] at hf
    simp only [analyseL] at ha
    cases hp : analyseP env.v c p with
    | none => simp [hp] at ha
    | some r =>
      obtain ⟨c1, ep⟩ := r
      simp only [hp] at ha
      cases hrec : analyseL env.v c1 ps with
      | none => simp [hrec] at ha
      | some r2 =>
        obtain ⟨cf', es'⟩ := r2
        simp only [hrec, Option.some.injEq, Prod.mk.injEq] at ha
        obtain ⟨rfl, _⟩ := ha
        have h1 := refP env hcsp tn cond isWith p i c c1 e ep f' hp hfr (by omega)
        have h2 := refL env hcsp tn cond isWith ps (i + cntP p) c1 cf' _ es' f' hrec (FreshP env.v tn p i c e hfr)
          (by omega)
        simp only [nodesL, escapeList, h1, bind, Out.bind, editsL, hp]
        exact h2
end


/-- `C01_branches` together with the model's analysis: `escapeList` on the parse tree (`{{if}}` or `{{with}}` nodes with
    an arbitrary condition pipeline) computes the final context of `analyseL` and records the edits `editsL` -/
theorem C01_branches_model (env : Env) (hcsp : env.csp = false) (tn : String) (cond : Pipe) (isWith : Bool)
    (ps : BPs) (cf : Ctx) (es : EBs) (path p1 p2 : List Bool) (vs vs' ws ws' : List Value) (o1 o2 : Bytes)
    (hs : SimpleL env.v {} ps) (ha : analyseL env.v {} ps = some (cf, es))
    (hu : ∀ x ∈ vs, Untrusted x) (hw : ∀ x ∈ ws, Untrusted x)
    (h1 : execL es path vs = some (o1, p1, vs')) (h2 : execL es path ws = some (o2, p2, ws')) :
    escapeList env (fuelL ps) tn {} {} (nodesL cond isWith 0 ps) = .ok (editsL env.v tn 0 {} ps {}, cf) ∧
    skeleton (HtmlTok.tokenize o1).tokens = skeleton (HtmlTok.tokenize o2).tokens ∧
    (HtmlTok.tokenize o1).final = (HtmlTok.tokenize o2).final ∧
    (cf.state = .text → (HtmlTok.tokenize o1).final = .data ∧ (HtmlTok.tokenize o2).final = .data) :=
  ⟨refL env hcsp tn cond isWith ps 0 {} cf {} es _ ha (fun k _ => ⟨rfl, rfl⟩) (Nat.le_refl _),
   C01_branches env.v ps cf es path p1 p2 vs vs' ws ws' o1 o2 hs ha hu hw h1 h2⟩

end SafeHtml.Proofs.Layer3Branch
