/-
C08 / C05: the handle table, and explicit panic sites of the API model that are unreachable. (summary at the end)
-/
import SafeHtml.Proofs.ApiFrames
namespace SafeHtml.Proofs.NoPanic
open SafeHtml SafeHtml.Model.Tmpl SafeHtml.Proofs.Frozen SafeHtml.Proofs.ConcApi SafeHtml.Proofs.ConcReach
  SafeHtml.Proofs.ApiFrames

/-! ### 1. the handle-table invariant -/

/-- `oid` is the object registered under its own name in its own set -/
def Reg (w : World) (oid : Nat) (o : TObj) : Prop := alookup (w.ns o.ns).set o.name = some oid

/-- an object is either the registered one or a shadowed / unparsed one whose exported `Tree` is nil -/
def P (w : World) (oid : Nat) : Prop := ∀ o, nlookup w.objs oid = some o → Reg w oid o ∨ o.treeNil = true

/-- every handle of the harness is bound to an allocated object satisfying `P` -/
def HInv (w : World) : Prop := ∀ h oid, nlookup w.handles h = some oid → oid < w.next ∧ P w oid

/-- objects with id below `b` keep `P` -/
def PK (b : Nat) (w w' : World) : Prop := ∀ oid, oid < b → P w oid → P w' oid

theorem PK.refl (b : Nat) (w : World) : PK b w w := fun _ _ h => h
theorem PK.trans {b : Nat} {w w1 w2 : World} (h1 : PK b w w1) (h2 : PK b w1 w2) : PK b w w2 :=
  fun oid hb h => h2 oid hb (h1 oid hb h)

/-- same objects and same sets: `P` is the same -/
theorem P_congr {w w' : World} (oid : Nat) (hobj : nlookup w'.objs oid = nlookup w.objs oid)
    (hset : ∀ k, (w'.ns k).set = (w.ns k).set) (h : P w oid) : P w' oid := by
  intro o ho
  rw [hobj] at ho
  rcases h o ho with h1 | h1
  · exact .inl (by unfold Reg at h1 ⊢; rw [hset]; exact h1)
  · exact .inr h1

theorem pk_setNs (b : Nat) (w : World) (k : Nat) (n : NS) (hn : n.set = (w.ns k).set) : PK b w (w.setNs k n) := by
  intro oid _ h
  refine P_congr (w := w) (w' := w.setNs k n) oid rfl ?_ h
  intro j; rw [ns_upd]; split
  · rename_i hj; rw [hj, hn]
  · rfl

theorem pk_newSet (w : World) (name : String) (hf : FreshIds w) : PK w.next w (w.newSet name).1 := by
  intro oid hb h o ho
  rw [newSet_objs, if_neg (by omega)] at ho
  have hns := (hf oid o ho).2
  rcases h o ho with h1 | h1
  · left; unfold Reg at h1 ⊢; rw [newSet_ns, if_neg (by omega)]; exact h1
  · exact .inr h1

theorem P_newSet_new (w : World) (name : String) : P (w.newSet name).1 (w.next + 1) := by
  intro o ho
  rw [newSet_objs, if_pos rfl] at ho
  cases ho
  left
  unfold Reg
  simp only []
  rw [newSet_ns, if_pos rfl]
  simp only [alookup_cons, if_true]

/-- replacing an object by one with a nil tree -/
theorem pk_setObj_nil (b : Nat) (w : World) (id : Nat) (t' : TObj) (ht : t'.treeNil = true) :
    PK b w (w.setObj id t') := by
  intro oid _ h o ho
  rw [obj_upd] at ho
  split at ho
  · cases ho; exact .inr ht
  · exact h o ho

/-- changing fields of an object other than name space and name, keeping `treeNil` or being the registered object -/
theorem pk_setObj_mod (b : Nat) (w : World) (id : Nat) (t t' : TObj) (ht : nlookup w.objs id = some t)
    (h1 : t'.ns = t.ns) (h2 : t'.name = t.name) (h3 : t'.treeNil = t.treeNil ∨ Reg w id t) :
    PK b w (w.setObj id t') := by
  intro oid _ h o ho
  rw [obj_upd] at ho
  split at ho
  · rename_i hid
    cases ho
    subst hid
    rcases h3 with h3 | h3
    · rcases h t ht with g | g
      · left; unfold Reg at g ⊢; rw [h1, h2]; exact g
      · right; rw [h3]; exact g
    · left; unfold Reg at h3 ⊢; rw [h1, h2]; exact h3
  · exact h o ho

theorem pk_bindNew_one (w : World) (k : Nat) (name : String) (obj : TObj) (oid : Nat) (hold : oid < w.next)
    (hP : P w oid) (hside : ∀ o, nlookup w.objs oid = some o → o.ns = k → o.name = name → o.treeNil = true) :
    P (bindNew w k name obj).1 oid := by
  intro o ho
  rw [bindNew_objs] at ho
  split at ho
  · omega
  · rcases hP o ho with h1 | h1
    · by_cases hk : o.ns = k ∧ o.name = name
      · exact .inr (hside o ho hk.1 hk.2)
      · left
        unfold Reg at h1 ⊢
        rw [bindNew_ns]
        by_cases hkk : o.ns = k
        · rw [if_pos hkk]
          simp only []
          rw [alookup_aset, if_neg (fun hn => hk ⟨hkk, hn⟩)]
          rw [hkk] at h1; exact h1
        · rw [if_neg hkk]; exact h1
    · exact .inr h1


theorem P_bindNew_new (w : World) (k : Nat) (name : String) (obj : TObj) (h1 : obj.ns = k) (h2 : obj.name = name) :
    P (bindNew w k name obj).1 (bindNew w k name obj).2 := by
  show P (bindNew w k name obj).1 w.next
  intro o ho
  rw [bindNew_objs, if_pos rfl] at ho
  cases ho
  left
  unfold Reg
  rw [bindNew_ns, h1, if_pos rfl, h2]
  simp only []
  rw [alookup_aset, if_pos rfl]

theorem pk_assocNew (w : World) (nsId : Nat) (name : String) (hi : InvR w) (hk : nsId < w.next) :
    PK w.next w (w.assocNew nsId name).1 ∧ P (w.assocNew nsId name).1 (w.assocNew nsId name).2 := by
  rw [assocNew_eq]
  refine ⟨?_, P_bindNew_new _ _ _ _ rfl rfl⟩
  cases hex : alookup (w.ns nsId).set name with
  | none =>
    intro oid hb hP
    apply pk_bindNew_one w nsId name _ oid hb hP
    intro o ho h1 h2
    rcases hP o ho with g | g
    · unfold Reg at g; rw [h1, h2, hex] at g; cases g
    · exact g
  | some ex =>
    simp only []
    have hobj : nlookup (w.newSet name).1.objs (w.newSet name).2 = some { ns := w.next, name := name } := by
      rw [newSet_objs]; exact if_pos rfl
    rw [hobj]
    simp only []
    intro oid hb hP
    have p1 := pk_newSet w name hi.2.2 oid hb hP
    have p2 := pk_setObj_nil w.next (w.newSet name).1 ex { ns := w.next, name := name } rfl oid hb p1
    apply pk_bindNew_one _ nsId name _ oid (by show oid < (w.newSet name).1.next; rw [newSet_next]; omega) p2
    intro o ho h1 h2
    rcases p2 o ho with g | g
    · exfalso
      unfold Reg at g
      rw [h1, h2] at g
      have hset : alookup (((w.newSet name).1.setObj ex { ns := w.next, name := name }).ns nsId).set name = some ex := by
        show alookup ((w.newSet name).1.ns nsId).set name = some ex
        rw [newSet_ns, if_neg (by omega)]; exact hex
      rw [hset] at g; cases g
      rw [obj_upd, if_pos rfl] at ho
      cases ho
      simp only [] at h1
      omega
    · exact g


theorem PK.mono {b b' : Nat} {w w' : World} (h : PK b' w w') (hb : b ≤ b') : PK b w w' :=
  fun oid ho hP => h oid (by omega) hP

theorem pk_setObj_other (b : Nat) (w : World) (id : Nat) (t' : TObj) (hid : b ≤ id) : PK b w (w.setObj id t') := by
  intro oid hb h
  exact P_congr (w := w) (w' := w.setObj id t') oid (by rw [obj_upd, if_neg (by omega)]) (fun _ => rfl) h

theorem Reg_assocNew_new (w : World) (k : Nat) (name : String) :
    Reg (w.assocNew k name).1 (w.assocNew k name).2 { ns := k, name := name } := by
  rw [assocNew_eq]
  unfold Reg
  simp only []
  rw [bindNew_ns, if_pos rfl]
  simp only []
  rw [alookup_aset, if_pos rfl]
  rfl

theorem pk_parseStep (k : Nat) (w : World) (p : String × Option Tree) (hi : InvR w) (hk : k < w.next) :
    PK w.next w (parseStep k w p) := by
  unfold parseStep
  simp only []
  cases hl : alookup (w.ns k).set p.1 with
  | some tid =>
    simp only []
    cases ht : nlookup w.objs tid with
    | none => exact PK.refl _ _
    | some t =>
      obtain ⟨o, g1, g2, g3⟩ := hi.2.1 k p.1 tid hl (fun hx => nomatch hx)
      rw [ht] at g1; cases g1
      exact pk_setObj_mod _ w tid t _ ht rfl rfl (.inr (by unfold Reg; rw [g2, g3]; exact hl))
  | none =>
    simp only []
    rw [assocNew_snd_obj]
    exact (pk_assocNew w k p.1 hi hk).1.trans
      (pk_setObj_mod _ _ _ _ _ (assocNew_snd_obj w k p.1) rfl rfl (.inr (Reg_assocNew_new w k p.1)))

theorem pk_parseFold (b k : Nat) (l : List (String × Option Tree)) : ∀ w, InvR w → k < w.next → b ≤ w.next →
    PK b w (l.foldl (parseStep k) w) := by
  induction l with
  | nil => intro w _ _ _; exact PK.refl _ _
  | cons p t ih =>
    intro w h hk hb
    obtain ⟨h1, h2⟩ := parseStep_inv k w p h hk
    have hn : w.next ≤ (parseStep k w p).next := (frame_parseStep k w p h hk).1
    exact ((pk_parseStep k w p h hk).mono hb).trans (ih _ h1 h2 (by omega))

theorem pk_apiParse (w : World) (h : Nat) (defs : List Tree) (hi : InvR w) : PK w.next w (apiParse w h defs).1 := by
  unfold apiParse
  cases hobj : w.obj h with
  | none => exact PK.refl _ _
  | some q =>
    obtain ⟨rid, o⟩ := q
    simp only []
    have hlk := obj_lookup w h rid o hobj
    have hns : o.ns < w.next := (hi.2.2 rid o hlk).2
    cases hesc : (w.ns o.ns).escaped with
    | true => simp only [if_true]; exact PK.refl _ _
    | false =>
      simp only [Bool.false_eq_true, if_false]
      generalize defs.foldl _ ((w.ns o.ns).text, o.registered) = tr
      obtain ⟨text, reg⟩ := tr
      simp only []
      have h1 : InvR (w.setObj rid { o with registered := reg }) := modObj_inv w rid o _ hi hlk rfl rfl rfl
      have s1 : PK w.next w (w.setObj rid { o with registered := reg }) :=
        pk_setObj_mod _ w rid o _ hlk rfl rfl (.inl rfl)
      have h2 := setText_inv (w.setObj rid { o with registered := reg }) o.ns
        { set := (w.ns o.ns).set, csp := (w.ns o.ns).csp, esc := (w.ns o.ns).esc, text := text } h1 hesc rfl rfl
      have s2 := pk_setNs w.next (w.setObj rid { o with registered := reg }) o.ns
        { set := (w.ns o.ns).set, csp := (w.ns o.ns).csp, esc := (w.ns o.ns).esc, text := text } rfl
      exact (s1.trans s2).trans (pk_parseFold w.next o.ns text _ h2 hns (Nat.le_refl _))

/-- one analysis: sets unchanged, the only object modified is the registered one -/
theorem pk_top (b : Nat) (w w' : World) (ns : Nat) (name : String) (r : Option ErrCode) (hi : InvR w)
    (h : escapeTemplateTop w ns name = .inr (w', r)) : PK b w w' := by
  obtain ⟨hset, hobjs⟩ := top_objs w w' ns name r h
  intro oid _ hP o' ho'
  rcases hobjs oid o' ho' with h3 | ⟨o, h3, hso, _⟩
  · rcases hP o' h3 with g | g
    · exact .inl (by unfold Reg at g ⊢; rw [hset]; exact g)
    · exact .inr g
  · by_cases hm : alookup (w.ns ns).set name = some oid
    · obtain ⟨o2, g1, g2, g3⟩ := hi.2.1 ns name oid hm (fun hx => nomatch hx)
      rw [h3] at g1; cases g1
      left
      unfold Reg
      rw [hset, hso.1, hso.2.1, g2, g3]; exact hm
    · have := top_objs_other w w' ns name r h oid (fun id hs hid => hm (by rw [hs, hid]))
      rw [this, h3] at ho'; cases ho'
      rcases hP o' h3 with g | g
      · exact .inl (by unfold Reg at g ⊢; rw [hset]; exact g)
      · exact .inr g


/-! #### handles are only changed by the harness' `bind` -/

theorem handles_newSet (w : World) (name : String) : (w.newSet name).1.handles = w.handles := rfl
theorem handles_bindNew (w : World) (k : Nat) (name : String) (obj : TObj) :
    (bindNew w k name obj).1.handles = w.handles := rfl

theorem handles_assocNew (w : World) (k : Nat) (name : String) : (w.assocNew k name).1.handles = w.handles := by
  rw [assocNew_eq, handles_bindNew]
  split
  · split <;> rfl
  · rfl

theorem handles_parseStep (k : Nat) (w : World) (p : String × Option Tree) : (parseStep k w p).handles = w.handles := by
  unfold parseStep
  simp only []
  cases hl : alookup (w.ns k).set p.1 with
  | some tid =>
    simp only []
    cases nlookup w.objs tid <;> rfl
  | none =>
    simp only []
    cases nlookup (w.assocNew k p.1).1.objs (w.assocNew k p.1).2 <;> exact handles_assocNew w k p.1

theorem handles_parseFold (k : Nat) (l : List (String × Option Tree)) : ∀ w,
    (l.foldl (parseStep k) w).handles = w.handles := by
  induction l with
  | nil => intro w; rfl
  | cons p t ih => intro w; rw [List.foldl_cons, ih, handles_parseStep]

theorem handles_apiParse (w : World) (h : Nat) (defs : List Tree) : (apiParse w h defs).1.handles = w.handles := by
  unfold apiParse
  split
  · rfl
  · simp only []
    split
    · rfl
    · generalize defs.foldl _ _ = tr
      obtain ⟨text, reg⟩ := tr
      simp only []
      exact handles_parseFold _ _ _

theorem handles_cloneFold (k : Nat) (l : List (String × Option Tree)) : ∀ w,
    (l.foldl (cloneStep k) w).handles = w.handles := by
  induction l with
  | nil => intro w; rfl
  | cons p t ih => intro w; rw [List.foldl_cons, ih]; rfl

theorem handles_top (w w' : World) (ns : Nat) (name : String) (r : Option ErrCode)
    (h : escapeTemplateTop w ns name = .inr (w', r)) : w'.handles = w.handles := by
  rcases top_form w w' ns name r h with ⟨e, code, _, rfl⟩ | ⟨t, e, _, rfl⟩
  · unfold markFailed
    simp only []
    split
    · split <;> rfl
    · rfl
  · unfold markOk
    simp only []
    split
    · split <;> rfl
    · rfl

/-- what the critical section of `Execute` does to handles, the counter and `P` -/
theorem crit_keeps (w : World) (h : Nat) (hi : InvR w) :
    (critExecute w h).1.handles = w.handles ∧ PK w.next w (critExecute w h).1 := by
  unfold critExecute
  cases hobj : w.obj h with
  | none => exact ⟨rfl, PK.refl _ _⟩
  | some p =>
    obtain ⟨oid, o⟩ := p
    have hi1 := setEscaped_invR w o.ns hi
    have k1 : (w.setNs o.ns { w.ns o.ns with escaped := true }).handles = w.handles ∧
        PK w.next w (w.setNs o.ns { w.ns o.ns with escaped := true }) := ⟨rfl, pk_setNs _ w o.ns _ rfl⟩
    simp only []
    cases hs : o.status with
    | failed code => exact k1
    | ok => exact k1
    | unset =>
      simp only []
      cases ht : o.treeNil with
      | true => exact k1
      | false =>
        simp only [Bool.false_eq_true, if_false]
        cases he : escapeTemplateTop (w.setNs o.ns { w.ns o.ns with escaped := true }) o.ns o.name with
        | inl r => exact k1
        | inr q =>
          obtain ⟨w', oc⟩ := q
          have hh := handles_top _ w' o.ns o.name oc he
          have k2 : w'.handles = w.handles ∧ PK w.next w w' :=
            ⟨hh, k1.2.trans (pk_top _ _ w' o.ns o.name oc hi1 he)⟩
          cases oc with
          | some code => exact k2
          | none =>
            simp only []
            cases nlookup w'.objs oid <;> exact k2

theorem critT_keeps (w : World) (h : Nat) (name : String) (hi : InvR w) :
    (critExecuteTemplate w h name).1.handles = w.handles ∧ PK w.next w (critExecuteTemplate w h name).1 := by
  unfold critExecuteTemplate
  cases hobj : w.obj h with
  | none => exact ⟨rfl, PK.refl _ _⟩
  | some p =>
    obtain ⟨oid, o⟩ := p
    have hi1 := setEscaped_invR w o.ns hi
    have k1 : (w.setNs o.ns { w.ns o.ns with escaped := true }).handles = w.handles ∧
        PK w.next w (w.setNs o.ns { w.ns o.ns with escaped := true }) := ⟨rfl, pk_setNs _ w o.ns _ rfl⟩
    simp only []
    cases hl : alookup (w.ns o.ns).set name with
    | none => exact k1
    | some tid =>
      simp only []
      cases hn : nlookup (w.setNs o.ns { w.ns o.ns with escaped := true }).objs tid with
      | none => exact k1
      | some t =>
        simp only []
        cases hs : t.status with
        | failed code => exact k1
        | ok =>
          simp only []
          generalize (if t.registered = true then _ else true) = b1
          generalize ((w.ns o.ns).text.lookup name).isNone = b2
          cases b1
          · cases b2
            · simp only [show (Status.ok == Status.unset) = false from rfl, Bool.false_eq_true, if_false]
              exact k1
            · exact k1
          · exact k1
        | unset =>
          simp only []
          generalize (if t.registered = true then _ else true) = b1
          generalize ((w.ns o.ns).text.lookup name).isNone = b2
          cases b1
          · cases b2
            · simp only [show (Status.unset == Status.unset) = true from rfl, Bool.false_eq_true, if_false, if_true]
              cases he : escapeTemplateTop (w.setNs o.ns { w.ns o.ns with escaped := true }) o.ns name with
              | inl r => exact k1
              | inr q =>
                obtain ⟨w', oc⟩ := q
                have hh := handles_top _ w' o.ns name oc he
                have k2 : w'.handles = w.handles ∧ PK w.next w w' :=
                  ⟨hh, k1.2.trans (pk_top _ _ w' o.ns name oc hi1 he)⟩
                cases oc with
                | some code => exact k2
                | none =>
                  simp only []
                  cases nlookup w'.objs tid <;> exact k2
            · exact k1
          · exact k1


theorem hinv_build (w W : World) (hh : HInv w) (hn : w.next ≤ W.next) (hpk : PK w.next w W)
    (hhd : ∀ hd oid, nlookup W.handles hd = some oid →
      nlookup w.handles hd = some oid ∨ (oid < W.next ∧ P W oid)) : HInv W := by
  intro hd oid h
  rcases hhd hd oid h with h1 | h1
  · obtain ⟨a, b⟩ := hh hd oid h1
    exact ⟨by omega, hpk oid a b⟩
  · exact h1

theorem handles_bind (w : World) (h id hd oid : Nat) (hl : nlookup (w.bind h id).handles hd = some oid) :
    nlookup w.handles hd = some oid ∨ (hd = h ∧ oid = id) := by
  unfold World.bind at hl
  simp only [] at hl
  by_cases hh : hd = h
  · subst hh; rw [nlookup_nset_same] at hl; cases hl; exact .inr ⟨rfl, rfl⟩
  · rw [nlookup_nset_other _ _ _ _ hh] at hl; exact .inl hl

theorem P_bind (w : World) (h id oid : Nat) (hP : P w oid) : P (w.bind h id) oid := hP

theorem pk_setNs_fresh (b : Nat) (w : World) (k : Nat) (n : NS)
    (hf : ∀ oid o, oid < b → nlookup w.objs oid = some o → o.ns ≠ k) : PK b w (w.setNs k n) := by
  intro oid hb hP o ho
  have ho' : nlookup w.objs oid = some o := ho
  rcases hP o ho' with g | g
  · left; unfold Reg at g ⊢; rw [ns_upd, if_neg (hf oid o hb ho')]; exact g
  · exact .inr g

theorem pk_cloneFold (b nsId : Nat) (w0 : World) (hfr : ∀ oid o, oid < b → nlookup w0.objs oid = some o → o.ns ≠ nsId)
    (l : List (String × Option Tree)) : ∀ w, b ≤ w.next →
    (∀ oid, oid < b → nlookup w.objs oid = nlookup w0.objs oid) →
    PK b w (l.foldl (cloneStep nsId) w) := by
  induction l with
  | nil => intro w _ _; exact PK.refl _ _
  | cons p t ih =>
    intro w hb hK
    have s1 : PK b w (cloneStep nsId w p) := by
      intro oid ho hP
      apply pk_bindNew_one w nsId p.1 _ oid (by omega) hP
      intro o hoo h1
      rw [hK oid ho] at hoo
      exact absurd h1 (hfr oid o ho hoo)
    refine s1.trans (ih _ ?_ ?_)
    · show b ≤ (bindNew w nsId p.1 _).1.next; rw [bindNew_next]; omega
    · intro oid ho
      show nlookup (bindNew w nsId p.1 _).1.objs oid = _
      rw [bindNew_objs, if_neg (by omega)]; exact hK oid ho

theorem hinv_bind_new (w W : World) (h' rid : Nat) (hh : HInv w) (hn : w.next ≤ W.next) (hpk : PK w.next w W)
    (hhand : W.handles = w.handles) (hrid : rid < W.next ∧ P W rid) : HInv (W.bind h' rid) := by
  apply hinv_build w (W.bind h' rid) hh hn hpk
  intro hd id hl
  rcases handles_bind _ h' rid hd id hl with hl' | ⟨_, rfl⟩
  · left; rw [hhand] at hl'; exact hl'
  · exact .inr hrid

theorem P_of_reg (W : World) (rid : Nat) (o' : TObj) (h1 : nlookup W.objs rid = some o') (h2 : Reg W rid o') :
    P W rid := by
  intro o2 ho2
  rw [h1] at ho2; cases ho2
  exact .inl h2

theorem hinv_same_handles (w W : World) (hh : HInv w) (hn : w.next ≤ W.next) (hpk : PK w.next w W)
    (hhand : W.handles = w.handles) : HInv W := by
  apply hinv_build w _ hh hn hpk
  intro hd id hl
  left; rw [hhand] at hl; exact hl

theorem hinv_clone (w : World) (h h' : Nat) (hi : InvR w) (hh : HInv w) : HInv (apiClone w h h').1 := by
  unfold apiClone
  cases hobj : w.obj h with
  | none => exact hh
  | some q =>
    obtain ⟨oid, o⟩ := q
    simp only []
    split
    · exact hh
    · split
      · exact hh
      · generalize hct : (if o.registered = true then (w.ns o.ns).text
          else List.map (fun p => if (p.1 == o.name) = true then (p.1, none) else p) (w.ns o.ns).text) = ctext
        have h0 : InvR (((({ w with next := w.next + 2 } : World).setObj (w.next + 1)
            { ns := w.next, name := o.name, registered := (ctext.lookup o.name).isSome,
              treeNil := !(match ctext.lookup o.name with | some (some _) => true | _ => false) }).setNs w.next
            { set := [(o.name, w.next + 1)], text := ctext })) := by
          refine freshSet_inv w _
            { ns := w.next, name := o.name, registered := (ctext.lookup o.name).isSome,
              treeNil := !(match ctext.lookup o.name with | some (some _) => true | _ => false) }
            { set := [(o.name, w.next + 1)], text := ctext } o.name hi rfl ?_ ?_ rfl rfl rfl rfl
            ⟨rfl, rfl, rfl⟩
          · intro k; rw [ns_upd]; rfl
          · intro id; show nlookup (World.setObj _ _ _).objs id = _; rw [obj_upd]
        have h1 := cloneFold_inv w.next ctext _ h0 (by show w.next < w.next + 2; omega)
        have hfr : ∀ id o2, id < w.next → nlookup w.objs id = some o2 → o2.ns ≠ w.next := by
          intro id o2 _ ho2; have := (hi.2.2 id o2 ho2).2; omega
        -- `P` of old objects through the three initial updates and the loop
        have p0 : PK w.next w (((({ w with next := w.next + 2 } : World).setObj (w.next + 1)
            { ns := w.next, name := o.name, registered := (ctext.lookup o.name).isSome,
              treeNil := !(match ctext.lookup o.name with | some (some _) => true | _ => false) }).setNs w.next
            { set := [(o.name, w.next + 1)], text := ctext })) := by
          have a1 : PK w.next w ({ w with next := w.next + 2 } : World) := fun _ _ hP => hP
          have a2 := pk_setObj_other w.next ({ w with next := w.next + 2 } : World) (w.next + 1)
            { ns := w.next, name := o.name, registered := (ctext.lookup o.name).isSome,
              treeNil := !(match ctext.lookup o.name with | some (some _) => true | _ => false) } (by omega)
          refine (a1.trans a2).trans (pk_setNs_fresh _ _ _ _ ?_)
          intro id o2 hid ho2
          have ho2' : nlookup w.objs id = some o2 := by
            have : nlookup (World.setObj ({ w with next := w.next + 2 } : World) (w.next + 1) _).objs id = some o2 := ho2
            rw [obj_upd, if_neg (by omega)] at this; exact this
          exact hfr id o2 hid ho2'
        have p1 := p0.trans (pk_cloneFold w.next w.next w hfr ctext _ (by show w.next ≤ w.next + 2; omega) (by
          intro id hid
          show nlookup (World.setObj ({ w with next := w.next + 2 } : World) (w.next + 1) _).objs id = _
          rw [obj_upd, if_neg (by omega)]))
        have hnext : w.next ≤ (List.foldl (cloneStep w.next) _ ctext).next :=
          (frame_cloneFold w.next ctext _ h0 (by show w.next < w.next + 2; omega)).1 |> fun h => by
            have : w.next ≤ w.next + 2 := by omega
            exact Nat.le_trans this h
        have hhand := handles_cloneFold w.next ctext (((({ w with next := w.next + 2 } : World).setObj (w.next + 1)
            { ns := w.next, name := o.name, registered := (ctext.lookup o.name).isSome,
              treeNil := !(match ctext.lookup o.name with | some (some _) => true | _ => false) }).setNs w.next
            { set := [(o.name, w.next + 1)], text := ctext }))
        split
        · rename_i rid hrid
          obtain ⟨o', g1, g2, g3⟩ := h1.2.1 w.next o.name rid hrid (fun hx => nomatch hx)
          exact hinv_bind_new w _ h' rid hh hnext p1 hhand ⟨(h1.2.2 rid o' g1).1,
            P_of_reg _ rid o' g1 (by unfold Reg; rw [g2, g3]; exact hrid)⟩
        · exact hinv_same_handles w _ hh hnext p1 hhand


/-- **every operation keeps the handle-table invariant** -/
theorem hinv_step (w : World) (op : Op) (hi : InvR w) (hh : HInv w) : HInv (Api.step w op).1 := by
  cases op with
  | new h name =>
    show HInv ((w.newSet name).1.bind h (w.newSet name).2)
    exact hinv_bind_new w _ h _ hh (by rw [newSet_next]; omega) (pk_newSet w name hi.2.2) rfl
      ⟨by show w.next + 1 < (w.newSet name).1.next; rw [newSet_next]; omega, P_newSet_new w name⟩
  | assocNew h name h' =>
    simp only [Api.step]
    cases hobj : w.obj h with
    | none => exact hh
    | some p =>
      obtain ⟨oid, o⟩ := p
      have hk := (hi.2.2 oid o (obj_lookup w h oid o hobj)).2
      have hi' := assocNew_inv w o.ns name hi hk
      obtain ⟨a, b⟩ := pk_assocNew w o.ns name hi hk
      show HInv ((w.assocNew o.ns name).1.bind h' (w.assocNew o.ns name).2)
      exact hinv_bind_new w _ h' _ hh (assocNew_next w o.ns name) a (handles_assocNew w o.ns name)
        ⟨(hi'.2.2 _ _ (assocNew_snd_obj w o.ns name)).1, b⟩
  | parse h defs =>
    exact hinv_same_handles w _ hh (frame_apiParse w h defs hi).1 (pk_apiParse w h defs hi) (handles_apiParse w h defs)
  | clone h h' => exact hinv_clone w h h' hi hh
  | lookup h name h' =>
    show HInv (apiLookup w h name h').1
    unfold apiLookup
    cases hobj : w.obj h with
    | none => exact hh
    | some p =>
      obtain ⟨oid, o⟩ := p
      simp only []
      cases hl : alookup (w.ns o.ns).set name with
      | none => exact hh
      | some tid =>
        simp only []
        obtain ⟨t, g1, g2, g3⟩ := hi.2.1 o.ns name tid hl (fun hx => nomatch hx)
        have hnew : tid < w.next ∧ P w tid :=
          ⟨(hi.2.2 tid t g1).1, P_of_reg w tid t g1 (by unfold Reg; rw [g2, g3]; exact hl)⟩
        split
        · exact hinv_bind_new w w h' tid hh (Nat.le_refl _) (PK.refl _ _) rfl hnew
        · exact hinv_bind_new w w h' tid hh (Nat.le_refl _) (PK.refl _ _) rfl hnew
  | templates h => exact hh
  | csp h =>
    simp only [Api.step]
    cases hobj : w.obj h with
    | none => exact hh
    | some p => exact hinv_same_handles w _ hh (Nat.le_refl _) (pk_setNs _ w _ _ rfl) rfl
  | exec h d =>
    show HInv (apiExecute w h d).1; rw [apiExecute_split]
    obtain ⟨a, b⟩ := crit_keeps w h hi
    exact hinv_same_handles w _ hh (frame_critExecute w h hi).1 b a
  | execHTML h d =>
    show HInv (apiExecute w h d).1; rw [apiExecute_split]
    obtain ⟨a, b⟩ := crit_keeps w h hi
    exact hinv_same_handles w _ hh (frame_critExecute w h hi).1 b a
  | execT h n d =>
    show HInv (apiExecuteTemplate w h n d).1; rw [apiExecuteTemplate_split]
    obtain ⟨a, b⟩ := critT_keeps w h n hi
    exact hinv_same_handles w _ hh (frame_critExecuteTemplate w h n hi).1 b a
  | execTHTML h n d =>
    show HInv (apiExecuteTemplate w h n d).1; rw [apiExecuteTemplate_split]
    obtain ⟨a, b⟩ := critT_keeps w h n hi
    exact hinv_same_handles w _ hh (frame_critExecuteTemplate w h n hi).1 b a

/-- reachable from an initial world whose handle table is empty (as in the harness) -/
inductive Reachable0 : World → Prop where
  | init (w : World) (h : Initial w) (hh : w.handles = []) : Reachable0 w
  | step (w : World) (op : Op) (h : Reachable0 w) : Reachable0 (Api.step w op).1

theorem Reachable0.reachable {w : World} (h : Reachable0 w) : Reachable w := by
  induction h with
  | init w h _ => exact Reachable.init w h
  | step w op _ ih => exact Reachable.step w op ih

theorem hinv_reachable (w : World) (h : Reachable0 w) : HInv w := by
  induction h with
  | init w _ hh => intro hd oid hl; rw [hh] at hl; cases hl
  | step w op h ih => exact hinv_step w op (invR_reachable w h.reachable) ih

/-! ### 2. consequences -/

/-- exclusion (ii) of `C05_failed_sticky_all_ops` cannot arise: a handle is bound to the registered object or to an
    object with a nil `Tree`, for which `Execute` answers "incomplete" without analysing -/
theorem fk_critExecute_h (oid : Nat) (code : ErrCode) (w : World) (h : Nat) (o : TObj) (hh : HInv w)
    (ho : nlookup w.objs oid = some o) (hs : o.status = .failed code) :
    ∃ o', nlookup (critExecute w h).1.objs oid = some o' ∧ o'.status = .failed code := by
  cases hobj : w.obj h with
  | none => unfold critExecute; rw [hobj]; exact ⟨o, ho, hs⟩
  | some p =>
    obtain ⟨rid, r⟩ := p
    have hlk := obj_lookup w h rid r hobj
    have hhd : nlookup w.handles h = some rid := by
      unfold World.obj at hobj
      cases h1 : nlookup w.handles h with
      | none => simp [h1] at hobj
      | some id =>
        cases h2 : nlookup w.objs id with
        | none => simp [h1, h2] at hobj
        | some o2 => simp [h1, h2] at hobj; rw [hobj.1]
    rcases (hh h rid hhd).2 r hlk with hreg | hnil
    · -- the receiver is the registered object
      apply fk_critExecute oid code w h o ho hs
      intro rid' r' h1 h2 h3
      rw [hobj] at h1; cases h1
      unfold Reg at hreg
      rw [hreg] at h3; cases h3
      exact h2 rfl
    · -- nil tree: no analysis
      unfold critExecute
      rw [hobj]
      simp only []
      cases hst : r.status with
      | failed c => exact ⟨o, ho, hs⟩
      | ok => exact ⟨o, ho, hs⟩
      | unset => simp only [hnil, if_true]; exact ⟨o, ho, hs⟩

/-- **C05 for reachable worlds: failure is sticky under ALL operations except `t.New(name)` on the name registered for
    the failed object** (`*existing = *emptyTmpl`, finding new-after-exec). -/
theorem C05_failed_sticky_reachable (w : World) (hr : Reachable0 w) (op : Op) (oid : Nat) (o : TObj) (code : ErrCode)
    (ho : nlookup w.objs oid = some o) (hs : o.status = .failed code)
    (hnew : ∀ h name h', op = .assocNew h name h' →
      ¬ ∃ rid r, w.obj h = some (rid, r) ∧ alookup (w.ns r.ns).set name = some oid) :
    ∃ o', nlookup (Api.step w op).1.objs oid = some o' ∧ o'.status = .failed code := by
  have hi := invR_reachable w hr.reachable
  have hh := hinv_reachable w hr
  cases op with
  | exec h d =>
    show ∃ o', nlookup (apiExecute w h d).1.objs oid = some o' ∧ _
    rw [apiExecute_split]; exact fk_critExecute_h oid code w h o hh ho hs
  | execHTML h d =>
    show ∃ o', nlookup (apiExecute w h d).1.objs oid = some o' ∧ _
    rw [apiExecute_split]; exact fk_critExecute_h oid code w h o hh ho hs
  | assocNew h name h' =>
    exact C05_failed_sticky_all_ops w _ hi oid o code ho hs (fun hx => hnew h name h' rfl hx)
  | new h name => exact C05_failed_sticky_all_ops w _ hi oid o code ho hs (fun hx => hx)
  | parse h defs => exact C05_failed_sticky_all_ops w _ hi oid o code ho hs (fun hx => hx)
  | clone h h' => exact C05_failed_sticky_all_ops w _ hi oid o code ho hs (fun hx => hx)
  | lookup h n h' => exact C05_failed_sticky_all_ops w _ hi oid o code ho hs (fun hx => hx)
  | templates h => exact C05_failed_sticky_all_ops w _ hi oid o code ho hs (fun hx => hx)
  | csp h => exact C05_failed_sticky_all_ops w _ hi oid o code ho hs (fun hx => hx)
  | execT h n d => exact C05_failed_sticky_all_ops w _ hi oid o code ho hs (fun hx => hx)
  | execTHTML h n d => exact C05_failed_sticky_all_ops w _ hi oid o code ho hs (fun hx => hx)

/-- **"template escaping out of sync" is dead code in the model** (in EVERY world): the branch is guarded by
    `textTreeNil = false`, which already says that the text set has a tree for the name. If `ExecuteTemplate` reports
    a panic at all, the panic comes out of the analysis (`escapeTemplateTop`). -/
theorem executeTemplate_panic_origin (w : World) (h : Nat) (name : String) (d : Value) (m : String)
    (hres : (apiExecuteTemplate w h name d).2 = .panic m) :
    (∃ rid r, w.obj h = some (rid, r) ∧
      escapeTemplateTop (w.setNs r.ns { w.ns r.ns with escaped := true }) r.ns name = .inl (.panic m)) ∨
    (∃ w' o, (apiExecuteTemplate w h name d).2 = textExecute w' o d) := by
  unfold apiExecuteTemplate at hres ⊢
  cases hobj : w.obj h with
  | none => rw [hobj] at hres; cases hres
  | some p =>
    obtain ⟨rid, r⟩ := p
    rw [hobj] at hres
    simp only [] at hres ⊢
    cases hl : alookup (w.ns r.ns).set name with
    | none => rw [hl] at hres; cases hres
    | some tid =>
      rw [hl] at hres
      simp only [] at hres ⊢
      cases hn : nlookup (w.setNs r.ns { w.ns r.ns with escaped := true }).objs tid with
      | none => rw [hn] at hres; cases hres
      | some t =>
        rw [hn] at hres
        simp only [] at hres ⊢
        cases hs : t.status with
        | failed code => rw [hs] at hres; cases hres
        | ok =>
          rw [hs] at hres
          simp only [] at hres ⊢
          cases hreg : t.registered with
          | false => simp [hreg] at hres
          | true =>
            cases hlk : (w.ns r.ns).text.lookup name with
            | none => simp [hreg, hlk] at hres
            | some x =>
              cases x with
              | none => simp [hreg, hlk] at hres
              | some tr =>
                right
                refine ⟨w.setNs r.ns { w.ns r.ns with escaped := true }, t, ?_⟩
                simp [show (Status.ok == Status.unset) = false from rfl]
        | unset =>
          rw [hs] at hres
          simp only [] at hres ⊢
          cases hreg : t.registered with
          | false => simp [hreg] at hres
          | true =>
            cases hlk : (w.ns r.ns).text.lookup name with
            | none => simp [hreg, hlk] at hres
            | some x =>
              cases x with
              | none => simp [hreg, hlk] at hres
              | some tr =>
                simp only [hreg, hlk, if_true, Bool.false_eq_true, if_false, Option.isNone_some,
                  show (Status.unset == Status.unset) = true from rfl] at hres ⊢
                cases he : escapeTemplateTop (w.setNs r.ns { w.ns r.ns with escaped := true }) r.ns name with
                | inl res =>
                  rw [he] at hres
                  simp only [] at hres
                  left
                  exact ⟨rid, r, rfl, by rw [← hres]; exact he⟩
                | inr q =>
                  obtain ⟨w', oc⟩ := q
                  rw [he] at hres
                  cases oc with
                  | some code => cases hres
                  | none =>
                    simp only [] at hres ⊢
                    cases hn2 : nlookup w'.objs tid with
                    | none => rw [hn2] at hres; cases hres
                    | some t2 => right; exact ⟨w', t2, rfl⟩


def msgOutOfSync : String := "template escaping out of sync"
def msgExecNil : String := "nil pointer dereference: execution of a called template whose Tree is nil"

theorem textExecute_panic (w : World) (o : TObj) (d : Value) (m : String) (h : textExecute w o d = .panic m) :
    m = msgExecNil := by
  unfold textExecute at h
  simp only [] at h
  split at h
  · cases h
  · split at h <;> (cases h; try rfl)

/-- **`ExecuteTemplate` never reports "template escaping out of sync"** in a world in which every memoized name has a
    template and no template has a nil tree (both are invariants, `ConcApi.top_keeps_hasT_noNil`). -/
theorem executeTemplate_never_out_of_sync (w : World) (h : Nat) (name : String) (d : Value)
    (hT : ∀ k, HasT (w.ns k).text (w.ns k).esc) (hnn : ∀ k, NoNil (w.ns k).text) :
    (apiExecuteTemplate w h name d).2 ≠ .panic msgOutOfSync := by
  intro hres
  rcases executeTemplate_panic_origin w h name d _ hres with ⟨rid, r, _, he⟩ | ⟨w', o, he⟩
  · have hns : (w.setNs r.ns { w.ns r.ns with escaped := true }).ns r.ns = { w.ns r.ns with escaped := true } :=
      ns_setNs_same _ _ _
    have := escapeTemplateTop_no_panic_partial _ r.ns name _ (by rw [hns]; exact hT r.ns) (by rw [hns]; exact hnn r.ns) he
    rcases this with h1 | h1 | h1 <;> exact absurd h1 (by decide)
  · rw [hres] at he
    exact absurd (textExecute_panic w' o d _ he.symm) (by decide)

/-! ### 3. "index out of range: command without arguments" is unreachable for parser-shaped trees -/

/-- every command of the pipeline has at least one argument (text/template's parser guarantees it) -/
def PipeOK (p : Pipe) : Prop := ∀ c ∈ p.cmds, c.args ≠ []

mutual
def nodeWF : Node → Prop
  | .action _ p => PipeOK p
  | .ifN _ _ t e => listWF t ∧ listWF e
  | .rangeN _ _ t e => listWF t ∧ listWF e
  | .withN _ _ t e => listWF t ∧ listWF e
  | .text _ _ => True
  | .tmpl _ _ _ => True
  | .brk _ => True
  | .cont _ => True
  | .comment _ => True
def listWF : NodeList → Prop
  | .nil => True
  | .cons n ns => nodeWF n ∧ listWF ns
end

theorem predefinedCheck_go_some (c : Ctx) (n : Nat) : ∀ (l : List Cmd) (pos : Nat), (∀ x ∈ l, x.args ≠ []) →
    predefinedCheck.go c n l pos ≠ none := by
  intro l
  induction l with
  | nil => intro pos _; simp [predefinedCheck.go]
  | cons cmd rest ih =>
    intro pos h
    have hc := h cmd (List.mem_cons_self ..)
    have hr : ∀ x ∈ rest, x.args ≠ [] := fun x hx => h x (List.mem_cons_of_mem _ hx)
    unfold predefinedCheck.go
    split
    · rename_i heq; exact absurd heq hc
    · split
      · simp
      · exact ih _ hr
    · exact ih _ hr

theorem predefinedCheck_some (c : Ctx) (p : Pipe) (h : PipeOK p) : predefinedCheck c p.cmds ≠ none := by
  unfold predefinedCheck
  exact predefinedCheck_go_some c _ p.cmds 0 h

theorem identCmd_ok (s : List String) : ∀ c ∈ s.map identCmd, c.args ≠ [] := by
  intro c hc
  rw [List.mem_map] at hc
  obtain ⟨x, _, rfl⟩ := hc
  simp [identCmd]

theorem epc_ok (p : Pipe) (s : List String) (h : PipeOK p) :
    ∃ p', ensurePipelineContains p s = some p' ∧ PipeOK p' := by
  unfold ensurePipelineContains
  split
  · exact ⟨p, rfl, h⟩
  · split
    · exact ⟨_, rfl, identCmd_ok s⟩
    · rename_i lastCmd hlast
      have hmem : lastCmd ∈ p.cmds := List.mem_of_getLast? hlast
      have hl := h lastCmd hmem
      split
      · rename_i heq; exact absurd heq hl
      · rename_i esc restArgs _
        split
        · cases hb : (p.cmds.length == 1 && !restArgs.isEmpty)
          · refine ⟨_, rfl, ?_⟩
            intro c hc
            simp only [hb, Bool.false_eq_true, if_false, List.mem_append] at hc
            rcases hc with hc | hc
            · exact h c (List.mem_of_mem_take hc)
            · exact identCmd_ok _ c hc
          · refine ⟨_, rfl, ?_⟩
            intro c hc
            simp only [hb, if_true, List.mem_append] at hc
            rcases hc with hc | hc
            · have hc' := List.mem_of_mem_take hc
              simp only [List.mem_cons, List.mem_nil_iff, or_false] at hc'
              rcases hc' with rfl | rfl
              · simp
              · simp [identCmd]
            · exact identCmd_ok _ c hc
        · refine ⟨_, rfl, ?_⟩
          intro c hc
          simp only [List.mem_append] at hc
          rcases hc with hc | hc
          · exact h c hc
          · exact identCmd_ok _ c hc
      · refine ⟨_, rfl, ?_⟩
        intro c hc
        simp only [List.mem_append] at hc
        rcases hc with hc | hc
        · exact h c hc
        · exact identCmd_ok _ c hc


mutual
theorem node_apply_wf (tn : String) (e : Esc) : ∀ n, nodeWF n → ∃ r, Node.applyEdits tn e n = some r ∧ nodeWF r
  | .text id b, _ => by
    simp only [Node.applyEdits]
    exact ⟨_, rfl, by split <;> simp only [nodeWF]⟩
  | .action id p, h => by
    simp only [nodeWF] at h
    simp only [Node.applyEdits]
    split
    · rename_i q _
      obtain ⟨p', h1, h2⟩ := epc_ok p q.2 h
      rw [h1]
      exact ⟨_, rfl, by simp only [nodeWF]; exact h2⟩
    · exact ⟨_, rfl, by simp only [nodeWF]; exact h⟩
  | .tmpl id name p, _ => by
    simp only [Node.applyEdits]
    exact ⟨_, rfl, by split <;> simp only [nodeWF]⟩
  | .ifN id p t el, h => by
    simp only [nodeWF] at h
    obtain ⟨t', a1, a2⟩ := list_apply_wf tn e t h.1
    obtain ⟨el', b1, b2⟩ := list_apply_wf tn e el h.2
    simp only [Node.applyEdits, a1, b1]
    exact ⟨_, rfl, by simp only [nodeWF]; exact ⟨a2, b2⟩⟩
  | .rangeN id p t el, h => by
    simp only [nodeWF] at h
    obtain ⟨t', a1, a2⟩ := list_apply_wf tn e t h.1
    obtain ⟨el', b1, b2⟩ := list_apply_wf tn e el h.2
    simp only [Node.applyEdits, a1, b1]
    exact ⟨_, rfl, by simp only [nodeWF]; exact ⟨a2, b2⟩⟩
  | .withN id p t el, h => by
    simp only [nodeWF] at h
    obtain ⟨t', a1, a2⟩ := list_apply_wf tn e t h.1
    obtain ⟨el', b1, b2⟩ := list_apply_wf tn e el h.2
    simp only [Node.applyEdits, a1, b1]
    exact ⟨_, rfl, by simp only [nodeWF]; exact ⟨a2, b2⟩⟩
  | .brk id, _ => by simp only [Node.applyEdits]; exact ⟨_, rfl, by simp only [nodeWF]⟩
  | .cont id, _ => by simp only [Node.applyEdits]; exact ⟨_, rfl, by simp only [nodeWF]⟩
  | .comment id, _ => by simp only [Node.applyEdits]; exact ⟨_, rfl, by simp only [nodeWF]⟩
theorem list_apply_wf (tn : String) (e : Esc) : ∀ l, listWF l → ∃ r, NodeList.applyEdits tn e l = some r ∧ listWF r
  | .nil, _ => by simp only [NodeList.applyEdits]; exact ⟨_, rfl, by simp only [listWF]⟩
  | .cons n ns, h => by
    simp only [listWF] at h
    obtain ⟨n', a1, a2⟩ := node_apply_wf tn e n h.1
    obtain ⟨ns', b1, b2⟩ := list_apply_wf tn e ns h.2
    simp only [NodeList.applyEdits, a1, b1]
    exact ⟨_, rfl, by simp only [listWF]; exact ⟨a2, b2⟩⟩
end


/-- all installed trees are well formed -/
def TW (text : TextSet) : Prop := ∀ n tr, text.lookup n = some (some tr) → listWF tr.root
/-- all derived and pristine trees of the escaper are well formed -/
def EW (e : Esc) : Prop := (∀ p ∈ e.derived, listWF p.2.root) ∧ (∀ p ∈ e.pristine, listWF p.2.root)

/-- outcome predicate: a result satisfies `Q`, a panic is not "command without arguments" -/
def OutP {α} (Q : α → Prop) : Out α → Prop
  | .ok a => Q a
  | .panic m => m ≠ msgArgs
  | .fuel => True

theorem OutP.bind {α β} {Q : α → Prop} {R : β → Prop} {x : Out α} {f : α → Out β}
    (hx : OutP Q x) (hf : ∀ a, Q a → OutP R (f a)) : OutP R (x >>= f) := by
  cases x with
  | ok a => exact hf a hx
  | panic m => exact hx
  | fuel => trivial

theorem OutP.pure {α} {Q : α → Prop} {a : α} (h : Q a) : OutP Q (Pure.pure a : Out α) := h

theorem escapeAction_P (env : Env) (tn : String) (e : Esc) (c : Ctx) (id : Nat) (p : Pipe) (he : EW e)
    (hp : PipeOK p) : OutP (fun r : Esc × Ctx => EW r.1) (escapeAction env tn e c id p) := by
  unfold escapeAction
  split
  · exact he
  · simp only []
    split
    · rename_i hn; exact absurd hn (predefinedCheck_some _ p hp)
    · exact he
    · split
      · exact he
      · split
        · exact he
        · apply OutP.bind (Q := fun e' : Esc => EW e')
          · unfold Esc.editAction
            split
            · show msgShared ≠ msgArgs; decide
            · exact he
          · intro e' h'; exact h'

theorem escapeTextNode_P (env : Env) (tn : String) (e : Esc) (c : Ctx) (id : Nat) (b : Bytes) (he : EW e) :
    OutP (fun r : Esc × Ctx => EW r.1) (escapeTextNode env tn e c id b) := by
  unfold escapeTextNode
  split
  · show msgLoop ≠ msgArgs; decide
  · exact he
  · apply OutP.bind (Q := fun e' : Esc => EW e')
    · unfold Esc.editText
      split
      · show msgShared ≠ msgArgs; decide
      · exact he
    · intro e' h'; exact h'

theorem editTmpl_P (e : Esc) (k : EditKey) (v : String) (he : EW e) : OutP (fun e' : Esc => EW e') (e.editTmpl k v) := by
  unfold Esc.editTmpl
  split
  · show msgShared ≠ msgArgs; decide
  · exact he

theorem mergeEdits_P {β} (from_ : List (EditKey × β)) : ∀ into, OutP (fun _ => True) (mergeEdits into from_) := by
  induction from_ with
  | nil => intro into; trivial
  | cons q t ih =>
    intro into
    unfold mergeEdits
    rw [List.foldlM_cons]
    apply OutP.bind (Q := fun _ => True)
    · split
      · show msgShared ≠ msgArgs; decide
      · trivial
    · intro a _; exact ih a

def NodeA (env : Env) (f : Nat) : Prop :=
  ∀ tn e c n, EW e → nodeWF n → OutP (fun r : Esc × Ctx => EW r.1) (escapeNode env f tn e c n)
def ListA (env : Env) (f : Nat) : Prop :=
  ∀ tn e c l, EW e → listWF l → OutP (fun r : Esc × Ctx => EW r.1) (escapeList env f tn e c l)
def BranchA (env : Env) (f : Nat) : Prop :=
  ∀ tn e c t el b, EW e → listWF t → listWF el →
    OutP (fun r : Esc × Ctx => EW r.1) (escapeBranch env f tn e c t el b)
def TreeA (env : Env) (f : Nat) : Prop :=
  ∀ e c name, EW e → OutP (fun r : Esc × Ctx × String => EW r.1) (escapeTree env f e c name)
def OutA (env : Env) (f : Nat) : Prop :=
  ∀ e c tname t, EW e → (∀ tr, t = some tr → listWF tr.root) →
    OutP (fun r : Esc × Ctx => EW r.1) (computeOutCtx env f e c tname t)
def BodyA (env : Env) (f : Nat) : Prop :=
  ∀ e c tname t, EW e → (∀ tr, t = some tr → listWF tr.root) →
    OutP (fun r : Esc × Ctx × Bool => EW r.1) (escapeTemplateBody env f e c tname t)

theorem nodeA_succ {env f} (hb : BranchA env f) (ht : TreeA env f) : NodeA env (f + 1) := by
  intro tn e c n he hn
  cases n with
  | action id p => simp only [escapeNode]; simp only [nodeWF] at hn; exact escapeAction_P env tn e c id p he hn
  | text id b => simp only [escapeNode]; exact escapeTextNode_P env tn e c id b he
  | ifN id p t el => simp only [escapeNode]; simp only [nodeWF] at hn; exact hb _ _ _ _ _ _ he hn.1 hn.2
  | withN id p t el => simp only [escapeNode]; simp only [nodeWF] at hn; exact hb _ _ _ _ _ _ he hn.1 hn.2
  | rangeN id p t el => simp only [escapeNode]; simp only [nodeWF] at hn; exact hb _ _ _ _ _ _ he hn.1 hn.2
  | tmpl id name p =>
    simp only [escapeNode]
    apply OutP.bind (ht e c name he)
    intro r hr
    split
    · apply OutP.bind (editTmpl_P r.1 _ _ hr)
      intro e' h'; exact h'
    · exact hr
  | brk id => simp only [escapeNode]; exact he
  | cont id => simp only [escapeNode]; exact he
  | comment id => simp only [escapeNode]; exact he

theorem listA_succ {env f} (hn : NodeA env f) (hl : ListA env f) : ListA env (f + 1) := by
  intro tn e c l he hw
  cases l with
  | nil => simp only [escapeList]; exact he
  | cons n ns =>
    simp only [escapeList]
    simp only [listWF] at hw
    apply OutP.bind (hn tn e c n he hw.1)
    intro r hr
    exact hl tn r.1 r.2 ns hr hw.2

theorem branchA_succ {env f} (hl : ListA env f) : BranchA env (f + 1) := by
  intro tn e c t el b he ht hel
  simp only [escapeBranch]
  apply OutP.bind (hl tn e c t he ht)
  intro r hr
  apply OutP.bind (Q := fun _ => True)
  · split
    · apply OutP.bind (hl tn { output := r.1.output, pristine := r.1.pristine, memoPrefix := r.1.memoPrefix } r.2 t
        ⟨(by intro p h; cases h), hr.2⟩ ht)
      intro _ _; trivial
    · trivial
  · intro j _
    split
    · split
      · exact hr
      · apply OutP.bind (hl tn r.1 c el hr hel)
        intro r2 hr2; exact hr2
    · apply OutP.bind (hl tn r.1 c el hr hel)
      intro r2 hr2; exact hr2


theorem bodyA_succ {env f} (hl : ListA env f) : BodyA env (f + 1) := by
  intro e c tname t he ht
  simp only [escapeTemplateBody]
  split
  · show msgNilTree ≠ msgArgs; decide
  · rename_i tr
    apply OutP.bind (hl tname { output := aset e.output tname c, pristine := e.pristine, memoPrefix := e.memoPrefix }
      c tr.root ⟨(by intro p h; cases h), he.2⟩ (ht tr rfl))
    intro r hr
    split
    · apply OutP.bind (mergeEdits_P _ _)
      intro _ _
      apply OutP.bind (mergeEdits_P _ _)
      intro _ _
      apply OutP.bind (mergeEdits_P _ _)
      intro _ _
      refine ⟨?_, he.2⟩
      intro p hp
      rcases mem_foldl_aset _ _ p hp with h1 | h1
      · exact he.1 p h1
      · exact hr.1 p h1
    · exact he

theorem outA_succ {env f} (hb : BodyA env f) : OutA env (f + 1) := by
  intro e c tname t he ht
  simp only [computeOutCtx]
  apply OutP.bind (hb e c tname t he ht)
  intro r hr
  split
  · exact hr
  · apply OutP.bind (hb r.1 r.2.1 tname t hr ht)
    intro r2 hr2
    split
    · exact hr2
    · split
      · exact hr2
      · exact hr2

theorem template_wf {env : Env} (htw : TW env.text) {e : Esc} (he : EW e) {n : String} {tr : Tree}
    (h : Esc.template env e n = some (some tr)) : listWF tr.root := by
  unfold Esc.template at h
  split at h
  · rename_i t hl
    cases h
    exact htw n tr hl
  · cases hd : alookup e.derived n with
    | none => rw [hd] at h; cases h
    | some d =>
      rw [hd] at h
      simp only [Option.map_some, Option.some.injEq] at h
      subst h
      exact he.1 _ (mem_of_alookup _ _ _ hd)

theorem treeA_succ {env f} (htw : TW env.text) (ho : OutA env f) : TreeA env (f + 1) := by
  intro e c name he
  simp only [escapeTree]
  split
  · exact he
  · split
    · exact he
    · split
      · exact he
      · exact he
      · rename_i tr htmpl
        have hwf : listWF tr.root := template_wf htw (e := _) he htmpl
        split
        · split
          · rename_i dt hdt
            apply OutP.bind (ho _ c _ dt (by exact he) (by
              intro tr2 h2; subst h2
              exact template_wf htw (e := _) he hdt))
            intro r hr; exact hr
          · have hsrc : listWF ((alookup e.pristine name).getD tr).root := by
              cases hp : alookup e.pristine name with
              | none => exact hwf
              | some t2 => exact he.2 _ (mem_of_alookup _ _ _ hp)
            apply OutP.bind (ho _ c _ _ (by
              refine ⟨?_, he.2⟩
              intro p hp
              rcases mem_aset _ _ _ p hp with h1 | h1
              · exact he.1 p h1
              · rw [h1]; exact hsrc) (by
              intro tr2 h2
              simp only [Option.some.injEq] at h2
              subst h2; exact hsrc))
            intro r hr; exact hr
        · apply OutP.bind (ho _ c _ (some tr) (by exact he) (by
            intro tr2 h2
            simp only [Option.some.injEq] at h2
            subst h2; exact hwf))
          intro r hr; exact hr

/-- under tree well-formedness the analysis never reports "command without arguments", and the derived / pristine
    trees stay well formed -/
theorem analysis_args (env : Env) (htw : TW env.text) : ∀ f,
    NodeA env f ∧ ListA env f ∧ BranchA env f ∧ TreeA env f ∧ OutA env f ∧ BodyA env f := by
  intro f
  induction f with
  | zero =>
    refine ⟨?_, ?_, ?_, ?_, ?_, ?_⟩
    · intro tn e c n _ _; simp only [escapeNode]; trivial
    · intro tn e c l _ _; simp only [escapeList]; trivial
    · intro tn e c t el b _ _ _; simp only [escapeBranch]; trivial
    · intro e c name _; simp only [escapeTree]; trivial
    · intro e c tname t _ _; simp only [computeOutCtx]; trivial
    · intro e c tname t _ _; simp only [escapeTemplateBody]; trivial
  | succ f ih =>
    obtain ⟨hn, hl, hb, ht, ho, hbd⟩ := ih
    exact ⟨nodeA_succ hb ht, listA_succ hn hl, branchA_succ hl, treeA_succ htw ho, outA_succ hbd, bodyA_succ hl⟩


/-! #### the commit -/

theorem install_tw (ds : List (String × Tree)) (ts : TextSet) (h : TW ts) (hd : ∀ p ∈ ds, listWF p.2.root) :
    TW (ds.foldl installStep ts) := by
  intro n tr hl
  rcases install_lookup ds ts n with h1 | ⟨d, hm, h1⟩
  · rw [h1] at hl; exact h n tr hl
  · rw [h1] at hl; cases hl; exact hd _ hm

theorem editStep_tw (e : Esc) (ts : TextSet) (n : String) (h : TW ts) : OutP TW (editStep e ts n) := by
  unfold editStep
  split
  · rename_i tr hl
    obtain ⟨r, h1, h2⟩ := list_apply_wf n e tr.root (h n tr hl)
    rw [h1]
    intro m tr2 hl2
    rw [lookup_set] at hl2
    split at hl2
    · cases hl2; exact h2
    · exact h m tr2 hl2
  · exact h

theorem edits_tw (e : Esc) (names : List String) : ∀ ts, TW ts → OutP TW (names.foldlM (editStep e) ts) := by
  induction names with
  | nil => intro ts h; exact h
  | cons n t ih =>
    intro ts h
    rw [List.foldlM_cons]
    exact OutP.bind (editStep_tw e ts n h) (fun ts1 h1 => ih ts1 h1)

theorem pristine_wf (text : TextSet) (derived : List (String × Tree)) (htw : TW text)
    (hd : ∀ p ∈ derived, listWF p.2.root) (l : List (String × Ctx)) : ∀ (acc : List (String × Tree)),
    (∀ p ∈ acc, listWF p.2.root) →
    ∀ p ∈ l.foldl (fun (acc : List (String × Tree)) p =>
      if (alookup acc p.1).isSome then acc
      else match text.lookup p.1 with
        | some (some t) => acc ++ [(p.1, t)]
        | some none => acc
        | none => match alookup derived p.1 with
          | some t => acc ++ [(p.1, t)]
          | none => acc) acc, listWF p.2.root := by
  induction l with
  | nil => intro acc h; exact h
  | cons q t ih =>
    intro acc h
    rw [List.foldl_cons]
    apply ih
    split
    · exact h
    · split
      · rename_i tr hl
        intro p hp
        rcases List.mem_append.mp hp with hp | hp
        · exact h p hp
        · simp only [List.mem_singleton] at hp; rw [hp]; exact htw _ tr hl
      · exact h
      · split
        · rename_i tr hl
          intro p hp
          rcases List.mem_append.mp hp with hp | hp
          · exact h p hp
          · simp only [List.mem_singleton] at hp; rw [hp]; exact hd _ (mem_of_alookup _ _ _ hl)
        · exact h

/-- the commit never reports "command without arguments" for well-formed trees, and keeps them well formed -/
theorem commit_args (text : TextSet) (e : Esc) (htw : TW text) (he : EW e) :
    OutP (fun r : TextSet × Esc => TW r.1 ∧ EW r.2) (commit text e) := by
  unfold commit
  simp only []
  split
  · show msgCommit ≠ msgArgs; decide
  · apply OutP.bind (Q := TW)
    · exact edits_tw _ _ _ (install_tw e.derived text htw he.1)
    · intro text2 h2
      refine ⟨h2, ?_, ?_⟩
      · intro p hp
        simp only [List.mem_map] at hp
        obtain ⟨q, hq, rfl⟩ := hp
        split
        · rename_i t hl; exact h2 _ t hl
        · exact he.1 q hq
      · exact pristine_wf text e.derived htw he.1 e.output e.pristine he.2


theorem OutP.ok_of {α} {Q : α → Prop} {x : Out α} {r : α} (h : OutP Q x) (he : x = .ok r) : Q r := by
  subst he; exact h
theorem OutP.panic_of {α} {Q : α → Prop} {x : Out α} {m : String} (h : OutP Q x) (he : x = .panic m) :
    m ≠ msgArgs := by
  subst he; exact h

/-- one critical section: no "command without arguments", and well-formedness is an invariant -/
theorem top_args (w : World) (ns : Nat) (name : String) (htw : TW (w.ns ns).text) (he : EW (w.ns ns).esc) :
    (∀ m, escapeTemplateTop w ns name = .inl (.panic m) → m ≠ msgArgs) ∧
    (∀ w' r, escapeTemplateTop w ns name = .inr (w', r) → TW (w'.ns ns).text ∧ EW (w'.ns ns).esc) := by
  have key : ∀ env : Env, env.text = (w.ns ns).text →
      OutP (fun r : Esc × Ctx × String => EW r.1) (escapeTree env w.fuel (w.ns ns).esc {} name) :=
    fun env henv => (analysis_args env (by rw [henv]; exact htw) w.fuel).2.2.2.1 _ _ _ he
  refine ⟨?_, ?_⟩
  · intro m h
    unfold escapeTemplateTop at h
    simp only [] at h
    split at h
    · rename_i m' hesc
      simp only [Sum.inl.injEq, Res.panic.injEq] at h
      subst h
      exact (key _ rfl).panic_of hesc
    · cases h
    · rename_i e1 c d hesc
      have hA : EW e1 := (key _ rfl).ok_of hesc
      split at h
      · cases h
      · split at h
        · rename_i m' hc
          simp only [Sum.inl.injEq, Res.panic.injEq] at h
          subst h
          exact (commit_args (w.ns ns).text e1 htw hA).panic_of hc
        · cases h
        · cases h
  · intro w' r h
    obtain ⟨env, e1, c, d, henv, hesc, hr⟩ := escapeTemplateTop_spec_env w ns name w' r h
    have hA : EW e1 := (key env henv).ok_of hesc
    rcases hr with ⟨code, _, hns⟩ | ⟨text2, e2, _, _, hc, hns⟩
    · rw [hns]; exact ⟨htw, hA⟩
    · rw [hns]; exact (commit_args (w.ns ns).text e1 htw hA).ok_of hc

/-- **C08, analysis, as far as proved.** In a name space in which every memoized name has a template (`HasT`), no
    template has a nil tree (`NoNil`) and all installed, derived and pristine trees have only commands with at least
    one argument (`TW`, `EW`) — all four are invariants of the critical sections — `escapeTemplateTop` returns a
    result (`.inr`: success or analysis error), or runs out of fuel, or reports one of the two panics NOT covered
    here: "node shared between templates", "infinite loop in escapeText". -/
theorem C08_analysis_total_partial (w : World) (ns : Nat) (name : String)
    (hT : HasT (w.ns ns).text (w.ns ns).esc) (hnn : NoNil (w.ns ns).text)
    (htw : TW (w.ns ns).text) (he : EW (w.ns ns).esc) :
    (∃ w' r, escapeTemplateTop w ns name = .inr (w', r)) ∨ escapeTemplateTop w ns name = .inl .fuel ∨
    escapeTemplateTop w ns name = .inl (.panic msgShared) ∨ escapeTemplateTop w ns name = .inl (.panic msgLoop) := by
  cases hres : escapeTemplateTop w ns name with
  | inr p => exact .inl ⟨p.1, p.2, rfl⟩
  | inl res =>
    have hshape : res = .fuel ∨ ∃ m, res = .panic m := by
      unfold escapeTemplateTop at hres
      simp only [] at hres
      split at hres
      · cases hres; exact .inr ⟨_, rfl⟩
      · cases hres; exact .inl rfl
      · split at hres
        · cases hres
        · split at hres
          · cases hres; exact .inr ⟨_, rfl⟩
          · cases hres; exact .inl rfl
          · cases hres
    rcases hshape with rfl | ⟨m, rfl⟩
    · exact .inr (.inl rfl)
    · have h1 := escapeTemplateTop_no_panic_partial w ns name m hT hnn hres
      have h2 := (top_args w ns name htw he).1 m hres
      rcases h1 with h1 | h1 | h1
      · exact absurd h1 h2
      · rw [h1]; exact .inr (.inr (.inl rfl))
      · rw [h1]; exact .inr (.inr (.inr rfl))

/-! ### Summary

(1) Handle table. `HInv w`: every handle is bound to an allocated object that is either the one registered under its
name in its set (`Reg`) or has `treeNil = true` (a shadowed / unparsed object, for which `Execute` answers
"incomplete"). `hinv_step`: every `Op` keeps it (given `InvR`); `Reachable0` = reachable from an initial world with an
EMPTY handle table (as in the harness; `Reachable0.reachable`), `hinv_reachable`.
  * **`C05_failed_sticky_reachable`**: in a `Reachable0` world a failed object keeps `status = .failed code` under every
    operation except `t.New(name)` on the name registered for it (exclusion (ii) of `ApiFrames` is gone:
    `fk_critExecute_h`).
  * `executeTemplate_panic_origin`: the branch "template escaping out of sync" of `apiExecuteTemplate` is dead code in
    EVERY world (its guard `textTreeNil = false` already implies that the text set has the name); a panic result of
    `ExecuteTemplate` comes from the analysis or from `textExecute`. **`executeTemplate_never_out_of_sync`** (under
    `HasT`, `NoNil`, which make the analysis' panic messages known). The second half of the requested invariant
    ("`text.lookup name` is some for every registered name with a tree") was therefore not needed.
(3) "index out of range: command without arguments". `PipeOK`, `nodeWF`/`listWF` (every command of every action has
≥ 1 argument), `TW text`, `EW e` (installed / derived and pristine trees well formed). `predefinedCheck_some`, `epc_ok`,
`list_apply_wf`; `analysis_args` (six functions: no such panic, `EW` kept), `commit_args`, **`top_args`**
(no such panic from `escapeTemplateTop`; `TW`/`EW` are invariants of the critical section).
**`C08_analysis_total_partial`**: under `HasT`, `NoNil`, `TW`, `EW`, `escapeTemplateTop` returns `.inr _`, or `.inl .fuel`,
or one of the two panics not covered: "node shared between templates", "infinite loop in escapeText".

Hypotheses that remain: `HasT`/`NoNil` (invariants, `ConcApi.top_keeps_hasT_noNil`; `NoNil` can be broken by `Clone` of an
unparsed associated template), `TW`/`EW` (invariants of the critical sections, `top_args`; that `Parse`/`Clone` keep them
when the parsed trees are well formed is NOT proved here).

NOT done: (2) "node shared between templates" — no panic candidate found: within one body every `(tn, id)` is edited once
iff node ids are distinct in the tree; `mergeEdits` joins the outer edits (key names memoized before the body started,
never `tname`) with the scratch edits (key names `tname` or names memoized by the body: `Frozen.NewE`, `noEd`), which are
disjoint — so the panic needs duplicate node ids, which the wire format excludes; not formalised. (4) fuel /
"infinite loop in escapeText": not addressed.
-/

end SafeHtml.Proofs.NoPanic
