/-
Generic matcher facts needed by C15 / C16:
 * `^(?:A?(?:S|$))*$`  (safeRegularPropertyValuePattern's shape) as a structural recogniser;
 * an unanchored single class (`invalidCSSSelectorRune`) = "some rune is in the class";
 * ASCII transfer lemmas from runes to bytes.
-/
import SafeHtml.Rx.Thm
namespace SafeHtml
namespace Rx

theorem alt_isSome (a b : Re) (f) (st : MSt) (s) (k : MSt → List Sym → Option α) :
    (m (.alt a b) f st s k).isSome = ((m a f st s k).isSome || (m b f st s k).isSome) := by
  rw [m_alt]; cases m a f st s k <;> simp

theorem cls_isSome_cons (rs) (f) (st : MSt) (c : Sym) (t) (k : MSt → List Sym → Option α) :
    (m (.cls rs) f st (c :: t) k).isSome = (inCls rs c.rune && (k (adv st 1) t).isSome) := by
  rw [m_cls_cons]; cases inCls rs c.rune <;> simp

theorem cls_isSome_nil (rs) (f) (st : MSt) (k : MSt → List Sym → Option α) :
    (m (.cls rs) f st [] k).isSome = false := by
  rw [m_cls_nil]; rfl

theorem eot_isSome (f) (st : MSt) (s) (k : MSt → List Sym → Option α) :
    (m .eot f st s k).isSome = (s.isEmpty && (k st s).isSome) := by
  rw [m_eot]; cases s <;> simp

theorem starLoop_greedy_isSome (body : MSt → List Sym → (MSt → List Sym → Option α) → Option α)
    (f) (st : MSt) (s) (k : MSt → List Sym → Option α) :
    (starLoop body true (f+1) st s k).isSome =
      ((body st s (fun st' s' => if s'.length < s.length then starLoop body true f st' s' k else none)).isSome ||
        (k st s).isSome) := by
  simp only [starLoop, if_true]
  cases body st s _ <;> simp

/-- recogniser of `(?:A?(?:S|$))*$` on decoded symbols, for arbitrary classes `A`, `S` -/
def regOKs (A S : List (Nat × Nat)) : List Sym → Bool
  | [] => true
  | c :: t =>
    (inCls A c.rune && (match t with
      | [] => true
      | d :: t' => inCls S d.rune && regOKs A S t')) ||
    (inCls S c.rune && regOKs A S t)

def kE : MSt → List Sym → Option Match := fun st s => if s.isEmpty then K0 st s else none

def bodyF (A S : List (Nat × Nat)) (f0 : Nat) :
    MSt → List Sym → (MSt → List Sym → Option Match) → Option Match :=
  fun st s k => m (.cat (Re.quest (.cls A) true) (.alt (.cls S) .eot)) f0 st s k

theorem bodyF_isSome (A S f0) (st : MSt) (s) (k : MSt → List Sym → Option Match) :
    (bodyF A S f0 st s k).isSome =
      ((m (.cls A) f0 st s (fun st1 s1 => m (.alt (.cls S) .eot) f0 st1 s1 k)).isSome ||
       (m (.alt (.cls S) .eot) f0 st s k).isSome) := by
  unfold bodyF
  rw [m_cat]
  simp only [Re.quest, if_true]
  rw [alt_isSome, m_eps]

theorem starX_nil (A S) (f0 f : Nat) (st : MSt) (hf : 0 < f) :
    (starLoop (bodyF A S f0) true f st [] kE).isSome = true := by
  cases f with
  | zero => omega
  | succ f =>
    rw [starLoop_greedy_isSome]
    simp [kE, K0]

theorem starX (A S) (f0 : Nat) : ∀ (n : Nat) (s : List Sym) (st : MSt) (f : Nat), s.length ≤ n → s.length < f →
    (starLoop (bodyF A S f0) true f st s kE).isSome = regOKs A S s := by
  intro n
  induction n with
  | zero =>
    intro s st f hn hf
    have : s = [] := by cases s <;> simp_all
    subst this
    rw [starX_nil A S f0 f st hf]; rfl
  | succ n ih =>
    intro s st f hn hf
    cases s with
    | nil => rw [starX_nil A S f0 f st hf]; rfl
    | cons c t =>
      cases f with
      | zero => omega
      | succ f =>
        have hlt : t.length < f := by simp at hf; omega
        have hln : t.length ≤ n := by simp at hn; omega
        rw [starLoop_greedy_isSome, bodyF_isSome]
        have hk : (kE st (c :: t)).isSome = false := by simp [kE]
        rw [hk, Bool.or_false, cls_isSome_cons, alt_isSome, alt_isSome, cls_isSome_cons, eot_isSome, eot_isSome]
        simp only [List.isEmpty_cons, Bool.false_and, Bool.or_false, List.length_cons, Nat.lt_succ_self, if_true]
        rw [ih t (adv st 1) f hln hlt]
        cases t with
        | nil =>
          rw [cls_isSome_nil]
          have h0 := starX_nil A S f0 f (adv st 1) (by omega)
          simp [regOKs, h0]
        | cons d t' =>
          rw [cls_isSome_cons]
          have h1 : t'.length < t'.length + 1 + 1 := by omega
          simp only [List.isEmpty_cons, Bool.false_and, Bool.or_false, List.length_cons, h1, if_true]
          rw [ih t' _ f (by simp at hln; omega) (by simp at hlt; omega)]
          simp [regOKs]

/-- `^(?:A?(?:S|$))*$` -/
theorem match_regular_shape (A S : List (Nat × Nat)) (s : Bytes) :
    matchString (.cat .bot (.cat (.star (.cat (Re.quest (.cls A) true) (.alt (.cls S) .eot)) true) .eot)) s =
      regOKs A S (Utf8.decodeSyms s) := by
  unfold matchString
  rw [find_bot]
  generalize Utf8.decodeSyms s = syms
  rw [m_cat, m_star]
  have := starX A S (syms.length + 1) syms.length syms ⟨0, []⟩ (syms.length + 1) (Nat.le_refl _) (by omega)
  rw [← this]
  congr 1

/-- an unanchored single class matches iff some rune is in it -/
theorem findFrom_cls (rs : List (Nat × Nat)) (f : Nat) : ∀ (s : List Sym) (i : Nat),
    (findFrom (.cls rs) f i s).isSome = s.any (fun x => inCls rs x.rune) := by
  intro s
  induction s with
  | nil => intro i; simp [findFrom, m]
  | cons c t ih =>
    intro i
    simp only [findFrom, m_cls_cons, List.any_cons]
    by_cases h : inCls rs c.rune = true
    · simp [h]
    · simp only [h]
      simpa using ih (i+1)

theorem findSubmatch_cls_isSome (rs : List (Nat × Nat)) (n : Nat) (s : Bytes) :
    (findSubmatch (.cls rs) n s).isSome = (Utf8.decodeSyms s).any (fun x => inCls rs x.rune) := by
  unfold findSubmatch find
  simp only []
  rw [← findFrom_cls rs ((Utf8.decodeSyms s).length + 1) (Utf8.decodeSyms s) 0]
  cases findFrom (.cls rs) ((Utf8.decodeSyms s).length + 1) 0 (Utf8.decodeSyms s) <;> rfl

end Rx

namespace Utf8

theorem decode1_le_max (b : Nat) (t : Bytes) : (decode1 b t).1 ≤ 1114111 := by
  unfold decode1
  repeat' split
  all_goals (try simp [runeError])
  all_goals (repeat' split)
  all_goals (first | omega | (simp [runeError]; done) | (simp [isCont] at *; omega))

/-- Go never decodes a rune above U+10FFFF -/
theorem decodeSyms_rune_le (s : Bytes) : ∀ x ∈ decodeSyms s, x.rune ≤ 1114111 := by
  induction s using decode_induction with
  | hnil => simp [decodeSyms_nil]
  | hcons b t ih =>
    rw [decodeSyms_cons]
    intro x hx
    simp only [List.mem_cons] at hx
    rcases hx with rfl | hx
    · exact decode1_le_max b t
    · exact ih x hx

/-- if every decoded rune is ASCII then the runes are the bytes -/
theorem runes_eq_of_all_ascii (s : Bytes) (h : (decodeSyms s).all (fun x => decide (x.rune < 128)) = true) :
    decodeRunes s = s := by
  induction s using decode_induction with
  | hnil => simp [decodeRunes, decodeSyms_nil]
  | hcons b t ih =>
    by_cases hb : b < 128
    · rw [decodeSyms_cons_ascii b t hb] at h
      rw [decode1_ascii b t hb] at ih
      simp only [List.drop_succ_cons, List.drop_zero] at ih
      simp only [List.all_cons, Bool.and_eq_true] at h
      simp only [decodeRunes] at ih ⊢
      rw [decodeSyms_cons_ascii b t hb]
      simp [ih h.2]
    · have hr := decode1_nonascii b t (by omega)
      rw [decodeSyms_cons] at h
      simp only [List.all_cons, Bool.and_eq_true, decide_eq_true_eq] at h
      omega

end Utf8
end SafeHtml
