/-
C09 for the API model: the concurrent calls of the template API, split into critical section and unlocked phase, are
exactly `Api.step`; they satisfy the stability conditions of `Model/Conc`; hence every schedule is serializable.
(summary at the end of the file)
-/
import SafeHtml.Proofs.Frozen
namespace SafeHtml.Proofs.ConcApi
open SafeHtml SafeHtml.Model.Tmpl SafeHtml.Model.Conc SafeHtml.Proofs.Frozen

/-! ### 1. the calls -/

/-- what a call remembers after its critical section: a final result, or the object to execute (and how) -/
inductive Pend where
  | final (r : Ret)
  | exec (o : TObj) (d : Value) (html : Bool)

def finish (html : Bool) (r : Res) : Ret := if html then .html (zeroOnError r) else .exec r

/-- the unlocked phase: `t.text.Execute` on the world AS IT IS when the phase runs -/
def postOf (w : World) : Pend → Ret
  | .final r => r
  | .exec o d html => finish html (textExecute w o d)

/-- the part of `t.Execute` under `nameSpace.mu`: `inl` = the call is over, `inr o` = execute `o` unlocked -/
def critExecute (w : World) (h : Nat) : World × (Res ⊕ TObj) :=
  match w.obj h with
  | none => (w, .inl .unsupported)
  | some (oid, o) =>
    let ns := w.ns o.ns
    let w := w.setNs o.ns { ns with escaped := true }
    match o.status with
    | .failed code => (w, .inl (.err (analysisCls code) []))
    | .ok => (w, .inr o)
    | .unset =>
      if o.treeNil then (w, .inl (.err "incomplete" []))
      else
        match escapeTemplateTop w o.ns o.name with
        | .inl r => (w, .inl r)
        | .inr (w', some code) => (w', .inl (.err (analysisCls code) []))
        | .inr (w', none) =>
          match nlookup w'.objs oid with
          | some o' => (w', .inr o')
          | none => (w', .inl .unsupported)

/-- the part of `t.ExecuteTemplate(name)` under `nameSpace.mu` -/
def critExecuteTemplate (w : World) (h : Nat) (name : String) : World × (Res ⊕ TObj) :=
  match w.obj h with
  | none => (w, .inl .unsupported)
  | some (_, o) =>
    let ns := w.ns o.ns
    let ns := { ns with escaped := true }
    let w := w.setNs o.ns ns
    match alookup ns.set name with
    | none => (w, .inl (.err "undefined" []))
    | some tid =>
      match nlookup w.objs tid with
      | none => (w, .inl .unsupported)
      | some t =>
        match t.status with
        | .failed code => (w, .inl (.err (analysisCls code) []))
        | st =>
          let textTreeNil := if t.registered then
              (match ns.text.lookup name with | some (some _) => false | _ => true) else true
          if textTreeNil then (w, .inl (.err "incomplete" []))
          else if (ns.text.lookup name).isNone then (w, .inl (.panic "template escaping out of sync"))
          else if st == .unset then
            match escapeTemplateTop w o.ns name with
            | .inl r => (w, .inl r)
            | .inr (w', some code) => (w', .inl (.err (analysisCls code) []))
            | .inr (w', none) =>
              match nlookup w'.objs tid with
              | some t' => (w', .inr t')
              | none => (w', .inl .unsupported)
          else (w, .inr t)

def toPend (d : Value) (html : Bool) : Res ⊕ TObj → Pend
  | .inl r => .final (finish html r)
  | .inr o => .exec o d html

/-- `t.Execute` / `t.ExecuteToHTML` -/
def execCall (h : Nat) (d : Value) (html : Bool) : Call World Pend Ret where
  crit := fun w => ((critExecute w h).1, toPend d html (critExecute w h).2)
  post := postOf

/-- `t.ExecuteTemplate` / `t.ExecuteTemplateToHTML` -/
def execTemplateCall (h : Nat) (name : String) (d : Value) (html : Bool) : Call World Pend Ret where
  crit := fun w => ((critExecuteTemplate w h name).1, toPend d html (critExecuteTemplate w h name).2)
  post := postOf

/-- `t.Lookup(name)` (the harness binds the result to handle `h'`; name spaces and objects are only read) -/
def lookupCall (h : Nat) (name : String) (h' : Nat) : Call World Pend Ret where
  crit := fun w => ((apiLookup w h name h').1, .final (.done (apiLookup w h name h').2))
  post := postOf

/-- `t.Templates()` -/
def templatesCall (h : Nat) : Call World Pend Ret where
  crit := fun w => (w, .final (.done (apiTemplates w h)))
  post := postOf

/-- the concurrent API of the model (`Name` and `DefinedTemplates` are not operations of `Api.step`) -/
def callOf : Op → Option (Call World Pend Ret)
  | .exec h d => some (execCall h d false)
  | .execHTML h d => some (execCall h d true)
  | .execT h n d => some (execTemplateCall h n d false)
  | .execTHTML h n d => some (execTemplateCall h n d true)
  | .lookup h n h' => some (lookupCall h n h')
  | .templates h => some (templatesCall h)
  | _ => none

def U (c : Call World Pend Ret) : Prop := ∃ op, callOf op = some c

/-- running a call completely at one moment -/
def runCall (c : Call World Pend Ret) (w : World) : World × Ret := ((c.crit w).1, c.post (c.crit w).1 (c.crit w).2)

/-! ### 2. refinement: the split calls are the model's API functions -/

theorem apiExecute_split (w : World) (h : Nat) (d : Value) :
    apiExecute w h d = ((critExecute w h).1,
      match (critExecute w h).2 with
      | .inl r => r
      | .inr o => textExecute (critExecute w h).1 o d) := by
  unfold apiExecute critExecute
  cases hobj : w.obj h with
  | none => rfl
  | some p =>
    obtain ⟨oid, o⟩ := p
    simp only []
    cases hs : o.status with
    | failed code => rfl
    | ok => rfl
    | unset =>
      simp only []
      cases ht : o.treeNil with
      | true => rfl
      | false =>
        simp only [Bool.false_eq_true, if_false]
        cases he : escapeTemplateTop (w.setNs o.ns { w.ns o.ns with escaped := true }) o.ns o.name with
        | inl r => rfl
        | inr q =>
          obtain ⟨w', oc⟩ := q
          cases oc with
          | some code => rfl
          | none =>
            simp only []
            cases nlookup w'.objs oid <;> rfl

theorem apiExecuteTemplate_split (w : World) (h : Nat) (name : String) (d : Value) :
    apiExecuteTemplate w h name d = ((critExecuteTemplate w h name).1,
      match (critExecuteTemplate w h name).2 with
      | .inl r => r
      | .inr o => textExecute (critExecuteTemplate w h name).1 o d) := by
  unfold apiExecuteTemplate critExecuteTemplate
  cases hobj : w.obj h with
  | none => rfl
  | some p =>
    obtain ⟨oid, o⟩ := p
    simp only []
    cases hl : alookup (w.ns o.ns).set name with
    | none => rfl
    | some tid =>
      simp only []
      cases hn : nlookup (w.setNs o.ns { w.ns o.ns with escaped := true }).objs tid with
      | none => rfl
      | some t =>
        simp only []
        have tail : ∀ (st : Status), st ≠ .unset ∨ st = .unset →
            (if (if t.registered = true then
                  (match (w.ns o.ns).text.lookup name with | some (some _) => false | _ => true) else true) = true then
              ((w.setNs o.ns { w.ns o.ns with escaped := true }), Res.err "incomplete" [])
            else if ((w.ns o.ns).text.lookup name).isNone = true then
              ((w.setNs o.ns { w.ns o.ns with escaped := true }), Res.panic "template escaping out of sync")
            else if (st == Status.unset) = true then
              (match escapeTemplateTop (w.setNs o.ns { w.ns o.ns with escaped := true }) o.ns name with
               | .inl r => ((w.setNs o.ns { w.ns o.ns with escaped := true }), r)
               | .inr (w', some code) => (w', Res.err (analysisCls code) [])
               | .inr (w', none) =>
                 match nlookup w'.objs tid with
                 | some t' => (w', textExecute w' t' d)
                 | none => (w', Res.unsupported))
            else ((w.setNs o.ns { w.ns o.ns with escaped := true }),
                  textExecute (w.setNs o.ns { w.ns o.ns with escaped := true }) t d)) =
            (let p : World × (Res ⊕ TObj) :=
              (if (if t.registered = true then
                    (match (w.ns o.ns).text.lookup name with | some (some _) => false | _ => true) else true) = true then
                ((w.setNs o.ns { w.ns o.ns with escaped := true }), Sum.inl (Res.err "incomplete" []))
              else if ((w.ns o.ns).text.lookup name).isNone = true then
                ((w.setNs o.ns { w.ns o.ns with escaped := true }), Sum.inl (Res.panic "template escaping out of sync"))
              else if (st == Status.unset) = true then
                (match escapeTemplateTop (w.setNs o.ns { w.ns o.ns with escaped := true }) o.ns name with
                 | .inl r => ((w.setNs o.ns { w.ns o.ns with escaped := true }), Sum.inl r)
                 | .inr (w', some code) => (w', Sum.inl (Res.err (analysisCls code) []))
                 | .inr (w', none) =>
                   match nlookup w'.objs tid with
                   | some t' => (w', Sum.inr t')
                   | none => (w', Sum.inl Res.unsupported))
              else ((w.setNs o.ns { w.ns o.ns with escaped := true }), Sum.inr t));
             (p.1, match p.2 with | .inl r => r | .inr o' => textExecute p.1 o' d)) := by
          intro st _
          generalize (if t.registered = true then
              (match (w.ns o.ns).text.lookup name with | some (some _) => false | _ => true) else true) = b1
          generalize ((w.ns o.ns).text.lookup name).isNone = b2
          generalize (st == Status.unset) = b3
          cases b1
          · cases b2
            · cases b3
              · rfl
              · simp only [Bool.false_eq_true, if_false, if_true]
                cases he : escapeTemplateTop (w.setNs o.ns { w.ns o.ns with escaped := true }) o.ns name with
                | inl r => rfl
                | inr q =>
                  obtain ⟨w', oc⟩ := q
                  cases oc with
                  | some code => rfl
                  | none =>
                    simp only []
                    cases nlookup w'.objs tid <;> rfl
            · rfl
          · rfl
        cases hs : t.status with
        | failed code => rfl
        | ok => exact tail .ok (.inl (by decide))
        | unset => exact tail .unset (.inr rfl)


/-- **Refinement.** Running the critical section and then, at the same moment, the unlocked phase of a call is
    exactly the step function of the API model that the correspondence check compares with the real package. -/
theorem step_eq_runCall (w : World) (op : Op) (c : Call World Pend Ret) (hc : callOf op = some c) :
    Api.step w op = runCall c w := by
  cases op with
  | new hh n => simp [callOf] at hc
  | assocNew hh n h' => simp [callOf] at hc
  | parse hh defs => simp [callOf] at hc
  | clone hh h' => simp [callOf] at hc
  | csp hh => simp [callOf] at hc
  | lookup hh n h' =>
    simp only [callOf, Option.some.injEq] at hc; subst hc; rfl
  | templates hh =>
    simp only [callOf, Option.some.injEq] at hc; subst hc; rfl
  | exec hh d =>
    simp only [callOf, Option.some.injEq] at hc; subst hc
    simp only [Api.step, runCall, execCall, apiExecute_split w hh d]
    cases (critExecute w hh).2 <;> rfl
  | execT hh n d =>
    simp only [callOf, Option.some.injEq] at hc; subst hc
    simp only [Api.step, runCall, execTemplateCall, apiExecuteTemplate_split w hh n d]
    cases (critExecuteTemplate w hh n).2 <;> rfl
  | execHTML hh d =>
    simp only [callOf, Option.some.injEq] at hc; subst hc
    simp only [Api.step, runCall, execCall, apiExecute_split w hh d]
    cases (critExecute w hh).2 <;> rfl
  | execTHTML hh n d =>
    simp only [callOf, Option.some.injEq] at hc; subst hc
    simp only [Api.step, runCall, execTemplateCall, apiExecuteTemplate_split w hh n d]
    cases (critExecuteTemplate w hh n).2 <;> rfl


/-! ### 3. objects and sets under one analysis -/

theorem obj_lookup (w : World) (h oid : Nat) (o : TObj) (ho : w.obj h = some (oid, o)) :
    nlookup w.objs oid = some o := by
  unfold World.obj at ho
  cases h1 : nlookup w.handles h with
  | none => simp [h1] at ho
  | some id =>
    cases h2 : nlookup w.objs id with
    | none => simp [h1, h2] at ho
    | some o2 =>
      simp [h1, h2] at ho
      obtain ⟨rfl, rfl⟩ := ho
      exact h2

theorem top_form (w w' : World) (ns : Nat) (name : String) (r : Option ErrCode)
    (h : escapeTemplateTop w ns name = .inr (w', r)) :
    (∃ e code, r = some code ∧ w' = markFailed w ns name e code) ∨
    (∃ t e, r = none ∧ w' = markOk w ns name t e) := by
  unfold escapeTemplateTop at h
  simp only [] at h
  split at h
  · cases h
  · cases h
  · split at h
    · simp only [Sum.inr.injEq, Prod.mk.injEq] at h
      exact .inl ⟨_, _, h.2.symm, h.1.symm⟩
    · split at h
      · cases h
      · cases h
      · simp only [Sum.inr.injEq, Prod.mk.injEq] at h
        exact .inr ⟨_, _, h.2.symm, h.1.symm⟩

/-- an object of the new world is an object of the old one, possibly with new `status` / `treeNil` -/
def SameObj (o o' : TObj) : Prop := o'.ns = o.ns ∧ o'.name = o.name ∧ o'.registered = o.registered

theorem markFailed_objs (w : World) (n : Nat) (name : String) (e : Esc) (c : ErrCode) (id : Nat) (o' : TObj)
    (h : nlookup (markFailed w n name e c).objs id = some o') :
    nlookup w.objs id = some o' ∨ (∃ o, nlookup w.objs id = some o ∧ SameObj o o' ∧ o'.status = .failed c) := by
  unfold markFailed at h
  simp only [] at h
  split at h
  · rename_i oid _
    split at h
    · rename_i o ho
      simp only [World.setObj, World.setNs] at h ho
      by_cases hid : id = oid
      · subst hid
        rw [nlookup_nset_same] at h
        cases h
        exact .inr ⟨o, ho, ⟨rfl, rfl, rfl⟩, rfl⟩
      · rw [nlookup_nset_other _ _ _ _ hid] at h
        exact .inl h
    · exact .inl h
  · exact .inl h

theorem markOk_objs (w : World) (n : Nat) (name : String) (t : TextSet) (e : Esc) (id : Nat) (o' : TObj)
    (h : nlookup (markOk w n name t e).objs id = some o') :
    nlookup w.objs id = some o' ∨
    (∃ o, alookup (w.ns n).set name = some id ∧ nlookup w.objs id = some o ∧ SameObj o o') := by
  unfold markOk at h
  simp only [] at h
  split at h
  · rename_i oid hset
    split at h
    · rename_i o ho
      simp only [World.setObj, World.setNs] at h ho
      by_cases hid : id = oid
      · subst hid
        rw [nlookup_nset_same] at h
        cases h
        exact .inr ⟨o, hset, ho, ⟨rfl, rfl, rfl⟩⟩
      · rw [nlookup_nset_other _ _ _ _ hid] at h
        exact .inl h
    · exact .inl h
  · exact .inl h

theorem markOk_status (w : World) (n : Nat) (name : String) (t : TextSet) (e : Esc) (id : Nat) (o' : TObj)
    (h : nlookup (markOk w n name t e).objs id = some o') (hne : nlookup w.objs id ≠ some o') :
    alookup (w.ns n).set name = some id := by
  rcases markOk_objs w n name t e id o' h with h1 | ⟨_, h1, _⟩
  · exact absurd h1 hne
  · exact h1

theorem markFailed_set (w : World) (n : Nat) (name : String) (e : Esc) (c : ErrCode) (k : Nat) :
    ((markFailed w n name e c).ns k).set = (w.ns k).set := by
  by_cases hk : k = n
  · subst hk; rw [markFailed_ns]
  · rw [markFailed_ns_other _ _ _ _ _ k hk]

theorem markOk_set (w : World) (n : Nat) (name : String) (t : TextSet) (e : Esc) (k : Nat) :
    ((markOk w n name t e).ns k).set = (w.ns k).set := by
  by_cases hk : k = n
  · subst hk; rw [markOk_ns]
  · rw [markOk_ns_other _ _ _ _ _ k hk]

/-- what one analysis does to objects and sets -/
theorem top_objs (w w' : World) (ns : Nat) (name : String) (r : Option ErrCode)
    (h : escapeTemplateTop w ns name = .inr (w', r)) :
    (∀ k, (w'.ns k).set = (w.ns k).set) ∧
    (∀ id o', nlookup w'.objs id = some o' →
      (nlookup w.objs id = some o' ∨
       (∃ o, nlookup w.objs id = some o ∧ SameObj o o' ∧
          (o'.status = .ok → r = none ∧ alookup (w.ns ns).set name = some id)))) := by
  rcases top_form w w' ns name r h with ⟨e, code, rfl, rfl⟩ | ⟨t, e, rfl, rfl⟩
  · refine ⟨markFailed_set w ns name e code, fun id o' ho' => ?_⟩
    rcases markFailed_objs w ns name e code id o' ho' with h1 | ⟨o, h1, h2, h3⟩
    · exact .inl h1
    · exact .inr ⟨o, h1, h2, fun hok => by rw [h3] at hok; cases hok⟩
  · refine ⟨markOk_set w ns name t e, fun id o' ho' => ?_⟩
    rcases markOk_objs w ns name t e id o' ho' with h1 | ⟨o, h1, h2, h3⟩
    · exact .inl h1
    · exact .inr ⟨o, h2, h3, fun _ => ⟨rfl, h1⟩⟩


/-! ### 4. the invariant of the shared state -/

/-- the object registered under `name` in set `ns` belongs to that set and has that name -/
def SetWF (w : World) : Prop :=
  ∀ ns name oid o, alookup (w.ns ns).set name = some oid → nlookup w.objs oid = some o → o.ns = ns ∧ o.name = name

/-- every object whose analysis succeeded is settled: its reachable names are frozen and call-closed -/
def OkSettled (w : World) : Prop :=
  ∀ id o, nlookup w.objs id = some o → o.status = .ok → ∃ F, Settled F w o

def Inv (w : World) : Prop := (∀ k, GoodNs (w.ns k)) ∧ SetWF w ∧ OkSettled w

theorem settled_sameObj {F : String → Prop} {w : World} {o o' : TObj} (h : SameObj o o') (hs : Settled F w o) :
    Settled F w o' := by
  unfold Settled at hs ⊢
  rw [h.1, h.2.1]; exact hs

theorem textExecute_sameObj (w : World) (o o' : TObj) (h : SameObj o o') (d : Value) :
    textExecute w o' d = textExecute w o d := by
  unfold textExecute
  rw [h.1, h.2.1, h.2.2]

theorem inv_setEscaped (w : World) (k : Nat) (hi : Inv w) : Inv (w.setNs k { w.ns k with escaped := true }) := by
  obtain ⟨hg, hw, hok⟩ := hi
  have hns : ∀ j, ((w.setNs k { w.ns k with escaped := true }).ns j).text = (w.ns j).text ∧
      ((w.setNs k { w.ns k with escaped := true }).ns j).esc = (w.ns j).esc ∧
      ((w.setNs k { w.ns k with escaped := true }).ns j).set = (w.ns j).set := by
    intro j
    by_cases hj : j = k
    · subst hj; rw [ns_setNs_same]; exact ⟨rfl, rfl, rfl⟩
    · rw [ns_setNs_other _ _ _ _ hj]; exact ⟨rfl, rfl, rfl⟩
  refine ⟨?_, ?_, ?_⟩
  · intro j
    unfold GoodNs
    rw [(hns j).1, (hns j).2.1]
    exact hg j
  · intro ns name oid o h1 h2
    rw [(hns ns).2.2] at h1
    exact hw ns name oid o h1 h2
  · intro id o h1 h2
    obtain ⟨F, hF⟩ := hok id o h1 h2
    exact ⟨F, (settled_setEscaped F w k o hF).1⟩

theorem inv_top (w w' : World) (ns : Nat) (name : String) (r : Option ErrCode) (hi : Inv w)
    (h : escapeTemplateTop w ns name = .inr (w', r)) : Inv w' := by
  obtain ⟨hg, hw, hok⟩ := hi
  obtain ⟨hset, hobjs⟩ := top_objs w w' ns name r h
  obtain ⟨_, _, _, _, _, _, hoth, _⟩ := escapeTemplateTop_spec w ns name w' r h
  refine ⟨?_, ?_, ?_⟩
  · intro k
    by_cases hk : k = ns
    · subst hk; exact (good_top w w' k name r (hg k) h).1
    · rw [hoth k hk]; exact hg k
  · intro k nm oid o' h1 h2
    rw [hset k] at h1
    rcases hobjs oid o' h2 with h3 | ⟨o, h3, hs, _⟩
    · exact hw k nm oid o' h1 h3
    · obtain ⟨a, b⟩ := hw k nm oid o h1 h3
      exact ⟨hs.1 ▸ a, hs.2.1 ▸ b⟩
  · intro id o' h1 h2
    rcases hobjs id o' h1 with h3 | ⟨o, h3, hs, hst⟩
    · obtain ⟨F, hF⟩ := hok id o' h3 h2
      exact ⟨F, (frozen_step_any F w w' ns name r o' hF h).1⟩
    · obtain ⟨rfl, hset'⟩ := hst h2
      obtain ⟨a, b⟩ := hw ns name id o hset' h3
      have hons : o'.ns = ns := hs.1.trans a
      have hname : o'.name = name := hs.2.1.trans b
      exact ⟨_, settled_after_own_analysis w w' ns (hg ns) o' hons (by rw [hname]; exact h)⟩

/-- the object an `Execute*` call will run after a successful analysis of `(ns, name)` is settled, provided it has
    that name space and name -/
theorem settled_new (w w' : World) (ns : Nat) (name : String) (hi : Inv w)
    (h : escapeTemplateTop w ns name = .inr (w', none)) (o' : TObj) (hons : o'.ns = ns) (hname : o'.name = name) :
    ∃ F, Settled F w' o' :=
  ⟨_, settled_after_own_analysis w w' ns (hi.1 ns) o' hons (by rw [hname]; exact h)⟩


/-! ### 5. the critical sections -/

theorem critExecute_spec (w : World) (h : Nat) (hi : Inv w) :
    Inv (critExecute w h).1 ∧ ∀ o, (critExecute w h).2 = .inr o → ∃ F, Settled F (critExecute w h).1 o := by
  unfold critExecute
  cases hobj : w.obj h with
  | none => exact ⟨hi, fun o ho => nomatch ho⟩
  | some p =>
    obtain ⟨oid, o⟩ := p
    have hlk := obj_lookup w h oid o hobj
    have hi1 := inv_setEscaped w o.ns hi
    simp only []
    cases hs : o.status with
    | failed code => exact ⟨hi1, fun o' ho' => nomatch ho'⟩
    | ok =>
      refine ⟨hi1, fun o' ho' => ?_⟩
      simp only [Sum.inr.injEq] at ho'
      subst ho'
      obtain ⟨F, hF⟩ := hi.2.2 oid o hlk hs
      exact ⟨F, (settled_setEscaped F w o.ns o hF).1⟩
    | unset =>
      simp only []
      cases ht : o.treeNil with
      | true => exact ⟨hi1, fun o' ho' => nomatch ho'⟩
      | false =>
        simp only [Bool.false_eq_true, if_false]
        cases he : escapeTemplateTop (w.setNs o.ns { w.ns o.ns with escaped := true }) o.ns o.name with
        | inl r => exact ⟨hi1, fun o' ho' => nomatch ho'⟩
        | inr q =>
          obtain ⟨w', oc⟩ := q
          have hi2 := inv_top _ w' o.ns o.name oc hi1 he
          cases oc with
          | some code => exact ⟨hi2, fun o' ho' => nomatch ho'⟩
          | none =>
            simp only []
            cases hn : nlookup w'.objs oid with
            | none => exact ⟨hi2, fun o' ho' => nomatch ho'⟩
            | some o2 =>
              refine ⟨hi2, fun o' ho' => ?_⟩
              simp only [Sum.inr.injEq] at ho'
              subst ho'
              have hso : SameObj o o2 := by
                rcases (top_objs _ w' o.ns o.name none he).2 oid o2 hn with h3 | ⟨o0, h3, hs0, _⟩
                · have : o2 = o := by
                    have h4 : nlookup w.objs oid = some o2 := h3
                    rw [hlk] at h4; cases h4; rfl
                  rw [this]; exact ⟨rfl, rfl, rfl⟩
                · have h4 : nlookup w.objs oid = some o0 := h3
                  rw [hlk] at h4; cases h4
                  exact hs0
              exact settled_new _ w' o.ns o.name hi1 he o2 hso.1 hso.2.1

theorem critExecuteTemplate_spec (w : World) (h : Nat) (name : String) (hi : Inv w) :
    Inv (critExecuteTemplate w h name).1 ∧
    ∀ o, (critExecuteTemplate w h name).2 = .inr o → ∃ F, Settled F (critExecuteTemplate w h name).1 o := by
  unfold critExecuteTemplate
  cases hobj : w.obj h with
  | none => exact ⟨hi, fun o ho => nomatch ho⟩
  | some p =>
    obtain ⟨oid, o⟩ := p
    have hi1 := inv_setEscaped w o.ns hi
    simp only []
    cases hl : alookup (w.ns o.ns).set name with
    | none => exact ⟨hi1, fun o' ho' => nomatch ho'⟩
    | some tid =>
      simp only []
      cases hn : nlookup (w.setNs o.ns { w.ns o.ns with escaped := true }).objs tid with
      | none => exact ⟨hi1, fun o' ho' => nomatch ho'⟩
      | some t =>
        simp only []
        have hn' : nlookup w.objs tid = some t := hn
        obtain ⟨htns, htname⟩ := hi.2.1 o.ns name tid t hl hn'
        cases hs : t.status with
        | failed code => exact ⟨hi1, fun o' ho' => nomatch ho'⟩
        | ok =>
          simp only []
          generalize (if t.registered = true then _ else true) = b1
          generalize ((w.ns o.ns).text.lookup name).isNone = b2
          cases b1
          · cases b2
            · simp only [show (Status.ok == Status.unset) = false from rfl, Bool.false_eq_true, if_false]
              refine ⟨hi1, fun o' ho' => ?_⟩
              simp only [Sum.inr.injEq] at ho'
              subst ho'
              obtain ⟨F, hF⟩ := hi.2.2 tid t hn' hs
              exact ⟨F, (settled_setEscaped F w o.ns t hF).1⟩
            · exact ⟨hi1, fun o' ho' => nomatch ho'⟩
          · exact ⟨hi1, fun o' ho' => nomatch ho'⟩
        | unset =>
          simp only []
          generalize (if t.registered = true then _ else true) = b1
          generalize ((w.ns o.ns).text.lookup name).isNone = b2
          cases b1
          · cases b2
            · simp only [show (Status.unset == Status.unset) = true from rfl, Bool.false_eq_true, if_false, if_true]
              cases he : escapeTemplateTop (w.setNs o.ns { w.ns o.ns with escaped := true }) o.ns name with
              | inl r => exact ⟨hi1, fun o' ho' => nomatch ho'⟩
              | inr q =>
                obtain ⟨w', oc⟩ := q
                have hi2 := inv_top _ w' o.ns name oc hi1 he
                cases oc with
                | some code => exact ⟨hi2, fun o' ho' => nomatch ho'⟩
                | none =>
                  simp only []
                  cases hn2 : nlookup w'.objs tid with
                  | none => exact ⟨hi2, fun o' ho' => nomatch ho'⟩
                  | some t2 =>
                    refine ⟨hi2, fun o' ho' => ?_⟩
                    simp only [Sum.inr.injEq] at ho'
                    subst ho'
                    have hso : SameObj t t2 := by
                      rcases (top_objs _ w' o.ns name none he).2 tid t2 hn2 with h3 | ⟨o0, h3, hs0, _⟩
                      · have h4 : nlookup w.objs tid = some t2 := h3
                        rw [hn'] at h4; cases h4
                        exact ⟨rfl, rfl, rfl⟩
                      · have h4 : nlookup w.objs tid = some o0 := h3
                        rw [hn'] at h4; cases h4
                        exact hs0
                    exact settled_new _ w' o.ns name hi1 he t2 (hso.1.trans htns) (hso.2.1.trans htname)
            · exact ⟨hi1, fun o' ho' => nomatch ho'⟩
          · exact ⟨hi1, fun o' ho' => nomatch ho'⟩


theorem critExecute_world (w : World) (h : Nat) : (critExecute w h).1 = (apiExecute w h .nil).1 := by
  rw [apiExecute_split]

theorem critExecuteTemplate_world (w : World) (h : Nat) (name : String) :
    (critExecuteTemplate w h name).1 = (apiExecuteTemplate w h name .nil).1 := by
  rw [apiExecuteTemplate_split]

/-- `Lookup` changes the harness' handle table only -/
theorem apiLookup_world (w : World) (h : Nat) (name : String) (h' : Nat) :
    (∀ k, (apiLookup w h name h').1.ns k = w.ns k) ∧ (apiLookup w h name h').1.objs = w.objs ∧
    (apiLookup w h name h').1.fuel = w.fuel := by
  unfold apiLookup
  split
  · exact ⟨fun _ => rfl, rfl, rfl⟩
  · split
    · exact ⟨fun _ => rfl, rfl, rfl⟩
    · split <;> exact ⟨fun _ => rfl, rfl, rfl⟩

/-- facts that only depend on name spaces, objects and fuel carry over -/
theorem settled_congr {F : String → Prop} {w w' : World} (hns : ∀ k, w'.ns k = w.ns k) (o : TObj)
    (hs : Settled F w o) : Settled F w' o := by
  unfold Settled at hs ⊢; rw [hns]; exact hs

theorem inv_congr {w w' : World} (hns : ∀ k, w'.ns k = w.ns k) (hobjs : w'.objs = w.objs) (hi : Inv w) : Inv w' := by
  obtain ⟨hg, hw, hok⟩ := hi
  refine ⟨fun k => by rw [hns k]; exact hg k, ?_, ?_⟩
  · intro ns name oid o h1 h2
    rw [hns] at h1; rw [hobjs] at h2
    exact hw ns name oid o h1 h2
  · intro id o h1 h2
    rw [hobjs] at h1
    obtain ⟨F, hF⟩ := hok id o h1 h2
    exact ⟨F, settled_congr hns o hF⟩

/-- every call of the concurrent API: invariant, establishment of `Done`, and stability of settled objects -/
theorem call_spec (c : Call World Pend Ret) (hc : U c) (w : World) :
    (Inv w → Inv (c.crit w).1 ∧ ∀ o d html, (c.crit w).2 = .exec o d html → ∃ F, Settled F (c.crit w).1 o) ∧
    (∀ F o, Settled F w o → Settled F (c.crit w).1 o ∧ ∀ d, textExecute (c.crit w).1 o d = textExecute w o d) := by
  obtain ⟨op, hop⟩ := hc
  have hexec : ∀ hh d html,
      (Inv w → Inv ((execCall hh d html).crit w).1 ∧ ∀ o d' html', ((execCall hh d html).crit w).2 = .exec o d' html' →
        ∃ F, Settled F ((execCall hh d html).crit w).1 o) ∧
      (∀ F o, Settled F w o → Settled F ((execCall hh d html).crit w).1 o ∧
        ∀ d', textExecute ((execCall hh d html).crit w).1 o d' = textExecute w o d') := by
    intro hh d html
    refine ⟨fun hi => ?_, fun F o hs => ?_⟩
    · obtain ⟨h1, h2⟩ := critExecute_spec w hh hi
      refine ⟨h1, fun o d' html' ho => ?_⟩
      simp only [execCall] at ho
      cases hr : (critExecute w hh).2 with
      | inl r => rw [hr] at ho; cases ho
      | inr o2 =>
        rw [hr] at ho
        simp only [toPend, Pend.exec.injEq] at ho
        obtain ⟨rfl, _, _⟩ := ho
        exact h2 o2 hr
    · simp only [execCall, critExecute_world]
      exact apiExecute_frozen F w hh .nil o hs
  have hexect : ∀ hh n d html,
      (Inv w → Inv ((execTemplateCall hh n d html).crit w).1 ∧
        ∀ o d' html', ((execTemplateCall hh n d html).crit w).2 = .exec o d' html' →
        ∃ F, Settled F ((execTemplateCall hh n d html).crit w).1 o) ∧
      (∀ F o, Settled F w o → Settled F ((execTemplateCall hh n d html).crit w).1 o ∧
        ∀ d', textExecute ((execTemplateCall hh n d html).crit w).1 o d' = textExecute w o d') := by
    intro hh n d html
    refine ⟨fun hi => ?_, fun F o hs => ?_⟩
    · obtain ⟨h1, h2⟩ := critExecuteTemplate_spec w hh n hi
      refine ⟨h1, fun o d' html' ho => ?_⟩
      simp only [execTemplateCall] at ho
      cases hr : (critExecuteTemplate w hh n).2 with
      | inl r => rw [hr] at ho; cases ho
      | inr o2 =>
        rw [hr] at ho
        simp only [toPend, Pend.exec.injEq] at ho
        obtain ⟨rfl, _, _⟩ := ho
        exact h2 o2 hr
    · simp only [execTemplateCall, critExecuteTemplate_world]
      exact apiExecuteTemplate_frozen F w hh n .nil o hs
  cases op with
  | new hh n => simp [callOf] at hop
  | assocNew hh n h' => simp [callOf] at hop
  | parse hh defs => simp [callOf] at hop
  | clone hh h' => simp [callOf] at hop
  | csp hh => simp [callOf] at hop
  | lookup hh n h' =>
    simp only [callOf, Option.some.injEq] at hop; subst hop
    obtain ⟨a, b, f⟩ := apiLookup_world w hh n h'
    refine ⟨fun hi => ⟨inv_congr a b hi, fun o d html ho => nomatch ho⟩, fun F o hs => ⟨settled_congr a o hs, fun d => ?_⟩⟩
    exact SafeHtml.Props.C06.textExecute_congr _ _ _ _ (by show ((apiLookup w hh n h').1.ns o.ns).text = _; rw [a]) f
  | templates hh =>
    simp only [callOf, Option.some.injEq] at hop; subst hop
    exact ⟨fun hi => ⟨hi, fun o d html ho => nomatch ho⟩, fun F o hs => ⟨hs, fun _ => rfl⟩⟩
  | exec hh d => simp only [callOf, Option.some.injEq] at hop; subst hop; exact hexec hh d false
  | execHTML hh d => simp only [callOf, Option.some.injEq] at hop; subst hop; exact hexec hh d true
  | execT hh n d => simp only [callOf, Option.some.injEq] at hop; subst hop; exact hexect hh n d false
  | execTHTML hh n d => simp only [callOf, Option.some.injEq] at hop; subst hop; exact hexect hh n d true


/-! ### 6. stability and serializability -/

/-- what the unlocked phase of a call relies on: the object it is going to execute is settled -/
def Done (_c : Call World Pend Ret) (r : Pend) (w : World) : Prop :=
  ∀ o d html, r = .exec o d html → ∃ F, Settled F w o

theorem post_eq (c : Call World Pend Ret) (hc : U c) : c.post = postOf := by
  obtain ⟨op, hop⟩ := hc
  cases op <;> simp only [callOf, Option.some.injEq] at hop <;> first | (subst hop; rfl) | cases hop

/-- **The stability conditions of `Model/Conc` hold for the API model.** -/
theorem api_stable : Stable U Inv Done where
  inv_crit := fun c s hU hinv => ((call_spec c hU s).1 hinv).1
  done_est := fun c s hU hinv => ((call_spec c hU s).1 hinv).2
  done_pres := fun c r d s _ hUd _ hdone o dd html hr => by
    obtain ⟨F, hF⟩ := hdone o dd html hr
    exact ⟨F, ((call_spec d hUd s).2 F o hF).1⟩
  post_stable := fun c r d s hUc hUd _ hdone => by
    rw [post_eq c hUc]
    cases r with
    | final r => rfl
    | exec o dd html =>
      obtain ⟨F, hF⟩ := hdone o dd html rfl
      simp only [postOf]
      rw [((call_spec d hUd s).2 F o hF).2 dd]

/-- **C09 for the API model: every schedule is serializable.** For every initial world satisfying `Inv`, all threads
    of calls of the concurrent API and every schedule `evs`, the concurrent run and the serial run (each call executed
    completely — `Api.step` — at the moment of its critical section) are related by `Conc.Rel`: same shared state, and
    every thread has the serial results (an outstanding unlocked phase will produce the serial result whenever it
    runs). -/
theorem C09_api_serializable (y : Sys World Pend Ret) (hinv : Inv y.s)
    (hfresh : ∀ t ∈ y.thr, t.pending = none ∧ t.done = [] ∧ ∀ c ∈ t.todo, U c) (evs : List Ev) :
    Rel U Inv Done (run y evs) (runSerial y evs) :=
  serializable api_stable y hinv hfresh evs

/-- when no call of thread `i` is outstanding, the thread has exactly the results of the serial run, and the shared
    state is the serial one -/
theorem C09_api_results (y : Sys World Pend Ret) (hinv : Inv y.s)
    (hfresh : ∀ t ∈ y.thr, t.pending = none ∧ t.done = [] ∧ ∀ c ∈ t.todo, U c) (evs : List Ev)
    (i : Nat) (ta tb : Thr World Pend Ret) (ha : (run y evs).thr[i]? = some ta)
    (hb : (runSerial y evs).thr[i]? = some tb) (hidle : ta.pending = none) :
    ta.done = tb.done ∧ (run y evs).s = (runSerial y evs).s :=
  serializable_results api_stable y hinv hfresh evs i ta tb ha hb hidle

/-- one serial step of a call IS one step of the API state machine -/
theorem serial_is_api_step (w : World) (op : Op) (c : Call World Pend Ret) (h : callOf op = some c) :
    (c.crit w).1 = (Api.step w op).1 ∧ c.post (c.crit w).1 (c.crit w).2 = (Api.step w op).2 := by
  rw [step_eq_runCall w op c h]; exact ⟨rfl, rfl⟩

/-! ### 7. initial worlds -/

/-- a world in which no set has been executed yet: all escapers are empty and no object is marked analysed -/
theorem inv_fresh (w : World)
    (hesc : ∀ k, (w.ns k).esc.output = [] ∧ (w.ns k).esc.derived = [] ∧ (w.ns k).esc.tmplEdits = [])
    (hst : ∀ id o, nlookup w.objs id = some o → o.status ≠ .ok) (hwf : SetWF w) : Inv w :=
  ⟨fun k => goodNs_fresh _ (hesc k).1 (hesc k).2.1 (hesc k).2.2, hwf, fun id o h1 h2 => absurd h2 (hst id o h1)⟩


theorem nlookup_mem {β} (l : List (Nat × β)) (k : Nat) (v : β) (h : nlookup l k = some v) : (k, v) ∈ l := by
  unfold nlookup at h
  cases hf : l.find? (fun p => p.1 == k) with
  | none => rw [hf] at h; cases h
  | some p =>
    rw [hf] at h
    simp only [Option.map_some, Option.some.injEq] at h
    have hm := List.mem_of_find?_eq_some hf
    have hk := List.find?_some hf
    have : p = (k, v) := by
      cases p; simp only [beq_iff_eq] at hk; simp only [] at h; rw [hk, h]
    rw [← this]; exact hm

/-- executable form of the hypotheses of `inv_fresh` -/
def freshB (w : World) : Bool :=
  w.nss.all (fun p => p.2.esc.output.isEmpty && p.2.esc.derived.isEmpty && p.2.esc.tmplEdits.isEmpty) &&
  w.objs.all (fun p => p.2.status != .ok) &&
  w.nss.all (fun p => p.2.set.all (fun q =>
    match nlookup w.objs q.2 with
    | some o => o.ns == p.1 && o.name == q.1
    | none => true))

theorem ns_cases (w : World) (k : Nat) : (k, w.ns k) ∈ w.nss ∨ w.ns k = {} := by
  unfold World.ns
  cases h : nlookup w.nss k with
  | none => exact .inr rfl
  | some n => exact .inl (nlookup_mem _ _ _ h)

theorem inv_of_freshB (w : World) (h : freshB w = true) : Inv w := by
  unfold freshB at h
  simp only [Bool.and_eq_true, List.all_eq_true] at h
  obtain ⟨⟨h1, h2⟩, h3⟩ := h
  refine inv_fresh w ?_ ?_ ?_
  · intro k
    rcases ns_cases w k with hm | hd
    · have := h1 _ hm
      simp only [Bool.and_eq_true, List.isEmpty_iff] at this
      exact ⟨this.1.1, this.1.2, this.2⟩
    · rw [hd]; exact ⟨rfl, rfl, rfl⟩
  · intro id o ho hok
    have := h2 _ (nlookup_mem _ _ _ ho)
    simp only [] at this
    rw [hok] at this
    exact absurd this (by decide)
  · intro ns name oid o hs ho
    rcases ns_cases w ns with hm | hd
    · have := h3 _ hm (name, oid) (mem_of_alookup _ _ _ hs)
      simp only [] at this
      rw [ho] at this
      simp only [Bool.and_eq_true, beq_iff_eq] at this
      exact this
    · rw [hd] at hs; cases hs

/-! #### non-vacuity: the set of `Frozen.Demo` (templates `h`, `A`, `B`, `bad`), any threads, any schedule -/

theorem demo_inv : Inv SafeHtml.Proofs.Frozen.Demo.w0 := inv_of_freshB _ (by decide +kernel)

theorem demo_serializable (thr : List (Thr World Pend Ret))
    (hfresh : ∀ t ∈ thr, t.pending = none ∧ t.done = [] ∧ ∀ c ∈ t.todo, U c) (evs : List Ev) :
    Rel U Inv Done (run { s := SafeHtml.Proofs.Frozen.Demo.w0, thr := thr } evs)
      (runSerial { s := SafeHtml.Proofs.Frozen.Demo.w0, thr := thr } evs) :=
  C09_api_serializable _ demo_inv hfresh evs

/-! ### 8. C08 for analysis and commit: two explicit panic sites are unreachable from good states

#### 8a. every memoized name has a template (text set or derived): `commit` never dereferences a vanished template -/

/-- names memoized by a step have a template in the text set or among the derived templates; derived names stay -/
def NewMemo (text : TextSet) (e e' : Esc) : Prop :=
  (∀ n, Memo e' n → Memo e n ∨ (text.lookup n).isSome = true ∨ (alookup e'.derived n).isSome = true) ∧
  (∀ n, (alookup e.derived n).isSome = true → (alookup e'.derived n).isSome = true)

theorem NewMemo.refl (text : TextSet) (e : Esc) : NewMemo text e e := ⟨fun _ h => .inl h, fun _ h => h⟩

theorem NewMemo.trans {text : TextSet} {e e1 e2 : Esc} (h1 : NewMemo text e e1) (h2 : NewMemo text e1 e2) :
    NewMemo text e e2 := by
  refine ⟨fun n hm => ?_, fun n h => h2.2 n (h1.2 n h)⟩
  rcases h2.1 n hm with h | h | h
  · rcases h1.1 n h with h | h | h
    · exact .inl h
    · exact .inr (.inl h)
    · exact .inr (.inr (h2.2 n h))
  · exact .inr (.inl h)
  · exact .inr (.inr h)

theorem NewMemo.of_core {text : TextSet} {e e' : Esc} (ho : e'.output = e.output) (hd : e'.derived = e.derived) :
    NewMemo text e e' := by
  refine ⟨fun n hm => .inl ?_, fun n h => by rw [hd]; exact h⟩
  unfold Memo at hm ⊢; rw [ho] at hm; exact hm

theorem escapeAction_od (env : Env) (tn : String) (e : Esc) (c : Ctx) (id : Nat) (p : Pipe) (r : Esc × Ctx)
    (h : escapeAction env tn e c id p = .ok r) : r.1.output = e.output ∧ r.1.derived = e.derived := by
  unfold escapeAction at h
  split at h
  · cases h; exact ⟨rfl, rfl⟩
  · simp only [] at h
    split at h
    · cases h
    · cases h; exact ⟨rfl, rfl⟩
    · split at h
      · cases h; exact ⟨rfl, rfl⟩
      · split at h
        · cases h; exact ⟨rfl, rfl⟩
        · obtain ⟨e1, h1, h2⟩ := bind_ok h
          cases h2
          unfold Esc.editAction at h1
          split at h1
          · cases h1
          · cases h1; exact ⟨rfl, rfl⟩

theorem escapeTextNode_od (env : Env) (tn : String) (e : Esc) (c : Ctx) (id : Nat) (b : Bytes) (r : Esc × Ctx)
    (h : escapeTextNode env tn e c id b = .ok r) : r.1.output = e.output ∧ r.1.derived = e.derived := by
  unfold escapeTextNode at h
  split at h
  · cases h
  · cases h; exact ⟨rfl, rfl⟩
  · obtain ⟨e1, h3, h4⟩ := bind_ok h
    cases h4
    unfold Esc.editText at h3
    split at h3
    · cases h3
    · cases h3; exact ⟨rfl, rfl⟩

theorem memo_setOutput (e : Esc) (k : String) (v : Ctx) (n : String)
    (h : Memo { e with output := aset e.output k v } n) : n = k ∨ Memo e n := by
  unfold Memo at h ⊢
  simp only [] at h
  rw [alookup_aset] at h
  by_cases hn : n = k
  · exact .inl hn
  · rw [if_neg hn] at h; exact .inr h

theorem isSome_foldl_aset_inv {β} (l base : List (String × β)) (n : String)
    (h : (alookup (l.foldl (fun acc p => aset acc p.1 p.2) base) n).isSome = true) :
    (alookup base n).isSome = true ∨ (alookup l n).isSome = true := by
  cases hv : alookup (l.foldl (fun acc p => aset acc p.1 p.2) base) n with
  | none => rw [hv] at h; cases h
  | some v =>
    rcases mem_foldl_aset l base (n, v) (mem_of_alookup _ _ _ hv) with h1 | h1
    · exact .inl (alookup_isSome_of_mem base (n, v) h1)
    · exact .inr (alookup_isSome_of_mem l (n, v) h1)

theorem isSome_foldl_aset_list {β} (l : List (String × β)) : ∀ (base : List (String × β)) (n : String),
    (alookup l n).isSome = true → (alookup (l.foldl (fun acc p => aset acc p.1 p.2) base) n).isSome = true := by
  induction l with
  | nil => intro base n h; cases h
  | cons q t ih =>
    intro base n h
    rw [List.foldl_cons]
    rw [alookup_cons] at h
    by_cases hq : q.1 = n
    · apply isSome_foldl_aset
      rw [alookup_aset, if_pos hq.symm]; rfl
    · rw [if_neg hq] at h
      exact ih _ n h

def NodeM (env : Env) (f : Nat) : Prop :=
  ∀ tn e c n r, escapeNode env f tn e c n = .ok r → NewMemo env.text e r.1
def ListM (env : Env) (f : Nat) : Prop :=
  ∀ tn e c l r, escapeList env f tn e c l = .ok r → NewMemo env.text e r.1
def BranchM (env : Env) (f : Nat) : Prop :=
  ∀ tn e c t el b r, escapeBranch env f tn e c t el b = .ok r → NewMemo env.text e r.1
def TreeM (env : Env) (f : Nat) : Prop :=
  ∀ e c name r, escapeTree env f e c name = .ok r → NewMemo env.text e r.1
def HasTmpl (text : TextSet) (e : Esc) (n : String) : Prop :=
  (text.lookup n).isSome = true ∨ (alookup e.derived n).isSome = true
def OutM (env : Env) (f : Nat) : Prop :=
  ∀ e c tname t r, HasTmpl env.text e tname → computeOutCtx env f e c tname t = .ok r → NewMemo env.text e r.1
def BodyM (env : Env) (f : Nat) : Prop :=
  ∀ e c tname t r, HasTmpl env.text e tname → escapeTemplateBody env f e c tname t = .ok r →
    NewMemo env.text e r.1

theorem nodeM_succ {env f} (hb : BranchM env f) (ht : TreeM env f) : NodeM env (f + 1) := by
  intro tn e c n r h
  cases n with
  | action id p =>
    simp only [escapeNode] at h
    obtain ⟨a, b⟩ := escapeAction_od env tn e c id p r h
    exact NewMemo.of_core a b
  | text id b =>
    simp only [escapeNode] at h
    obtain ⟨a, b⟩ := escapeTextNode_od env tn e c id b r h
    exact NewMemo.of_core a b
  | ifN id p t el => simp only [escapeNode] at h; exact hb _ _ _ _ _ _ _ h
  | withN id p t el => simp only [escapeNode] at h; exact hb _ _ _ _ _ _ _ h
  | rangeN id p t el => simp only [escapeNode] at h; exact hb _ _ _ _ _ _ _ h
  | tmpl id name p =>
    simp only [escapeNode] at h
    obtain ⟨⟨e1, c1, dname⟩, h1, h2⟩ := bind_ok h
    have s1 := ht _ _ _ _ h1
    simp only [] at h2 s1
    split at h2
    · obtain ⟨e2, h3, h4⟩ := bind_ok h2
      cases h4
      unfold Esc.editTmpl at h3
      split at h3
      · cases h3
      · cases h3
        exact s1.trans (NewMemo.of_core rfl rfl)
    · cases h2; exact s1
  | brk id => simp only [escapeNode] at h; cases h; exact NewMemo.refl _ _
  | cont id => simp only [escapeNode] at h; cases h; exact NewMemo.refl _ _
  | comment id => simp only [escapeNode] at h; cases h; exact NewMemo.refl _ _

theorem listM_succ {env f} (hn : NodeM env f) (hl : ListM env f) : ListM env (f + 1) := by
  intro tn e c l r h
  cases l with
  | nil => simp only [escapeList] at h; cases h; exact NewMemo.refl _ _
  | cons n ns =>
    simp only [escapeList] at h
    obtain ⟨⟨e1, c1⟩, h1, h2⟩ := bind_ok h
    exact (hn _ _ _ _ _ h1).trans (hl _ _ _ _ _ h2)

theorem branchM_succ {env f} (hl : ListM env f) : BranchM env (f + 1) := by
  intro tn e c t el b r h
  simp only [escapeBranch] at h
  obtain ⟨⟨e1, c0⟩, h1, h2⟩ := bind_ok h
  have s1 := hl _ _ _ _ _ h1
  simp only [] at h2 s1
  obtain ⟨j, _, h4⟩ := bind_ok h2
  split at h4
  · split at h4
    · cases h4; exact s1
    · obtain ⟨⟨e2, c2⟩, h5, h6⟩ := bind_ok h4
      cases h6
      exact s1.trans (hl _ _ _ _ (e2, c2) h5)
  · obtain ⟨⟨e2, c2⟩, h5, h6⟩ := bind_ok h4
    cases h6
    exact s1.trans (hl _ _ _ _ (e2, c2) h5)

theorem bodyM_succ {env f} (hl : ListM env f) : BodyM env (f + 1) := by
  intro e c tname t r ht h
  simp only [escapeTemplateBody] at h
  split at h
  · cases h
  · rename_i tr
    obtain ⟨⟨e1, c1⟩, h1, h2⟩ := bind_ok h
    have s1 := hl _ _ _ _ _ h1
    simp only [] at h2 s1
    have hback : ∀ n, Memo { e with output := aset e.output tname c } n →
        Memo e n ∨ (env.text.lookup n).isSome = true ∨ (alookup e.derived n).isSome = true := by
      intro n hm
      rcases memo_setOutput e tname c n hm with rfl | hm
      · exact .inr ht
      · exact .inl hm
    split at h2
    · obtain ⟨ae, _, h3⟩ := bind_ok h2
      obtain ⟨te, _, h4⟩ := bind_ok h3
      obtain ⟨xe, _, h5⟩ := bind_ok h4
      cases h5
      refine ⟨fun n hm => ?_, fun n hd => isSome_foldl_aset _ _ _ hd⟩
      rcases isSome_foldl_aset_inv _ _ n hm with h6 | h6
      · rcases hback n h6 with h7 | h7 | h7
        · exact .inl h7
        · exact .inr (.inl h7)
        · exact .inr (.inr (isSome_foldl_aset _ _ _ h7))
      · rcases s1.1 n h6 with h7 | h7 | h7
        · rcases hback n h7 with h8 | h8 | h8
          · exact .inl h8
          · exact .inr (.inl h8)
          · exact .inr (.inr (isSome_foldl_aset _ _ _ h8))
        · exact .inr (.inl h7)
        · exact .inr (.inr (isSome_foldl_aset_list _ _ _ h7))
    · cases h2
      exact ⟨fun n hm => hback n hm, fun _ hd => hd⟩

theorem outM_succ {env f} (hb : BodyM env f) : OutM env (f + 1) := by
  intro e c tname t r ht h
  simp only [computeOutCtx] at h
  obtain ⟨⟨e1, c1, ok⟩, h1, h2⟩ := bind_ok h
  have s1 := hb _ _ _ _ _ ht h1
  simp only [] at h2 s1
  have ht1 : HasTmpl env.text e1 tname := ht.elim .inl (fun hd => .inr (s1.2 _ hd))
  have fin : ∀ (e2 : Esc) (v : Ctx), NewMemo env.text e e2 → HasTmpl env.text e2 tname →
      NewMemo env.text e { e2 with output := aset e2.output tname v } := by
    intro e2 v hs ht2
    refine hs.trans ⟨fun n hm => ?_, fun _ hd => hd⟩
    rcases memo_setOutput e2 tname v n hm with rfl | hm
    · exact .inr ht2
    · exact .inl hm
  split at h2
  · cases h2; exact fin e1 c1 s1 ht1
  · obtain ⟨⟨e2, c2, ok2⟩, h3, h4⟩ := bind_ok h2
    have s2 := hb _ _ _ _ _ ht1 h3
    simp only [] at h4 s2
    have ht2 : HasTmpl env.text e2 tname := ht1.elim .inl (fun hd => .inr (s2.2 _ hd))
    have s12 := s1.trans s2
    split at h4
    · cases h4; exact fin e2 c2 s12 ht2
    · split at h4
      · cases h4; exact fin e2 _ s12 ht2
      · cases h4; exact fin e2 c1 s12 ht2

theorem template_some {env : Env} {e : Esc} {n : String} {x : Option Tree}
    (h : Esc.template env e n = some x) : HasTmpl env.text e n := by
  unfold Esc.template at h
  split at h
  · rename_i t ht; exact .inl (by rw [ht]; rfl)
  · cases hd : alookup e.derived n with
    | none => rw [hd] at h; cases h
    | some d => exact .inr (by rw [hd]; rfl)

theorem treeM_succ {env f} (ho : OutM env f) : TreeM env (f + 1) := by
  intro e c name r h
  simp only [escapeTree] at h
  split at h
  · cases h; exact NewMemo.refl _ _
  · split at h
    · cases h; exact NewMemo.of_core rfl rfl
    · split at h
      · cases h; exact NewMemo.of_core rfl rfl
      · cases h; exact NewMemo.of_core rfl rfl
      · rename_i tr htmpl
        split at h
        · split at h
          · rename_i dt hdt
            obtain ⟨⟨e1, c1⟩, h1, h2⟩ := bind_ok h
            cases h2
            have s := ho _ _ _ _ (e1, c1) (template_some hdt) h1
            exact ⟨s.1, s.2⟩
          · obtain ⟨⟨e1, c1⟩, h1, h2⟩ := bind_ok h
            cases h2
            have s := ho _ _ _ _ (e1, c1) (.inr (by simp only []; rw [alookup_aset, if_pos rfl]; rfl)) h1
            exact ⟨s.1, fun n hd => s.2 n (isSome_aset _ _ _ _ hd)⟩
        · rename_i hdn
          obtain ⟨⟨e1, c1⟩, h1, h2⟩ := bind_ok h
          cases h2
          have hdn' : mangle c name = name := by simpa using hdn
          have s := ho _ _ _ _ (e1, c1) (by rw [hdn']; exact template_some htmpl) h1
          exact ⟨s.1, s.2⟩

theorem analysis_newMemo (env : Env) : ∀ f,
    NodeM env f ∧ ListM env f ∧ BranchM env f ∧ TreeM env f ∧ OutM env f ∧ BodyM env f := by
  intro f
  induction f with
  | zero =>
    refine ⟨?_, ?_, ?_, ?_, ?_, ?_⟩
    · intro tn e c n r h; simp only [escapeNode] at h; cases h
    · intro tn e c l r h; simp only [escapeList] at h; cases h
    · intro tn e c t el b r h; simp only [escapeBranch] at h; cases h
    · intro e c name r h; simp only [escapeTree] at h; cases h
    · intro e c tname t r _ h; simp only [computeOutCtx] at h; cases h
    · intro e c tname t r _ h; simp only [escapeTemplateBody] at h; cases h
  | succ f ih =>
    obtain ⟨hn, hl, hb, ht, ho, hbd⟩ := ih
    exact ⟨nodeM_succ hb ht, listM_succ hn hl, branchM_succ hl, treeM_succ ho, outM_succ hbd, bodyM_succ hl⟩


/-- between critical sections: every memoized name has a template -/
def HasT (text : TextSet) (e : Esc) : Prop := ∀ n, Memo e n → HasTmpl text e n

theorem hasT_fresh (text : TextSet) (e : Esc) (ho : e.output = []) : HasT text e := by
  intro n hm; unfold Memo at hm; rw [ho] at hm; cases hm

theorem hasT_analysis {env : Env} {e : Esc} (hT : HasT env.text e) (f : Nat) (c : Ctx) (name : String)
    (r : Esc × Ctx × String) (h : escapeTree env f e c name = .ok r) : HasT env.text r.1 := by
  have s := (analysis_newMemo env f).2.2.2.1 e c name r h
  intro n hm
  rcases s.1 n hm with h1 | h1 | h1
  · exact (hT n h1).elim .inl (fun hd => .inr (s.2 n hd))
  · exact .inl h1
  · exact .inr h1

theorem bind_panic {α β} {x : Out α} {f : α → Out β} {m : String} (h : (x >>= f) = .panic m) :
    x = .panic m ∨ ∃ a, x = .ok a ∧ f a = .panic m := by
  cases x with
  | ok a => exact .inr ⟨a, rfl, h⟩
  | panic w => left; cases h; rfl
  | fuel => cases h

def msgArgs : String := "index out of range: command without arguments"
def msgShared : String := "node shared between templates"
def msgLoop : String := "infinite loop in escapeText"
def msgCommit : String := "nil pointer dereference: e.template(name).Funcs in commit"
def msgNilTree : String := "nil pointer dereference: t.Tree.Root of a nil Tree"

theorem editStep_panic (e : Esc) (ts : TextSet) (n m : String) (h : editStep e ts n = .panic m) : m = msgArgs := by
  unfold editStep at h
  split at h
  · split at h
    · cases h
    · cases h; rfl
  · cases h

theorem edits_panic (e : Esc) (names : List String) : ∀ (ts : TextSet) (m : String),
    names.foldlM (editStep e) ts = .panic m → m = msgArgs := by
  induction names with
  | nil => intro ts m h; cases h
  | cons n t ih =>
    intro ts m h
    rw [List.foldlM_cons] at h
    rcases bind_panic h with h1 | ⟨ts1, _, h2⟩
    · exact editStep_panic e ts n m h1
    · exact ih ts1 m h2

/-- **`commit` does not dereference a vanished template**: from a state in which every memoized name has a template,
    the only panic `commit` can still report is the one of `ensurePipelineContains` (a command without arguments,
    impossible for parser-produced trees). -/
theorem commit_no_panic (text : TextSet) (e : Esc) (hT : HasT text e) (m : String)
    (h : commit text e = .panic m) : m = msgArgs := by
  have hall : (e.output.all fun p => (text.lookup p.1).isSome || (alookup e.derived p.1).isSome) = true := by
    rw [List.all_eq_true]
    intro p hp
    have := hT p.1 (alookup_isSome_of_mem e.output p hp)
    rcases this with h1 | h1
    · rw [h1]; rfl
    · rw [h1]; simp
  unfold commit at h
  simp only [hall, Bool.not_true, Bool.false_eq_true, if_false] at h
  rcases bind_panic h with h1 | ⟨t2, _, h2⟩
  · exact edits_panic _ _ _ m h1
  · cases h2


/-! #### 8b. no nil tree is analysed -/

def PanicOK (m : String) : Prop := m = msgArgs ∨ m = msgShared ∨ m = msgLoop

/-- no template of the set is registered with a nil parse tree -/
def NoNil (text : TextSet) : Prop := ∀ n, text.lookup n ≠ some none

theorem escapeAction_panic (env : Env) (tn : String) (e : Esc) (c : Ctx) (id : Nat) (p : Pipe) (m : String)
    (h : escapeAction env tn e c id p = .panic m) : PanicOK m := by
  unfold escapeAction at h
  split at h
  · cases h
  · simp only [] at h
    split at h
    · cases h; exact .inl rfl
    · cases h
    · split at h
      · cases h
      · split at h
        · cases h
        · rcases bind_panic h with h1 | ⟨_, _, h2⟩
          · unfold Esc.editAction at h1
            split at h1
            · cases h1; exact .inr (.inl rfl)
            · cases h1
          · cases h2

theorem escapeTextNode_panic (env : Env) (tn : String) (e : Esc) (c : Ctx) (id : Nat) (b : Bytes) (m : String)
    (h : escapeTextNode env tn e c id b = .panic m) : PanicOK m := by
  unfold escapeTextNode at h
  split at h
  · cases h; exact .inr (.inr rfl)
  · cases h
  · rcases bind_panic h with h1 | ⟨_, _, h2⟩
    · unfold Esc.editText at h1
      split at h1
      · cases h1; exact .inr (.inl rfl)
      · cases h1
    · cases h2

theorem mergeEdits_panic {β} (from_ : List (EditKey × β)) : ∀ (into : List (EditKey × β)) (m : String),
    mergeEdits into from_ = .panic m → m = msgShared := by
  induction from_ with
  | nil => intro into m h; cases h
  | cons q t ih =>
    intro into m h
    unfold mergeEdits at h
    rw [List.foldlM_cons] at h
    rcases bind_panic h with h1 | ⟨acc, _, h2⟩
    · split at h1
      · cases h1; rfl
      · cases h1
    · exact ih _ m h2

def NodeP (env : Env) (f : Nat) : Prop := ∀ tn e c n m, escapeNode env f tn e c n = .panic m → PanicOK m
def ListP (env : Env) (f : Nat) : Prop := ∀ tn e c l m, escapeList env f tn e c l = .panic m → PanicOK m
def BranchP (env : Env) (f : Nat) : Prop :=
  ∀ tn e c t el b m, escapeBranch env f tn e c t el b = .panic m → PanicOK m
def TreeP (env : Env) (f : Nat) : Prop := ∀ e c name m, escapeTree env f e c name = .panic m → PanicOK m
def OutP (env : Env) (f : Nat) : Prop :=
  ∀ e c tname t m, t ≠ none → computeOutCtx env f e c tname t = .panic m → PanicOK m
def BodyP (env : Env) (f : Nat) : Prop :=
  ∀ e c tname t m, t ≠ none → escapeTemplateBody env f e c tname t = .panic m → PanicOK m

theorem nodeP_succ {env f} (hb : BranchP env f) (ht : TreeP env f) : NodeP env (f + 1) := by
  intro tn e c n m h
  cases n with
  | action id p => simp only [escapeNode] at h; exact escapeAction_panic _ _ _ _ _ _ _ h
  | text id b => simp only [escapeNode] at h; exact escapeTextNode_panic _ _ _ _ _ _ _ h
  | ifN id p t el => simp only [escapeNode] at h; exact hb _ _ _ _ _ _ _ h
  | withN id p t el => simp only [escapeNode] at h; exact hb _ _ _ _ _ _ _ h
  | rangeN id p t el => simp only [escapeNode] at h; exact hb _ _ _ _ _ _ _ h
  | tmpl id name p =>
    simp only [escapeNode] at h
    rcases bind_panic h with h1 | ⟨⟨e1, c1, dname⟩, _, h2⟩
    · exact ht _ _ _ _ h1
    · simp only [] at h2
      split at h2
      · rcases bind_panic h2 with h3 | ⟨_, _, h4⟩
        · unfold Esc.editTmpl at h3
          split at h3
          · cases h3; exact .inr (.inl rfl)
          · cases h3
        · cases h4
      · cases h2
  | brk id => simp only [escapeNode] at h; cases h
  | cont id => simp only [escapeNode] at h; cases h
  | comment id => simp only [escapeNode] at h; cases h

theorem listP_succ {env f} (hn : NodeP env f) (hl : ListP env f) : ListP env (f + 1) := by
  intro tn e c l m h
  cases l with
  | nil => simp only [escapeList] at h; cases h
  | cons n ns =>
    simp only [escapeList] at h
    rcases bind_panic h with h1 | ⟨⟨e1, c1⟩, _, h2⟩
    · exact hn _ _ _ _ _ h1
    · exact hl _ _ _ _ _ h2

theorem branchP_succ {env f} (hl : ListP env f) : BranchP env (f + 1) := by
  intro tn e c t el b m h
  simp only [escapeBranch] at h
  rcases bind_panic h with h1 | ⟨⟨e1, c0⟩, _, h2⟩
  · exact hl _ _ _ _ _ h1
  · simp only [] at h2
    rcases bind_panic h2 with h3 | ⟨j, _, h4⟩
    · split at h3
      · rcases bind_panic h3 with h5 | ⟨_, _, h6⟩
        · exact hl _ _ _ _ _ h5
        · cases h6
      · cases h3
    · split at h4
      · split at h4
        · cases h4
        · rcases bind_panic h4 with h5 | ⟨_, _, h6⟩
          · exact hl _ _ _ _ _ h5
          · cases h6
      · rcases bind_panic h4 with h5 | ⟨_, _, h6⟩
        · exact hl _ _ _ _ _ h5
        · cases h6

theorem bodyP_succ {env f} (hl : ListP env f) : BodyP env (f + 1) := by
  intro e c tname t m hne h
  simp only [escapeTemplateBody] at h
  split at h
  · exact absurd rfl hne
  · rcases bind_panic h with h1 | ⟨⟨e1, c1⟩, _, h2⟩
    · exact hl _ _ _ _ _ h1
    · simp only [] at h2
      split at h2
      · rcases bind_panic h2 with h3 | ⟨_, _, h4⟩
        · exact .inr (.inl (mergeEdits_panic _ _ _ h3))
        · rcases bind_panic h4 with h5 | ⟨_, _, h6⟩
          · exact .inr (.inl (mergeEdits_panic _ _ _ h5))
          · rcases bind_panic h6 with h7 | ⟨_, _, h8⟩
            · exact .inr (.inl (mergeEdits_panic _ _ _ h7))
            · cases h8
      · cases h2

theorem outP_succ {env f} (hb : BodyP env f) : OutP env (f + 1) := by
  intro e c tname t m hne h
  simp only [computeOutCtx] at h
  rcases bind_panic h with h1 | ⟨⟨e1, c1, ok⟩, _, h2⟩
  · exact hb _ _ _ _ _ hne h1
  · simp only [] at h2
    split at h2
    · cases h2
    · rcases bind_panic h2 with h3 | ⟨⟨e2, c2, ok2⟩, _, h4⟩
      · exact hb _ _ _ _ _ hne h3
      · simp only [] at h4
        split at h4
        · cases h4
        · split at h4 <;> cases h4

theorem template_noNil {env : Env} (hnn : NoNil env.text) {e : Esc} {n : String} {dt : Option Tree}
    (h : Esc.template env e n = some dt) : dt ≠ none := by
  unfold Esc.template at h
  split at h
  · rename_i t ht
    cases h
    intro hn; subst hn
    exact hnn n ht
  · cases hd : alookup e.derived n with
    | none => rw [hd] at h; cases h
    | some d => rw [hd] at h; cases h; intro hn; cases hn

theorem treeP_succ {env f} (hnn : NoNil env.text) (ho : OutP env f) : TreeP env (f + 1) := by
  intro e c name m h
  simp only [escapeTree] at h
  split at h
  · cases h
  · split at h
    · cases h
    · split at h
      · cases h
      · cases h
      · split at h
        · split at h
          · rename_i dt hdt
            rcases bind_panic h with h1 | ⟨_, _, h2⟩
            · exact ho _ _ _ _ _ (template_noNil hnn hdt) h1
            · cases h2
          · rcases bind_panic h with h1 | ⟨_, _, h2⟩
            · exact ho _ _ _ _ _ (by intro hn; cases hn) h1
            · cases h2
        · rcases bind_panic h with h1 | ⟨_, _, h2⟩
          · exact ho _ _ _ _ _ (by intro hn; cases hn) h1
          · cases h2

/-- under `NoNil`, the analysis can only panic at the three sites that concern malformed trees (a command without
    arguments, a node shared between templates) or the loop guard of `escapeText` -/
theorem analysis_panics (env : Env) (hnn : NoNil env.text) : ∀ f,
    NodeP env f ∧ ListP env f ∧ BranchP env f ∧ TreeP env f ∧ OutP env f ∧ BodyP env f := by
  intro f
  induction f with
  | zero =>
    refine ⟨?_, ?_, ?_, ?_, ?_, ?_⟩
    · intro tn e c n m h; simp only [escapeNode] at h; cases h
    · intro tn e c l m h; simp only [escapeList] at h; cases h
    · intro tn e c t el b m h; simp only [escapeBranch] at h; cases h
    · intro e c name m h; simp only [escapeTree] at h; cases h
    · intro e c tname t m _ h; simp only [computeOutCtx] at h; cases h
    · intro e c tname t m _ h; simp only [escapeTemplateBody] at h; cases h
  | succ f ih =>
    obtain ⟨hn, hl, hb, ht, ho, hbd⟩ := ih
    exact ⟨nodeP_succ hb ht, listP_succ hn hl, branchP_succ hl, treeP_succ hnn ho, outP_succ hbd, bodyP_succ hl⟩


/-! #### 8c. one critical section -/

theorem panicOK_ne (m : String) (h : PanicOK m) : m ≠ msgCommit ∧ m ≠ msgNilTree := by
  rcases h with rfl | rfl | rfl <;> exact ⟨by decide, by decide⟩

/-- **Partial totality of one analysis under the mutex.** From a state in which every memoized name has a template
    and no template has a nil tree, `escapeTemplateTop` cannot report the nil dereference of `commit`
    (`e.template(name).Funcs`) nor the one of `escapeTemplateBody` (`t.Tree.Root`); whatever panic it reports is one
    of: a command without arguments, a node shared between templates, the loop guard of `escapeText`. -/
theorem escapeTemplateTop_no_panic_partial (w : World) (ns : Nat) (name : String) (m : String)
    (hT : HasT (w.ns ns).text (w.ns ns).esc) (hnn : NoNil (w.ns ns).text)
    (h : escapeTemplateTop w ns name = .inl (.panic m)) : PanicOK m := by
  unfold escapeTemplateTop at h
  simp only [] at h
  split at h
  · rename_i m' hesc
    simp only [Sum.inl.injEq, Res.panic.injEq] at h
    subst h
    exact (analysis_panics _ hnn w.fuel).2.2.2.1 _ _ _ _ hesc
  · cases h
  · rename_i e1 c d hesc
    split at h
    · cases h
    · split at h
      · rename_i m' hc
        simp only [Sum.inl.injEq, Res.panic.injEq] at h
        subst h
        have hT1 := hasT_analysis (by exact hT) _ _ _ _ hesc
        exact .inl (commit_no_panic _ _ hT1 _ hc)
      · cases h
      · cases h

theorem escapeTemplateTop_no_nil_panics (w : World) (ns : Nat) (name : String) (m : String)
    (hT : HasT (w.ns ns).text (w.ns ns).esc) (hnn : NoNil (w.ns ns).text)
    (h : escapeTemplateTop w ns name = .inl (.panic m)) : m ≠ msgCommit ∧ m ≠ msgNilTree :=
  panicOK_ne m (escapeTemplateTop_no_panic_partial w ns name m hT hnn h)

theorem isSome_lookup_set (ts : TextSet) (n : String) (t : Option Tree) (m : String)
    (h : (ts.lookup m).isSome = true) : ((ts.set n t).lookup m).isSome = true := by
  rw [lookup_set]; split
  · rfl
  · exact h

theorem installStep_isSome (ts : TextSet) (p : String × Tree) (m : String) (h : (ts.lookup m).isSome = true) :
    ((installStep ts p).lookup m).isSome = true := by
  unfold installStep
  split
  · split
    · exact h
    · exact isSome_lookup_set _ _ _ _ h
  · exact isSome_lookup_set _ _ _ _ h

theorem install_isSome (ds : List (String × Tree)) : ∀ (ts : TextSet) (m : String),
    (ts.lookup m).isSome = true → ((ds.foldl installStep ts).lookup m).isSome = true := by
  induction ds with
  | nil => intro ts m h; exact h
  | cons q t ih => intro ts m h; exact ih _ m (installStep_isSome ts q m h)

theorem editStep_isSome_noNil (e : Esc) (ts ts' : TextSet) (n : String) (h : editStep e ts n = .ok ts') :
    (∀ m, (ts.lookup m).isSome = true → (ts'.lookup m).isSome = true) ∧ (NoNil ts → NoNil ts') := by
  unfold editStep at h
  split at h
  · split at h
    · cases h
      refine ⟨fun m hm => isSome_lookup_set _ _ _ _ hm, fun hnn m hm => ?_⟩
      rw [lookup_set] at hm
      split at hm
      · cases hm
      · exact hnn m hm
    · cases h
  · cases h; exact ⟨fun _ h => h, fun h => h⟩

theorem edits_isSome_noNil (e : Esc) (names : List String) : ∀ (ts ts' : TextSet),
    names.foldlM (editStep e) ts = .ok ts' →
    (∀ m, (ts.lookup m).isSome = true → (ts'.lookup m).isSome = true) ∧ (NoNil ts → NoNil ts') := by
  induction names with
  | nil => intro ts ts' h; cases h; exact ⟨fun _ h => h, fun h => h⟩
  | cons n t ih =>
    intro ts ts' h
    rw [List.foldlM_cons] at h
    obtain ⟨ts1, h1, h2⟩ := bind_ok h
    obtain ⟨a1, a2⟩ := editStep_isSome_noNil e ts ts1 n h1
    obtain ⟨b1, b2⟩ := ih ts1 ts' h2
    exact ⟨fun m hm => b1 m (a1 m hm), fun hnn => b2 (a2 hnn)⟩

theorem install_noNil (ds : List (String × Tree)) (ts : TextSet) (h : NoNil ts) : NoNil (ds.foldl installStep ts) := by
  intro n hn
  rcases install_lookup ds ts n with h1 | ⟨d, _, h1⟩
  · rw [h1] at hn; exact h n hn
  · rw [h1] at hn; cases hn

/-- the two hypotheses are invariants: a commit keeps them -/
theorem commit_keeps_hasT_noNil (text : TextSet) (e : Esc) (text2 : TextSet) (e2 : Esc)
    (hT : HasT text e) (hnn : NoNil text) (h : commit text e = .ok (text2, e2)) :
    HasT text2 e2 ∧ NoNil text2 := by
  have hpost := commit_post text e text2 e2 h
  obtain ⟨pr, h1, rfl⟩ := commit_spec text e text2 e2 h
  obtain ⟨k1, k2⟩ := edits_isSome_noNil _ _ _ _ h1
  refine ⟨?_, k2 (install_noNil _ _ hnn)⟩
  intro n hm
  rcases hT n hm with h2 | h2
  · exact .inl (k1 n (install_isSome _ _ n h2))
  · left
    cases hv : alookup e.derived n with
    | none => rw [hv] at h2; cases h2
    | some d =>
      have hmem := mem_of_alookup _ _ _ hv
      have : relink text2 (n, d) ∈ (e.derived.map (relink text2)) := List.mem_map.mpr ⟨_, hmem, rfl⟩
      have := hpost.2.2.2.2.2 _ this
      rw [relink_fst] at this
      rw [this]; rfl

/-- … and so does every critical section (successful or failed) -/
theorem top_keeps_hasT_noNil (w w' : World) (ns : Nat) (name : String) (r : Option ErrCode)
    (hT : HasT (w.ns ns).text (w.ns ns).esc) (hnn : NoNil (w.ns ns).text)
    (h : escapeTemplateTop w ns name = .inr (w', r)) :
    HasT (w'.ns ns).text (w'.ns ns).esc ∧ NoNil (w'.ns ns).text := by
  obtain ⟨env, e1, c, d, henv, hesc, hr⟩ := escapeTemplateTop_spec_env w ns name w' r h
  have hT1 : HasT (w.ns ns).text e1 := by
    have := hasT_analysis (env := env) (by rw [henv]; exact hT) _ _ _ _ hesc
    rw [henv] at this; exact this
  rcases hr with ⟨code, _, hns⟩ | ⟨text2, e2, _, _, hc, hns⟩
  · rw [hns]; exact ⟨hT1, hnn⟩
  · rw [hns]; exact commit_keeps_hasT_noNil _ _ _ _ hT1 hnn hc

/-! ### Summary

PART 1 — C09 for the API model
* Calls (`Call World Pend Ret`): `execCall h d html` (Execute / ExecuteToHTML), `execTemplateCall h name d html`
  (ExecuteTemplate / ExecuteTemplateToHTML), `lookupCall`, `templatesCall`; `callOf : Op → Option Call` maps the
  operations of `Api.step` that belong to the concurrent API (`Name`, `DefinedTemplates` are not model operations).
  `crit` = the part under `nameSpace.mu` (`critExecute`, `critExecuteTemplate`: set `escaped`, look up, analyse, decide
  what to execute), `post` = `postOf` = `textExecute` on the world as it is when the unlocked phase runs.
* Refinement: `apiExecute_split`, `apiExecuteTemplate_split`, **`step_eq_runCall`** (`Api.step w op = runCall c w`),
  `serial_is_api_step` — the serial semantics of `Model/Conc` is literally the API state machine of the correspondence
  check.
* Invariant `Inv w` = every name space is `GoodNs` (Frozen §10) ∧ `SetWF w` (the object registered under a name in a
  set has that set and that name) ∧ `OkSettled w` (every object with status `.ok` is `Settled` for some frozen set).
  `Done c r w` = the object the call is going to execute is `Settled` in `w`.
* `inv_top`, `critExecute_spec`, `critExecuteTemplate_spec`, `call_spec`, **`api_stable : Stable U Inv Done`**.
* **`C09_api_serializable`**, **`C09_api_results`**: for every world satisfying `Inv`, all threads of calls in `U` and
  every schedule, `Conc.Rel U Inv Done (run y evs) (runSerial y evs)`; idle threads have exactly the serial results.
* Initial worlds: `inv_fresh` (all escapers empty, no object `.ok`, `SetWF`), executable form `freshB` with
  `inv_of_freshB`; instance `demo_inv`, `demo_serializable` (kernel-checked world, any threads, any schedule).
  Remaining hypothesis of PART 1: `Inv` of the initial world. It is proved from `freshB` for concrete worlds; that
  every world built by New/Parse/Clone/Lookup/… satisfies `freshB`-like conditions (in particular `SetWF` through
  `assocNew`/`apiParse`/`apiClone`) is NOT proved here.

PART 2 — C08 for analysis and commit
* `analysis_newMemo` (six mutually recursive functions): every name a step memoizes has a template in the text set or
  among the derived templates; `hasT_analysis`, `HasT`.
* **`commit_no_panic`**: under `HasT`, `commit` cannot report "nil pointer dereference: e.template(name).Funcs in
  commit"; its only remaining panic is "index out of range: command without arguments".
* `analysis_panics` (six functions): under `NoNil` (no template registered with a nil tree) the analysis cannot report
  "nil pointer dereference: t.Tree.Root of a nil Tree"; the panics left are `msgArgs`, `msgShared`, `msgLoop`.
* **`escapeTemplateTop_no_panic_partial`**, `escapeTemplateTop_no_nil_panics`; the hypotheses are invariants:
  `commit_keeps_hasT_noNil`, `top_keeps_hasT_noNil`, `hasT_fresh`.
* Explicit panic sites NOT covered: "node shared between templates" (`Esc.editAction/editTmpl/editText`,
  `mergeEdits`), "index out of range: command without arguments" (`escapeAction`/`predefinedCheck`, `commit`/
  `ensurePipelineContains`), "infinite loop in escapeText" (`escapeTextLoop` fuel / no-progress guard), and in
  `Api.lean` "template escaping out of sync" (`apiExecuteTemplate`) and the execution-time "nil pointer dereference:
  execution of a called template whose Tree is nil" (`textExecute`); fuel exhaustion (`Out.fuel`) is not addressed.
  `NoNil` is a genuine hypothesis: `apiClone` can register a template with a nil tree.
-/

end SafeHtml.Proofs.ConcApi
