/-
Byte-level reading of simple regexes all of whose classes are ASCII: on such a pattern Go's
rune-stepping matcher behaves exactly like a byte matcher (a non-ASCII byte never matches, and
everything matched is ASCII, hence one byte per rune).
-/
import SafeHtml.Proofs.RxLens
namespace SafeHtml
namespace Rx
open Utf8

def asciiSym (b : Nat) : Sym := ⟨b, [b]⟩

/-- every class of the regex is ASCII-only -/
def asciiRe : Re → Bool
  | .eps => true
  | .cls rs => asciiCls rs
  | .cat a b => asciiRe a && asciiRe b
  | .alt a b => asciiRe a && asciiRe b
  | .star a _ => asciiRe a
  | .bot => true
  | .eot => true
  | .cap _ a => asciiRe a

/-- length of the longest prefix whose bytes are all in the class -/
def spanB (rs : List (Nat × Nat)) : Bytes → Nat
  | [] => 0
  | c :: t => if inCls rs c then spanB rs t + 1 else 0

/-- `lens` on bytes -/
def lensB : Re → Bytes → List Nat
  | .eps, _ => [0]
  | .cls _, [] => []
  | .cls rs, c :: _ => if inCls rs c then [1] else []
  | .cat a b, s => (lensB a s).flatMap fun n => (lensB b (s.drop n)).map (n + ·)
  | .alt a b, s => lensB a s ++ lensB b s
  | .star (.cls rs) true, s => (List.range (spanB rs s + 1)).reverse
  | .star _ _, _ => []
  | .bot, _ => []
  | .eot, s => if s.isEmpty then [0] else []
  | .cap _ _, _ => []

theorem decodeSyms_ascii_prefix (p rest : Bytes) (hp : ∀ b ∈ p, b < 128) :
    decodeSyms (p ++ rest) = p.map asciiSym ++ decodeSyms rest := by
  induction p with
  | nil => simp
  | cons b p ih =>
    have hb : b < 128 := hp b (by simp)
    rw [List.cons_append, decodeSyms_cons_ascii _ _ hb, ih (fun x hx => hp x (by simp [hx]))]
    simp [asciiSym]

theorem decode1_rune_le (b : Nat) (t : Bytes) (h : 128 ≤ b) : (decode1 b t).1 ≤ 1114111 := by
  unfold decode1
  have : ¬ b < 128 := by omega
  simp only [this, if_false]
  repeat' split
  all_goals (try simp [runeError])
  all_goals (repeat' split)
  all_goals (first | omega | (simp [runeError]; done) | (simp [isCont] at *; omega))

theorem decode1_take_nonascii (b : Nat) (t : Bytes) (h : 128 ≤ b) :
    ∀ x ∈ (b :: t).take (decode1 b t).2, 128 ≤ x := by
  unfold decode1
  have : ¬ b < 128 := by omega
  simp only [this, if_false]
  repeat' split
  all_goals (try simp)
  all_goals (repeat' split)
  all_goals (first | omega | (simp; done) | (simp [isCont] at *; omega))

/-- a non-ASCII head byte starts one symbol whose rune is non-ASCII (and a valid rune value) and
    whose bytes are all non-ASCII -/
theorem decodeSyms_cons_nonascii (b : Nat) (t : Bytes) (hb : 128 ≤ b) :
    ∃ r w, decodeSyms (b :: t) = ⟨r, (b :: t).take w⟩ :: decodeSyms ((b :: t).drop w) ∧
      128 ≤ r ∧ r ≤ 1114111 ∧ 1 ≤ w ∧ w ≤ (b :: t).length ∧ ∀ x ∈ (b :: t).take w, 128 ≤ x :=
  ⟨(decode1 b t).1, (decode1 b t).2, decodeSyms_cons b t, decode1_nonascii b t hb,
    decode1_rune_le b t hb, decode1_width_pos b t, decode1_width_le b t,
    decode1_take_nonascii b t hb⟩

theorem not_inCls_of_ge (rs) (h : asciiCls rs = true) (c : Nat) (hc : 128 ≤ c) :
    inCls rs c = false := by
  cases h' : inCls rs c with
  | false => rfl
  | true => have := inCls_ascii rs h c h'; omega

theorem spanCls_decodeSyms (rs) (h : asciiCls rs = true) (s : Bytes) :
    spanCls rs (decodeSyms s) = spanB rs s := by
  induction s with
  | nil => simp [decodeSyms_nil, spanCls, spanB]
  | cons b t ih =>
    by_cases hb : b < 128
    · rw [decodeSyms_cons_ascii b t hb]
      simp [spanCls, spanB, ih]
    · rw [decodeSyms_cons]
      have h1 := not_inCls_of_ge rs h _ (decode1_nonascii b t (by omega))
      have h2 := not_inCls_of_ge rs h b (by omega)
      simp [spanCls, spanB, h1, h2]

theorem spanB_spec (rs) (s : Bytes) :
    spanB rs s ≤ s.length ∧ ∀ b ∈ s.take (spanB rs s), inCls rs b = true := by
  induction s with
  | nil => simp [spanB]
  | cons c t ih =>
    simp only [spanB]
    split
    · rename_i hc
      refine ⟨by simp; exact ih.1, ?_⟩
      intro b hb
      simp only [List.take_succ_cons, List.mem_cons] at hb
      rcases hb with rfl | hb
      · exact hc
      · exact ih.2 b hb
    · simp

theorem mem_take_of_le {α} {s : List α} {l n : Nat} (h : l ≤ n) {b : α} (hb : b ∈ s.take l) :
    b ∈ s.take n := by
  have : s.take l = (s.take n).take l := by rw [List.take_take, Nat.min_eq_left h]
  rw [this] at hb
  exact List.mem_of_mem_take hb

/-- everything an ASCII pattern matches is ASCII -/
theorem lensB_take_ascii (r : Re) (hs : simple r = true) (ha : asciiRe r = true) (s : Bytes) :
    ∀ l ∈ lensB r s, l ≤ s.length ∧ ∀ b ∈ s.take l, b < 128 := by
  fun_induction lensB r s with
  | case1 => simp
  | case2 => simp
  | case3 rs c t hc =>
    intro l hl
    simp at hl; subst hl
    simp only [asciiRe] at ha
    simp; exact inCls_ascii rs ha c hc
  | case4 => simp
  | case5 a b s ihb iha =>
    simp only [simple, asciiRe, Bool.and_eq_true] at hs ha
    intro l hl
    simp only [List.mem_flatMap, List.mem_map] at hl
    obtain ⟨n, hn, n', hn', rfl⟩ := hl
    obtain ⟨h1, h2⟩ := iha hs.1 ha.1 n hn
    obtain ⟨h3, h4⟩ := ihb n hs.2 ha.2 n' hn'
    simp only [List.length_drop] at h3
    refine ⟨by omega, ?_⟩
    intro x hx
    rw [List.take_add, List.mem_append] at hx
    rcases hx with hx | hx
    · exact h2 x hx
    · exact h4 x hx
  | case6 a b s iha ihb =>
    simp only [simple, asciiRe, Bool.and_eq_true] at hs ha
    intro l hl
    rw [List.mem_append] at hl
    rcases hl with hl | hl
    · exact iha hs.1 ha.1 l hl
    · exact ihb hs.2 ha.2 l hl
  | case7 rs s =>
    simp only [asciiRe] at ha
    intro l hl
    simp only [List.mem_reverse, List.mem_range] at hl
    obtain ⟨h1, h2⟩ := spanB_spec rs s
    refine ⟨by omega, ?_⟩
    intro b hb
    exact inCls_ascii rs ha b (h2 b (mem_take_of_le (by omega) hb))
  | case8 => simp
  | case9 => simp
  | case10 s => simp
  | case11 => simp
  | case12 => simp

theorem lensB_ge_minLen (r : Re) (s : Bytes) : ∀ l ∈ lensB r s, minLen r ≤ l := by
  fun_induction lensB r s with
  | case1 => simp [minLen]
  | case2 => simp
  | case3 rs c t hc => simp [minLen]
  | case4 => simp
  | case5 a b s ihb iha =>
    intro l hl
    simp only [List.mem_flatMap, List.mem_map] at hl
    obtain ⟨n, hn, n', hn', rfl⟩ := hl
    have := iha n hn
    have := ihb n n' hn'
    simp only [minLen]; omega
  | case6 a b s iha ihb =>
    intro l hl
    rw [List.mem_append] at hl
    simp only [minLen]
    rcases hl with hl | hl
    · have := iha l hl; omega
    · have := ihb l hl; omega
  | case7 rs s => simp [minLen]
  | case8 => simp
  | case9 => simp
  | case10 s => simp [minLen]
  | case11 => simp
  | case12 => simp

theorem flatMap_congr_aux {α β} {l : List α} {f g : α → List β} (h : ∀ x ∈ l, f x = g x) :
    l.flatMap f = l.flatMap g := by
  induction l with
  | nil => rfl
  | cons a l ih =>
    simp only [List.flatMap_cons]
    rw [h a (by simp), ih (fun x hx => h x (by simp [hx]))]

theorem decodeSyms_split_ascii (s : Bytes) (n : Nat) (h : ∀ b ∈ s.take n, b < 128) :
    decodeSyms s = (s.take n).map asciiSym ++ decodeSyms (s.drop n) := by
  have := decodeSyms_ascii_prefix (s.take n) (s.drop n) h
  rwa [List.take_append_drop] at this

theorem decodeSyms_drop_ascii (s : Bytes) (n : Nat) (hn : n ≤ s.length) (h : ∀ b ∈ s.take n, b < 128) :
    (decodeSyms s).drop n = decodeSyms (s.drop n) := by
  rw [decodeSyms_split_ascii s n h]
  have : ((s.take n).map asciiSym).length = n := by simp; omega
  rw [List.drop_append_of_le_length (by omega), List.drop_eq_nil_of_le (by omega)]; simp

theorem symsBytes_map_asciiSym (p : Bytes) : symsBytes (p.map asciiSym) = p := by
  induction p with
  | nil => rfl
  | cons b p ih => simp only [symsBytes, List.map_cons, List.flatMap_cons] at *; rw [ih]; rfl

theorem decodeSyms_take_ascii (s : Bytes) (n : Nat) (hn : n ≤ s.length) (h : ∀ b ∈ s.take n, b < 128) :
    symsBytes ((decodeSyms s).take n) = s.take n := by
  rw [decodeSyms_split_ascii s n h]
  have : ((s.take n).map asciiSym).length = n := by simp; omega
  rw [List.take_append_of_le_length (by omega), List.take_of_length_le (by omega), symsBytes_map_asciiSym]

theorem lens_decodeSyms_ascii (r : Re) (hs : simple r = true) (ha : asciiRe r = true) (s : Bytes) :
    lens r (decodeSyms s) = lensB r s := by
  fun_induction lensB r s with
  | case1 => simp [lens]
  | case2 => simp [decodeSyms_nil, lens]
  | case3 rs c t hc =>
    simp only [asciiRe] at ha
    have := inCls_ascii rs ha c hc
    rw [decodeSyms_cons_ascii c t this]
    simp [lens, hc]
  | case4 rs c t hc =>
    simp only [asciiRe] at ha
    by_cases hb : c < 128
    · rw [decodeSyms_cons_ascii c t hb]
      simp [lens, hc]
    · rw [decodeSyms_cons]
      simp [lens, not_inCls_of_ge rs ha _ (decode1_nonascii c t (by omega))]
  | case5 a b s ihb iha =>
    simp only [simple, asciiRe, Bool.and_eq_true] at hs ha
    simp only [lens]
    rw [iha hs.1 ha.1]
    apply flatMap_congr_aux
    intro n hn
    obtain ⟨h1, h2⟩ := lensB_take_ascii a hs.1 ha.1 s n hn
    rw [decodeSyms_drop_ascii s n h1 h2, ihb n hs.2 ha.2]
  | case6 a b s iha ihb =>
    simp only [simple, asciiRe, Bool.and_eq_true] at hs ha
    simp only [lens]
    rw [iha hs.1 ha.1, ihb hs.2 ha.2]
  | case7 rs s =>
    simp only [asciiRe] at ha
    simp only [lens]
    rw [spanCls_decodeSyms rs ha]
  | case8 a g s hn =>
    exfalso
    cases a <;> cases g <;> simp [simple] at hs
    exact hn _ rfl rfl
  | case9 => simp [lens]
  | case10 s h =>
    simp at h; subst h
    simp [decodeSyms_nil, lens]
  | case11 s h =>
    cases s with
    | nil => simp at h
    | cons b t => rw [decodeSyms_cons]; simp [lens]
  | case12 => simp [lens]

/-- leftmost-first search on bytes: (offset, length) -/
def firstMatchB (r : Re) : Bytes → Option (Nat × Nat)
  | [] => (lensB r []).head?.map fun l => (0, l)
  | c :: t =>
    match (lensB r (c :: t)).head? with
    | some l => some (0, l)
    | none => (firstMatchB r t).map fun p => (p.1 + 1, p.2)

theorem lensB_nil_of_nil (r : Re) (hs : simple r = true) (ha : asciiRe r = true) (hne : 1 ≤ minLen r) :
    lensB r [] = [] := by
  cases h : lensB r [] with
  | nil => rfl
  | cons l ls =>
    have hl : l ∈ lensB r [] := by simp [h]
    have h1 := lensB_ge_minLen r [] l hl
    have h2 := (lensB_take_ascii r hs ha [] l hl).1
    simp at h2; omega

theorem lensB_nil_of_nonascii (r : Re) (hs : simple r = true) (ha : asciiRe r = true)
    (hne : 1 ≤ minLen r) (x : Nat) (u : Bytes) (hx : 128 ≤ x) : lensB r (x :: u) = [] := by
  cases h : lensB r (x :: u) with
  | nil => rfl
  | cons l ls =>
    have hl : l ∈ lensB r (x :: u) := by simp [h]
    have h1 := lensB_ge_minLen r _ l hl
    have h2 := (lensB_take_ascii r hs ha _ l hl).2 x
    cases l with
    | zero => omega
    | succ l => simp at h2; omega

theorem firstMatchB_skip (r : Re) (hs : simple r = true) (ha : asciiRe r = true)
    (hne : 1 ≤ minLen r) (p rest : Bytes) (hp : ∀ x ∈ p, 128 ≤ x) :
    (firstMatchB r (p ++ rest)).isSome = (firstMatchB r rest).isSome := by
  induction p with
  | nil => rfl
  | cons x p ih =>
    simp only [List.cons_append, firstMatchB]
    rw [lensB_nil_of_nonascii r hs ha hne x _ (hp x (by simp))]
    simp only [List.head?_nil, Option.isSome_map]
    exact ih (fun y hy => hp y (by simp [hy]))

theorem firstMatch_decodeSyms (r : Re) (hs : simple r = true) (ha : asciiRe r = true)
    (hne : 1 ≤ minLen r) (s : Bytes) :
    (firstMatch r (decodeSyms s)).isSome = (firstMatchB r s).isSome := by
  induction s using decode_induction with
  | hnil =>
    have := lens_decodeSyms_ascii r hs ha []
    rw [decodeSyms_nil] at this
    simp [decodeSyms_nil, firstMatch, firstMatchB, this]
  | hcons b t ih =>
    have hl := lens_decodeSyms_ascii r hs ha (b :: t)
    by_cases hb : b < 128
    · rw [decode1_ascii b t hb] at ih
      simp only [List.drop_succ_cons, List.drop_zero] at ih
      rw [decodeSyms_cons_ascii b t hb] at hl ⊢
      simp only [firstMatch, firstMatchB, hl]
      cases (lensB r (b :: t)).head? with
      | some l => rfl
      | none => simp only [Option.isSome_map]; exact ih
    · have hb' : 128 ≤ b := by omega
      rw [decodeSyms_cons] at hl ⊢
      have hn := lensB_nil_of_nonascii r hs ha hne b t hb'
      simp only [firstMatch, hl, hn, List.head?_nil, Option.isSome_map]
      rw [ih]
      have := firstMatchB_skip r hs ha hne _ ((b :: t).drop (decode1 b t).2)
        (decode1_take_nonascii b t hb')
      rw [List.take_append_drop] at this
      exact this.symm

/-- Go `MatchString` for an unanchored ASCII pattern that never matches the empty string -/
theorem matchString_ascii (r : Re) (hs : simple r = true) (ha : asciiRe r = true) (hne : 1 ≤ minLen r)
    (s : Bytes) : matchString r s = (firstMatchB r s).isSome := by
  rw [matchString_simple r hs, firstMatch_decodeSyms r hs ha hne]

/-- Go `MatchString` for `^r`, `r` ASCII -/
theorem matchString_bot_ascii (r : Re) (hs : simple r = true) (ha : asciiRe r = true) (s : Bytes) :
    matchString (.cat .bot r) s = !(lensB r s).isEmpty := by
  rw [matchString_bot_simple r hs, lens_decodeSyms_ascii r hs ha]

/-- byte-by-byte reading of `ReplaceAllStringFunc` -/
def replBytes (r : Re) (repl : Bytes → Bytes) : Nat → Bytes → Bytes
  | 0, s => s
  | _, [] => []
  | f+1, c :: t =>
    match (lensB r (c :: t)).head? with
    | some l => repl ((c :: t).take l) ++ replBytes r repl f ((c :: t).drop l)
    | none => c :: replBytes r repl f t

theorem replBytes_skip (r : Re) (hs : simple r = true) (ha : asciiRe r = true)
    (hne : 1 ≤ minLen r) (repl : Bytes → Bytes) (p rest : Bytes) (hp : ∀ x ∈ p, 128 ≤ x) (m : Nat) :
    replBytes r repl (p.length + m) (p ++ rest) = p ++ replBytes r repl m rest := by
  induction p with
  | nil => simp
  | cons x p ih =>
    have : (x :: p).length + m = (p.length + m) + 1 := by simp; omega
    rw [this, List.cons_append]
    simp only [replBytes]
    rw [lensB_nil_of_nonascii r hs ha hne x _ (hp x (by simp))]
    simp only [List.head?_nil, List.cons_append]
    rw [ih (fun y hy => hp y (by simp [hy]))]

theorem replSyms_decodeSyms (r : Re) (hs : simple r = true) (ha : asciiRe r = true)
    (hne : 1 ≤ minLen r) (repl : Bytes → Bytes) (k : Nat) :
    ∀ (s : Bytes) (n m : Nat), s.length ≤ k → (decodeSyms s).length ≤ n → s.length ≤ m →
      replSyms r repl n (decodeSyms s) = replBytes r repl m s := by
  induction k with
  | zero =>
    intro s n m hk hn hm
    have : s = [] := by cases s <;> simp_all
    subst this
    rw [decodeSyms_nil]
    cases n <;> cases m <;> simp [replSyms, replBytes, symsBytes]
  | succ k ih =>
    intro s n m hk hn hm
    cases s with
    | nil =>
      rw [decodeSyms_nil]
      cases n <;> cases m <;> simp [replSyms, replBytes, symsBytes]
    | cons b t =>
      have hl := lens_decodeSyms_ascii r hs ha (b :: t)
      simp only [List.length_cons] at hk hm
      cases m with
      | zero => omega
      | succ m =>
      by_cases hb : b < 128
      · rw [decodeSyms_cons_ascii b t hb] at hl hn ⊢
        simp only [List.length_cons] at hn
        cases n with
        | zero => omega
        | succ n =>
        simp only [replSyms, replBytes, hl]
        cases hh : (lensB r (b :: t)).head? with
        | none =>
          simp only [List.singleton_append]
          rw [ih t n m (by omega) (by omega) (by omega)]
        | some l =>
          have hmem : l ∈ lensB r (b :: t) := List.mem_of_mem_head? (by simp [hh])
          have h1 := lensB_ge_minLen r _ l hmem
          obtain ⟨h2, h3⟩ := lensB_take_ascii r hs ha _ l hmem
          have hd := decodeSyms_drop_ascii (b :: t) l h2 h3
          have ht := decodeSyms_take_ascii (b :: t) l h2 h3
          have hsp := decodeSyms_split_ascii (b :: t) l h3
          rw [decodeSyms_cons_ascii b t hb] at hd ht hsp
          simp only
          rw [hd, ht]
          have hlen := congrArg List.length hsp
          simp only [List.length_cons, List.length_append, List.length_map, List.length_take] at hlen h2
          rw [ih _ n m (by simp only [List.length_drop, List.length_cons]; omega) (by omega)
            (by simp only [List.length_drop, List.length_cons]; omega)]
      · have hb' : 128 ≤ b := by omega
        rw [decodeSyms_cons] at hl hn ⊢
        simp only [List.length_cons] at hn
        cases n with
        | zero => omega
        | succ n =>
        have hnil := lensB_nil_of_nonascii r hs ha hne b t hb'
        have hw1 := decode1_width_pos b t
        have hw2 := decode1_width_le b t
        simp only [List.length_cons] at hw2
        simp only [replSyms, hl, hnil, List.head?_nil]
        have hsk := replBytes_skip r hs ha hne repl _ ((b :: t).drop (decode1 b t).2)
          (decode1_take_nonascii b t hb') (m + 1 - (decode1 b t).2)
        rw [List.take_append_drop] at hsk
        have hlen : ((b :: t).take (decode1 b t).2).length + (m + 1 - (decode1 b t).2) = m + 1 := by
          simp only [List.length_take, List.length_cons]; omega
        rw [hlen] at hsk
        rw [hsk, ih _ n (m + 1 - (decode1 b t).2)
          (by simp only [List.length_drop, List.length_cons]; omega) (by omega)
          (by simp only [List.length_drop, List.length_cons]; omega)]

theorem replaceAllFunc_ascii (r : Re) (hs : simple r = true) (ha : asciiRe r = true) (hne : 1 ≤ minLen r)
    (s : Bytes) (repl : Bytes → Bytes) :
    replaceAllFunc r s repl = replBytes r repl s.length s := by
  rw [replaceAllFunc_replSyms r hs hne]
  exact replSyms_decodeSyms r hs ha hne repl s.length s _ _ (Nat.le_refl _) (Nat.le_refl _) (Nat.le_refl _)

end Rx
end SafeHtml
