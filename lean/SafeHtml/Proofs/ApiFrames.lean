/-
Frame properties of the API state machine: what each operation may touch (C07 "clones are isolated"), and which
operations can reset a failed analysis (C05 "failure is sticky"). (summary at the end of the file)
-/
import SafeHtml.Proofs.ConcReach
namespace SafeHtml.Proofs.ApiFrames
open SafeHtml SafeHtml.Model.Tmpl SafeHtml.Proofs.Frozen SafeHtml.Proofs.ConcApi SafeHtml.Proofs.ConcReach

/-! ### 1. frames -/

/-- `w'` differs from `w` at most in name space `k` (if any), in objects living in `k`, and in things allocated after
    `w.next` (new name spaces, new objects); the fuel is the same. -/
def Frame (k : Option Nat) (w w' : World) : Prop :=
  w.next ≤ w'.next ∧ w'.fuel = w.fuel ∧
  (∀ j, j < w.next → k ≠ some j → w'.ns j = w.ns j) ∧
  (∀ id o, nlookup w.objs id = some o → k ≠ some o.ns → nlookup w'.objs id = some o)

theorem Frame.refl (k : Option Nat) (w : World) : Frame k w w :=
  ⟨Nat.le_refl _, rfl, fun _ _ _ => rfl, fun _ _ h _ => h⟩

theorem Frame.trans {k : Option Nat} {w w1 w2 : World} (h1 : Frame k w w1) (h2 : Frame k w1 w2) : Frame k w w2 := by
  obtain ⟨a1, b1, c1, d1⟩ := h1
  obtain ⟨a2, b2, c2, d2⟩ := h2
  refine ⟨Nat.le_trans a1 a2, b2.trans b1, ?_, ?_⟩
  · intro j hj hk; rw [c2 j (by omega) hk, c1 j hj hk]
  · intro id o ho hk; exact d2 id o (d1 id o ho hk) hk

theorem Frame.weaken {w w' : World} (k : Option Nat) (h : Frame none w w') : Frame k w w' :=
  ⟨h.1, h.2.1, fun j hj _ => h.2.2.1 j hj (fun hx => nomatch hx), fun id o ho _ => h.2.2.2 id o ho (fun hx => nomatch hx)⟩

/-- a frame for a name space allocated at or after `w.next` is a frame for nothing old -/
theorem Frame.relax {w w' : World} {n : Nat} (h : Frame (some n) w w') (hn : w.next ≤ n) (hf : FreshIds w) :
    Frame none w w' := by
  refine ⟨h.1, h.2.1, ?_, ?_⟩
  · intro j hj _
    exact h.2.2.1 j hj (by intro hx; cases hx; omega)
  · intro id o ho _
    have := (hf id o ho).2
    exact h.2.2.2 id o ho (by intro hx; cases hx; omega)

theorem frame_setNs (w : World) (k : Nat) (n : NS) : Frame (some k) w (w.setNs k n) := by
  refine ⟨Nat.le_refl _, rfl, ?_, fun _ _ h _ => h⟩
  intro j _ hk
  rw [ns_upd, if_neg (fun h => hk (by rw [h]))]

theorem frame_setObj (w : World) (k id : Nat) (o o' : TObj) (h : nlookup w.objs id = some o) (hk : o.ns = k) :
    Frame (some k) w (w.setObj id o') := by
  refine ⟨Nat.le_refl _, rfl, fun _ _ _ => rfl, ?_⟩
  intro id2 o2 h2 hk2
  rw [obj_upd]
  by_cases hid : id2 = id
  · subst hid; rw [h] at h2; cases h2; exact absurd (by rw [hk]) hk2
  · rw [if_neg hid]; exact h2

theorem frame_newSet (w : World) (name : String) (hf : FreshIds w) : Frame none w (w.newSet name).1 := by
  refine ⟨by rw [newSet_next]; omega, rfl, ?_, ?_⟩
  · intro j hj _; rw [newSet_ns, if_neg (by omega)]
  · intro id o ho _
    have := (hf id o ho).1
    rw [newSet_objs, if_neg (by omega)]; exact ho

theorem frame_bindNew (w : World) (k : Nat) (name : String) (obj : TObj) (hf : FreshIds w) :
    Frame (some k) w (bindNew w k name obj).1 := by
  refine ⟨by rw [bindNew_next]; omega, rfl, ?_, ?_⟩
  · intro j _ hk; rw [bindNew_ns, if_neg (fun h => hk (by rw [h]))]
  · intro id o ho _
    have := (hf id o ho).1
    rw [bindNew_objs, if_neg (by omega)]; exact ho

theorem frame_bind (k : Option Nat) (w : World) (h id : Nat) : Frame k w (w.bind h id) := Frame.refl k w

theorem frame_assocNew (w : World) (nsId : Nat) (name : String) (hi : InvR w) (hk : nsId < w.next) :
    Frame (some nsId) w (w.assocNew nsId name).1 := by
  rw [assocNew_eq]
  cases hex : alookup (w.ns nsId).set name with
  | none => exact frame_bindNew w nsId name _ hi.2.2
  | some ex =>
    simp only []
    have hobj : nlookup (w.newSet name).1.objs (w.newSet name).2 = some { ns := w.next, name := name } := by
      rw [newSet_objs]; exact if_pos rfl
    rw [hobj]
    simp only []
    have h1 : InvR (w.newSet name).1 := newSet_inv none w name hi
    have f1 : Frame (some nsId) w (w.newSet name).1 := (frame_newSet w name hi.2.2).weaken _
    obtain ⟨oex, e1, e2, _⟩ := hi.2.1 nsId name ex hex (fun hx => nomatch hx)
    have e1' : nlookup (w.newSet name).1.objs ex = some oex := by
      have := (hi.2.2 ex oex e1).1
      rw [newSet_objs, if_neg (by omega)]; exact e1
    have hex1 : alookup ((w.newSet name).1.ns nsId).set name = some ex := by
      rw [newSet_ns, if_neg (by omega)]; exact hex
    have h2 := overwrite_inv (w.newSet name).1 nsId name ex { ns := w.next, name := name } h1 hex1 rfl
      (by rw [newSet_next]; simp only []; omega)
    have f2 : Frame (some nsId) (w.newSet name).1 ((w.newSet name).1.setObj ex { ns := w.next, name := name }) :=
      frame_setObj _ nsId ex oex _ e1' e2
    exact (f1.trans f2).trans (frame_bindNew _ nsId name _ h2.2.2)


theorem bindNew_snd_obj (w : World) (k : Nat) (name : String) (obj : TObj) :
    nlookup (bindNew w k name obj).1.objs (bindNew w k name obj).2 = some obj := by
  show nlookup (bindNew w k name obj).1.objs w.next = some obj
  rw [bindNew_objs, if_pos rfl]

theorem assocNew_snd_obj (w : World) (k : Nat) (name : String) :
    nlookup (w.assocNew k name).1.objs (w.assocNew k name).2 = some { ns := k, name := name } := by
  rw [assocNew_eq]; exact bindNew_snd_obj _ _ _ _

theorem frame_parseStep (k : Nat) (w : World) (p : String × Option Tree) (hi : InvR w) (hk : k < w.next) :
    Frame (some k) w (parseStep k w p) := by
  unfold parseStep
  simp only []
  cases hl : alookup (w.ns k).set p.1 with
  | some tid =>
    simp only []
    cases ht : nlookup w.objs tid with
    | none => exact Frame.refl _ _
    | some t =>
      obtain ⟨o, g1, g2, _⟩ := hi.2.1 k p.1 tid hl (fun hx => nomatch hx)
      rw [ht] at g1; cases g1
      exact frame_setObj w k tid t _ ht g2
  | none =>
    simp only []
    have f1 := frame_assocNew w k p.1 hi hk
    rw [assocNew_snd_obj]
    exact f1.trans (frame_setObj _ k _ _ _ (assocNew_snd_obj w k p.1) rfl)

theorem frame_parseFold (k : Nat) (l : List (String × Option Tree)) : ∀ w, InvR w → k < w.next →
    Frame (some k) w (l.foldl (parseStep k) w) := by
  induction l with
  | nil => intro w _ _; exact Frame.refl _ _
  | cons p t ih =>
    intro w h hk
    obtain ⟨h1, h2⟩ := parseStep_inv k w p h hk
    exact (frame_parseStep k w p h hk).trans (ih _ h1 h2)

/-- what `Parse` may touch: the receiver's name space and its objects (and newly allocated objects) -/
theorem frame_apiParse (w : World) (h : Nat) (defs : List Tree) (hi : InvR w) :
    Frame ((w.obj h).map (·.2.ns)) w (apiParse w h defs).1 := by
  unfold apiParse
  cases hobj : w.obj h with
  | none => exact Frame.refl _ _
  | some q =>
    obtain ⟨oid, o⟩ := q
    simp only [Option.map_some]
    have hlk := obj_lookup w h oid o hobj
    have hns : o.ns < w.next := (hi.2.2 oid o hlk).2
    cases hesc : (w.ns o.ns).escaped with
    | true => simp only [if_true]; exact Frame.refl _ _
    | false =>
      simp only [Bool.false_eq_true, if_false]
      generalize defs.foldl _ ((w.ns o.ns).text, o.registered) = tr
      obtain ⟨text, reg⟩ := tr
      simp only []
      have h1 : InvR (w.setObj oid { o with registered := reg }) := modObj_inv w oid o _ hi hlk rfl rfl rfl
      have f1 : Frame (some o.ns) w (w.setObj oid { o with registered := reg }) := frame_setObj w o.ns oid o _ hlk rfl
      have h2 := setText_inv (w.setObj oid { o with registered := reg }) o.ns
        { set := (w.ns o.ns).set, csp := (w.ns o.ns).csp, esc := (w.ns o.ns).esc, text := text } h1 hesc rfl rfl
      have f2 := frame_setNs (w.setObj oid { o with registered := reg }) o.ns
        { set := (w.ns o.ns).set, csp := (w.ns o.ns).csp, esc := (w.ns o.ns).esc, text := text }
      exact (f1.trans f2).trans (frame_parseFold o.ns text _ h2 hns)

theorem frame_cloneFold (nsId : Nat) (l : List (String × Option Tree)) : ∀ w, InvR w → nsId < w.next →
    Frame (some nsId) w (l.foldl (cloneStep nsId) w) := by
  induction l with
  | nil => intro w _ _; exact Frame.refl _ _
  | cons p t ih =>
    intro w h hk
    have h1 : InvR (cloneStep nsId w p) := bindNew_inv w nsId p.1 _ (h.weaken _) hk rfl rfl rfl
    have f1 : Frame (some nsId) w (cloneStep nsId w p) := frame_bindNew w nsId p.1 _ h.2.2
    exact f1.trans (ih _ h1 (by show nsId < (bindNew w nsId p.1 _).1.next; rw [bindNew_next]; omega))

/-- **`Clone` touches NOTHING that exists**: it only allocates a new name space and new objects (trees are copied by
    value — the text set of the clone is a separate list). -/
theorem frame_apiClone (w : World) (h h' : Nat) (hi : InvR w) : Frame none w (apiClone w h h').1 := by
  unfold apiClone
  cases hobj : w.obj h with
  | none => exact Frame.refl _ _
  | some q =>
    obtain ⟨oid, o⟩ := q
    simp only []
    split
    · exact Frame.refl _ _
    · split
      · exact Frame.refl _ _
      · generalize hct : (if o.registered = true then (w.ns o.ns).text
          else List.map (fun p => if (p.1 == o.name) = true then (p.1, none) else p) (w.ns o.ns).text) = ctext
        have h0 : InvR (((({ w with next := w.next + 2 } : World).setObj (w.next + 1)
            { ns := w.next, name := o.name, registered := (ctext.lookup o.name).isSome,
              treeNil := !(match ctext.lookup o.name with | some (some _) => true | _ => false) }).setNs w.next
            { set := [(o.name, w.next + 1)], text := ctext })) := by
          refine freshSet_inv w _
            { ns := w.next, name := o.name, registered := (ctext.lookup o.name).isSome,
              treeNil := !(match ctext.lookup o.name with | some (some _) => true | _ => false) }
            { set := [(o.name, w.next + 1)], text := ctext } o.name hi rfl ?_ ?_ rfl rfl rfl rfl
            ⟨rfl, rfl, rfl⟩
          · intro k; rw [ns_upd]; rfl
          · intro id; show nlookup (World.setObj _ _ _).objs id = _; rw [obj_upd]
        have f0 : Frame (some w.next) w (((({ w with next := w.next + 2 } : World).setObj (w.next + 1)
            { ns := w.next, name := o.name, registered := (ctext.lookup o.name).isSome,
              treeNil := !(match ctext.lookup o.name with | some (some _) => true | _ => false) }).setNs w.next
            { set := [(o.name, w.next + 1)], text := ctext })) := by
          refine ⟨by show w.next ≤ w.next + 2; omega, rfl, ?_, ?_⟩
          · intro j hj _; rw [ns_upd, if_neg (by omega)]; rfl
          · intro id o2 ho2 _
            have := (hi.2.2 id o2 ho2).1
            show nlookup (World.setObj _ _ _).objs id = _
            rw [obj_upd, if_neg (by omega)]; exact ho2
        have f1 := f0.trans (frame_cloneFold w.next ctext _ h0 (by show w.next < w.next + 2; omega))
        have f2 := f1.relax (Nat.le_refl _) hi.2.2
        split
        · exact f2
        · exact f2


theorem markFailed_objs_other (w : World) (n : Nat) (name : String) (e : Esc) (c : ErrCode) (id : Nat)
    (h : ∀ oid, alookup (w.ns n).set name = some oid → oid ≠ id) :
    nlookup (markFailed w n name e c).objs id = nlookup w.objs id := by
  unfold markFailed
  simp only []
  split
  · rename_i oid hs
    split
    · simp only [World.setObj, World.setNs]
      rw [nlookup_nset_other _ _ _ _ (fun hid => h oid hs hid.symm)]
    · rfl
  · rfl

theorem markOk_objs_other (w : World) (n : Nat) (name : String) (t : TextSet) (e : Esc) (id : Nat)
    (h : ∀ oid, alookup (w.ns n).set name = some oid → oid ≠ id) :
    nlookup (markOk w n name t e).objs id = nlookup w.objs id := by
  unfold markOk
  simp only []
  split
  · rename_i oid hs
    split
    · simp only [World.setObj, World.setNs]
      rw [nlookup_nset_other _ _ _ _ (fun hid => h oid hs hid.symm)]
    · rfl
  · rfl

/-- one analysis touches the analysed name space and the object registered under the analysed name -/
theorem top_objs_other (w w' : World) (ns : Nat) (name : String) (r : Option ErrCode)
    (h : escapeTemplateTop w ns name = .inr (w', r)) (id : Nat)
    (hid : ∀ oid, alookup (w.ns ns).set name = some oid → oid ≠ id) :
    nlookup w'.objs id = nlookup w.objs id := by
  rcases top_form w w' ns name r h with ⟨e, code, _, rfl⟩ | ⟨t, e, _, rfl⟩
  · exact markFailed_objs_other w ns name e code id hid
  · exact markOk_objs_other w ns name t e id hid

theorem frame_top (w w' : World) (ns : Nat) (name : String) (r : Option ErrCode) (hi : InvR w)
    (h : escapeTemplateTop w ns name = .inr (w', r)) : Frame (some ns) w w' := by
  obtain ⟨_, _, _, _, _, hf, hoth, _⟩ := escapeTemplateTop_spec w ns name w' r h
  have hnext : w'.next = w.next := by
    rcases top_form w w' ns name r h with ⟨e, code, _, rfl⟩ | ⟨t, e, _, rfl⟩
    · exact markFailed_next ..
    · exact markOk_next ..
  refine ⟨by omega, hf, ?_, ?_⟩
  · intro j _ hk; exact hoth j (fun hj => hk (by rw [hj]))
  · intro id o ho hk
    rw [top_objs_other w w' ns name r h id ?_]; exact ho
    intro oid hs hid
    obtain ⟨o2, g1, g2, _⟩ := hi.2.1 ns name oid hs (fun hx => nomatch hx)
    rw [hid, ho] at g1; cases g1
    exact hk (by rw [g2])

theorem frame_critExecute (w : World) (h : Nat) (hi : InvR w) :
    Frame ((w.obj h).map (·.2.ns)) w (critExecute w h).1 := by
  unfold critExecute
  cases hobj : w.obj h with
  | none => exact Frame.refl _ _
  | some p =>
    obtain ⟨oid, o⟩ := p
    simp only [Option.map_some]
    have hi1 := setEscaped_invR w o.ns hi
    have f1 := frame_setNs w o.ns { w.ns o.ns with escaped := true }
    cases hs : o.status with
    | failed code => exact f1
    | ok => exact f1
    | unset =>
      simp only []
      cases ht : o.treeNil with
      | true => exact f1
      | false =>
        simp only [Bool.false_eq_true, if_false]
        cases he : escapeTemplateTop (w.setNs o.ns { w.ns o.ns with escaped := true }) o.ns o.name with
        | inl r => exact f1
        | inr q =>
          obtain ⟨w', oc⟩ := q
          have f2 := f1.trans (frame_top _ w' o.ns o.name oc hi1 he)
          cases oc with
          | some code => exact f2
          | none =>
            simp only []
            cases nlookup w'.objs oid <;> exact f2

theorem frame_critExecuteTemplate (w : World) (h : Nat) (name : String) (hi : InvR w) :
    Frame ((w.obj h).map (·.2.ns)) w (critExecuteTemplate w h name).1 := by
  unfold critExecuteTemplate
  cases hobj : w.obj h with
  | none => exact Frame.refl _ _
  | some p =>
    obtain ⟨oid, o⟩ := p
    simp only [Option.map_some]
    have hi1 := setEscaped_invR w o.ns hi
    have f1 := frame_setNs w o.ns { w.ns o.ns with escaped := true }
    cases hl : alookup (w.ns o.ns).set name with
    | none => exact f1
    | some tid =>
      simp only []
      cases hn : nlookup (w.setNs o.ns { w.ns o.ns with escaped := true }).objs tid with
      | none => exact f1
      | some t =>
        simp only []
        cases hs : t.status with
        | failed code => exact f1
        | ok =>
          simp only []
          generalize (if t.registered = true then _ else true) = b1
          generalize ((w.ns o.ns).text.lookup name).isNone = b2
          cases b1
          · cases b2
            · simp only [show (Status.ok == Status.unset) = false from rfl, Bool.false_eq_true, if_false]
              exact f1
            · exact f1
          · exact f1
        | unset =>
          simp only []
          generalize (if t.registered = true then _ else true) = b1
          generalize ((w.ns o.ns).text.lookup name).isNone = b2
          cases b1
          · cases b2
            · simp only [show (Status.unset == Status.unset) = true from rfl, Bool.false_eq_true, if_false, if_true]
              cases he : escapeTemplateTop (w.setNs o.ns { w.ns o.ns with escaped := true }) o.ns name with
              | inl r => exact f1
              | inr q =>
                obtain ⟨w', oc⟩ := q
                have f2 := f1.trans (frame_top _ w' o.ns name oc hi1 he)
                cases oc with
                | some code => exact f2
                | none =>
                  simp only []
                  cases nlookup w'.objs tid <;> exact f2
            · exact f1
          · exact f1

/-! ### 2. what each operation may touch -/

/-- the name space of the receiver of an operation (`New` has none) -/
def nsOfOp (w : World) : Op → Option Nat
  | .new _ _ => none
  | .assocNew h _ _ => (w.obj h).map (·.2.ns)
  | .parse h _ => (w.obj h).map (·.2.ns)
  | .clone h _ => (w.obj h).map (·.2.ns)
  | .lookup h _ _ => (w.obj h).map (·.2.ns)
  | .templates h => (w.obj h).map (·.2.ns)
  | .csp h => (w.obj h).map (·.2.ns)
  | .exec h _ => (w.obj h).map (·.2.ns)
  | .execT h _ _ => (w.obj h).map (·.2.ns)
  | .execHTML h _ => (w.obj h).map (·.2.ns)
  | .execTHTML h _ _ => (w.obj h).map (·.2.ns)

/-- **Frame theorem.** In a reachable world every operation leaves untouched every previously allocated name space
    other than the receiver's, and every object living in another name space; the fuel is unchanged. (What it may
    touch besides: name spaces and objects it allocates itself — `New`, `Clone`, `t.New`, `Parse`.) -/
theorem step_frame (w : World) (op : Op) (hi : InvR w) : Frame (nsOfOp w op) w (Api.step w op).1 := by
  cases op with
  | new h name => exact (frame_newSet w name hi.2.2).trans (frame_bind _ _ _ _)
  | assocNew h name h' =>
    simp only [Api.step, nsOfOp]
    cases hobj : w.obj h with
    | none => exact Frame.refl _ _
    | some p =>
      obtain ⟨oid, o⟩ := p
      have := (hi.2.2 oid o (obj_lookup w h oid o hobj)).2
      exact frame_assocNew w o.ns name hi this
  | parse h defs => exact frame_apiParse w h defs hi
  | clone h h' => exact (frame_apiClone w h h' hi).weaken _
  | lookup h name h' =>
    obtain ⟨a, b, f⟩ := apiLookup_world w h name h'
    refine ⟨by show w.next ≤ (apiLookup w h name h').1.next; rw [apiLookup_next]; omega, f, fun j _ _ => a j, ?_⟩
    intro id o ho _
    show nlookup (apiLookup w h name h').1.objs id = some o
    rw [b]; exact ho
  | templates h => exact Frame.refl _ _
  | csp h =>
    simp only [Api.step, nsOfOp]
    cases hobj : w.obj h with
    | none => exact Frame.refl _ _
    | some p => exact frame_setNs w _ _
  | exec h d =>
    show Frame _ w (apiExecute w h d).1; rw [apiExecute_split]; exact frame_critExecute w h hi
  | execHTML h d =>
    show Frame _ w (apiExecute w h d).1; rw [apiExecute_split]; exact frame_critExecute w h hi
  | execT h n d =>
    show Frame _ w (apiExecuteTemplate w h n d).1; rw [apiExecuteTemplate_split]
    exact frame_critExecuteTemplate w h n hi
  | execTHTML h n d =>
    show Frame _ w (apiExecuteTemplate w h n d).1; rw [apiExecuteTemplate_split]
    exact frame_critExecuteTemplate w h n hi


/-! ### 3. isolation of name spaces (C07) -/

/-- no operation of the list has its receiver in name space `j` (checked in the world in which the operation runs) -/
def OpsAvoid (j : Nat) : World → List Op → Prop
  | _, [] => True
  | w, op :: t => nsOfOp w op ≠ some j ∧ OpsAvoid j (Api.step w op).1 t

theorem run_avoid (j : Nat) : ∀ (ops : List Op) (w : World), InvR w → j < w.next → OpsAvoid j w ops →
    (Api.run w ops).ns j = w.ns j ∧ (Api.run w ops).fuel = w.fuel ∧
    (∀ id o, nlookup w.objs id = some o → o.ns = j → nlookup (Api.run w ops).objs id = some o) := by
  intro ops
  induction ops with
  | nil => intro w _ _ _; exact ⟨rfl, rfl, fun _ _ h _ => h⟩
  | cons op t ih =>
    intro w hi hj ha
    obtain ⟨a1, a2⟩ := ha
    obtain ⟨f1, f2, f3, f4⟩ := step_frame w op hi
    obtain ⟨g1, g2, g3⟩ := ih (Api.step w op).1 (invR_step w op hi) (by omega) a2
    refine ⟨?_, ?_, ?_⟩
    · show (Api.run (Api.step w op).1 t).ns j = _
      rw [g1, f3 j hj a1]
    · show (Api.run (Api.step w op).1 t).fuel = _
      rw [g2, f2]
    · intro id o ho hns
      exact g3 id o (f4 id o ho (by rw [hns]; exact a1)) hns

/-- **Isolation.** Operations whose receivers live in other name spaces (including `New`, and `Clone` of other sets)
    change nothing of what an object of name space `j` executes. -/
theorem isolated (w : World) (hi : InvR w) (j : Nat) (hj : j < w.next) (ops : List Op) (ha : OpsAvoid j w ops)
    (o : TObj) (hns : o.ns = j) (d : Value) : textExecute (Api.run w ops) o d = textExecute w o d := by
  obtain ⟨g1, g2, _⟩ := run_avoid j ops w hi hj ha
  exact SafeHtml.Props.C06.textExecute_congr _ _ _ _ (by rw [hns, g1]) g2

theorem bind_obj (w : World) (h id : Nat) : (w.bind h id).obj h = (nlookup w.objs id).map (fun o => (id, o)) := by
  unfold World.obj World.bind
  simp only [nlookup_nset_same]
  cases ho : nlookup w.objs id with
  | none => simp [ho]
  | some o => simp [ho]

/-- a successful `Clone` binds `h'` to an object of the brand-new name space `w.next` -/
theorem clone_ok_ns (w : World) (h h' : Nat) (hi : InvR w) (hok : (apiClone w h h').2 = "ok") :
    ∃ rid o', (apiClone w h h').1.obj h' = some (rid, o') ∧ o'.ns = w.next := by
  unfold apiClone at hok ⊢
  cases hobj : w.obj h with
  | none => rw [hobj] at hok; simp at hok
  | some q =>
    obtain ⟨oid, o⟩ := q
    rw [hobj] at hok
    simp only [] at hok ⊢
    split
    · rename_i hc; rw [if_pos hc] at hok; simp at hok
    · rename_i hc
      rw [if_neg hc] at hok
      split
      · rename_i hc2; rw [if_pos hc2] at hok; simp at hok
      · rename_i hc2
        rw [if_neg hc2] at hok
        generalize hct : (if o.registered = true then (w.ns o.ns).text
          else List.map (fun p => if (p.1 == o.name) = true then (p.1, none) else p) (w.ns o.ns).text) = ctext at hok ⊢
        have h0 : InvR (((({ w with next := w.next + 2 } : World).setObj (w.next + 1)
            { ns := w.next, name := o.name, registered := (ctext.lookup o.name).isSome,
              treeNil := !(match ctext.lookup o.name with | some (some _) => true | _ => false) }).setNs w.next
            { set := [(o.name, w.next + 1)], text := ctext })) := by
          refine freshSet_inv w _
            { ns := w.next, name := o.name, registered := (ctext.lookup o.name).isSome,
              treeNil := !(match ctext.lookup o.name with | some (some _) => true | _ => false) }
            { set := [(o.name, w.next + 1)], text := ctext } o.name hi rfl ?_ ?_ rfl rfl rfl rfl
            ⟨rfl, rfl, rfl⟩
          · intro k; rw [ns_upd]; rfl
          · intro id; show nlookup (World.setObj _ _ _).objs id = _; rw [obj_upd]
        have h1 := cloneFold_inv w.next ctext _ h0 (by show w.next < w.next + 2; omega)
        split
        · rename_i rid hrid
          obtain ⟨o', g1, g2, _⟩ := h1.2.1 w.next o.name rid hrid (fun hx => nomatch hx)
          refine ⟨rid, o', ?_, g2⟩
          rw [bind_obj]
          exact congrArg (Option.map fun o => (rid, o)) g1
        · rename_i hn
          rw [hn] at hok
          simp at hok

/-- **C07: clones are isolated.** In a reachable world, `Clone` itself changes nothing that exists (so every object of
    the original executes as before); the clone lives in the brand-new name space `w.next`; and from then on any
    operations with receivers outside a name space `j` — e.g. any operations on the clone for `j` = the original's name
    space, or any operations on the original for `j` = the clone's — leave the execution of every object of `j`
    unchanged. -/
theorem C07_clone_isolated (w : World) (hr : Reachable w) (h h' : Nat) :
    (∀ id o d, nlookup w.objs id = some o →
        textExecute (Api.step w (.clone h h')).1 o d = textExecute w o d ∧
        nlookup (Api.step w (.clone h h')).1.objs id = some o) ∧
    ((apiClone w h h').2 = "ok" → ∃ rid o', (Api.step w (.clone h h')).1.obj h' = some (rid, o') ∧ o'.ns = w.next) ∧
    (∀ j, j < (Api.step w (.clone h h')).1.next → ∀ ops, OpsAvoid j (Api.step w (.clone h h')).1 ops →
      ∀ o d, o.ns = j →
        textExecute (Api.run (Api.step w (.clone h h')).1 ops) o d = textExecute (Api.step w (.clone h h')).1 o d) := by
  have hi := invR_reachable w hr
  have f := frame_apiClone w h h' hi
  refine ⟨?_, clone_ok_ns w h h' hi, ?_⟩
  · intro id o d ho
    have hns := (hi.2.2 id o ho).2
    refine ⟨?_, f.2.2.2 id o ho (fun hx => nomatch hx)⟩
    exact SafeHtml.Props.C06.textExecute_congr _ _ _ _ (by
      show ((apiClone w h h').1.ns o.ns).text = _
      rw [f.2.2.1 o.ns hns (fun hx => nomatch hx)]) f.2.1
  · intro j hj ops ha o d hns
    exact isolated _ (invR_step w _ hi) j hj ops ha o hns d


/-! ### 4. which operations can change the analysis status of an object (C05) -/

/-- object `oid` keeps its analysis status -/
def SK (oid : Nat) (w w' : World) : Prop :=
  ∀ o, nlookup w.objs oid = some o → ∃ o', nlookup w'.objs oid = some o' ∧ o'.status = o.status

theorem SK.refl (oid : Nat) (w : World) : SK oid w w := fun o h => ⟨o, h, rfl⟩

theorem SK.trans {oid : Nat} {w w1 w2 : World} (h1 : SK oid w w1) (h2 : SK oid w1 w2) : SK oid w w2 := by
  intro o ho
  obtain ⟨o1, g1, g2⟩ := h1 o ho
  obtain ⟨o2, g3, g4⟩ := h2 o1 g1
  exact ⟨o2, g3, g4.trans g2⟩

theorem SK.of_eq {oid : Nat} {w w' : World} (h : nlookup w'.objs oid = nlookup w.objs oid) : SK oid w w' :=
  fun o ho => ⟨o, h.trans ho, rfl⟩

theorem sk_setObj (oid : Nat) (w : World) (id : Nat) (t t' : TObj) (ht : nlookup w.objs id = some t)
    (hs : t'.status = t.status) : SK oid w (w.setObj id t') := by
  intro o ho
  rw [obj_upd]
  by_cases hid : oid = id
  · subst hid; rw [ht] at ho; cases ho; rw [if_pos rfl]; exact ⟨t', rfl, hs⟩
  · rw [if_neg hid]; exact ⟨o, ho, rfl⟩

theorem sk_newSet (oid : Nat) (w : World) (name : String) (hf : FreshIds w) : SK oid w (w.newSet name).1 := by
  intro o ho
  have := (hf oid o ho).1
  exact ⟨o, by rw [newSet_objs, if_neg (by omega)]; exact ho, rfl⟩

theorem sk_bindNew (oid : Nat) (w : World) (k : Nat) (name : String) (obj : TObj) (hf : FreshIds w) :
    SK oid w (bindNew w k name obj).1 := by
  intro o ho
  have := (hf oid o ho).1
  exact ⟨o, by rw [bindNew_objs, if_neg (by omega)]; exact ho, rfl⟩

/-- `t.New(name)` keeps every object except the one registered under `name` (`*existing = *emptyTmpl`) -/
theorem sk_assocNew (oid : Nat) (w : World) (nsId : Nat) (name : String) (hi : InvR w) (hk : nsId < w.next)
    (hne : alookup (w.ns nsId).set name ≠ some oid) : SK oid w (w.assocNew nsId name).1 := by
  rw [assocNew_eq]
  cases hex : alookup (w.ns nsId).set name with
  | none => exact sk_bindNew oid w nsId name _ hi.2.2
  | some ex =>
    simp only []
    have hobj : nlookup (w.newSet name).1.objs (w.newSet name).2 = some { ns := w.next, name := name } := by
      rw [newSet_objs]; exact if_pos rfl
    rw [hobj]
    simp only []
    have h1 : InvR (w.newSet name).1 := newSet_inv none w name hi
    have hex1 : alookup ((w.newSet name).1.ns nsId).set name = some ex := by
      rw [newSet_ns, if_neg (by omega)]; exact hex
    have h2 := overwrite_inv (w.newSet name).1 nsId name ex { ns := w.next, name := name } h1 hex1 rfl
      (by rw [newSet_next]; simp only []; omega)
    have s1 := sk_newSet oid w name hi.2.2
    have s2 : SK oid (w.newSet name).1 ((w.newSet name).1.setObj ex { ns := w.next, name := name }) := by
      apply SK.of_eq
      rw [obj_upd, if_neg]
      intro hid; apply hne; rw [hex, hid]
    exact (s1.trans s2).trans (sk_bindNew oid _ nsId name _ h2.2.2)

theorem sk_parseStep (oid k : Nat) (w : World) (p : String × Option Tree) (hi : InvR w) (hk : k < w.next) :
    SK oid w (parseStep k w p) := by
  unfold parseStep
  simp only []
  cases hl : alookup (w.ns k).set p.1 with
  | some tid =>
    simp only []
    cases ht : nlookup w.objs tid with
    | none => exact SK.refl _ _
    | some t => exact sk_setObj oid w tid t _ ht rfl
  | none =>
    simp only []
    have s1 := sk_assocNew oid w k p.1 hi hk (by rw [hl]; intro hx; cases hx)
    rw [assocNew_snd_obj]
    exact s1.trans (sk_setObj oid _ _ _ _ (assocNew_snd_obj w k p.1) rfl)

theorem sk_parseFold (oid k : Nat) (l : List (String × Option Tree)) : ∀ w, InvR w → k < w.next →
    SK oid w (l.foldl (parseStep k) w) := by
  induction l with
  | nil => intro w _ _; exact SK.refl _ _
  | cons p t ih =>
    intro w h hk
    obtain ⟨h1, h2⟩ := parseStep_inv k w p h hk
    exact (sk_parseStep oid k w p h hk).trans (ih _ h1 h2)

theorem sk_apiParse (oid : Nat) (w : World) (h : Nat) (defs : List Tree) (hi : InvR w) :
    SK oid w (apiParse w h defs).1 := by
  unfold apiParse
  cases hobj : w.obj h with
  | none => exact SK.refl _ _
  | some q =>
    obtain ⟨rid, o⟩ := q
    simp only []
    have hlk := obj_lookup w h rid o hobj
    have hns : o.ns < w.next := (hi.2.2 rid o hlk).2
    cases hesc : (w.ns o.ns).escaped with
    | true => simp only [if_true]; exact SK.refl _ _
    | false =>
      simp only [Bool.false_eq_true, if_false]
      generalize defs.foldl _ ((w.ns o.ns).text, o.registered) = tr
      obtain ⟨text, reg⟩ := tr
      simp only []
      have h1 : InvR (w.setObj rid { o with registered := reg }) := modObj_inv w rid o _ hi hlk rfl rfl rfl
      have s1 : SK oid w (w.setObj rid { o with registered := reg }) := sk_setObj oid w rid o _ hlk rfl
      have h2 := setText_inv (w.setObj rid { o with registered := reg }) o.ns
        { set := (w.ns o.ns).set, csp := (w.ns o.ns).csp, esc := (w.ns o.ns).esc, text := text } h1 hesc rfl rfl
      exact s1.trans ((SK.refl oid _).trans (sk_parseFold oid o.ns text _ h2 hns))

/-- `Clone` keeps every existing object (`Frame none`) -/
theorem sk_apiClone (oid : Nat) (w : World) (h h' : Nat) (hi : InvR w) : SK oid w (apiClone w h h').1 :=
  fun o ho => ⟨o, (frame_apiClone w h h' hi).2.2.2 oid o ho (fun hx => nomatch hx), rfl⟩

theorem sk_top (oid : Nat) (w w' : World) (ns : Nat) (name : String) (r : Option ErrCode)
    (h : escapeTemplateTop w ns name = .inr (w', r)) (hne : alookup (w.ns ns).set name ≠ some oid) : SK oid w w' :=
  SK.of_eq (top_objs_other w w' ns name r h oid (fun id hs hid => hne (by rw [hs, hid])))


theorem fk_critExecute (oid : Nat) (code : ErrCode) (w : World) (h : Nat) (o : TObj)
    (ho : nlookup w.objs oid = some o) (hs : o.status = .failed code)
    (hex : ∀ rid r, w.obj h = some (rid, r) → rid ≠ oid → alookup (w.ns r.ns).set r.name ≠ some oid) :
    ∃ o', nlookup (critExecute w h).1.objs oid = some o' ∧ o'.status = .failed code := by
  unfold critExecute
  cases hobj : w.obj h with
  | none => exact ⟨o, ho, hs⟩
  | some p =>
    obtain ⟨rid, r⟩ := p
    have hlk := obj_lookup w h rid r hobj
    have keep : ∃ o', nlookup (w.setNs r.ns { w.ns r.ns with escaped := true }).objs oid = some o' ∧
        o'.status = .failed code := ⟨o, ho, hs⟩
    simp only []
    cases hst : r.status with
    | failed c => exact keep
    | ok => exact keep
    | unset =>
      simp only []
      cases ht : r.treeNil with
      | true => exact keep
      | false =>
        simp only [Bool.false_eq_true, if_false]
        cases he : escapeTemplateTop (w.setNs r.ns { w.ns r.ns with escaped := true }) r.ns r.name with
        | inl res => exact keep
        | inr q =>
          obtain ⟨w', oc⟩ := q
          have hne : alookup ((w.setNs r.ns { w.ns r.ns with escaped := true }).ns r.ns).set r.name ≠ some oid := by
            rw [ns_setNs_same]
            by_cases hid : rid = oid
            · subst hid; rw [ho] at hlk; cases hlk; rw [hs] at hst; cases hst
            · exact hex rid r hobj hid
          obtain ⟨o', g1, g2⟩ := sk_top oid _ w' r.ns r.name oc he hne o ho
          have res : ∃ o', nlookup w'.objs oid = some o' ∧ o'.status = .failed code := ⟨o', g1, g2.trans hs⟩
          cases oc with
          | some c => exact res
          | none =>
            simp only []
            cases nlookup w'.objs rid <;> exact res

theorem fk_critExecuteTemplate (oid : Nat) (code : ErrCode) (w : World) (h : Nat) (name : String) (o : TObj)
    (ho : nlookup w.objs oid = some o) (hs : o.status = .failed code) :
    ∃ o', nlookup (critExecuteTemplate w h name).1.objs oid = some o' ∧ o'.status = .failed code := by
  unfold critExecuteTemplate
  cases hobj : w.obj h with
  | none => exact ⟨o, ho, hs⟩
  | some p =>
    obtain ⟨rid, r⟩ := p
    have keep : ∃ o', nlookup (w.setNs r.ns { w.ns r.ns with escaped := true }).objs oid = some o' ∧
        o'.status = .failed code := ⟨o, ho, hs⟩
    simp only []
    cases hl : alookup (w.ns r.ns).set name with
    | none => exact keep
    | some tid =>
      simp only []
      cases hn : nlookup (w.setNs r.ns { w.ns r.ns with escaped := true }).objs tid with
      | none => exact keep
      | some t =>
        simp only []
        have hn' : nlookup w.objs tid = some t := hn
        cases hst : t.status with
        | failed c => exact keep
        | ok =>
          simp only []
          generalize (if t.registered = true then _ else true) = b1
          generalize ((w.ns r.ns).text.lookup name).isNone = b2
          cases b1
          · cases b2
            · simp only [show (Status.ok == Status.unset) = false from rfl, Bool.false_eq_true, if_false]
              exact keep
            · exact keep
          · exact keep
        | unset =>
          simp only []
          generalize (if t.registered = true then _ else true) = b1
          generalize ((w.ns r.ns).text.lookup name).isNone = b2
          cases b1
          · cases b2
            · simp only [show (Status.unset == Status.unset) = true from rfl, Bool.false_eq_true, if_false, if_true]
              cases he : escapeTemplateTop (w.setNs r.ns { w.ns r.ns with escaped := true }) r.ns name with
              | inl res => exact keep
              | inr q =>
                obtain ⟨w', oc⟩ := q
                have hne : alookup ((w.setNs r.ns { w.ns r.ns with escaped := true }).ns r.ns).set name ≠ some oid := by
                  rw [ns_setNs_same]
                  show alookup (w.ns r.ns).set name ≠ some oid
                  rw [hl]
                  intro hx; cases hx
                  rw [ho] at hn'; cases hn'
                  rw [hs] at hst; cases hst
                obtain ⟨o', g1, g2⟩ := sk_top oid _ w' r.ns name oc he hne o ho
                have res : ∃ o', nlookup w'.objs oid = some o' ∧ o'.status = .failed code := ⟨o', g1, g2.trans hs⟩
                cases oc with
                | some c => exact res
                | none =>
                  simp only []
                  cases nlookup w'.objs tid <;> exact res
            · exact keep
          · exact keep

/-- the two ways an operation can reset the status of object `oid`:
    (i) `t.New(name)` where `name` is registered for `oid` in the receiver's set (`*existing = *emptyTmpl`, the known
        finding new-after-exec);
    (ii) `Execute` through a handle whose object is ANOTHER object with the name space and name under which `oid` is
        registered (the analysis marks the registered object, not the receiver). -/
def Resets (w : World) (oid : Nat) : Op → Prop
  | .assocNew h name _ => ∃ rid r, w.obj h = some (rid, r) ∧ alookup (w.ns r.ns).set name = some oid
  | .exec h _ => ∃ rid r, w.obj h = some (rid, r) ∧ rid ≠ oid ∧ alookup (w.ns r.ns).set r.name = some oid
  | .execHTML h _ => ∃ rid r, w.obj h = some (rid, r) ∧ rid ≠ oid ∧ alookup (w.ns r.ns).set r.name = some oid
  | _ => False

/-- **C05: failure is sticky under ALL operations** except the two of `Resets`. -/
theorem C05_failed_sticky_all_ops (w : World) (op : Op) (hi : InvR w) (oid : Nat) (o : TObj) (code : ErrCode)
    (ho : nlookup w.objs oid = some o) (hs : o.status = .failed code) (hnr : ¬ Resets w oid op) :
    ∃ o', nlookup (Api.step w op).1.objs oid = some o' ∧ o'.status = .failed code := by
  have fromSK : ∀ w', SK oid w w' → ∃ o', nlookup w'.objs oid = some o' ∧ o'.status = .failed code := by
    intro w' hsk
    obtain ⟨o', g1, g2⟩ := hsk o ho
    exact ⟨o', g1, g2.trans hs⟩
  cases op with
  | new h name => exact fromSK _ (sk_newSet oid w name hi.2.2)
  | assocNew h name h' =>
    simp only [Api.step]
    cases hobj : w.obj h with
    | none => exact ⟨o, ho, hs⟩
    | some p =>
      obtain ⟨rid, r⟩ := p
      have hk := (hi.2.2 rid r (obj_lookup w h rid r hobj)).2
      exact fromSK _ (sk_assocNew oid w r.ns name hi hk (fun hx => hnr ⟨rid, r, hobj, hx⟩))
  | parse h defs => exact fromSK _ (sk_apiParse oid w h defs hi)
  | clone h h' => exact fromSK _ (sk_apiClone oid w h h' hi)
  | lookup h name h' =>
    obtain ⟨_, b, _⟩ := apiLookup_world w h name h'
    exact ⟨o, by show nlookup (apiLookup w h name h').1.objs oid = some o; rw [b]; exact ho, hs⟩
  | templates h => exact ⟨o, ho, hs⟩
  | csp h =>
    simp only [Api.step]
    cases hobj : w.obj h with
    | none => exact ⟨o, ho, hs⟩
    | some p => exact ⟨o, ho, hs⟩
  | exec h d =>
    show ∃ o', nlookup (apiExecute w h d).1.objs oid = some o' ∧ _
    rw [apiExecute_split]
    exact fk_critExecute oid code w h o ho hs (fun rid r h1 h2 h3 => hnr ⟨rid, r, h1, h2, h3⟩)
  | execHTML h d =>
    show ∃ o', nlookup (apiExecute w h d).1.objs oid = some o' ∧ _
    rw [apiExecute_split]
    exact fk_critExecute oid code w h o ho hs (fun rid r h1 h2 h3 => hnr ⟨rid, r, h1, h2, h3⟩)
  | execT h n d =>
    show ∃ o', nlookup (apiExecuteTemplate w h n d).1.objs oid = some o' ∧ _
    rw [apiExecuteTemplate_split]
    exact fk_critExecuteTemplate oid code w h n o ho hs
  | execTHTML h n d =>
    show ∃ o', nlookup (apiExecuteTemplate w h n d).1.objs oid = some o' ∧ _
    rw [apiExecuteTemplate_split]
    exact fk_critExecuteTemplate oid code w h n o ho hs


/-- no operation of the list resets `oid` (checked in the world in which the operation runs) -/
def NoReset (oid : Nat) : World → List Op → Prop
  | _, [] => True
  | w, op :: t => ¬ Resets w oid op ∧ NoReset oid (Api.step w op).1 t

theorem failed_sticky_run (oid : Nat) (code : ErrCode) : ∀ (ops : List Op) (w : World) (o : TObj), InvR w →
    nlookup w.objs oid = some o → o.status = .failed code → NoReset oid w ops →
    ∃ o', nlookup (Api.run w ops).objs oid = some o' ∧ o'.status = .failed code := by
  intro ops
  induction ops with
  | nil => intro w o _ ho hs _; exact ⟨o, ho, hs⟩
  | cons op t ih =>
    intro w o hi ho hs hn
    obtain ⟨o1, g1, g2⟩ := C05_failed_sticky_all_ops w op hi oid o code ho hs hn.1
    exact ih (Api.step w op).1 o1 (invR_step w op hi) g1 g2 hn.2

/-- `Execute` of a failed object returns the analysis error and writes nothing -/
theorem execute_failed (w : World) (h oid : Nat) (o : TObj) (code : ErrCode) (d : Value)
    (hobj : w.obj h = some (oid, o)) (hs : o.status = .failed code) :
    (apiExecute w h d).2 = .err (analysisCls code) [] := by
  unfold apiExecute; simp [hobj, hs]

/-- `ExecuteTemplate(name)` where `name` is registered for a failed object returns the analysis error -/
theorem executeTemplate_failed (w : World) (h rid : Nat) (r : TObj) (name : String) (oid : Nat) (o : TObj)
    (code : ErrCode) (d : Value) (hobj : w.obj h = some (rid, r))
    (hreg : alookup (w.ns r.ns).set name = some oid) (ho : nlookup w.objs oid = some o)
    (hs : o.status = .failed code) : (apiExecuteTemplate w h name d).2 = .err (analysisCls code) [] := by
  unfold apiExecuteTemplate
  have ho' : nlookup (w.setNs r.ns { w.ns r.ns with escaped := true }).objs oid = some o := ho
  simp [hobj, hreg, ho', hs]

/-- **C05, for any interleaving**: once the analysis of object `oid` has failed, after ANY sequence of operations
    (on any handles, in any sets) that contains no `Resets` step, every `Execute` through a handle bound to `oid`
    returns `.err (analysisCls code) []`, and so does every `ExecuteTemplate(name)` for a name registered for `oid`. -/
theorem C05_failed_forever (w : World) (hr : Reachable w) (oid : Nat) (o : TObj) (code : ErrCode)
    (ho : nlookup w.objs oid = some o) (hs : o.status = .failed code) (ops : List Op) (hn : NoReset oid w ops) :
    (∀ h d, nlookup (Api.run w ops).handles h = some oid →
      (apiExecute (Api.run w ops) h d).2 = .err (analysisCls code) []) ∧
    (∀ h rid r name d, (Api.run w ops).obj h = some (rid, r) →
      alookup ((Api.run w ops).ns r.ns).set name = some oid →
      (apiExecuteTemplate (Api.run w ops) h name d).2 = .err (analysisCls code) []) := by
  obtain ⟨o', g1, g2⟩ := failed_sticky_run oid code ops w o (invR_reachable w hr) ho hs hn
  refine ⟨?_, ?_⟩
  · intro h d hh
    apply execute_failed _ h oid o' code d _ g2
    unfold World.obj
    simp [hh, g1]
  · intro h rid r name d hobj hreg
    exact executeTemplate_failed _ h rid r name oid o' code d hobj hreg g1 g2

/-- case (ii) of `Resets` cannot arise through a handle whose object is the registered one -/
theorem no_reset_exec_registered (w : World) (oid h rid : Nat) (r : TObj) (d : Value) (hobj : w.obj h = some (rid, r))
    (hreg : alookup (w.ns r.ns).set r.name = some rid) : ¬ Resets w oid (.exec h d) := by
  rintro ⟨rid', r', h1, h2, h3⟩
  rw [hobj] at h1; cases h1
  rw [hreg] at h3; cases h3
  exact h2 rfl

/-- operations with receivers in other name spaces never reset `oid` -/
theorem no_reset_other_ns (w : World) (hi : InvR w) (oid : Nat) (o : TObj) (ho : nlookup w.objs oid = some o)
    (op : Op) (hns : nsOfOp w op ≠ some o.ns) : ¬ Resets w oid op := by
  have key : ∀ (rid : Nat) (r : TObj) (nm : String), alookup (w.ns r.ns).set nm = some oid → r.ns = o.ns := by
    intro rid r nm hreg
    obtain ⟨o2, g1, g2, _⟩ := hi.2.1 r.ns nm oid hreg (fun hx => nomatch hx)
    rw [ho] at g1; cases g1
    exact g2.symm
  cases op with
  | assocNew h name h' =>
    rintro ⟨rid, r, h1, h2⟩
    apply hns
    simp only [nsOfOp, h1, Option.map_some]
    rw [key rid r name h2]
  | exec h d =>
    rintro ⟨rid, r, h1, _, h3⟩
    apply hns
    simp only [nsOfOp, h1, Option.map_some]
    rw [key rid r r.name h3]
  | execHTML h d =>
    rintro ⟨rid, r, h1, _, h3⟩
    apply hns
    simp only [nsOfOp, h1, Option.map_some]
    rw [key rid r r.name h3]
  | new _ _ => exact fun h => h
  | parse _ _ => exact fun h => h
  | clone _ _ => exact fun h => h
  | lookup _ _ _ => exact fun h => h
  | templates _ => exact fun h => h
  | csp _ => exact fun h => h
  | execT _ _ _ => exact fun h => h
  | execTHTML _ _ _ => exact fun h => h

/-! ### Summary

(1) C07 — what each operation may touch (`Frame k w w'`: every name space `j < w.next` with `k ≠ some j` is unchanged,
every object living outside `k` is unchanged, the fuel is unchanged, `next` only grows):
* `step_frame`: for a world satisfying `InvR` (every reachable world), `Frame (nsOfOp w op) w (Api.step w op).1` for
  EVERY op. Per operation: `New` — `Frame none` (only the new name space `w.next` and object `w.next+1`);
  `Clone` — `Frame none` (`frame_apiClone`: nothing existing is touched; new name space `w.next`, new objects; the text
  set is copied by value, the model shares nothing between a set and its clone); `t.New(name)` — the receiver's name
  space (set entry), a new object, and, when `name` existed, the object registered under it (which LIVES in the
  receiver's name space) is replaced by a copy of a fresh hidden object of the new name space `w.next`
  (`frame_assocNew`); `Parse` — the receiver's name space (text, set) and its objects, new objects (`frame_apiParse`);
  `Lookup`/`Templates` — nothing but the harness' handle table; `CSP` — a flag of the receiver's name space;
  `Execute*` — the receiver's name space (escaped, escaper, text set) and the object registered under the analysed
  name, which lives there (`frame_critExecute`, `frame_critExecuteTemplate`, `frame_top`).
* `run_avoid`, `isolated`, `clone_ok_ns`, **`C07_clone_isolated`**: `Clone` changes nothing that exists; the clone lives
  in the new name space `w.next`; afterwards operations with receivers outside a name space leave the execution of all
  its objects unchanged (original vs. clone in both directions, `OpsAvoid`).
  Not covered: results of `apiExecute` through HANDLES after foreign operations (the handle table is shared harness
  state: a `Lookup`/`New`/`Clone` on another set may rebind any handle number); the statement is about objects.

(2) C05 — `SK` lemmas for every primitive; **`C05_failed_sticky_all_ops`**: in a world satisfying `InvR`, an object
with `status = .failed code` keeps it under every operation except those of `Resets`:
  (i)  `t.New(name)` where `name` is registered for the object in the receiver's set (new-after-exec /
       `*existing = *emptyTmpl`) — a genuine reset in the model;
  (ii) `Execute`/`ExecuteToHTML` through a handle whose object is ANOTHER object with the same name space and name as the
       registered failed object (the analysis marks the registered object). I believe (ii) is unreachable (handles are
       only ever bound to registered objects, or to replaced objects whose `treeNil` stays true so that `Execute` says
       "incomplete"), but that needs an invariant over the handle table which is NOT proved here;
       `no_reset_exec_registered` discharges it for handles of registered objects, `no_reset_other_ns` for all
       operations with receivers in other name spaces.
  `ExecuteTemplate` never resets (it checks the status of the registered object before analysing), nor do New, Parse,
  Clone, Lookup, Templates, CSP.
* `failed_sticky_run`, `execute_failed`, `executeTemplate_failed`, **`C05_failed_forever`**: after any sequence of
  operations without a `Resets` step, every Execute through a handle bound to the object and every
  ExecuteTemplate of a name registered for it returns `.err (analysisCls code) []`.
-/

end SafeHtml.Proofs.ApiFrames
