/-
Follow-ups to `Layer3Calls` (C01 at the level of `Api.step`).

(1) Branch / loop templates with the control path COMPUTED from the data. `TP`/`TPs`: text, `{{a}}`, `{{if p}}`,
    `{{with p}}`, `{{range p}}` (each with `{{else}}`), carrying their pipelines; `eraseL` forgets the pipelines (the
    shape `RPs` of `Layer3Calls` the analysis looks at); `nodesTL` the parse tree. `refTL`: the model's `escapeList`
    on the tree computes `editsRL`; `keepL`: only the two edit lists change and the keys stay distinct; `applyL`:
    `applyEdits` with these edits gives the rewritten tree `outTL`; `pathL tps d d`: the control path the walk takes
    on data `d` (`evalPipe` + `Value.isTrue` for `if`/`with`, number of items for `range`; `with`/`range` change dot),
    `valsL`: the values printed along it; `wL`: a successful `walkList` of the rewritten tree is `execRL` along
    `pathL` on `valsL`; `escapeTree_gen`, `commit_gen`, `apiExecute_gen`: `Layer3Calls` (1) for any analysis that
    refines to `escapeList` this way. `C01_api_branch_template`: two `Api.step … (.exec 0 dᵢ)` runs after
    `New`, `Parse` whose data give the same control path and untrusted printed values produce outputs with the same
    skeleton, both ending in the data state. Example `ex_api_loop` (`{{range .Items}}<b>{{.}}</b>{{else}}-{{end}}`).
(2) A straight-line main template calling a straight-line helper `{{template "h" .}}` (any number ≥ 1 of times) from the
    top-level text context. `MP`/`EM`, `analyseM` (a call is accepted in context `{}` and continues in `{}`),
    `inlineP`/`inlineE`, `analyse_inline`: the analysis of the main template is the straight-line analysis of the
    template with the helper inlined. Model side: `escapeTree_miss` / `escapeTree_hit` (first call: the helper's body is
    analysed by the two-pass `computeOutCtx` in the scratch escaper `scratchH`, its edits are appended; later calls:
    memo hit), `refMain` (`escapeList` on the main template's tree computes `runMain`), `escapeTree_main`,
    `commit2` (commit over the two templates; `applyM`, `applyEdits_outA`, `find_h_false`: each template's nodes see
    exactly their own edits), `setup2_eq`, `apiExecute2_gen` (`New`, `Parse` of both trees, first `Execute`),
    `walkNode_tmpl`, `walkM_exec` (the walk through the `tmpl` nodes is `exec` of the inlined pieces on `valsM`).
    `C01_api_main_plus_helper` (grammar hypothesis on the inlined template) and `C01_api_main_plus_helper'` (grammar
    hypotheses `SimpleAll` for the helper and `SimpleM` for the main template separately, `SimpleAll_inline`).
    Example `ex_api_helper`: main `<i>{{.T}}</i>{{template "h" .}}{{template "h" .}}`, helper
    `<p title="{{.T}}">{{.T}}</p>`, with the kernel-evaluated output of the whole state machine.
Not covered: calls from a non-top-level context (derived copies under mangled names), helpers that change the context,
helpers with branches, nested helper calls.
Core Lean only; axioms: propext, Classical.choice, Quot.sound.
-/
import SafeHtml.Proofs.Layer3Calls
set_option linter.unusedSimpArgs false
set_option linter.unusedVariables false
namespace SafeHtml.Proofs.Layer3Helpers
open SafeHtml SafeHtml.Model SafeHtml.Model.Tmpl SafeHtml.Spec SafeHtml.Spec.HtmlTok SafeHtml.Generated.Policy
open SafeHtml.Props.C01 (InertPos run_nil run_cons run_append)
open SafeHtml.Props.C02 (Untrusted)
open SafeHtml.Proofs.HtmlTokSim
open SafeHtml.Proofs.Layer3 SafeHtml.Proofs.Layer3E2E SafeHtml.Proofs.Layer3Branch SafeHtml.Proofs.Layer3Calls

/-! ## (1) templates with `if` / `with` / `range`, with their pipelines -/

mutual
/-- a template with the data it refers to: action arguments and the condition pipelines of the branches -/
inductive TP where
  | text (s : Bytes)
  | action (a : Arg)
  | ifE (cond : Pipe) (t e : TPs)
  | withE (cond : Pipe) (t e : TPs)
  | range (cond : Pipe) (t e : TPs)
inductive TPs where
  | nil
  | cons (p : TP) (ps : TPs)
end

mutual
/-- forgetting the pipelines: the shape the analysis looks at -/
def eraseP : TP → RP
  | .text s => .text s
  | .action _ => .action
  | .ifE _ t e => .ifElse (eraseL t) (eraseL e)
  | .withE _ t e => .ifElse (eraseL t) (eraseL e)
  | .range _ t e => .range (eraseL t) (eraseL e)
def eraseL : TPs → RPs
  | .nil => .nil
  | .cons p ps => .cons (eraseP p) (eraseL ps)
end

mutual
/-- action arguments are `.` or `.A.B` -/
def ArgsOKP : TP → Prop
  | .text _ => True
  | .action a => ActArg a
  | .ifE _ t e => ArgsOKL t ∧ ArgsOKL e
  | .withE _ t e => ArgsOKL t ∧ ArgsOKL e
  | .range _ t e => ArgsOKL t ∧ ArgsOKL e
def ArgsOKL : TPs → Prop
  | .nil => True
  | .cons p ps => ArgsOKP p ∧ ArgsOKL ps
end

mutual
/-- the parse tree (node ids `i, i+1, …` in document order) -/
def nodeTP : Nat → TP → Node
  | i, .text s => .text i s
  | i, .action a => .action i (actPipe a)
  | i, .ifE cond t e => .ifN i cond (nodesTL (i + 1) t) (nodesTL (i + 1 + cntRL (eraseL t)) e)
  | i, .withE cond t e => .withN i cond (nodesTL (i + 1) t) (nodesTL (i + 1 + cntRL (eraseL t)) e)
  | i, .range cond t e => .rangeN i cond (nodesTL (i + 1) t) (nodesTL (i + 1 + cntRL (eraseL t)) e)
def nodesTL : Nat → TPs → NodeList
  | _, .nil => .nil
  | i, .cons p ps => .cons (nodeTP i p) (nodesTL (i + cntRP (eraseP p)) ps)
end

/-! ### inversion of the analysis -/

theorem inv_text {v : Validators} {c c' : Ctx} {s : Bytes} {ep : ER} (h : analyseRP v c (.text s) = some (c', ep)) :
    ∃ out, scan c s = some (c', out) ∧ ep = .text out := by
  simp only [analyseRP] at h
  split at h
  · cases h
  · next c1 out hsc =>
    split at h
    · cases h
    · simp only [Option.some.injEq, Prod.mk.injEq] at h
      obtain ⟨rfl, rfl⟩ := h
      exact ⟨out, hsc, rfl⟩

theorem inv_action {v : Validators} {c c' : Ctx} {ep : ER} (h : analyseRP v c .action = some (c', ep)) :
    ∃ ch, actionStep v c = some (c', ch) ∧ ep = .action ch := by
  simp only [analyseRP] at h
  split at h
  · cases h
  · next c1 ch hact =>
    simp only [Option.some.injEq, Prod.mk.injEq] at h
    obtain ⟨rfl, rfl⟩ := h
    exact ⟨ch, hact, rfl⟩

theorem inv_if {v : Validators} {c c' : Ctx} {t e : RPs} {ep : ER} (h : analyseRP v c (.ifElse t e) = some (c', ep)) :
    ∃ ct et ce ee, analyseRL v c t = some (ct, et) ∧ analyseRL v c e = some (ce, ee) ∧ ct.eq ce = true ∧
      c' = join ct ce ∧ ep = .ifElse et ee := by
  simp only [analyseRP] at h
  split at h
  · next ct et ce ee ht he =>
    split at h
    · next heq =>
      simp only [Option.some.injEq, Prod.mk.injEq] at h
      obtain ⟨rfl, rfl⟩ := h
      exact ⟨ct, et, ce, ee, ht, he, heq, rfl, rfl⟩
    · cases h
  · cases h

theorem inv_range {v : Validators} {c c' : Ctx} {t e : RPs} {ep : ER} (h : analyseRP v c (.range t e) = some (c', ep)) :
    ∃ c0 et c1 et' ce ee, analyseRL v c t = some (c0, et) ∧ analyseRL v c0 t = some (c1, et') ∧
      analyseRL v c e = some (ce, ee) ∧ c0.eq c1 = true ∧ (join c0 c1).eq ce = true ∧
      c' = join (join c0 c1) ce ∧ ep = .range et ee := by
  simp only [analyseRP] at h
  split at h
  · cases h
  · next c0 et ht =>
    split at h
    · next c1 et' ce ee ht2 he =>
      split at h
      · next hcond =>
        simp only [Bool.and_eq_true] at hcond
        simp only [Option.some.injEq, Prod.mk.injEq] at h
        obtain ⟨rfl, rfl⟩ := h
        exact ⟨c0, et, c1, et', ce, ee, ht, ht2, he, hcond.1, hcond.2, rfl, rfl⟩
      · cases h
    · cases h

theorem inv_cons {v : Validators} {c cf : Ctx} {p : RP} {ps : RPs} {es : ERs}
    (h : analyseRL v c (.cons p ps) = some (cf, es)) :
    ∃ c1 ep es', analyseRP v c p = some (c1, ep) ∧ analyseRL v c1 ps = some (cf, es') ∧ es = .cons ep es' := by
  simp only [analyseRL] at h
  split at h
  · cases h
  · next c1 ep hp =>
    split at h
    · cases h
    · next cf' es' hrec =>
      simp only [Option.some.injEq, Prod.mk.injEq] at h
      obtain ⟨rfl, rfl⟩ := h
      exact ⟨c1, ep, es', hp, hrec, rfl⟩

theorem inv_nil {v : Validators} {c cf : Ctx} {es : ERs} (h : analyseRL v c .nil = some (cf, es)) :
    cf = c ∧ es = .nil := by
  simp only [analyseRL, Option.some.injEq, Prod.mk.injEq] at h
  exact ⟨h.1.symm, h.2.symm⟩

/-! ### the model's analysis of the parse tree -/

theorem escapeBranch_range (env : Env) (f : Nat) (tn : String) (e e1 es e2 : Esc) (c c0 c1 ce : Ctx) (t el : NodeList)
    (h1 : escapeList env f tn e c t = .ok (e1, c0))
    (hs : escapeList env f tn { output := e1.output, pristine := e1.pristine, memoPrefix := e1.memoPrefix } c0 t =
      .ok (es, c1))
    (h2 : escapeList env f tn e1 c el = .ok (e2, ce))
    (hc0 : c0.state ≠ .error) (hj : (join c0 c1).state ≠ .error) :
    escapeBranch env (f + 1) tn e c t el true = .ok (e2, join (join c0 c1) ce) := by
  have hc0' : (c0.state != State.error) = true := by simpa using hc0
  have hje : ((join c0 c1).state == State.error) = false := by simpa using hj
  simp only [escapeBranch, h1, hs, h2, bind, Out.bind, pure, hc0', Bool.true_and, if_true, hje, Bool.false_eq_true,
    if_false]

mutual
theorem refTP (env : Env) (hcsp : env.csp = false) (tn : String) :
    ∀ (p : TP) (i : Nat) (c c' : Ctx) (e : Esc) (ep : ER) (f : Nat),
      analyseRP env.v c (eraseP p) = some (c', ep) → Fresh tn i e → fuelRP (eraseP p) ≤ f → c.state ≠ .error →
      ArgsOKP p → escapeNode env f tn e c (nodeTP i p) = .ok (editsRP env.v tn i c (eraseP p) e, c')
  | .text s, i, c, c', e, ep, f, ha, hfr, hf, hcne, _ => by
    obtain ⟨f', rfl⟩ : ∃ f', f = f' + 1 := ⟨f - 1, by simp [fuelRP, eraseP] at hf; omega⟩
    obtain ⟨out, hsc, _⟩ := inv_text ha
    simp only [nodeTP, escapeNode, editsRP, eraseP]
    exact escapeTextNode_scan env hcsp tn e c c' i s out hsc (hfr i (Nat.le_refl _)).2
  | .action a, i, c, c', e, ep, f, ha, hfr, hf, hcne, hok => by
    obtain ⟨f', rfl⟩ : ∃ f', f = f' + 1 := ⟨f - 1, by simp [fuelRP, eraseP] at hf; omega⟩
    obtain ⟨ch, hact, _⟩ := inv_action ha
    simp only [nodeTP, escapeNode, editsRP, eraseP, hact]
    exact escapeAction_arg env tn e c c' ch i a hok hact (hfr i (Nat.le_refl _)).1
  | .ifE cond t el, i, c, c', e, ep, f, ha, hfr, hf, hcne, hok => by
    obtain ⟨f', rfl⟩ : ∃ f', f = f' + 2 := ⟨f - 2, by simp [fuelRP, eraseP] at hf; omega⟩
    simp only [fuelRP, eraseP] at hf
    obtain ⟨ct, et, ce, ee, ht, he, heq, rfl, _⟩ := inv_if ha
    have h1 := refTL env hcsp tn t (i + 1) c ct e et f' ht (Fresh_mono hfr (by omega)) (by omega) hcne hok.1
    have h2 := refTL env hcsp tn el (i + 1 + cntRL (eraseL t)) c ce _ ee f' he
      (FreshRL env.v tn (eraseL t) (i + 1) c e (Fresh_mono hfr (by omega))) (by omega) hcne hok.2
    simp only [nodeTP, escapeNode, editsRP, eraseP]
    exact escapeBranch_if env f' tn e _ _ c ct ce _ _ h1 h2
  | .withE cond t el, i, c, c', e, ep, f, ha, hfr, hf, hcne, hok => by
    obtain ⟨f', rfl⟩ : ∃ f', f = f' + 2 := ⟨f - 2, by simp [fuelRP, eraseP] at hf; omega⟩
    simp only [fuelRP, eraseP] at hf
    obtain ⟨ct, et, ce, ee, ht, he, heq, rfl, _⟩ := inv_if ha
    have h1 := refTL env hcsp tn t (i + 1) c ct e et f' ht (Fresh_mono hfr (by omega)) (by omega) hcne hok.1
    have h2 := refTL env hcsp tn el (i + 1 + cntRL (eraseL t)) c ce _ ee f' he
      (FreshRL env.v tn (eraseL t) (i + 1) c e (Fresh_mono hfr (by omega))) (by omega) hcne hok.2
    simp only [nodeTP, escapeNode, editsRP, eraseP]
    exact escapeBranch_if env f' tn e _ _ c ct ce _ _ h1 h2
  | .range cond t el, i, c, c', e, ep, f, ha, hfr, hf, hcne, hok => by
    obtain ⟨f', rfl⟩ : ∃ f', f = f' + 2 := ⟨f - 2, by simp [fuelRP, eraseP] at hf; omega⟩
    simp only [fuelRP, eraseP] at hf
    obtain ⟨c0, et, c1, et', ce, ee, ht, ht2, he, heq1, heq2, rfl, _⟩ := inv_range ha
    have hc0 : c0.state ≠ .error := noerrL env.v (eraseL t) c c0 et ht hcne
    have hc1 : c1.state ≠ .error := by rw [(ctx_eq_fields c0 c1 heq1).1]; exact hc0
    have hj := join_eq c0 c1 hc0 hc1 heq1
    have h1 := refTL env hcsp tn t (i + 1) c c0 e et f' ht (Fresh_mono hfr (by omega)) (by omega) hcne hok.1
    have hs := refTL env hcsp tn t (i + 1) c0 c1
      { output := (editsRL env.v tn (i + 1) c (eraseL t) e).output,
        pristine := (editsRL env.v tn (i + 1) c (eraseL t) e).pristine,
        memoPrefix := (editsRL env.v tn (i + 1) c (eraseL t) e).memoPrefix } et' f' ht2 (fun k _ => ⟨rfl, rfl⟩)
      (by omega) hc0 hok.1
    have h2 := refTL env hcsp tn el (i + 1 + cntRL (eraseL t)) c ce _ ee f' he
      (FreshRL env.v tn (eraseL t) (i + 1) c e (Fresh_mono hfr (by omega))) (by omega) hcne hok.2
    simp only [nodeTP, escapeNode, editsRP, eraseP]
    exact escapeBranch_range env f' tn e _ _ _ c c0 c1 ce _ _ h1 hs h2 hc0 (by rw [hj.1]; exact hc0)
theorem refTL (env : Env) (hcsp : env.csp = false) (tn : String) :
    ∀ (ps : TPs) (i : Nat) (c cf : Ctx) (e : Esc) (es : ERs) (f : Nat),
      analyseRL env.v c (eraseL ps) = some (cf, es) → Fresh tn i e → fuelRL (eraseL ps) ≤ f → c.state ≠ .error →
      ArgsOKL ps → escapeList env f tn e c (nodesTL i ps) = .ok (editsRL env.v tn i c (eraseL ps) e, cf)
  | .nil, i, c, cf, e, es, f, ha, _, hf, _, _ => by
    obtain ⟨f', rfl⟩ : ∃ f', f = f' + 1 := ⟨f - 1, by simp [fuelRL, eraseL] at hf; omega⟩
    obtain ⟨rfl, _⟩ := inv_nil ha
    simp [nodesTL, escapeList, editsRL, eraseL]
  | .cons p ps, i, c, cf, e, es, f, ha, hfr, hf, hcne, hok => by
    obtain ⟨f', rfl⟩ : ∃ f', f = f' + 1 := ⟨f - 1, by simp [fuelRL, eraseL] at hf; omega⟩
    simp only [fuelRL, eraseL] at hf
    obtain ⟨c1, ep, es', hp, hrec, _⟩ := inv_cons ha
    have h1 := refTP env hcsp tn p i c c1 e ep f' hp hfr (by omega) hcne hok.1
    have h2 := refTL env hcsp tn ps (i + cntRP (eraseP p)) c1 cf _ es' f' hrec
      (FreshRP env.v tn (eraseP p) i c e hfr) (by omega) (noerrP env.v (eraseP p) c c1 ep hp hcne) hok.2
    simp only [nodesTL, escapeList, h1, bind, Out.bind, editsRL, eraseL, hp]
    exact h2
end

/-! ### what the analysis leaves in the escaper -/

/-- the analysis only touches the action and text edits -/
def OtherEq (e e' : Esc) : Prop :=
  e'.output = e.output ∧ e'.derived = e.derived ∧ e'.called = e.called ∧ e'.tmplEdits = e.tmplEdits ∧
  e'.pristine = e.pristine ∧ e'.memoPrefix = e.memoPrefix ∧ e'.prefixReuse = e.prefixReuse

theorem OtherEq.refl (e : Esc) : OtherEq e e := ⟨rfl, rfl, rfl, rfl, rfl, rfl, rfl⟩
theorem OtherEq.trans {a b c : Esc} (h1 : OtherEq a b) (h2 : OtherEq b c) : OtherEq a c :=
  ⟨h2.1.trans h1.1, h2.2.1.trans h1.2.1, h2.2.2.1.trans h1.2.2.1, h2.2.2.2.1.trans h1.2.2.2.1,
   h2.2.2.2.2.1.trans h1.2.2.2.2.1, h2.2.2.2.2.2.1.trans h1.2.2.2.2.2.1, h2.2.2.2.2.2.2.trans h1.2.2.2.2.2.2⟩

/-- all pending action / text edits belong to template `tn` and have pairwise distinct keys -/
def KeysOK (tn : String) (e : Esc) : Prop :=
  (∀ p ∈ e.actionEdits, p.1.1 = tn) ∧ (e.actionEdits.map (·.1)).Nodup ∧
  (∀ p ∈ e.textEdits, p.1.1 = tn) ∧ (e.textEdits.map (·.1)).Nodup

theorem notin_of_any {β} (l : List (EditKey × β)) (k : EditKey) (h : l.any (fun p => p.1 == k) = false) :
    k ∉ l.map (·.1) := by
  intro hm
  obtain ⟨p, hp, rfl⟩ := List.mem_map.1 hm
  have := (List.any_eq_false.1 h) p hp
  simp at this

theorem KeysOK_addText (tn : String) (i : Nat) (c : Ctx) (s : Bytes) (e : Esc) (h : KeysOK tn e) (hfr : Fresh tn i e) :
    KeysOK tn { e with textEdits := addText tn i c s e.textEdits } := by
  refine ⟨h.1, h.2.1, ?_, ?_⟩ <;> simp only [addText] <;> split
  · intro p hp
    rcases List.mem_append.1 hp with hp | hp
    · exact h.2.2.1 p hp
    · simp at hp; rw [hp]
  · exact h.2.2.1
  · rw [List.map_append, List.nodup_append]
    refine ⟨h.2.2.2, by simp, ?_⟩
    intro a ha b hb
    simp at hb; subst hb
    intro hab; subst hab
    exact notin_of_any _ _ (hfr i (Nat.le_refl _)).2 ha
  · exact h.2.2.2

theorem KeysOK_addAction (tn : String) (i : Nat) (ch : List String) (e : Esc) (h : KeysOK tn e) (hfr : Fresh tn i e) :
    KeysOK tn { e with actionEdits := e.actionEdits ++ [((tn, i), ch)] } := by
  refine ⟨?_, ?_, h.2.2.1, h.2.2.2⟩
  · intro p hp
    rcases List.mem_append.1 hp with hp | hp
    · exact h.1 p hp
    · simp at hp; rw [hp]
  · rw [List.map_append, List.nodup_append]
    refine ⟨h.2.1, by simp, ?_⟩
    intro a ha b hb
    simp at hb; subst hb
    intro hab; subst hab
    exact notin_of_any _ _ (hfr i (Nat.le_refl _)).1 ha

mutual
theorem keepP (v : Validators) (tn : String) : ∀ (p : RP) (i : Nat) (c : Ctx) (e : Esc), Fresh tn i e → KeysOK tn e →
    OtherEq e (editsRP v tn i c p e) ∧ KeysOK tn (editsRP v tn i c p e)
  | .text s, i, c, e, hfr, hk => by
    simp only [editsRP]
    exact ⟨⟨rfl, rfl, rfl, rfl, rfl, rfl, rfl⟩, KeysOK_addText tn i c s e hk hfr⟩
  | .action, i, c, e, hfr, hk => by
    simp only [editsRP]
    split
    · exact ⟨⟨rfl, rfl, rfl, rfl, rfl, rfl, rfl⟩, KeysOK_addAction tn i _ e hk hfr⟩
    · exact ⟨OtherEq.refl e, hk⟩
  | .ifElse t el, i, c, e, hfr, hk => by
    simp only [editsRP]
    obtain ⟨h1, k1⟩ := keepL v tn t (i + 1) c e (Fresh_mono hfr (by omega)) hk
    obtain ⟨h2, k2⟩ := keepL v tn el (i + 1 + cntRL t) c _ (FreshRL v tn t (i + 1) c e (Fresh_mono hfr (by omega))) k1
    exact ⟨h1.trans h2, k2⟩
  | .range t el, i, c, e, hfr, hk => by
    simp only [editsRP]
    obtain ⟨h1, k1⟩ := keepL v tn t (i + 1) c e (Fresh_mono hfr (by omega)) hk
    obtain ⟨h2, k2⟩ := keepL v tn el (i + 1 + cntRL t) c _ (FreshRL v tn t (i + 1) c e (Fresh_mono hfr (by omega))) k1
    exact ⟨h1.trans h2, k2⟩
theorem keepL (v : Validators) (tn : String) : ∀ (ps : RPs) (i : Nat) (c : Ctx) (e : Esc), Fresh tn i e → KeysOK tn e →
    OtherEq e (editsRL v tn i c ps e) ∧ KeysOK tn (editsRL v tn i c ps e)
  | .nil, i, c, e, _, hk => by simp only [editsRL]; exact ⟨OtherEq.refl e, hk⟩
  | .cons p ps, i, c, e, hfr, hk => by
    simp only [editsRL]
    split
    · next c' _ _ =>
      obtain ⟨h1, k1⟩ := keepP v tn p i c e hfr hk
      obtain ⟨h2, k2⟩ := keepL v tn ps (i + cntRP p) c' _ (FreshRP v tn p i c e hfr) k1
      exact ⟨h1.trans h2, k2⟩
    · exact ⟨OtherEq.refl e, hk⟩
end

/-! ### `commit`: the rewritten tree -/

/-- lookup of the edits of node `k` of template `tn` -/
def findT (tn : String) (k : Nat) (e : Esc) : Option (EditKey × Bytes) := e.textEdits.find? (fun p => p.1 == (tn, k))
def findA (tn : String) (k : Nat) (e : Esc) : Option (EditKey × List String) :=
  e.actionEdits.find? (fun p => p.1 == (tn, k))

theorem find_append_other {β} (l : List (EditKey × β)) (tn : String) (i k : Nat) (x : β) (h : k < i) :
    (l ++ [((tn, i), x)]).find? (fun p => p.1 == (tn, k)) = l.find? (fun p => p.1 == (tn, k)) := by
  rw [List.find?_append]
  have : List.find? (fun p => p.1 == (tn, k)) [((tn, i), x)] = none := by simp; omega
  simp [this]

mutual
/-- the edits of a piece at ids `≥ i` do not affect the lookup of an earlier id -/
theorem findP (v : Validators) (tn : String) : ∀ (p : RP) (i : Nat) (c : Ctx) (e : Esc) (k : Nat), k < i →
    findT tn k (editsRP v tn i c p e) = findT tn k e ∧ findA tn k (editsRP v tn i c p e) = findA tn k e
  | .text s, i, c, e, k, hk => by
    simp only [editsRP, findT, findA, addText]
    refine ⟨?_, trivial⟩
    split
    · exact find_append_other _ tn i k _ hk
    · rfl
  | .action, i, c, e, k, hk => by
    simp only [editsRP, findT, findA]
    split
    · exact ⟨rfl, find_append_other _ tn i k _ hk⟩
    · exact ⟨rfl, rfl⟩
  | .ifElse t el, i, c, e, k, hk => by
    simp only [editsRP]
    obtain ⟨a1, a2⟩ := findL v tn el (i + 1 + cntRL t) c (editsRL v tn (i + 1) c t e) k (by omega)
    obtain ⟨b1, b2⟩ := findL v tn t (i + 1) c e k (by omega)
    exact ⟨a1.trans b1, a2.trans b2⟩
  | .range t el, i, c, e, k, hk => by
    simp only [editsRP]
    obtain ⟨a1, a2⟩ := findL v tn el (i + 1 + cntRL t) c (editsRL v tn (i + 1) c t e) k (by omega)
    obtain ⟨b1, b2⟩ := findL v tn t (i + 1) c e k (by omega)
    exact ⟨a1.trans b1, a2.trans b2⟩
theorem findL (v : Validators) (tn : String) : ∀ (ps : RPs) (i : Nat) (c : Ctx) (e : Esc) (k : Nat), k < i →
    findT tn k (editsRL v tn i c ps e) = findT tn k e ∧ findA tn k (editsRL v tn i c ps e) = findA tn k e
  | .nil, i, c, e, k, _ => by simp only [editsRL]; exact ⟨trivial, trivial⟩
  | .cons p ps, i, c, e, k, hk => by
    simp only [editsRL]
    split
    · next c' _ _ =>
      obtain ⟨a1, a2⟩ := findL v tn ps (i + cntRP p) c' (editsRP v tn i c p e) k (by omega)
      obtain ⟨b1, b2⟩ := findP v tn p i c e k hk
      exact ⟨a1.trans b1, a2.trans b2⟩
    · exact ⟨rfl, rfl⟩
end

mutual
/-- the tree after `commit`: emitted texts, pipelines with the sanitizer chains, same control structure -/
def outTP : Nat → TP → ER → Node
  | i, .text _, .text o => .text i o
  | i, .action a, .action ch => .action i (chainPipe a ch)
  | i, .ifE cond t e, .ifElse et ee => .ifN i cond (outTL (i + 1) t et) (outTL (i + 1 + cntRL (eraseL t)) e ee)
  | i, .withE cond t e, .ifElse et ee => .withN i cond (outTL (i + 1) t et) (outTL (i + 1 + cntRL (eraseL t)) e ee)
  | i, .range cond t e, .range et ee => .rangeN i cond (outTL (i + 1) t et) (outTL (i + 1 + cntRL (eraseL t)) e ee)
  | i, p, _ => nodeTP i p
def outTL : Nat → TPs → ERs → NodeList
  | i, .cons p ps, .cons ep es => .cons (outTP i p ep) (outTL (i + cntRP (eraseP p)) ps es)
  | i, ps, _ => nodesTL i ps
end


/-- `E` has the same edits as `e'` for the node ids below `n` -/
def Agree (tn : String) (n : Nat) (E e' : Esc) : Prop :=
  ∀ k, k < n → findT tn k E = findT tn k e' ∧ findA tn k E = findA tn k e'

theorem bind_some2 {α β γ : Type} (a : Option α) (b : Option β) (f : α → β → γ) (x : α) (y : β) (ha : a = some x)
    (hb : b = some y) : (do let t' ← a; let el' ← b; pure (f t' el')) = some (f x y) := by
  subst ha hb; rfl

mutual
theorem applyP (v : Validators) (tn : String) (E : Esc) : ∀ (p : TP) (i : Nat) (c c' : Ctx) (e : Esc) (ep : ER),
    analyseRP v c (eraseP p) = some (c', ep) → Fresh tn i e → ArgsOKP p →
    Agree tn (i + cntRP (eraseP p)) E (editsRP v tn i c (eraseP p) e) →
    Node.applyEdits tn E (nodeTP i p) = some (outTP i p ep)
  | .text s, i, c, c', e, ep, ha, hfr, _, hag => by
    obtain ⟨out, hsc, rfl⟩ := inv_text ha
    have hk := find_none_of_any _ _ (hfr i (Nat.le_refl _)).2
    have hf := (hag i (by simp [cntRP, eraseP])).1
    simp only [findT, editsRP, eraseP] at hf
    simp only [nodeTP, outTP, Node.applyEdits, hf, Option.some.injEq]
    simp only [scan] at hsc
    simp only [addText]
    cases het : escapeText false c s with
    | panic => simp [het] at hsc
    | done c2 nt =>
      cases nt with
      | none =>
        simp only [het, Option.some.injEq, Prod.mk.injEq] at hsc
        simp [hk, hsc.2]
      | some nb =>
        simp only [het, Option.some.injEq, Prod.mk.injEq] at hsc
        simp [List.find?_append, hk, hsc.2]
  | .action a, i, c, c', e, ep, ha, hfr, hok, hag => by
    obtain ⟨ch, hact, rfl⟩ := inv_action ha
    have hk := find_none_of_any _ _ (hfr i (Nat.le_refl _)).1
    have hf := (hag i (by simp [cntRP, eraseP])).2
    simp only [findA, editsRP, eraseP, hact] at hf
    have hf2 : E.actionEdits.find? (fun q => q.1 == (tn, i)) = some ((tn, i), ch) := by
      rw [hf]; simp [List.find?_append, hk]
    simp [nodeTP, outTP, Node.applyEdits, hf2, ensure_chain a hok ch]
  | .ifE cond t el, i, c, c', e, ep, ha, hfr, hok, hag => by
    obtain ⟨ct, et, ce, ee, ht, he, _, _, rfl⟩ := inv_if ha
    simp only [eraseP, editsRP, cntRP] at hag
    have h1 := applyL v tn E t (i + 1) c ct e et ht (Fresh_mono hfr (by omega)) hok.1 (fun k hk => by
      obtain ⟨a1, a2⟩ := hag k (by omega)
      obtain ⟨b1, b2⟩ := findL v tn (eraseL el) (i + 1 + cntRL (eraseL t)) c (editsRL v tn (i + 1) c (eraseL t) e) k hk
      exact ⟨a1.trans b1, a2.trans b2⟩)
    have h2 := applyL v tn E el (i + 1 + cntRL (eraseL t)) c ce _ ee he
      (FreshRL v tn (eraseL t) (i + 1) c e (Fresh_mono hfr (by omega))) hok.2 (fun k hk => hag k (by omega))
    simp only [nodeTP, outTP, Node.applyEdits]
    exact bind_some2 _ _ _ _ _ h1 h2
  | .withE cond t el, i, c, c', e, ep, ha, hfr, hok, hag => by
    obtain ⟨ct, et, ce, ee, ht, he, _, _, rfl⟩ := inv_if ha
    simp only [eraseP, editsRP, cntRP] at hag
    have h1 := applyL v tn E t (i + 1) c ct e et ht (Fresh_mono hfr (by omega)) hok.1 (fun k hk => by
      obtain ⟨a1, a2⟩ := hag k (by omega)
      obtain ⟨b1, b2⟩ := findL v tn (eraseL el) (i + 1 + cntRL (eraseL t)) c (editsRL v tn (i + 1) c (eraseL t) e) k hk
      exact ⟨a1.trans b1, a2.trans b2⟩)
    have h2 := applyL v tn E el (i + 1 + cntRL (eraseL t)) c ce _ ee he
      (FreshRL v tn (eraseL t) (i + 1) c e (Fresh_mono hfr (by omega))) hok.2 (fun k hk => hag k (by omega))
    simp only [nodeTP, outTP, Node.applyEdits]
    exact bind_some2 _ _ _ _ _ h1 h2
  | .range cond t el, i, c, c', e, ep, ha, hfr, hok, hag => by
    obtain ⟨c0, et, c1, et', ce, ee, ht, _, he, _, _, _, rfl⟩ := inv_range ha
    simp only [eraseP, editsRP, cntRP] at hag
    have h1 := applyL v tn E t (i + 1) c c0 e et ht (Fresh_mono hfr (by omega)) hok.1 (fun k hk => by
      obtain ⟨a1, a2⟩ := hag k (by omega)
      obtain ⟨b1, b2⟩ := findL v tn (eraseL el) (i + 1 + cntRL (eraseL t)) c (editsRL v tn (i + 1) c (eraseL t) e) k hk
      exact ⟨a1.trans b1, a2.trans b2⟩)
    have h2 := applyL v tn E el (i + 1 + cntRL (eraseL t)) c ce _ ee he
      (FreshRL v tn (eraseL t) (i + 1) c e (Fresh_mono hfr (by omega))) hok.2 (fun k hk => hag k (by omega))
    simp only [nodeTP, outTP, Node.applyEdits]
    exact bind_some2 _ _ _ _ _ h1 h2
theorem applyL (v : Validators) (tn : String) (E : Esc) : ∀ (ps : TPs) (i : Nat) (c cf : Ctx) (e : Esc) (es : ERs),
    analyseRL v c (eraseL ps) = some (cf, es) → Fresh tn i e → ArgsOKL ps →
    Agree tn (i + cntRL (eraseL ps)) E (editsRL v tn i c (eraseL ps) e) →
    NodeList.applyEdits tn E (nodesTL i ps) = some (outTL i ps es)
  | .nil, i, c, cf, e, es, ha, _, _, _ => by
    obtain ⟨_, rfl⟩ := inv_nil ha
    simp [nodesTL, outTL, NodeList.applyEdits]
  | .cons p ps, i, c, cf, e, es, ha, hfr, hok, hag => by
    obtain ⟨c1, ep, es', hp, hrec, rfl⟩ := inv_cons ha
    simp only [eraseL, editsRL, cntRL, hp] at hag
    have h1 := applyP v tn E p i c c1 e ep hp hfr hok.1 (fun k hk => by
      obtain ⟨a1, a2⟩ := hag k (by omega)
      obtain ⟨b1, b2⟩ := findL v tn (eraseL ps) (i + cntRP (eraseP p)) c1 (editsRP v tn i c (eraseP p) e) k hk
      exact ⟨a1.trans b1, a2.trans b2⟩)
    have h2 := applyL v tn E ps (i + cntRP (eraseP p)) c1 cf _ es' hrec (FreshRP v tn (eraseP p) i c e hfr) hok.2
      (fun k hk => hag k (by omega))
    simp only [nodesTL, outTL]
    exact applyEdits_cons tn E _ _ _ _ h1 h2
end

/-! ### execution: the control path and the printed values, computed from the data -/

/-- the items a `{{range}}` iterates over; `none` = not a list / map / nil (the model reports `unsupported`) -/
def rangeItems (v : Value) : Option (List Value) :=
  match v.indirect with
  | .list vs => some vs.toList
  | .map kvs => some (kvs.toList.map (·.2))
  | .nil => some []
  | .noValue => some []
  | _ => none

mutual
/-- the control path of an execution with dot `d` and root `r`: `1`/`0` for the arm of an `if`/`with`, the number of
    items for a `range` (followed by the paths of the iterations) -/
def pathP : TP → Value → Value → List Nat
  | .text _, _, _ => []
  | .action _, _, _ => []
  | .ifE cond t e, d, r =>
    match evalPipe d r cond with
    | .ok v => if v.isTrue then 1 :: pathL t d r else 0 :: pathL e d r
    | .error _ => []
  | .withE cond t e, d, r =>
    match evalPipe d r cond with
    | .ok v => if v.isTrue then 1 :: pathL t v r else 0 :: pathL e d r
    | .error _ => []
  | .range cond t e, d, r =>
    match evalPipe d r cond with
    | .ok v =>
      match rangeItems v with
      | some [] => 0 :: pathL e d r
      | some items => items.length :: items.flatMap (fun it => pathL t it r)
      | none => []
    | .error _ => []
def pathL : TPs → Value → Value → List Nat
  | .nil, _, _ => []
  | .cons p ps, d, r => pathP p d r ++ pathL ps d r
end

mutual
/-- the values printed by the executed actions, in order -/
def valsP : TP → Value → Value → List Value
  | .text _, _, _ => []
  | .action a, d, _ => match argVal d a with | .ok v => [v] | .error _ => []
  | .ifE cond t e, d, r =>
    match evalPipe d r cond with
    | .ok v => if v.isTrue then valsL t d r else valsL e d r
    | .error _ => []
  | .withE cond t e, d, r =>
    match evalPipe d r cond with
    | .ok v => if v.isTrue then valsL t v r else valsL e d r
    | .error _ => []
  | .range cond t e, d, r =>
    match evalPipe d r cond with
    | .ok v =>
      match rangeItems v with
      | some [] => valsL e d r
      | some items => items.flatMap (fun it => valsL t it r)
      | none => []
    | .error _ => []
def valsL : TPs → Value → Value → List Value
  | .nil, _, _ => []
  | .cons p ps, d, r => valsP p d r ++ valsL ps d r
end

/-- what a successful walk of a rewritten piece amounts to: `execRP` along the computed path with the computed
    values, whatever follows -/
def WalkOK (r : ExecRes) (out : Bytes) (x : Option (Bytes × List Nat × List Value)) (prest : List Nat)
    (vrest : List Value) : Prop :=
  ∃ o, x = some (o, prest, vrest) ∧ r.out = out ++ o


theorem walkNode_if (plain : Bool) (text : TextSet) (depth f : Nat) (d r : Value) (out : Bytes) (id : Nat) (p : Pipe)
    (t e : NodeList) :
    walkNode plain text depth (f + 1) d r out (.ifN id p t e) =
      match evalPipe d r p with
      | .error er => ⟨out, some er⟩
      | .ok v => if v.isTrue then walkList plain text depth f d r out t else walkList plain text depth f d r out e := by
  simp only [walkNode]
  cases evalPipe d r p <;> rfl

theorem walkNode_with (plain : Bool) (text : TextSet) (depth f : Nat) (d r : Value) (out : Bytes) (id : Nat) (p : Pipe)
    (t e : NodeList) :
    walkNode plain text depth (f + 1) d r out (.withN id p t e) =
      match evalPipe d r p with
      | .error er => ⟨out, some er⟩
      | .ok v => if v.isTrue then walkList plain text depth f v r out t else walkList plain text depth f d r out e := by
  simp only [walkNode]
  cases evalPipe d r p <;> rfl

theorem toList_nil_iff (vs : ValueList) : vs.toList = [] ↔ vs = .nil := by
  cases vs <;> simp [ValueList.toList]

theorem walkNode_range (plain : Bool) (text : TextSet) (depth f : Nat) (d r : Value) (out : Bytes) (id : Nat)
    (p : Pipe) (t e : NodeList) :
    walkNode plain text depth (f + 1) d r out (.rangeN id p t e) =
      match evalPipe d r p with
      | .error er => ⟨out, some er⟩
      | .ok v =>
        match rangeItems v with
        | some [] => walkList plain text depth f d r out e
        | some items => walkRange plain text depth f items r out t
        | none => ⟨out, some .unsupported⟩ := by
  simp only [walkNode]
  cases evalPipe d r p with
  | error er => rfl
  | ok v =>
    simp only [rangeItems]
    cases hv : v.indirect with
    | list vs => cases vs <;> simp [ValueList.toList]
    | map kvs => cases kvs <;> simp [KVList.toList]
    | nil => simp
    | noValue => simp
    | str b => simp
    | safe t b => simp
    | int n => simp
    | bool b => simp
    | ptr w => simp

theorem walkRange_nil (plain : Bool) (text : TextSet) (depth f : Nat) (r : Value) (out : Bytes) (body : NodeList) :
    walkRange plain text depth (f + 1) [] r out body = ⟨out, none⟩ := by simp only [walkRange]

theorem walkRange_zero (plain : Bool) (text : TextSet) (depth : Nat) (items : List Value) (r : Value) (out : Bytes)
    (body : NodeList) : (walkRange plain text depth 0 items r out body).err = some .fuel := by simp [walkRange]

theorem walkRange_cons (plain : Bool) (text : TextSet) (depth f : Nat) (x : Value) (rest : List Value) (r : Value)
    (out : Bytes) (body : NodeList) :
    walkRange plain text depth (f + 1) (x :: rest) r out body =
      (match (walkList plain text depth f x r out body).err with
       | some _ => walkList plain text depth f x r out body
       | none => walkRange plain text depth f rest r (walkList plain text depth f x r out body).out body) := by
  rw [walkRange]
  cases (walkList plain text depth f x r out body).err <;> rfl

theorem walkList_zero (plain : Bool) (text : TextSet) (depth : Nat) (d r : Value) (out : Bytes) (l : NodeList) :
    (walkList plain text depth 0 d r out l).err = some .fuel := by simp [walkList]

/-! ### a successful walk of the rewritten tree is an execution along the computed path -/

mutual
theorem wP (v : Validators) (text : TextSet) (depth : Nat) : ∀ (p : TP) (i : Nat) (c c' : Ctx) (ep : ER) (f : Nat)
    (d r : Value) (out : Bytes) (prest : List Nat) (vrest : List Value),
    analyseRP v c (eraseP p) = some (c', ep) → ArgsOKP p →
    (walkNode false text depth f d r out (outTP i p ep)).err = none →
    WalkOK (walkNode false text depth f d r out (outTP i p ep)) out
      (execRP ep (pathP p d r ++ prest) (valsP p d r ++ vrest)) prest vrest
  | p, i, c, c', ep, 0, d, r, out, prest, vrest, _, _, h => by simp [walkNode_zero] at h
  | .text s, i, c, c', ep, f + 1, d, r, out, prest, vrest, ha, _, h => by
    obtain ⟨o, _, rfl⟩ := inv_text ha
    simp only [outTP, walkNode_text, pathP, valsP, List.nil_append, execRP]
    exact ⟨o, rfl, rfl⟩
  | .action a, i, c, c', ep, f + 1, d, r, out, prest, vrest, ha, hok, h => by
    obtain ⟨ch, _, rfl⟩ := inv_action ha
    simp only [outTP] at h ⊢
    rw [walk_action text depth f d r out i a hok ch] at h ⊢
    simp only [pathP, valsP, List.nil_append]
    cases hav : argVal d a with
    | error e => simp [hav] at h
    | ok x =>
      simp only [hav] at h ⊢
      cases hr : runChain ch x with
      | error e => cases e <;> simp [hr] at h
      | ok w =>
        cases w <;> simp only [hr] at h ⊢ <;> try (simp at h)
        next b => exact ⟨b, by simp [execRP, hr], rfl⟩
  | .ifE cond t el, i, c, c', ep, f + 1, d, r, out, prest, vrest, ha, hok, h => by
    obtain ⟨ct, et, ce, ee, ht, he, _, _, rfl⟩ := inv_if ha
    simp only [outTP] at h ⊢
    rw [walkNode_if] at h ⊢
    simp only [pathP, valsP]
    cases hev : evalPipe d r cond with
    | error er => simp [hev] at h
    | ok x =>
      simp only [hev] at h ⊢
      by_cases hx : x.isTrue = true
      · simp only [hx, if_true] at h ⊢
        have := wL v text depth t (i + 1) c ct et f d r out prest vrest ht hok.1 h
        simpa [execRP] using this
      · simp only [hx, Bool.false_eq_true, if_false] at h ⊢
        have := wL v text depth el (i + 1 + cntRL (eraseL t)) c ce ee f d r out prest vrest he hok.2 h
        simpa [execRP] using this
  | .withE cond t el, i, c, c', ep, f + 1, d, r, out, prest, vrest, ha, hok, h => by
    obtain ⟨ct, et, ce, ee, ht, he, _, _, rfl⟩ := inv_if ha
    simp only [outTP] at h ⊢
    rw [walkNode_with] at h ⊢
    simp only [pathP, valsP]
    cases hev : evalPipe d r cond with
    | error er => simp [hev] at h
    | ok x =>
      simp only [hev] at h ⊢
      by_cases hx : x.isTrue = true
      · simp only [hx, if_true] at h ⊢
        have := wL v text depth t (i + 1) c ct et f x r out prest vrest ht hok.1 h
        simpa [execRP] using this
      · simp only [hx, Bool.false_eq_true, if_false] at h ⊢
        have := wL v text depth el (i + 1 + cntRL (eraseL t)) c ce ee f d r out prest vrest he hok.2 h
        simpa [execRP] using this
  | .range cond t el, i, c, c', ep, f + 1, d, r, out, prest, vrest, ha, hok, h => by
    obtain ⟨c0, et, c1, et', ce, ee, ht, _, he, _, _, _, rfl⟩ := inv_range ha
    simp only [outTP] at h ⊢
    rw [walkNode_range] at h ⊢
    simp only [pathP, valsP]
    cases hev : evalPipe d r cond with
    | error er => simp [hev] at h
    | ok x =>
      simp only [hev] at h ⊢
      cases hit : rangeItems x with
      | none => simp [hit] at h
      | some items =>
        cases items with
        | nil =>
          simp only [hit] at h ⊢
          have := wL v text depth el (i + 1 + cntRL (eraseL t)) c ce ee f d r out prest vrest he hok.2 h
          simpa [execRP] using this
        | cons it0 its =>
          simp only [hit] at h ⊢
          -- the iterations
          have key : ∀ (items : List Value) (f : Nat) (out : Bytes),
              (walkRange false text depth f items r out (outTL (i + 1) t et)).err = none →
              WalkOK (walkRange false text depth f items r out (outTL (i + 1) t et)) out
                (iterN items.length (execRL et) (items.flatMap (fun it => pathL t it r) ++ prest)
                  (items.flatMap (fun it => valsL t it r) ++ vrest)) prest vrest := by
            intro items
            induction items with
            | nil =>
              intro f out h
              cases f with
              | zero => simp [walkRange_zero] at h
              | succ f => exact ⟨[], by simp [iterN], by simp [walkRange_nil]⟩
            | cons y ys ih =>
              intro f out h
              cases f with
              | zero => simp [walkRange_zero] at h
              | succ f =>
                rw [walkRange_cons] at h ⊢
                cases hw : (walkList false text depth f y r out (outTL (i + 1) t et)).err with
                | some e => simp [hw] at h
                | none =>
                  simp only [hw] at h ⊢
                  obtain ⟨o1, hx1, ho1⟩ := wL v text depth t (i + 1) c c0 et f y r out
                    (ys.flatMap (fun it => pathL t it r) ++ prest) (ys.flatMap (fun it => valsL t it r) ++ vrest) ht
                    hok.1 hw
                  rw [ho1] at h ⊢
                  obtain ⟨o2, hx2, ho2⟩ := ih f (out ++ o1) h
                  refine ⟨o1 ++ o2, ?_, by rw [ho2]; simp⟩
                  simp only [List.length_cons, iterN, List.flatMap_cons, List.append_assoc, hx1, hx2]
          obtain ⟨o, hx, ho⟩ := key (it0 :: its) f out h
          refine ⟨o, ?_, ho⟩
          simp only [execRP, List.cons_append]
          rw [if_neg (by simp)]
          simpa using hx
theorem wL (v : Validators) (text : TextSet) (depth : Nat) : ∀ (ps : TPs) (i : Nat) (c cf : Ctx) (es : ERs) (f : Nat)
    (d r : Value) (out : Bytes) (prest : List Nat) (vrest : List Value),
    analyseRL v c (eraseL ps) = some (cf, es) → ArgsOKL ps →
    (walkList false text depth f d r out (outTL i ps es)).err = none →
    WalkOK (walkList false text depth f d r out (outTL i ps es)) out
      (execRL es (pathL ps d r ++ prest) (valsL ps d r ++ vrest)) prest vrest
  | ps, i, c, cf, es, 0, d, r, out, prest, vrest, _, _, h => by simp [walkList_zero] at h
  | .nil, i, c, cf, es, f + 1, d, r, out, prest, vrest, ha, _, h => by
    obtain ⟨_, rfl⟩ := inv_nil ha
    exact ⟨[], by simp [execRL, pathL, valsL], by simp [outTL, nodesTL, walkList]⟩
  | .cons p ps, i, c, cf, es, f + 1, d, r, out, prest, vrest, ha, hok, h => by
    obtain ⟨c1, ep, es', hp, hrec, rfl⟩ := inv_cons ha
    simp only [outTL] at h ⊢
    rw [walkList_cons] at h ⊢
    cases hw : (walkNode false text depth f d r out (outTP i p ep)).err with
    | some e => simp [hw] at h
    | none =>
      simp only [hw] at h ⊢
      obtain ⟨o1, hx1, ho1⟩ := wP v text depth p i c c1 ep f d r out (pathL ps d r ++ prest) (valsL ps d r ++ vrest) hp
        hok.1 hw
      rw [ho1] at h ⊢
      obtain ⟨o2, hx2, ho2⟩ := wL v text depth ps (i + cntRP (eraseP p)) c1 cf es' f d r (out ++ o1) prest vrest hrec
        hok.2 h
      refine ⟨o1 ++ o2, ?_, by rw [ho2]; simp⟩
      simp only [pathL, valsL, List.append_assoc, execRL, hx1, hx2]
end

/-! ### `escapeTree`, `commit` and `Execute` for one top-level template, generically -/

/-- the start of the scratch escaper `escapeTemplateBody` analyses the body in -/
def escScratch (name : String) : Esc :=
  { output := [(name, {})], pristine := [], memoPrefix := [(name, ([], false))] }

/-- the escaper after the analysis with pending edits `A`, `X` -/
def escAfterG (name : String) (cf : Ctx) (A : List (EditKey × List String)) (X : List (EditKey × Bytes)) : Esc :=
  { output := [(name, cf)], called := [name], memoPrefix := [(name, ([], false))], actionEdits := A, textEdits := X }

theorem esc_of_otherEq (name : String) (e1 : Esc) (h : OtherEq (escScratch name) e1) :
    e1 = { output := [(name, {})], memoPrefix := [(name, ([], false))], actionEdits := e1.actionEdits,
           textEdits := e1.textEdits } := by
  obtain ⟨h1, h2, h3, h4, h5, h6, h7⟩ := h
  cases e1
  simp only [escScratch] at h1 h2 h3 h4 h5 h6 h7
  simp_all

theorem escapeTree_gen (env : Env) (name : String) (tr : Tree) (cf : Ctx) (e1 : Esc)
    (hlook : env.text.lookup name = some (some tr)) (f' : Nat)
    (hl : escapeList env f' name (escScratch name) {} tr.root = .ok (e1, cf))
    (hoe : OtherEq (escScratch name) e1) (hk : KeysOK name e1) (hne : cf.state ≠ .error) :
    escapeTree env (f' + 3) {} {} name = .ok (escAfterG name cf e1.actionEdits e1.textEdits, cf, name) := by
  have he1 := esc_of_otherEq name e1 hoe
  have hm1 := mergeEdits_ok e1.actionEdits [] (by simp) hk.2.1
  have hm2 := mergeEdits_ok e1.textEdits [] (by simp) hk.2.2.2
  have hm3 : mergeEdits ([] : List (EditKey × String)) [] = .ok [] := by simp [mergeEdits, List.foldlM, pure]
  have hne' : (cf.state != State.error) = true := by simpa using hne
  simp only [List.nil_append] at hm1 hm2
  rw [he1] at hl
  simp only [escScratch] at hl
  simp only [escapeTree, mangle_empty]
  simp [Esc.template, hlook, alookup, aset, computeOutCtx, escapeTemplateBody, hl, bind, Out.bind, hne',
    hm1, hm2, hm3, pure, escAfterG]


theorem commit_gen (name : String) (tr : Tree) (cf : Ctx) (A : List (EditKey × List String))
    (X : List (EditKey × Bytes)) (root' : NodeList)
    (hA : ∀ p ∈ A, p.1.1 = name) (hX : ∀ p ∈ X, p.1.1 = name)
    (happ : NodeList.applyEdits name { escAfterG name cf A X with pristine := [(name, tr)] } tr.root = some root') :
    ∃ E', commit [(name, some tr)] (escAfterG name cf A X) = .ok ([(name, some { tr with root := root' })], E') := by
  have hnames : ∀ x ∈ A.map (·.1.1) ++ ([] : List (EditKey × String)).map (·.1.1) ++ X.map (·.1.1), x = name := by
    intro x hx
    simp only [List.map_nil, List.append_nil, List.mem_append, List.mem_map] at hx
    rcases hx with ⟨p, hp, rfl⟩ | ⟨p, hp, rfl⟩
    · exact hA p hp
    · exact hX p hp
  unfold commit
  simp only [escAfterG, List.all_cons, List.all_nil, lookup_single, Option.isSome_some, Bool.true_or, Bool.and_true,
    Bool.not_true, Bool.false_eq_true, if_false, List.foldl_cons, List.foldl_nil, alookup, List.find?_nil,
    Option.isSome_none, List.nil_append, bind, Out.bind]
  rcases eraseDups_const name _ hnames with h0 | h1
  · rw [h0]
    have hA0 : A = [] := by
      cases hh : A with
      | nil => rfl
      | cons p l => rw [hh] at h0; simp [List.eraseDups_cons] at h0
    have hX0 : X = [] := by
      cases hh : X with
      | nil => rfl
      | cons p l => rw [hA0, hh] at h0; simp [List.eraseDups_cons] at h0
    have hid := applyEdits_list_nil name { escAfterG name cf A X with pristine := [(name, tr)] }
      (by simp [escAfterG, hA0]) (by simp [escAfterG, hX0]) (by simp [escAfterG]) tr.root
    rw [happ] at hid
    simp only [Option.some.injEq] at hid
    simp only [List.foldlM, pure, hid]
    exact ⟨_, rfl⟩
  · rw [h1]
    have happ' := happ
    simp only [escAfterG] at happ'
    simp only [List.foldlM, lookup_single, bind, Out.bind, pure, happ', set_single]
    exact ⟨_, rfl⟩

/-- the first `Execute` on the world after `New`, `Parse`: analysis, commit, walk of the committed tree -/
theorem apiExecute_gen (v : Validators) (fuel : Nat) (name : String) (tr tr' : Tree) (cf : Ctx) (E E' : Esc) (d : Value)
    (het : escapeTree ⟨[(name, some tr)], fun n => (alookup [(name, 1)] n).isSome, false, v⟩ fuel {} {} name =
      .ok (E, cf, name))
    (hfin : finalError cf = none) (hc : commit [(name, some tr)] E = .ok ([(name, some tr')], E')) :
    (apiExecute (setupW v fuel name tr) 0 d).2 = resOf (walkList false [(name, some tr')] 0 fuel d d [] tr'.root) := by
  have ht : escapeTemplateTop (worldE v fuel name tr) 0 name =
      .inr (markOk (worldE v fuel name tr) 0 name [(name, some tr')] E', none) := by
    unfold escapeTemplateTop
    simp only [worldE_ns]
    have hfu : (worldE v fuel name tr).fuel = fuel := rfl
    have hv : (worldE v fuel name tr).v = v := rfl
    have hesc : (nsE name tr).esc = {} := rfl
    have hset : (nsE name tr).set = [(name, 1)] := rfl
    have hcsp : (nsE name tr).csp = false := rfl
    have htx : (nsE name tr).text = [(name, some tr)] := rfl
    rw [hfu, hv, hesc, hset, hcsp, htx, het]
    simp only [hfin, hc]
  have hobj : (setupW v fuel name tr).obj 0 =
      some (1, { ns := 0, name := name, registered := true, treeNil := false }) := by
    simp [setupW, World.obj, nlookup, bind, Option.bind]
  unfold apiExecute
  simp only [hobj, setNs_escaped, Bool.false_eq_true, if_false, ht]
  simp [markOk, worldE_ns, nsE, alookup, worldE, World.setNs, World.setObj, nset, nlookup, textExecute, World.ns,
    TextSet.lookup, resOf]
  rfl


/-- **C01 for a single template with `if` / `with` / `range` through the API state machine.**
    `t := New(name); t.Parse(text)` where `tr` is the parse tree of a template in the grammar (`tps`, with its
    condition pipelines and action arguments), then `t.Execute(dᵢ)` for two data values. If the analysis accepts
    (`analyseRL`, final context without error in the text state), every static text is `Simple`, the two data values
    induce the same control path (`pathL`: truth values of the conditions, numbers of range items — computed by
    `evalPipe` / `Value.isTrue` as the walk does), the values they print are untrusted, and both executions return
    `ok`, then the outputs have the same markup skeleton and end in the data state. -/
theorem C01_api_branch_template (v : Validators) (fuel : Nat) (name : String) (tr : Tree) (tps : TPs) (cf : Ctx)
    (es : ERs) (hn : tr.name = name) (hroot : tr.root = nodesTL 0 tps) (hok : ArgsOKL tps)
    (hs : SimpleRL v {} (eraseL tps)) (ha : analyseRL v {} (eraseL tps) = some (cf, es))
    (hfin : finalError cf = none) (hf : fuelRL (eraseL tps) + 3 ≤ fuel) (d1 d2 : Value)
    (hpath : pathL tps d1 d1 = pathL tps d2 d2)
    (hu1 : ∀ x ∈ valsL tps d1 d1, Untrusted x) (hu2 : ∀ x ∈ valsL tps d2 d2, Untrusted x)
    (o1 o2 : Bytes) (w1 w2 : World)
    (h1 : Api.step (setup v fuel name tr) (.exec 0 d1) = (w1, .exec (.ok o1)))
    (h2 : Api.step (setup v fuel name tr) (.exec 0 d2) = (w2, .exec (.ok o2))) :
    skeleton (HtmlTok.tokenize o1).tokens = skeleton (HtmlTok.tokenize o2).tokens ∧
    (HtmlTok.tokenize o1).final = .data ∧ (HtmlTok.tokenize o2).final = .data := by
  obtain ⟨f', rfl⟩ : ∃ f', fuel = f' + 3 := ⟨fuel - 3, by omega⟩
  have hst : cf.state = .text := by
    by_cases hc : cf.state = .text
    · exact hc
    · exfalso
      unfold finalError at hfin
      split at hfin
      · next h => cases he : cf.err <;> simp_all
      · simp [hc] at hfin
  have hne : cf.state ≠ .error := by rw [hst]; decide
  have hfresh : Fresh name 0 (escScratch name) := fun k _ => ⟨rfl, rfl⟩
  have hk0 : KeysOK name (escScratch name) := ⟨by simp [escScratch], by simp [escScratch], by simp [escScratch],
    by simp [escScratch]⟩
  have hl := refTL ⟨[(name, some tr)], fun n => (alookup [(name, 1)] n).isSome, false, v⟩ rfl name tps 0 {} cf
    (escScratch name) es f' ha hfresh (by omega) (by decide) hok
  obtain ⟨hoe, hk⟩ := keepL v name (eraseL tps) 0 {} (escScratch name) hfresh hk0
  rw [← hroot] at hl
  have het := escapeTree_gen ⟨[(name, some tr)], fun n => (alookup [(name, 1)] n).isSome, false, v⟩ name tr cf _
    (by simp [TextSet.lookup]) f' hl hoe hk hne
  have happ := applyL v name
    { escAfterG name cf (editsRL v name 0 {} (eraseL tps) (escScratch name)).actionEdits
        (editsRL v name 0 {} (eraseL tps) (escScratch name)).textEdits with pristine := [(name, tr)] }
    tps 0 {} cf (escScratch name) es ha hfresh hok (fun k _ => ⟨rfl, rfl⟩)
  rw [← hroot] at happ
  obtain ⟨E', hc⟩ := commit_gen name tr cf _ _ (outTL 0 tps es) hk.1 hk.2.2.1 happ
  rw [setup_eq v (f' + 3) name tr hn] at h1 h2
  have r1 := apiExecute_gen v (f' + 3) name tr _ cf _ E' d1 het hfin hc
  have r2 := apiExecute_gen v (f' + 3) name tr _ cf _ E' d2 het hfin hc
  simp only [Api.step] at h1 h2
  have e1 : (apiExecute (setupW v (f' + 3) name tr) 0 d1).2 = .ok o1 := by
    have := congrArg Prod.snd h1; simpa using this
  have e2 : (apiExecute (setupW v (f' + 3) name tr) 0 d2).2 = .ok o2 := by
    have := congrArg Prod.snd h2; simpa using this
  rw [r1] at e1
  rw [r2] at e2
  obtain ⟨n1, rfl⟩ := resOf_ok e1
  obtain ⟨n2, rfl⟩ := resOf_ok e2
  obtain ⟨p1, hx1, ho1⟩ := wL v _ 0 tps 0 {} cf es (f' + 3) d1 d1 [] [] [] ha hok n1
  obtain ⟨p2, hx2, ho2⟩ := wL v _ 0 tps 0 {} cf es (f' + 3) d2 d2 [] [] [] ha hok n2
  simp only [List.append_nil] at hx1 hx2
  rw [← hpath] at hx2
  rw [ho1, ho2]
  simp only [List.nil_append]
  have := C01_loops v (eraseL tps) cf es _ [] [] _ [] _ [] p1 p2 hs ha hu1 hu2 hx1 hx2
  exact ⟨this.1, this.2.2 hst⟩


/-! ### non-vacuity: `{{range .Items}}<b>{{.}}</b>{{else}}-{{end}}` through `New`, `Parse`, `Execute` -/

def itemsPipe : Pipe := { cmds := [{ args := [.field ["Items"]] }] }

def exLoopT : TPs :=
  .cons (.range itemsPipe (.cons (.text rT0) (.cons (.action .dot) (.cons (.text rT1) .nil))) (.cons (.text rT2) .nil))
    .nil

theorem exLoopT_erase : eraseL exLoopT = exLoop := rfl

def exLoopTree : Tree := { name := "t", root := nodesTL 0 exLoopT }

def loopData (b1 b2 : Bytes) : Value :=
  .map (.cons "Items" (.list (.cons (.str b1) (.cons (.str b2) .nil))) .nil)

theorem loopData_eval (b1 b2 : Bytes) :
    evalPipe (loopData b1 b2) (loopData b1 b2) itemsPipe = .ok (.list (.cons (.str b1) (.cons (.str b2) .nil))) := by
  simp [evalPipe, evalPipe.go, itemsPipe, evalCmd, fieldChain, loopData, Value.indirect, KVList.get, bind,
    Except.bind]

theorem loopData_path (b1 b2 : Bytes) : pathL exLoopT (loopData b1 b2) (loopData b1 b2) = [2] := by
  simp [exLoopT, pathL, pathP, loopData_eval, rangeItems, Value.indirect, ValueList.toList]

theorem loopData_vals (b1 b2 : Bytes) : valsL exLoopT (loopData b1 b2) (loopData b1 b2) = [.str b1, .str b2] := by
  simp [exLoopT, valsL, valsP, loopData_eval, rangeItems, Value.indirect, ValueList.toList, argVal]

/-- the model's API run returns `ok` on the example (kernel evaluation of the whole state machine) -/
example : retOk (Api.step (setup v0 100 "t" exLoopTree) (.exec 0 (loopData [60] [38]))).2 = true := by
  decide +kernel

theorem ex_api_loop (a1 a2 b1 b2 o1 o2 : Bytes) (w1 w2 : World)
    (h1 : Api.step (setup v0 100 "t" exLoopTree) (.exec 0 (loopData a1 a2)) = (w1, .exec (.ok o1)))
    (h2 : Api.step (setup v0 100 "t" exLoopTree) (.exec 0 (loopData b1 b2)) = (w2, .exec (.ok o2))) :
    skeleton (HtmlTok.tokenize o1).tokens = skeleton (HtmlTok.tokenize o2).tokens ∧
    (HtmlTok.tokenize o1).final = .data ∧ (HtmlTok.tokenize o2).final = .data :=
  C01_api_branch_template v0 100 "t" exLoopTree exLoopT {} exLoopOut rfl rfl
    ⟨⟨⟨trivial, Or.inl rfl, trivial, trivial⟩, trivial, trivial⟩, trivial⟩ r_simple r_analyse (by decide) (by decide) _ _
    (by rw [loopData_path, loopData_path])
    (by rw [loopData_vals]; intro x hx; simp at hx; rcases hx with rfl | rfl <;> (intro t y h; simp [Value.indirect] at h))
    (by rw [loopData_vals]; intro x hx; simp at hx; rcases hx with rfl | rfl <;> (intro t y h; simp [Value.indirect] at h))
    o1 o2 w1 w2 h1 h2

/-! ## (2) a straight-line main template calling a straight-line helper from the top-level text context -/

/-- pieces of the main template: `call` is `{{template "h" .}}` -/
inductive MP where
  | text (s : Bytes)
  | action (a : Arg)
  | call
  deriving DecidableEq

/-- what the analysis leaves of the main template -/
inductive EM where
  | text (out : Bytes)
  | action (a : Arg) (chain : List String)
  | call
  deriving DecidableEq

/-- analysis of the main template, given that the helper maps the empty context to the empty context: a call is
    accepted only in the empty context (top-level text, outside any element), where `mangle` is the identity -/
def analyseM (v : Validators) : Ctx → List MP → Option (Ctx × List EM)
  | c, [] => some (c, [])
  | c, .text s :: ps =>
    match scan c s with
    | none => none
    | some (c', out) =>
      if c'.state == .error then none
      else match analyseM v c' ps with
        | none => none
        | some (cf, es) => some (cf, .text out :: es)
  | c, .action a :: ps =>
    match actionStep v c with
    | none => none
    | some (c', ch) =>
      match analyseM v c' ps with
      | none => none
      | some (cf, es) => some (cf, .action a ch :: es)
  | c, .call :: ps =>
    if c = {} then
      match analyseM v {} ps with
      | none => none
      | some (cf, es) => some (cf, .call :: es)
    else none

/-- the main template with the helper's pieces `hps` inlined at the calls -/
def inlineP (hps : List Piece) : List MP → List Piece
  | [] => []
  | .text s :: ps => .text s :: inlineP hps ps
  | .action _ :: ps => .action :: inlineP hps ps
  | .call :: ps => hps ++ inlineP hps ps

/-- the emitted pieces with the helper's emitted pieces `esH` inlined -/
def inlineE (esH : List EPiece) : List EM → List EPiece
  | [] => []
  | .text o :: es => .text o :: inlineE esH es
  | .action _ ch :: es => .action ch :: inlineE esH es
  | .call :: es => esH ++ inlineE esH es

theorem analyse_append (v : Validators) : ∀ (ps qs : List Piece) (c c1 cf : Ctx) (e1 e2 : List EPiece),
    analyse v c ps = some (c1, e1) → analyse v c1 qs = some (cf, e2) → analyse v c (ps ++ qs) = some (cf, e1 ++ e2)
  | [], qs, c, c1, cf, e1, e2, h1, h2 => by
    simp only [analyse, Option.some.injEq, Prod.mk.injEq] at h1
    obtain ⟨rfl, rfl⟩ := h1
    simpa using h2
  | .text s :: ps, qs, c, c1, cf, e1, e2, h1, h2 => by
    simp only [analyse] at h1
    cases hsc : scan c s with
    | none => simp [hsc] at h1
    | some r =>
      obtain ⟨c', out⟩ := r
      simp only [hsc] at h1
      split at h1
      · cases h1
      · next hne =>
        cases hrec : analyse v c' ps with
        | none => simp [hrec] at h1
        | some r2 =>
          obtain ⟨cx, ex⟩ := r2
          simp only [hrec, Option.some.injEq, Prod.mk.injEq] at h1
          obtain ⟨rfl, rfl⟩ := h1
          have := analyse_append v ps qs c' cx cf ex e2 hrec h2
          simp [analyse, hsc, hne, this]
  | .action :: ps, qs, c, c1, cf, e1, e2, h1, h2 => by
    simp only [analyse] at h1
    cases hact : actionStep v c with
    | none => simp [hact] at h1
    | some r =>
      obtain ⟨c', ch⟩ := r
      simp only [hact] at h1
      cases hrec : analyse v c' ps with
      | none => simp [hrec] at h1
      | some r2 =>
        obtain ⟨cx, ex⟩ := r2
        simp only [hrec, Option.some.injEq, Prod.mk.injEq] at h1
        obtain ⟨rfl, rfl⟩ := h1
        have := analyse_append v ps qs c' cx cf ex e2 hrec h2
        simp [analyse, hact, this]

/-- the analysis of the main template is the analysis of the inlined template -/
theorem analyse_inline (v : Validators) (hps : List Piece) (esH : List EPiece) (hH : analyse v {} hps = some ({}, esH)) :
    ∀ (ms : List MP) (c cf : Ctx) (es : List EM), analyseM v c ms = some (cf, es) →
      analyse v c (inlineP hps ms) = some (cf, inlineE esH es)
  | [], c, cf, es, h => by
    simp only [analyseM, Option.some.injEq, Prod.mk.injEq] at h
    obtain ⟨rfl, rfl⟩ := h
    simp [inlineP, inlineE, analyse]
  | .text s :: ms, c, cf, es, h => by
    simp only [analyseM] at h
    cases hsc : scan c s with
    | none => simp [hsc] at h
    | some r =>
      obtain ⟨c', out⟩ := r
      simp only [hsc] at h
      split at h
      · cases h
      · next hne =>
        cases hrec : analyseM v c' ms with
        | none => simp [hrec] at h
        | some r2 =>
          obtain ⟨cx, ex⟩ := r2
          simp only [hrec, Option.some.injEq, Prod.mk.injEq] at h
          obtain ⟨rfl, rfl⟩ := h
          have := analyse_inline v hps esH hH ms c' cx ex hrec
          simp [inlineP, inlineE, analyse, hsc, hne, this]
  | .action a :: ms, c, cf, es, h => by
    simp only [analyseM] at h
    cases hact : actionStep v c with
    | none => simp [hact] at h
    | some r =>
      obtain ⟨c', ch⟩ := r
      simp only [hact] at h
      cases hrec : analyseM v c' ms with
      | none => simp [hrec] at h
      | some r2 =>
        obtain ⟨cx, ex⟩ := r2
        simp only [hrec, Option.some.injEq, Prod.mk.injEq] at h
        obtain ⟨rfl, rfl⟩ := h
        have := analyse_inline v hps esH hH ms c' cx ex hrec
        simp [inlineP, inlineE, analyse, hact, this]
  | .call :: ms, c, cf, es, h => by
    simp only [analyseM] at h
    split at h
    · next hc =>
      subst hc
      cases hrec : analyseM v {} ms with
      | none => simp [hrec] at h
      | some r2 =>
        obtain ⟨cx, ex⟩ := r2
        simp only [hrec, Option.some.injEq, Prod.mk.injEq] at h
        obtain ⟨rfl, rfl⟩ := h
        have := analyse_inline v hps esH hH ms {} cx ex hrec
        simpa [inlineP, inlineE] using analyse_append v hps _ {} {} cx esH _ hH this
    · cases h

/-! ### the model's analysis of a call: memo miss and memo hit -/

/-- the scratch escaper of the main template before / after the helper has been analysed -/
def escM0 (m : String) (A : List (EditKey × List String)) (X : List (EditKey × Bytes)) : Esc :=
  { output := [(m, {})], memoPrefix := [(m, ([], false))], actionEdits := A, textEdits := X }
def escM1 (m h : String) (A : List (EditKey × List String)) (X : List (EditKey × Bytes)) : Esc :=
  { output := [(m, {}), (h, {})], memoPrefix := [(m, ([], false)), (h, ([], false))], called := [h],
    actionEdits := A, textEdits := X }

/-- the scratch escaper in which the helper's body is analysed at the first call -/
def scratchH (m h : String) : Esc :=
  { output := [(m, {}), (h, {})], pristine := [], memoPrefix := [(m, ([], false)), (h, ([], false))] }

theorem esc_of_otherEqH (m h : String) (s1 : Esc) (hoe : OtherEq (scratchH m h) s1) :
    s1 = { output := [(m, {}), (h, {})], memoPrefix := [(m, ([], false)), (h, ([], false))],
           actionEdits := s1.actionEdits, textEdits := s1.textEdits } := by
  obtain ⟨h1, h2, h3, h4, h5, h6, h7⟩ := hoe
  cases s1
  simp only [scratchH] at h1 h2 h3 h4 h5 h6 h7
  simp_all

theorem mangle_h (h : String) : mangle {} h = h := by simp [mangle]

/-- first call: the helper is analysed from the empty context and its edits are merged -/
theorem escapeTree_miss (env : Env) (m h : String) (hmh : m ≠ h) (trh : Tree) (A : List (EditKey × List String))
    (X : List (EditKey × Bytes)) (s1 : Esc) (f : Nat)
    (hlook : env.text.lookup h = some (some trh))
    (hl : escapeList env f h (scratchH m h) {} trh.root = .ok (s1, {}))
    (hoe : OtherEq (scratchH m h) s1) (hk : KeysOK h s1)
    (hA : ∀ p ∈ A, p.1.1 = m) (hX : ∀ p ∈ X, p.1.1 = m) :
    escapeTree env (f + 3) (escM0 m A X) {} h =
      .ok (escM1 m h (A ++ s1.actionEdits) (X ++ s1.textEdits), {}, h) := by
  have hmh' : (m == h) = false := by simpa using hmh
  have hhm' : (h == m) = false := by simpa using (Ne.symm hmh)
  have hs1 := esc_of_otherEqH m h s1 hoe
  have hm1 := mergeEdits_ok s1.actionEdits A (fun p hp => by
    rw [List.any_eq_false]; intro q hq
    have h1 := hA q hq; have h2 := hk.1 p hp
    have : q.1 ≠ p.1 := fun he => hmh (by rw [← h1, ← h2, he])
    simpa using this) hk.2.1
  have hm2 := mergeEdits_ok s1.textEdits X (fun p hp => by
    rw [List.any_eq_false]; intro q hq
    have h1 := hX q hq; have h2 := hk.2.2.1 p hp
    have : q.1 ≠ p.1 := fun he => hmh (by rw [← h1, ← h2, he])
    simpa using this) hk.2.2.2
  have hm3 : mergeEdits ([] : List (EditKey × String)) [] = .ok [] := by simp [mergeEdits, List.foldlM, pure]
  rw [hs1] at hl
  simp only [scratchH] at hl
  simp only [escapeTree, mangle_h]
  simp [escM0, escM1, Esc.template, hlook, alookup, aset, computeOutCtx, escapeTemplateBody, hl, bind, Out.bind,
    hm1, hm2, hm3, pure, hmh', hhm', hmh, Ne.symm hmh]

/-- later calls: memo hit -/
theorem escapeTree_hit (env : Env) (m h : String) (hmh : m ≠ h) (A : List (EditKey × List String))
    (X : List (EditKey × Bytes)) (f : Nat) :
    escapeTree env (f + 1) (escM1 m h A X) {} h = .ok (escM1 m h A X, {}, h) := by
  have hmh' : (m == h) = false := by simpa using hmh
  simp [escapeTree, mangle_h, escM1, alookup, hmh', hmh, Ne.symm hmh]


/-! ### the model's analysis of the main template -/

/-- the parse tree of the main template; a call is `{{template "h" .}}` -/
def nodesM (h : String) : Nat → List MP → List Node
  | _, [] => []
  | i, .text s :: ps => .text i s :: nodesM h (i + 1) ps
  | i, .action a :: ps => .action i (actPipe a) :: nodesM h (i + 1) ps
  | i, .call :: ps => .tmpl i h (some dotPipe) :: nodesM h (i + 1) ps

/-- state of the main template's scratch escaper: helper analysed yet?, action edits, text edits -/
abbrev MSt := Bool × List (EditKey × List String) × List (EditKey × Bytes)

def escOf (m h : String) (st : MSt) : Esc := if st.1 then escM1 m h st.2.1 st.2.2 else escM0 m st.2.1 st.2.2

/-- the escaper state after the analysis of the main pieces; `AH`, `XH` are the helper's edits -/
def runMain (v : Validators) (m : String) (AH : List (EditKey × List String)) (XH : List (EditKey × Bytes)) :
    Nat → Ctx → List MP → MSt → MSt
  | _, _, [], st => st
  | i, c, .text s :: ps, st => runMain v m AH XH (i + 1) (scanD c s).1 ps (st.1, st.2.1, addText m i c s st.2.2)
  | i, c, .action _ :: ps, st =>
    match actionStep v c with
    | some (c', ch) => runMain v m AH XH (i + 1) c' ps (st.1, st.2.1 ++ [((m, i), ch)], st.2.2)
    | none => st
  | i, _, .call :: ps, st =>
    if st.1 then runMain v m AH XH (i + 1) {} ps st
    else runMain v m AH XH (i + 1) {} ps (true, st.2.1 ++ AH, st.2.2 ++ XH)

/-- invariant of the state at node id `i`: no edit yet for the ids `≥ i` of the main template; before the first
    call all edits belong to the main template -/
def MInv (m : String) (i : Nat) (st : MSt) : Prop :=
  (∀ k, i ≤ k → st.2.1.any (fun p => p.1 == (m, k)) = false ∧ st.2.2.any (fun p => p.1 == (m, k)) = false) ∧
  (st.1 = false → (∀ p ∈ st.2.1, p.1.1 = m) ∧ (∀ p ∈ st.2.2, p.1.1 = m))

theorem escOf_text (m h : String) (st : MSt) (X' : List (EditKey × Bytes)) :
    { escOf m h st with textEdits := X' } = escOf m h (st.1, st.2.1, X') := by
  unfold escOf; cases st.1 <;> rfl

theorem escOf_action (m h : String) (st : MSt) (A' : List (EditKey × List String)) :
    { escOf m h st with actionEdits := A' } = escOf m h (st.1, A', st.2.2) := by
  unfold escOf; cases st.1 <;> rfl

theorem escOf_edits (m h : String) (st : MSt) :
    (escOf m h st).actionEdits = st.2.1 ∧ (escOf m h st).textEdits = st.2.2 := by
  unfold escOf; cases st.1 <;> exact ⟨rfl, rfl⟩


theorem escapeList_cons (env : Env) (f : Nat) (tn : String) (e : Esc) (c : Ctx) (n : Node) (ns : NodeList) :
    escapeList env (f + 1) tn e c (.cons n ns) =
      (match escapeNode env f tn e c n with
       | .ok (e', c') => escapeList env f tn e' c' ns
       | .panic w => .panic w
       | .fuel => .fuel) := by
  rw [escapeList]
  cases escapeNode env f tn e c n <;> rfl

theorem escapeNode_tmpl_same (env : Env) (f : Nat) (tn : String) (e e' : Esc) (c c' : Ctx) (id : Nat) (name : String)
    (p : Option Pipe) (h : escapeTree env f e c name = .ok (e', c', name)) :
    escapeNode env (f + 1) tn e c (.tmpl id name p) = .ok (e', c') := by
  rw [escapeNode]
  simp [h, bind, Out.bind, pure]

def ArgsOKM : List MP → Prop
  | [] => True
  | .action a :: ps => ActArg a ∧ ArgsOKM ps
  | _ :: ps => ArgsOKM ps

theorem any_other_name {β} (l : List (EditKey × β)) (m h : String) (k : Nat) (hmh : m ≠ h) (hl : ∀ p ∈ l, p.1.1 = h) :
    l.any (fun p => p.1 == (m, k)) = false := by
  rw [List.any_eq_false]
  intro p hp
  have := hl p hp
  have hne : p.1 ≠ (m, k) := fun he => hmh (by rw [← this, he])
  simpa using hne

theorem refMain (env : Env) (hcsp : env.csp = false) (m h : String) (hmh : m ≠ h) (trh : Tree) (nH : Nat) (s1 : Esc)
    (hlookH : env.text.lookup h = some (some trh))
    (hlH : ∀ f, nH ≤ f → escapeList env f h (scratchH m h) {} trh.root = .ok (s1, {}))
    (hoe : OtherEq (scratchH m h) s1) (hk : KeysOK h s1) :
    ∀ (ms : List MP) (i : Nat) (c cf : Ctx) (st : MSt) (es : List EM) (f : Nat),
      analyseM env.v c ms = some (cf, es) → MInv m i st → ArgsOKM ms → ms.length + nH + 5 ≤ f →
      escapeList env f m (escOf m h st) c (NodeList.ofList (nodesM h i ms)) =
        .ok (escOf m h (runMain env.v m s1.actionEdits s1.textEdits i c ms st), cf)
  | [], i, c, cf, st, es, f, ha, _, _, hf => by
    obtain ⟨f', rfl⟩ : ∃ f', f = f' + 1 := ⟨f - 1, by omega⟩
    simp only [analyseM, Option.some.injEq, Prod.mk.injEq] at ha
    simp [nodesM, NodeList.ofList, escapeList, runMain, ha.1]
  | .text s :: ms, i, c, cf, st, es, f, ha, hinv, hok, hf => by
    obtain ⟨f', rfl⟩ : ∃ f', f = f' + 2 := ⟨f - 2, by simp at hf; omega⟩
    simp only [analyseM] at ha
    cases hsc : scan c s with
    | none => simp [hsc] at ha
    | some r =>
      obtain ⟨c', out⟩ := r
      simp only [hsc] at ha
      split at ha
      · cases ha
      · cases hrec : analyseM env.v c' ms with
        | none => simp [hrec] at ha
        | some r2 =>
          obtain ⟨cf', es'⟩ := r2
          simp only [hrec, Option.some.injEq, Prod.mk.injEq] at ha
          obtain ⟨rfl, _⟩ := ha
          have hsd : (scanD c s).1 = c' := by simp [scanD, hsc]
          have hkk : (escOf m h st).textEdits.any (fun p => p.1 == (m, i)) = false := by
            rw [(escOf_edits m h st).2]; exact (hinv.1 i (Nat.le_refl _)).2
          have h1 := escapeTextNode_scan env hcsp m (escOf m h st) c c' i s out hsc hkk
          rw [(escOf_edits m h st).2, escOf_text] at h1
          have hinv' : MInv m (i + 1) (st.1, st.2.1, addText m i c s st.2.2) := by
            refine ⟨fun k hk' => ⟨(hinv.1 k (by omega)).1, ?_⟩, fun hd => ⟨(hinv.2 hd).1, ?_⟩⟩
            · simp only [addText]
              split
              · simp only [List.any_append, (hinv.1 k (by omega)).2, List.any_cons, List.any_nil, Bool.or_false,
                  Bool.false_or]
                simp; omega
              · exact (hinv.1 k (by omega)).2
            · simp only [addText]
              split
              · intro p hp
                rcases List.mem_append.1 hp with hp | hp
                · exact (hinv.2 hd).2 p hp
                · simp at hp; rw [hp]
              · exact (hinv.2 hd).2
          have ih := refMain env hcsp m h hmh trh nH s1 hlookH hlH hoe hk ms (i + 1) c' cf' _ es' (f' + 1) hrec hinv' hok
            (by simp at hf ⊢; omega)
          simp only [nodesM, NodeList.ofList, escapeList, escapeNode, h1, bind, Out.bind, runMain, hsd]
          exact ih
  | .action a :: ms, i, c, cf, st, es, f, ha, hinv, hok, hf => by
    obtain ⟨f', rfl⟩ : ∃ f', f = f' + 2 := ⟨f - 2, by simp at hf; omega⟩
    simp only [analyseM] at ha
    cases hact : actionStep env.v c with
    | none => simp [hact] at ha
    | some r =>
      obtain ⟨c', ch⟩ := r
      simp only [hact] at ha
      cases hrec : analyseM env.v c' ms with
      | none => simp [hrec] at ha
      | some r2 =>
        obtain ⟨cf', es'⟩ := r2
        simp only [hrec, Option.some.injEq, Prod.mk.injEq] at ha
        obtain ⟨rfl, _⟩ := ha
        have hkk : (escOf m h st).actionEdits.any (fun p => p.1 == (m, i)) = false := by
          rw [(escOf_edits m h st).1]; exact (hinv.1 i (Nat.le_refl _)).1
        have h1 := escapeAction_arg env m (escOf m h st) c c' ch i a hok.1 hact hkk
        rw [(escOf_edits m h st).1, escOf_action] at h1
        have hinv' : MInv m (i + 1) (st.1, st.2.1 ++ [((m, i), ch)], st.2.2) := by
          refine ⟨fun k hk' => ⟨?_, (hinv.1 k (by omega)).2⟩, fun hd => ⟨?_, (hinv.2 hd).2⟩⟩
          · simp only [List.any_append, (hinv.1 k (by omega)).1, List.any_cons, List.any_nil, Bool.or_false,
              Bool.false_or]
            simp; omega
          · intro p hp
            rcases List.mem_append.1 hp with hp | hp
            · exact (hinv.2 hd).1 p hp
            · simp at hp; rw [hp]
        have ih := refMain env hcsp m h hmh trh nH s1 hlookH hlH hoe hk ms (i + 1) c' cf' _ es' (f' + 1) hrec hinv' hok.2
          (by simp at hf ⊢; omega)
        simp only [nodesM, NodeList.ofList, escapeList, escapeNode, h1, bind, Out.bind, runMain, hact]
        exact ih
  | .call :: ms, i, c, cf, st, es, f, ha, hinv, hok, hf => by
    obtain ⟨f', rfl⟩ : ∃ f', f = f' + 5 := ⟨f - 5, by simp at hf; omega⟩
    simp only [analyseM] at ha
    split at ha
    · next hc =>
      subst hc
      cases hrec : analyseM env.v {} ms with
      | none => simp [hrec] at ha
      | some r2 =>
        obtain ⟨cf', es'⟩ := r2
        simp only [hrec, Option.some.injEq, Prod.mk.injEq] at ha
        obtain ⟨rfl, _⟩ := ha
        obtain ⟨dn, A, X⟩ := st
        cases dn with
        | true =>
          have h1 := escapeTree_hit env m h hmh A X (f' + 2)
          have h1 : escapeTree env (f' + 3) (escM1 m h A X) {} h = .ok (escM1 m h A X, {}, h) := h1
          have ih := refMain env hcsp m h hmh trh nH s1 hlookH hlH hoe hk ms (i + 1) {} cf' (true, A, X) es' (f' + 4)
            hrec ⟨fun k hk' => hinv.1 k (by omega), fun hd => by cases hd⟩ hok (by simp at hf ⊢; omega)
          simp only [nodesM, NodeList.ofList]
          rw [escapeList_cons, show escOf m h (true, A, X) = escM1 m h A X from rfl,
            escapeNode_tmpl_same env (f' + 3) m _ _ _ _ i h _ h1]
          simpa [escOf, runMain] using ih
        | false =>
          have hl := hlH f' (by simp at hf; omega)
          have h1 := escapeTree_miss env m h hmh trh A X s1 f' hlookH hl hoe hk (hinv.2 rfl).1 (hinv.2 rfl).2
          have ih := refMain env hcsp m h hmh trh nH s1 hlookH hlH hoe hk ms (i + 1) {} cf'
            (true, A ++ s1.actionEdits, X ++ s1.textEdits) es' (f' + 4) hrec
            ⟨fun k hk' => ⟨by
                simp only [List.any_append, (hinv.1 k (by omega)).1, Bool.false_or]
                exact any_other_name _ m h k hmh hk.1, by
                simp only [List.any_append, (hinv.1 k (by omega)).2, Bool.false_or]
                exact any_other_name _ m h k hmh hk.2.2.1⟩, fun hd => by cases hd⟩ hok (by simp at hf ⊢; omega)
          simp only [nodesM, NodeList.ofList]
          rw [escapeList_cons, show escOf m h (false, A, X) = escM0 m A X from rfl,
            escapeNode_tmpl_same env (f' + 3) m _ _ _ _ i h _ h1]
          simpa [escOf, runMain] using ih
    · cases ha

/-! ### lists of template names -/

theorem nodup_eraseDups : ∀ (n : Nat) (l : List String), l.length ≤ n → l.eraseDups.Nodup
  | _, [], _ => by simp
  | 0, a :: l, h => by simp at h
  | n + 1, a :: l, h => by
    rw [List.eraseDups_cons, List.nodup_cons]
    refine ⟨?_, nodup_eraseDups n _ (Nat.le_trans (List.length_filter_le _ _) (by simpa using h))⟩
    rw [List.mem_eraseDups]
    simp

/-- a duplicate-free list of names among `m`, `h` -/
theorem two_names (m h : String) (hmh : m ≠ h) (l : List String) (hn : l.Nodup) (hm : ∀ x ∈ l, x = m ∨ x = h) :
    l = [] ∨ l = [m] ∨ l = [h] ∨ l = [m, h] ∨ l = [h, m] := by
  match l, hn, hm with
  | [], _, _ => exact Or.inl rfl
  | [x], _, hm =>
    rcases hm x (by simp) with rfl | rfl
    · exact Or.inr (Or.inl rfl)
    · exact Or.inr (Or.inr (Or.inl rfl))
  | x :: y :: rest, hn, hm =>
    simp only [List.nodup_cons, List.mem_cons, not_or] at hn
    have hrest : rest = [] := by
      cases rest with
      | nil => rfl
      | cons z r =>
        exfalso
        have hz := hm z (by simp)
        have hx := hm x (by simp)
        have hy := hm y (by simp)
        have h1 : x ≠ z := fun e => hn.1.2 (by simp [e])
        have h2 : y ≠ z := fun e => hn.2.1 (by simp [e])
        have h3 : x ≠ y := hn.1.1
        rcases hx with rfl | rfl <;> rcases hy with rfl | rfl <;> rcases hz with rfl | rfl <;> simp_all
    subst hrest
    have hx := hm x (by simp)
    have hy := hm y (by simp)
    have h3 : x ≠ y := hn.1.1
    rcases hx with rfl | rfl <;> rcases hy with rfl | rfl
    · exact absurd rfl h3
    · exact Or.inr (Or.inr (Or.inr (Or.inl rfl)))
    · exact Or.inr (Or.inr (Or.inr (Or.inr rfl)))
    · exact absurd rfl h3


mutual
/-- without pending edits for template `tn`, `applyEdits tn` is the identity -/
theorem applyEdits_node_other (tn : String) (E : Esc) (h1 : ∀ p ∈ E.actionEdits, p.1.1 ≠ tn)
    (h2 : ∀ p ∈ E.textEdits, p.1.1 ≠ tn) (h3 : E.tmplEdits = []) : ∀ n : Node, Node.applyEdits tn E n = some n
  | .text id b => by
    have : E.textEdits.find? (fun p => p.1 == (tn, id)) = none := by
      rw [List.find?_eq_none]; intro p hp he
      have := h2 p hp; simp at he; rw [he] at this; exact this rfl
    simp [Node.applyEdits, this]
  | .action id p => by
    have : E.actionEdits.find? (fun q => q.1 == (tn, id)) = none := by
      rw [List.find?_eq_none]; intro p hp he
      have := h1 p hp; simp at he; rw [he] at this; exact this rfl
    simp [Node.applyEdits, this]
  | .tmpl id name p => by simp [Node.applyEdits, h3]
  | .ifN id p t el => by
    simp [Node.applyEdits, applyEdits_list_other tn E h1 h2 h3 t, applyEdits_list_other tn E h1 h2 h3 el, bind,
      Option.bind]
  | .rangeN id p t el => by
    simp [Node.applyEdits, applyEdits_list_other tn E h1 h2 h3 t, applyEdits_list_other tn E h1 h2 h3 el, bind,
      Option.bind]
  | .withN id p t el => by
    simp [Node.applyEdits, applyEdits_list_other tn E h1 h2 h3 t, applyEdits_list_other tn E h1 h2 h3 el, bind,
      Option.bind]
  | .brk id => by simp [Node.applyEdits]
  | .cont id => by simp [Node.applyEdits]
  | .comment id => by simp [Node.applyEdits]
theorem applyEdits_list_other (tn : String) (E : Esc) (h1 : ∀ p ∈ E.actionEdits, p.1.1 ≠ tn)
    (h2 : ∀ p ∈ E.textEdits, p.1.1 ≠ tn) (h3 : E.tmplEdits = []) : ∀ l : NodeList, NodeList.applyEdits tn E l = some l
  | .nil => by simp [NodeList.applyEdits]
  | .cons n ns => by
    simp [NodeList.applyEdits, applyEdits_node_other tn E h1 h2 h3 n, applyEdits_list_other tn E h1 h2 h3 ns, bind,
      Option.bind]
end

/-- the escaper after the analysis of the main template `m` that called the helper `h` -/
def escAfter2 (m h : String) (cf : Ctx) (A : List (EditKey × List String)) (X : List (EditKey × Bytes)) : Esc :=
  { output := [(m, cf), (h, {})], called := [m, h], memoPrefix := [(m, ([], false)), (h, ([], false))],
    actionEdits := A, textEdits := X }

theorem commit2 (m h : String) (hmh : m ≠ h) (trm trh : Tree) (cf : Ctx) (A : List (EditKey × List String))
    (X : List (EditKey × Bytes)) (rm rh : NodeList)
    (hA : ∀ p ∈ A, p.1.1 = m ∨ p.1.1 = h) (hX : ∀ p ∈ X, p.1.1 = m ∨ p.1.1 = h)
    (happm : NodeList.applyEdits m { escAfter2 m h cf A X with pristine := [(m, trm), (h, trh)] } trm.root = some rm)
    (happh : NodeList.applyEdits h { escAfter2 m h cf A X with pristine := [(m, trm), (h, trh)] } trh.root = some rh) :
    ∃ E', commit [(m, some trm), (h, some trh)] (escAfter2 m h cf A X) =
      .ok ([(m, some { trm with root := rm }), (h, some { trh with root := rh })], E') := by
  have hmh' : (m == h) = false := by simpa using hmh
  have hhm' : (h == m) = false := by simpa using (Ne.symm hmh)
  have hnames : ∀ x ∈ (A.map (·.1.1) ++ ([] : List (EditKey × String)).map (·.1.1) ++ X.map (·.1.1)).eraseDups,
      x = m ∨ x = h := by
    intro x hx
    rw [List.mem_eraseDups] at hx
    simp only [List.map_nil, List.append_nil, List.mem_append, List.mem_map] at hx
    rcases hx with ⟨p, hp, rfl⟩ | ⟨p, hp, rfl⟩
    · exact hA p hp
    · exact hX p hp
  have hnd := nodup_eraseDups _ (A.map (·.1.1) ++ ([] : List (EditKey × String)).map (·.1.1) ++ X.map (·.1.1))
    (Nat.le_refl _)
  -- a template without edits is its own rewriting
  have hself : ∀ (tn : String) (tr : Tree) (r : NodeList),
      tn ∉ (A.map (·.1.1) ++ ([] : List (EditKey × String)).map (·.1.1) ++ X.map (·.1.1)).eraseDups →
      NodeList.applyEdits tn { escAfter2 m h cf A X with pristine := [(m, trm), (h, trh)] } tr.root = some r →
      r = tr.root := by
    intro tn tr r hnot happ
    rw [List.mem_eraseDups] at hnot
    simp only [List.map_nil, List.append_nil, List.mem_append, List.mem_map, not_or, not_exists, not_and] at hnot
    have := applyEdits_list_other tn { escAfter2 m h cf A X with pristine := [(m, trm), (h, trh)] }
      (fun p hp he => hnot.1 p hp he) (fun p hp he => hnot.2 p hp he) rfl tr.root
    rw [happ] at this
    simpa using this
  unfold commit
  simp only [escAfter2, List.all_cons, List.all_nil, TextSet.lookup, List.find?_cons, beq_self_eq_true, hmh', hhm',
    Option.isSome_some, Bool.true_or, Bool.and_true, Bool.and_self, Bool.not_true, Bool.false_eq_true, if_false,
    List.foldl_cons, List.foldl_nil, alookup, List.find?_nil, Option.isSome_none, List.nil_append, bind, Out.bind]
  have happm' := happm
  have happh' := happh
  simp only [escAfter2] at happm' happh' hself
  rcases two_names m h hmh _ hnd hnames with h0 | h0 | h0 | h0 | h0
  · have e1 := hself m trm rm (by rw [h0]; simp) happm'
    have e2 := hself h trh rh (by rw [h0]; simp) happh'
    rw [h0]
    simp only [List.foldlM, pure, e1, e2]
    exact ⟨_, rfl⟩
  · have e2 := hself h trh rh (by rw [h0]; simpa using Ne.symm hmh) happh'
    rw [h0]
    simp [List.foldlM, TextSet.lookup, TextSet.set, happm', e2, bind, Out.bind, pure, hmh', hhm', hmh, Ne.symm hmh]
  · have e1 := hself m trm rm (by rw [h0]; simpa using hmh) happm'
    rw [h0]
    simp [List.foldlM, TextSet.lookup, TextSet.set, happh', e1, bind, Out.bind, pure, hmh', hhm', hmh, Ne.symm hmh]
  · rw [h0]
    simp [List.foldlM, TextSet.lookup, TextSet.set, happm', happh', bind, Out.bind, pure, hmh', hhm', hmh, Ne.symm hmh]
  · rw [h0]
    simp [List.foldlM, TextSet.lookup, TextSet.set, happm', happh', bind, Out.bind, pure, hmh', hhm', hmh, Ne.symm hmh]

/-! ### the edits of the main template's analysis -/

/-- keys named `m` or `h`, pairwise distinct -/
def Keys2 {β} (m h : String) (l : List (EditKey × β)) : Prop :=
  (∀ p ∈ l, p.1.1 = m ∨ p.1.1 = h) ∧ (l.map (·.1)).Nodup

theorem Keys2_snoc {β} (m h : String) (l : List (EditKey × β)) (i : Nat) (x : β) (hk : Keys2 m h l)
    (hf : l.any (fun p => p.1 == (m, i)) = false) : Keys2 m h (l ++ [((m, i), x)]) := by
  refine ⟨fun p hp => ?_, ?_⟩
  · rcases List.mem_append.1 hp with hp | hp
    · exact hk.1 p hp
    · simp at hp; rw [hp]; exact Or.inl rfl
  · rw [List.map_append, List.nodup_append]
    refine ⟨hk.2, by simp, ?_⟩
    intro a ha b hb
    simp at hb; subst hb
    intro hab; subst hab
    exact notin_of_any _ _ hf ha

theorem Keys2_append {β} (m h : String) (hmh : m ≠ h) (l l' : List (EditKey × β)) (hl : ∀ p ∈ l, p.1.1 = m)
    (hk : (l.map (·.1)).Nodup) (hl' : ∀ p ∈ l', p.1.1 = h) (hk' : (l'.map (·.1)).Nodup) : Keys2 m h (l ++ l') := by
  refine ⟨fun p hp => ?_, ?_⟩
  · rcases List.mem_append.1 hp with hp | hp
    · exact Or.inl (hl p hp)
    · exact Or.inr (hl' p hp)
  · rw [List.map_append, List.nodup_append]
    refine ⟨hk, hk', ?_⟩
    intro a ha b hb hab
    obtain ⟨p, hp, rfl⟩ := List.mem_map.1 ha
    obtain ⟨q, hq, rfl⟩ := List.mem_map.1 hb
    exact hmh (by rw [← hl p hp, ← hl' q hq, hab])

/-- after the analysis: the helper has been analysed (if there is a call), and the keys of the edits are fine -/
theorem runMain_keys (v : Validators) (m h : String) (hmh : m ≠ h) (AH : List (EditKey × List String))
    (XH : List (EditKey × Bytes)) (hAH : ∀ p ∈ AH, p.1.1 = h) (hAHn : (AH.map (·.1)).Nodup)
    (hXH : ∀ p ∈ XH, p.1.1 = h) (hXHn : (XH.map (·.1)).Nodup) :
    ∀ (ms : List MP) (i : Nat) (c cf : Ctx) (st : MSt) (es : List EM), analyseM v c ms = some (cf, es) →
      MInv m i st → Keys2 m h st.2.1 → Keys2 m h st.2.2 →
      Keys2 m h (runMain v m AH XH i c ms st).2.1 ∧ Keys2 m h (runMain v m AH XH i c ms st).2.2 ∧
      ((st.1 = true ∨ MP.call ∈ ms) → (runMain v m AH XH i c ms st).1 = true)
  | [], i, c, cf, st, es, _, _, k1, k2 => by
    simp only [runMain]
    exact ⟨k1, k2, fun h => by rcases h with h | h; exact h; simp at h⟩
  | .text s :: ms, i, c, cf, st, es, ha, hinv, k1, k2 => by
    simp only [analyseM] at ha
    cases hsc : scan c s with
    | none => simp [hsc] at ha
    | some r =>
      obtain ⟨c', out⟩ := r
      simp only [hsc] at ha
      split at ha
      · cases ha
      · cases hrec : analyseM v c' ms with
        | none => simp [hrec] at ha
        | some r2 =>
          obtain ⟨cf', es'⟩ := r2
          have hsd : (scanD c s).1 = c' := by simp [scanD, hsc]
          have hinv' : MInv m (i + 1) (st.1, st.2.1, addText m i c s st.2.2) := by
            refine ⟨fun k hk' => ⟨(hinv.1 k (by omega)).1, ?_⟩, fun hd => ⟨(hinv.2 hd).1, ?_⟩⟩
            · simp only [addText]
              split
              · simp only [List.any_append, (hinv.1 k (by omega)).2, List.any_cons, List.any_nil, Bool.or_false,
                  Bool.false_or]
                simp; omega
              · exact (hinv.1 k (by omega)).2
            · simp only [addText]
              split
              · intro p hp
                rcases List.mem_append.1 hp with hp | hp
                · exact (hinv.2 hd).2 p hp
                · simp at hp; rw [hp]
              · exact (hinv.2 hd).2
          have k2' : Keys2 m h (addText m i c s st.2.2) := by
            simp only [addText]
            split
            · exact Keys2_snoc m h _ i _ k2 (hinv.1 i (Nat.le_refl _)).2
            · exact k2
          have := runMain_keys v m h hmh AH XH hAH hAHn hXH hXHn ms (i + 1) c' cf' _ es' hrec hinv' k1 k2'
          simp only [runMain, hsd]
          exact ⟨this.1, this.2.1, fun hh => this.2.2 (by rcases hh with hh | hh; exact Or.inl hh; simp at hh; exact Or.inr hh)⟩
  | .action a :: ms, i, c, cf, st, es, ha, hinv, k1, k2 => by
    simp only [analyseM] at ha
    cases hact : actionStep v c with
    | none => simp [hact] at ha
    | some r =>
      obtain ⟨c', ch⟩ := r
      simp only [hact] at ha
      cases hrec : analyseM v c' ms with
      | none => simp [hrec] at ha
      | some r2 =>
        obtain ⟨cf', es'⟩ := r2
        have hinv' : MInv m (i + 1) (st.1, st.2.1 ++ [((m, i), ch)], st.2.2) := by
          refine ⟨fun k hk' => ⟨?_, (hinv.1 k (by omega)).2⟩, fun hd => ⟨?_, (hinv.2 hd).2⟩⟩
          · simp only [List.any_append, (hinv.1 k (by omega)).1, List.any_cons, List.any_nil, Bool.or_false,
              Bool.false_or]
            simp; omega
          · intro p hp
            rcases List.mem_append.1 hp with hp | hp
            · exact (hinv.2 hd).1 p hp
            · simp at hp; rw [hp]
        have := runMain_keys v m h hmh AH XH hAH hAHn hXH hXHn ms (i + 1) c' cf' _ es' hrec hinv'
          (Keys2_snoc m h _ i ch k1 (hinv.1 i (Nat.le_refl _)).1) k2
        simp only [runMain, hact]
        exact ⟨this.1, this.2.1, fun hh => this.2.2 (by rcases hh with hh | hh; exact Or.inl hh; simp at hh; exact Or.inr hh)⟩
  | .call :: ms, i, c, cf, st, es, ha, hinv, k1, k2 => by
    simp only [analyseM] at ha
    split at ha
    · cases hrec : analyseM v {} ms with
      | none => simp [hrec] at ha
      | some r2 =>
        obtain ⟨cf', es'⟩ := r2
        obtain ⟨dn, A, X⟩ := st
        cases dn with
        | true =>
          have := runMain_keys v m h hmh AH XH hAH hAHn hXH hXHn ms (i + 1) {} cf' (true, A, X) es' hrec
            ⟨fun k hk' => hinv.1 k (by omega), fun hd => by cases hd⟩ k1 k2
          simp only [runMain, if_true]
          exact ⟨this.1, this.2.1, fun _ => this.2.2 (Or.inl rfl)⟩
        | false =>
          have hA := (hinv.2 rfl).1
          have hX := (hinv.2 rfl).2
          have := runMain_keys v m h hmh AH XH hAH hAHn hXH hXHn ms (i + 1) {} cf' (true, A ++ AH, X ++ XH) es' hrec
            ⟨fun k hk' => ⟨by
                simp only [List.any_append, (hinv.1 k (by omega)).1, Bool.false_or]
                exact any_other_name _ m h k hmh hAH, by
                simp only [List.any_append, (hinv.1 k (by omega)).2, Bool.false_or]
                exact any_other_name _ m h k hmh hXH⟩, fun hd => by cases hd⟩
            (Keys2_append m h hmh A AH hA k1.2 hAH hAHn) (Keys2_append m h hmh X XH hX k2.2 hXH hXHn)
          simp only [runMain, Bool.false_eq_true, if_false]
          exact ⟨this.1, this.2.1, fun _ => this.2.2 (Or.inl rfl)⟩
    · cases ha

/-! ### `escapeTree` on the main template -/

theorem escapeTree_main (env : Env) (m h : String) (hmh : m ≠ h) (trm : Tree) (cf : Ctx)
    (A : List (EditKey × List String)) (X : List (EditKey × Bytes))
    (hlook : env.text.lookup m = some (some trm)) (f' : Nat)
    (hl : escapeList env f' m (escM0 m [] []) {} trm.root = .ok (escM1 m h A X, cf))
    (hkA : (A.map (·.1)).Nodup) (hkX : (X.map (·.1)).Nodup) (hne : cf.state ≠ .error) :
    escapeTree env (f' + 3) {} {} m = .ok (escAfter2 m h cf A X, cf, m) := by
  have hmh' : (m == h) = false := by simpa using hmh
  have hhm' : (h == m) = false := by simpa using (Ne.symm hmh)
  have hm1 := mergeEdits_ok A [] (by simp) hkA
  have hm2 := mergeEdits_ok X [] (by simp) hkX
  have hm3 : mergeEdits ([] : List (EditKey × String)) [] = .ok [] := by simp [mergeEdits, List.foldlM, pure]
  have hne' : (cf.state != State.error) = true := by simpa using hne
  simp only [List.nil_append] at hm1 hm2
  simp only [escM0, escM1] at hl
  simp only [escapeTree, mangle_empty]
  simp [Esc.template, hlook, alookup, aset, computeOutCtx, escapeTemplateBody, hl, bind, Out.bind, hne',
    hm1, hm2, hm3, pure, escAfter2, hmh', hhm', hmh, Ne.symm hmh]

/-! ### `commit` on the helper's and the main template's nodes -/

/-- `applyEdits_out` for an escaper `E` that merely agrees with the analysis' edits on the node ids of the template -/
theorem applyEdits_outA (v : Validators) (tn : String) (E : Esc) : ∀ (ps : List Piece) (i : Nat) (c cf : Ctx) (e : Esc)
    (es : List EPiece) (as : List Arg), analyse v c ps = some (cf, es) → Fresh tn i e → (∀ a ∈ as, ActArg a) →
    Agree tn (i + ps.length) E (editsOf v tn i c ps e) →
    NodeList.applyEdits tn E (NodeList.ofList (toNodesA i ps as)) = some (NodeList.ofList (outNodes i es as))
  | [], i, c, cf, e, es, as, ha, _, _, _ => by
    simp only [analyse, Option.some.injEq, Prod.mk.injEq] at ha
    obtain ⟨_, rfl⟩ := ha
    simp [toNodesA, outNodes, NodeList.ofList, NodeList.applyEdits]
  | .text s :: ps, i, c, cf, e, es, as, ha, hfr, has, hag => by
    simp only [analyse] at ha
    cases hsc : scan c s with
    | none => simp [hsc] at ha
    | some r =>
      obtain ⟨c', out⟩ := r
      simp only [hsc] at ha
      split at ha
      · cases ha
      · cases hrec : analyse v c' ps with
        | none => simp [hrec] at ha
        | some r2 =>
          obtain ⟨cf', es'⟩ := r2
          simp only [hrec, Option.some.injEq, Prod.mk.injEq] at ha
          obtain ⟨rfl, rfl⟩ := ha
          have hsd : (scanD c s).1 = c' := by simp [scanD, hsc]
          simp only [editsOf, hsd] at hag
          have hk := find_none_of_any _ _ (hfr i (Nat.le_refl _)).2
          have hfind : E.textEdits.find? (fun p => p.1 == (tn, i)) =
              (addText tn i c s e.textEdits).find? (fun p => p.1 == (tn, i)) :=
            ((hag i (by simp)).1).trans
              (find_editsOf v tn ps (i + 1) c' { e with textEdits := addText tn i c s e.textEdits } i (by omega)).1
          have ih := applyEdits_outA v tn E ps (i + 1) c' cf' _ es' as hrec (Fresh_addText tn i c s e hfr) has
            (fun k hk' => hag k (by simp at hk' ⊢; omega))
          simp only [toNodesA, outNodes, NodeList.ofList]
          refine applyEdits_cons tn E _ _ _ _ ?_ ih
          simp only [Node.applyEdits, hfind, Option.some.injEq]
          simp only [scan] at hsc
          simp only [addText]
          cases het : escapeText false c s with
          | panic => simp [het] at hsc
          | done c2 nt =>
            cases nt with
            | none =>
              simp only [het, Option.some.injEq, Prod.mk.injEq] at hsc
              simp [hk, hsc.2]
            | some nb =>
              simp only [het, Option.some.injEq, Prod.mk.injEq] at hsc
              simp [List.find?_append, hk, hsc.2]
  | .action :: ps, i, c, cf, e, es, as, ha, hfr, has, hag => by
    simp only [analyse] at ha
    cases hact : actionStep v c with
    | none => simp [hact] at ha
    | some r =>
      obtain ⟨c', ch⟩ := r
      simp only [hact] at ha
      cases hrec : analyse v c' ps with
      | none => simp [hrec] at ha
      | some r2 =>
        obtain ⟨cf', es'⟩ := r2
        simp only [hrec, Option.some.injEq, Prod.mk.injEq] at ha
        obtain ⟨rfl, rfl⟩ := ha
        simp only [editsOf, hact] at hag
        have hk := find_none_of_any _ _ (hfr i (Nat.le_refl _)).1
        have hf2 : E.actionEdits.find? (fun q => q.1 == (tn, i)) = some ((tn, i), ch) := by
          have := ((hag i (by simp)).2).trans
            (find_editsOf v tn ps (i + 1) c' { e with actionEdits := e.actionEdits ++ [((tn, i), ch)] } i (by omega)).2
          simp only [findA] at this
          rw [this]; simp [List.find?_append, hk]
        cases as with
        | nil =>
          have ih := applyEdits_outA v tn E ps (i + 1) c' cf' _ es' [] hrec (Fresh_addAction tn i ch e hfr) has
            (fun k hk' => hag k (by simp at hk' ⊢; omega))
          simp only [toNodesA, outNodes, NodeList.ofList]
          refine applyEdits_cons tn E _ _ _ _ ?_ ih
          simp [Node.applyEdits, hf2, ensure_chain .dot actArg_dot ch]
        | cons a as =>
          have ih := applyEdits_outA v tn E ps (i + 1) c' cf' _ es' as hrec (Fresh_addAction tn i ch e hfr)
            (fun x hx => has x (by simp [hx])) (fun k hk' => hag k (by simp at hk' ⊢; omega))
          simp only [toNodesA, outNodes, NodeList.ofList]
          refine applyEdits_cons tn E _ _ _ _ ?_ ih
          simp [Node.applyEdits, hf2, ensure_chain a (has a (by simp)) ch]


/-- the main template's nodes after `commit` -/
def outM (h : String) : Nat → List EM → List Node
  | _, [] => []
  | i, .text o :: es => .text i o :: outM h (i + 1) es
  | i, .action a ch :: es => .action i (chainPipe a ch) :: outM h (i + 1) es
  | i, .call :: es => .tmpl i h (some dotPipe) :: outM h (i + 1) es

theorem find_append_name {β} (l l' : List (EditKey × β)) (m h : String) (k : Nat) (hmh : m ≠ h)
    (hl' : ∀ p ∈ l', p.1.1 = h) :
    (l ++ l').find? (fun p => p.1 == (m, k)) = l.find? (fun p => p.1 == (m, k)) := by
  rw [List.find?_append]
  have : l'.find? (fun p => p.1 == (m, k)) = none := by
    rw [List.find?_eq_none]; intro p hp he
    have := hl' p hp; simp at he; rw [he] at this; exact hmh this
  simp [this]

/-- the lookups of earlier node ids of the main template are not affected by later edits -/
theorem find_runMain (v : Validators) (m h : String) (hmh : m ≠ h) (AH : List (EditKey × List String))
    (XH : List (EditKey × Bytes)) (hAH : ∀ p ∈ AH, p.1.1 = h) (hXH : ∀ p ∈ XH, p.1.1 = h) :
    ∀ (ms : List MP) (i : Nat) (c : Ctx) (st : MSt) (k : Nat), k < i →
      (runMain v m AH XH i c ms st).2.2.find? (fun p => p.1 == (m, k)) = st.2.2.find? (fun p => p.1 == (m, k)) ∧
      (runMain v m AH XH i c ms st).2.1.find? (fun p => p.1 == (m, k)) = st.2.1.find? (fun p => p.1 == (m, k))
  | [], i, c, st, k, _ => ⟨rfl, rfl⟩
  | .text s :: ms, i, c, st, k, hk => by
    simp only [runMain]
    obtain ⟨h1, h2⟩ := find_runMain v m h hmh AH XH hAH hXH ms (i + 1) (scanD c s).1
      (st.1, st.2.1, addText m i c s st.2.2) k (by omega)
    refine ⟨?_, h2⟩
    rw [h1]
    simp only [addText]
    split
    · exact find_append_other _ m i k _ hk
    · rfl
  | .action a :: ms, i, c, st, k, hk => by
    simp only [runMain]
    split
    · next c' ch _ =>
      obtain ⟨h1, h2⟩ := find_runMain v m h hmh AH XH hAH hXH ms (i + 1) c' (st.1, st.2.1 ++ [((m, i), ch)], st.2.2) k
        (by omega)
      exact ⟨h1, h2.trans (find_append_other _ m i k _ hk)⟩
    · exact ⟨rfl, rfl⟩
  | .call :: ms, i, c, st, k, hk => by
    simp only [runMain]
    split
    · exact find_runMain v m h hmh AH XH hAH hXH ms (i + 1) {} st k (by omega)
    · obtain ⟨h1, h2⟩ := find_runMain v m h hmh AH XH hAH hXH ms (i + 1) {} (true, st.2.1 ++ AH, st.2.2 ++ XH) k
        (by omega)
      exact ⟨h1.trans (find_append_name _ _ m h k hmh hXH), h2.trans (find_append_name _ _ m h k hmh hAH)⟩

theorem applyM (v : Validators) (m h : String) (hmh : m ≠ h) (AH : List (EditKey × List String))
    (XH : List (EditKey × Bytes)) (hAH : ∀ p ∈ AH, p.1.1 = h) (hXH : ∀ p ∈ XH, p.1.1 = h) (E : Esc)
    (hE3 : E.tmplEdits = []) :
    ∀ (ms : List MP) (i : Nat) (c cf : Ctx) (st : MSt) (es : List EM), analyseM v c ms = some (cf, es) →
      MInv m i st → ArgsOKM ms →
      (∀ k, k < i + ms.length →
        E.textEdits.find? (fun p => p.1 == (m, k)) =
          (runMain v m AH XH i c ms st).2.2.find? (fun p => p.1 == (m, k)) ∧
        E.actionEdits.find? (fun p => p.1 == (m, k)) =
          (runMain v m AH XH i c ms st).2.1.find? (fun p => p.1 == (m, k))) →
      NodeList.applyEdits m E (NodeList.ofList (nodesM h i ms)) = some (NodeList.ofList (outM h i es))
  | [], i, c, cf, st, es, ha, _, _, _ => by
    simp only [analyseM, Option.some.injEq, Prod.mk.injEq] at ha
    obtain ⟨_, rfl⟩ := ha
    simp [nodesM, outM, NodeList.ofList, NodeList.applyEdits]
  | .text s :: ms, i, c, cf, st, es, ha, hinv, hok, hag => by
    simp only [analyseM] at ha
    cases hsc : scan c s with
    | none => simp [hsc] at ha
    | some r =>
      obtain ⟨c', out⟩ := r
      simp only [hsc] at ha
      split at ha
      · cases ha
      · cases hrec : analyseM v c' ms with
        | none => simp [hrec] at ha
        | some r2 =>
          obtain ⟨cf', es'⟩ := r2
          simp only [hrec, Option.some.injEq, Prod.mk.injEq] at ha
          obtain ⟨rfl, rfl⟩ := ha
          have hsd : (scanD c s).1 = c' := by simp [scanD, hsc]
          simp only [runMain, hsd] at hag
          have hk := find_none_of_any _ _ (hinv.1 i (Nat.le_refl _)).2
          have hfind := ((hag i (by simp)).1).trans
            (find_runMain v m h hmh AH XH hAH hXH ms (i + 1) c' (st.1, st.2.1, addText m i c s st.2.2) i (by omega)).1
          have hinv' : MInv m (i + 1) (st.1, st.2.1, addText m i c s st.2.2) := by
            refine ⟨fun k hk' => ⟨(hinv.1 k (by omega)).1, ?_⟩, fun hd => ⟨(hinv.2 hd).1, ?_⟩⟩
            · simp only [addText]
              split
              · simp only [List.any_append, (hinv.1 k (by omega)).2, List.any_cons, List.any_nil, Bool.or_false,
                  Bool.false_or]
                simp; omega
              · exact (hinv.1 k (by omega)).2
            · simp only [addText]
              split
              · intro p hp
                rcases List.mem_append.1 hp with hp | hp
                · exact (hinv.2 hd).2 p hp
                · simp at hp; rw [hp]
              · exact (hinv.2 hd).2
          have ih := applyM v m h hmh AH XH hAH hXH E hE3 ms (i + 1) c' cf' _ es' hrec hinv' hok
            (fun k hk' => hag k (by simp at hk' ⊢; omega))
          simp only [nodesM, outM, NodeList.ofList]
          refine applyEdits_cons m E _ _ _ _ ?_ ih
          simp only [Node.applyEdits, hfind, Option.some.injEq]
          simp only [scan] at hsc
          simp only [addText]
          cases het : escapeText false c s with
          | panic => simp [het] at hsc
          | done c2 nt =>
            cases nt with
            | none =>
              simp only [het, Option.some.injEq, Prod.mk.injEq] at hsc
              simp [hk, hsc.2]
            | some nb =>
              simp only [het, Option.some.injEq, Prod.mk.injEq] at hsc
              simp [List.find?_append, hk, hsc.2]
  | .action a :: ms, i, c, cf, st, es, ha, hinv, hok, hag => by
    simp only [analyseM] at ha
    cases hact : actionStep v c with
    | none => simp [hact] at ha
    | some r =>
      obtain ⟨c', ch⟩ := r
      simp only [hact] at ha
      cases hrec : analyseM v c' ms with
      | none => simp [hrec] at ha
      | some r2 =>
        obtain ⟨cf', es'⟩ := r2
        simp only [hrec, Option.some.injEq, Prod.mk.injEq] at ha
        obtain ⟨rfl, rfl⟩ := ha
        simp only [runMain, hact] at hag
        have hk := find_none_of_any _ _ (hinv.1 i (Nat.le_refl _)).1
        have hf2 : E.actionEdits.find? (fun q => q.1 == (m, i)) = some ((m, i), ch) := by
          rw [((hag i (by simp)).2).trans
            (find_runMain v m h hmh AH XH hAH hXH ms (i + 1) c' (st.1, st.2.1 ++ [((m, i), ch)], st.2.2) i (by omega)).2]
          simp [List.find?_append, hk]
        have hinv' : MInv m (i + 1) (st.1, st.2.1 ++ [((m, i), ch)], st.2.2) := by
          refine ⟨fun k hk' => ⟨?_, (hinv.1 k (by omega)).2⟩, fun hd => ⟨?_, (hinv.2 hd).2⟩⟩
          · simp only [List.any_append, (hinv.1 k (by omega)).1, List.any_cons, List.any_nil, Bool.or_false,
              Bool.false_or]
            simp; omega
          · intro p hp
            rcases List.mem_append.1 hp with hp | hp
            · exact (hinv.2 hd).1 p hp
            · simp at hp; rw [hp]
        have ih := applyM v m h hmh AH XH hAH hXH E hE3 ms (i + 1) c' cf' _ es' hrec hinv' hok.2
          (fun k hk' => hag k (by simp at hk' ⊢; omega))
        simp only [nodesM, outM, NodeList.ofList]
        refine applyEdits_cons m E _ _ _ _ ?_ ih
        simp [Node.applyEdits, hf2, ensure_chain a hok.1 ch]
  | .call :: ms, i, c, cf, st, es, ha, hinv, hok, hag => by
    simp only [analyseM] at ha
    split at ha
    · cases hrec : analyseM v {} ms with
      | none => simp [hrec] at ha
      | some r2 =>
        obtain ⟨cf', es'⟩ := r2
        simp only [hrec, Option.some.injEq, Prod.mk.injEq] at ha
        obtain ⟨rfl, rfl⟩ := ha
        obtain ⟨dn, A, X⟩ := st
        have hnode : Node.applyEdits m E (.tmpl i h (some dotPipe)) = some (.tmpl i h (some dotPipe)) := by
          simp [Node.applyEdits, hE3]
        simp only [nodesM, outM, NodeList.ofList]
        cases dn with
        | true =>
          simp only [runMain, if_true] at hag
          exact applyEdits_cons m E _ _ _ _ hnode
            (applyM v m h hmh AH XH hAH hXH E hE3 ms (i + 1) {} cf' (true, A, X) es' hrec
              ⟨fun k hk' => hinv.1 k (by omega), fun hd => by cases hd⟩ hok
              (fun k hk' => hag k (by simp at hk' ⊢; omega)))
        | false =>
          simp only [runMain, Bool.false_eq_true, if_false] at hag
          exact applyEdits_cons m E _ _ _ _ hnode
            (applyM v m h hmh AH XH hAH hXH E hE3 ms (i + 1) {} cf' (true, A ++ AH, X ++ XH) es' hrec
              ⟨fun k hk' => ⟨by
                  simp only [List.any_append, (hinv.1 k (by omega)).1, Bool.false_or]
                  exact any_other_name _ m h k hmh hAH, by
                  simp only [List.any_append, (hinv.1 k (by omega)).2, Bool.false_or]
                  exact any_other_name _ m h k hmh hXH⟩, fun hd => by cases hd⟩ hok
              (fun k hk' => hag k (by simp at hk' ⊢; omega)))
    · cases ha

/-! ### execution of the committed main template: calls walk the committed helper -/

theorem exec_append : ∀ (e1 e2 : List EPiece) (v1 v2 : List Value) (o1 o2 : Bytes),
    exec e1 v1 = some o1 → exec e2 v2 = some o2 → exec (e1 ++ e2) (v1 ++ v2) = some (o1 ++ o2)
  | [], e2, v1, v2, o1, o2, h1, h2 => by
    cases v1 with
    | nil => simp only [exec, Option.some.injEq] at h1; subst h1; simpa using h2
    | cons x v1 => simp [exec] at h1
  | .text t :: e1, e2, v1, v2, o1, o2, h1, h2 => by
    simp only [exec, Option.map_eq_some_iff] at h1
    obtain ⟨o', h1, rfl⟩ := h1
    simp [exec, exec_append e1 e2 v1 v2 o' o2 h1 h2]
  | .action ch :: e1, e2, [], v2, o1, o2, h1, h2 => by simp [exec] at h1
  | .action ch :: e1, e2, x :: v1, v2, o1, o2, h1, h2 => by
    simp only [exec] at h1
    cases hr : runChain ch x with
    | error e => simp [hr] at h1
    | ok w =>
      cases w <;> simp only [hr] at h1 <;> try cases h1
      next b =>
      simp only [Option.map_eq_some_iff] at h1
      obtain ⟨o', h1, rfl⟩ := h1
      simp [exec, hr, exec_append e1 e2 v1 v2 o' o2 h1 h2]

/-- the values printed by the main template and, at the calls, by the helper (whose dot is the main template's dot) -/
def valsM (d : Value) (esH : List EPiece) (asH : List Arg) : List EM → Option (List Value)
  | [] => some []
  | .text _ :: es => valsM d esH asH es
  | .action a _ :: es =>
    match argVal d a with
    | .ok v => (valsM d esH asH es).map (v :: ·)
    | .error _ => none
  | .call :: es =>
    match argVals d esH asH, valsM d esH asH es with
    | some vh, some vr => some (vh ++ vr)
    | _, _ => none

def ArgsOKE : List EM → Prop
  | [] => True
  | .action a _ :: es => ActArg a ∧ ArgsOKE es
  | _ :: es => ArgsOKE es

theorem analyseM_args (v : Validators) : ∀ (ms : List MP) (c cf : Ctx) (es : List EM),
    analyseM v c ms = some (cf, es) → ArgsOKM ms → ArgsOKE es
  | [], c, cf, es, h, _ => by
    simp only [analyseM, Option.some.injEq, Prod.mk.injEq] at h; obtain ⟨_, rfl⟩ := h; trivial
  | .text s :: ms, c, cf, es, h, hok => by
    simp only [analyseM] at h
    split at h
    · cases h
    · split at h
      · cases h
      · split at h
        · cases h
        · next cf' es' hrec =>
          simp only [Option.some.injEq, Prod.mk.injEq] at h
          obtain ⟨_, rfl⟩ := h
          exact (analyseM_args v ms _ _ es' hrec hok : ArgsOKE es')
  | .action a :: ms, c, cf, es, h, hok => by
    simp only [analyseM] at h
    split at h
    · cases h
    · split at h
      · cases h
      · next cf' es' hrec =>
        simp only [Option.some.injEq, Prod.mk.injEq] at h
        obtain ⟨_, rfl⟩ := h
        exact ⟨hok.1, analyseM_args v ms _ _ _ hrec hok.2⟩
  | .call :: ms, c, cf, es, h, hok => by
    simp only [analyseM] at h
    split at h
    · split at h
      · cases h
      · next cf' es' hrec =>
        simp only [Option.some.injEq, Prod.mk.injEq] at h
        obtain ⟨_, rfl⟩ := h
        exact (analyseM_args v ms _ _ es' hrec hok : ArgsOKE es')
    · cases h

theorem walkNode_tmpl (text : TextSet) (depth f : Nat) (d r : Value) (out : Bytes) (id : Nat) (h : String) (trh : Tree)
    (hl : text.lookup h = some (some trh)) (hd : depth < 1000) :
    walkNode false text depth (f + 1) d r out (.tmpl id h (some dotPipe)) =
      walkList false text (depth + 1) f d d out trh.root := by
  have he : evalPipe d r dotPipe = .ok d := by
    simp [evalPipe, evalPipe.go, dotPipe, evalCmd, bind, Except.bind]
  have hd' : ¬ (depth ≥ 2000) := by omega
  simp only [walkNode, hl, he, hd', if_false]

theorem walkM_exec (text : TextSet) (depth : Nat) (hd : depth < 1000) (h : String) (trh : Tree) (esH : List EPiece)
    (asH : List Arg) (hasH : ∀ a ∈ asH, ActArg a) (hl : text.lookup h = some (some trh))
    (hroot : trh.root = NodeList.ofList (outNodes 0 esH asH)) (d r : Value) :
    ∀ (es : List EM) (i : Nat) (out : Bytes) (f : Nat), ArgsOKE es →
      (walkList false text depth f d r out (NodeList.ofList (outM h i es))).err = none →
      ∃ vs o, valsM d esH asH es = some vs ∧ exec (inlineE esH es) vs = some o ∧
        (walkList false text depth f d r out (NodeList.ofList (outM h i es))).out = out ++ o
  | es, i, out, 0, _, hw => by simp [walkList_zero] at hw
  | [], i, out, f + 1, _, hw => ⟨[], [], rfl, rfl, by simp [outM, NodeList.ofList, walkList]⟩
  | .text t :: es, i, out, f + 1, hok, hw => by
    simp only [outM, NodeList.ofList] at hw ⊢
    rw [walkList_cons] at hw ⊢
    cases f with
    | zero => simp [walkNode_zero] at hw
    | succ f =>
      rw [walkNode_text] at hw ⊢
      simp only at hw ⊢
      obtain ⟨vs, o, h1, h2, h3⟩ := walkM_exec text depth hd h trh esH asH hasH hl hroot d r es (i + 1) (out ++ t) (f + 1)
        hok hw
      exact ⟨vs, t ++ o, h1, by simp [inlineE, exec, h2], by rw [h3]; simp⟩
  | .action a ch :: es, i, out, f + 1, hok, hw => by
    simp only [outM, NodeList.ofList] at hw ⊢
    rw [walkList_cons] at hw ⊢
    cases f with
    | zero => simp [walkNode_zero] at hw
    | succ f =>
      rw [walk_action text depth f d r out i a hok.1 ch] at hw ⊢
      cases hav : argVal d a with
      | error e => simp [hav] at hw
      | ok x =>
        simp only [hav] at hw ⊢
        cases hr : runChain ch x with
        | error e => cases e <;> simp [hr] at hw
        | ok w =>
          cases w <;> simp only [hr] at hw ⊢ <;> try (simp at hw)
          next b =>
          obtain ⟨vs, o, h1, h2, h3⟩ := walkM_exec text depth hd h trh esH asH hasH hl hroot d r es (i + 1) (out ++ b)
            (f + 1) hok.2 hw
          exact ⟨x :: vs, b ++ o, by simp [valsM, hav, h1], by simp [inlineE, exec, hr, h2], by rw [h3]; simp⟩
  | .call :: es, i, out, f + 1, hok, hw => by
    simp only [outM, NodeList.ofList] at hw ⊢
    rw [walkList_cons] at hw ⊢
    cases f with
    | zero => simp [walkNode_zero] at hw
    | succ f =>
      rw [walkNode_tmpl text depth f d r out i h trh hl hd, hroot] at hw ⊢
      cases hwh : (walkList false text (depth + 1) f d d out (NodeList.ofList (outNodes 0 esH asH))).err with
      | some e => simp [hwh] at hw
      | none =>
        simp only [hwh] at hw ⊢
        obtain ⟨vh, oh, hv1, he1, ho1⟩ := walk_exec text (depth + 1) d d esH 0 asH out f hasH hwh
        rw [ho1] at hw ⊢
        obtain ⟨vs, o, h1, h2, h3⟩ := walkM_exec text depth hd h trh esH asH hasH hl hroot d r es (i + 1) (out ++ oh)
          (f + 1) hok hw
        exact ⟨vh ++ vs, oh ++ o, by simp [valsM, hv1, h1], by simpa [inlineE] using exec_append _ _ _ _ _ _ he1 h2,
          by rw [h3]; simp⟩

/-! ### the API state machine on a main template and a helper -/

/-- `t := New(m); t.Parse(text)` where the text defines the main template `m` and `{{define "h"}}…{{end}}` -/
def setup2 (v : Validators) (fuel : Nat) (m : String) (trm trh : Tree) : World :=
  Api.run (world0 v fuel) [.new 0 m, .parse 0 [trm, trh]]

def setupW2 (v : Validators) (fuel : Nat) (m h : String) (trm trh : Tree) : World :=
  { objs := [(2, { ns := 0, name := h, registered := true, treeNil := false }),
             (1, { ns := 0, name := m, registered := true, treeNil := false })],
    nss := [(0, { set := [(m, 1), (h, 2)], text := [(m, some trm), (h, some trh)] })],
    handles := [(0, 1)], next := 3, fuel := fuel, v := v }

theorem setup2_eq (v : Validators) (fuel : Nat) (m h : String) (hmh : m ≠ h) (trm trh : Tree) (hnm : trm.name = m)
    (hnh : trh.name = h) : setup2 v fuel m trm trh = setupW2 v fuel m h trm trh := by
  have hmh' : (m == h) = false := by simpa using hmh
  have hhm' : (h == m) = false := by simpa using (Ne.symm hmh)
  simp [setup2, setupW2, Api.run, Api.step, world0, World.newSet, World.setNs, World.setObj, World.bind, nset, apiParse,
    World.obj, nlookup, World.ns, addParseTree, hnm, hnh, TextSet.lookup, TextSet.set, alookup, bind, Option.bind,
    World.assocNew, aset, hmh', hhm', hmh, Ne.symm hmh]


def nsE2 (m h : String) (trm trh : Tree) : NS :=
  { set := [(m, 1), (h, 2)], text := [(m, some trm), (h, some trh)], escaped := true }

def worldE2 (v : Validators) (fuel : Nat) (m h : String) (trm trh : Tree) : World :=
  { objs := [(2, { ns := 0, name := h, registered := true, treeNil := false }),
             (1, { ns := 0, name := m, registered := true, treeNil := false })],
    nss := [(0, nsE2 m h trm trh)], handles := [(0, 1)], next := 3, fuel := fuel, v := v }

theorem worldE2_ns (v : Validators) (fuel : Nat) (m h : String) (trm trh : Tree) :
    (worldE2 v fuel m h trm trh).ns 0 = nsE2 m h trm trh := by
  simp [worldE2, World.ns, nlookup]

theorem setNs_escaped2 (v : Validators) (fuel : Nat) (m h : String) (trm trh : Tree) :
    (setupW2 v fuel m h trm trh).setNs 0 { (setupW2 v fuel m h trm trh).ns 0 with escaped := true } =
      worldE2 v fuel m h trm trh := by
  simp [setupW2, worldE2, World.setNs, World.ns, nset, nlookup, nsE2]

/-- the first `Execute` of the main template: analysis of main and helper, commit of both, walk of the main tree -/
theorem apiExecute2_gen (v : Validators) (fuel : Nat) (m h : String) (hmh : m ≠ h) (trm trh trm' trh' : Tree) (cf : Ctx)
    (E E' : Esc) (d : Value)
    (het : escapeTree ⟨[(m, some trm), (h, some trh)], fun n => (alookup [(m, 1), (h, 2)] n).isSome, false, v⟩ fuel {} {}
      m = .ok (E, cf, m))
    (hfin : finalError cf = none)
    (hc : commit [(m, some trm), (h, some trh)] E = .ok ([(m, some trm'), (h, some trh')], E')) :
    (apiExecute (setupW2 v fuel m h trm trh) 0 d).2 =
      resOf (walkList false [(m, some trm'), (h, some trh')] 0 fuel d d [] trm'.root) := by
  have hmh' : (m == h) = false := by simpa using hmh
  have hhm' : (h == m) = false := by simpa using (Ne.symm hmh)
  have ht : escapeTemplateTop (worldE2 v fuel m h trm trh) 0 m =
      .inr (markOk (worldE2 v fuel m h trm trh) 0 m [(m, some trm'), (h, some trh')] E', none) := by
    unfold escapeTemplateTop
    simp only [worldE2_ns]
    have hfu : (worldE2 v fuel m h trm trh).fuel = fuel := rfl
    have hv : (worldE2 v fuel m h trm trh).v = v := rfl
    have hesc : (nsE2 m h trm trh).esc = {} := rfl
    have hset : (nsE2 m h trm trh).set = [(m, 1), (h, 2)] := rfl
    have hcsp : (nsE2 m h trm trh).csp = false := rfl
    have htx : (nsE2 m h trm trh).text = [(m, some trm), (h, some trh)] := rfl
    rw [hfu, hv, hesc, hset, hcsp, htx, het]
    simp only [hfin, hc]
  have hobj : (setupW2 v fuel m h trm trh).obj 0 =
      some (1, { ns := 0, name := m, registered := true, treeNil := false }) := by
    simp [setupW2, World.obj, nlookup, bind, Option.bind]
  unfold apiExecute
  simp only [hobj, setNs_escaped2, Bool.false_eq_true, if_false, ht]
  simp [markOk, worldE2_ns, nsE2, alookup, worldE2, World.setNs, World.setObj, nset, nlookup, textExecute, World.ns,
    TextSet.lookup, resOf, hmh', hhm', hmh, Ne.symm hmh]
  rfl

/-! ### the helper's edits inside the main template's escaper -/

theorem find_snoc_name {β} (l : List (EditKey × β)) (m h : String) (i k : Nat) (x : β) (hmh : m ≠ h) :
    (l ++ [((m, i), x)]).find? (fun p => p.1 == (h, k)) = l.find? (fun p => p.1 == (h, k)) := by
  rw [List.find?_append]
  have : List.find? (fun p => p.1 == (h, k)) [((m, i), x)] = none := by simp [hmh]
  simp [this]

/-- once the helper has been analysed, the main template's further edits do not touch the lookups of its nodes -/
theorem find_h_true (v : Validators) (m h : String) (hmh : m ≠ h) (AH : List (EditKey × List String))
    (XH : List (EditKey × Bytes)) : ∀ (ms : List MP) (i : Nat) (c : Ctx) (st : MSt) (k : Nat), st.1 = true →
      (runMain v m AH XH i c ms st).2.2.find? (fun p => p.1 == (h, k)) = st.2.2.find? (fun p => p.1 == (h, k)) ∧
      (runMain v m AH XH i c ms st).2.1.find? (fun p => p.1 == (h, k)) = st.2.1.find? (fun p => p.1 == (h, k))
  | [], i, c, st, k, _ => ⟨rfl, rfl⟩
  | .text s :: ms, i, c, st, k, hst => by
    simp only [runMain]
    obtain ⟨h1, h2⟩ := find_h_true v m h hmh AH XH ms (i + 1) (scanD c s).1 (st.1, st.2.1, addText m i c s st.2.2) k hst
    refine ⟨?_, h2⟩
    rw [h1]
    simp only [addText]
    split
    · exact find_snoc_name _ m h i k _ hmh
    · rfl
  | .action a :: ms, i, c, st, k, hst => by
    simp only [runMain]
    split
    · next c' ch _ =>
      obtain ⟨h1, h2⟩ := find_h_true v m h hmh AH XH ms (i + 1) c' (st.1, st.2.1 ++ [((m, i), ch)], st.2.2) k hst
      exact ⟨h1, h2.trans (find_snoc_name _ m h i k _ hmh)⟩
    · exact ⟨rfl, rfl⟩
  | .call :: ms, i, c, st, k, hst => by
    simp only [runMain, hst, if_true]
    exact find_h_true v m h hmh AH XH ms (i + 1) {} st k hst

theorem find_prefix_name {β} (l l' : List (EditKey × β)) (m h : String) (k : Nat) (hmh : m ≠ h)
    (hl : ∀ p ∈ l, p.1.1 = m) :
    (l ++ l').find? (fun p => p.1 == (h, k)) = l'.find? (fun p => p.1 == (h, k)) := by
  rw [List.find?_append]
  have : l.find? (fun p => p.1 == (h, k)) = none := by
    rw [List.find?_eq_none]; intro p hp he
    have := hl p hp; simp at he; rw [he] at this; exact hmh this.symm
  simp [this]

/-- if the main template calls the helper, the lookups of the helper's nodes in the final escaper are the lookups in
    the helper's own edits -/
theorem find_h_false (v : Validators) (m h : String) (hmh : m ≠ h) (AH : List (EditKey × List String))
    (XH : List (EditKey × Bytes)) : ∀ (ms : List MP) (i : Nat) (c cf : Ctx) (st : MSt) (es : List EM) (k : Nat),
      analyseM v c ms = some (cf, es) → st.1 = false → (∀ p ∈ st.2.1, p.1.1 = m) → (∀ p ∈ st.2.2, p.1.1 = m) →
      MP.call ∈ ms →
      (runMain v m AH XH i c ms st).2.2.find? (fun p => p.1 == (h, k)) = XH.find? (fun p => p.1 == (h, k)) ∧
      (runMain v m AH XH i c ms st).2.1.find? (fun p => p.1 == (h, k)) = AH.find? (fun p => p.1 == (h, k))
  | [], i, c, cf, st, es, k, _, _, _, _, hc => by simp at hc
  | .text s :: ms, i, c, cf, st, es, k, ha, hst, hA, hX, hc => by
    simp only [analyseM] at ha
    cases hsc : scan c s with
    | none => simp [hsc] at ha
    | some r =>
      obtain ⟨c', out⟩ := r
      simp only [hsc] at ha
      split at ha
      · cases ha
      · cases hrec : analyseM v c' ms with
        | none => simp [hrec] at ha
        | some r2 =>
          obtain ⟨cf', es'⟩ := r2
          have hsd : (scanD c s).1 = c' := by simp [scanD, hsc]
          simp only [runMain, hsd]
          refine find_h_false v m h hmh AH XH ms (i + 1) c' cf' _ es' k hrec hst hA ?_ (by simpa using hc)
          simp only [addText]
          split
          · intro p hp
            rcases List.mem_append.1 hp with hp | hp
            · exact hX p hp
            · simp at hp; rw [hp]
          · exact hX
  | .action a :: ms, i, c, cf, st, es, k, ha, hst, hA, hX, hc => by
    simp only [analyseM] at ha
    cases hact : actionStep v c with
    | none => simp [hact] at ha
    | some r =>
      obtain ⟨c', ch⟩ := r
      simp only [hact] at ha
      cases hrec : analyseM v c' ms with
      | none => simp [hrec] at ha
      | some r2 =>
        obtain ⟨cf', es'⟩ := r2
        simp only [runMain, hact]
        refine find_h_false v m h hmh AH XH ms (i + 1) c' cf' _ es' k hrec hst ?_ hX (by simpa using hc)
        intro p hp
        rcases List.mem_append.1 hp with hp | hp
        · exact hA p hp
        · simp at hp; rw [hp]
  | .call :: ms, i, c, cf, st, es, k, ha, hst, hA, hX, hc => by
    simp only [runMain, hst, Bool.false_eq_true, if_false]
    obtain ⟨h1, h2⟩ := find_h_true v m h hmh AH XH ms (i + 1) {} (true, st.2.1 ++ AH, st.2.2 ++ XH) k rfl
    exact ⟨h1.trans (find_prefix_name _ _ m h k hmh hX), h2.trans (find_prefix_name _ _ m h k hmh hA)⟩

/-! ### C01 for `New`, `Parse` (main + helper), `Execute` -/

/-- the helper's analysis in the scratch escaper of the first call only appends edits keyed by the helper's name -/
theorem helper_keep (v : Validators) (m h : String) (hps : List Piece) :
    OtherEq (scratchH m h) (editsOf v h 0 {} hps (scratchH m h)) ∧ KeysOK h (editsOf v h 0 {} hps (scratchH m h)) ∧
    (editsOf v h 0 {} hps (scratchH m h)).actionEdits = actEdits v h 0 {} hps ∧
    (editsOf v h 0 {} hps (scratchH m h)).textEdits = txtEdits v h 0 {} hps := by
  rw [editsOf_frame]
  obtain ⟨k1, k2⟩ := keys_edits v h hps 0 {}
  refine ⟨⟨rfl, rfl, rfl, rfl, rfl, rfl, rfl⟩, ⟨?_, ?_, ?_, ?_⟩, ?_, ?_⟩ <;> simp [scratchH]
  · intro a b c hp; exact (k1.1 _ hp).1
  · exact k1.2
  · intro a b c hp; exact (k2.1 _ hp).1
  · exact k2.2

theorem C01_api_main_plus_helper (v : Validators) (fuel : Nat) (m h : String) (hmh : m ≠ h) (trm trh : Tree)
    (ms : List MP) (hps : List Piece) (asH : List Arg) (cf : Ctx) (es : List EM) (esH : List EPiece)
    (hnm : trm.name = m) (hnh : trh.name = h)
    (hrootM : trm.root = NodeList.ofList (nodesM h 0 ms))
    (hrootH : trh.root = NodeList.ofList (toNodesA 0 hps asH))
    (hokM : ArgsOKM ms) (hasH : ∀ a ∈ asH, ActArg a) (hcall : MP.call ∈ ms)
    (hH : analyse v {} hps = some ({}, esH)) (hM : analyseM v {} ms = some (cf, es))
    (hs : SimpleAll v {} (inlineP hps ms))
    (hfin : finalError cf = none) (hf : ms.length + hps.length + 9 ≤ fuel) (d1 d2 : Value)
    (hu1 : ∀ vs, valsM d1 esH asH es = some vs → ∀ x ∈ vs, Untrusted x)
    (hu2 : ∀ vs, valsM d2 esH asH es = some vs → ∀ x ∈ vs, Untrusted x)
    (o1 o2 : Bytes) (w1 w2 : World)
    (h1 : Api.step (setup2 v fuel m trm trh) (.exec 0 d1) = (w1, .exec (.ok o1)))
    (h2 : Api.step (setup2 v fuel m trm trh) (.exec 0 d2) = (w2, .exec (.ok o2))) :
    skeleton (HtmlTok.tokenize o1).tokens = skeleton (HtmlTok.tokenize o2).tokens ∧
    (HtmlTok.tokenize o1).final = .data ∧ (HtmlTok.tokenize o2).final = .data := by
  obtain ⟨f', rfl⟩ : ∃ f', fuel = f' + 3 := ⟨fuel - 3, by omega⟩
  have hmh' : (m == h) = false := by simpa using hmh
  have hhm' : (h == m) = false := by simpa using (Ne.symm hmh)
  have hst : cf.state = .text := by
    by_cases hc : cf.state = .text
    · exact hc
    · exfalso
      unfold finalError at hfin
      split at hfin
      · next h => cases he : cf.err <;> simp_all
      · simp [hc] at hfin
  have hne : cf.state ≠ .error := by rw [hst]; decide
  -- the helper's analysis
  obtain ⟨hoe, hk, hAeq, hXeq⟩ := helper_keep v m h hps
  generalize hs1 : editsOf v h 0 {} hps (scratchH m h) = s1 at hoe hk hAeq hXeq
  have hfreshH : Fresh h 0 (scratchH m h) := fun k _ => ⟨rfl, rfl⟩
  let env : Env := ⟨[(m, some trm), (h, some trh)], fun n => (alookup [(m, 1), (h, 2)] n).isSome, false, v⟩
  have hlH : ∀ f, hps.length + 1 ≤ f → escapeList env f h (scratchH m h) {} trh.root = .ok (s1, {}) := by
    intro f hf
    rw [hrootH, ← hs1]
    exact escapeList_refinesA env rfl h hps 0 {} {} (scratchH m h) esH asH f hH hfreshH hasH hf
  have hlookH : env.text.lookup h = some (some trh) := by
    simp [env, TextSet.lookup, alookup, hhm', hmh, Ne.symm hmh]
  have hlookM : env.text.lookup m = some (some trm) := by
    simp [env, TextSet.lookup, alookup]
  -- the main template's analysis
  have hinv0 : MInv m 0 (false, [], []) := ⟨fun k _ => ⟨rfl, rfl⟩, fun _ => ⟨by simp, by simp⟩⟩
  have hl := refMain env rfl m h hmh trh (hps.length + 1) s1 hlookH hlH hoe hk ms 0 {} cf (false, [], []) es f' hM
    hinv0 hokM (by omega)
  obtain ⟨kA, kX, hflag⟩ := runMain_keys v m h hmh s1.actionEdits s1.textEdits hk.1 hk.2.1 hk.2.2.1 hk.2.2.2 ms 0 {}
    cf (false, [], []) es hM hinv0 ⟨by simp, by simp⟩ ⟨by simp, by simp⟩
  have hflag := hflag (Or.inr hcall)
  generalize hstF : runMain v m s1.actionEdits s1.textEdits 0 {} ms (false, [], []) = stF at hl kA kX hflag
  obtain ⟨fl, A, X⟩ := stF
  simp only at hflag kA kX
  subst hflag
  have e0 : escOf m h (false, [], []) = escM0 m [] [] := by simp [escOf]
  have e1' : escOf m h (true, A, X) = escM1 m h A X := by simp [escOf]
  rw [e0, e1', ← hrootM] at hl
  have het := escapeTree_main env m h hmh trm cf A X hlookM f' hl kA.2 kX.2 hne
  -- commit
  have happm := applyM v m h hmh s1.actionEdits s1.textEdits hk.1 hk.2.2.1
    { escAfter2 m h cf A X with pristine := [(m, trm), (h, trh)] } rfl ms 0 {} cf (false, [], []) es hM hinv0 hokM
    (by intro k _; rw [hstF]; exact ⟨rfl, rfl⟩)
  have hagree : Agree h (0 + hps.length) { escAfter2 m h cf A X with pristine := [(m, trm), (h, trh)] }
      (editsOf v h 0 {} hps (scratchH m h)) := by
    intro k _
    obtain ⟨g1, g2⟩ := find_h_false v m h hmh s1.actionEdits s1.textEdits ms 0 {} cf (false, [], []) es k hM rfl
      (by simp) (by simp) hcall
    rw [hstF] at g1 g2
    rw [hs1]
    exact ⟨g1, g2⟩
  have happh := applyEdits_outA v h { escAfter2 m h cf A X with pristine := [(m, trm), (h, trh)] } hps 0 {} {}
    (scratchH m h) esH asH hH hfreshH hasH hagree
  rw [← hrootM] at happm
  rw [← hrootH] at happh
  obtain ⟨E', hc⟩ := commit2 m h hmh trm trh cf A X _ _ kA.1 kX.1 happm happh
  -- the API run
  rw [setup2_eq v (f' + 3) m h hmh trm trh hnm hnh] at h1 h2
  have r1 := apiExecute2_gen v (f' + 3) m h hmh trm trh _ _ cf _ E' d1 het hfin hc
  have r2 := apiExecute2_gen v (f' + 3) m h hmh trm trh _ _ cf _ E' d2 het hfin hc
  simp only [Api.step] at h1 h2
  have x1 : (apiExecute (setupW2 v (f' + 3) m h trm trh) 0 d1).2 = .ok o1 := by
    have := congrArg Prod.snd h1; simpa using this
  have x2 : (apiExecute (setupW2 v (f' + 3) m h trm trh) 0 d2).2 = .ok o2 := by
    have := congrArg Prod.snd h2; simpa using this
  rw [r1] at x1
  rw [r2] at x2
  obtain ⟨n1, rfl⟩ := resOf_ok x1
  obtain ⟨n2, rfl⟩ := resOf_ok x2
  have hlk : TextSet.lookup [(m, some { trm with root := NodeList.ofList (outM h 0 es) }),
      (h, some { trh with root := NodeList.ofList (outNodes 0 esH asH) })] h =
      some (some { trh with root := NodeList.ofList (outNodes 0 esH asH) }) := by
    simp [TextSet.lookup, alookup, hhm', hmh, Ne.symm hmh]
  have hE := analyseM_args v ms {} cf es hM hokM
  obtain ⟨vs, p1, hv1, hx1, ho1⟩ := walkM_exec _ 0 (by decide) h _ esH asH hasH hlk rfl d1 d1 es 0 [] (f' + 3) hE n1
  obtain ⟨ws, p2, hv2, hx2, ho2⟩ := walkM_exec _ 0 (by decide) h _ esH asH hasH hlk rfl d2 d2 es 0 [] (f' + 3) hE n2
  rw [ho1, ho2]
  simp only [List.nil_append]
  have := C01_straight_line v (inlineP hps ms) cf (inlineE esH es) vs ws p1 p2 hs
    (analyse_inline v hps esH hH ms {} cf es hM) (hu1 vs hv1) (hu2 ws hv2) hx1 hx2
  exact ⟨this.1, this.2.2 hst⟩

/-! ### the grammar hypothesis, separately for the helper and the main template -/

theorem SimpleAll_append (v : Validators) : ∀ (ps qs : List Piece) (c c1 : Ctx) (e1 : List EPiece),
    analyse v c ps = some (c1, e1) → SimpleAll v c ps → SimpleAll v c1 qs → SimpleAll v c (ps ++ qs)
  | [], qs, c, c1, e1, h1, _, h2 => by
    simp only [analyse, Option.some.injEq, Prod.mk.injEq] at h1
    obtain ⟨rfl, _⟩ := h1
    simpa using h2
  | .text s :: ps, qs, c, c1, e1, h1, hs, h2 => by
    simp only [analyse] at h1
    cases hsc : scan c s with
    | none => simp [hsc] at h1
    | some r =>
      obtain ⟨c', out⟩ := r
      simp only [hsc] at h1
      split at h1
      · cases h1
      · cases hrec : analyse v c' ps with
        | none => simp [hrec] at h1
        | some r2 =>
          obtain ⟨cx, ex⟩ := r2
          simp only [hrec, Option.some.injEq, Prod.mk.injEq] at h1
          obtain ⟨rfl, _⟩ := h1
          have hsd : (scanD c s).1 = c' := by simp [scanD, hsc]
          simp only [SimpleAll, hsd, List.cons_append] at hs ⊢
          exact ⟨hs.1, SimpleAll_append v ps qs c' cx ex hrec hs.2 h2⟩
  | .action :: ps, qs, c, c1, e1, h1, hs, h2 => by
    simp only [analyse] at h1
    cases hact : actionStep v c with
    | none => simp [hact] at h1
    | some r =>
      obtain ⟨c', ch⟩ := r
      simp only [hact] at h1
      cases hrec : analyse v c' ps with
      | none => simp [hrec] at h1
      | some r2 =>
        obtain ⟨cx, ex⟩ := r2
        simp only [hrec, Option.some.injEq, Prod.mk.injEq] at h1
        obtain ⟨rfl, _⟩ := h1
        simp only [SimpleAll, hact, List.cons_append] at hs ⊢
        exact ⟨hs.1, SimpleAll_append v ps qs c' cx ex hrec hs.2 h2⟩

/-- the static texts of the main template are simple for the contexts they are scanned in; after a call the
    analysis continues in the top-level text context -/
def SimpleM (v : Validators) : Ctx → List MP → Prop
  | _, [] => True
  | c, .text s :: ps =>
    (∃ js out se, Simple js c.elemName c.state c.delim s out se ∧
      (memKey specialElements c.elemName = true → InTagState c.state → ∀ x ∈ s, x ≠ 60) ∧
      (js = true → isJsTemplateBalanced s = true)) ∧
    SimpleM v (scanD c s).1 ps
  | c, .action _ :: ps =>
    (c.state = .beforeValue → c.attrName ≠ []) ∧
    match actionStep v c with
    | some (c', _) => SimpleM v c' ps
    | none => True
  | _, .call :: ps => SimpleM v {} ps

theorem SimpleAll_inline (v : Validators) (hps : List Piece) (esH : List EPiece) (hH : analyse v {} hps = some ({}, esH))
    (hsH : SimpleAll v {} hps) : ∀ (ms : List MP) (c cf : Ctx) (es : List EM),
    analyseM v c ms = some (cf, es) → SimpleM v c ms → SimpleAll v c (inlineP hps ms)
  | [], c, cf, es, _, _ => trivial
  | .text s :: ms, c, cf, es, h, hs => by
    simp only [analyseM] at h
    cases hsc : scan c s with
    | none => simp [hsc] at h
    | some r =>
      obtain ⟨c', out⟩ := r
      simp only [hsc] at h
      split at h
      · cases h
      · cases hrec : analyseM v c' ms with
        | none => simp [hrec] at h
        | some r2 =>
          obtain ⟨cx, ex⟩ := r2
          have hsd : (scanD c s).1 = c' := by simp [scanD, hsc]
          simp only [SimpleM, hsd] at hs
          simp only [inlineP, SimpleAll, hsd]
          exact ⟨hs.1, SimpleAll_inline v hps esH hH hsH ms c' cx ex hrec hs.2⟩
  | .action a :: ms, c, cf, es, h, hs => by
    simp only [analyseM] at h
    cases hact : actionStep v c with
    | none => simp [hact] at h
    | some r =>
      obtain ⟨c', ch⟩ := r
      simp only [hact] at h
      cases hrec : analyseM v c' ms with
      | none => simp [hrec] at h
      | some r2 =>
        obtain ⟨cx, ex⟩ := r2
        simp only [SimpleM, hact] at hs
        simp only [inlineP, SimpleAll, hact]
        exact ⟨hs.1, SimpleAll_inline v hps esH hH hsH ms c' cx ex hrec hs.2⟩
  | .call :: ms, c, cf, es, h, hs => by
    simp only [analyseM] at h
    split at h
    · next hc =>
      subst hc
      cases hrec : analyseM v {} ms with
      | none => simp [hrec] at h
      | some r2 =>
        obtain ⟨cx, ex⟩ := r2
        simp only [SimpleM] at hs
        simp only [inlineP]
        exact SimpleAll_append v hps _ {} {} esH hH hsH (SimpleAll_inline v hps esH hH hsH ms {} cx ex hrec hs)
    · cases h

/-- `C01_api_main_plus_helper` with the grammar hypothesis stated separately for the two templates -/
theorem C01_api_main_plus_helper' (v : Validators) (fuel : Nat) (m h : String) (hmh : m ≠ h) (trm trh : Tree)
    (ms : List MP) (hps : List Piece) (asH : List Arg) (cf : Ctx) (es : List EM) (esH : List EPiece)
    (hnm : trm.name = m) (hnh : trh.name = h)
    (hrootM : trm.root = NodeList.ofList (nodesM h 0 ms))
    (hrootH : trh.root = NodeList.ofList (toNodesA 0 hps asH))
    (hokM : ArgsOKM ms) (hasH : ∀ a ∈ asH, ActArg a) (hcall : MP.call ∈ ms)
    (hH : analyse v {} hps = some ({}, esH)) (hM : analyseM v {} ms = some (cf, es))
    (hsH : SimpleAll v {} hps) (hsM : SimpleM v {} ms)
    (hfin : finalError cf = none) (hf : ms.length + hps.length + 9 ≤ fuel) (d1 d2 : Value)
    (hu1 : ∀ vs, valsM d1 esH asH es = some vs → ∀ x ∈ vs, Untrusted x)
    (hu2 : ∀ vs, valsM d2 esH asH es = some vs → ∀ x ∈ vs, Untrusted x)
    (o1 o2 : Bytes) (w1 w2 : World)
    (h1 : Api.step (setup2 v fuel m trm trh) (.exec 0 d1) = (w1, .exec (.ok o1)))
    (h2 : Api.step (setup2 v fuel m trm trh) (.exec 0 d2) = (w2, .exec (.ok o2))) :
    skeleton (HtmlTok.tokenize o1).tokens = skeleton (HtmlTok.tokenize o2).tokens ∧
    (HtmlTok.tokenize o1).final = .data ∧ (HtmlTok.tokenize o2).final = .data :=
  C01_api_main_plus_helper v fuel m h hmh trm trh ms hps asH cf es esH hnm hnh hrootM hrootH hokM hasH hcall hH hM
    (SimpleAll_inline v hps esH hH hsH ms {} cf es hM hsM) hfin hf d1 d2 hu1 hu2 o1 o2 w1 w2 h1 h2

/-! ### non-vacuity: main `<i>{{.T}}</i>{{template "h" .}}{{template "h" .}}` with helper
    `<p title="{{.T}}">{{.T}}</p>` through `New`, `Parse`, `Execute` -/

def mT0 : Bytes := [60, 105, 62]          -- `<i>`
def mT1 : Bytes := [60, 47, 105, 62]      -- `</i>`
example : B "<i>" = mT0 ∧ B "</i>" = mT1 := by decide +kernel

def exMain : List MP := [.text mT0, .action (.field ["T"]), .text mT1, .call, .call]
def exMainOut : List EM := [.text mT0, .action (.field ["T"]) ["_sanitizeHTML"], .text mT1, .call, .call]
def exMainTree : Tree := { name := "main", root := NodeList.ofList (nodesM "h" 0 exMain) }
def exHelperTree : Tree := { name := "h", root := NodeList.ofList (toNodesA 0 exTemplate exArgs) }

theorem exMain_analyse : analyseM v0 {} exMain = some ({}, exMainOut) := by decide +kernel

example : retOk (Api.step (setup2 v0 100 "main" exMainTree exHelperTree) (.exec 0 (exData [34, 62, 60]))).2 = true := by
  decide +kernel


def cI : Ctx := { state := .text, elemName := [105] }
theorem exM_scan0 : scanD {} mT0 = (cI, mT0) := by decide +kernel
theorem exM_act : actionStep v0 cI = some (cI, ["_sanitizeHTML"]) := by decide +kernel
theorem exM_scan1 : scanD cI mT1 = ({}, mT1) := by decide +kernel

theorem exM_simple0 : Simple false [] .text .none mT0 mT0 .text :=
  Simple.openTag [] [] 105 [] _ _ (by decide) (by decide) (by decide) (by decide) (by decide)
    (Simple.tagEnd _ [] [] [] [] (by decide) (fun h => absurd h (by decide)) (Simple.nil _ _ _))

theorem exM_simple1 : Simple false [105] .text .none mT1 mT1 .text :=
  Simple.closeTag _ [] 105 [] _ _ (by decide) (by decide) (by decide)
    (Simple.tagEnd _ [] [] [] [] (by decide) (fun h => absurd h (by decide)) (Simple.nil _ _ _))

theorem exMain_simple : SimpleM v0 {} exMain := by
  simp only [exMain, SimpleM, exM_scan0, exM_act, exM_scan1]
  refine ⟨⟨false, mT0, .text, exM_simple0, fun h => absurd h (by decide), fun h => by simp at h⟩, ?_, ?_⟩
  · intro h; cases h
  · exact ⟨⟨false, mT1, .text, exM_simple1, fun h => absurd h (by decide), fun h => by simp at h⟩, trivial⟩

theorem exMain_vals (b : Bytes) : valsM (exData b) exOut exArgs exMainOut = some [.str b, .str b, .str b, .str b, .str b] := by
  simp [valsM, exMainOut, exOut, exArgs, argVals, argVal, fieldChain, exData, Value.indirect, KVList.get]

theorem ex_api_helper (b1 b2 o1 o2 : Bytes) (w1 w2 : World)
    (h1 : Api.step (setup2 v0 100 "main" exMainTree exHelperTree) (.exec 0 (exData b1)) = (w1, .exec (.ok o1)))
    (h2 : Api.step (setup2 v0 100 "main" exMainTree exHelperTree) (.exec 0 (exData b2)) = (w2, .exec (.ok o2))) :
    skeleton (HtmlTok.tokenize o1).tokens = skeleton (HtmlTok.tokenize o2).tokens ∧
    (HtmlTok.tokenize o1).final = .data ∧ (HtmlTok.tokenize o2).final = .data :=
  C01_api_main_plus_helper' v0 100 "main" "h" (by decide) exMainTree exHelperTree exMain exTemplate exArgs {} exMainOut
    exOut rfl rfl rfl rfl ⟨Or.inr ⟨_, rfl⟩, trivial⟩
    (by intro a ha; simp [exArgs] at ha; subst ha; exact Or.inr ⟨_, rfl⟩) (by simp [exMain])
    ex_analyse exMain_analyse ex_simpleAll exMain_simple (by decide) (by decide) _ _
    (by rw [exMain_vals]; intro vs hv x hx; cases hv; simp at hx; subst hx; intro t y h; simp [Value.indirect] at h)
    (by rw [exMain_vals]; intro vs hv x hx; cases hv; simp at hx; subst hx; intro t y h; simp [Value.indirect] at h)
    o1 o2 w1 w2 h1 h2


def retBytes : Ret → Bytes
  | .exec (.ok o) => o
  | _ => []

/-- the output of the example for the value `"><`:
    `<i>&#34;&gt;&lt;</i><p title="&#34;&gt;&lt;">&#34;&gt;&lt;</p><p title="&#34;&gt;&lt;">&#34;&gt;&lt;</p>` -/
example : retBytes (Api.step (setup2 v0 100 "main" exMainTree exHelperTree) (.exec 0 (exData [34, 62, 60]))).2 =
    [60, 105, 62, 38, 35, 51, 52, 59, 38, 103, 116, 59, 38, 108, 116, 59, 60, 47, 105, 62, 60, 112, 32, 116, 105, 116, 108,
     101, 61, 34, 38, 35, 51, 52, 59, 38, 103, 116, 59, 38, 108, 116, 59, 34, 62, 38, 35, 51, 52, 59, 38, 103, 116, 59, 38,
     108, 116, 59, 60, 47, 112, 62, 60, 112, 32, 116, 105, 116, 108, 101, 61, 34, 38, 35, 51, 52, 59, 38, 103, 116, 59, 38,
     108, 116, 59, 34, 62, 38, 35, 51, 52, 59, 38, 103, 116, 59, 38, 108, 116, 59, 60, 47, 112, 62] := by
  decide +kernel

end SafeHtml.Proofs.Layer3Helpers
