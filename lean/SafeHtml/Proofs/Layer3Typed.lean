/-
The template-level statement of C03 ("a safe-typed value is emitted unchanged only in the context its type contract
covers; in every other context it is treated exactly like the plain string with the same contents; attribute values are
always escaped") for straight-line templates: `analyse` / `exec` (`Layer3E2E`) and `Rel` (`Layer3`) combined with
`Props/C03` (`C03_chain`, `C03_attr_escaped`, `allowedFn`).

* chains: `attr_chain_cases` (the six shapes of an attribute-value chain, with the sanitization context `attrSC`),
  `chain_first` (every chain `sanitizerForContext` chooses starts with a reserved function), `analyse_chains`.
* (1) `firstAllows ch τ`: the first function of the chain passes type `τ` through. `C03_action_typed_vs_plain` /
  `C03_straight_line_typed_vs_plain` (per position: if not `firstAllows`, `runChain ch (.safe τ b) = runChain ch (.str b)`),
  `C03_action_typed_own` (otherwise the value skips the first function only), `exec_congr`,
  `C03_straight_line_typed_vs_plain_outputs` (whole outputs: `exec es vs = exec es ws`).
* an engine-only invariant `Inv` of the contexts (no conditional names; no attribute name recorded outside a tag; a
  non-empty attribute name from the attribute name to the end of the value), preserved by every transition function,
  `contextAfterText`, `escapeText` (`scan_inv`) and by an accepted action (`actionStep_cases`, `actionStep_inv`,
  `actionStep_same`).
* (3) `PassesTyped`, `ctx_chain_esc_gen` (an accepted action emits `Esc` text for ARBITRARY values inside a quoted
  attribute value, and elsewhere for every value that does not carry a type the first function passes through),
  `ValsOK`, `straight_line_sim_typed`, `C01_straight_line_typed` (`C01_straight_line` for such values;
  `ValsOK_of_untrusted`: it generalises the untrusted case).
* (2) `own_context_local` (at one action position, from `Rel c t` and `Inv c`: if the first function passes `τ` through
  then exactly one of: element content / HTML / tokenizer in `data`; `script` body / Script / `script` state after a
  `script` start tag; `style` body / StyleSheet / `rawtext` after a `style` start tag; quoted attribute value / the
  sanitizer of the sanitization context of (element, attribute, link rel) / tokenizer in the attribute value state
  of the same quote with the same attribute name and tag name), `analyse_split`,
  `C03_straight_line_own_context` (the same at a position `pre ++ {{action}} ++ post` of an accepted template, for the
  tokenizer state `run {} o` on the output `o` of any execution of `pre`).
* Examples on `<p title="{{.}}">{{.}}</p>` and `<a href="{{.}}">x</a>`.
Not covered: values `.ptr (.safe τ b)` in (1) (`C03_bypass_ptr` covers the type-aware functions only); unquoted
attribute values (the engine rejects actions there); branches / template calls.
Core Lean only; axioms: propext, Classical.choice, Quot.sound.
-/
import SafeHtml.Proofs.Layer3E2E
import SafeHtml.Props.C03
import SafeHtml.Proofs.Utf8
set_option linter.unusedSimpArgs false
set_option linter.unusedVariables false
namespace SafeHtml.Proofs.Layer3Typed
open SafeHtml SafeHtml.Model SafeHtml.Model.Tmpl SafeHtml.Spec SafeHtml.Spec.HtmlTok SafeHtml.Generated.Policy
open SafeHtml.Props.C01 (InertPos run_nil run_cons run_append)
open SafeHtml.Props.C02 (Untrusted)
open SafeHtml.Props.C03
open SafeHtml.Proofs.HtmlTokSim
open SafeHtml.Proofs.Layer3 SafeHtml.Proofs.Layer3E2E

/-! ### the chains the analysis chooses -/

/-- every sanitization context's function is a reserved function (or there is none) -/
theorem sanitizerName_reserved (sc : SC) : sc.sanitizerName = "" ∨ sc.sanitizerName ∈ reservedFns := by
  cases sc <;> simp [SC.sanitizerName, reservedFns]

/-- the sanitization context of the attribute value position `c` (all candidate element / attribute names agree) -/
def attrSC (c : Ctx) : Option SC :=
  allSame ((if c.elemNames.isEmpty then [c.elemName] else c.elemNames).flatMap fun e =>
    (if c.attrNames.isEmpty then [c.attrName] else c.attrNames).map fun a =>
      sanitizationContextForAttrVal e a c.linkRel)

/-- the six shapes of the chain of an attribute value position -/
theorem attr_chain_cases (v : Validators) (c : Ctx) (chain : List String)
    (h : sanitizersForAttributeValue v c = some chain) :
    ∃ sc0, attrSC c = some sc0 ∧
      ((sc0.sanitizerName ≠ "" ∧ chain = [sc0.sanitizerName, fnHTML]) ∨ chain = [fnEvalArgs, fnHTML] ∨
       (sc0.sanitizerName ≠ "" ∧ chain = [sc0.sanitizerName, fnNormalizeURL, fnHTML]) ∨
       chain = [fnNormalizeURL, fnHTML] ∨ chain = [fnValidateTRUSubst, fnQueryEscapeURL, fnHTML] ∨
       chain = [fnQueryEscapeURL, fnHTML]) := by
  unfold sanitizersForAttributeValue at h
  simp only [] at h
  split at h
  · cases h
  · rename_i sc0 hsc
    refine ⟨sc0, hsc, ?_⟩
    split at h
    · cases h
    · split at h
      · cases h
      · split at h
        · simp only [Option.some.injEq] at h
          subst h
          by_cases hs : sc0.sanitizerName = ""
          · exact Or.inr (Or.inl (by simp [hs, appendIfNotEmpty, fnEvalArgs]))
          · exact Or.inl ⟨hs, by simp [hs, appendIfNotEmpty]⟩
        · split at h
          · cases h
          · split at h
            · simp only [Option.some.injEq] at h
              subst h
              by_cases hs : sc0.sanitizerName = ""
              · exact Or.inr (Or.inr (Or.inr (Or.inl (by simp [hs, appendIfNotEmpty, fnNormalizeURL]))))
              · exact Or.inr (Or.inr (Or.inl ⟨hs, by simp [hs, appendIfNotEmpty, fnNormalizeURL]⟩))
            · split at h
              · split at h
                · simp only [Option.some.injEq] at h; subst h
                  exact Or.inr (Or.inr (Or.inr (Or.inr (Or.inl (by simp)))))
                · split at h
                  · simp only [Option.some.injEq] at h; subst h
                    exact Or.inr (Or.inr (Or.inr (Or.inr (Or.inr (by simp)))))
                  · simp only [Option.some.injEq] at h; subst h
                    exact Or.inr (Or.inr (Or.inr (Or.inl (by simp))))
              · cases h

/-- every chain starts with a reserved function -/
theorem chain_first (v : Validators) (c : Ctx) (ch : List String) (h : sanitizerForContext v c = some ch) :
    ∃ f fs, ch = f :: fs ∧ f ∈ reservedFns := by
  unfold sanitizerForContext at h
  split at h
  · cases h
  · split at h
    · cases h; exact ⟨_, _, rfl, by decide⟩
    · split at h
      · cases h; exact ⟨_, _, rfl, by decide⟩
      · split at h
        · split at h
          · cases h
          · obtain ⟨sc0, _, hc⟩ := attr_chain_cases v c ch h
            have hr := sanitizerName_reserved sc0
            rcases hc with ⟨hne, rfl⟩ | rfl | ⟨hne, rfl⟩ | rfl | rfl | rfl
            · exact ⟨_, _, rfl, hr.resolve_left hne⟩
            · exact ⟨_, _, rfl, by decide⟩
            · exact ⟨_, _, rfl, hr.resolve_left hne⟩
            · exact ⟨_, _, rfl, by decide⟩
            · exact ⟨_, _, rfl, by decide⟩
            · exact ⟨_, _, rfl, by decide⟩
        · split at h
          · cases h
          · next s hs =>
            cases h
            rcases content_chain c s hs with rfl | rfl | rfl | rfl
            · exact ⟨"_sanitizeHTML", [], by simp [appendIfNotEmpty], by decide⟩
            · exact ⟨"_sanitizeRCDATA", [], by simp [appendIfNotEmpty], by decide⟩
            · exact ⟨"_sanitizeScript", [], by simp [appendIfNotEmpty], by decide⟩
            · exact ⟨"_sanitizeStyleSheet", [], by simp [appendIfNotEmpty], by decide⟩

/-! ### (1) a typed value outside its own context is treated like the plain string -/

/-- does the first function of the chain pass values of type `τ` through unchanged? -/
def firstAllows (ch : List String) (τ : SafeT) : Bool :=
  match ch with
  | f :: _ => (allowedFn f).contains τ
  | [] => false

/-- at one action position: if the chain chosen for the context does not start with a function whose contract covers
    `τ`, the typed value and the plain string with the same contents give the same result (same bytes or same error) -/
theorem C03_action_typed_vs_plain (v : Validators) (c : Ctx) (ch : List String) (τ : SafeT) (b : Bytes)
    (h : sanitizerForContext v c = some ch) (hn : firstAllows ch τ = false) :
    runChain ch (.safe τ b) = runChain ch (.str b) := by
  obtain ⟨f, fs, rfl, hf⟩ := chain_first v c ch h
  rw [C03_chain f fs hf τ b]
  simp only [firstAllows] at hn
  rw [if_neg (by rw [hn]; simp)]

/-- … and if it does, the value passes the first function unchanged (the rest of the chain still runs) -/
theorem C03_action_typed_own (v : Validators) (c : Ctx) (ch : List String) (τ : SafeT) (b : Bytes)
    (h : sanitizerForContext v c = some ch) (hn : firstAllows ch τ = true) :
    runChain ch (.safe τ b) = runChain ch.tail (.str b) := by
  obtain ⟨f, fs, rfl, hf⟩ := chain_first v c ch h
  rw [C03_chain f fs hf τ b]
  simp only [firstAllows] at hn
  rw [if_pos hn]
  rfl

/-- the chains of the actions of an analysed template, in order -/
def chainsOf : List EPiece → List (List String)
  | [] => []
  | .text _ :: es => chainsOf es
  | .action ch :: es => ch :: chainsOf es

theorem actionStep_chain (v : Validators) (c c' : Ctx) (ch : List String) (h : actionStep v c = some (c', ch)) :
    sanitizerForContext v c' = some ch := by
  unfold actionStep at h
  simp only [] at h
  split at h
  · cases h
  · split at h
    · cases h
    · next s hs => cases h; exact hs

/-- every chain of an analysed template was chosen by `sanitizerForContext` for some context -/
theorem analyse_chains (v : Validators) : ∀ (ps : List Piece) (c cf : Ctx) (es : List EPiece),
    analyse v c ps = some (cf, es) → ∀ ch ∈ chainsOf es, ∃ c', sanitizerForContext v c' = some ch
  | [], c, cf, es, h, ch, hch => by
    simp only [analyse, Option.some.injEq, Prod.mk.injEq] at h
    obtain ⟨_, rfl⟩ := h
    simp [chainsOf] at hch
  | .text s :: ps, c, cf, es, h, ch, hch => by
    simp only [analyse] at h
    split at h
    · cases h
    · split at h
      · cases h
      · split at h
        · cases h
        · next cf' es' hrec =>
          simp only [Option.some.injEq, Prod.mk.injEq] at h
          obtain ⟨_, rfl⟩ := h
          exact analyse_chains v ps _ _ es' hrec ch (by simpa [chainsOf] using hch)
  | .action :: ps, c, cf, es, h, ch, hch => by
    simp only [analyse] at h
    split at h
    · cases h
    · next c' ch' hact =>
      split at h
      · cases h
      · next cf' es' hrec =>
        simp only [Option.some.injEq, Prod.mk.injEq] at h
        obtain ⟨_, rfl⟩ := h
        simp only [chainsOf, List.mem_cons] at hch
        rcases hch with rfl | hch
        · exact ⟨c', actionStep_chain v c c' _ hact⟩
        · exact analyse_chains v ps _ _ es' hrec ch hch

/-- **(1), per position.** In an accepted straight-line template, at the `i`-th action: if the chain chosen for its
    context does not start with a function whose contract covers `τ`, a value of type `τ` is treated exactly like
    the plain string with the same contents. -/
theorem C03_straight_line_typed_vs_plain (v : Validators) (ps : List Piece) (c cf : Ctx) (es : List EPiece)
    (ha : analyse v c ps = some (cf, es)) (i : Nat) (ch : List String) (hi : (chainsOf es)[i]? = some ch)
    (τ : SafeT) (b : Bytes) (hn : firstAllows ch τ = false) :
    runChain ch (.safe τ b) = runChain ch (.str b) := by
  obtain ⟨c', hc⟩ := analyse_chains v ps c cf es ha ch (List.mem_of_getElem? hi)
  exact C03_action_typed_vs_plain v c' ch τ b hc hn

/-- the output only depends on the results of the chains -/
theorem exec_congr : ∀ (es : List EPiece) (vs ws : List Value), vs.length = ws.length →
    (∀ (i : Nat) (ch : List String) (x y : Value), (chainsOf es)[i]? = some ch → vs[i]? = some x → ws[i]? = some y → runChain ch x = runChain ch y) →
    exec es vs = exec es ws
  | [], vs, ws, hl, _ => by
    cases vs <;> cases ws <;> simp at hl <;> simp [exec]
  | .text o :: es, vs, ws, hl, h => by
    simp only [exec]
    rw [exec_congr es vs ws hl (fun i ch x y h1 => h i ch x y (by simpa [chainsOf] using h1))]
  | .action ch :: es, [], [], _, _ => by simp [exec]
  | .action ch :: es, [], _ :: _, hl, _ => by simp at hl
  | .action ch :: es, _ :: _, [], hl, _ => by simp at hl
  | .action ch :: es, x :: vs, y :: ws, hl, h => by
    simp only [exec]
    rw [h 0 ch x y (by simp [chainsOf]) (by simp) (by simp),
      exec_congr es vs ws (by simpa using hl) (fun i ch' x' y' h1 h2 h3 =>
        h (i + 1) ch' x' y' (by simpa [chainsOf] using h1) (by simpa using h2) (by simpa using h3))]

/-- **(1), whole outputs.** Two value lists that agree position-wise except that at some positions one has a typed
    value and the other the plain string with the same contents: if at every such position the chain does not start
    with a function whose contract covers the type, the two executions give the same result. -/
theorem C03_straight_line_typed_vs_plain_outputs (v : Validators) (ps : List Piece) (c cf : Ctx) (es : List EPiece)
    (ha : analyse v c ps = some (cf, es)) (vs ws : List Value) (hl : vs.length = ws.length)
    (hd : ∀ (i : Nat) (x y : Value), vs[i]? = some x → ws[i]? = some y →
      x = y ∨ ∃ τ b, x = .safe τ b ∧ y = .str b ∧ ∀ ch, (chainsOf es)[i]? = some ch → firstAllows ch τ = false) :
    exec es vs = exec es ws := by
  refine exec_congr es vs ws hl (fun i ch x y h1 h2 h3 => ?_)
  rcases hd i x y h2 h3 with rfl | ⟨τ, b, rfl, rfl, hn⟩
  · rfl
  · exact C03_straight_line_typed_vs_plain v ps c cf es ha i ch h1 τ b (hn ch h1)

/-! ### an invariant of the engine's contexts along a straight-line template -/

/-- no conditional names (they only arise from `join`); outside a tag no attribute name is recorded; at and after an
    attribute name, up to the end of the value, the recorded attribute name is not empty -/
def Inv (c : Ctx) : Prop :=
  c.elemNames = [] ∧ c.attrNames = [] ∧
  ((c.state = .text ∨ c.state = .specialBody ∨ c.state = .htmlCmt) → c.attrName = []) ∧
  ((c.state = .attrName ∨ c.state = .afterName ∨ c.state = .beforeValue ∨ c.state = .attr) → c.attrName ≠ [])

theorem Inv_empty : Inv {} := ⟨rfl, rfl, fun _ => rfl, fun h => by simp at h⟩

theorem Inv_error (e : ErrCode) : Inv (Ctx.errorCtx e) :=
  ⟨rfl, rfl, fun h => by simp [Ctx.errorCtx] at h, fun h => by simp [Ctx.errorCtx] at h⟩

theorem encodeRune_ne_nil (r : Nat) : Utf8.encodeRune r ≠ [] := by
  unfold Utf8.encodeRune
  split
  · simp
  · split
    · simp
    · split
      · simp
      · split <;> simp

theorem goToLower_ne_nil (s : Bytes) (h : s ≠ []) : goToLower s ≠ [] := by
  cases s with
  | nil => exact absurd rfl h
  | cons b t =>
    unfold goToLower
    split
    · simp
    · rw [SafeHtml.Utf8.decodeSyms_cons]
      simp only [List.flatMap_cons]
      intro he
      have := (List.append_eq_nil_iff.1 he).1
      revert this
      split
      · simp
      · split
        · simp
        · split
          · simp
          · exact encodeRune_ne_nil _

/-! ### the invariant is preserved by the transition functions -/

/-- a context built afresh for a state outside a tag, or for `tag` -/
theorem Inv_fresh (st : State) (en : Bytes) (stp lr : Bytes) (h : st = .text ∨ st = .specialBody ∨ st = .htmlCmt ∨ st = .tag) :
    Inv { state := st, elemName := en, scriptType := stp, linkRel := lr } := by
  refine ⟨rfl, rfl, fun _ => rfl, fun h' => ?_⟩
  rcases h with rfl | rfl | rfl | rfl <;> simp at h'

theorem tTextGo_inv (c : Ctx) (hc : Inv c) : ∀ (f off : Nat) (s : Bytes), Inv (tTextGo c f off s).1
  | 0, off, s => by simpa [tTextGo] using hc
  | f + 1, off, s => by
    unfold tTextGo
    split
    · exact hc
    · simp only []
      repeat' (first
        | exact hc
        | exact Inv_fresh .htmlCmt [] [] [] (by simp)
        | exact Inv_fresh .tag _ [] [] (by simp)
        | exact tTextGo_inv c hc f _ _
        | split)

theorem tTag_inv (c : Ctx) (s : Bytes) (hc : Inv c) : Inv (tTag c s).1 := by
  unfold tTag
  simp only []
  split
  · exact hc
  · split
    · split
      · exact ⟨rfl, rfl, fun _ => rfl, fun h' => by
          revert h'; split <;> simp⟩
      · refine ⟨hc.1, rfl, fun _ => rfl, fun h' => ?_⟩
        revert h'; split <;> simp
    · split
      · exact Inv_error _
      · next n hn =>
        split
        · exact Inv_error _
        · next hn0 =>
          refine ⟨hc.1, rfl, fun h' => ?_, fun _ => ?_⟩
          · revert h'; simp only []; split <;> simp
          · simp only []
            apply goToLower_ne_nil
            cases hr : List.drop (eatWhiteSpace s) s with
            | nil => rw [hr] at hn; simp [eatAttrName] at hn; subst hn; simp at hn0
            | cons x r' =>
              cases n with
              | zero => simp at hn0
              | succ k => simp

theorem transition_inv (c : Ctx) (s : Bytes) (hc : Inv c) : Inv (transition c s).1 := by
  unfold transition
  cases hs : c.state <;> simp only []
  · exact tTextGo_inv c hc _ _ _
  · unfold tSpecialTagEnd
    split
    · split
      · exact Inv_empty
      · exact hc
    · exact hc
  · exact tTag_inv c s hc
  · unfold tAttrName
    split
    · exact Inv_error _
    · split
      · exact ⟨hc.1, hc.2.1, fun h' => by simp at h', fun _ => hc.2.2.2 (Or.inl hs)⟩
      · exact hc
  · unfold tAfterName
    simp only []
    split
    · exact hc
    · split
      · exact ⟨hc.1, hc.2.1, fun h' => by simp at h', fun h' => by simp at h'⟩
      · exact ⟨hc.1, hc.2.1, fun h' => by simp at h', fun _ => hc.2.2.2 (Or.inr (Or.inl hs))⟩
  · unfold tBeforeValue
    simp only []
    split
    · exact hc
    · split <;> exact ⟨hc.1, hc.2.1, fun h' => by simp at h', fun _ => hc.2.2.2 (Or.inr (Or.inr (Or.inl hs)))⟩
  · unfold tHTMLCmt
    split
    · exact Inv_empty
    · exact hc
  · exact hc
  · exact hc

theorem feedLoop_inv : ∀ (f : Nat) (c : Ctx) (u : Bytes), Inv c → Inv (feedLoop f c u)
  | 0, c, u, hc => by simpa [feedLoop] using hc
  | f + 1, c, u, hc => by
    unfold feedLoop
    split
    · exact hc
    · exact feedLoop_inv f _ _ (transition_inv c u hc)

theorem contextAfterText_inv (c : Ctx) (s : Bytes) (hc : Inv c) : Inv (contextAfterText c s).1 := by
  unfold contextAfterText
  split
  · simp only []
    split
    · unfold tSpecialTagEnd
      split
      · split
        · exact Inv_empty
        · exact hc
      · exact hc
    · exact transition_inv c _ hc
  · simp only []
    split
    · exact Inv_error _
    · split
      · exact feedLoop_inv _ _ _ ⟨hc.1, hc.2.1, hc.2.2.1, hc.2.2.2⟩
      · refine ⟨?_, ?_, ?_, ?_⟩
        · split <;> split <;> exact hc.1
        · split <;> split <;> rfl
        · intro _; split <;> split <;> rfl
        · intro h'; exfalso; revert h'; split <;> split <;> simp

/-! ### … by `escapeText` and by an action -/

def ResInv : Option ETState ⊕ ETResult → Prop
  | .inl (some st') => Inv st'.c
  | .inl none => True
  | .inr (.done c' _) => Inv c'
  | .inr .panic => True

theorem escapeTextLoop_inv (csp : Bool) (s : Bytes) : ∀ (f : Nat) (st : ETState), Inv st.c →
    ResInv (escapeTextLoop csp s f st)
  | 0, st, _ => by simp [escapeTextLoop, ResInv]
  | f + 1, st, hc => by
    unfold escapeTextLoop
    split
    · exact hc
    · split
      · exact Inv_error _
      · simp only []
        split
        · exact Inv_error _
        · split
          · trivial
          · exact escapeTextLoop_inv csp s f _ (contextAfterText_inv st.c _ hc)

theorem scan_inv (c c' : Ctx) (s out : Bytes) (hc : Inv c) (h : scan c s = some (c', out)) : Inv c' := by
  unfold scan at h
  have key : ∀ r, escapeText false c s = .done c' r → Inv c' := by
    intro r hr
    unfold escapeText at hr
    simp only [Bool.false_and, Bool.false_eq_true, if_false] at hr
    have := escapeTextLoop_inv false s (2 * s.length + 2) { c := c, i := 0, written := 0, b := [] } hc
    split at hr
    · next r' hl => rw [hl] at this; subst hr; exact this
    · cases hr
    · next st hl =>
      rw [hl] at this
      split at hr <;> (cases hr; exact this)
  split at h
  · next c'' hr => cases h; exact key _ hr
  · next c'' b hr => cases h; exact key _ hr
  · cases h

theorem sfc_attrName (v : Validators) (d : Ctx) (h : d.state = .attrName) : sanitizerForContext v d = none := by
  simp [sanitizerForContext, h]

/-- an accepted action leaves the context as it is, except directly after `=` (unquoted value) -/
theorem actionStep_cases (v : Validators) (c c' : Ctx) (ch : List String) (h : actionStep v c = some (c', ch)) :
    (c' = c ∧ (c.state = .text ∨ c.state = .specialBody ∨ c.state = .htmlCmt ∨ c.state = .attr)) ∨
    (c.state = .beforeValue ∧ c' = { c with state := .attr, delim := .spaceOrTagEnd }) := by
  unfold actionStep at h
  cases hs : c.state <;> simp only [nudge, hs] at h
  · simp [hs] at h
    split at h
    · cases h
    · cases h; exact Or.inl ⟨rfl, Or.inl rfl⟩
  · simp [hs] at h
    split at h
    · cases h
    · cases h; exact Or.inl ⟨rfl, Or.inr (Or.inl rfl)⟩
  · simp [sfc_attrName] at h
  · simp [hs, sfc_attrName v c hs] at h
    rw [sfc_attrName v _ rfl] at h
    cases h
  · simp [sfc_attrName] at h
  · simp at h
    split at h
    · cases h
    · cases h; exact Or.inr ⟨rfl, rfl⟩
  · simp [hs] at h
    split at h
    · cases h
    · cases h; exact Or.inl ⟨rfl, Or.inr (Or.inr (Or.inl rfl))⟩
  · simp [hs] at h
    split at h
    · cases h
    · cases h; exact Or.inl ⟨rfl, Or.inr (Or.inr (Or.inr rfl))⟩
  · simp [hs] at h

theorem actionStep_inv (v : Validators) (c c' : Ctx) (ch : List String) (hc : Inv c)
    (h : actionStep v c = some (c', ch)) : Inv c' := by
  rcases actionStep_cases v c c' ch h with ⟨rfl, _⟩ | ⟨hs, rfl⟩
  · exact hc
  · exact ⟨hc.1, hc.2.1, fun h' => by simp at h', fun _ => hc.2.2.2 (Or.inr (Or.inr (Or.inl hs)))⟩

/-! ### (3) what an accepted action emits for ARBITRARY values -/

/-- the value carries (through any number of pointers) a safe type that the first function of the chain passes
    through unchanged -/
def PassesTyped (ch : List String) (x : Value) : Prop :=
  ∃ τ b, x.indirect = .safe τ b ∧ firstAllows ch τ = true

theorem not_passes_of_untrusted (ch : List String) (x : Value) (h : Untrusted x) : ¬ PassesTyped ch x :=
  fun ⟨τ, b, hi, _⟩ => h τ b hi

/-- `_sanitizeHTML`: either the value is HTML-typed, or the output is HTML-escaped -/
theorem runFn_html_ok (val w : Value) (h : runFn fnHTML val = .ok w) :
    (∃ b, val.indirect = .safe .HTML b) ∨ ∃ s, w = .str (htmlEscaped s) := by
  simp only [runFn, fnHTML, typedOr] at h
  split at h
  · next t b hi =>
    split at h
    · next hc => simp at hc; subst hc; exact Or.inl ⟨b, hi⟩
    · cases hs : stringify val with
      | none => simp [hs, Except.map] at h
      | some s => simp only [hs, Except.map] at h; cases h; exact Or.inr ⟨s, rfl⟩
  · cases hs : stringify val with
    | none => simp [hs, Except.map] at h
    | some s => simp only [hs, Except.map] at h; cases h; exact Or.inr ⟨s, rfl⟩

/-- the typed-only functions succeed only on a value of their type -/
theorem typedOnly_ok (ts : List SafeT) (val : Value) (b : Bytes) (h : typedOnly ts val = .ok b) :
    ∃ τ, τ ∈ ts ∧ val.indirect = .safe τ b := by
  unfold typedOnly at h
  split at h
  · next t b' hi =>
    split at h
    · next hc => cases h; exact ⟨t, by simpa using hc, hi⟩
    · cases h
  · cases h

/-- **every accepted action emits inert text, whatever the value**, unless the value carries a safe type that the
    first function of the chain passes through; inside a quoted attribute value even then -/
theorem ctx_chain_esc_gen (v : Validators) (c : Ctx) (ch : List String) (val o : Value)
    (h : sanitizerForContext v c = some ch) (hattr : c.state = .attr → c.attrName ≠ [])
    (hv : c.state = .attr ∨ ¬ PassesTyped ch val) (hrun : runChain ch val = .ok o) :
    ∃ x, o = .str x ∧ Esc x = true := by
  unfold sanitizerForContext at h
  split at h
  · cases h
  · split at h
    · cases h
      simp only [runChain, SafeHtml.Props.C02.C02_comment, bind, Except.bind, pure, Except.pure] at hrun
      cases hrun
      exact ⟨[], rfl, Esc_nil⟩
    · split at h
      · next _ _ htop =>
        cases h
        have hst : c.state = .text := by simp at htop; exact htop.2
        have hnp : ¬ PassesTyped [fnHTML] val := by
          rcases hv with hv | hv
          · rw [hst] at hv; cases hv
          · exact hv
        cases h1 : runFn fnHTML val with
        | error e => simp [runChain, h1, bind, Except.bind] at hrun
        | ok w =>
          simp only [runChain, h1, bind, Except.bind, pure, Except.pure] at hrun
          cases hrun
          rcases runFn_html_ok val _ h1 with ⟨b, hb⟩ | ⟨s, rfl⟩
          · exact absurd ⟨.HTML, b, hb, by decide⟩ hnp
          · exact ⟨_, rfl, SafeHtml.Props.C10.C10_inert s⟩
      · split at h
        · split at h
          · cases h
          · exact SafeHtml.Props.C03.C03_attr_escaped v c ch val o h hrun
        · next hnb =>
          have hna : c.state ≠ .attr := by
            intro ha
            have := hattr ha
            simp at hnb
            exact this hnb.1
          have hnp : ¬ PassesTyped ch val := hv.resolve_left hna
          split at h
          · cases h
          · next s hs =>
            cases h
            have hne : s ≠ "" := by rcases content_chain c s hs with h | h | h | h <;> simp [h]
            have hch : appendIfNotEmpty [] s = [s] := by simp [appendIfNotEmpty, hne]
            rw [hch] at hrun hnp
            cases h1 : runFn s val with
            | error e => simp [runChain, h1, bind, Except.bind] at hrun
            | ok w =>
              simp only [runChain, h1, bind, Except.bind, pure, Except.pure] at hrun
              cases hrun
              rcases content_chain c s hs with rfl | rfl | rfl | rfl
              · rcases runFn_html_ok val _ h1 with ⟨b, hb⟩ | ⟨s, rfl⟩
                · exact absurd ⟨.HTML, b, hb, by decide⟩ hnp
                · exact ⟨_, rfl, SafeHtml.Props.C10.C10_inert s⟩
              · exact SafeHtml.Props.C01.C01_rcdata_inert val _ h1
              · exfalso
                simp only [runFn] at h1
                cases h2 : typedOnly [.Script] val with
                | error e => simp [h2, Except.map] at h1
                | ok b =>
                  obtain ⟨τ, hτ, hi⟩ := typedOnly_ok _ val b h2
                  simp at hτ; subst hτ
                  exact hnp ⟨.Script, b, hi, by decide⟩
              · exfalso
                simp only [runFn] at h1
                cases h2 : typedOnly [.StyleSheet] val with
                | error e => simp [h2, Except.map] at h1
                | ok b =>
                  obtain ⟨τ, hτ, hi⟩ := typedOnly_ok _ val b h2
                  simp at hτ; subst hτ
                  exact hnp ⟨.StyleSheet, b, hi, by decide⟩

/-! ### (3) C01 for straight-line templates with arbitrary values at attribute positions -/

/-- the condition on the values: at a quoted-attribute position any value at all; at every other position any value
    that does not carry a safe type which the first function of the position's chain passes through (HTML in element
    content, Script in a script body, StyleSheet in a style body) -/
def ValsOK (v : Validators) : Ctx → List Piece → List Value → Prop
  | _, [], _ => True
  | c, .text s :: ps, vs => ValsOK v (scanD c s).1 ps vs
  | _, .action :: _, [] => True
  | c, .action :: ps, x :: vs =>
    match actionStep v c with
    | some (c', ch) => (c'.state = .attr ∨ ¬ PassesTyped ch x) ∧ ValsOK v c' ps vs
    | none => True

theorem ValsOK_of_untrusted (v : Validators) : ∀ (ps : List Piece) (c : Ctx) (vs : List Value),
    (∀ x ∈ vs, Untrusted x) → ValsOK v c ps vs
  | [], _, _, _ => trivial
  | .text s :: ps, c, vs, h => ValsOK_of_untrusted v ps _ vs h
  | .action :: ps, c, [], _ => trivial
  | .action :: ps, c, x :: vs, h => by
    simp only [ValsOK]
    split
    · exact ⟨Or.inr (not_passes_of_untrusted _ x (h x (by simp))),
        ValsOK_of_untrusted v ps _ vs (fun y hy => h y (by simp [hy]))⟩
    · trivial

/-- the invariant along a straight-line template, for two executions side by side, with arbitrary values at
    attribute positions -/
theorem straight_line_sim_typed (v : Validators) : ∀ (ps : List Piece) (c cf : Ctx) (a b : T) (es : List EPiece)
    (vs ws : List Value) (o1 o2 : Bytes), Rel c a → Rel c b → Sim a b → Inv c → SimpleAll v c ps →
    analyse v c ps = some (cf, es) → ValsOK v c ps vs → ValsOK v c ps ws →
    exec es vs = some o1 → exec es ws = some o2 →
    Rel cf (run a o1) ∧ Rel cf (run b o2) ∧ Sim (run a o1) (run b o2) ∧ Inv cf
  | [], c, cf, a, b, es, vs, ws, o1, o2, ha, hb, hsim, hinv, _, han, _, _, h1, h2 => by
    simp only [analyse, Option.some.injEq, Prod.mk.injEq] at han
    obtain ⟨rfl, rfl⟩ := han
    cases vs <;> cases ws <;> simp [exec] at h1 h2
    subst h1 h2
    exact ⟨ha, hb, hsim, hinv⟩
  | .text s :: ps, c, cf, a, b, es, vs, ws, o1, o2, ha, hb, hsim, hinv, hall, han, hu, hw, h1, h2 => by
    obtain ⟨⟨js, out, se, hsimple, hlt, hjs⟩, hrest⟩ := hall
    obtain ⟨c1, hsc, _, hra⟩ := layer3_simple js c a s out se ha hsimple hlt hjs
    obtain ⟨c2, hsc2, _, hrb⟩ := layer3_simple js c b s out se hb hsimple hlt hjs
    rw [hsc] at hsc2
    simp only [Option.some.injEq, Prod.mk.injEq, and_true] at hsc2
    subst hsc2
    simp only [ValsOK] at hu hw
    rw [scanD_of_scan hsc] at hrest hu hw
    simp only [analyse, hsc] at han
    split at han
    · cases han
    · cases hrec : analyse v c1 ps with
      | none => simp [hrec] at han
      | some r =>
        obtain ⟨cf', es'⟩ := r
        simp only [hrec, Option.some.injEq, Prod.mk.injEq] at han
        obtain ⟨rfl, rfl⟩ := han
        simp only [exec, Option.map_eq_some_iff] at h1 h2
        obtain ⟨r1, h1, rfl⟩ := h1
        obtain ⟨r2, h2, rfl⟩ := h2
        have := straight_line_sim_typed v ps c1 cf' (run a out) (run b out) es' vs ws r1 r2 hra hrb
          (run_sim out a b hsim) (scan_inv c c1 s out hinv hsc) hrest hrec hu hw h1 h2
        simpa [run_append] using this
  | .action :: ps, c, cf, a, b, es, vs, ws, o1, o2, ha, hb, hsim, hinv, hall, han, hu, hw, h1, h2 => by
    obtain ⟨hbv, hrest⟩ := hall
    simp only [analyse] at han
    cases hact : actionStep v c with
    | none => simp [hact] at han
    | some r =>
      obtain ⟨c', ch⟩ := r
      simp only [hact] at han hrest
      obtain ⟨rfl, hst, hch⟩ := action_ok v c c' a ch ha hbv hact
      cases hrec : analyse v c' ps with
      | none => simp [hrec] at han
      | some r =>
        obtain ⟨cf', es'⟩ := r
        simp only [hrec, Option.some.injEq, Prod.mk.injEq] at han
        obtain ⟨rfl, rfl⟩ := han
        cases vs with
        | nil => simp [exec] at h1
        | cons x vs =>
        cases ws with
        | nil => simp [exec] at h2
        | cons y ws =>
        simp only [exec] at h1 h2
        simp only [ValsOK, hact] at hu hw
        cases hx : runChain ch x with
        | error e => simp [hx] at h1
        | ok ox =>
        cases hy : runChain ch y with
        | error e => simp [hy] at h2
        | ok oy =>
        have hattr : c'.state = .attr → c'.attrName ≠ [] := fun hs => hinv.2.2.2 (Or.inr (Or.inr (Or.inr hs)))
        obtain ⟨dx, rfl, hex⟩ := ctx_chain_esc_gen v c' ch x ox hch hattr hu.1 hx
        obtain ⟨dy, rfl, hey⟩ := ctx_chain_esc_gen v c' ch y oy hch hattr hw.1 hy
        simp only [hx, hy, Option.map_eq_some_iff] at h1 h2
        obtain ⟨r1, h1, rfl⟩ := h1
        obtain ⟨r2, h2, rfl⟩ := h2
        have := straight_line_sim_typed v ps c' cf' (run a dx) (run b dy) es' vs ws r1 r2
          (rel_esc c' a dx ha hst hex) (rel_esc c' b dy hb hst hey)
          (inert_sim2' a b hsim dx dy hex hey (rel_inert_pos c' a ha hst)) hinv hrest hrec hu.2 hw.2 h1 h2
        simpa [run_append] using this

/-- **C01 for straight-line templates with arbitrary values at attribute positions**: as `C01_straight_line`, but
    the values need not be untrusted: at quoted-attribute positions they are arbitrary (typed or not); elsewhere they
    are arbitrary except for values of the position's own type (`ValsOK`). -/
theorem C01_straight_line_typed (v : Validators) (ps : List Piece) (cf : Ctx) (es : List EPiece)
    (vs ws : List Value) (o1 o2 : Bytes)
    (hs : SimpleAll v {} ps) (ha : analyse v {} ps = some (cf, es))
    (hu : ValsOK v {} ps vs) (hw : ValsOK v {} ps ws)
    (h1 : exec es vs = some o1) (h2 : exec es ws = some o2) :
    skeleton (HtmlTok.tokenize o1).tokens = skeleton (HtmlTok.tokenize o2).tokens ∧
    (HtmlTok.tokenize o1).final = (HtmlTok.tokenize o2).final ∧
    (cf.state = .text → (HtmlTok.tokenize o1).final = .data ∧ (HtmlTok.tokenize o2).final = .data) := by
  obtain ⟨hr1, hr2, hsim, _⟩ := straight_line_sim_typed v ps {} cf {} {} es vs ws o1 o2 Layer3E2E.rel_init Layer3E2E.rel_init (Sim.refl _)
    Inv_empty hs ha hu hw h1 h2
  have hres := result_sim _ _ (finish_sim _ _ hsim)
  simp only [tokenize_tokens, tokenize_final]
  refine ⟨hres.1, hres.2, fun hcf => ?_⟩
  simp only [Rel, hcf] at hr1 hr2
  constructor
  · simp only [finish, hr1.2.2, flush_st]
  · simp only [finish, hr2.2.2, flush_st]

/-! ### (2) the context for which the engine lets a typed value through is the context the tokenizer is in -/

def styleName : Bytes := [115, 116, 121, 108, 101]

theorem lookupSC_mem' (tbl : List (Nat × List Nat × SC)) (k : Bytes) (sc : SC) (h : lookupSC tbl k = some sc) :
    ∃ r ∈ tbl, r.2.1 = k ∧ r.2.2 = sc := by
  unfold lookupSC at h
  split at h
  · next r hr =>
    refine ⟨r, List.mem_of_find?_eq_some hr, ?_, by simpa using h⟩
    have := List.find?_some hr
    simpa using this
  · cases h

/-- the facts used about the generated table `elementContent`: exactly the special elements have a content other
    than HTML; Script content is the content of `script`, StyleSheet content the content of `style` -/
theorem content_special : elementContent.all (fun r => r.2.2 == .HTML || memKey specialElements r.2.1) = true := by
  decide +kernel
theorem content_special_rev :
    elementContent.all (fun r => !(memKey specialElements r.2.1) || r.2.2 != .HTML) = true := by decide +kernel
theorem content_script : elementContent.all (fun r => r.2.2 != .Script || r.2.1 == scriptName) = true := by
  decide +kernel
theorem content_style : elementContent.all (fun r => r.2.2 != .StyleSheet || r.2.1 == styleName) = true := by
  decide +kernel

theorem allowed_html : allowedFn "_sanitizeHTML" = [.HTML] := by simp [allowedFn]
theorem allowed_rcdata : allowedFn "_sanitizeRCDATA" = [] := by simp [allowedFn]
theorem allowed_script : allowedFn "_sanitizeScript" = [.Script] := by simp [allowedFn]
theorem allowed_stylesheet : allowedFn "_sanitizeStyleSheet" = [.StyleSheet] := by simp [allowedFn]

/-- the sanitizer of an element-content position without conditional names -/
theorem content_sanitizer (c : Ctx) (s : String) (hn : c.elemNames = []) (h : sanitizerForElementContent c = some s) :
    (c.elemName = [] ∧ s = "_sanitizeHTML") ∨
    (c.elemName ≠ [] ∧ ∃ sc, lookupSC elementContent c.elemName = some sc ∧ s = sc.sanitizerName) := by
  unfold sanitizerForElementContent at h
  simp only [hn, List.isEmpty_nil, if_true, List.map_cons, List.map_nil] at h
  by_cases he : c.elemName = []
  · simp [he, allSame] at h
    exact Or.inl ⟨he, by simp [← h, SC.sanitizerName]⟩
  · have he' : (c.elemName == []) = false := by simpa using he
    simp only [he', Bool.false_eq_true, if_false, sanitizationContextForElementContent] at h
    cases hl : lookupSC elementContent c.elemName with
    | none => simp [hl, allSame] at h
    | some sc =>
      simp [hl, allSame] at h
      exact Or.inr ⟨he, sc, rfl, h.symm⟩

/-- **(2), at one action position.** `c` is the engine's context at an accepted action, `ch` its chain, `t` the
    tokenizer state on the output emitted so far (`Rel c t`). If the first function of the chain passes the safe type
    `τ` through, then one of four cases holds; in each the tokenizer is in the state that belongs to the context. -/
theorem own_context_local (v : Validators) (c : Ctx) (ch : List String) (t : T) (hr : Rel c t) (hinv : Inv c)
    (hst : ActionState c.state) (hch : sanitizerForContext v c = some ch) (τ : SafeT) (hτ : firstAllows ch τ = true) :
    -- element content of an element that is not script/style/textarea/title: HTML, the tokenizer is in the data state
    (c.state = .text ∧ τ = .HTML ∧ ch = ["_sanitizeHTML"] ∧ t.st = .data) ∨
    -- the body of `script`: Script, the tokenizer is in the script data state of a `script` start tag
    (c.state = .specialBody ∧ τ = .Script ∧ ch = ["_sanitizeScript"] ∧ c.elemName = scriptName ∧
      t.lastStart = scriptName ∧ t.st = .script) ∨
    -- the body of `style`: StyleSheet, the tokenizer is in the RAWTEXT state of a `style` start tag
    (c.state = .specialBody ∧ τ = .StyleSheet ∧ ch = ["_sanitizeStyleSheet"] ∧ c.elemName = styleName ∧
      t.lastStart = styleName ∧ t.st = .rawtext) ∨
    -- a quoted attribute value: the first function is the sanitizer of the sanitization context of (element,
    -- attribute, link rel), these being the tokenizer's current tag name and attribute name; the tokenizer is in
    -- the attribute value state of the engine's quote
    (c.state = .attr ∧ c.attrName ≠ [] ∧ t.an.reverse = c.attrName ∧
      (if c.elemName = [] then t.isEnd = true else t.isEnd = false ∧ t.name.reverse = c.elemName) ∧
      ((c.delim = .dq ∧ t.st = .attrValueDq) ∨ (c.delim = .sq ∧ t.st = .attrValueSq)) ∧
      ∃ sc0 fs, sanitizationContextForAttrVal c.elemName c.attrName c.linkRel = some sc0 ∧
        ch = sc0.sanitizerName :: fs ∧ τ ∈ allowedFn sc0.sanitizerName) := by
  obtain ⟨hen, han, hout, hin⟩ := hinv
  unfold sanitizerForContext at hch
  rcases hst with hs | hs | hs | hs
  · -- text
    have ha0 := hout (Or.inl hs)
    simp only [Rel, hs] at hr
    simp only [hs, hen, han, ha0] at hch
    simp at hch
    split at hch
    · cases hch
      simp [firstAllows, fnHTML, allowed_html] at hτ
      exact Or.inl ⟨hs, hτ, rfl, hr.2.2⟩
    · split at hch
      · cases hch
      · next s hsan =>
        cases hch
        rcases content_sanitizer c s hen hsan with ⟨_, rfl⟩ | ⟨hne, sc, hl, rfl⟩
        · simp [firstAllows, appendIfNotEmpty, allowed_html] at hτ
          exact Or.inl ⟨hs, hτ, by simp [appendIfNotEmpty], hr.2.2⟩
        · obtain ⟨r, hrm, hr1, hr2⟩ := lookupSC_mem' _ _ _ hl
          have h1 := (List.all_eq_true.1 content_special) r hrm
          rw [hr1, hr2, hr.2.1] at h1
          simp at h1
          subst h1
          simp [firstAllows, appendIfNotEmpty, SC.sanitizerName, allowed_html] at hτ
          exact Or.inl ⟨hs, hτ, by simp [appendIfNotEmpty, SC.sanitizerName], hr.2.2⟩
  · -- special element body
    have ha0 := hout (Or.inr (Or.inl hs))
    simp only [Rel, hs] at hr
    simp only [hs, hen, han, ha0] at hch
    simp at hch
    split at hch
    · cases hch
    · next s hsan =>
      cases hch
      rcases content_sanitizer c s hen hsan with ⟨he, _⟩ | ⟨hne, sc, hl, rfl⟩
      · rw [he] at hr; simp [memKey, specialElements] at hr
      · obtain ⟨r, hrm, hr1, hr2⟩ := lookupSC_mem' _ _ _ hl
        have h1 := (List.all_eq_true.1 content_special_rev) r hrm
        have h2 := (List.all_eq_true.1 content_script) r hrm
        have h3 := (List.all_eq_true.1 content_style) r hrm
        rw [hr1, hr2] at h1 h2 h3
        simp only [hr.2.1, Bool.not_true, Bool.false_or, bne_iff_ne, ne_eq] at h1
        have hsc := content_sc c.elemName sc hl
        cases sc <;> simp [contentSC] at hsc h1
        · -- RCDATA
          simp [firstAllows, appendIfNotEmpty, SC.sanitizerName, allowed_rcdata] at hτ
        · -- Script
          simp at h2
          simp [firstAllows, appendIfNotEmpty, SC.sanitizerName, allowed_script] at hτ
          refine Or.inr (Or.inl ⟨hs, hτ, by simp [appendIfNotEmpty, SC.sanitizerName], h2, ?_, ?_⟩)
          · rw [hr.2.2.1, h2]
          · rw [hr.2.2.2, h2]; decide
        · -- StyleSheet
          simp at h3
          simp [firstAllows, appendIfNotEmpty, SC.sanitizerName, allowed_stylesheet] at hτ
          refine Or.inr (Or.inr (Or.inl ⟨hs, hτ, by simp [appendIfNotEmpty, SC.sanitizerName], h3, ?_, ?_⟩))
          · rw [hr.2.2.1, h3]
          · rw [hr.2.2.2, h3]; decide
  · -- comment
    simp only [hs] at hch
    simp at hch
    subst hch
    simp [firstAllows, fnHTMLComment, allowedFn] at hτ
  · -- quoted attribute value
    have hane := hin (Or.inr (Or.inr (Or.inr hs)))
    have hr' := hr
    simp only [Rel, hs] at hr'
    simp only [hs] at hch
    simp [hane] at hch
    obtain ⟨_, hch⟩ := hch
    obtain ⟨sc0, hsc, hcases⟩ := attr_chain_cases v c ch hch
    have hsc' : sanitizationContextForAttrVal c.elemName c.attrName c.linkRel = some sc0 := by
      unfold attrSC at hsc
      simp only [hen, han, List.isEmpty_nil, if_true, List.flatMap_cons, List.flatMap_nil, List.map_cons,
        List.map_nil, List.append_nil] at hsc
      cases hx : sanitizationContextForAttrVal c.elemName c.attrName c.linkRel with
      | none => simp [hx, allSame] at hsc
      | some y => simp [hx, allSame] at hsc; rw [hsc]
    refine Or.inr (Or.inr (Or.inr ⟨hs, hane, hr'.2.1, hr'.1.2, hr'.2.2, sc0, ?_⟩))
    rcases hcases with ⟨_, rfl⟩ | rfl | ⟨_, rfl⟩ | rfl | rfl | rfl
    · exact ⟨_, hsc', rfl, by simpa [firstAllows] using hτ⟩
    · simp [firstAllows, fnEvalArgs, allowedFn] at hτ
    · exact ⟨_, hsc', rfl, by simpa [firstAllows] using hτ⟩
    · simp [firstAllows, fnNormalizeURL, allowedFn] at hτ
    · simp [firstAllows, fnValidateTRUSubst, allowedFn] at hτ
    · simp [firstAllows, fnQueryEscapeURL, allowedFn] at hτ

/-! ### (2) at a position of a straight-line template -/

/-- the analysis of a template is the analysis of a prefix followed by the analysis of the rest; the grammar
    hypothesis splits accordingly -/
theorem analyse_split (v : Validators) : ∀ (pre q : List Piece) (c cf : Ctx) (es : List EPiece),
    analyse v c (pre ++ q) = some (cf, es) → SimpleAll v c (pre ++ q) →
    ∃ c1 e1 e2, analyse v c pre = some (c1, e1) ∧ analyse v c1 q = some (cf, e2) ∧ es = e1 ++ e2 ∧
      SimpleAll v c pre ∧ SimpleAll v c1 q
  | [], q, c, cf, es, h, hs => ⟨c, [], es, rfl, by simpa using h, rfl, trivial, by simpa using hs⟩
  | .text s :: pre, q, c, cf, es, h, hs => by
    simp only [List.cons_append, analyse] at h
    cases hsc : scan c s with
    | none => simp [hsc] at h
    | some r =>
      obtain ⟨c', out⟩ := r
      simp only [hsc] at h
      split at h
      · cases h
      · next hne =>
        cases hrec : analyse v c' (pre ++ q) with
        | none => simp [hrec] at h
        | some r2 =>
          obtain ⟨cx, ex⟩ := r2
          simp only [hrec, Option.some.injEq, Prod.mk.injEq] at h
          obtain ⟨rfl, rfl⟩ := h
          simp only [List.cons_append, SimpleAll, scanD_of_scan hsc] at hs
          obtain ⟨c1, e1, e2, h1, h2, rfl, s1, s2⟩ := analyse_split v pre q c' cx ex hrec hs.2
          refine ⟨c1, .text out :: e1, e2, by simp [analyse, hsc, hne, h1], h2, rfl, ?_, s2⟩
          simp only [SimpleAll, scanD_of_scan hsc]
          exact ⟨hs.1, s1⟩
  | .action :: pre, q, c, cf, es, h, hs => by
    simp only [List.cons_append, analyse] at h
    cases hact : actionStep v c with
    | none => simp [hact] at h
    | some r =>
      obtain ⟨c', ch⟩ := r
      simp only [hact] at h
      cases hrec : analyse v c' (pre ++ q) with
      | none => simp [hrec] at h
      | some r2 =>
        obtain ⟨cx, ex⟩ := r2
        simp only [hrec, Option.some.injEq, Prod.mk.injEq] at h
        obtain ⟨rfl, rfl⟩ := h
        simp only [List.cons_append, SimpleAll, hact] at hs
        obtain ⟨c1, e1, e2, h1, h2, rfl, s1, s2⟩ := analyse_split v pre q c' cx ex hrec hs.2
        refine ⟨c1, .action ch :: e1, e2, by simp [analyse, hact, h1], h2, rfl, ?_, s2⟩
        simp only [SimpleAll, hact]
        exact ⟨hs.1, s1⟩

/-- an accepted action leaves the context unchanged (no tokenizer state needed, unlike `action_ok`) -/
theorem actionStep_same (v : Validators) (c c' : Ctx) (ch : List String)
    (hbv : c.state = .beforeValue → c.attrName ≠ []) (h : actionStep v c = some (c', ch)) :
    c' = c ∧ ActionState c.state ∧ sanitizerForContext v c = some ch := by
  have hch := actionStep_chain v c c' ch h
  rcases actionStep_cases v c c' ch h with ⟨rfl, hs⟩ | ⟨hs, rfl⟩
  · exact ⟨rfl, hs, hch⟩
  · exfalso
    have := hbv hs
    unfold sanitizerForContext at hch
    simp [this] at hch

/-- **(2), template level.** For an accepted straight-line template `pre ++ {{action}} ++ post`: let `c` be the
    context the analysis reaches after `pre`, `ch` the chain it chooses for the action, and `o` the output of any
    execution of `pre` (values as in `ValsOK`). Then the tokenizer state `run {} o` on the output emitted so far is
    `Rel`-related to `c`, and whenever the first function of `ch` passes a safe type `τ` through, the tokenizer is in
    the state belonging to that type's context (the four cases of `own_context_local`). -/
theorem C03_straight_line_own_context (v : Validators) (pre post : List Piece) (cf : Ctx) (es : List EPiece)
    (hs : SimpleAll v {} (pre ++ .action :: post)) (ha : analyse v {} (pre ++ .action :: post) = some (cf, es)) :
    ∃ c ch esPre esPost, analyse v {} pre = some (c, esPre) ∧ actionStep v c = some (c, ch) ∧
      analyse v c post = some (cf, esPost) ∧ es = esPre ++ .action ch :: esPost ∧
      ∀ (vs : List Value) (o : Bytes), ValsOK v {} pre vs → exec esPre vs = some o →
        Rel c (run {} o) ∧
        ∀ τ, firstAllows ch τ = true →
          (c.state = .text ∧ τ = .HTML ∧ ch = ["_sanitizeHTML"] ∧ (run {} o).st = .data) ∨
          (c.state = .specialBody ∧ τ = .Script ∧ ch = ["_sanitizeScript"] ∧ c.elemName = scriptName ∧
            (run {} o).lastStart = scriptName ∧ (run {} o).st = .script) ∨
          (c.state = .specialBody ∧ τ = .StyleSheet ∧ ch = ["_sanitizeStyleSheet"] ∧ c.elemName = styleName ∧
            (run {} o).lastStart = styleName ∧ (run {} o).st = .rawtext) ∨
          (c.state = .attr ∧ c.attrName ≠ [] ∧ (run {} o).an.reverse = c.attrName ∧
            (if c.elemName = [] then (run {} o).isEnd = true
              else (run {} o).isEnd = false ∧ (run {} o).name.reverse = c.elemName) ∧
            ((c.delim = .dq ∧ (run {} o).st = .attrValueDq) ∨ (c.delim = .sq ∧ (run {} o).st = .attrValueSq)) ∧
            ∃ sc0 fs, sanitizationContextForAttrVal c.elemName c.attrName c.linkRel = some sc0 ∧
              ch = sc0.sanitizerName :: fs ∧ τ ∈ allowedFn sc0.sanitizerName) := by
  obtain ⟨c, esPre, e2, hpre, hrest, rfl, spre, srest⟩ := analyse_split v pre (.action :: post) {} cf es ha hs
  simp only [analyse] at hrest
  cases hact : actionStep v c with
  | none => simp [hact] at hrest
  | some r =>
    obtain ⟨c', ch⟩ := r
    simp only [hact] at hrest
    cases hrec : analyse v c' post with
    | none => simp [hrec] at hrest
    | some r2 =>
      obtain ⟨cx, ex⟩ := r2
      simp only [hrec, Option.some.injEq, Prod.mk.injEq] at hrest
      obtain ⟨rfl, rfl⟩ := hrest
      -- any execution of the prefix keeps the correspondence
      have key : ∀ (vs : List Value) (o : Bytes), ValsOK v {} pre vs → exec esPre vs = some o →
          Rel c (run {} o) ∧ Inv c := by
        intro vs o hv he
        obtain ⟨h1, _, _, h4⟩ := straight_line_sim_typed v pre {} c {} {} esPre vs vs o o Layer3E2E.rel_init
          Layer3E2E.rel_init (Sim.refl _) Inv_empty spre hpre hv hv he he
        exact ⟨h1, h4⟩
      simp only [SimpleAll, hact] at srest
      obtain ⟨rfl, hst, hch⟩ := actionStep_same v c c' ch srest.1 hact
      refine ⟨c', ch, esPre, ex, hpre, hact, hrec, rfl, fun vs o hv he => ?_⟩
      obtain ⟨hr, hinv⟩ := key vs o hv he
      exact ⟨hr, fun τ hτ => own_context_local v c' ch (run {} o) hr hinv hst hch τ hτ⟩

/-! ### non-vacuity: `<p title="{{.}}">{{.}}</p>` (`exTemplate` of `Layer3E2E`) -/

/-- (1) a URL-typed value is treated like the plain string at both positions; an HTML-typed value at the attribute
    position -/
example (τ : SafeT) (hτ : τ ≠ .HTML) (b1 b2 : Bytes) :
    exec exOut [.safe .HTML b1, .safe τ b2] = exec exOut [.str b1, .str b2] := by
  refine C03_straight_line_typed_vs_plain_outputs v0 exTemplate {} {} exOut ex_analyse _ _ rfl ?_
  intro i x y hx hy
  match i with
  | 0 =>
    simp at hx hy; subst hx hy
    exact Or.inr ⟨_, _, rfl, rfl, fun ch hch => by simp [exOut, chainsOf] at hch; subst hch; decide⟩
  | 1 =>
    simp at hx hy; subst hx hy
    refine Or.inr ⟨_, _, rfl, rfl, fun ch hch => ?_⟩
    simp [exOut, chainsOf] at hch; subst hch
    cases τ <;> simp [firstAllows, allowedFn] at hτ ⊢
  | n + 2 => simp at hx

/-- (3) the attribute value is arbitrary (typed or not), the element content untrusted -/
example (x y x' y' : Value) (hy : Untrusted y) (hy' : Untrusted y') (o1 o2 : Bytes)
    (h1 : exec exOut [x, y] = some o1) (h2 : exec exOut [x', y'] = some o2) :
    skeleton (HtmlTok.tokenize o1).tokens = skeleton (HtmlTok.tokenize o2).tokens ∧
    (HtmlTok.tokenize o1).final = .data ∧ (HtmlTok.tokenize o2).final = .data := by
  have hv : ∀ x y, Untrusted y → ValsOK v0 {} exTemplate [x, y] := by
    intro x y hy
    simp only [exTemplate, ValsOK, ex_scan0, ex_act0, ex_scan1, ex_act1]
    exact ⟨Or.inl rfl, Or.inr (not_passes_of_untrusted _ y hy), trivial⟩
  have := C01_straight_line_typed v0 exTemplate {} exOut _ _ o1 o2 ex_simpleAll ex_analyse (hv x y hy) (hv x' y' hy')
    h1 h2
  exact ⟨this.1, this.2.2 rfl⟩

/-- (2) at the second action (element content of `p`): the chain passes exactly HTML through, and the tokenizer is
    in the data state after whatever the first part emitted -/
example (x : Value) (o : Bytes) (h : exec [.text t0, .action ["_evalArgs", "_sanitizeHTML"], .text t1] [x] = some o) :
    (run {} o).st = .data := by
  obtain ⟨c, ch, esPre, esPost, hpre, hact, hpost, hes, hall⟩ :=
    C03_straight_line_own_context v0 [.text t0, .action, .text t1] [.text t2] {} exOut ex_simpleAll ex_analyse
  have hp : analyse v0 {} [.text t0, .action, .text t1] =
      some (cText, [.text t0, .action ["_evalArgs", "_sanitizeHTML"], .text t1]) := by decide +kernel
  rw [hp] at hpre
  simp only [Option.some.injEq, Prod.mk.injEq] at hpre
  obtain ⟨rfl, rfl⟩ := hpre
  rw [ex_act1] at hact
  simp only [Option.some.injEq, Prod.mk.injEq, true_and] at hact
  subst hact
  have hv : ValsOK v0 {} [.text t0, .action, .text t1] [x] := by
    simp only [ValsOK, ex_scan0, ex_act0, ex_scan1]
    exact ⟨Or.inl rfl, trivial⟩
  obtain ⟨_, hown⟩ := hall [x] o hv h
  rcases hown .HTML (by decide) with h | h | h | h
  · exact h.2.2.2
  · exact absurd h.1 (by decide)
  · exact absurd h.1 (by decide)
  · exact absurd h.1 (by decide)

/-! ### non-vacuity: `<a href="{{.}}">x</a>` — a URL-typed value passes, in the `href` value of an `a` tag -/

def aO : Bytes := [60, 97, 32, 104, 114, 101, 102, 61, 34]       -- `<a href="`
def aC : Bytes := [34, 62, 120, 60, 47, 97, 62]                  -- `">x</a>`
example : B "<a href=\"" = aO ∧ B "\">x</a>" = aC := by decide +kernel

def exHref : List Piece := [.text aO, .action, .text aC]
def cHref : Ctx := { state := .attr, delim := .dq, elemName := [97], attrName := [104, 114, 101, 102] }
def exHrefOut : List EPiece := [.text aO, .action ["_sanitizeTrustedResourceURLOrURL", "_normalizeURL", "_sanitizeHTML"], .text aC]

theorem exHref_analyse : analyse v0 {} exHref = some ({}, exHrefOut) := by decide +kernel
theorem exHref_scan0 : scanD {} aO = (cHref, aO) := by decide +kernel
theorem exHref_act : actionStep v0 cHref = some (cHref, ["_sanitizeTrustedResourceURLOrURL", "_normalizeURL", "_sanitizeHTML"]) := by
  decide +kernel
theorem exHref_scan1 : scanD cHref aC = ({}, aC) := by decide +kernel

theorem exHref_simple0 : Simple false [] .text .none aO aO .attr :=
  Simple.openTag [] [] 97 [] _ _ (by decide) (by decide) (by decide) (by decide) (by decide)
    (Simple.attrNm _ [32] [104, 114, 101, 102] _ _ (by decide) (by decide) (by decide) (by decide) (by decide)
      (Simple.eq _ [] _ _ (by decide) (Simple.quote _ .dq [] [] [] (Or.inl rfl) (by decide) (Simple.nil _ _ _))))

theorem exHref_simple1 : Simple false [97] .attr .dq aC aC .text :=
  Simple.closeQ _ .dq [] _ _ (Or.inl rfl) (by decide)
    (Simple.tagEnd _ [] [] _ _ (by decide) (fun h => absurd h (by decide))
      (Simple.closeTag _ [120] 97 [] _ _ (by decide) (by decide) (by decide)
        (Simple.tagEnd _ [] [] [] [] (by decide) (fun h => absurd h (by decide)) (Simple.nil _ _ _))))

theorem exHref_simpleAll : SimpleAll v0 {} exHref := by
  simp only [exHref, SimpleAll, exHref_scan0, exHref_act, exHref_scan1]
  refine ⟨⟨false, aO, .attr, exHref_simple0, fun h => absurd h (by decide), fun h => by simp at h⟩, ?_, ?_⟩
  · intro h; cases h
  · exact ⟨⟨false, aC, .text, exHref_simple1, fun h => absurd h (by decide), fun h => by simp at h⟩, trivial⟩

/-- (2) the action of `<a href="{{.}}">`: the chain starts with `_sanitizeTrustedResourceURLOrURL`, which passes URL- and TrustedResourceURL-typed values; the
    tokenizer is inside a double-quoted attribute value, the current attribute is `href`, the current tag a start tag
    `a`; and `TrustedResourceURLOrURL` is the sanitization context of (`a`, `href`) -/
example : (run {} aO).st = .attrValueDq ∧ (run {} aO).an.reverse = [104, 114, 101, 102] ∧
    (run {} aO).isEnd = false ∧ (run {} aO).name.reverse = [97] ∧
    sanitizationContextForAttrVal [97] [104, 114, 101, 102] [] = some .TrustedResourceURLOrURL := by
  obtain ⟨c, ch, esPre, esPost, hpre, hact, hpost, hes, hall⟩ :=
    C03_straight_line_own_context v0 [.text aO] [.text aC] {} exHrefOut exHref_simpleAll exHref_analyse
  have hp : analyse v0 {} [.text aO] = some (cHref, [.text aO]) := by decide +kernel
  rw [hp] at hpre
  simp only [Option.some.injEq, Prod.mk.injEq] at hpre
  obtain ⟨rfl, rfl⟩ := hpre
  rw [exHref_act] at hact
  simp only [Option.some.injEq, Prod.mk.injEq, true_and] at hact
  subst hact
  obtain ⟨_, hown⟩ := hall [] aO (by simp [ValsOK]) (by simp [exec])
  rcases hown .URL (by decide) with h | h | h | h
  · exact absurd h.1 (by decide)
  · exact absurd h.1 (by decide)
  · exact absurd h.1 (by decide)
  · obtain ⟨_, _, han, htag, hq, sc0, fs, hsc, hch, _⟩ := h
    have hq' : (run {} aO).st = .attrValueDq := by
      rcases hq with ⟨_, h⟩ | ⟨h, _⟩
      · exact h
      · exact absurd h (by decide)
    have htag' : (run {} aO).isEnd = false ∧ (run {} aO).name.reverse = [97] := by
      simpa [cHref] using htag
    refine ⟨hq', han, htag'.1, htag'.2, ?_⟩
    have : sc0.sanitizerName = "_sanitizeTrustedResourceURLOrURL" := by
      have := congrArg List.head? hch; simpa using this.symm
    have hsc0 : sc0 = .TrustedResourceURLOrURL := by cases sc0 <;> simp [SC.sanitizerName] at this ⊢
    rw [← hsc0]; exact hsc

/-- (1)+(2) at that position a URL-typed value skips `_sanitizeTrustedResourceURLOrURL` (but is still normalized and HTML-escaped), while
    an HTML-typed value is sanitized like the plain string -/
example (b : Bytes) :
    runChain ["_sanitizeTrustedResourceURLOrURL", "_normalizeURL", "_sanitizeHTML"] (.safe .URL b) =
      runChain ["_normalizeURL", "_sanitizeHTML"] (.str b) ∧
    runChain ["_sanitizeTrustedResourceURLOrURL", "_normalizeURL", "_sanitizeHTML"] (.safe .HTML b) =
      runChain ["_sanitizeTrustedResourceURLOrURL", "_normalizeURL", "_sanitizeHTML"] (.str b) :=
  ⟨C03_action_typed_own v0 cHref _ .URL b (actionStep_chain v0 cHref cHref _ exHref_act) (by decide),
   C03_action_typed_vs_plain v0 cHref _ .HTML b (actionStep_chain v0 cHref cHref _ exHref_act) (by decide)⟩

end SafeHtml.Proofs.Layer3Typed
