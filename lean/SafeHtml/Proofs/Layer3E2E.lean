/-
C01 end to end for straight-line templates (static texts and actions; no branches, no template calls).

Connects three results that are proved separately:
  (i)   `Layer3.layer3_simple`: over a static text in the grammar `Simple` the engine's context stays `Rel`-related to
        the tokenizer state on the emitted text;
  (ii)  what an action emits: `ctx_chain_esc` below (from `C01_text_inert`, `C01_rcdata_inert`, `C03_attr_escaped`,
        `C02_typed_only`, `C02_comment`, and the table fact `elementContent_spec`): in EVERY context in which
        `sanitizerForContext` accepts an action, a chain that succeeds on an untrusted value yields a string in `Esc`;
        `action_ok` (with `C04_positions`): an action is only accepted in the text, special-element-body, comment and
        quoted-attribute-value contexts, and leaves the context unchanged;
  (iii) `HtmlTokSim`: `Esc` text at inert positions keeps two tokenizer runs `Sim`-related.

Definitions: `Piece`, `analyse` (the analysis, in terms of `Layer3.scan` = `escapeText` and `sanitizerForContext`),
`exec` (concatenation of the emitted texts and the `runChain` outputs), `SimpleAll` (every static text is `Simple` for
the context it is scanned in). Main theorem: `C01_straight_line`. Refinement: `escapeList_refines` (the model's
`escapeList` on the node list of the template computes the context of `analyse` and records exactly its edits).
Core Lean only; axioms: propext, Classical.choice, Quot.sound.
-/
import SafeHtml.Proofs.Layer3
import SafeHtml.Props.C04
import SafeHtml.Model.Tmpl.Escaper
set_option linter.unusedSimpArgs false
set_option linter.unusedVariables false
namespace SafeHtml.Proofs.Layer3E2E
open SafeHtml SafeHtml.Model SafeHtml.Model.Tmpl SafeHtml.Spec SafeHtml.Spec.HtmlTok SafeHtml.Generated.Policy
open SafeHtml.Props.C01 (InertPos run_nil run_cons run_append run_data run_rcdata run_dq run_sq Esc_no_special)
open SafeHtml.Props.C02 (Untrusted)
open SafeHtml.Proofs.HtmlTokSim
open SafeHtml.Proofs.Layer3

/-! ### straight-line templates -/

/-- a straight-line template: static texts and actions, no branches, no template calls -/
inductive Piece where
  | text (s : Bytes)
  | action
  deriving Repr, DecidableEq

/-- what the analysis leaves for execution: the emitted static text, the sanitizer chain of an action -/
inductive EPiece where
  | text (out : Bytes)
  | action (chain : List String)
  deriving Repr, DecidableEq

/-- the analysis of an action (`escapeAction` for a pipeline without declarations and without predefined escapers):
    the context is nudged, and the chain is chosen by `sanitizerForContext`; `none` = the analysis fails -/
def actionStep (v : Validators) (c : Ctx) : Option (Ctx × List String) :=
  let c := nudge c
  if c.state == .error then none
  else
    let c := if c.state == .attrName || c.state == .tag then { c with state := .attrName } else c
    match sanitizerForContext v c with
    | none => none
    | some s => some (c, s)

/-- the analysis of a straight-line template from context `c`: final context and pieces for execution;
    `none` = the engine panics, or ends a piece in an error context (the template is rejected) -/
def analyse (v : Validators) : Ctx → List Piece → Option (Ctx × List EPiece)
  | c, [] => some (c, [])
  | c, .text s :: ps =>
    match scan c s with
    | none => none
    | some (c', out) =>
      if c'.state == .error then none
      else
        match analyse v c' ps with
        | none => none
        | some (cf, es) => some (cf, .text out :: es)
  | c, .action :: ps =>
    match actionStep v c with
    | none => none
    | some (c', ch) =>
      match analyse v c' ps with
      | none => none
      | some (cf, es) => some (cf, .action ch :: es)

/-- execution: the emitted static texts and the outputs of the chains, one value per action;
    `none` = a chain fails (execution error) or the number of values is wrong -/
def exec : List EPiece → List Value → Option Bytes
  | [], [] => some []
  | .text o :: es, vs => (exec es vs).map (o ++ ·)
  | .action ch :: es, v :: vs =>
    match runChain ch v with
    | .ok (.str s) => (exec es vs).map (s ++ ·)
    | _ => none
  | _, _ => none

/-- every static text is simple for the context it is scanned in (threaded through the analysis, as in
    `layer3_partial`); no action sits directly after `=` with an empty attribute name -/
def SimpleAll (v : Validators) : Ctx → List Piece → Prop
  | _, [] => True
  | c, .text s :: ps =>
    (∃ js out se, Simple js c.elemName c.state c.delim s out se ∧
      (memKey specialElements c.elemName = true → InTagState c.state → ∀ x ∈ s, x ≠ 60) ∧
      (js = true → isJsTemplateBalanced s = true)) ∧
    SimpleAll v (scanD c s).1 ps
  | c, .action :: ps =>
    (c.state = .beforeValue → c.attrName ≠ []) ∧
    match actionStep v c with
    | some (c', _) => SimpleAll v c' ps
    | none => True

/-! ### what an accepted action emits -/

/-- the sanitization contexts that occur as element content -/
def contentSC (sc : SC) : Bool := sc == .HTML || sc == .RCDATA || sc == .Script || sc == .StyleSheet

/-- the only fact used about the generated table `elementContent` -/
theorem elementContent_spec : elementContent.all (fun r => contentSC r.2.2) = true := by decide +kernel

theorem lookupSC_mem (tbl : List (Nat × List Nat × SC)) (k : Bytes) (sc : SC) (h : lookupSC tbl k = some sc) :
    ∃ r ∈ tbl, r.2.2 = sc := by
  unfold lookupSC at h
  split at h
  · next r hr => exact ⟨r, List.mem_of_find?_eq_some hr, by simpa using h⟩
  · cases h

theorem content_sc (e : Bytes) (sc : SC) (h : sanitizationContextForElementContent e = some sc) :
    contentSC sc = true := by
  obtain ⟨r, hr, rfl⟩ := lookupSC_mem _ _ _ h
  exact (List.all_eq_true.1 elementContent_spec) r hr

theorem allSame_head (l : List (Option SC)) (sc : SC) (h : allSame l = some sc) : ∃ t, l = some sc :: t := by
  cases l with
  | nil => simp [allSame] at h
  | cons a t =>
    cases a with
    | none => simp [allSame] at h
    | some s =>
      simp only [allSame] at h
      split at h
      · cases h; exact ⟨t, rfl⟩
      · cases h

/-- the sanitizer of an element-content position is one of four -/
theorem content_chain (c : Ctx) (s : String) (h : sanitizerForElementContent c = some s) :
    s = "_sanitizeHTML" ∨ s = "_sanitizeRCDATA" ∨ s = "_sanitizeScript" ∨ s = "_sanitizeStyleSheet" := by
  unfold sanitizerForElementContent at h
  simp only [] at h
  split at h
  · cases h
  · next sc0 hs =>
    cases h
    obtain ⟨t, ht⟩ := allSame_head _ _ hs
    have hc : contentSC sc0 = true := by
      cases he : (if c.elemNames.isEmpty then [c.elemName] else c.elemNames) with
      | nil => rw [he] at ht; simp at ht
      | cons e0 es =>
        rw [he] at ht
        simp only [List.map_cons, List.cons.injEq] at ht
        have h0 := ht.1
        split at h0
        · cases h0; rfl
        · exact content_sc e0 sc0 h0
    cases sc0 <;> simp [contentSC] at hc <;> simp [SC.sanitizerName]

theorem Esc_nil : Esc [] = true := by decide

/-- **every accepted action emits inert text for untrusted values**: whatever the context (not a tag or attribute
    name position), if `sanitizerForContext` accepts and the chain succeeds on an untrusted value, the output is a
    string in `Esc` (typed-only chains fail; a comment position emits the empty string) -/
theorem ctx_chain_esc (v : Validators) (c : Ctx) (ch : List String) (val o : Value)
    (h : sanitizerForContext v c = some ch) (hu : Untrusted val) (hrun : runChain ch val = .ok o) :
    ∃ x, o = .str x ∧ Esc x = true := by
  unfold sanitizerForContext at h
  split at h
  · cases h
  · split at h
    · cases h
      simp only [runChain, SafeHtml.Props.C02.C02_comment, bind, Except.bind, pure, Except.pure] at hrun
      cases hrun
      exact ⟨[], rfl, Esc_nil⟩
    · split at h
      · cases h
        cases h1 : runFn fnHTML val with
        | error e => simp [runChain, h1, bind, Except.bind] at hrun
        | ok w =>
          simp only [runChain, h1, bind, Except.bind, pure, Except.pure] at hrun
          cases hrun
          exact SafeHtml.Props.C01.C01_text_inert val _ hu h1
      · split at h
        · split at h
          · cases h
          · exact SafeHtml.Props.C03.C03_attr_escaped v c ch val o h hrun
        · split at h
          · cases h
          · next s hs =>
            cases h
            have hne : s ≠ "" := by rcases content_chain c s hs with h | h | h | h <;> simp [h]
            have hch : appendIfNotEmpty [] s = [s] := by simp [appendIfNotEmpty, hne]
            rw [hch] at hrun
            cases h1 : runFn s val with
            | error e => simp [runChain, h1, bind, Except.bind] at hrun
            | ok w =>
              simp only [runChain, h1, bind, Except.bind, pure, Except.pure] at hrun
              cases hrun
              rcases content_chain c s hs with rfl | rfl | rfl | rfl
              · exact SafeHtml.Props.C01.C01_text_inert val _ hu h1
              · exact SafeHtml.Props.C01.C01_rcdata_inert val _ h1
              · rw [SafeHtml.Props.C02.C02_typed_only _ (by decide) val hu] at h1; cases h1
              · rw [SafeHtml.Props.C02.C02_typed_only _ (by decide) val hu] at h1; cases h1


/-! ### inert positions -/

/-- the tokenizer states in which the engine accepts an action: `InertPos` and the RAWTEXT / script data states
    (where only typed values pass, but escaped text would be inert as well) -/
def InertPos' (s : St) : Prop := InertPos s ∨ s = .rawtext ∨ s = .script

theorem run_rawtext : ∀ (x : Bytes) (t : T), t.st = .rawtext → (∀ c ∈ x, c ≠ 60) → run t x = { t with txt := x.reverse ++ t.txt }
  | [], t, _, _ => by simp [run_nil]
  | c :: x, t, hst, h => by
    have hc : (c == 60) = false := by simpa using h c (by simp)
    have h1 : step 4 t c = emitChar t c := by simp [step, hst, hc]
    rw [run_cons, h1, run_rawtext x (emitChar t c) (by simpa [emitChar] using hst) (fun d hd => h d (by simp [hd]))]
    simp [emitChar]

theorem run_script : ∀ (x : Bytes) (t : T), t.st = .script → (∀ c ∈ x, c ≠ 60) → run t x = { t with txt := x.reverse ++ t.txt }
  | [], t, _, _ => by simp [run_nil]
  | c :: x, t, hst, h => by
    have hc : (c == 60) = false := by simpa using h c (by simp)
    have h1 : step 4 t c = emitChar t c := by simp [step, hst, hc]
    rw [run_cons, h1, run_script x (emitChar t c) (by simpa [emitChar] using hst) (fun d hd => h d (by simp [hd]))]
    simp [emitChar]

theorem inert_sim' (t : T) (x : Bytes) (hx : Esc x = true) (hp : InertPos' t.st) : Sim t (run t x) := by
  rcases hp with hp | h | h
  · exact inert_sim t x hx hp
  · rw [run_rawtext x _ h (fun c hc => (Esc_no_special x hx c hc).1)]
    exact ⟨rfl, rfl, rfl, rfl, rfl, rfl, rfl, rfl, rfl, rfl, rfl, rfl, rfl⟩
  · rw [run_script x _ h (fun c hc => (Esc_no_special x hx c hc).1)]
    exact ⟨rfl, rfl, rfl, rfl, rfl, rfl, rfl, rfl, rfl, rfl, rfl, rfl, rfl⟩

theorem inert_sim2' (a b : T) (h : Sim a b) (x y : Bytes) (hx : Esc x = true) (hy : Esc y = true)
    (hp : InertPos' a.st) : Sim (run a x) (run b y) :=
  (inert_sim' a x hx hp).symm.trans (h.trans (inert_sim' b y hy (h.st ▸ hp)))

/-- the contexts in which an action can be accepted -/
def ActionState (s : State) : Prop := s = .text ∨ s = .specialBody ∨ s = .htmlCmt ∨ s = .attr

theorem rel_inert_pos (c : Ctx) (t : T) (hr : Rel c t) (hs : ActionState c.state) : InertPos' t.st := by
  rcases hs with hs | hs | hs | hs <;> simp only [Rel, hs] at hr
  · exact Or.inl (Or.inl hr.2.2)
  · rcases nextSt_special hr.2.1 with h | h | h
    · exact Or.inl (Or.inr (Or.inl (hr.2.2.2.trans h)))
    · exact Or.inr (Or.inl (hr.2.2.2.trans h))
    · exact Or.inr (Or.inr (hr.2.2.2.trans h))
  · exact Or.inl (Or.inl hr.2.2)
  · rcases hr.2.2 with ⟨_, h⟩ | ⟨_, h⟩
    · exact Or.inl (Or.inr (Or.inr (Or.inl h)))
    · exact Or.inl (Or.inr (Or.inr (Or.inr h)))

/-- the correspondence survives inert text at an action position: the engine's context after an action is the
    context before it (inside an attribute value it does not even record the value), the tokenizer only extends
    its pending text / attribute value -/
theorem rel_esc (c : Ctx) (t : T) (x : Bytes) (hr : Rel c t) (hs : ActionState c.state) (hx : Esc x = true) :
    Rel c (run t x) := by
  have hn := Esc_no_special x hx
  rcases hs with hs | hs | hs | hs
  · exact rel_text c t x hs hr (fun b hb => (hn b hb).1)
  · exact rel_body c t x hs hr (fun b hb => (hn b hb).1)
  · simp only [Rel, hs] at hr ⊢
    rw [run_data x t hr.2.2 (fun b hb => (hn b hb).1)]
    exact hr
  · have h1 := rel_val c t x hs hr (fun b hb => by
      have hr' := hr
      simp only [Rel, hs] at hr'
      rcases hr'.2.2 with ⟨hd, _⟩ | ⟨hd, _⟩
      · rw [hd]; exact (hn b hb).2.2.1
      · rw [hd]; exact (hn b hb).2.2.2.1)
    exact h1

/-- an accepted action: the context is unchanged, it is an action position, and the output is inert -/
theorem action_ok (v : Validators) (c c' : Ctx) (t : T) (ch : List String) (hr : Rel c t)
    (hbv : c.state = .beforeValue → c.attrName ≠ []) (ha : actionStep v c = some (c', ch)) :
    c' = c ∧ ActionState c.state ∧ sanitizerForContext v c = some ch := by
  have key : ∀ d : Ctx, nudge c = d → (d.state == .error) = false →
      (if d.state == .attrName || d.state == .tag then { d with state := .attrName } else d) = d →
      c' = d ∧ sanitizerForContext v d = some ch := by
    intro d h1 h2 h3
    unfold actionStep at ha
    simp only [h1, h2, Bool.false_eq_true, if_false, h3] at ha
    split at ha
    · cases ha
    · next s hs => cases ha; exact ⟨rfl, hs⟩
  have bad : ∀ d : Ctx, nudge c = d → (d.state == .error) = false →
      sanitizerForContext v (if d.state == .attrName || d.state == .tag then { d with state := .attrName } else d)
        = none → False := by
    intro d h1 h2 h3
    unfold actionStep at ha
    simp only [h1, h2, Bool.false_eq_true, if_false, h3] at ha
    cases ha
  cases hs : c.state
  · obtain ⟨h1, h2⟩ := key c (by simp [nudge, hs]) (by simp [hs]) (by simp [hs])
    exact ⟨h1, Or.inl rfl, h2⟩
  · obtain ⟨h1, h2⟩ := key c (by simp [nudge, hs]) (by simp [hs]) (by simp [hs])
    exact ⟨h1, Or.inr (Or.inl rfl), h2⟩
  · exact (bad { c with state := .attrName } (by simp [nudge, hs]) (by simp)
      (Props.C04.C04_positions v _ (Or.inr (Or.inl (by simp))))).elim
  · exact (bad c (by simp [nudge, hs]) (by simp [hs])
      (Props.C04.C04_positions v _ (Or.inr (Or.inl (by simp [hs]))))).elim
  · exact (bad { c with state := .attrName } (by simp [nudge, hs]) (by simp)
      (Props.C04.C04_positions v _ (Or.inr (Or.inl (by simp))))).elim
  · exact (bad { c with state := .attr, delim := .spaceOrTagEnd } (by simp [nudge, hs]) (by simp)
      (Props.C04.C04_positions v _ (Or.inr (Or.inr (Or.inr
        ⟨by simp, Or.inl (by simpa using hbv hs), by simp, by simp, by simp⟩))))).elim
  · obtain ⟨h1, h2⟩ := key c (by simp [nudge, hs]) (by simp [hs]) (by simp [hs])
    exact ⟨h1, Or.inr (Or.inr (Or.inl rfl)), h2⟩
  · obtain ⟨h1, h2⟩ := key c (by simp [nudge, hs]) (by simp [hs]) (by simp [hs])
    exact ⟨h1, Or.inr (Or.inr (Or.inr rfl)), h2⟩
  · simp [Rel, hs] at hr


/-! ### the end-to-end statement -/

theorem scanD_of_scan {c c' : Ctx} {s out : Bytes} (h : scan c s = some (c', out)) : scanD c s = (c', out) := by
  simp [scanD, h]

/-- the invariant along a straight-line template, for two executions side by side -/
theorem straight_line_sim (v : Validators) : ∀ (ps : List Piece) (c cf : Ctx) (a b : T) (es : List EPiece)
    (vs ws : List Value) (o1 o2 : Bytes), Rel c a → Rel c b → Sim a b → SimpleAll v c ps →
    analyse v c ps = some (cf, es) → (∀ x ∈ vs, Untrusted x) → (∀ x ∈ ws, Untrusted x) →
    exec es vs = some o1 → exec es ws = some o2 →
    Rel cf (run a o1) ∧ Rel cf (run b o2) ∧ Sim (run a o1) (run b o2)
  | [], c, cf, a, b, es, vs, ws, o1, o2, ha, hb, hsim, _, han, _, _, h1, h2 => by
    simp only [analyse, Option.some.injEq, Prod.mk.injEq] at han
    obtain ⟨rfl, rfl⟩ := han
    cases vs <;> cases ws <;> simp [exec] at h1 h2
    subst h1 h2
    exact ⟨ha, hb, hsim⟩
  | .text s :: ps, c, cf, a, b, es, vs, ws, o1, o2, ha, hb, hsim, hall, han, hu, hw, h1, h2 => by
    obtain ⟨⟨js, out, se, hsimple, hlt, hjs⟩, hrest⟩ := hall
    obtain ⟨c1, hsc, _, hra⟩ := layer3_simple js c a s out se ha hsimple hlt hjs
    obtain ⟨c2, hsc2, _, hrb⟩ := layer3_simple js c b s out se hb hsimple hlt hjs
    rw [hsc] at hsc2
    simp only [Option.some.injEq, Prod.mk.injEq, and_true] at hsc2
    subst hsc2
    rw [scanD_of_scan hsc] at hrest
    simp only [analyse, hsc] at han
    split at han
    · cases han
    · cases hrec : analyse v c1 ps with
      | none => simp [hrec] at han
      | some r =>
        obtain ⟨cf', es'⟩ := r
        simp only [hrec, Option.some.injEq, Prod.mk.injEq] at han
        obtain ⟨rfl, rfl⟩ := han
        simp only [exec, Option.map_eq_some_iff] at h1 h2
        obtain ⟨r1, h1, rfl⟩ := h1
        obtain ⟨r2, h2, rfl⟩ := h2
        have := straight_line_sim v ps c1 cf' (run a out) (run b out) es' vs ws r1 r2 hra hrb
          (run_sim out a b hsim) hrest hrec hu hw h1 h2
        simpa [run_append] using this
  | .action :: ps, c, cf, a, b, es, vs, ws, o1, o2, ha, hb, hsim, hall, han, hu, hw, h1, h2 => by
    obtain ⟨hbv, hrest⟩ := hall
    simp only [analyse] at han
    cases hact : actionStep v c with
    | none => simp [hact] at han
    | some r =>
      obtain ⟨c', ch⟩ := r
      simp only [hact] at han hrest
      obtain ⟨rfl, hst, hch⟩ := action_ok v c c' a ch ha hbv hact
      cases hrec : analyse v c' ps with
      | none => simp [hrec] at han
      | some r =>
        obtain ⟨cf', es'⟩ := r
        simp only [hrec, Option.some.injEq, Prod.mk.injEq] at han
        obtain ⟨rfl, rfl⟩ := han
        cases vs with
        | nil => simp [exec] at h1
        | cons x vs =>
        cases ws with
        | nil => simp [exec] at h2
        | cons y ws =>
        simp only [exec] at h1 h2
        cases hx : runChain ch x with
        | error e => simp [hx] at h1
        | ok ox =>
        cases hy : runChain ch y with
        | error e => simp [hy] at h2
        | ok oy =>
        obtain ⟨dx, rfl, hex⟩ := ctx_chain_esc v c' ch x ox hch (hu x (by simp)) hx
        obtain ⟨dy, rfl, hey⟩ := ctx_chain_esc v c' ch y oy hch (hw y (by simp)) hy
        simp only [hx, hy, Option.map_eq_some_iff] at h1 h2
        obtain ⟨r1, h1, rfl⟩ := h1
        obtain ⟨r2, h2, rfl⟩ := h2
        have := straight_line_sim v ps c' cf' (run a dx) (run b dy) es' vs ws r1 r2
          (rel_esc c' a dx ha hst hex) (rel_esc c' b dy hb hst hey)
          (inert_sim2' a b hsim dx dy hex hey (rel_inert_pos c' a ha hst)) hrest hrec
          (fun z hz => hu z (by simp [hz])) (fun z hz => hw z (by simp [hz])) h1 h2
        simpa [run_append] using this

theorem rel_init : Rel {} {} := by simp [Rel]; decide

/-- **C01 for straight-line templates, end to end.** If every static text of the template is simple for the
    context the engine scans it in, the analysis accepts the template, and two executions with untrusted values
    both succeed, then the two outputs have the same token skeleton (tags, attribute names, comments, doctype) and
    leave the HTML tokenizer in the same final state; that state is `data` when the template ends in the text
    context (as every accepted template does, `C01_end_context`). -/
theorem C01_straight_line (v : Validators) (ps : List Piece) (cf : Ctx) (es : List EPiece)
    (vs ws : List Value) (o1 o2 : Bytes)
    (hs : SimpleAll v {} ps) (ha : analyse v {} ps = some (cf, es))
    (hu : ∀ x ∈ vs, Untrusted x) (hw : ∀ x ∈ ws, Untrusted x)
    (h1 : exec es vs = some o1) (h2 : exec es ws = some o2) :
    skeleton (HtmlTok.tokenize o1).tokens = skeleton (HtmlTok.tokenize o2).tokens ∧
    (HtmlTok.tokenize o1).final = (HtmlTok.tokenize o2).final ∧
    (cf.state = .text → (HtmlTok.tokenize o1).final = .data ∧ (HtmlTok.tokenize o2).final = .data) := by
  obtain ⟨hr1, hr2, hsim⟩ := straight_line_sim v ps {} cf {} {} es vs ws o1 o2 rel_init rel_init (Sim.refl _) hs ha
    hu hw h1 h2
  have hres := result_sim _ _ (finish_sim _ _ hsim)
  simp only [tokenize_tokens, tokenize_final]
  refine ⟨hres.1, hres.2, fun hcf => ?_⟩
  simp only [Rel, hcf] at hr1 hr2
  constructor
  · simp only [finish, hr1.2.2, flush_st]
  · simp only [finish, hr2.2.2, flush_st]

/-! ### refinement: the model's `escapeList` on the node list of a straight-line template -/

/-- the pipeline `{{.}}` -/
def dotPipe : Pipe := { cmds := [{ args := [.dot] }] }

/-- the parse-tree nodes of a straight-line template, with node ids `i, i+1, …` -/
def toNodes : Nat → List Piece → List Node
  | _, [] => []
  | i, .text s :: ps => .text i s :: toNodes (i + 1) ps
  | i, .action :: ps => .action i dotPipe :: toNodes (i + 1) ps

/-- the text edit recorded for a text node (only when the text is rewritten) -/
def addText (tn : String) (id : Nat) (c : Ctx) (s : Bytes) (te : List (EditKey × Bytes)) : List (EditKey × Bytes) :=
  match escapeText false c s with
  | .done _ (some nb) => te ++ [((tn, id), nb)]
  | _ => te

/-- the escaper state after the analysis: the pending edits of the pieces are appended -/
def editsOf (v : Validators) (tn : String) : Nat → Ctx → List Piece → Esc → Esc
  | _, _, [], e => e
  | i, c, .text s :: ps, e =>
    editsOf v tn (i + 1) (scanD c s).1 ps { e with textEdits := addText tn i c s e.textEdits }
  | i, c, .action :: ps, e =>
    match actionStep v c with
    | some (c', ch) => editsOf v tn (i + 1) c' ps { e with actionEdits := e.actionEdits ++ [((tn, i), ch)] }
    | none => e

/-- no pending edit for the node ids `≥ i` of template `tn` (node ids are unique in a parse tree) -/
def Fresh (tn : String) (i : Nat) (e : Esc) : Prop :=
  ∀ k, i ≤ k → e.actionEdits.any (fun p => p.1 == (tn, k)) = false ∧ e.textEdits.any (fun p => p.1 == (tn, k)) = false

theorem predefined_dot (c : Ctx) : predefinedCheck c dotPipe.cmds = some false := by
  simp [predefinedCheck, predefinedCheck.go, dotPipe]

theorem escapeList_refines (env : Env) (hcsp : env.csp = false) (tn : String) :
    ∀ (ps : List Piece) (i : Nat) (c cf : Ctx) (e : Esc) (es : List EPiece) (f : Nat),
      analyse env.v c ps = some (cf, es) → Fresh tn i e → ps.length + 1 ≤ f →
      escapeList env f tn e c (NodeList.ofList (toNodes i ps)) = .ok (editsOf env.v tn i c ps e, cf)
  | [], i, c, cf, e, es, f, ha, _, hf => by
    obtain ⟨f', rfl⟩ : ∃ f', f = f' + 1 := ⟨f - 1, by omega⟩
    simp only [analyse, Option.some.injEq, Prod.mk.injEq] at ha
    simp [toNodes, NodeList.ofList, escapeList, editsOf, ha.1]
  | .text s :: ps, i, c, cf, e, es, f, ha, hfr, hf => by
    obtain ⟨f', rfl⟩ : ∃ f', f = f' + 2 := ⟨f - 2, by simp at hf; omega⟩
    simp only [analyse] at ha
    cases hsc : scan c s with
    | none => simp [hsc] at ha
    | some r =>
      obtain ⟨c', out⟩ := r
      simp only [hsc] at ha
      split at ha
      · cases ha
      · cases hrec : analyse env.v c' ps with
        | none => simp [hrec] at ha
        | some r2 =>
          obtain ⟨cf', es'⟩ := r2
          simp only [hrec, Option.some.injEq, Prod.mk.injEq] at ha
          obtain ⟨rfl, _⟩ := ha
          have hsd : (scanD c s).1 = c' := by simp [scanD, hsc]
          have hk := (hfr i (Nat.le_refl _)).2
          simp only [toNodes, NodeList.ofList, escapeList, escapeNode, escapeTextNode, hcsp, editsOf, hsd]
          simp only [scan] at hsc
          cases het : escapeText false c s with
          | panic => simp [het] at hsc
          | done c2 nt =>
            cases nt with
            | none =>
              simp only [het, Option.some.injEq, Prod.mk.injEq] at hsc
              obtain ⟨rfl, _⟩ := hsc
              have := escapeList_refines env hcsp tn ps (i + 1) c2 cf' e es' (f' + 1) hrec
                (fun k hk => hfr k (by omega)) (by simp at hf ⊢; omega)
              simp only [addText, het, bind, Out.bind]
              exact this
            | some nb =>
              simp only [het, Option.some.injEq, Prod.mk.injEq] at hsc
              obtain ⟨rfl, _⟩ := hsc
              have hfr' : Fresh tn (i + 1) { e with textEdits := e.textEdits ++ [((tn, i), nb)] } := by
                intro k hk
                refine ⟨(hfr k (by omega)).1, ?_⟩
                simp only [List.any_append, (hfr k (by omega)).2, List.any_cons, List.any_nil, Bool.or_false,
                  Bool.false_or]
                simp; omega
              have := escapeList_refines env hcsp tn ps (i + 1) c2 cf' _ es' (f' + 1) hrec hfr'
                (by simp at hf ⊢; omega)
              simp only [addText, het, bind, Out.bind, Esc.editText, hk, Bool.false_eq_true, if_false]
              exact this
  | .action :: ps, i, c, cf, e, es, f, ha, hfr, hf => by
    obtain ⟨f', rfl⟩ : ∃ f', f = f' + 2 := ⟨f - 2, by simp at hf; omega⟩
    simp only [analyse] at ha
    cases hact : actionStep env.v c with
    | none => simp [hact] at ha
    | some r =>
      obtain ⟨c', ch⟩ := r
      simp only [hact] at ha
      cases hrec : analyse env.v c' ps with
      | none => simp [hrec] at ha
      | some r2 =>
        obtain ⟨cf', es'⟩ := r2
        simp only [hrec, Option.some.injEq, Prod.mk.injEq] at ha
        obtain ⟨rfl, _⟩ := ha
        have hk := (hfr i (Nat.le_refl _)).1
        have hfr' : Fresh tn (i + 1) { e with actionEdits := e.actionEdits ++ [((tn, i), ch)] } := by
          intro k hk
          refine ⟨?_, (hfr k (by omega)).2⟩
          simp only [List.any_append, (hfr k (by omega)).1, List.any_cons, List.any_nil, Bool.or_false,
            Bool.false_or]
          simp; omega
        have := escapeList_refines env hcsp tn ps (i + 1) c' cf' _ es' (f' + 1) hrec hfr' (by simp at hf ⊢; omega)
        simp only [toNodes, NodeList.ofList, escapeList, escapeNode, escapeAction, editsOf, hact]
        unfold actionStep at hact
        simp only [] at hact
        have hd : dotPipe.decl.isEmpty = true := rfl
        simp only [hd, Bool.not_true, Bool.false_eq_true, if_false, predefined_dot]
        split at hact
        · cases hact
        · next hne =>
          simp only [hne, Bool.false_eq_true, if_false]
          split at hact
          · cases hact
          · next s hs =>
            simp only [Option.some.injEq, Prod.mk.injEq] at hact
            obtain ⟨rfl, rfl⟩ := hact
            simp only [hs, bind, Out.bind, Esc.editAction, hk, Bool.false_eq_true, if_false, pure]
            exact this


/-- `C01_straight_line` phrased with the model's analysis function: the node list of the template is analysed by
    `escapeList` to the context `cf` with exactly the edits `editsOf`, and the two renderings agree -/
theorem C01_straight_line_model (env : Env) (hcsp : env.csp = false) (tn : String) (ps : List Piece) (cf : Ctx)
    (es : List EPiece) (vs ws : List Value) (o1 o2 : Bytes)
    (hs : SimpleAll env.v {} ps) (ha : analyse env.v {} ps = some (cf, es))
    (hu : ∀ x ∈ vs, Untrusted x) (hw : ∀ x ∈ ws, Untrusted x)
    (h1 : exec es vs = some o1) (h2 : exec es ws = some o2) :
    escapeList env (ps.length + 1) tn {} {} (NodeList.ofList (toNodes 0 ps)) =
      .ok (editsOf env.v tn 0 {} ps {}, cf) ∧
    skeleton (HtmlTok.tokenize o1).tokens = skeleton (HtmlTok.tokenize o2).tokens ∧
    (HtmlTok.tokenize o1).final = (HtmlTok.tokenize o2).final ∧
    (cf.state = .text → (HtmlTok.tokenize o1).final = .data ∧ (HtmlTok.tokenize o2).final = .data) :=
  ⟨escapeList_refines env hcsp tn ps 0 {} cf {} es _ ha (fun k _ => ⟨rfl, rfl⟩) (Nat.le_refl _),
   C01_straight_line env.v ps cf es vs ws o1 o2 hs ha hu hw h1 h2⟩

/-! ### non-vacuity: `<p title="{{.}}">{{.}}</p>` -/

def v0 : Validators := ⟨fun _ => true, fun _ => true, fun _ => false⟩

def t0 : Bytes := [60, 112, 32, 116, 105, 116, 108, 101, 61, 34]      -- `<p title="`
def t1 : Bytes := [34, 62]                                           -- `">`
def t2 : Bytes := [60, 47, 112, 62]                                  -- `</p>`
example : B "<p title=\"" = t0 ∧ B "\">" = t1 ∧ B "</p>" = t2 := by decide +kernel

def exTemplate : List Piece := [.text t0, .action, .text t1, .action, .text t2]

def cAttr : Ctx := { state := .attr, delim := .dq, elemName := [112], attrName := [116, 105, 116, 108, 101] }
def cText : Ctx := { state := .text, elemName := [112] }

def exOut : List EPiece :=
  [.text t0, .action ["_evalArgs", "_sanitizeHTML"], .text t1, .action ["_sanitizeHTML"], .text t2]

theorem ex_analyse : analyse v0 {} exTemplate = some ({}, exOut) := by decide +kernel

theorem ex_scan0 : scanD {} t0 = (cAttr, t0) := by decide +kernel
theorem ex_scan1 : scanD cAttr t1 = (cText, t1) := by decide +kernel
theorem ex_act0 : actionStep v0 cAttr = some (cAttr, ["_evalArgs", "_sanitizeHTML"]) := by decide +kernel
theorem ex_act1 : actionStep v0 cText = some (cText, ["_sanitizeHTML"]) := by decide +kernel

theorem ex_simple0 : Simple false [] .text .none t0 t0 .attr :=
  Simple.openTag [] [] 112 [] _ _ (by decide) (by decide) (by decide) (by decide) (by decide)
    (Simple.attrNm _ [32] [116, 105, 116, 108, 101] _ _ (by decide) (by decide) (by decide) (by decide) (by decide)
      (Simple.eq _ [] _ _ (by decide) (Simple.quote _ .dq [] [] [] (Or.inl rfl) (by decide) (Simple.nil _ _ _))))

theorem ex_simple1 : Simple false [112] .attr .dq t1 t1 .text :=
  Simple.closeQ _ .dq [] _ _ (Or.inl rfl) (by decide)
    (Simple.tagEnd _ [] [] [] [] (by decide) (fun h => absurd h (by decide)) (Simple.nil _ _ _))

theorem ex_simple2 : Simple false [112] .text .none t2 t2 .text :=
  Simple.closeTag _ [] 112 [] _ _ (by decide) (by decide) (by decide)
    (Simple.tagEnd _ [] [] [] [] (by decide) (fun h => absurd h (by decide)) (Simple.nil _ _ _))

theorem ex_simpleAll : SimpleAll v0 {} exTemplate := by
  simp only [exTemplate, SimpleAll, ex_scan0, ex_act0, ex_scan1, ex_act1]
  refine ⟨⟨false, t0, .attr, ex_simple0, fun h => absurd h (by decide), fun h => by simp at h⟩, ?_, ?_⟩
  · intro h; cases h
  · refine ⟨⟨false, t1, .text, ex_simple1, fun h => absurd h (by decide), fun h => by simp at h⟩, ?_, ?_⟩
    · intro h; cases h
    · exact ⟨⟨false, t2, .text, ex_simple2, fun h => absurd h (by decide), fun h => by simp at h⟩, trivial⟩

/-- for every pair of untrusted values in the attribute and every pair in the element content, the two renderings
    of `<p title="{{.}}">{{.}}</p>` have the same markup structure and end in the data state -/
theorem ex_C01 (x1 x2 y1 y2 : Value) (hx1 : Untrusted x1) (hx2 : Untrusted x2) (hy1 : Untrusted y1)
    (hy2 : Untrusted y2) (o1 o2 : Bytes) (h1 : exec exOut [x1, x2] = some o1) (h2 : exec exOut [y1, y2] = some o2) :
    skeleton (HtmlTok.tokenize o1).tokens = skeleton (HtmlTok.tokenize o2).tokens ∧
    (HtmlTok.tokenize o1).final = .data ∧ (HtmlTok.tokenize o2).final = .data := by
  have := C01_straight_line v0 exTemplate {} exOut [x1, x2] [y1, y2] o1 o2 ex_simpleAll ex_analyse
    (by intro z hz; simp at hz; rcases hz with rfl | rfl <;> assumption)
    (by intro z hz; simp at hz; rcases hz with rfl | rfl <;> assumption) h1 h2
  exact ⟨this.1, this.2.2 rfl⟩

/-- the executions do succeed, e.g. for strings full of markup characters -/
example : (exec exOut [.str (B "\"><script>"), .str (B "<b>&")]).isSome = true := by decide +kernel


/-- the model's `escapeList` on the parse tree of this template computes the same context and records the chains -/
example (env : Env) (hv : env.v = v0) (hcsp : env.csp = false) :
    escapeList env 6 "t" {} {} (NodeList.ofList (toNodes 0 exTemplate)) =
      .ok (editsOf v0 "t" 0 {} exTemplate {}, {}) := by
  have := escapeList_refines env hcsp "t" exTemplate 0 {} {} {} exOut 6 (by rw [hv]; exact ex_analyse)
    (fun k _ => ⟨rfl, rfl⟩) (by decide)
  rwa [hv] at this

end SafeHtml.Proofs.Layer3E2E
