/-
C06, first half (history independence of the FIRST analysis) — the part that is provable without a denotational
semantics of the memo: templates without `{{template}}` calls. (summary at the end of the file)
-/
import SafeHtml.Proofs.NoPanic4
namespace SafeHtml.Proofs.Independence
open SafeHtml SafeHtml.Model.Tmpl SafeHtml.Proofs.Frozen SafeHtml.Proofs.ConcApi SafeHtml.Proofs.ConcReach
  SafeHtml.Proofs.NoPanic SafeHtml.Proofs.NoPanic2 SafeHtml.Proofs.NoPanic3 SafeHtml.Proofs.NoPanic4

/-! ### 1. the analysis of a call-free list does not look at the escaper (except at its pending edits) -/

/-- same pending edits -/
def EdEq (e e' : Esc) : Prop :=
  e'.actionEdits = e.actionEdits ∧ e'.tmplEdits = e.tmplEdits ∧ e'.textEdits = e.textEdits

/-- `e1` is `e` with other pending edits -/
def Frame (e e1 : Esc) : Prop :=
  e1 = { e with actionEdits := e1.actionEdits, tmplEdits := e1.tmplEdits, textEdits := e1.textEdits }

/-- the result of a run from `e'` is the result of the run from `e`, transported -/
def Sim (e e' : Esc) (x x' : Out (Esc × Ctx)) : Prop :=
  match x with
  | .ok (e1, c1) => Frame e e1 ∧
      x' = .ok ({ e' with actionEdits := e1.actionEdits, tmplEdits := e1.tmplEdits, textEdits := e1.textEdits }, c1)
  | .panic m => x' = .panic m
  | .fuel => x' = .fuel

theorem Frame.refl (e : Esc) : Frame e e := rfl

theorem Frame.trans {e e1 e2 : Esc} (h1 : Frame e e1) (h2 : Frame e1 e2) : Frame e e2 := by
  unfold Frame at *
  rw [h2, h1]

theorem sim_same (e e' : Esc) (c : Ctx) (h : EdEq e e') : Sim e e' (.ok (e, c)) (.ok (e', c)) := by
  refine ⟨Frame.refl e, ?_⟩
  obtain ⟨a, b, d⟩ := h
  cases e'; cases e
  simp only [] at a b d
  subst a b d
  rfl

/-- envs that differ only in the text set / the `nsHas` predicate -/
def EnvEq (env env' : Env) : Prop := env'.csp = env.csp ∧ env'.v = env.v

theorem escapeAction_sim (env env' : Env) (he : EnvEq env env') (tn : String) (e e' : Esc) (c : Ctx) (id : Nat)
    (p : Pipe) (h : EdEq e e') : Sim e e' (escapeAction env tn e c id p) (escapeAction env' tn e' c id p) := by
  unfold escapeAction
  rw [he.2]
  split
  · exact sim_same e e' c h
  · simp only []
    split
    · rfl
    · exact sim_same e e' _ h
    · split
      · exact sim_same e e' _ h
      · split
        · exact sim_same e e' _ h
        · rename_i s _
          unfold Esc.editAction
          rw [h.1]
          split
          · rfl
          · refine ⟨rfl, ?_⟩
            obtain ⟨a, b, d⟩ := h
            cases e'; cases e
            simp only [] at a b d
            subst a b d
            rfl

theorem escapeTextNode_sim (env env' : Env) (he : EnvEq env env') (tn : String) (e e' : Esc) (c : Ctx) (id : Nat)
    (b : Bytes) (h : EdEq e e') : Sim e e' (escapeTextNode env tn e c id b) (escapeTextNode env' tn e' c id b) := by
  unfold escapeTextNode
  rw [he.1]
  split
  · rfl
  · exact sim_same e e' _ h
  · unfold Esc.editText
    rw [h.2.2]
    split
    · rfl
    · refine ⟨rfl, ?_⟩
      obtain ⟨a, b', d⟩ := h
      cases e'; cases e
      simp only [] at a b' d
      subst a b' d
      rfl


/-- transport of the pending edits of `e1` onto `e'` -/
@[reducible] def tr (e' e1 : Esc) : Esc :=
  { e' with actionEdits := e1.actionEdits, tmplEdits := e1.tmplEdits, textEdits := e1.textEdits }

theorem edEq_tr (e' e1 : Esc) : EdEq e1 (tr e' e1) := ⟨rfl, rfl, rfl⟩

theorem sim_bind {e e' : Esc} {x x' : Out (Esc × Ctx)} {g g' : Esc × Ctx → Out (Esc × Ctx)}
    (h : Sim e e' x x')
    (hg : ∀ e1 c1, Frame e e1 → Sim e1 (tr e' e1) (g (e1, c1)) (g' (tr e' e1, c1))) :
    Sim e e' (x >>= g) (x' >>= g') := by
  cases x with
  | ok r =>
    obtain ⟨e1, c1⟩ := r
    obtain ⟨hf, hx⟩ := h
    rw [hx]
    have := hg e1 c1 hf
    show Sim e e' (g (e1, c1)) (g' (tr e' e1, c1))
    revert this
    generalize g (e1, c1) = y
    generalize g' (tr e' e1, c1) = y'
    intro this
    cases y with
    | ok r2 =>
      obtain ⟨e2, c2⟩ := r2
      obtain ⟨hf2, hy⟩ := this
      exact ⟨hf.trans hf2, hy⟩
    | panic m => exact this
    | fuel => exact this
  | panic m => rw [h]; rfl
  | fuel => rw [h]; rfl

/-- the context of the transported result -/
theorem sim_ctx {e e' : Esc} {x x' : Out (Esc × Ctx)} (h : Sim e e' x x') :
    x.bind (fun r => .ok r.2) = x'.bind (fun r => .ok r.2) := by
  cases x with
  | ok r => obtain ⟨e1, c1⟩ := r; rw [h.2]; rfl
  | panic m => rw [h]
  | fuel => rw [h]

theorem branch_sim (env env' : Env) (t el : NodeList)
    (ht : ∀ f tn e e' c, EdEq e e' → Sim e e' (escapeList env f tn e c t) (escapeList env' f tn e' c t))
    (hel : ∀ f tn e e' c, EdEq e e' → Sim e e' (escapeList env f tn e c el) (escapeList env' f tn e' c el)) :
    ∀ f tn e e' c b, EdEq e e' →
      Sim e e' (escapeBranch env f tn e c t el b) (escapeBranch env' f tn e' c t el b) := by
  intro f tn e e' c b h
  cases f with
  | zero => simp only [escapeBranch]; rfl
  | succ k =>
    simp only [escapeBranch]
    apply sim_bind (ht k tn e e' c h)
    intro e1 c0 _
    -- the re-entry check runs on scratch escapers without edits: same context in both runs
    have hscr := sim_ctx (ht k tn (scr e1 e1.output) (scr (tr e' e1) (tr e' e1).output) c0 ⟨rfl, rfl, rfl⟩)
    have hc0r : (if (b && c0.state != State.error) = true then
          (do let (_, c1) ← escapeList env k tn (scr e1 e1.output) c0 t; pure (some (join c0 c1)) : Out (Option Ctx))
        else pure none) =
        (if (b && c0.state != State.error) = true then
          (do let (_, c1) ← escapeList env' k tn (scr (tr e' e1) (tr e' e1).output) c0 t; pure (some (join c0 c1)))
        else pure none) := by
      split
      · revert hscr
        generalize escapeList env k tn (scr e1 e1.output) c0 t = y
        generalize escapeList env' k tn (scr (tr e' e1) (tr e' e1).output) c0 t = y'
        intro hscr
        cases y <;> cases y' <;> simp_all [Out.bind, bind]
      · rfl
    show Sim e1 (tr e' e1) _ _
    simp only [] at hc0r ⊢
    rw [hc0r]
    generalize (if (b && c0.state != State.error) = true then _ else pure none : Out (Option Ctx)) = j
    cases j with
    | ok jv =>
      cases jv with
      | some jc =>
        show Sim e1 (tr e' e1) _ _
        simp only [bind, Out.bind]
        split
        · exact sim_same e1 (tr e' e1) jc (edEq_tr e' e1)
        · apply sim_bind (hel k tn e1 (tr e' e1) c (edEq_tr e' e1))
          intro e2 c2 _
          exact sim_same e2 _ _ (edEq_tr _ e2)
      | none =>
        show Sim e1 (tr e' e1) _ _
        simp only [bind, Out.bind]
        apply sim_bind (hel k tn e1 (tr e' e1) c (edEq_tr e' e1))
        intro e2 c2 _
        exact sim_same e2 _ _ (edEq_tr _ e2)
    | panic m => rfl
    | fuel => rfl


mutual
theorem node_sim (env env' : Env) (he : EnvEq env env') : ∀ n, nodeNoCalls n → ∀ f tn e e' c, EdEq e e' →
    Sim e e' (escapeNode env f tn e c n) (escapeNode env' f tn e' c n)
  | .text id b, _, f, tn, e, e', c, h => by
    cases f with
    | zero => simp only [escapeNode]; rfl
    | succ g => simp only [escapeNode]; exact escapeTextNode_sim env env' he tn e e' c id b h
  | .action id p, _, f, tn, e, e', c, h => by
    cases f with
    | zero => simp only [escapeNode]; rfl
    | succ g => simp only [escapeNode]; exact escapeAction_sim env env' he tn e e' c id p h
  | .tmpl id name p, hn, _, _, _, _, _, _ => by simp only [nodeNoCalls] at hn
  | .ifN id p t el, hn, f, tn, e, e', c, h => by
    simp only [nodeNoCalls] at hn
    cases f with
    | zero => simp only [escapeNode]; rfl
    | succ g =>
      simp only [escapeNode]
      exact branch_sim env env' t el (list_sim env env' he t hn.1) (list_sim env env' he el hn.2) g tn e e' c false h
  | .rangeN id p t el, hn, f, tn, e, e', c, h => by
    simp only [nodeNoCalls] at hn
    cases f with
    | zero => simp only [escapeNode]; rfl
    | succ g =>
      simp only [escapeNode]
      exact branch_sim env env' t el (list_sim env env' he t hn.1) (list_sim env env' he el hn.2) g tn e e' c true h
  | .withN id p t el, hn, f, tn, e, e', c, h => by
    simp only [nodeNoCalls] at hn
    cases f with
    | zero => simp only [escapeNode]; rfl
    | succ g =>
      simp only [escapeNode]
      exact branch_sim env env' t el (list_sim env env' he t hn.1) (list_sim env env' he el hn.2) g tn e e' c false h
  | .brk id, _, f, tn, e, e', c, h => by
    cases f with
    | zero => simp only [escapeNode]; rfl
    | succ g => simp only [escapeNode]; exact sim_same e e' _ h
  | .cont id, _, f, tn, e, e', c, h => by
    cases f with
    | zero => simp only [escapeNode]; rfl
    | succ g => simp only [escapeNode]; exact sim_same e e' _ h
  | .comment id, _, f, tn, e, e', c, h => by
    cases f with
    | zero => simp only [escapeNode]; rfl
    | succ g => simp only [escapeNode]; exact sim_same e e' _ h
theorem list_sim (env env' : Env) (he : EnvEq env env') : ∀ l, listNoCalls l → ∀ f tn e e' c, EdEq e e' →
    Sim e e' (escapeList env f tn e c l) (escapeList env' f tn e' c l)
  | .nil, _, f, tn, e, e', c, h => by
    cases f with
    | zero => simp only [escapeList]; rfl
    | succ g => simp only [escapeList]; exact sim_same e e' c h
  | .cons n ns, hl, f, tn, e, e', c, h => by
    simp only [listNoCalls] at hl
    cases f with
    | zero => simp only [escapeList]; rfl
    | succ g =>
      simp only [escapeList]
      apply sim_bind (node_sim env env' he n hl.1 g tn e e' c h)
      intro e1 c1 _
      exact list_sim env env' he ns hl.2 g tn e1 (tr e' e1) c1 (edEq_tr e' e1)
end


/-! ### 2. the canonical run of a call-free body, and what every run from any escaper looks like -/

theorem frame_empty (e1 : Esc) (h : Frame {} e1) : tr {} e1 = e1 := h.symm

/-- the run on the empty escaper does not depend on text set / `nsHas` of the environment -/
theorem cf_env (env env' : Env) (he : EnvEq env env') (l : NodeList) (hl : listNoCalls l) (f : Nat) (tn : String)
    (c : Ctx) : escapeList env' f tn {} c l = escapeList env f tn {} c l := by
  have := list_sim env env' he l hl f tn {} {} c ⟨rfl, rfl, rfl⟩
  revert this
  generalize escapeList env f tn {} c l = x
  generalize escapeList env' f tn {} c l = x'
  intro this
  cases x with
  | ok r =>
    obtain ⟨e1, c1⟩ := r
    obtain ⟨hf, hx⟩ := this
    rw [hx]
    show Out.ok (tr {} e1, c1) = _
    rw [frame_empty e1 hf]
  | panic m => exact this
  | fuel => exact this

theorem mergeEdits_ok_eq {β} (from_ : List (EditKey × β)) : ∀ (into r : List (EditKey × β)),
    mergeEdits into from_ = .ok r → r = into ++ from_ := by
  induction from_ with
  | nil => intro into r h; cases h; simp
  | cons q t ih =>
    intro into r h
    unfold mergeEdits at h
    rw [List.foldlM_cons] at h
    obtain ⟨acc, h1, h2⟩ := bind_ok h
    split at h1
    · cases h1
    · cases h1
      have := ih _ r h2
      rw [this]; simp

/-- the canonical body run: context after the body, "ok" flag, and the escaper holding the body's edits -/
def cfBody (env : Env) (f : Nat) (tname : String) (c : Ctx) (root : NodeList) : Out (Ctx × Bool × Esc) :=
  match escapeList env f tname {} c root with
  | .ok (s, c1) => .ok (c1, c1.state != .error, s)
  | .panic m => .panic m
  | .fuel => .fuel

/-- what a result of `escapeTemplateBody` on a call-free tree looks like, from ANY escaper `e` -/
theorem body_cf (env env' : Env) (he : EnvEq env env') (f : Nat) (e : Esc) (c : Ctx) (tname : String) (t : Tree)
    (hnc : listNoCalls t.root) (r : Esc × Ctx × Bool)
    (hr : escapeTemplateBody env' (f + 1) e c tname (some t) = .ok r) :
    ∃ c1 s, cfBody env f tname c t.root = .ok (c1, r.2.2, s) ∧ r.2.1 = c1 ∧ r.2.2 = (c1.state != .error) ∧
      r.1.derived = e.derived ∧
      (r.2.2 = true → r.1.actionEdits = e.actionEdits ++ s.actionEdits ∧ r.1.tmplEdits = e.tmplEdits ++ s.tmplEdits ∧
        r.1.textEdits = e.textEdits ++ s.textEdits) ∧
      (r.2.2 = false → r.1.actionEdits = e.actionEdits ∧ r.1.tmplEdits = e.tmplEdits ∧ r.1.textEdits = e.textEdits) := by
  simp only [escapeTemplateBody] at hr
  obtain ⟨⟨e1, c1⟩, h1, h2⟩ := bind_ok hr
  -- relate the actual scratch run to the canonical one
  have hsim := list_sim env env' he t.root hnc f tname {} (scr e (aset e.output tname c)) c ⟨rfl, rfl, rfl⟩
  unfold cfBody
  cases hS : escapeList env f tname {} c t.root with
  | panic m => rw [hS] at hsim; rw [hsim] at h1; cases h1
  | fuel => rw [hS] at hsim; rw [hsim] at h1; cases h1
  | ok rs =>
    obtain ⟨s, cs⟩ := rs
    rw [hS] at hsim
    obtain ⟨_, hx⟩ := hsim
    rw [hx] at h1
    simp only [Out.ok.injEq, Prod.mk.injEq] at h1
    obtain ⟨rfl, rfl⟩ := h1
    simp only [] at h2 ⊢
    -- `called` of the scratch result is empty: no recursive call
    have hcalled : ((tr (scr e (aset e.output tname c)) s).called.contains tname) = false := rfl
    rw [hcalled] at h2
    simp only [Bool.not_false, Bool.true_or, Bool.and_true] at h2
    split at h2
    · rename_i hok
      obtain ⟨ae, ha, h3⟩ := bind_ok h2
      obtain ⟨te, ht, h4⟩ := bind_ok h3
      obtain ⟨xe, hx', h5⟩ := bind_ok h4
      cases h5
      refine ⟨cs, s, by rw [hok], rfl, hok.symm ▸ rfl, rfl, fun _ => ?_, (by intro hf; cases hf)⟩
      exact ⟨mergeEdits_ok_eq _ _ _ ha, mergeEdits_ok_eq _ _ _ ht, mergeEdits_ok_eq _ _ _ hx'⟩
    · rename_i hok
      cases h2
      have hokf : (cs.state != State.error) = false := by simpa using hok
      exact ⟨cs, s, by rw [hokf], rfl, hokf.symm, rfl, (by intro hf; cases hf), fun _ => ⟨rfl, rfl, rfl⟩⟩


/-- the canonical result of `computeOutCtx` on a call-free tree: final context and the escaper holding the edits -/
def cfOut (env : Env) (f : Nat) (tname : String) (c : Ctx) (root : NodeList) : Out (Ctx × Esc) :=
  match cfBody env f tname c root with
  | .panic m => .panic m
  | .fuel => .fuel
  | .ok (c1, true, s) => .ok (c1, s)
  | .ok (c1, false, _) =>
    match cfBody env f tname c1 root with
    | .panic m => .panic m
    | .fuel => .fuel
    | .ok (c2, true, s2) => .ok (c2, s2)
    | .ok (_, false, _) => .ok (if c1.state != .error then Ctx.errorCtx .outputContext else c1, {})

/-- the three pending-edit lists of `r` are those of `e` followed by those of `s` -/
def EdExt (e s r : Esc) : Prop :=
  r.actionEdits = e.actionEdits ++ s.actionEdits ∧ r.tmplEdits = e.tmplEdits ++ s.tmplEdits ∧
  r.textEdits = e.textEdits ++ s.textEdits

theorem out_cf (env env' : Env) (he : EnvEq env env') (f : Nat) (e : Esc) (c : Ctx) (tname : String) (t : Tree)
    (hnc : listNoCalls t.root) (r : Esc × Ctx)
    (hr : computeOutCtx env' (f + 2) e c tname (some t) = .ok r) :
    ∃ ss, cfOut env f tname c t.root = .ok (r.2, ss) ∧ EdExt e ss r.1 ∧ r.1.derived = e.derived := by
  simp only [computeOutCtx] at hr
  obtain ⟨⟨e1, c1, ok1⟩, h1, h2⟩ := bind_ok hr
  obtain ⟨c1', s1, hb1, hc1, hok1, hd1, ht1, hf1⟩ := body_cf env env' he f e c tname t hnc _ h1
  simp only [] at hb1 hc1 hok1 hd1 ht1 hf1 h2
  subst hc1
  unfold cfOut
  rw [hb1]
  cases ok1 with
  | true =>
    simp only [if_true] at h2
    cases h2
    exact ⟨s1, rfl, ht1 rfl, hd1⟩
  | false =>
    simp only [Bool.false_eq_true, if_false] at h2
    obtain ⟨⟨e2, c2, ok2⟩, h3, h4⟩ := bind_ok h2
    obtain ⟨c2', s2, hb2, hc2, hok2, hd2, ht2, hf2⟩ := body_cf env env' he f e1 c1 tname t hnc _ h3
    simp only [] at hb2 hc2 hok2 hd2 ht2 hf2 h4
    subst hc2
    dsimp only
    rw [hb2]
    obtain ⟨ha1, hm1, hx1⟩ := hf1 rfl
    cases ok2 with
    | true =>
      simp only [if_true] at h4
      cases h4
      obtain ⟨ha2, hm2, hx2⟩ := ht2 rfl
      exact ⟨s2, rfl, ⟨by rw [ha2, ha1], by rw [hm2, hm1], by rw [hx2, hx1]⟩, hd2.trans hd1⟩
    | false =>
      simp only [Bool.false_eq_true, if_false] at h4
      obtain ⟨ha2, hm2, hx2⟩ := hf2 rfl
      have hext : EdExt e {} e2 := ⟨by rw [ha2, ha1]; exact (List.append_nil _).symm,
        by rw [hm2, hm1]; exact (List.append_nil _).symm, by rw [hx2, hx1]; exact (List.append_nil _).symm⟩
      split at h4
      · rename_i hs
        cases h4
        exact ⟨{}, by rw [if_pos hs], hext, hd2.trans hd1⟩
      · rename_i hs
        cases h4
        exact ⟨{}, by rw [if_neg hs], hext, hd2.trans hd1⟩


/-! ### 3. `escapeTree` / `escapeTemplateTop` on a template that has not been analysed yet -/

/-- `name` is untouched by the history: not memoized, not a derived template, no pending edit of it -/
structure Quiet (e : Esc) (name : String) : Prop where
  memo : alookup e.output name = none
  der : ∀ p ∈ e.derived, p.1 ≠ name
  act : ∀ q ∈ e.actionEdits, q.1.1 ≠ name
  tmpl : ∀ q ∈ e.tmplEdits, q.1.1 ≠ name
  text : ∀ q ∈ e.textEdits, q.1.1 ≠ name

/-- the canonical environment: only `csp` and the validators matter for a call-free tree -/
@[reducible] def cenv (csp : Bool) (v : Validators) : Env := { text := [], nsHas := fun _ => false, csp := csp, v := v }

theorem tree_cf (env' : Env) (F : Nat) (e : Esc) (name : String) (t : Tree)
    (hl : env'.text.lookup name = some (some t)) (hnc : listNoCalls t.root) (hm : alookup e.output name = none)
    (r : Esc × Ctx × String) (hr : escapeTree env' F e {} name = .ok r) :
    ∃ ss, cfOut (cenv env'.csp env'.v) (F - 3) name {} t.root = .ok (r.2.1, ss) ∧ EdExt e ss r.1 ∧
      r.1.derived = e.derived := by
  have he : EnvEq (cenv env'.csp env'.v) env' := ⟨rfl, rfl⟩
  match F, hr with
  | 0, hr => simp only [escapeTree] at hr; cases hr
  | 1, hr =>
    exfalso
    simp only [escapeTree, mangle_text] at hr
    rw [if_neg (by decide)] at hr
    simp only [hm, Esc.template, hl, bne_self_eq_false, Bool.false_eq_true, if_false, computeOutCtx] at hr
    cases hr
  | 2, hr =>
    exfalso
    simp only [escapeTree, mangle_text] at hr
    rw [if_neg (by decide)] at hr
    simp only [hm, Esc.template, hl, bne_self_eq_false, Bool.false_eq_true, if_false, computeOutCtx,
      escapeTemplateBody] at hr
    cases hr
  | f + 3, hr =>
    simp only [escapeTree, mangle_text] at hr
    rw [if_neg (by decide)] at hr
    simp only [hm, Esc.template, hl, bne_self_eq_false, Bool.false_eq_true, if_false] at hr
    obtain ⟨⟨e2, c2⟩, h1, h2⟩ := bind_ok hr
    cases h2
    obtain ⟨ss, h3, h4, h5⟩ := out_cf _ env' he f _ {} name t hnc _ h1
    exact ⟨ss, h3, h4, h5⟩


/-! ### 4. the commit: what happens to the tree called `name` -/

theorem nodup_eraseDups : ∀ (n : Nat) (l : List String), l.length ≤ n → l.eraseDups.Nodup := by
  intro n
  induction n with
  | zero =>
    intro l h
    have : l = [] := List.eq_nil_of_length_eq_zero (Nat.le_zero.mp h)
    subst this
    rw [List.eraseDups_nil]; exact List.nodup_nil
  | succ n ih =>
    intro l h
    cases l with
    | nil => rw [List.eraseDups_nil]; exact List.nodup_nil
    | cons a as =>
      rw [List.eraseDups_cons, List.nodup_cons]
      refine ⟨?_, ih _ ?_⟩
      · intro hm
        rw [List.mem_eraseDups, List.mem_filter] at hm
        simp at hm
      · refine Nat.le_trans (List.length_filter_le _ as) ?_
        simp only [List.length_cons] at h
        omega

/-- the edit fold touches a name of a duplicate-free list exactly once -/
theorem edits_lookup_once (e : Esc) (names : List String) : ∀ (ts ts' : TextSet) (n : String) (tr : Tree),
    names.Nodup → names.foldlM (editStep e) ts = .ok ts' → n ∈ names → ts.lookup n = some (some tr) →
    ∃ r, NodeList.applyEdits n e tr.root = some r ∧ ts'.lookup n = some (some { tr with root := r }) := by
  induction names with
  | nil => intro ts ts' n tr _ _ hn; cases hn
  | cons m t ih =>
    intro ts ts' n tr hnd h hn hl
    rw [List.foldlM_cons] at h
    obtain ⟨ts1, h1, h2⟩ := bind_ok h
    rw [List.nodup_cons] at hnd
    by_cases hmn : n = m
    · subst hmn
      unfold editStep at h1
      rw [hl] at h1
      simp only [] at h1
      cases ha : NodeList.applyEdits n e tr.root with
      | none => rw [ha] at h1; cases h1
      | some r =>
        rw [ha] at h1
        cases h1
        refine ⟨r, rfl, ?_⟩
        rw [edits_lookup_other e t _ ts' n h2 hnd.1, lookup_set, if_pos rfl]
    · have hn' : n ∈ t := by
        cases hn with
        | head => exact absurd rfl hmn
        | tail _ h => exact h
      have hl1 : ts1.lookup n = some (some tr) := by rw [editStep_lookup_other e ts ts1 m n h1 hmn, hl]
      exact ih ts1 ts' n tr hnd.2 h2 hn' hl1

/-- `applyEdits` only looks at the edits keyed by the template name -/
def FindEq (tn : String) (e e' : Esc) : Prop :=
  (∀ id, e.textEdits.find? (fun p => p.1 == (tn, id)) = e'.textEdits.find? (fun p => p.1 == (tn, id))) ∧
  (∀ id, e.actionEdits.find? (fun p => p.1 == (tn, id)) = e'.actionEdits.find? (fun p => p.1 == (tn, id))) ∧
  (∀ id, e.tmplEdits.find? (fun p => p.1 == (tn, id)) = e'.tmplEdits.find? (fun p => p.1 == (tn, id)))

mutual
theorem node_applyEdits_congr (tn : String) (e e' : Esc) (h : FindEq tn e e') : ∀ n : Node,
    Node.applyEdits tn e n = Node.applyEdits tn e' n
  | .text id b => by simp only [Node.applyEdits, h.1 id]
  | .action id p => by simp only [Node.applyEdits, h.2.1 id]
  | .tmpl id name p => by simp only [Node.applyEdits, h.2.2 id]
  | .ifN id p t el => by
    simp only [Node.applyEdits, list_applyEdits_congr tn e e' h t, list_applyEdits_congr tn e e' h el]
  | .rangeN id p t el => by
    simp only [Node.applyEdits, list_applyEdits_congr tn e e' h t, list_applyEdits_congr tn e e' h el]
  | .withN id p t el => by
    simp only [Node.applyEdits, list_applyEdits_congr tn e e' h t, list_applyEdits_congr tn e e' h el]
  | .comment id => by simp only [Node.applyEdits]
  | .brk id => by simp only [Node.applyEdits]
  | .cont id => by simp only [Node.applyEdits]
theorem list_applyEdits_congr (tn : String) (e e' : Esc) (h : FindEq tn e e') : ∀ l : NodeList,
    NodeList.applyEdits tn e l = NodeList.applyEdits tn e' l
  | .nil => by simp only [NodeList.applyEdits]
  | .cons n ns => by
    simp only [NodeList.applyEdits, node_applyEdits_congr tn e e' h n, list_applyEdits_congr tn e e' h ns]
end


theorem find_old {β} (old new : List (EditKey × β)) (tn : String) (h : ∀ q ∈ old, q.1.1 ≠ tn) (id : Nat) :
    (old ++ new).find? (fun p => p.1 == (tn, id)) = new.find? (fun p => p.1 == (tn, id)) := by
  rw [List.find?_append]
  have : old.find? (fun p => p.1 == (tn, id)) = none := by
    rw [List.find?_eq_none]
    intro q hq hc
    have : q.1 = (tn, id) := by simpa using hc
    exact h q hq (by rw [this])
  rw [this]; rfl

theorem mem_names_old {β} (old new : List (EditKey × β)) (tn : String) (h : ∀ q ∈ old, q.1.1 ≠ tn) :
    tn ∈ (old ++ new).map (·.1.1) ↔ tn ∈ new.map (·.1.1) := by
  rw [List.map_append, List.mem_append]
  constructor
  · rintro (h1 | h1)
    · obtain ⟨q, hq, he⟩ := List.mem_map.mp h1
      exact absurd he (h q hq)
    · exact h1
  · exact .inr

theorem mem_editNames_ext (e ss e' : Esc) (name : String) (hext : EdExt e ss e')
    (ha : ∀ q ∈ e.actionEdits, q.1.1 ≠ name) (ht : ∀ q ∈ e.tmplEdits, q.1.1 ≠ name)
    (hx : ∀ q ∈ e.textEdits, q.1.1 ≠ name) : name ∈ editNames e' ↔ name ∈ editNames ss := by
  unfold editNames
  rw [List.mem_eraseDups, List.mem_eraseDups, List.mem_append, List.mem_append, List.mem_append, List.mem_append,
    hext.1, hext.2.1, hext.2.2, mem_names_old _ _ name ha, mem_names_old _ _ name ht, mem_names_old _ _ name hx]

/-- the committed tree of a call-free template analysed for the first time -/
def cfTree (name : String) (ss : Esc) (t : Tree) : Option Tree :=
  if name ∈ editNames ss then (NodeList.applyEdits name ss t.root).map (fun r => { t with root := r }) else some t

theorem commit_cf (text : TextSet) (e ss e' : Esc) (name : String) (t : Tree) (text2 : TextSet) (e2 : Esc)
    (hc : commit text e' = .ok (text2, e2)) (hl : text.lookup name = some (some t))
    (hd : ∀ p ∈ e'.derived, p.1 ≠ name) (hext : EdExt e ss e')
    (ha : ∀ q ∈ e.actionEdits, q.1.1 ≠ name) (ht : ∀ q ∈ e.tmplEdits, q.1.1 ≠ name)
    (hx : ∀ q ∈ e.textEdits, q.1.1 ≠ name) :
    ∃ T, cfTree name ss t = some T ∧ text2.lookup name = some (some T) := by
  obtain ⟨pr, hfold, _⟩ := commit_spec text e' text2 e2 hc
  have h1 : (e'.derived.foldl installStep text).lookup name = some (some t) := by
    rw [install_keeps e'.derived text name (fun p hp he => absurd he (hd p hp)), hl]
  have hmem := mem_editNames_ext e ss e' name hext ha ht hx
  unfold cfTree
  by_cases hn : name ∈ editNames e'
  · obtain ⟨r, hr, hl2⟩ := edits_lookup_once _ (editNames e') _ text2 name t (nodup_eraseDups _ _ (Nat.le_refl _))
      hfold hn h1
    have hfe : FindEq name { e' with pristine := pr } ss := by
      refine ⟨fun id => ?_, fun id => ?_, fun id => ?_⟩
      · show e'.textEdits.find? _ = _
        rw [hext.2.2]; exact find_old _ _ name hx id
      · show e'.actionEdits.find? _ = _
        rw [hext.1]; exact find_old _ _ name ha id
      · show e'.tmplEdits.find? _ = _
        rw [hext.2.1]; exact find_old _ _ name ht id
    rw [list_applyEdits_congr name _ ss hfe] at hr
    rw [if_pos (hmem.mp hn), hr]
    exact ⟨_, rfl, hl2⟩
  · rw [if_neg (fun h => hn (hmem.mpr h))]
    refine ⟨t, rfl, ?_⟩
    rw [edits_lookup_other _ (editNames e') _ text2 name hfold hn, h1]


/-! ### 5. `escapeTemplateTop` on a quiet call-free template is determined by `(csp, v, fuel, name, tree)` -/

/-- the canonical outcome: the reported error code and (for a success) the committed tree -/
def cfTop (csp : Bool) (v : Validators) (fuel : Nat) (name : String) (t : Tree) : Out (Option ErrCode × Option Tree) :=
  match cfOut (cenv csp v) (fuel - 3) name {} t.root with
  | .panic m => .panic m
  | .fuel => .fuel
  | .ok (cc, ss) => .ok (finalError cc, cfTree name ss t)

theorem top_cf (w : World) (n : Nat) (name : String) (t : Tree)
    (hl : (w.ns n).text.lookup name = some (some t)) (hnc : listNoCalls t.root) (hq : Quiet (w.ns n).esc name)
    (w' : World) (code : Option ErrCode) (h : escapeTemplateTop w n name = .inr (w', code)) :
    w'.fuel = w.fuel ∧
    ∃ T, cfTop (w.ns n).csp w.v w.fuel name t = .ok (code, T) ∧
      (code = none → ∃ T', T = some T' ∧ (w'.ns n).text.lookup name = some (some T')) := by
  unfold escapeTemplateTop at h
  simp only [] at h
  cases htree : escapeTree ⟨(w.ns n).text, fun m => (alookup (w.ns n).set m).isSome, (w.ns n).csp, w.v⟩ w.fuel
      (w.ns n).esc {} name with
  | panic m => rw [htree] at h; cases h
  | fuel => rw [htree] at h; cases h
  | ok r =>
    obtain ⟨e1, c1, nm⟩ := r
    rw [htree] at h
    simp only [] at h
    obtain ⟨ss, hout, hext, hder⟩ := tree_cf _ w.fuel (w.ns n).esc name t hl hnc hq.memo _ htree
    simp only [] at hout hext hder
    unfold cfTop
    rw [hout]
    cases hfe : finalError c1 with
    | some cd =>
      rw [hfe] at h
      simp only [Sum.inr.injEq, Prod.mk.injEq] at h
      obtain ⟨rfl, rfl⟩ := h
      exact ⟨markFailed_fuel .., cfTree name ss t, (by dsimp only; rw [hfe]), (by intro hc; cases hc)⟩
    | none =>
      rw [hfe] at h
      simp only [] at h
      cases hcm : commit (w.ns n).text e1 with
      | panic m => rw [hcm] at h; cases h
      | fuel => rw [hcm] at h; cases h
      | ok r2 =>
        obtain ⟨text2, e2⟩ := r2
        rw [hcm] at h
        simp only [Sum.inr.injEq, Prod.mk.injEq] at h
        obtain ⟨rfl, rfl⟩ := h
        obtain ⟨T, hT, hl2⟩ := commit_cf (w.ns n).text (w.ns n).esc ss e1 name t text2 e2 hcm hl
          (by rw [hder]; exact hq.der) hext hq.act hq.tmpl hq.text
        refine ⟨markOk_fuel .., cfTree name ss t, (by dsimp only; rw [hfe]), fun _ => ⟨T, hT, ?_⟩⟩
        rw [markOk_ns]
        exact hl2


/-! ### 6. executing a call-free tree does not look at the rest of the text set -/

mutual
theorem nc_callsIn : ∀ n : Node, nodeNoCalls n → nodeCallsIn (fun _ => False) n
  | .tmpl _ _ _, h => by simp only [nodeNoCalls] at h
  | .ifN _ _ t e, h => by
    simp only [nodeNoCalls] at h; simp only [nodeCallsIn]; exact ⟨ncl_callsIn t h.1, ncl_callsIn e h.2⟩
  | .rangeN _ _ t e, h => by
    simp only [nodeNoCalls] at h; simp only [nodeCallsIn]; exact ⟨ncl_callsIn t h.1, ncl_callsIn e h.2⟩
  | .withN _ _ t e, h => by
    simp only [nodeNoCalls] at h; simp only [nodeCallsIn]; exact ⟨ncl_callsIn t h.1, ncl_callsIn e h.2⟩
  | .text _ _, _ => by simp only [nodeCallsIn]
  | .action _ _, _ => by simp only [nodeCallsIn]
  | .brk _, _ => by simp only [nodeCallsIn]
  | .cont _, _ => by simp only [nodeCallsIn]
  | .comment _, _ => by simp only [nodeCallsIn]
theorem ncl_callsIn : ∀ l : NodeList, listNoCalls l → listCallsIn (fun _ => False) l
  | .nil, _ => by simp only [listCallsIn]
  | .cons n ns, h => by
    simp only [listNoCalls] at h; simp only [listCallsIn]; exact ⟨nc_callsIn n h.1, ncl_callsIn ns h.2⟩
end

theorem opt_bind2 {α β γ} {a : Option α} {b : Option β} {f : α → β → γ} {r : γ}
    (h : (do let x ← a; let y ← b; pure (f x y)) = some r) : ∃ x y, a = some x ∧ b = some y ∧ r = f x y := by
  cases a with
  | none => cases h
  | some x =>
    cases b with
    | none => cases h
    | some y => cases h; exact ⟨x, y, rfl, rfl, rfl⟩

mutual
theorem node_applyEdits_nc (tn : String) (e : Esc) : ∀ (n n' : Node), nodeNoCalls n →
    Node.applyEdits tn e n = some n' → nodeNoCalls n'
  | .text id b, n', _, h => by
    simp only [Node.applyEdits, Option.some.injEq] at h
    subst h
    split <;> simp only [nodeNoCalls]
  | .action id p, n', _, h => by
    simp only [Node.applyEdits] at h
    split at h
    · obtain ⟨p', _, rfl⟩ := Option.map_eq_some_iff.mp h
      simp only [nodeNoCalls]
    · cases h; simp only [nodeNoCalls]
  | .tmpl _ _ _, _, hn, _ => by simp only [nodeNoCalls] at hn
  | .ifN id p t el, n', hn, h => by
    simp only [nodeNoCalls] at hn
    simp only [Node.applyEdits] at h
    obtain ⟨t', el', h1, h2, rfl⟩ := opt_bind2 h
    simp only [nodeNoCalls]
    exact ⟨list_applyEdits_nc tn e t t' hn.1 h1, list_applyEdits_nc tn e el el' hn.2 h2⟩
  | .rangeN id p t el, n', hn, h => by
    simp only [nodeNoCalls] at hn
    simp only [Node.applyEdits] at h
    obtain ⟨t', el', h1, h2, rfl⟩ := opt_bind2 h
    simp only [nodeNoCalls]
    exact ⟨list_applyEdits_nc tn e t t' hn.1 h1, list_applyEdits_nc tn e el el' hn.2 h2⟩
  | .withN id p t el, n', hn, h => by
    simp only [nodeNoCalls] at hn
    simp only [Node.applyEdits] at h
    obtain ⟨t', el', h1, h2, rfl⟩ := opt_bind2 h
    simp only [nodeNoCalls]
    exact ⟨list_applyEdits_nc tn e t t' hn.1 h1, list_applyEdits_nc tn e el el' hn.2 h2⟩
  | .brk _, n', _, h => by simp only [Node.applyEdits, Option.some.injEq] at h; subst h; simp only [nodeNoCalls]
  | .cont _, n', _, h => by simp only [Node.applyEdits, Option.some.injEq] at h; subst h; simp only [nodeNoCalls]
  | .comment _, n', _, h => by simp only [Node.applyEdits, Option.some.injEq] at h; subst h; simp only [nodeNoCalls]
theorem list_applyEdits_nc (tn : String) (e : Esc) : ∀ (l l' : NodeList), listNoCalls l →
    NodeList.applyEdits tn e l = some l' → listNoCalls l'
  | .nil, l', _, h => by simp only [NodeList.applyEdits, Option.some.injEq] at h; subst h; simp only [listNoCalls]
  | .cons n ns, l', hn, h => by
    simp only [listNoCalls] at hn
    simp only [NodeList.applyEdits] at h
    obtain ⟨n', ns', h1, h2, rfl⟩ := opt_bind2 h
    simp only [listNoCalls]
    exact ⟨node_applyEdits_nc tn e n n' hn.1 h1, list_applyEdits_nc tn e ns ns' hn.2 h2⟩
end

theorem cfTree_nc (name : String) (ss : Esc) (t T : Tree) (hnc : listNoCalls t.root) (h : cfTree name ss t = some T) :
    listNoCalls T.root := by
  unfold cfTree at h
  split at h
  · obtain ⟨r, hr, rfl⟩ := Option.map_eq_some_iff.mp h
    exact list_applyEdits_nc name ss t.root r hnc hr
  · cases h; exact hnc

/-- execution of a tree against the empty text set -/
def cfExec (reg : Bool) (fuel : Nat) (T : Tree) (d : Value) : Res :=
  if reg then
    let r := walkList false [] 0 fuel d d [] T.root
    match r.err with
    | none => .ok r.out
    | some .nilTree => .panic "nil pointer dereference: execution of a called template whose Tree is nil"
    | some .exec => .err "exec" r.out
    | some .depth => .err "exec-depth" []
    | some .unsupported => .unsupported
    | some .fuel => .fuel
  else .err "exec" []

theorem exec_cf (w : World) (o : TObj) (d : Value) (T : Tree)
    (hl : (w.ns o.ns).text.lookup o.name = some (some T)) (hnc : listNoCalls T.root) :
    textExecute w o d = cfExec o.registered w.fuel T d := by
  unfold textExecute cfExec
  simp only [hl]
  cases o.registered with
  | false => rfl
  | true =>
    simp only [if_true]
    have hcl : Closed (fun _ => False) (w.ns o.ns).text := fun _ h => h.elim
    rw [(walk_congr (fun _ => False) false (w.ns o.ns).text [] (fun _ h => h.elim) hcl w.fuel).2.1 _ _ _ _ _
      (ncl_callsIn T.root hnc)]
    generalize walkList false [] 0 w.fuel d d [] T.root = r
    obtain ⟨out, err⟩ := r
    cases err with
    | none => rfl
    | some x => cases x <;> rfl


/-! ### 7. the failing outcomes (panic / out of fuel) are the canonical ones, too -/

theorem body_cf_panic (env env' : Env) (he : EnvEq env env') (f : Nat) (e : Esc) (c : Ctx) (tname : String) (t : Tree)
    (hnc : listNoCalls t.root) (m : String)
    (hr : escapeTemplateBody env' (f + 1) e c tname (some t) = .panic m) :
    cfBody env f tname c t.root = .panic m ∨ m = msgShared := by
  simp only [escapeTemplateBody] at hr
  have hsim := list_sim env env' he t.root hnc f tname {} (scr e (aset e.output tname c)) c ⟨rfl, rfl, rfl⟩
  unfold cfBody
  cases hS : escapeList env f tname {} c t.root with
  | panic m' =>
    rw [hS] at hsim; rw [hsim] at hr
    cases hr; exact .inl rfl
  | fuel => rw [hS] at hsim; rw [hsim] at hr; cases hr
  | ok rs =>
    obtain ⟨s, cs⟩ := rs
    rw [hS] at hsim
    obtain ⟨_, hx⟩ := hsim
    rw [hx] at hr
    right
    rcases bind_panic hr with h | ⟨a, ha, h⟩
    · cases h
    · cases ha
      simp only [] at h
      split at h
      · rcases bind_panic h with h1 | ⟨_, _, h⟩
        · exact mergeEdits_panic _ _ _ h1
        · rcases bind_panic h with h1 | ⟨_, _, h⟩
          · exact mergeEdits_panic _ _ _ h1
          · rcases bind_panic h with h1 | ⟨_, _, h⟩
            · exact mergeEdits_panic _ _ _ h1
            · cases h
      · cases h

theorem body_cf_fuel (env env' : Env) (he : EnvEq env env') (f : Nat) (e : Esc) (c : Ctx) (tname : String) (t : Tree)
    (hnc : listNoCalls t.root)
    (hr : escapeTemplateBody env' (f + 1) e c tname (some t) = .fuel) :
    cfBody env f tname c t.root = .fuel := by
  simp only [escapeTemplateBody] at hr
  have hsim := list_sim env env' he t.root hnc f tname {} (scr e (aset e.output tname c)) c ⟨rfl, rfl, rfl⟩
  unfold cfBody
  cases hS : escapeList env f tname {} c t.root with
  | panic m' => rw [hS] at hsim; rw [hsim] at hr; cases hr
  | fuel => rfl
  | ok rs =>
    exfalso
    obtain ⟨s, cs⟩ := rs
    rw [hS] at hsim
    obtain ⟨_, hx⟩ := hsim
    rw [hx] at hr
    rcases bind_fuel hr with h | ⟨a, ha, h⟩
    · cases h
    · cases ha
      simp only [] at h
      split at h
      · rcases bind_fuel h with h1 | ⟨_, _, h⟩
        · exact mergeEdits_ne_fuel _ _ h1
        · rcases bind_fuel h with h1 | ⟨_, _, h⟩
          · exact mergeEdits_ne_fuel _ _ h1
          · rcases bind_fuel h with h1 | ⟨_, _, h⟩
            · exact mergeEdits_ne_fuel _ _ h1
            · cases h
      · cases h

theorem out_cf_panic (env env' : Env) (he : EnvEq env env') (f : Nat) (e : Esc) (c : Ctx) (tname : String) (t : Tree)
    (hnc : listNoCalls t.root) (m : String)
    (hr : computeOutCtx env' (f + 2) e c tname (some t) = .panic m) :
    cfOut env f tname c t.root = .panic m ∨ m = msgShared := by
  simp only [computeOutCtx] at hr
  unfold cfOut
  rcases bind_panic hr with h | ⟨⟨e1, c1, ok1⟩, h1, h2⟩
  · rcases body_cf_panic env env' he f e c tname t hnc m h with h | h
    · rw [h]; exact .inl rfl
    · exact .inr h
  · obtain ⟨c1', s1, hb1, hc1, _⟩ := body_cf env env' he f e c tname t hnc _ h1
    simp only [] at hb1 hc1 h2
    subst hc1
    rw [hb1]
    cases ok1 with
    | true => simp only [if_true] at h2; cases h2
    | false =>
      simp only [Bool.false_eq_true, if_false] at h2
      dsimp only
      rcases bind_panic h2 with h | ⟨⟨e2, c2, ok2⟩, h3, h4⟩
      · rcases body_cf_panic env env' he f e1 c1 tname t hnc m h with h | h
        · rw [h]; exact .inl rfl
        · exact .inr h
      · exfalso
        simp only [] at h4
        split at h4
        · cases h4
        · split at h4 <;> cases h4

theorem out_cf_fuel (env env' : Env) (he : EnvEq env env') (f : Nat) (e : Esc) (c : Ctx) (tname : String) (t : Tree)
    (hnc : listNoCalls t.root)
    (hr : computeOutCtx env' (f + 2) e c tname (some t) = .fuel) :
    cfOut env f tname c t.root = .fuel := by
  simp only [computeOutCtx] at hr
  unfold cfOut
  rcases bind_fuel hr with h | ⟨⟨e1, c1, ok1⟩, h1, h2⟩
  · rw [body_cf_fuel env env' he f e c tname t hnc h]
  · obtain ⟨c1', s1, hb1, hc1, _⟩ := body_cf env env' he f e c tname t hnc _ h1
    simp only [] at hb1 hc1 h2
    subst hc1
    rw [hb1]
    cases ok1 with
    | true => simp only [if_true] at h2; cases h2
    | false =>
      simp only [Bool.false_eq_true, if_false] at h2
      dsimp only
      rcases bind_fuel h2 with h | ⟨⟨e2, c2, ok2⟩, h3, h4⟩
      · rw [body_cf_fuel env env' he f e1 c1 tname t hnc h]
      · exfalso
        simp only [] at h4
        split at h4
        · cases h4
        · split at h4 <;> cases h4


theorem tree_cf_panic (env' : Env) (F : Nat) (e : Esc) (name : String) (t : Tree)
    (hl : env'.text.lookup name = some (some t)) (hnc : listNoCalls t.root) (hm : alookup e.output name = none)
    (m : String) (hr : escapeTree env' F e {} name = .panic m) :
    cfOut (cenv env'.csp env'.v) (F - 3) name {} t.root = .panic m ∨ m = msgShared := by
  have he : EnvEq (cenv env'.csp env'.v) env' := ⟨rfl, rfl⟩
  match F, hr with
  | 0, hr => simp only [escapeTree] at hr; cases hr
  | 1, hr =>
    exfalso
    simp only [escapeTree, mangle_text] at hr
    rw [if_neg (by decide)] at hr
    simp only [hm, Esc.template, hl, bne_self_eq_false, Bool.false_eq_true, if_false, computeOutCtx] at hr
    cases hr
  | 2, hr =>
    exfalso
    simp only [escapeTree, mangle_text] at hr
    rw [if_neg (by decide)] at hr
    simp only [hm, Esc.template, hl, bne_self_eq_false, Bool.false_eq_true, if_false, computeOutCtx,
      escapeTemplateBody] at hr
    cases hr
  | f + 3, hr =>
    simp only [escapeTree, mangle_text] at hr
    rw [if_neg (by decide)] at hr
    simp only [hm, Esc.template, hl, bne_self_eq_false, Bool.false_eq_true, if_false] at hr
    rcases bind_panic hr with h | ⟨_, _, h⟩
    · exact out_cf_panic _ env' he f _ {} name t hnc m h
    · cases h

theorem cfOut_zero (env : Env) (tn : String) (c : Ctx) (root : NodeList) : cfOut env 0 tn c root = .fuel := by
  simp only [cfOut, cfBody, escapeList]

theorem tree_cf_fuel (env' : Env) (F : Nat) (e : Esc) (name : String) (t : Tree)
    (hl : env'.text.lookup name = some (some t)) (hnc : listNoCalls t.root) (hm : alookup e.output name = none)
    (hr : escapeTree env' F e {} name = .fuel) :
    cfOut (cenv env'.csp env'.v) (F - 3) name {} t.root = .fuel := by
  have he : EnvEq (cenv env'.csp env'.v) env' := ⟨rfl, rfl⟩
  match F, hr with
  | 0, _ => exact cfOut_zero ..
  | 1, _ => exact cfOut_zero ..
  | 2, _ => exact cfOut_zero ..
  | f + 3, hr =>
    simp only [escapeTree, mangle_text] at hr
    rw [if_neg (by decide)] at hr
    simp only [hm, Esc.template, hl, bne_self_eq_false, Bool.false_eq_true, if_false] at hr
    rcases bind_fuel hr with h | ⟨_, _, h⟩
    · exact out_cf_fuel _ env' he f _ {} name t hnc h
    · cases h

/-- a panic of `escapeTemplateTop` on a quiet call-free template is the canonical one, or one of the three
    messages excluded by the C08 invariants -/
theorem top_cf_panic (w : World) (n : Nat) (name : String) (t : Tree)
    (hl : (w.ns n).text.lookup name = some (some t)) (hnc : listNoCalls t.root) (hq : Quiet (w.ns n).esc name)
    (m : String) (h : escapeTemplateTop w n name = .inl (.panic m)) :
    cfTop (w.ns n).csp w.v w.fuel name t = .panic m ∨ m = msgShared ∨ m = msgArgs ∨ m = msgCommit := by
  unfold escapeTemplateTop at h
  simp only [] at h
  unfold cfTop
  cases htree : escapeTree ⟨(w.ns n).text, fun m => (alookup (w.ns n).set m).isSome, (w.ns n).csp, w.v⟩ w.fuel
      (w.ns n).esc {} name with
  | panic m' =>
    rw [htree] at h
    simp only [Sum.inl.injEq, Res.panic.injEq] at h
    subst h
    rcases tree_cf_panic _ w.fuel (w.ns n).esc name t hl hnc hq.memo _ htree with h | h
    · simp only [] at h
      rw [h]; exact .inl rfl
    · exact .inr (.inl h)
  | fuel => rw [htree] at h; cases h
  | ok r =>
    obtain ⟨e1, c1, nm⟩ := r
    rw [htree] at h
    simp only [] at h
    right; right
    cases hfe : finalError c1 with
    | some cd => rw [hfe] at h; cases h
    | none =>
      rw [hfe] at h
      simp only [] at h
      cases hcm : commit (w.ns n).text e1 with
      | panic m' =>
        rw [hcm] at h
        simp only [Sum.inl.injEq, Res.panic.injEq] at h
        subst h
        unfold commit at hcm
        simp only [] at hcm
        split at hcm
        · cases hcm; exact .inr rfl
        · rcases bind_panic hcm with h1 | ⟨_, _, h2⟩
          · exact .inl (edits_panic _ _ _ _ h1)
          · cases h2
      | fuel => rw [hcm] at h; cases h
      | ok r2 => rw [hcm] at h; cases h

theorem top_cf_fuel (w : World) (n : Nat) (name : String) (t : Tree)
    (hl : (w.ns n).text.lookup name = some (some t)) (hnc : listNoCalls t.root) (hq : Quiet (w.ns n).esc name)
    (h : escapeTemplateTop w n name = .inl .fuel) :
    cfTop (w.ns n).csp w.v w.fuel name t = .fuel := by
  unfold escapeTemplateTop at h
  simp only [] at h
  unfold cfTop
  cases htree : escapeTree ⟨(w.ns n).text, fun m => (alookup (w.ns n).set m).isSome, (w.ns n).csp, w.v⟩ w.fuel
      (w.ns n).esc {} name with
  | panic m' => rw [htree] at h; cases h
  | fuel =>
    have := tree_cf_fuel _ w.fuel (w.ns n).esc name t hl hnc hq.memo htree
    simp only [] at this
    rw [this]
  | ok r =>
    exfalso
    obtain ⟨e1, c1, nm⟩ := r
    rw [htree] at h
    simp only [] at h
    cases hfe : finalError c1 with
    | some cd => rw [hfe] at h; cases h
    | none =>
      rw [hfe] at h
      simp only [] at h
      cases hcm : commit (w.ns n).text e1 with
      | panic m' => rw [hcm] at h; cases h
      | fuel => exact commit_ne_fuel _ _ hcm
      | ok r2 => rw [hcm] at h; cases h


/-! ### 8. history independence of the first analysis of a call-free template -/

/-- the outcome class of `escapeTemplateTop`: the reported panic / fuel, or the error code (`none` = success) -/
def cls : Res ⊕ (World × Option ErrCode) → Res ⊕ Option ErrCode
  | .inl r => .inl r
  | .inr (_, c) => .inr c

def cfCls : Out (Option ErrCode × Option Tree) → Res ⊕ Option ErrCode
  | .ok (c, _) => .inr c
  | .panic m => .inl (.panic m)
  | .fuel => .inl .fuel

/-- the outcome is not one of the three panics that the C08 invariants exclude -/
def NoC08 (x : Res ⊕ (World × Option ErrCode)) : Prop :=
  ∀ m, x = .inl (.panic m) → m ≠ msgShared ∧ m ≠ msgArgs ∧ m ≠ msgCommit

theorem top_shape (w : World) (n : Nat) (name : String) (r : Res) (h : escapeTemplateTop w n name = .inl r) :
    r = .fuel ∨ ∃ m, r = .panic m := by
  unfold escapeTemplateTop at h
  simp only [] at h
  split at h
  · cases h; exact .inr ⟨_, rfl⟩
  · cases h; exact .inl rfl
  · split at h
    · cases h
    · split at h
      · cases h; exact .inr ⟨_, rfl⟩
      · cases h; exact .inl rfl
      · cases h

/-- **the outcome class is the canonical one** — a function of `(csp, v, fuel, name, tree)` only -/
theorem top_cls (w : World) (n : Nat) (name : String) (t : Tree)
    (hl : (w.ns n).text.lookup name = some (some t)) (hnc : listNoCalls t.root) (hq : Quiet (w.ns n).esc name)
    (hx : NoC08 (escapeTemplateTop w n name)) :
    cls (escapeTemplateTop w n name) = cfCls (cfTop (w.ns n).csp w.v w.fuel name t) := by
  cases hres : escapeTemplateTop w n name with
  | inr p =>
    obtain ⟨w', code⟩ := p
    obtain ⟨_, T, hT, _⟩ := top_cf w n name t hl hnc hq w' code hres
    rw [hT]; rfl
  | inl r =>
    rcases top_shape w n name r hres with rfl | ⟨m, rfl⟩
    · rw [top_cf_fuel w n name t hl hnc hq hres]; rfl
    · obtain ⟨h1, h2, h3⟩ := hx m hres
      rcases top_cf_panic w n name t hl hnc hq m hres with h | h | h | h
      · rw [h]; rfl
      · exact absurd h h1
      · exact absurd h h2
      · exact absurd h h3

/-- **C06, first half, for templates without `{{template}}` calls.** Two worlds (any histories), two name spaces, one
    name whose installed tree is the same call-free tree `t` in both, not yet analysed in either (`Quiet`), same
    validators, CSP flag and fuel: the first analysis reports the same outcome class, and after a success the
    executions of `name` agree on every input. -/
theorem C06_callfree_independent (w1 w2 : World) (n1 n2 : Nat) (name : String) (t : Tree)
    (hl1 : (w1.ns n1).text.lookup name = some (some t)) (hl2 : (w2.ns n2).text.lookup name = some (some t))
    (hnc : listNoCalls t.root)
    (hq1 : Quiet (w1.ns n1).esc name) (hq2 : Quiet (w2.ns n2).esc name)
    (hf : w1.fuel = w2.fuel) (hv : w1.v = w2.v) (hcsp : (w1.ns n1).csp = (w2.ns n2).csp)
    (hx1 : NoC08 (escapeTemplateTop w1 n1 name)) (hx2 : NoC08 (escapeTemplateTop w2 n2 name)) :
    cls (escapeTemplateTop w1 n1 name) = cls (escapeTemplateTop w2 n2 name) ∧
    ∀ w1' w2', escapeTemplateTop w1 n1 name = .inr (w1', none) → escapeTemplateTop w2 n2 name = .inr (w2', none) →
      ∀ (o1 o2 : TObj) (d : Value), o1.ns = n1 → o1.name = name → o2.ns = n2 → o2.name = name →
        o1.registered = o2.registered → textExecute w1' o1 d = textExecute w2' o2 d := by
  refine ⟨?_, ?_⟩
  · rw [top_cls w1 n1 name t hl1 hnc hq1 hx1, top_cls w2 n2 name t hl2 hnc hq2 hx2, hf, hv, hcsp]
  · intro w1' w2' h1 h2 o1 o2 d ho1 hn1 ho2 hn2 hreg
    obtain ⟨hf1, T1, hT1, hs1⟩ := top_cf w1 n1 name t hl1 hnc hq1 w1' none h1
    obtain ⟨hf2, T2, hT2, hs2⟩ := top_cf w2 n2 name t hl2 hnc hq2 w2' none h2
    rw [hf, hv, hcsp, hT2] at hT1
    simp only [Out.ok.injEq, Prod.mk.injEq, true_and] at hT1
    subst hT1
    obtain ⟨T1', hT1', hk1⟩ := hs1 rfl
    obtain ⟨T2', hT2', hk2⟩ := hs2 rfl
    rw [hT1'] at hT2'
    cases hT2'
    have hncT : listNoCalls T1'.root := by
      unfold cfTop at hT2
      split at hT2
      · cases hT2
      · cases hT2
      · rename_i cc ss _
        simp only [Out.ok.injEq, Prod.mk.injEq] at hT2
        exact cfTree_nc name ss t T1' hnc (hT2.2.trans hT1')
    subst ho1 ho2
    rw [exec_cf w1' o1 d T1' (by rw [hn1]; exact hk1) hncT, exec_cf w2' o2 d T1' (by rw [hn2]; exact hk2) hncT,
      hreg, hf1, hf2, hf]

/-! #### the hypotheses in reachable worlds -/

theorem quiet_fresh (e : Esc) (name : String) (ho : e.output = []) (hd : e.derived = []) (ha : e.actionEdits = [])
    (ht : e.tmplEdits = []) (hx : e.textEdits = []) : Quiet e name :=
  ⟨(by rw [ho]; rfl), (by rw [hd]; intro p h; cases h), (by rw [ha]; intro p h; cases h),
    (by rw [ht]; intro p h; cases h), (by rw [hx]; intro p h; cases h)⟩

/-- `Quiet` = "not memoized", under the invariants `KM` (pending edits belong to memoized names) and `DM` (derived
    templates are memoized) -/
theorem quiet_of (e : Esc) (name : String) (hm : alookup e.output name = none) (hkm : KM e) (hdm : DM e) :
    Quiet e name := by
  have hnm : ¬ Memo e name := by unfold Memo; rw [hm]; exact fun h => nomatch h
  refine ⟨hm, ?_, ?_, ?_, ?_⟩
  · intro p hp he
    exact hnm (he ▸ hdm p hp)
  · intro q hq he
    exact hnm (he ▸ hkm q.1 (.inl (List.mem_map.mpr ⟨q, hq, rfl⟩)))
  · intro q hq he
    exact hnm (he ▸ hkm q.1 (.inr (.inl (List.mem_map.mpr ⟨q, hq, rfl⟩))))
  · intro q hq he
    exact hnm (he ▸ hkm q.1 (.inr (.inr (List.mem_map.mpr ⟨q, hq, rfl⟩))))

theorem quiet_reachable (w : World) (hr : ReachableP w) (n : Nat) (name : String)
    (hm : alookup (w.ns n).esc.output name = none) : Quiet (w.ns n).esc name := by
  have hg : GoodNs (w.ns n) := (invR_reachable w hr.reachable0.reachable).1.1 n
  exact quiet_of _ name hm ((winv_reachable w hr n).2.2.2.2.1.2.2.1) hg.2.1

theorem noC08_reachable (w : World) (hr : ReachableP w) (n : Nat) (name : String) :
    NoC08 (escapeTemplateTop w n name) := by
  intro m hm
  rcases C08_analysis_total_reachable w hr n name with ⟨_, _, h⟩ | h | h | h
  · rw [h] at hm; cases hm
  · rw [h] at hm; cases hm
  · rw [h] at hm; cases hm; decide
  · rw [h] at hm; cases hm; decide

/-- **C06, first half, call-free templates, reachable worlds.** `w1`, `w2` are any two worlds a program can build
    (parsed definitions well-formed: `OpOK`); `name` has the same call-free tree in name space `n1` of `w1` and `n2` of
    `w2` and has not been analysed in either. Then `escapeTemplate` reports the same outcome class in both, and after a
    success `name` executes identically. Taking for `w2` a world in which `n2` has never been executed gives "history
    independence": the history of `n1` (which other templates were executed before, with which results) is not
    observable through `name`. -/
theorem C06_callfree_reachable (w1 w2 : World) (hr1 : ReachableP w1) (hr2 : ReachableP w2) (n1 n2 : Nat)
    (name : String) (t : Tree)
    (hl1 : (w1.ns n1).text.lookup name = some (some t)) (hl2 : (w2.ns n2).text.lookup name = some (some t))
    (hnc : listNoCalls t.root)
    (hm1 : alookup (w1.ns n1).esc.output name = none) (hm2 : alookup (w2.ns n2).esc.output name = none)
    (hf : w1.fuel = w2.fuel) (hv : w1.v = w2.v) (hcsp : (w1.ns n1).csp = (w2.ns n2).csp) :
    cls (escapeTemplateTop w1 n1 name) = cls (escapeTemplateTop w2 n2 name) ∧
    ∀ w1' w2', escapeTemplateTop w1 n1 name = .inr (w1', none) → escapeTemplateTop w2 n2 name = .inr (w2', none) →
      ∀ (o1 o2 : TObj) (d : Value), o1.ns = n1 → o1.name = name → o2.ns = n2 → o2.name = name →
        o1.registered = o2.registered → textExecute w1' o1 d = textExecute w2' o2 d :=
  C06_callfree_independent w1 w2 n1 n2 name t hl1 hl2 hnc (quiet_reachable w1 hr1 n1 name hm1)
    (quiet_reachable w2 hr2 n2 name hm2) hf hv hcsp (noC08_reachable w1 hr1 n1 name) (noC08_reachable w2 hr2 n2 name)


/-!
## Summary

**Proved** (core Lean only, no placeholders):

* `node_sim` / `list_sim` — the analysis of a list without `{{template}}` nodes from two escapers with the same pending
  edits, under environments that agree on `csp` and the validators, gives the same outcome (ok / the same panic / fuel),
  the same context and the same new edits, and touches no other field of the escaper (memo, derived, called, pristine,
  memoPrefix, prefixReuse): on such a list the escaper is write-only.
* `body_cf`, `out_cf`, `tree_cf` (+ `_panic`, `_fuel`) — `escapeTemplateBody` / `computeOutCtx` / `escapeTree` on a
  call-free tree from ANY escaper are described by the canonical functions `cfBody` / `cfOut` (runs from the empty
  escaper in the empty text set): same final context, pending edits = old edits ++ canonical edits, `derived` untouched;
  failures are the canonical failures, or "node shared between templates".
* `commit_cf` — the commit installs under `name` the canonical tree `cfTree name ss t` (edits keyed by other template
  names, derived templates and the pending edits of earlier failed analyses do not reach it).
* `top_cf`, `top_cf_panic`, `top_cf_fuel`, `top_cls` — the outcome class of `escapeTemplateTop` on a `Quiet` call-free
  template is `cfCls (cfTop csp v fuel name t)`: a function of the CSP flag, the validators, the fuel, the name and the
  tree only.
* `exec_cf` — executing a call-free tree does not look at the text set.
* `C06_callfree_independent` (abstract hypotheses) and `C06_callfree_reachable` (any two worlds reachable by
  well-formed operations): same outcome class, and after a success the same `textExecute` for every input.
  `prefixReuse` plays no role here (a call-free analysis never reads the memo), and neither does the shape of the other
  names in the set.

**Not proved** — the general statement (templates WITH `{{template}}` calls). What is missing is a *memo-correctness*
invariant: "every entry `output[mangle c x] = c'` of a reachable escaper with `prefixReuse = false` is the context a
fresh analysis of `x` started in `c` ends in, and the installed tree of `mangle c x` is the tree that analysis
commits". Its proof needs
  1. a reference semantics of the analysis that is independent of the memo (the six functions here thread the memo
     through everything; the entries written while a recursive template is being analysed are *assumptions*
     `output[t] = c` that are only validated at the end of the body by `c.eq c1`);
  2. the fact that `Ctx.eq` ignores `attrValue` / `ambiguous`, so assumption and result agree only up to these two
     fields — exactly the fields `memoPrefix` / `prefixReuse` track; the invariant has to say that with
     `prefixReuse = false` every memo *hit* happened with the prefix the entry was computed with;
  3. injectivity of `mangle` on the names that occur (this is where "no name contains `$htmltemplate_`" enters), so
     that a derived name is never a user template or the derived name of another (context, name) pair;
  4. the pristine snapshots (a derived template is copied from the tree *before* the edits of earlier commits).
None of these is needed for call-free templates, which is why the result above is unconditional in the history.

**Counterexample search**: none found. (Candidates examined by hand: pending edits and `called` left behind by a failed
analysis and applied by the next successful commit; derived templates installed by a later commit; pristine snapshots
taken at a commit that also applies pending edits of an earlier failed analysis. In each case the tree finally
installed under a name is the one a fresh analysis installs.)
-/

end SafeHtml.Proofs.Independence
