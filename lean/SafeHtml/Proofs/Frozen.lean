/-
Frozen trees (C09 / C06): a later analysis in the same template set never changes what a template that was analysed
earlier executes.

Result in one paragraph (model after library commit d3401ea: `escapeTree` returns an error context unchanged, before the
memo lookup). The property is PROVED for every reachable state, with no closedness or naming hypothesis:
`C09_frozen_reachable` — start from any set whose escaper satisfies the invariant `GoodNs` (in particular a set that
has never been executed, with arbitrary parsed templates, also templates whose names look like mangled names), run any
analyses (successful or failed, with whatever a failed analysis leaves pending), let the analysis of `o` succeed: no
sequence of later analyses changes `textExecute … o`. `apiExecute_frozen` / `apiExecuteTemplate_frozen` +
`settled_after_own_analysis` give the same for the complete critical sections of Execute / ExecuteTemplate
(`Stable.post_stable` of Model/Conc). The statement of Props/C09.lean read literally — for ALL worlds, also unreachable
ones — is false (`C09_frozen_statement_false`, hand-made unreachable state); the reachable witness found before the
repair is rejected now (`Old.rejected`). A summary of all theorems is at the end of the file.
-/
import SafeHtml.Props.C09
namespace SafeHtml.Proofs.Frozen
open SafeHtml SafeHtml.Model.Tmpl

/-! ### 0. association lists -/

theorem alookup_nil {β} (k : String) : alookup ([] : List (String × β)) k = none := rfl

theorem alookup_cons {β} (p : String × β) (t : List (String × β)) (k : String) :
    alookup (p :: t) k = if p.1 = k then some p.2 else alookup t k := by
  unfold alookup
  by_cases h : p.1 = k
  · simp [List.find?_cons, h]
  · have : (p.1 == k) = false := by simp [h]
    simp [List.find?_cons, this, h]

theorem alookup_append_single {β} (l : List (String × β)) (k : String) (v : β) (k' : String) :
    alookup (l ++ [(k, v)]) k' = match alookup l k' with
      | some x => some x
      | none => if k = k' then some v else none := by
  induction l with
  | nil => simp [alookup_cons, alookup_nil]
  | cons p t ih =>
    simp only [List.cons_append, alookup_cons]
    split
    · rfl
    · exact ih

/-- the update function of `aset` / `TextSet.set` -/
def upd {β} (k : String) (v : β) (p : String × β) : String × β := if p.1 == k then (k, v) else p

theorem upd_same {β} (k : String) (v : β) (p : String × β) (h : p.1 = k) : upd k v p = (k, v) := by
  simp [upd, h]
theorem upd_other {β} (k : String) (v : β) (p : String × β) (h : ¬ p.1 = k) : upd k v p = p := by
  simp [upd, h]

theorem aset_eq {β} (l : List (String × β)) (k : String) (v : β) :
    aset l k v = if l.any (fun p => p.1 == k) then l.map (upd k v) else l ++ [(k, v)] := rfl

theorem alookup_map_other {β} (l : List (String × β)) (k : String) (v : β) (k' : String) (h : k' ≠ k) :
    alookup (l.map (upd k v)) k' = alookup l k' := by
  induction l with
  | nil => rfl
  | cons p t ih =>
    rw [List.map_cons, alookup_cons, alookup_cons, ih]
    by_cases hp : p.1 = k
    · have h1 : ¬ k = k' := fun h' => h h'.symm
      have h2 : ¬ p.1 = k' := by rw [hp]; exact h1
      rw [upd_same k v p hp]
      simp [h1, h2]
    · rw [upd_other k v p hp]

theorem alookup_map_same {β} (l : List (String × β)) (k : String) (v : β)
    (h : (l.any fun p => p.1 == k) = true) :
    alookup (l.map (upd k v)) k = some v := by
  induction l with
  | nil => simp at h
  | cons p t ih =>
    rw [List.map_cons, alookup_cons]
    by_cases hp : p.1 = k
    · rw [upd_same k v p hp]; simp
    · have hb : (p.1 == k) = false := by simp [hp]
      simp only [List.any_cons, hb, Bool.false_or] at h
      rw [upd_other k v p hp, if_neg hp, ih h]

theorem alookup_none_of_not_any {β} (l : List (String × β)) (k : String)
    (h : (l.any fun p => p.1 == k) = false) : alookup l k = none := by
  induction l with
  | nil => rfl
  | cons p t ih =>
    simp only [List.any_cons, Bool.or_eq_false_iff] at h
    have : ¬ p.1 = k := by simpa using h.1
    simp [alookup_cons, this, ih h.2]

theorem alookup_aset {β} (l : List (String × β)) (k : String) (v : β) (k' : String) :
    alookup (aset l k v) k' = if k' = k then some v else alookup l k' := by
  rw [aset_eq]
  by_cases hany : (l.any fun p => p.1 == k) = true
  · simp only [hany, if_true]
    by_cases h : k' = k
    · subst h; simp [alookup_map_same l k' v hany]
    · simp [h, alookup_map_other l k v k' h]
  · have hany0 : (l.any fun p => p.1 == k) = false := (Bool.not_eq_true _).mp hany
    rw [if_neg (by simp [hany0])]
    rw [alookup_append_single]
    by_cases h : k' = k
    · subst h; simp [alookup_none_of_not_any l k' hany0]
    · have h1 : ¬ k = k' := fun h' => h h'.symm
      simp only [h, h1, if_false]
      cases alookup l k' <;> rfl

theorem mem_aset {β} (l : List (String × β)) (k : String) (v : β) (p : String × β)
    (h : p ∈ aset l k v) : p ∈ l ∨ p = (k, v) := by
  rw [aset_eq] at h
  split at h
  · rw [List.mem_map] at h
    obtain ⟨q, hq, rfl⟩ := h
    by_cases hq1 : q.1 = k
    · exact .inr (upd_same k v q hq1)
    · rw [upd_other k v q hq1]; exact .inl hq
  · rw [List.mem_append] at h
    rcases h with h | h
    · exact .inl h
    · exact .inr (by simpa using h)

theorem lookup_eq_alookup (ts : TextSet) (n : String) : ts.lookup n = alookup ts n := by
  unfold TextSet.lookup alookup; cases List.find? (fun p => p.1 == n) ts <;> rfl
theorem set_eq_aset (ts : TextSet) (n : String) (t : Option Tree) : ts.set n t = aset ts n t := by
  unfold TextSet.set aset; rfl

theorem lookup_set (ts : TextSet) (n : String) (t : Option Tree) (m : String) :
    (ts.set n t).lookup m = if m = n then some t else ts.lookup m := by
  rw [lookup_eq_alookup, set_eq_aset, alookup_aset, lookup_eq_alookup]


/-! ### 1. the analysis never produces an edit (or a new derived tree) for a frozen name

`F` is any set of names that are all memoized in `e.output` ("frozen" names). -/

theorem bind_ok {α β} {x : Out α} {f : α → Out β} {r : β} (h : (x >>= f) = .ok r) :
    ∃ a, x = .ok a ∧ f a = .ok r := by
  cases x with
  | ok a => exact ⟨a, rfl, h⟩
  | panic w => cases h
  | fuel => cases h

structure Pre (F : String → Prop) (e : Esc) : Prop where
  out : ∀ n, F n → (alookup e.output n).isSome = true
  ae : ∀ p ∈ e.actionEdits, ¬ F p.1.1
  te : ∀ p ∈ e.tmplEdits, ¬ F p.1.1
  xe : ∀ p ∈ e.textEdits, ¬ F p.1.1

/-- what one analysis step guarantees: the result is again `Pre`, and every derived entry with a frozen name
    was there before -/
def Step (F : String → Prop) (e e' : Esc) : Prop :=
  Pre F e' ∧ ∀ p ∈ e'.derived, F p.1 → p ∈ e.derived

theorem Step.refl {F} {e : Esc} (h : Pre F e) : Step F e e := ⟨h, fun _ hp _ => hp⟩

theorem Step.trans {F} {e e1 e2 : Esc} (h1 : Step F e e1) (h2 : Step F e1 e2) : Step F e e2 :=
  ⟨h2.1, fun p hp hF => h1.2 p (h2.2 p hp hF) hF⟩

theorem isSome_aset {β} (l : List (String × β)) (k : String) (v : β) (n : String)
    (h : (alookup l n).isSome = true) : (alookup (aset l k v) n).isSome = true := by
  rw [alookup_aset]; split
  · rfl
  · exact h

theorem escapeAction_step {F} (env : Env) (tn : String) (e : Esc) (c : Ctx) (id : Nat) (p : Pipe) (r : Esc × Ctx)
    (hp : Pre F e) (htn : ¬ F tn) (h : escapeAction env tn e c id p = .ok r) : Step F e r.1 := by
  unfold escapeAction at h
  split at h
  · cases h; exact Step.refl hp
  · simp only [] at h
    split at h
    · cases h
    · cases h; exact Step.refl hp
    · split at h
      · cases h; exact Step.refl hp
      · split at h
        · cases h; exact Step.refl hp
        · obtain ⟨e1, h1, h2⟩ := bind_ok h
          cases h2
          unfold Esc.editAction at h1
          split at h1
          · cases h1
          · cases h1
            refine ⟨⟨hp.out, ?_, hp.te, hp.xe⟩, fun _ hq _ => hq⟩
            intro q hq
            simp only [List.mem_append, List.mem_singleton] at hq
            rcases hq with hq | rfl
            · exact hp.ae q hq
            · exact htn


theorem escapeTextNode_step {F} (env : Env) (tn : String) (e : Esc) (c : Ctx) (id : Nat) (b : Bytes) (r : Esc × Ctx)
    (hp : Pre F e) (htn : ¬ F tn) (h : escapeTextNode env tn e c id b = .ok r) : Step F e r.1 := by
  unfold escapeTextNode at h
  split at h
  · cases h
  · cases h; exact Step.refl hp
  · obtain ⟨e1, h1, h2⟩ := bind_ok h
    cases h2
    unfold Esc.editText at h1
    split at h1
    · cases h1
    · cases h1
      refine ⟨⟨hp.out, hp.ae, hp.te, ?_⟩, fun _ hq _ => hq⟩
      intro q hq
      simp only [List.mem_append, List.mem_singleton] at hq
      rcases hq with hq | rfl
      · exact hp.xe q hq
      · exact htn

theorem editTmpl_step {F} (tn : String) (e e1 : Esc) (id : Nat) (v : String)
    (hp : Pre F e) (htn : ¬ F tn) (h : e.editTmpl (tn, id) v = .ok e1) : Step F e e1 := by
  unfold Esc.editTmpl at h
  split at h
  · cases h
  · cases h
    refine ⟨⟨hp.out, hp.ae, ?_, hp.xe⟩, fun _ hq _ => hq⟩
    intro q hq
    simp only [List.mem_append, List.mem_singleton] at hq
    rcases hq with hq | rfl
    · exact hp.te q hq
    · exact htn

theorem mergeEdits_mem {β} (from_ : List (EditKey × β)) : ∀ (into r : List (EditKey × β)),
    mergeEdits into from_ = .ok r → ∀ p ∈ r, p ∈ into ∨ p ∈ from_ := by
  induction from_ with
  | nil => intro into r h p hp; cases h; exact .inl hp
  | cons q t ih =>
    intro into r h p hp
    unfold mergeEdits at h
    rw [List.foldlM_cons] at h
    obtain ⟨acc, h1, h2⟩ := bind_ok h
    split at h1
    · cases h1
    · cases h1
      rcases ih _ r h2 p hp with h3 | h3
      · simp only [List.mem_append, List.mem_singleton] at h3
        rcases h3 with h3 | rfl
        · exact .inl h3
        · exact .inr (List.mem_cons_self ..)
      · exact .inr (List.mem_cons_of_mem _ h3)

theorem isSome_foldl_aset {β} (l : List (String × β)) : ∀ (acc : List (String × β)) (n : String),
    (alookup acc n).isSome = true → (alookup (l.foldl (fun acc p => aset acc p.1 p.2) acc) n).isSome = true := by
  induction l with
  | nil => intro acc n h; exact h
  | cons q t ih => intro acc n h; exact ih _ n (isSome_aset acc q.1 q.2 n h)

theorem mem_foldl_aset {β} (l : List (String × β)) : ∀ (acc : List (String × β)) (p : String × β),
    p ∈ l.foldl (fun acc p => aset acc p.1 p.2) acc → p ∈ acc ∨ p ∈ l := by
  induction l with
  | nil => intro acc p h; exact .inl h
  | cons q t ih =>
    intro acc p h
    rcases ih _ p h with h1 | h1
    · rcases mem_aset acc q.1 q.2 p h1 with h2 | h2
      · exact .inl h2
      · exact .inr (by rw [h2]; exact List.mem_cons_self ..)
    · exact .inr (List.mem_cons_of_mem _ h1)

/-- the scratch escaper of `escapeTemplateBody` / the range re-entry check -/
theorem pre_scratch {F} (e : Esc) (hp : Pre F e) :
    Pre F { output := e.output, pristine := e.pristine, memoPrefix := e.memoPrefix } :=
  ⟨hp.out, fun _ h => (nomatch h), fun _ h => (nomatch h), fun _ h => (nomatch h)⟩


def NodeOK (F : String → Prop) (env : Env) (f : Nat) : Prop :=
  ∀ tn e c n r, Pre F e → ¬ F tn → escapeNode env f tn e c n = .ok r → Step F e r.1
def ListOK (F : String → Prop) (env : Env) (f : Nat) : Prop :=
  ∀ tn e c l r, Pre F e → ¬ F tn → escapeList env f tn e c l = .ok r → Step F e r.1
def BranchOK (F : String → Prop) (env : Env) (f : Nat) : Prop :=
  ∀ tn e c t el b r, Pre F e → ¬ F tn → escapeBranch env f tn e c t el b = .ok r → Step F e r.1
def TreeOK (F : String → Prop) (env : Env) (f : Nat) : Prop :=
  ∀ e c name r, Pre F e → escapeTree env f e c name = .ok r → Step F e r.1
def OutOK (F : String → Prop) (env : Env) (f : Nat) : Prop :=
  ∀ e c tname t r, Pre F e → ¬ F tname → computeOutCtx env f e c tname t = .ok r → Step F e r.1
def BodyOK (F : String → Prop) (env : Env) (f : Nat) : Prop :=
  ∀ e c tname t r, Pre F e → ¬ F tname → escapeTemplateBody env f e c tname t = .ok r → Step F e r.1

theorem node_succ {F env f} (hb : BranchOK F env f) (ht : TreeOK F env f) : NodeOK F env (f + 1) := by
  intro tn e c n r hp htn h
  cases n with
  | action id p => simp only [escapeNode] at h; exact escapeAction_step env tn e c id p r hp htn h
  | text id b => simp only [escapeNode] at h; exact escapeTextNode_step env tn e c id b r hp htn h
  | ifN id p t el => simp only [escapeNode] at h; exact hb _ _ _ _ _ _ _ hp htn h
  | withN id p t el => simp only [escapeNode] at h; exact hb _ _ _ _ _ _ _ hp htn h
  | rangeN id p t el => simp only [escapeNode] at h; exact hb _ _ _ _ _ _ _ hp htn h
  | tmpl id name p =>
    simp only [escapeNode] at h
    obtain ⟨⟨e1, c1, dname⟩, h1, h2⟩ := bind_ok h
    have s1 := ht _ _ _ _ hp h1
    simp only [] at h2 s1
    split at h2
    · obtain ⟨e2, h3, h4⟩ := bind_ok h2
      cases h4
      exact s1.trans (editTmpl_step tn e1 e2 id dname s1.1 htn h3)
    · cases h2; exact s1
  | brk id => simp only [escapeNode] at h; cases h; exact Step.refl hp
  | cont id => simp only [escapeNode] at h; cases h; exact Step.refl hp
  | comment id => simp only [escapeNode] at h; cases h; exact Step.refl hp


theorem list_succ {F env f} (hn : NodeOK F env f) (hl : ListOK F env f) : ListOK F env (f + 1) := by
  intro tn e c l r hp htn h
  cases l with
  | nil => simp only [escapeList] at h; cases h; exact Step.refl hp
  | cons n ns =>
    simp only [escapeList] at h
    obtain ⟨⟨e1, c1⟩, h1, h2⟩ := bind_ok h
    have s1 := hn _ _ _ _ _ hp htn h1
    exact s1.trans (hl _ _ _ _ _ s1.1 htn h2)

theorem branch_succ {F env f} (hl : ListOK F env f) : BranchOK F env (f + 1) := by
  intro tn e c t el b r hp htn h
  simp only [escapeBranch] at h
  obtain ⟨⟨e1, c0⟩, h1, h2⟩ := bind_ok h
  have s1 := hl _ _ _ _ _ hp htn h1
  simp only [] at h2 s1
  obtain ⟨j, _, h4⟩ := bind_ok h2
  split at h4
  · split at h4
    · cases h4; exact s1
    · obtain ⟨⟨e2, c2⟩, h5, h6⟩ := bind_ok h4
      cases h6
      exact s1.trans (hl _ _ _ _ (e2, c2) s1.1 htn h5)
  · obtain ⟨⟨e2, c2⟩, h5, h6⟩ := bind_ok h4
    cases h6
    exact s1.trans (hl _ _ _ _ (e2, c2) s1.1 htn h5)


theorem pre_setOutput {F} (e : Esc) (k : String) (v : Ctx) (hp : Pre F e) :
    Pre F { e with output := aset e.output k v } :=
  ⟨fun n hn => isSome_aset _ _ _ _ (hp.out n hn), hp.ae, hp.te, hp.xe⟩

theorem body_succ {F env f} (hl : ListOK F env f) : BodyOK F env (f + 1) := by
  intro e c tname t r hp htn h
  simp only [escapeTemplateBody] at h
  have hp0 := pre_setOutput e tname c hp
  split at h
  · cases h
  · rename_i tr
    obtain ⟨⟨e1, c1⟩, h1, h2⟩ := bind_ok h
    have s1 := hl _ _ _ _ _ (pre_scratch _ hp0) htn h1
    simp only [] at h2 s1
    split at h2
    · obtain ⟨ae, ha, h3⟩ := bind_ok h2
      obtain ⟨te, ht, h4⟩ := bind_ok h3
      obtain ⟨xe, hx, h5⟩ := bind_ok h4
      cases h5
      refine ⟨⟨?_, ?_, ?_, ?_⟩, ?_⟩
      · intro n hn
        exact isSome_foldl_aset _ _ _ (hp0.out n hn)
      · intro p hpm
        rcases mergeEdits_mem _ _ _ ha p hpm with h6 | h6
        · exact hp.ae p h6
        · exact s1.1.ae p h6
      · intro p hpm
        rcases mergeEdits_mem _ _ _ ht p hpm with h6 | h6
        · exact hp.te p h6
        · exact s1.1.te p h6
      · intro p hpm
        rcases mergeEdits_mem _ _ _ hx p hpm with h6 | h6
        · exact hp.xe p h6
        · exact s1.1.xe p h6
      · intro p hpm hF
        rcases mem_foldl_aset _ _ p hpm with h6 | h6
        · exact h6
        · exact absurd (s1.2 p h6 hF) (by simp)
    · cases h2
      exact ⟨⟨hp0.out, hp.ae, hp.te, hp.xe⟩, fun _ hq _ => hq⟩

theorem out_succ {F env f} (hb : BodyOK F env f) : OutOK F env (f + 1) := by
  intro e c tname t r hp htn h
  simp only [computeOutCtx] at h
  obtain ⟨⟨e1, c1, ok⟩, h1, h2⟩ := bind_ok h
  have s1 := hb _ _ _ _ _ hp htn h1
  simp only [] at h2 s1
  split at h2
  · cases h2
    exact s1.trans ⟨pre_setOutput _ _ _ s1.1, fun _ hq _ => hq⟩
  · obtain ⟨⟨e2, c2, ok2⟩, h3, h4⟩ := bind_ok h2
    have s2 := hb _ _ _ _ _ s1.1 htn h3
    simp only [] at h4 s2
    have s12 := s1.trans s2
    split at h4
    · cases h4; exact s12.trans ⟨pre_setOutput _ _ _ s12.1, fun _ hq _ => hq⟩
    · split at h4
      · cases h4; exact s12.trans ⟨pre_setOutput _ _ _ s12.1, fun _ hq _ => hq⟩
      · cases h4; exact s12.trans ⟨pre_setOutput _ _ _ s12.1, fun _ hq _ => hq⟩


theorem tree_succ {F env f} (ho : OutOK F env f) : TreeOK F env (f + 1) := by
  intro e c name r hp h
  simp only [escapeTree] at h
  split at h
  · cases h; exact Step.refl hp
  · skip
    split at h
    · cases h; exact ⟨⟨hp.out, hp.ae, hp.te, hp.xe⟩, fun _ hq _ => hq⟩
    · rename_i hnone
      have hnF : ¬ F (mangle c name) := by
        intro hF
        have := hp.out _ hF
        rw [hnone] at this
        cases this
      split at h
      · cases h; exact ⟨⟨hp.out, hp.ae, hp.te, hp.xe⟩, fun _ hq _ => hq⟩
      · cases h; exact ⟨⟨hp.out, hp.ae, hp.te, hp.xe⟩, fun _ hq _ => hq⟩
      · split at h
        · split at h
          · obtain ⟨⟨e1, c1⟩, h1, h2⟩ := bind_ok h
            cases h2
            have s := (fun hp' => ho _ _ _ _ (e1, c1) hp' hnF h1) ⟨hp.out, hp.ae, hp.te, hp.xe⟩
            exact ⟨s.1, s.2⟩
          · obtain ⟨⟨e1, c1⟩, h1, h2⟩ := bind_ok h
            cases h2
            have s := (fun hp' => ho _ _ _ _ (e1, c1) hp' hnF h1) ⟨hp.out, hp.ae, hp.te, hp.xe⟩
            refine ⟨s.1, fun p hq hF => ?_⟩
            rcases mem_aset _ _ _ p (s.2 p hq hF) with h3 | h3
            · exact h3
            · rw [h3] at hF; exact absurd hF hnF
        · obtain ⟨⟨e1, c1⟩, h1, h2⟩ := bind_ok h
          cases h2
          have s := (fun hp' => ho _ _ _ _ (e1, c1) hp' hnF h1) ⟨hp.out, hp.ae, hp.te, hp.xe⟩
          exact ⟨s.1, s.2⟩

/-- **Analysis invariant**: all six mutually recursive functions of the escaper keep `Pre F` and never add a
    derived tree with a frozen name. -/
theorem analysis_inv (F : String → Prop) (env : Env) : ∀ f,
    NodeOK F env f ∧ ListOK F env f ∧ BranchOK F env f ∧ TreeOK F env f ∧ OutOK F env f ∧ BodyOK F env f := by
  intro f
  induction f with
  | zero =>
    refine ⟨?_, ?_, ?_, ?_, ?_, ?_⟩
    · intro tn e c n r _ _ h; simp only [escapeNode] at h; cases h
    · intro tn e c l r _ _ h; simp only [escapeList] at h; cases h
    · intro tn e c t el b r _ _ h; simp only [escapeBranch] at h; cases h
    · intro e c name r _ h; simp only [escapeTree] at h; cases h
    · intro e c tname t r _ _ h; simp only [computeOutCtx] at h; cases h
    · intro e c tname t r _ _ h; simp only [escapeTemplateBody] at h; cases h
  | succ f ih =>
    obtain ⟨hn, hl, hb, ht, ho, hbd⟩ := ih
    exact ⟨node_succ hb ht, list_succ hn hl, branch_succ hl, tree_succ ho, out_succ hbd, body_succ hl⟩

theorem escapeTree_step {F : String → Prop} (env : Env) (f : Nat) (e : Esc) (c : Ctx) (name : String)
    (r : Esc × Ctx × String) (hp : Pre F e) (h : escapeTree env f e c name = .ok r) : Step F e r.1 :=
  (analysis_inv F env f).2.2.2.1 e c name r hp h


/-! ### 2. commit -/

/-- installing one derived tree (AddParseTree rule) -/
def installStep (ts : TextSet) (p : String × Tree) : TextSet :=
  match ts.lookup p.1 with
  | some (some _) => if p.2.root.isEmpty then ts else ts.set p.1 (some p.2)
  | _ => ts.set p.1 (some p.2)

/-- applying the pending edits to the tree called `n` -/
def editStep (e : Esc) (ts : TextSet) (n : String) : Out TextSet :=
  match ts.lookup n with
  | some (some tr) =>
    match NodeList.applyEdits n e tr.root with
    | some r => Out.ok (ts.set n (some { tr with root := r }))
    | none => Out.panic "index out of range: command without arguments"
  | _ => Out.ok ts

def editNames (e : Esc) : List String :=
  (e.actionEdits.map (·.1.1) ++ e.tmplEdits.map (·.1.1) ++ e.textEdits.map (·.1.1)).eraseDups

def relink (text2 : TextSet) (p : String × Tree) : String × Tree :=
  match text2.lookup p.1 with
  | some (some t) => (p.1, t)
  | _ => p

theorem commit_spec (text : TextSet) (e : Esc) (text2 : TextSet) (e' : Esc)
    (h : commit text e = .ok (text2, e')) :
    ∃ pr : List (String × Tree),
      (editNames e).foldlM (editStep { e with pristine := pr }) (e.derived.foldl installStep text) = .ok text2 ∧
      e' = { e with pristine := pr, derived := e.derived.map (relink text2), called := [], actionEdits := [],
                    tmplEdits := [], textEdits := [] } := by
  unfold commit at h
  simp only [] at h
  split at h
  · cases h
  · obtain ⟨t2, h1, h2⟩ := bind_ok h
    cases h2
    exact ⟨_, h1, rfl⟩


theorem installStep_lookup_other (ts : TextSet) (p : String × Tree) (n : String) (h : ¬ n = p.1) :
    (installStep ts p).lookup n = ts.lookup n := by
  unfold installStep
  split
  · split
    · rfl
    · rw [lookup_set, if_neg h]
  · rw [lookup_set, if_neg h]

theorem installStep_lookup_same (ts : TextSet) (p : String × Tree) (h : ts.lookup p.1 = some (some p.2)) :
    (installStep ts p).lookup p.1 = some (some p.2) := by
  unfold installStep
  split
  · split
    · exact h
    · rw [lookup_set, if_pos rfl]
  · rw [lookup_set, if_pos rfl]

/-- installing the derived trees keeps `lookup n` when every derived entry called `n` is the installed tree -/
theorem install_keeps (ds : List (String × Tree)) : ∀ (ts : TextSet) (n : String),
    (∀ p ∈ ds, p.1 = n → ts.lookup n = some (some p.2)) →
    (ds.foldl installStep ts).lookup n = ts.lookup n := by
  induction ds with
  | nil => intro ts n _; rfl
  | cons q t ih =>
    intro ts n h
    rw [List.foldl_cons]
    have hq : (installStep ts q).lookup n = ts.lookup n := by
      by_cases hn : n = q.1
      · subst hn
        have := h q (List.mem_cons_self ..) rfl
        rw [installStep_lookup_same ts q this, this]
      · exact installStep_lookup_other ts q n hn
    rw [ih (installStep ts q) n, hq]
    intro p hp hpn
    rw [hq]
    exact h p (List.mem_cons_of_mem _ hp) hpn

def IsTree (x : Option (Option Tree)) : Prop := ∃ t, x = some (some t)

theorem installStep_isTree_self (ts : TextSet) (p : String × Tree) : IsTree ((installStep ts p).lookup p.1) := by
  unfold installStep
  split
  · rename_i t ht
    split
    · exact ⟨t, ht⟩
    · rw [lookup_set, if_pos rfl]; exact ⟨_, rfl⟩
  · rw [lookup_set, if_pos rfl]; exact ⟨_, rfl⟩

theorem installStep_isTree_keep (ts : TextSet) (p : String × Tree) (n : String) (h : IsTree (ts.lookup n)) :
    IsTree ((installStep ts p).lookup n) := by
  by_cases hn : n = p.1
  · subst hn; exact installStep_isTree_self ts p
  · rw [installStep_lookup_other ts p n hn]; exact h

theorem install_isTree_keep (ds : List (String × Tree)) : ∀ (ts : TextSet) (n : String),
    IsTree (ts.lookup n) → IsTree ((ds.foldl installStep ts).lookup n) := by
  induction ds with
  | nil => intro ts n h; exact h
  | cons q t ih => intro ts n h; exact ih _ n (installStep_isTree_keep ts q n h)

theorem install_isTree (ds : List (String × Tree)) : ∀ (ts : TextSet), ∀ q ∈ ds,
    IsTree ((ds.foldl installStep ts).lookup q.1) := by
  induction ds with
  | nil => intro ts q hq; cases hq
  | cons d t ih =>
    intro ts q hq
    rw [List.foldl_cons]
    rcases List.mem_cons.mp hq with rfl | hq
    · exact install_isTree_keep t _ _ (installStep_isTree_self ts q)
    · exact ih _ q hq

theorem editStep_lookup_other (e : Esc) (ts ts' : TextSet) (n m : String) (h : editStep e ts n = .ok ts')
    (hm : ¬ m = n) : ts'.lookup m = ts.lookup m := by
  unfold editStep at h
  split at h
  · split at h
    · cases h; rw [lookup_set, if_neg hm]
    · cases h
  · cases h; rfl

theorem editStep_isTree_keep (e : Esc) (ts ts' : TextSet) (n m : String) (h : editStep e ts n = .ok ts')
    (ht : IsTree (ts.lookup m)) : IsTree (ts'.lookup m) := by
  by_cases hm : m = n
  · subst hm
    unfold editStep at h
    split at h
    · split at h
      · cases h; rw [lookup_set, if_pos rfl]; exact ⟨_, rfl⟩
      · cases h
    · cases h; exact ht
  · rw [editStep_lookup_other e ts ts' n m h hm]; exact ht

theorem edits_lookup_other (e : Esc) (names : List String) : ∀ (ts ts' : TextSet) (m : String),
    names.foldlM (editStep e) ts = .ok ts' → m ∉ names → ts'.lookup m = ts.lookup m := by
  induction names with
  | nil => intro ts ts' m h _; cases h; rfl
  | cons n t ih =>
    intro ts ts' m h hm
    rw [List.foldlM_cons] at h
    obtain ⟨ts1, h1, h2⟩ := bind_ok h
    rw [ih ts1 ts' m h2 (fun hc => hm (List.mem_cons_of_mem _ hc))]
    exact editStep_lookup_other e ts ts1 n m h1 (fun hc => hm (by rw [hc]; exact List.mem_cons_self ..))

theorem edits_isTree_keep (e : Esc) (names : List String) : ∀ (ts ts' : TextSet) (m : String),
    names.foldlM (editStep e) ts = .ok ts' → IsTree (ts.lookup m) → IsTree (ts'.lookup m) := by
  induction names with
  | nil => intro ts ts' m h ht; cases h; exact ht
  | cons n t ih =>
    intro ts ts' m h ht
    rw [List.foldlM_cons] at h
    obtain ⟨ts1, h1, h2⟩ := bind_ok h
    exact ih ts1 ts' m h2 (editStep_isTree_keep e ts ts1 n m h1 ht)


theorem mem_editNames (e : Esc) (n : String) (h : n ∈ editNames e) :
    (∃ p ∈ e.actionEdits, p.1.1 = n) ∨ (∃ p ∈ e.tmplEdits, p.1.1 = n) ∨ (∃ p ∈ e.textEdits, p.1.1 = n) := by
  unfold editNames at h
  rw [List.mem_eraseDups, List.mem_append, List.mem_append] at h
  rcases h with (h | h) | h
  · exact .inl (by simpa using h)
  · exact .inr (.inl (by simpa using h))
  · exact .inr (.inr (by simpa using h))

/-- **(a)** `commit` leaves `lookup n` unchanged when no pending edit names `n` and every derived entry called `n`
    is the installed tree. -/
theorem commit_keeps (text : TextSet) (e : Esc) (text2 : TextSet) (e' : Esc) (n : String)
    (h : commit text e = .ok (text2, e'))
    (hn : n ∉ editNames e)
    (hd : ∀ p ∈ e.derived, p.1 = n → text.lookup n = some (some p.2)) :
    text2.lookup n = text.lookup n := by
  obtain ⟨pr, h1, _⟩ := commit_spec text e text2 e' h
  rw [edits_lookup_other _ _ _ _ n h1 hn]
  exact install_keeps e.derived text n hd

/-- after a commit every derived entry IS the installed tree, and nothing is pending -/
theorem commit_post (text : TextSet) (e : Esc) (text2 : TextSet) (e' : Esc)
    (h : commit text e = .ok (text2, e')) :
    e'.output = e.output ∧ e'.actionEdits = [] ∧ e'.tmplEdits = [] ∧ e'.textEdits = [] ∧ e'.called = [] ∧
    ∀ p ∈ e'.derived, text2.lookup p.1 = some (some p.2) := by
  obtain ⟨pr, h1, rfl⟩ := commit_spec text e text2 e' h
  refine ⟨rfl, rfl, rfl, rfl, rfl, ?_⟩
  intro p hp
  simp only [List.mem_map] at hp
  obtain ⟨q, hq, rfl⟩ := hp
  obtain ⟨t, ht⟩ := edits_isTree_keep _ _ _ _ q.1 h1 (install_isTree e.derived text q hq)
  unfold relink
  rw [ht]
  exact ht

/-! ### 3. the invariant between critical sections -/

/-- `F` = a set of frozen names: all memoized, no pending edit names one of them, and every derived entry with a
    frozen name is the installed tree -/
structure Inv (F : String → Prop) (text : TextSet) (e : Esc) : Prop where
  pre : Pre F e
  der : ∀ p ∈ e.derived, F p.1 → text.lookup p.1 = some (some p.2)

/-- every state satisfies the invariant for the empty set of frozen names (e.g. a set nobody has executed yet) -/
theorem Inv.empty (text : TextSet) (e : Esc) : Inv (fun _ => False) text e :=
  ⟨⟨fun _ h => h.elim, fun _ _ h => h, fun _ _ h => h, fun _ _ h => h⟩, fun _ _ h => h.elim⟩

/-- the invariant is antitone in the frozen set -/
theorem Inv.mono {F G : String → Prop} {text e} (hi : Inv F text e) (hGF : ∀ n, G n → F n) : Inv G text e :=
  ⟨⟨fun n hn => hi.pre.out n (hGF n hn), fun p hp hG => hi.pre.ae p hp (hGF _ hG),
    fun p hp hG => hi.pre.te p hp (hGF _ hG), fun p hp hG => hi.pre.xe p hp (hGF _ hG)⟩,
   fun p hp hG => hi.der p hp (hGF _ hG)⟩

/-- the names memoized in the escaper -/
def Memo (e : Esc) (n : String) : Prop := (alookup e.output n).isSome = true

/-- the analysis (successful or not, whatever it leaves pending) keeps the invariant -/
theorem Inv.analysis {F text e} (hi : Inv F text e) (env : Env) (f : Nat) (c : Ctx) (name : String)
    (r : Esc × Ctx × String) (h : escapeTree env f e c name = .ok r) : Inv F text r.1 := by
  have s := escapeTree_step env f e c name r hi.pre h
  exact ⟨s.1, fun p hp hF => hi.der p (s.2 p hp hF) hF⟩

/-- a commit changes no frozen tree, keeps the invariant, and afterwards EVERY memoized name is frozen -/
theorem Inv.commit {F text e} (hi : Inv F text e) (text2 : TextSet) (e' : Esc)
    (h : commit text e = .ok (text2, e')) :
    (∀ n, F n → text2.lookup n = text.lookup n) ∧ Inv F text2 e' ∧ Inv (Memo e') text2 e' := by
  obtain ⟨ho, ha, ht, hx, _, hd⟩ := commit_post text e text2 e' h
  refine ⟨?_, ⟨⟨?_, ?_, ?_, ?_⟩, fun p hp _ => hd p hp⟩, ⟨⟨fun _ hn => hn, ?_, ?_, ?_⟩, fun p hp _ => hd p hp⟩⟩
  · intro n hF
    apply commit_keeps text e text2 e' n h
    · intro hmem
      rcases mem_editNames e n hmem with ⟨p, hp, rfl⟩ | ⟨p, hp, rfl⟩ | ⟨p, hp, rfl⟩
      · exact hi.pre.ae p hp hF
      · exact hi.pre.te p hp hF
      · exact hi.pre.xe p hp hF
    · intro p hp hpn
      subst hpn
      exact hi.der p hp hF
  · intro n hF; rw [ho]; exact hi.pre.out n hF
  all_goals (first | rw [ha] | rw [ht] | rw [hx]); intro p hp; cases hp


/-! ### 4. the API: one analysis under the mutex -/

theorem markFailed_ns (w : World) (n : Nat) (name : String) (e : Esc) (c : ErrCode) :
    (markFailed w n name e c).ns n = { w.ns n with esc := e } := by
  unfold markFailed
  simp only []
  split
  · split <;> simp [ns_setObj, ns_setNs_same]
  · simp [ns_setNs_same]

theorem markFailed_ns_other (w : World) (n : Nat) (name : String) (e : Esc) (c : ErrCode) (k : Nat) (hk : k ≠ n) :
    (markFailed w n name e c).ns k = w.ns k := by
  unfold markFailed
  simp only []
  split
  · split <;> simp [ns_setObj, ns_setNs_other _ _ _ _ hk]
  · simp [ns_setNs_other _ _ _ _ hk]

theorem markFailed_fuel (w : World) (n : Nat) (name : String) (e : Esc) (c : ErrCode) :
    (markFailed w n name e c).fuel = w.fuel := by
  unfold markFailed
  simp only []
  split
  · split <;> rfl
  · rfl

theorem markOk_ns (w : World) (n : Nat) (name : String) (t : TextSet) (e : Esc) :
    (markOk w n name t e).ns n = { w.ns n with esc := e, text := t } := by
  unfold markOk
  simp only []
  split
  · split <;> simp [ns_setObj, ns_setNs_same]
  · simp [ns_setNs_same]

theorem markOk_ns_other (w : World) (n : Nat) (name : String) (t : TextSet) (e : Esc) (k : Nat) (hk : k ≠ n) :
    (markOk w n name t e).ns k = w.ns k := by
  unfold markOk
  simp only []
  split
  · split <;> simp [ns_setObj, ns_setNs_other _ _ _ _ hk]
  · simp [ns_setNs_other _ _ _ _ hk]

theorem markOk_fuel (w : World) (n : Nat) (name : String) (t : TextSet) (e : Esc) :
    (markOk w n name t e).fuel = w.fuel := by
  unfold markOk
  simp only []
  split
  · split <;> rfl
  · rfl

/-- what `escapeTemplateTop` does, in terms of the escaper: an analysis from the stored escaper state, and on
    success one `commit` -/
theorem escapeTemplateTop_spec (w : World) (ns : Nat) (name : String) (w' : World) (r : Option ErrCode)
    (h : escapeTemplateTop w ns name = .inr (w', r)) :
    ∃ (env : Env) (e1 : Esc) (c : Ctx) (d : String),
      escapeTree env w.fuel (w.ns ns).esc {} name = .ok (e1, c, d) ∧
      w'.fuel = w.fuel ∧ (∀ k, k ≠ ns → w'.ns k = w.ns k) ∧
      ((∃ code, r = some code ∧ w'.ns ns = { w.ns ns with esc := e1 }) ∨
       (∃ text2 e2, r = none ∧ finalError c = none ∧ commit (w.ns ns).text e1 = .ok (text2, e2) ∧
          w'.ns ns = { w.ns ns with esc := e2, text := text2 })) := by
  unfold escapeTemplateTop at h
  simp only [] at h
  split at h
  · cases h
  · cases h
  · rename_i e1 c d hesc
    refine ⟨_, e1, c, d, hesc, ?_⟩
    split at h
    · rename_i code _
      simp only [Sum.inr.injEq, Prod.mk.injEq] at h
      obtain ⟨rfl, rfl⟩ := h
      exact ⟨markFailed_fuel .., fun k hk => markFailed_ns_other _ _ _ _ _ k hk,
        .inl ⟨code, rfl, markFailed_ns ..⟩⟩
    · rename_i hfin
      split at h
      · cases h
      · cases h
      · rename_i text2 e2 hc
        simp only [Sum.inr.injEq, Prod.mk.injEq] at h
        obtain ⟨rfl, rfl⟩ := h
        exact ⟨markOk_fuel .., fun k hk => markOk_ns_other _ _ _ _ _ k hk,
          .inr ⟨text2, e2, rfl, hfin, hc, markOk_ns ..⟩⟩

/-- the invariant of one name space -/
def NsInv (F : String → Prop) (n : NS) : Prop := Inv F n.text n.esc

/-- **(b)** a failed analysis commits nothing: the text set is untouched (whatever it leaves pending in the escaper) -/
theorem failed_keeps_text (w w' : World) (ns : Nat) (other : String) (code : ErrCode)
    (h : escapeTemplateTop w ns other = .inr (w', some code)) :
    (w'.ns ns).text = (w.ns ns).text ∧ w'.fuel = w.fuel := by
  obtain ⟨env, e1, c, d, _, hf, _, hr⟩ := escapeTemplateTop_spec w ns other w' _ h
  rcases hr with ⟨_, _, hns⟩ | ⟨_, _, hr, _, _⟩
  · rw [hns]; exact ⟨rfl, hf⟩
  · cases hr

/-- **(b')** hence a failed analysis changes no execution result, in any state -/
theorem failed_frozen (w w' : World) (ns : Nat) (other : String) (code : ErrCode) (o : TObj) (d : Value)
    (h : escapeTemplateTop w ns other = .inr (w', some code)) :
    textExecute w' o d = textExecute w o d := by
  obtain ⟨env, e1, c, dn, _, hf, hoth, hr⟩ := escapeTemplateTop_spec w ns other w' _ h
  apply SafeHtml.Props.C06.textExecute_congr _ _ _ _ _ hf
  by_cases hk : o.ns = ns
  · rw [hk]; exact (failed_keeps_text w w' ns other code h).1
  · rw [hoth _ hk]

/-- **Preservation.** One analysis (failed or successful) keeps the invariant for the same frozen set, changes no
    frozen tree, and after a successful one every memoized name is frozen. -/
theorem top_preserves (F : String → Prop) (w w' : World) (ns : Nat) (other : String) (r : Option ErrCode)
    (hi : NsInv F (w.ns ns)) (h : escapeTemplateTop w ns other = .inr (w', r)) :
    NsInv F (w'.ns ns) ∧ (∀ n, F n → (w'.ns ns).text.lookup n = (w.ns ns).text.lookup n) ∧
    (r = none → NsInv (Memo (w'.ns ns).esc) (w'.ns ns)) := by
  obtain ⟨env, e1, c, d, hesc, _, _, hr⟩ := escapeTemplateTop_spec w ns other w' r h
  have hi1 : Inv F (w.ns ns).text e1 := Inv.analysis hi env _ _ _ _ hesc
  rcases hr with ⟨code, rfl, hns⟩ | ⟨text2, e2, rfl, _, hc, hns⟩
  · rw [hns]
    exact ⟨hi1, fun _ _ => rfl, fun hc => by cases hc⟩
  · obtain ⟨h1, h2, h3⟩ := Inv.commit hi1 text2 e2 hc
    rw [hns]
    exact ⟨h2, h1, fun _ => h3⟩


/-! ### 5. execution reads the text set only through `lookup`, and only for the names it can reach -/

mutual
/-- every `{{template}}` node of the tree calls a name in `F` -/
def nodeCallsIn (F : String → Prop) : Node → Prop
  | .tmpl _ name _ => F name
  | .ifN _ _ t e => listCallsIn F t ∧ listCallsIn F e
  | .rangeN _ _ t e => listCallsIn F t ∧ listCallsIn F e
  | .withN _ _ t e => listCallsIn F t ∧ listCallsIn F e
  | .text _ _ => True
  | .action _ _ => True
  | .brk _ => True
  | .cont _ => True
  | .comment _ => True
def listCallsIn (F : String → Prop) : NodeList → Prop
  | .nil => True
  | .cons n ns => nodeCallsIn F n ∧ listCallsIn F ns
end

/-- `F` is closed under calls in `text`: the installed tree of every name in `F` calls only names in `F` -/
def Closed (F : String → Prop) (text : TextSet) : Prop :=
  ∀ n, F n → ∀ tr, text.lookup n = some (some tr) → listCallsIn F tr.root

def NodeCongr (F : String → Prop) (plain : Bool) (t1 t2 : TextSet) (f : Nat) : Prop :=
  ∀ depth dot root out n, nodeCallsIn F n →
    walkNode plain t1 depth f dot root out n = walkNode plain t2 depth f dot root out n
def ListCongr (F : String → Prop) (plain : Bool) (t1 t2 : TextSet) (f : Nat) : Prop :=
  ∀ depth dot root out l, listCallsIn F l →
    walkList plain t1 depth f dot root out l = walkList plain t2 depth f dot root out l
def RangeCongr (F : String → Prop) (plain : Bool) (t1 t2 : TextSet) (f : Nat) : Prop :=
  ∀ depth vs root out l, listCallsIn F l →
    walkRange plain t1 depth f vs root out l = walkRange plain t2 depth f vs root out l

theorem walkNode_succ {F plain t1 t2 f} (hag : ∀ n, F n → t1.lookup n = t2.lookup n) (hcl : Closed F t1)
    (hl : ListCongr F plain t1 t2 f) (hr : RangeCongr F plain t1 t2 f) : NodeCongr F plain t1 t2 (f + 1) := by
  intro depth dot root out n hc
  cases n with
  | text id b => simp only [walkNode]
  | action id p => simp only [walkNode]
  | brk id => simp only [walkNode]
  | cont id => simp only [walkNode]
  | comment id => simp only [walkNode]
  | ifN id p t e =>
    simp only [nodeCallsIn] at hc
    simp only [walkNode]
    cases evalPipe dot root p with
    | error er => rfl
    | ok v =>
      simp only []
      split
      · exact hl _ _ _ _ _ hc.1
      · exact hl _ _ _ _ _ hc.2
  | withN id p t e =>
    simp only [nodeCallsIn] at hc
    simp only [walkNode]
    cases evalPipe dot root p with
    | error er => rfl
    | ok v =>
      simp only []
      split
      · exact hl _ _ _ _ _ hc.1
      · exact hl _ _ _ _ _ hc.2
  | rangeN id p t e =>
    simp only [nodeCallsIn] at hc
    simp only [walkNode]
    cases evalPipe dot root p with
    | error er => rfl
    | ok v =>
      simp only []
      split
      · split
        · exact hl _ _ _ _ _ hc.2
        · exact hr _ _ _ _ _ hc.1
      · split
        · exact hl _ _ _ _ _ hc.2
        · exact hr _ _ _ _ _ hc.1
      · exact hl _ _ _ _ _ hc.2
      · exact hl _ _ _ _ _ hc.2
      · rfl
  | tmpl id name p =>
    simp only [nodeCallsIn] at hc
    simp only [walkNode]
    rw [← hag name hc]
    split
    · rename_i tr htr
      have hcl' := hcl name hc tr htr
      split
      · rfl
      · split
        · rfl
        · exact hl _ _ _ _ _ hcl'
    · rfl
    · rfl


theorem walkList_succ {F plain t1 t2 f} (hn : NodeCongr F plain t1 t2 f) (hl : ListCongr F plain t1 t2 f) :
    ListCongr F plain t1 t2 (f + 1) := by
  intro depth dot root out l hc
  cases l with
  | nil => simp only [walkList]
  | cons n ns =>
    simp only [listCallsIn] at hc
    simp only [walkList]
    rw [hn _ _ _ _ _ hc.1]
    split
    · rfl
    · exact hl _ _ _ _ _ hc.2

theorem walkRange_succ {F plain t1 t2 f} (hl : ListCongr F plain t1 t2 f) (hr : RangeCongr F plain t1 t2 f) :
    RangeCongr F plain t1 t2 (f + 1) := by
  intro depth vs root out l hc
  cases vs with
  | nil => simp only [walkRange]
  | cons v rest =>
    simp only [walkRange]
    rw [hl _ _ _ _ _ hc]
    split
    · rfl
    · exact hr _ _ _ _ _ hc

/-- **Execution congruence**: two text sets that agree (as `lookup`) on a call-closed set of names give the same
    execution for every tree that calls only names of that set. -/
theorem walk_congr (F : String → Prop) (plain : Bool) (t1 t2 : TextSet)
    (hag : ∀ n, F n → t1.lookup n = t2.lookup n) (hcl : Closed F t1) : ∀ f,
    NodeCongr F plain t1 t2 f ∧ ListCongr F plain t1 t2 f ∧ RangeCongr F plain t1 t2 f := by
  intro f
  induction f with
  | zero =>
    refine ⟨?_, ?_, ?_⟩
    · intro depth dot root out n _; simp only [walkNode]
    · intro depth dot root out l _; simp only [walkList]
    · intro depth vs root out l _; simp only [walkRange]
  | succ f ih =>
    obtain ⟨hn, hl, hr⟩ := ih
    exact ⟨walkNode_succ hag hcl hl hr, walkList_succ hn hl, walkRange_succ hl hr⟩

/-- `textExecute` of an object whose name lies in a call-closed set `F` depends only on the lookups of `F` -/
theorem textExecute_congr_on (F : String → Prop) (w1 w2 : World) (o : TObj) (d : Value)
    (hF : F o.name) (hcl : Closed F (w1.ns o.ns).text)
    (hag : ∀ n, F n → (w1.ns o.ns).text.lookup n = (w2.ns o.ns).text.lookup n) (hf : w1.fuel = w2.fuel) :
    textExecute w1 o d = textExecute w2 o d := by
  unfold textExecute
  simp only [← hag o.name hF, ← hf]
  split
  · rfl
  · rename_i tr htr
    have hc : listCallsIn F tr.root := by
      split at htr
      · rename_i hreg
        split at htr
        · rename_i t hl
          subst htr
          exact hcl o.name hF tr hl
        · cases htr
      · cases htr
    rw [(walk_congr F false _ _ hag hcl w1.fuel).2.1 _ _ _ _ _ hc]


/-! ### 6. the frozen property -/

theorem closed_of_agree {F : String → Prop} {t1 t2 : TextSet} (hcl : Closed F t1)
    (hag : ∀ n, F n → t2.lookup n = t1.lookup n) : Closed F t2 := by
  intro n hF tr htr
  rw [hag n hF] at htr
  exact hcl n hF tr htr

/-- an analysis in name space `ns` does not concern objects of other name spaces -/
theorem frozen_other_ns (w w' : World) (ns : Nat) (other : String) (r : Option ErrCode) (o : TObj) (d : Value)
    (hons : o.ns ≠ ns) (h : escapeTemplateTop w ns other = .inr (w', r)) :
    textExecute w' o d = textExecute w o d := by
  obtain ⟨env, e1, c, dn, _, hf, hoth, _⟩ := escapeTemplateTop_spec w ns other w' r h
  exact SafeHtml.Props.C06.textExecute_congr _ _ _ _ (by rw [hoth _ hons]) hf

/-- **(c) Frozen, one step.** Under the invariant for a call-closed frozen set `F` containing `o`'s name, one later
    analysis in the same set (successful or failed) changes neither what `o` executes nor the invariant nor the
    closedness. -/
theorem frozen_step (F : String → Prop) (w w' : World) (ns : Nat) (other : String) (r : Option ErrCode)
    (o : TObj) (d : Value)
    (hi : NsInv F (w.ns ns)) (hcl : Closed F (w.ns ns).text) (hons : o.ns = ns) (hF : F o.name)
    (h : escapeTemplateTop w ns other = .inr (w', r)) :
    textExecute w' o d = textExecute w o d ∧ NsInv F (w'.ns ns) ∧ Closed F (w'.ns ns).text := by
  obtain ⟨h1, h2, _⟩ := top_preserves F w w' ns other r hi h
  obtain ⟨_, _, _, _, _, hf, _, _⟩ := escapeTemplateTop_spec w ns other w' r h
  refine ⟨?_, h1, closed_of_agree hcl h2⟩
  subst hons
  exact (textExecute_congr_on F w w' o d hF hcl (fun n hn => (h2 n hn).symm) hf.symm).symm

/-- the critical sections of a sequence of Execute calls on the set `ns` (a panic / out-of-fuel outcome leaves the
    world as it was, as in `apiExecute`) -/
def analyses (ns : Nat) : World → List String → World
  | w, [] => w
  | w, n :: t =>
    match escapeTemplateTop w ns n with
    | .inr (w', _) => analyses ns w' t
    | .inl _ => analyses ns w t

/-- **(c) Frozen, any number of later analyses** (failed ones included, in any order). -/
theorem frozen_many (F : String → Prop) (ns : Nat) (o : TObj) (d : Value) (hons : o.ns = ns) (hF : F o.name) :
    ∀ (others : List String) (w : World), NsInv F (w.ns ns) → Closed F (w.ns ns).text →
      textExecute (analyses ns w others) o d = textExecute w o d := by
  intro others
  induction others with
  | nil => intro w _ _; rfl
  | cons n t ih =>
    intro w hi hcl
    unfold analyses
    split
    · rename_i w' r heq
      obtain ⟨h1, h2, h3⟩ := frozen_step F w w' ns n r o d hi hcl hons hF heq
      rw [ih w' h2 h3, h1]
    · exact ih w hi hcl

/-- the three facts that the later critical sections must preserve for an analysed object `o` -/
def Settled (F : String → Prop) (w : World) (o : TObj) : Prop :=
  NsInv F (w.ns o.ns) ∧ Closed F (w.ns o.ns).text ∧ F o.name

/-- one analysis in ANY name space keeps `o` settled and its execution result -/
theorem frozen_step_any (F : String → Prop) (w w' : World) (ns : Nat) (other : String) (r : Option ErrCode)
    (o : TObj) (hs : Settled F w o) (h : escapeTemplateTop w ns other = .inr (w', r)) :
    Settled F w' o ∧ ∀ d, textExecute w' o d = textExecute w o d := by
  by_cases hk : o.ns = ns
  · refine ⟨?_, fun d => (frozen_step F w w' ns other r o d (hk ▸ hs.1) (hk ▸ hs.2.1) hk hs.2.2 h).1⟩
    obtain ⟨_, h2, h3⟩ := frozen_step F w w' ns other r o .nil (hk ▸ hs.1) (hk ▸ hs.2.1) hk hs.2.2 h
    subst hk
    exact ⟨h2, h3, hs.2.2⟩
  · obtain ⟨_, _, _, _, _, _, hoth, _⟩ := escapeTemplateTop_spec w ns other w' r h
    refine ⟨?_, fun d => frozen_other_ns w w' ns other r o d hk h⟩
    unfold Settled
    rw [hoth _ hk]
    exact hs

/-- setting the `escaped` flag of a name space touches neither text sets nor escapers -/
theorem settled_setEscaped (F : String → Prop) (w : World) (k : Nat) (o : TObj) (hs : Settled F w o) :
    Settled F (w.setNs k { w.ns k with escaped := true }) o ∧
    ∀ d, textExecute (w.setNs k { w.ns k with escaped := true }) o d = textExecute w o d := by
  have key : ((w.setNs k { w.ns k with escaped := true }).ns o.ns).text = (w.ns o.ns).text ∧
      ((w.setNs k { w.ns k with escaped := true }).ns o.ns).esc = (w.ns o.ns).esc := by
    by_cases hk : o.ns = k
    · rw [hk, ns_setNs_same]; exact ⟨rfl, rfl⟩
    · rw [ns_setNs_other _ _ _ _ hk]; exact ⟨rfl, rfl⟩
  refine ⟨?_, fun d => SafeHtml.Props.C06.textExecute_congr _ _ _ _ key.1 rfl⟩
  unfold Settled NsInv
  rw [key.1, key.2]
  exact hs

/-- **Stability under `Execute`.** The whole critical section of `t.Execute` on ANY handle of ANY set (set the
    `escaped` flag; analyse if needed; commit or mark failed) keeps an analysed object settled and leaves its execution
    result unchanged — this is `Stable.post_stable` of `Model/Conc` for the API model, under `Settled`. -/
theorem apiExecute_frozen (F : String → Prop) (w : World) (h : Nat) (data : Value) (o : TObj)
    (hs : Settled F w o) :
    Settled F (apiExecute w h data).1 o ∧ ∀ d, textExecute (apiExecute w h data).1 o d = textExecute w o d := by
  unfold apiExecute
  split
  · exact ⟨hs, fun _ => rfl⟩
  · rename_i oid oh _
    have h1 := settled_setEscaped F w oh.ns o hs
    simp only []
    split
    · exact h1
    · exact h1
    · split
      · exact h1
      · split
        · exact h1
        · rename_i w' code heq
          obtain ⟨h2, h3⟩ := frozen_step_any F _ w' oh.ns oh.name _ o h1.1 heq
          exact ⟨h2, fun d => (h3 d).trans (h1.2 d)⟩
        · rename_i w' heq
          obtain ⟨h2, h3⟩ := frozen_step_any F _ w' oh.ns oh.name _ o h1.1 heq
          split
          · exact ⟨h2, fun d => (h3 d).trans (h1.2 d)⟩
          · exact ⟨h2, fun d => (h3 d).trans (h1.2 d)⟩

/-- the same for `t.ExecuteTemplate(name)` -/
theorem apiExecuteTemplate_frozen (F : String → Prop) (w : World) (h : Nat) (name : String) (data : Value) (o : TObj)
    (hs : Settled F w o) :
    Settled F (apiExecuteTemplate w h name data).1 o ∧
    ∀ d, textExecute (apiExecuteTemplate w h name data).1 o d = textExecute w o d := by
  unfold apiExecuteTemplate
  split
  · exact ⟨hs, fun _ => rfl⟩
  · rename_i oid oh _
    have h1 := settled_setEscaped F w oh.ns o hs
    simp only []
    repeat' first
      | exact h1
      | exact (match frozen_step_any F _ _ oh.ns name _ o h1.1
            ‹escapeTemplateTop _ oh.ns name = Sum.inr (_, _)› with
          | ⟨h2, h3⟩ => ⟨h2, fun d => (h3 d).trans (h1.2 d)⟩)
      | split

/-! ### 7. where the frozen set comes from: the template's own successful analysis

After ANY successful analysis — from an arbitrary state, no reachability assumption — the invariant holds with
`F` = all memoized names (`top_preserves` with `Inv.empty`), and the analysed name is memoized. -/

theorem mangle_text (name : String) : mangle {} name = name := by
  unfold mangle; rfl

theorem computeOutCtx_memo (env : Env) (f : Nat) (e : Esc) (c : Ctx) (tname : String) (t : Option Tree)
    (r : Esc × Ctx) (h : computeOutCtx env f e c tname t = .ok r) : Memo r.1 tname := by
  cases f with
  | zero => simp only [computeOutCtx] at h; cases h
  | succ f =>
    simp only [computeOutCtx] at h
    obtain ⟨⟨e1, c1, ok⟩, _, h2⟩ := bind_ok h
    simp only [] at h2
    have key : ∀ (e : Esc) (v : Ctx), Memo { e with output := aset e.output tname v } tname := by
      intro e v; unfold Memo; rw [alookup_aset, if_pos rfl]; rfl
    split at h2
    · cases h2; exact key _ _
    · obtain ⟨⟨e2, c2, ok2⟩, _, h4⟩ := bind_ok h2
      simp only [] at h4
      split at h4
      · cases h4; exact key _ _
      · split at h4
        · cases h4; exact key _ _
        · cases h4; exact key _ _

/-- a top-level analysis that does not end in an error context memoizes the analysed name -/
theorem escapeTree_memo (env : Env) (f : Nat) (e : Esc) (name : String) (r : Esc × Ctx × String)
    (h : escapeTree env f e {} name = .ok r) (hne : r.2.1.err = none) : Memo r.1 name := by
  cases f with
  | zero => simp only [escapeTree] at h; cases h
  | succ f =>
    simp only [escapeTree, mangle_text, show (State.text == State.error) = false from rfl,
      Bool.false_eq_true, if_false] at h
    split at h
    · rename_i out hout
      cases h
      unfold Memo; simp only []; rw [hout]; rfl
    · split at h
      · cases h; cases hne
      · cases h; cases hne
      · simp only [bne_self_eq_false, Bool.false_eq_true, if_false] at h
        obtain ⟨⟨e1, c1⟩, h1, h2⟩ := bind_ok h
        cases h2
        exact computeOutCtx_memo _ _ _ _ _ _ _ h1


theorem finalError_none (c : Ctx) (h : finalError c = none) : c.err = none := by
  unfold finalError at h
  split at h
  · rename_i hs; rw [h] at hs; cases hs
  · cases hc : c.err with
    | none => rfl
    | some x => rename_i hs; rw [hc] at hs; exact absurd rfl hs

/-- **Establishment.** From an ARBITRARY world, a successful analysis of `name` leaves the name space in a state
    that satisfies the invariant with every memoized name frozen, and `name` itself is memoized. -/
theorem own_analysis_establishes (w w' : World) (ns : Nat) (name : String)
    (h : escapeTemplateTop w ns name = .inr (w', none)) :
    NsInv (Memo (w'.ns ns).esc) (w'.ns ns) ∧ Memo (w'.ns ns).esc name := by
  refine ⟨(top_preserves _ w w' ns name none (Inv.empty _ _) h).2.2 rfl, ?_⟩
  obtain ⟨env, e1, c, d, hesc, _, _, hr⟩ := escapeTemplateTop_spec w ns name w' none h
  rcases hr with ⟨code, hc, _⟩ | ⟨text2, e2, _, hfin, hc, hns⟩
  · cases hc
  · have hm := escapeTree_memo env _ _ name _ hesc (finalError_none c hfin)
    rw [hns]
    unfold Memo at hm ⊢
    simp only [] at hm ⊢
    rw [(commit_post _ _ _ _ hc).1]
    exact hm

/-- **C09 frozen, as far as proved.** Let `o` be analysed successfully (from any state whatsoever), and let `G` be a
    set of names memoized at that moment that contains `o`'s name and is closed under `{{template}}` calls in the
    committed text set (e.g. the names reachable from `o`). Then no sequence of later analyses in the same set —
    successful, failed, with whatever a failed analysis leaves pending — changes what `o` executes. -/
theorem C09_frozen_after_own_analysis (G : String → Prop) (w0 w1 : World) (ns : Nat) (o : TObj) (d : Value)
    (hons : o.ns = ns) (h : escapeTemplateTop w0 ns o.name = .inr (w1, none))
    (hG : ∀ n, G n → Memo (w1.ns ns).esc n) (hGo : G o.name)
    (hcl : Closed G (w1.ns ns).text) (others : List String) :
    textExecute (analyses ns w1 others) o d = textExecute w1 o d := by
  obtain ⟨hi, _⟩ := own_analysis_establishes w0 w1 ns o.name h
  exact frozen_many G ns o d hons hGo others w1 (Inv.mono hi hG) hcl

/-- the statement of `Props/C09.lean` holds for every world satisfying the invariant for some call-closed frozen set
    containing the object's name (the hypotheses `status = ok`, `registered` are not needed) -/
theorem C09_frozen_under_inv (F : String → Prop) (w w' : World) (ns : Nat) (other : String) (o : TObj) (d : Value)
    (hi : NsInv F (w.ns ns)) (hcl : Closed F (w.ns ns).text) (hF : F o.name)
    (hons : o.ns = ns) (h : escapeTemplateTop w ns other = .inr (w', none)) :
    textExecute w' o d = textExecute w o d :=
  (frozen_step F w w' ns other none o d hi hcl hons hF h).1

/-! ### 8. a checker for the closedness hypothesis -/

mutual
def nodeCallsB (names : List String) : Node → Bool
  | .tmpl _ name _ => names.contains name
  | .ifN _ _ t e => listCallsB names t && listCallsB names e
  | .rangeN _ _ t e => listCallsB names t && listCallsB names e
  | .withN _ _ t e => listCallsB names t && listCallsB names e
  | .text _ _ => true
  | .action _ _ => true
  | .brk _ => true
  | .cont _ => true
  | .comment _ => true
def listCallsB (names : List String) : NodeList → Bool
  | .nil => true
  | .cons n ns => nodeCallsB names n && listCallsB names ns
end

mutual
theorem nodeCallsB_sound (names : List String) : ∀ n, nodeCallsB names n = true → nodeCallsIn (· ∈ names) n
  | .tmpl _ name _, h => by simp only [nodeCallsB, List.contains_iff_mem] at h; simpa only [nodeCallsIn] using h
  | .ifN _ _ t e, h => by
    simp only [nodeCallsB, Bool.and_eq_true] at h
    simp only [nodeCallsIn]; exact ⟨listCallsB_sound names t h.1, listCallsB_sound names e h.2⟩
  | .rangeN _ _ t e, h => by
    simp only [nodeCallsB, Bool.and_eq_true] at h
    simp only [nodeCallsIn]; exact ⟨listCallsB_sound names t h.1, listCallsB_sound names e h.2⟩
  | .withN _ _ t e, h => by
    simp only [nodeCallsB, Bool.and_eq_true] at h
    simp only [nodeCallsIn]; exact ⟨listCallsB_sound names t h.1, listCallsB_sound names e h.2⟩
  | .text _ _, _ => by simp only [nodeCallsIn]
  | .action _ _, _ => by simp only [nodeCallsIn]
  | .brk _, _ => by simp only [nodeCallsIn]
  | .cont _, _ => by simp only [nodeCallsIn]
  | .comment _, _ => by simp only [nodeCallsIn]
theorem listCallsB_sound (names : List String) : ∀ l, listCallsB names l = true → listCallsIn (· ∈ names) l
  | .nil, _ => by simp only [listCallsIn]
  | .cons n ns, h => by
    simp only [listCallsB, Bool.and_eq_true] at h
    simp only [listCallsIn]; exact ⟨nodeCallsB_sound names n h.1, listCallsB_sound names ns h.2⟩
end

/-- executable check of the hypotheses of `C09_frozen_after_own_analysis` for a finite set of names: all are
    memoized, and their installed trees call only names of the set -/
def closedOnB (names : List String) (n : NS) : Bool :=
  names.all fun m => (alookup n.esc.output m).isSome && match n.text.lookup m with
    | some (some tr) => listCallsB names tr.root
    | _ => true

theorem closedOnB_sound (names : List String) (n : NS) (h : closedOnB names n = true) :
    (∀ m, m ∈ names → Memo n.esc m) ∧ Closed (· ∈ names) n.text := by
  unfold closedOnB at h
  simp only [List.all_eq_true, Bool.and_eq_true] at h
  refine ⟨fun m hm => (h m hm).1, ?_⟩
  intro m hm tr htr
  have := (h m hm).2
  rw [htr] at this
  exact listCallsB_sound _ _ this

mutual
def nodeCalls : Node → List String
  | .tmpl _ name _ => [name]
  | .ifN _ _ t e => listCalls t ++ listCalls e
  | .rangeN _ _ t e => listCalls t ++ listCalls e
  | .withN _ _ t e => listCalls t ++ listCalls e
  | _ => []
def listCalls : NodeList → List String
  | .nil => []
  | .cons n ns => nodeCalls n ++ listCalls ns
end

/-- the names reachable from `names` through `{{template}}` calls (fuel = number of rounds) -/
def reach (text : TextSet) : Nat → List String → List String
  | 0, names => names
  | f+1, names =>
    let more := names.flatMap fun m => match text.lookup m with
      | some (some tr) => listCalls tr.root
      | _ => []
    let names' := (names ++ more).eraseDups
    if names'.length == names.length then names else reach text f names'

/-- executable form of the hypotheses for object name `name`: the names reachable from it are memoized and closed -/
def frozenHypB (n : NS) (name : String) : Bool := closedOnB (reach n.text 64 [name]) n

mutual
theorem nodeCallsIn_mono {F G : String → Prop} (hFG : ∀ n, F n → G n) : ∀ n, nodeCallsIn F n → nodeCallsIn G n
  | .tmpl _ name _, h => by simp only [nodeCallsIn] at h ⊢; exact hFG _ h
  | .ifN _ _ t e, h => by
    simp only [nodeCallsIn] at h ⊢; exact ⟨listCallsIn_mono hFG t h.1, listCallsIn_mono hFG e h.2⟩
  | .rangeN _ _ t e, h => by
    simp only [nodeCallsIn] at h ⊢; exact ⟨listCallsIn_mono hFG t h.1, listCallsIn_mono hFG e h.2⟩
  | .withN _ _ t e, h => by
    simp only [nodeCallsIn] at h ⊢; exact ⟨listCallsIn_mono hFG t h.1, listCallsIn_mono hFG e h.2⟩
  | .text _ _, _ => by simp only [nodeCallsIn]
  | .action _ _, _ => by simp only [nodeCallsIn]
  | .brk _, _ => by simp only [nodeCallsIn]
  | .cont _, _ => by simp only [nodeCallsIn]
  | .comment _, _ => by simp only [nodeCallsIn]
theorem listCallsIn_mono {F G : String → Prop} (hFG : ∀ n, F n → G n) : ∀ l, listCallsIn F l → listCallsIn G l
  | .nil, _ => by simp only [listCallsIn]
  | .cons n ns, h => by
    simp only [listCallsIn] at h ⊢; exact ⟨nodeCallsIn_mono hFG n h.1, listCallsIn_mono hFG ns h.2⟩
end


/-- the same with the hypotheses in executable form: `names` is any list containing `o`'s name for which the check
    `closedOnB` succeeds in the state right after `o`'s own analysis (e.g. `reach text 64 [o.name]`) -/
theorem C09_frozen_checked (names : List String) (w0 w1 : World) (ns : Nat) (o : TObj) (d : Value)
    (hons : o.ns = ns) (h : escapeTemplateTop w0 ns o.name = .inr (w1, none))
    (hmem : o.name ∈ names) (hchk : closedOnB names (w1.ns ns) = true) (others : List String) :
    textExecute (analyses ns w1 others) o d = textExecute w1 o d := by
  obtain ⟨h1, h2⟩ := closedOnB_sound names (w1.ns ns) hchk
  exact C09_frozen_after_own_analysis (· ∈ names) w0 w1 ns o d hons h h1 hmem h2 others

/-! #### non-vacuity: the hypotheses hold in an ordinary history

`h` is used in element content by `A` and in an attribute by `B`; `bad` ends inside an attribute (its failed analysis
leaves pending edits in the escaper). After `A`'s own analysis the reachable names `A`, `h$htmltemplate_…P` are
memoized and closed, so nothing that happens later — `bad`, `B`, `h` on its own, in any order, any number of times —
changes what `A` executes. -/
namespace Demo

def xPipe : Pipe := { cmds := [{ args := [.field ["X"]] }] }
def dotPipe : Pipe := { cmds := [{ args := [.dot] }] }

def defs : List Tree :=
  [ { name := "root", root := .cons (.text 0 (B "root")) .nil },
    { name := "h", root := .cons (.text 0 (B "<i>")) (.cons (.action 1 xPipe) (.cons (.text 2 (B "</i>")) .nil)) },
    { name := "A", root := .cons (.text 0 (B "<p>")) (.cons (.tmpl 1 "h" (some dotPipe))
        (.cons (.text 2 (B "</p>")) .nil)) },
    { name := "B", root := .cons (.text 0 (B "<a title=\"")) (.cons (.tmpl 1 "h" (some dotPipe))
        (.cons (.text 2 (B "\">x</a>")) .nil)) },
    { name := "bad", root := .cons (.tmpl 0 "h" (some dotPipe)) (.cons (.text 1 (B "<a title=\"")) .nil) } ]

def w0 : World := Api.run { v := liteValidators, fuel := 60 } [ .new 0 "root", .parse 0 defs ]

def names : List String := ["A", "h$htmltemplate_StateText_elementP"]

def check : Bool :=
  match escapeTemplateTop w0 0 "A" with
  | .inr (w1, none) => closedOnB names (w1.ns 0) && reach (w1.ns 0).text 64 ["A"] == names
  | _ => false

theorem check_true : check = true := by decide +kernel

theorem A_frozen : ∃ w1, escapeTemplateTop w0 0 "A" = .inr (w1, none) ∧
    ∀ (o : TObj) (d : Value) (others : List String), o.ns = 0 → o.name = "A" →
      textExecute (analyses 0 w1 others) o d = textExecute w1 o d := by
  have hc := check_true
  unfold check at hc
  split at hc
  · rename_i w1 heq
    simp only [Bool.and_eq_true] at hc
    refine ⟨w1, heq, ?_⟩
    intro o d others hns hname
    apply C09_frozen_checked names w0 w1 0 o d hns (by rw [hname]; exact heq) (by rw [hname]; decide) hc.1
  · cases hc

end Demo

/-! ### 9. the literal statement, and the witness that was repaired

`C09_frozen_statement` quantifies over ALL worlds, also over states no history can reach. It is false for such a
state (an escaper that holds a derived tree `N` that was never installed, next to an analysed template that calls
`N`): `C09_frozen_statement_false`. The property that holds is the one with a reachability hypothesis, see section 10.

The former REACHABLE witness (library before commit d3401ea: a user-defined template called
`x$htmltemplate_StateError` swallowed the error of a call to an undefined template) is rejected now: `escapeTree`
returns an error context unchanged, before the memo lookup (`Old.rejected`). -/
namespace Old

def dotPipe : Pipe := { cmds := [{ args := [.dot] }] }
def hAttr : String := "h$htmltemplate_StateAttr_DelimDoubleQuote_attrTitle_elementA"
def xErr : String := "x$htmltemplate_StateError"

def defs : List Tree :=
  [ { name := "root", root := .cons (.text 0 (B "root")) .nil },
    { name := xErr, root := .cons (.text 0 (B "hello")) .nil },
    { name := "h", root := .cons (.action 0 dotPipe) .nil },
    { name := "o", root := .cons (.text 0 (B "A")) (.cons (.tmpl 1 hAttr (some dotPipe))
        (.cons (.text 2 (B "B")) (.cons (.tmpl 3 "x" none) (.cons (.text 4 (B "C")) .nil)))) },
    { name := "other", root := .cons (.text 0 (B "<a title=\"")) (.cons (.tmpl 1 "h" (some dotPipe))
        (.cons (.text 2 (B "\">x</a>")) .nil)) } ]

def w : World := Api.run { v := liteValidators, fuel := 60 } [ .new 0 "root", .parse 0 defs, .execT 0 xErr .noValue ]

/-- the template that calls an undefined template is refused again -/
theorem rejected : (Api.step w (.execT 0 "o" (.str [97]))).2.str = "err:analysis:ErrNoSuchTemplate -" := by
  decide +kernel

end Old

namespace Unreachable

/-- a hand-made name space: `o` (marked analysed) calls `N`; `N` exists only as a never-installed derived tree -/
def w : World :=
  { v := liteValidators, fuel := 60, next := 3,
    objs := [(1, { ns := 0, name := "o", status := .ok, treeNil := false, registered := true }),
             (2, { ns := 0, name := "other", treeNil := false, registered := true })],
    nss := [(0, { set := [("o", 1), ("other", 2)], escaped := true,
                  text := [("o", some { name := "o", root := .cons (.text 0 (B "A")) (.cons (.tmpl 1 "N" none) .nil) }),
                           ("other", some { name := "other", root := .cons (.text 0 (B "x")) .nil })],
                  esc := { derived := [("N", { name := "N", root := .cons (.text 0 (B "n")) .nil })] } })] }

def o : TObj := { ns := 0, name := "o", status := .ok, treeNil := false, registered := true }

def check : Bool :=
  match escapeTemplateTop w 0 "other" with
  | .inr (w', none) => (textExecute w' o .noValue).str != (textExecute w o .noValue).str
  | _ => false

theorem check_true : check = true := by decide +kernel

end Unreachable

/-- the statement of `Props/C09.lean`, read literally (all worlds), is false — for an UNREACHABLE state -/
theorem C09_frozen_statement_false : ¬ SafeHtml.Props.C09.C09_frozen_statement := by
  intro hst
  have hc := Unreachable.check_true
  unfold Unreachable.check at hc
  split at hc
  · rename_i w' heq
    have := hst Unreachable.w w' 0 "other" Unreachable.o .noValue rfl rfl rfl heq
    rw [this] at hc
    simp at hc
  · cases hc

/-! ## 10. closedness after the object's own analysis -/

/-! ### 10a. error contexts -/

def IsErr (c : Ctx) : Prop := ∃ code, c = Ctx.errorCtx code
def ErrWF (c : Ctx) : Prop := c.state = .error → IsErr c

theorem IsErr.state {c : Ctx} (h : IsErr c) : c.state = .error := by
  obtain ⟨code, rfl⟩ := h; rfl
theorem IsErr.wf {c : Ctx} (h : IsErr c) : ErrWF c := fun _ => h
theorem errwf_errorCtx (code : ErrCode) : ErrWF (Ctx.errorCtx code) := fun _ => ⟨code, rfl⟩
theorem errwf_of_ne {c : Ctx} (h : c.state ≠ .error) : ErrWF c := fun h' => absurd h' h

theorem tTextGo_errwf (c : Ctx) (hc : c.state ≠ .error) : ∀ f off s, ErrWF (tTextGo c f off s).1 := by
  intro f
  induction f with
  | zero => intro off s; simp only [tTextGo]; exact errwf_of_ne hc
  | succ f ih =>
    intro off s
    simp only [tTextGo]
    repeat' split
    all_goals first
      | exact errwf_of_ne hc
      | exact ih _ _
      | exact errwf_of_ne (by simp)

theorem transition_errwf (c : Ctx) (s : Bytes) (hc : ErrWF c) : ErrWF (transition c s).1 := by
  unfold transition
  split
  · rename_i h; exact tTextGo_errwf c (by rw [h]; simp) _ _ _
  · rename_i h
    unfold tSpecialTagEnd
    repeat' split
    all_goals first
      | exact errwf_of_ne (by rw [h]; simp)
      | exact errwf_of_ne (by simp)
  · rename_i h
    unfold tTag
    simp only []
    repeat' split
    all_goals first
      | exact errwf_errorCtx _
      | exact errwf_of_ne (by rw [h]; simp)
      | exact errwf_of_ne (by simp)
      | (apply errwf_of_ne; simp; split <;> simp)
  · rename_i h
    unfold tAttrName
    repeat' split
    all_goals first
      | exact errwf_errorCtx _
      | exact errwf_of_ne (by rw [h]; simp)
      | exact errwf_of_ne (by simp)
  · rename_i h
    unfold tAfterName
    simp only []
    repeat' split
    all_goals first
      | exact errwf_of_ne (by rw [h]; simp)
      | exact errwf_of_ne (by simp)
  · rename_i h
    unfold tBeforeValue
    simp only []
    repeat' split
    all_goals first
      | exact errwf_of_ne (by rw [h]; simp)
      | exact errwf_of_ne (by simp)
  · rename_i h
    unfold tHTMLCmt
    repeat' split
    all_goals first
      | exact errwf_of_ne (by rw [h]; simp)
      | exact errwf_of_ne (by simp)
  · rename_i h; exact errwf_of_ne (by unfold tAttr; rw [h]; simp)
  · exact hc


theorem feedLoop_errwf : ∀ f c u, ErrWF c → ErrWF (feedLoop f c u) := by
  intro f
  induction f with
  | zero => intro c u h; simpa only [feedLoop] using h
  | succ f ih =>
    intro c u h
    simp only [feedLoop]
    split
    · exact h
    · exact ih _ _ (transition_errwf c u h)

theorem errorCtx_transition (code : ErrCode) (s : Bytes) :
    (transition (Ctx.errorCtx code) s).1 = Ctx.errorCtx code := rfl

theorem notSpecial_nil : memKey Generated.Policy.specialElements ([] : Bytes) = false := by decide +kernel

theorem contextAfterText_isErr (c : Ctx) (s : Bytes) (h : IsErr c) : (contextAfterText c s).1 = c := by
  obtain ⟨code, rfl⟩ := h
  unfold contextAfterText
  have hd : ((Ctx.errorCtx code).delim == Delim.none) = true := rfl
  simp only [hd, if_true]
  have hs : tSpecialTagEnd (Ctx.errorCtx code) s = (Ctx.errorCtx code, s.length) := by
    unfold tSpecialTagEnd
    have : (Ctx.errorCtx code).elemName = [] := rfl
    rw [this, notSpecial_nil]; rfl
  rw [hs]
  simp only []
  split
  · rfl
  · exact errorCtx_transition code _

theorem contextAfterText_errwf (c : Ctx) (s : Bytes) (h : ErrWF c) : ErrWF (contextAfterText c s).1 := by
  by_cases he : c.state = .error
  · rw [contextAfterText_isErr c s (h he)]; exact h
  · unfold contextAfterText
    split
    · simp only []
      split
      · unfold tSpecialTagEnd
        repeat' split
        all_goals first
          | exact errwf_of_ne he
          | exact errwf_of_ne (by simp)
      · exact transition_errwf c _ h
    · simp only []
      split
      · exact errwf_errorCtx _
      · split
        · apply feedLoop_errwf
          exact errwf_of_ne he
        · apply errwf_of_ne
          repeat' split
          all_goals simp


def LoopPost (c : Ctx) : Option ETState ⊕ ETResult → Prop
  | .inl (some st') => ErrWF st'.c ∧ (IsErr c → IsErr st'.c)
  | .inl none => True
  | .inr (.done c' _) => IsErr c'
  | .inr .panic => True

theorem escapeTextLoop_post (csp : Bool) (s : Bytes) : ∀ f st, ErrWF st.c →
    LoopPost st.c (escapeTextLoop csp s f st) := by
  intro f
  induction f with
  | zero => intro st _; simp only [escapeTextLoop, LoopPost]
  | succ f ih =>
    intro st hwf
    simp only [escapeTextLoop]
    split
    · exact ⟨hwf, fun h => h⟩
    · split
      · exact ⟨_, rfl⟩
      · split
        · exact ⟨_, rfl⟩
        · split
          · trivial
          · have h1 := contextAfterText_errwf st.c (s.drop st.i) hwf
            have key : ∀ st2 : ETState, st2.c = (contextAfterText st.c (s.drop st.i)).1 →
                LoopPost st.c (escapeTextLoop csp s f st2) := by
              intro st2 hc2
              have hr := ih st2 (hc2 ▸ h1)
              revert hr
              generalize escapeTextLoop csp s f st2 = r
              intro hr
              cases r with
              | inl o =>
                cases o with
                | none => trivial
                | some st' =>
                  refine ⟨hr.1, fun he => hr.2 ?_⟩
                  rw [hc2, contextAfterText_isErr _ _ he]; exact he
              | inr r =>
                cases r with
                | done c' _ => exact hr
                | panic => trivial
            exact key _ rfl

theorem escapeText_post (csp : Bool) (c : Ctx) (s : Bytes) (c' : Ctx) (nt : Option Bytes)
    (h : escapeText csp c s = .done c' nt) (hwf : ErrWF c) : ErrWF c' ∧ (IsErr c → IsErr c') := by
  unfold escapeText at h
  split at h
  · cases h; exact ⟨errwf_errorCtx _, fun _ => ⟨_, rfl⟩⟩
  · have hp := escapeTextLoop_post csp s (2 * s.length + 2) { c := c, i := 0, written := 0, b := [] } hwf
    split at h
    · rename_i r heq
      rw [heq] at hp
      subst h
      exact ⟨hp.wf, fun _ => hp⟩
    · cases h
    · rename_i st heq
      rw [heq] at hp
      split at h <;> (cases h; exact hp)


theorem nudge_isErr (c : Ctx) (h : IsErr c) : nudge c = c := by
  obtain ⟨code, rfl⟩ := h; rfl

theorem nudge_errwf (c : Ctx) (h : ErrWF c) : ErrWF (nudge c) := by
  unfold nudge
  split
  · exact errwf_of_ne (by simp)
  · exact errwf_of_ne (by simp)
  · exact errwf_of_ne (by simp)
  · exact h

theorem join_isErr (a b : Ctx) (h : IsErr a) : join a b = a := by
  unfold join joinCore
  have : (a.state == State.error) = true := by rw [h.state]; rfl
  rw [if_pos this]

theorem errwf_ite {p : Prop} [Decidable p] {x y : Ctx} (hx : ErrWF x) (hy : ErrWF y) :
    ErrWF (if p then x else y) := by
  split
  · exact hx
  · exact hy

theorem errwf_guard (e fb : Ctx) (hfb : ErrWF fb) : ErrWF (if e.state != .error then e else fb) := by
  split
  · rename_i h; exact errwf_of_ne (by simpa using h)
  · exact hfb

theorem join_errwf (a b : Ctx) (ha : ErrWF a) (hb : ErrWF b) : ErrWF (join a b) := by
  unfold join joinCore
  by_cases h1 : (a.state == State.error) = true
  · rw [if_pos h1]; exact ha
  · rw [if_neg h1]
    by_cases h2 : (b.state == State.error) = true
    · rw [if_pos h2]; exact hb
    · rw [if_neg h2]
      have hna : a.state ≠ .error := by simpa using h1
      refine errwf_ite (errwf_of_ne ?_) ?_
      · exact hna
      refine errwf_ite (errwf_of_ne ?_) ?_
      · exact hna
      refine errwf_ite (errwf_of_ne ?_) ?_
      · exact hna
      refine errwf_ite ?_ (errwf_errorCtx _)
      exact errwf_guard _ _ (errwf_errorCtx _)

/-! ### 10b. association lists whose keys determine the values -/

def Same {β} (l : List (String × β)) : Prop := ∀ p ∈ l, ∀ q ∈ l, p.1 = q.1 → p.2 = q.2

theorem same_nil {β} : Same ([] : List (String × β)) := fun _ h => nomatch h

theorem mem_of_alookup {β} (l : List (String × β)) (k : String) (v : β) (h : alookup l k = some v) : (k, v) ∈ l := by
  induction l with
  | nil => cases h
  | cons p t ih =>
    rw [alookup_cons] at h
    split at h
    · rename_i hp
      cases h
      rw [← hp]; exact List.mem_cons_self ..
    · exact List.mem_cons_of_mem _ (ih h)

theorem alookup_isSome_of_mem {β} (l : List (String × β)) (p : String × β) (h : p ∈ l) :
    (alookup l p.1).isSome = true := by
  induction l with
  | nil => cases h
  | cons q t ih =>
    rw [alookup_cons]
    split
    · rfl
    · rcases List.mem_cons.mp h with rfl | h
      · rename_i hq; exact absurd rfl hq
      · exact ih h

theorem alookup_of_mem {β} (l : List (String × β)) (hs : Same l) (p : String × β) (h : p ∈ l) :
    alookup l p.1 = some p.2 := by
  have h1 := alookup_isSome_of_mem l p h
  cases h2 : alookup l p.1 with
  | none => rw [h2] at h1; cases h1
  | some v =>
    have := hs _ (mem_of_alookup l p.1 v h2) p h rfl
    simp only [] at this
    rw [this]

theorem mem_aset_strong {β} (l : List (String × β)) (k : String) (v : β) (p : String × β)
    (h : p ∈ aset l k v) : (p ∈ l ∧ p.1 ≠ k) ∨ p = (k, v) := by
  rw [aset_eq] at h
  split at h
  · rw [List.mem_map] at h
    obtain ⟨q, hq, rfl⟩ := h
    by_cases hq1 : q.1 = k
    · exact .inr (upd_same k v q hq1)
    · rw [upd_other k v q hq1]; exact .inl ⟨hq, hq1⟩
  · rename_i hany
    rw [List.mem_append] at h
    rcases h with h | h
    · refine .inl ⟨h, fun hk => hany ?_⟩
      rw [List.any_eq_true]
      exact ⟨p, h, by simp [hk]⟩
    · exact .inr (by simpa using h)

theorem self_mem_aset {β} (l : List (String × β)) (k : String) (v : β) : (k, v) ∈ aset l k v :=
  mem_of_alookup _ _ _ (by rw [alookup_aset, if_pos rfl])

theorem same_aset {β} (l : List (String × β)) (k : String) (v : β) (h : Same l) : Same (aset l k v) := by
  intro p hp q hq hpq
  rcases mem_aset_strong l k v p hp with ⟨hp1, hp2⟩ | rfl
  · rcases mem_aset_strong l k v q hq with ⟨hq1, _⟩ | rfl
    · exact h p hp1 q hq1 hpq
    · exact absurd hpq hp2
  · rcases mem_aset_strong l k v q hq with ⟨_, hq2⟩ | rfl
    · exact absurd hpq.symm hq2
    · rfl

theorem same_foldl_aset {β} (l : List (String × β)) : ∀ acc : List (String × β), Same acc →
    Same (l.foldl (fun acc p => aset acc p.1 p.2) acc) := by
  induction l with
  | nil => intro acc h; exact h
  | cons q t ih => intro acc h; exact ih _ (same_aset acc q.1 q.2 h)

theorem alookup_foldl_aset_other {β} (l : List (String × β)) (n : String) : ∀ acc : List (String × β),
    (∀ p ∈ l, p.1 ≠ n) → alookup (l.foldl (fun acc p => aset acc p.1 p.2) acc) n = alookup acc n := by
  induction l with
  | nil => intro acc _; rfl
  | cons q t ih =>
    intro acc h
    rw [List.foldl_cons, ih _ (fun p hp => h p (List.mem_cons_of_mem _ hp)), alookup_aset,
      if_neg (fun hn => h q (List.mem_cons_self ..) hn.symm)]

theorem alookup_foldl_aset_mem {β} (l : List (String × β)) (n : String) (v : β) : ∀ acc : List (String × β),
    Same l → (n, v) ∈ l → alookup (l.foldl (fun acc p => aset acc p.1 p.2) acc) n = some v := by
  induction l with
  | nil => intro acc _ h; cases h
  | cons q t ih =>
    intro acc hs hm
    rw [List.foldl_cons]
    have hst : Same t := fun p hp r hr => hs p (List.mem_cons_of_mem _ hp) r (List.mem_cons_of_mem _ hr)
    by_cases hex : ∃ p ∈ t, p.1 = n
    · obtain ⟨p, hp, hpn⟩ := hex
      have hv : p.2 = v := hs p (List.mem_cons_of_mem _ hp) (n, v) hm hpn
      have : (n, v) ∈ t := by
        have : p = (n, v) := by cases p; simp only [] at hpn hv; rw [hpn, hv]
        rw [← this]; exact hp
      exact ih _ hst this
    · have hno : ∀ p ∈ t, p.1 ≠ n := fun p hp hpn => hex ⟨p, hp, hpn⟩
      rw [alookup_foldl_aset_other t n _ hno]
      rcases List.mem_cons.mp hm with h | h
      · rw [← h, alookup_aset, if_pos rfl]
      · exact absurd rfl (hno _ h)

/-! ### 10c. coverage: every `{{template}}` node of an analysed tree will call a memoized name after the commit -/

mutual
def nodeAll (Q : Nat → String → Prop) : Node → Prop
  | .tmpl id name _ => Q id name
  | .ifN _ _ t e => listAll Q t ∧ listAll Q e
  | .rangeN _ _ t e => listAll Q t ∧ listAll Q e
  | .withN _ _ t e => listAll Q t ∧ listAll Q e
  | .text _ _ => True
  | .action _ _ => True
  | .brk _ => True
  | .cont _ => True
  | .comment _ => True
def listAll (Q : Nat → String → Prop) : NodeList → Prop
  | .nil => True
  | .cons n ns => nodeAll Q n ∧ listAll Q ns
end

mutual
theorem nodeAll_mono {Q R : Nat → String → Prop} (h : ∀ i n, Q i n → R i n) : ∀ n, nodeAll Q n → nodeAll R n
  | .tmpl _ _ _, hq => by simp only [nodeAll] at hq ⊢; exact h _ _ hq
  | .ifN _ _ t e, hq => by simp only [nodeAll] at hq ⊢; exact ⟨listAll_mono h t hq.1, listAll_mono h e hq.2⟩
  | .rangeN _ _ t e, hq => by simp only [nodeAll] at hq ⊢; exact ⟨listAll_mono h t hq.1, listAll_mono h e hq.2⟩
  | .withN _ _ t e, hq => by simp only [nodeAll] at hq ⊢; exact ⟨listAll_mono h t hq.1, listAll_mono h e hq.2⟩
  | .text _ _, _ => by simp only [nodeAll]
  | .action _ _, _ => by simp only [nodeAll]
  | .brk _, _ => by simp only [nodeAll]
  | .cont _, _ => by simp only [nodeAll]
  | .comment _, _ => by simp only [nodeAll]
theorem listAll_mono {Q R : Nat → String → Prop} (h : ∀ i n, Q i n → R i n) : ∀ l, listAll Q l → listAll R l
  | .nil, _ => by simp only [listAll]
  | .cons n ns, hq => by simp only [listAll] at hq ⊢; exact ⟨nodeAll_mono h n hq.1, listAll_mono h ns hq.2⟩
end

mutual
theorem nodeAll_callsIn {F : String → Prop} : ∀ n, nodeAll (fun _ m => F m) n → nodeCallsIn F n
  | .tmpl _ _ _, hq => by simp only [nodeAll] at hq; simp only [nodeCallsIn]; exact hq
  | .ifN _ _ t e, hq => by
    simp only [nodeAll] at hq; simp only [nodeCallsIn]; exact ⟨listAll_callsIn t hq.1, listAll_callsIn e hq.2⟩
  | .rangeN _ _ t e, hq => by
    simp only [nodeAll] at hq; simp only [nodeCallsIn]; exact ⟨listAll_callsIn t hq.1, listAll_callsIn e hq.2⟩
  | .withN _ _ t e, hq => by
    simp only [nodeAll] at hq; simp only [nodeCallsIn]; exact ⟨listAll_callsIn t hq.1, listAll_callsIn e hq.2⟩
  | .text _ _, _ => by simp only [nodeCallsIn]
  | .action _ _, _ => by simp only [nodeCallsIn]
  | .brk _, _ => by simp only [nodeCallsIn]
  | .cont _, _ => by simp only [nodeCallsIn]
  | .comment _, _ => by simp only [nodeCallsIn]
theorem listAll_callsIn {F : String → Prop} : ∀ l, listAll (fun _ m => F m) l → listCallsIn F l
  | .nil, _ => by simp only [listCallsIn]
  | .cons n ns, hq => by
    simp only [listAll] at hq; simp only [listCallsIn]; exact ⟨nodeAll_callsIn n hq.1, listAll_callsIn ns hq.2⟩
end

/-- memoized with a context that is not the error context -/
def MemoOk (e : Esc) (n : String) : Prop := ∃ c, alookup e.output n = some c ∧ c.state ≠ .error
def HasEdit (e : Esc) (tn : String) (id : Nat) : Prop := ∃ q ∈ e.tmplEdits, q.1 = (tn, id)
/-- after the commit, node `id` of template `tn` (now calling `name`) calls a memoized name -/
def Cov (e : Esc) (tn : String) (id : Nat) (name : String) : Prop := HasEdit e tn id ∨ MemoOk e name
def EditsOk (e : Esc) (tn : String) : Prop := ∀ q ∈ e.tmplEdits, q.1.1 = tn → MemoOk e q.2
/-- the trees a commit may install under the name `n` -/
def TreeOf (text : TextSet) (e : Esc) (n : String) (tr : Tree) : Prop :=
  text.lookup n = some (some tr) ∨ (n, tr) ∈ e.derived
def Covered (text : TextSet) (e : Esc) (n : String) : Prop :=
  EditsOk e n ∧ ∀ tr, TreeOf text e n tr → listAll (Cov e n) tr.root

/-- structural facts about the escaper state -/
def Base (text : TextSet) (e : Esc) : Prop :=
  Same e.output ∧ Same e.derived ∧
  (∀ p ∈ e.derived, text.lookup p.1 = none ∨ text.lookup p.1 = some (some p.2)) ∧
  (∀ n c, alookup e.output n = some c → ErrWF c) ∧
  (∀ q ∈ e.tmplEdits, Memo e q.1.1)
def DM (e : Esc) : Prop := ∀ p ∈ e.derived, Memo e p.1
def DMx (tn : String) (e : Esc) : Prop := ∀ p ∈ e.derived, p.1 ≠ tn → Memo e p.1
/-- every name memoized with a good context, outside the base set `M0`, is covered -/
def Rel (text : TextSet) (M0 : String → Prop) (e : Esc) : Prop :=
  ∀ n, MemoOk e n → ¬ M0 n → Covered text e n

def Ext (e e' : Esc) : Prop :=
  (∀ n v, alookup e.output n = some v → alookup e'.output n = some v) ∧ (∀ q ∈ e.tmplEdits, q ∈ e'.tmplEdits)
def NewD (e e' : Esc) : Prop := ∀ p ∈ e'.derived, Memo e p.1 → p ∈ e.derived
def NewE (S : String → Prop) (e e' : Esc) : Prop :=
  ∀ q ∈ e'.tmplEdits, q ∈ e.tmplEdits ∨ S q.1.1 ∨ ¬ Memo e q.1.1
def Stp (S : String → Prop) (e e' : Esc) : Prop := Ext e e' ∧ NewD e e' ∧ NewE S e e'

theorem MemoOk.memo {e : Esc} {n : String} (h : MemoOk e n) : Memo e n := by
  obtain ⟨c, hc, _⟩ := h; unfold Memo; rw [hc]; rfl

theorem Ext.memo {e e' : Esc} (h : Ext e e') {n : String} (hm : Memo e n) : Memo e' n := by
  unfold Memo at hm ⊢
  cases hv : alookup e.output n with
  | none => rw [hv] at hm; cases hm
  | some v => rw [h.1 n v hv]; rfl

theorem Ext.memoOk {e e' : Esc} (h : Ext e e') {n : String} (hm : MemoOk e n) : MemoOk e' n := by
  obtain ⟨c, hc, hne⟩ := hm; exact ⟨c, h.1 n c hc, hne⟩

theorem Ext.memoOk_back {e e' : Esc} (h : Ext e e') {n : String} (hm : Memo e n) (hok : MemoOk e' n) : MemoOk e n := by
  unfold Memo at hm
  cases hv : alookup e.output n with
  | none => rw [hv] at hm; cases hm
  | some v =>
    obtain ⟨c, hc, hne⟩ := hok
    rw [h.1 n v hv] at hc
    cases hc
    exact ⟨v, hv, hne⟩

theorem Stp.refl (S : String → Prop) (e : Esc) : Stp S e e :=
  ⟨⟨fun _ _ h => h, fun _ h => h⟩, fun _ h _ => h, fun _ h => .inl h⟩

theorem Stp.trans {S : String → Prop} {e e1 e2 : Esc} (h1 : Stp S e e1) (h2 : Stp S e1 e2) : Stp S e e2 := by
  refine ⟨⟨fun n v h => h2.1.1 n v (h1.1.1 n v h), fun q h => h2.1.2 q (h1.1.2 q h)⟩, ?_, ?_⟩
  · intro p hp hm
    exact h1.2.1 p (h2.2.1 p hp (h1.1.memo hm)) hm
  · intro q hq
    rcases h2.2.2 q hq with h | h | h
    · exact h1.2.2 q h
    · exact .inr (.inl h)
    · exact .inr (.inr (fun hm => h (h1.1.memo hm)))

theorem Stp.weaken {S S' : String → Prop} {e e' : Esc} (h : Stp S e e') (hs : ∀ n, S n → S' n) : Stp S' e e' :=
  ⟨h.1, h.2.1, fun q hq => by
    rcases h.2.2 q hq with h | h | h
    · exact .inl h
    · exact .inr (.inl (hs _ h))
    · exact .inr (.inr h)⟩

theorem cov_mono {e e' : Esc} (hx : Ext e e') (tn : String) : ∀ i n, Cov e tn i n → Cov e' tn i n := by
  intro i n h
  rcases h with ⟨q, hq, hk⟩ | h
  · exact .inl ⟨q, hx.2 q hq, hk⟩
  · exact .inr (hx.memoOk h)

/-- a name memoized before the step, not one of `S`, stays covered -/
theorem covered_transfer {text : TextSet} {S : String → Prop} {e e' : Esc} {n : String}
    (hc : Covered text e n) (hs : Stp S e e') (hm : Memo e n) (hnS : ¬ S n) : Covered text e' n := by
  refine ⟨?_, ?_⟩
  · intro q hq hk
    rcases hs.2.2 q hq with h | h | h
    · exact hs.1.memoOk (hc.1 q h hk)
    · rw [hk] at h; exact absurd h hnS
    · rw [hk] at h; exact absurd hm h
  · intro tr ht
    have : TreeOf text e n tr := by
      rcases ht with ht | ht
      · exact .inl ht
      · exact .inr (hs.2.1 _ ht hm)
    exact listAll_mono (cov_mono hs.1 n) _ (hc.2 tr this)

theorem rel_step {text : TextSet} {M0 S : String → Prop} {e e' : Esc}
    (hr : Rel text M0 e) (hs : Stp S e e') (hS : ∀ n, S n → M0 n)
    (hnew : ∀ n, ¬ Memo e n → MemoOk e' n → ¬ M0 n → Covered text e' n) : Rel text M0 e' := by
  intro n hok hn0
  by_cases hm : Memo e n
  · exact covered_transfer (hr n (hs.1.memoOk_back hm hok) hn0) hs hm (fun h => hn0 (hS n h))
  · exact hnew n hm hok hn0


def Pre2 (text : TextSet) (M0 : String → Prop) (e : Esc) : Prop :=
  Base text e ∧ DM e ∧ Rel text M0 e ∧ ∀ n, M0 n → Memo e n
def Post2 (text : TextSet) (M0 S : String → Prop) (e e' : Esc) : Prop := Pre2 text M0 e' ∧ Stp S e e'

/-- the three fields everything here depends on -/
def CoreEq (e e' : Esc) : Prop := e'.output = e.output ∧ e'.tmplEdits = e.tmplEdits ∧ e'.derived = e.derived

theorem CoreEq.of_eq {e e' : Esc} (h : CoreEq e e') :
    ∃ (a : List String) (b : List (EditKey × List String)) (c : List (EditKey × Bytes)) (d : List (String × Tree))
      (m : List (String × Bytes × Bool)) (p : Bool),
      e' = { e with called := a, actionEdits := b, textEdits := c, pristine := d, memoPrefix := m, prefixReuse := p } := by
  obtain ⟨h1, h2, h3⟩ := h
  refine ⟨e'.called, e'.actionEdits, e'.textEdits, e'.pristine, e'.memoPrefix, e'.prefixReuse, ?_⟩
  cases e'; cases e
  simp only [] at h1 h2 h3
  subst h1 h2 h3
  rfl

theorem pre2_core {text : TextSet} {M0 : String → Prop} {e e' : Esc} (h : CoreEq e e') (hp : Pre2 text M0 e) :
    Pre2 text M0 e' := by
  obtain ⟨a, b, c, d, m, p, rfl⟩ := h.of_eq
  exact hp

theorem stp_core {S : String → Prop} {e e' : Esc} (h : CoreEq e e') : Stp S e e' := by
  obtain ⟨a, b, c, d, m, p, rfl⟩ := h.of_eq
  exact Stp.refl S e

theorem editsOk_core {e e' : Esc} (h : CoreEq e e') (tn : String) (hp : EditsOk e tn) : EditsOk e' tn := by
  obtain ⟨a, b, c, d, m, p, rfl⟩ := h.of_eq
  exact hp

theorem post2_core {text : TextSet} {M0 S : String → Prop} {e e' : Esc} (h : CoreEq e e') (hp : Pre2 text M0 e) :
    Post2 text M0 S e e' := ⟨pre2_core h hp, stp_core h⟩

theorem escapeAction_core (env : Env) (tn : String) (e : Esc) (c : Ctx) (id : Nat) (p : Pipe) (r : Esc × Ctx)
    (h : escapeAction env tn e c id p = .ok r) (hc : ErrWF c) :
    CoreEq e r.1 ∧ ErrWF r.2 ∧ (c.state = .error → r.2.state = .error) := by
  unfold escapeAction at h
  split at h
  · cases h; exact ⟨⟨rfl, rfl, rfl⟩, hc, fun h => h⟩
  · simp only [] at h
    split at h
    · cases h
    · cases h; exact ⟨⟨rfl, rfl, rfl⟩, errwf_errorCtx _, fun _ => rfl⟩
    · split at h
      · rename_i hs
        cases h
        refine ⟨⟨rfl, rfl, rfl⟩, nudge_errwf c hc, fun _ => ?_⟩
        simpa using hs
      · rename_i hs
        have hne : (nudge c).state ≠ .error := by simpa using hs
        have hcne : c.state ≠ .error := by
          intro he
          rw [nudge_isErr c (hc he)] at hne
          exact hne he
        split at h
        · cases h; exact ⟨⟨rfl, rfl, rfl⟩, errwf_errorCtx _, fun _ => rfl⟩
        · obtain ⟨e1, h1, h2⟩ := bind_ok h
          cases h2
          unfold Esc.editAction at h1
          split at h1
          · cases h1
          · cases h1
            refine ⟨⟨rfl, rfl, rfl⟩, ?_, fun he => absurd he hcne⟩
            split
            · exact errwf_of_ne (by simp)
            · exact nudge_errwf c hc

theorem escapeTextNode_core (env : Env) (tn : String) (e : Esc) (c : Ctx) (id : Nat) (b : Bytes) (r : Esc × Ctx)
    (h : escapeTextNode env tn e c id b = .ok r) (hc : ErrWF c) :
    CoreEq e r.1 ∧ ErrWF r.2 ∧ (c.state = .error → r.2.state = .error) := by
  unfold escapeTextNode at h
  split at h
  · cases h
  · rename_i c' heq
    cases h
    obtain ⟨h1, h2⟩ := escapeText_post _ _ _ _ _ heq hc
    exact ⟨⟨rfl, rfl, rfl⟩, h1, fun he => (h2 (hc he)).state⟩
  · rename_i c' nb heq
    obtain ⟨e1, h3, h4⟩ := bind_ok h
    cases h4
    obtain ⟨h1, h2⟩ := escapeText_post _ _ _ _ _ heq hc
    unfold Esc.editText at h3
    split at h3
    · cases h3
    · cases h3
      exact ⟨⟨rfl, rfl, rfl⟩, h1, fun he => (h2 (hc he)).state⟩


def NoS : String → Prop := fun _ => False

def NodeSpec (env : Env) (f : Nat) : Prop :=
  ∀ (M0 : String → Prop) tn e c n r, Pre2 env.text M0 e → M0 tn → ErrWF c → escapeNode env f tn e c n = .ok r →
    Post2 env.text M0 (· = tn) e r.1 ∧ ErrWF r.2 ∧ (c.state = .error → r.2.state = .error) ∧
    (r.2.state ≠ .error → EditsOk e tn → EditsOk r.1 tn ∧ nodeAll (Cov r.1 tn) n)
def ListSpec (env : Env) (f : Nat) : Prop :=
  ∀ (M0 : String → Prop) tn e c l r, Pre2 env.text M0 e → M0 tn → ErrWF c → escapeList env f tn e c l = .ok r →
    Post2 env.text M0 (· = tn) e r.1 ∧ ErrWF r.2 ∧ (c.state = .error → r.2.state = .error) ∧
    (r.2.state ≠ .error → EditsOk e tn → EditsOk r.1 tn ∧ listAll (Cov r.1 tn) l)
def BranchSpec (env : Env) (f : Nat) : Prop :=
  ∀ (M0 : String → Prop) tn e c t el b r, Pre2 env.text M0 e → M0 tn → ErrWF c →
    escapeBranch env f tn e c t el b = .ok r →
    Post2 env.text M0 (· = tn) e r.1 ∧ ErrWF r.2 ∧ (c.state = .error → r.2.state = .error) ∧
    (r.2.state ≠ .error → EditsOk e tn → EditsOk r.1 tn ∧ listAll (Cov r.1 tn) t ∧ listAll (Cov r.1 tn) el)
def TreeSpec (env : Env) (f : Nat) : Prop :=
  ∀ (M0 : String → Prop) e c name r, Pre2 env.text M0 e → ErrWF c → escapeTree env f e c name = .ok r →
    Post2 env.text M0 NoS e r.1 ∧ ErrWF r.2.1 ∧ (c.state = .error → r.2.1.state = .error) ∧
    (r.2.1.state ≠ .error → MemoOk r.1 r.2.2)

theorem Post2.trans {text : TextSet} {M0 S : String → Prop} {e e1 e2 : Esc}
    (h1 : Post2 text M0 S e e1) (h2 : Post2 text M0 S e1 e2) : Post2 text M0 S e e2 :=
  ⟨h2.1, h1.2.trans h2.2⟩

theorem list_spec_succ {env f} (hn : NodeSpec env f) (hl : ListSpec env f) : ListSpec env (f + 1) := by
  intro M0 tn e c l r hp htn hc h
  cases l with
  | nil =>
    simp only [escapeList] at h; cases h
    exact ⟨⟨hp, Stp.refl _ _⟩, hc, fun h => h, fun _ he => ⟨he, by simp only [listAll]⟩⟩
  | cons n ns =>
    simp only [escapeList] at h
    obtain ⟨⟨e1, c1⟩, h1, h2⟩ := bind_ok h
    obtain ⟨p1, w1, s1, k1⟩ := hn M0 tn e c n (e1, c1) hp htn hc h1
    obtain ⟨p2, w2, s2, k2⟩ := hl M0 tn e1 c1 ns r p1.1 htn w1 h2
    refine ⟨p1.trans p2, w2, fun he => s2 (s1 he), ?_⟩
    intro hne he
    have hne1 : c1.state ≠ .error := fun he1 => hne (s2 he1)
    obtain ⟨a1, a2⟩ := k1 hne1 he
    obtain ⟨b1, b2⟩ := k2 hne a1
    simp only [listAll]
    exact ⟨b1, nodeAll_mono (cov_mono p2.2.1 tn) _ a2, b2⟩


theorem join_ne (a b : Ctx) (h : (join a b).state ≠ .error) : a.state ≠ .error ∧ b.state ≠ .error := by
  unfold join joinCore at h
  by_cases h1 : (a.state == State.error) = true
  · rw [if_pos h1] at h; exact absurd (by simpa using h1) h
  · rw [if_neg h1] at h
    by_cases h2 : (b.state == State.error) = true
    · rw [if_pos h2] at h; exact absurd (by simpa using h2) h
    · exact ⟨by simpa using h1, by simpa using h2⟩

/-- the scratch escapers start from the memo only: relative to "everything memoized so far" nothing is owed -/
theorem pre2_scratch {text : TextSet} (e : Esc) (hb : Base text e) :
    Pre2 text (Memo { output := e.output, pristine := e.pristine, memoPrefix := e.memoPrefix })
      { output := e.output, pristine := e.pristine, memoPrefix := e.memoPrefix } := by
  obtain ⟨b1, _, _, b4, _⟩ := hb
  refine ⟨⟨b1, same_nil, fun _ h => (nomatch h), b4, fun _ h => (nomatch h)⟩, fun _ h => (nomatch h), ?_, fun _ h => h⟩
  intro n hok hn
  exact absurd hok.memo hn

theorem branch_spec_succ {env f} (hl : ListSpec env f) : BranchSpec env (f + 1) := by
  intro M0 tn e c t el b r hp htn hc h
  simp only [escapeBranch] at h
  obtain ⟨⟨e1, c0⟩, h1, h2⟩ := bind_ok h
  obtain ⟨p1, w0, s0, k0⟩ := hl M0 tn e c t (e1, c0) hp htn hc h1
  simp only [] at h2 p1 w0 s0 k0
  obtain ⟨j, hj, h4⟩ := bind_ok h2
  have htn1 : Memo e1 tn := p1.1.2.2.2 tn htn
  cases j with
  | some j =>
    simp only [] at h4
    -- the re-entry check ran: c0 is not an error context
    split at hj
    · rename_i hcond
      have hc0 : c0.state ≠ .error := by
        simp only [Bool.and_eq_true, bne_iff_ne, ne_eq] at hcond; exact hcond.2
      obtain ⟨⟨es, c1'⟩, h5, h6⟩ := bind_ok hj
      cases h6
      have ws := (hl _ tn _ c0 t (es, c1') (pre2_scratch e1 p1.1.1) htn1 w0 h5).2.1
      have wj : ErrWF (join c0 c1') := join_errwf _ _ w0 ws
      have hcne : c.state ≠ .error := fun he => hc0 (s0 he)
      split at h4
      · cases h4
        rename_i hje
        exact ⟨p1, wj, fun he => absurd he hcne, fun hne => absurd (by simpa using hje) hne⟩
      · obtain ⟨⟨e2, c1⟩, h7, h8⟩ := bind_ok h4
        cases h8
        obtain ⟨p2, w1, _, k1⟩ := hl M0 tn e1 c el (e2, c1) p1.1 htn hc h7
        refine ⟨p1.trans p2, join_errwf _ _ wj w1, fun he => absurd he hcne, ?_⟩
        intro hne he
        have hc1 : c1.state ≠ .error := (join_ne _ _ hne).2
        obtain ⟨a1, a2⟩ := k0 hc0 he
        obtain ⟨b1, b2⟩ := k1 hc1 a1
        exact ⟨b1, listAll_mono (cov_mono p2.2.1 tn) _ a2, b2⟩
    · cases hj
  | none =>
    simp only [] at h4
    obtain ⟨⟨e2, c1⟩, h7, h8⟩ := bind_ok h4
    cases h8
    obtain ⟨p2, w1, _, k1⟩ := hl M0 tn e1 c el (e2, c1) p1.1 htn hc h7
    refine ⟨p1.trans p2, join_errwf _ _ w0 w1, ?_, ?_⟩
    · intro he
      have := w0 (s0 he)
      simp only []
      rw [join_isErr _ _ this]; exact s0 he
    · intro hne he
      obtain ⟨hc0, hc1⟩ := join_ne _ _ hne
      obtain ⟨a1, a2⟩ := k0 hc0 he
      obtain ⟨b1, b2⟩ := k1 hc1 a1
      exact ⟨b1, listAll_mono (cov_mono p2.2.1 tn) _ a2, b2⟩


theorem editsOk_after_tree {M0 : String → Prop} {text : TextSet} {e e1 : Esc} {tn : String}
    (hp : Pre2 text M0 e) (htn : M0 tn) (hs : Stp NoS e e1) (he : EditsOk e tn) : EditsOk e1 tn := by
  intro q hq hk
  rcases hs.2.2 q hq with h | h | h
  · exact hs.1.memoOk (he q h hk)
  · exact h.elim
  · rw [hk] at h; exact absurd (hp.2.2.2 tn htn) h

theorem node_spec_succ {env f} (hb : BranchSpec env f) (ht : TreeSpec env f) : NodeSpec env (f + 1) := by
  intro M0 tn e c n r hp htn hc h
  cases n with
  | action id p =>
    simp only [escapeNode] at h
    obtain ⟨h1, h2, h3⟩ := escapeAction_core env tn e c id p r h hc
    exact ⟨post2_core h1 hp, h2, h3, fun _ he => ⟨editsOk_core h1 tn he, by simp only [nodeAll]⟩⟩
  | text id b =>
    simp only [escapeNode] at h
    obtain ⟨h1, h2, h3⟩ := escapeTextNode_core env tn e c id b r h hc
    exact ⟨post2_core h1 hp, h2, h3, fun _ he => ⟨editsOk_core h1 tn he, by simp only [nodeAll]⟩⟩
  | ifN id p t el =>
    simp only [escapeNode] at h
    obtain ⟨h1, h2, h3, h4⟩ := hb M0 tn e c t el false r hp htn hc h
    exact ⟨h1, h2, h3, fun hne he => by simp only [nodeAll]; exact h4 hne he⟩
  | withN id p t el =>
    simp only [escapeNode] at h
    obtain ⟨h1, h2, h3, h4⟩ := hb M0 tn e c t el false r hp htn hc h
    exact ⟨h1, h2, h3, fun hne he => by simp only [nodeAll]; exact h4 hne he⟩
  | rangeN id p t el =>
    simp only [escapeNode] at h
    obtain ⟨h1, h2, h3, h4⟩ := hb M0 tn e c t el true r hp htn hc h
    exact ⟨h1, h2, h3, fun hne he => by simp only [nodeAll]; exact h4 hne he⟩
  | brk id =>
    simp only [escapeNode] at h; cases h
    exact ⟨⟨hp, Stp.refl _ _⟩, errwf_errorCtx _, fun _ => rfl, fun hne => absurd rfl hne⟩
  | cont id =>
    simp only [escapeNode] at h; cases h
    exact ⟨⟨hp, Stp.refl _ _⟩, errwf_errorCtx _, fun _ => rfl, fun hne => absurd rfl hne⟩
  | comment id =>
    simp only [escapeNode] at h; cases h
    exact ⟨⟨hp, Stp.refl _ _⟩, errwf_errorCtx _, fun _ => rfl, fun hne => absurd rfl hne⟩
  | tmpl id name p =>
    simp only [escapeNode] at h
    obtain ⟨⟨e1, c1, dname⟩, h1, h2⟩ := bind_ok h
    obtain ⟨p1, w1, s1, k1⟩ := ht M0 e c name (e1, c1, dname) hp hc h1
    simp only [] at h2 p1 w1 s1 k1
    have p1' : Post2 env.text M0 (· = tn) e e1 := ⟨p1.1, p1.2.weaken (fun _ h => h.elim)⟩
    split at h2
    · obtain ⟨e2, h3, h4⟩ := bind_ok h2
      cases h4
      unfold Esc.editTmpl at h3
      split at h3
      · cases h3
      · cases h3
        -- e2 = e1 with one more template edit, keyed by (tn, id)
        have hstp : Stp (· = tn) e1 { e1 with tmplEdits := e1.tmplEdits ++ [((tn, id), dname)] } := by
          refine ⟨⟨fun _ _ h => h, fun q hq => List.mem_append_left _ hq⟩, fun _ hq _ => hq, ?_⟩
          intro q hq
          rcases List.mem_append.mp hq with hq | hq
          · exact .inl hq
          · simp only [List.mem_singleton] at hq; rw [hq]; exact .inr (.inl rfl)
        have hpre : Pre2 env.text M0 { e1 with tmplEdits := e1.tmplEdits ++ [((tn, id), dname)] } := by
          obtain ⟨⟨b1, b2, b3, b4, b5⟩, hdm, hrel, hm0⟩ := p1.1
          refine ⟨⟨b1, b2, b3, b4, ?_⟩, hdm, ?_, hm0⟩
          · intro q hq
            rcases List.mem_append.mp hq with hq | hq
            · exact b5 q hq
            · simp only [List.mem_singleton] at hq; rw [hq]; exact hm0 tn htn
          · exact rel_step hrel hstp (fun n hn => hn ▸ htn) (fun n hn hok _ => absurd hok.memo hn)
        refine ⟨p1'.trans ⟨hpre, hstp⟩, w1, s1, ?_⟩
        intro hne he
        have hok1 := k1 hne
        have he1 := editsOk_after_tree hp htn p1.2 he
        refine ⟨?_, ?_⟩
        · intro q hq hk
          rcases List.mem_append.mp hq with hq | hq
          · exact hstp.1.memoOk (he1 q hq hk)
          · simp only [List.mem_singleton] at hq; rw [hq]; exact hstp.1.memoOk hok1
        · simp only [nodeAll]
          exact .inl ⟨((tn, id), dname), List.mem_append_right _ (List.mem_singleton.mpr rfl), rfl⟩
    · rename_i hd
      cases h2
      refine ⟨p1', w1, s1, ?_⟩
      intro hne he
      have hdn : dname = name := by simpa using hd
      refine ⟨editsOk_after_tree hp htn p1.2 he, ?_⟩
      simp only [nodeAll]
      exact .inr (hdn ▸ k1 hne)


theorem mergeEdits_sub {β} (from_ : List (EditKey × β)) : ∀ (into r : List (EditKey × β)),
    mergeEdits into from_ = .ok r → (∀ p ∈ into, p ∈ r) ∧ (∀ p ∈ from_, p ∈ r) := by
  induction from_ with
  | nil => intro into r h; cases h; exact ⟨fun _ h => h, fun _ h => nomatch h⟩
  | cons q t ih =>
    intro into r h
    unfold mergeEdits at h
    rw [List.foldlM_cons] at h
    obtain ⟨acc, h1, h2⟩ := bind_ok h
    split at h1
    · cases h1
    · cases h1
      obtain ⟨i1, i2⟩ := ih _ r h2
      refine ⟨fun p hp => i1 p (List.mem_append_left _ hp), fun p hp => ?_⟩
      rcases List.mem_cons.mp hp with rfl | hp
      · exact i1 _ (List.mem_append_right _ (List.mem_singleton.mpr rfl))
      · exact i2 p hp

theorem merged_lookup_fwd {β} (base l : List (String × β)) (hs : Same l) (n : String) (v : β)
    (h : alookup l n = some v) : alookup (l.foldl (fun acc p => aset acc p.1 p.2) base) n = some v :=
  alookup_foldl_aset_mem l n v base hs (mem_of_alookup l n v h)

theorem merged_lookup_back {β} (base l : List (String × β)) (hsb : Same base) (hs : Same l)
    (hext : ∀ n v, alookup base n = some v → alookup l n = some v) (n : String) (v : β)
    (h : alookup (l.foldl (fun acc p => aset acc p.1 p.2) base) n = some v) : alookup l n = some v := by
  rcases mem_foldl_aset l base (n, v) (mem_of_alookup _ _ _ h) with h1 | h1
  · exact hext n v (alookup_of_mem base hsb (n, v) h1)
  · exact alookup_of_mem l hs (n, v) h1

def TreeIs (text : TextSet) (e : Esc) (tname : String) (t : Option Tree) : Prop :=
  ∀ tr, TreeOf text e tname tr → t = some tr
def ExtX (tname : String) (e e' : Esc) : Prop :=
  (∀ n v, n ≠ tname → alookup e.output n = some v → alookup e'.output n = some v) ∧
  (∀ q ∈ e.tmplEdits, q ∈ e'.tmplEdits)

def BodySpec (env : Env) (f : Nat) : Prop :=
  ∀ (M0 : String → Prop) e c tname t r,
    Base env.text e → DMx tname e → Rel env.text (fun n => M0 n ∨ n = tname) e → (∀ n, M0 n → Memo e n) →
    ¬ M0 tname → (∀ q ∈ e.tmplEdits, q.1.1 ≠ tname) → TreeIs env.text e tname t → ErrWF c →
    escapeTemplateBody env f e c tname t = .ok r →
    Base env.text r.1 ∧ DM r.1 ∧ ErrWF r.2.1 ∧ ExtX tname e r.1 ∧ NewD e r.1 ∧ NewE (· = tname) e r.1 ∧
    (r.2.2 = true → Rel env.text M0 r.1 ∧ c.state ≠ .error ∧ r.2.1.state ≠ .error ∧
        alookup r.1.output tname = some c) ∧
    (r.2.2 = false → r.1.output = aset e.output tname c ∧ r.1.tmplEdits = e.tmplEdits ∧ r.1.derived = e.derived)

theorem base_setOutput {text : TextSet} (e : Esc) (k : String) (v : Ctx) (hb : Base text e) (hv : ErrWF v) :
    Base text { e with output := aset e.output k v } := by
  obtain ⟨b1, b2, b3, b4, b5⟩ := hb
  refine ⟨same_aset _ _ _ b1, b2, b3, ?_, ?_⟩
  · intro n c hc
    rw [alookup_aset] at hc
    split at hc
    · cases hc; exact hv
    · exact b4 n c hc
  · intro q hq
    exact isSome_aset _ _ _ _ (b5 q hq)


@[reducible] def mfold {β} (base l : List (String × β)) : List (String × β) :=
  l.foldl (fun acc p => aset acc p.1 p.2) base

theorem body_spec_succ {env f} (hl : ListSpec env f) : BodySpec env (f + 1) := by
  intro M0 e c tname t r hb hdm hrel hm0 hn0 hnoed htree hc h
  simp only [escapeTemplateBody] at h
  split at h
  · cases h
  · rename_i tr
    obtain ⟨⟨e1, c1⟩, h1, h2⟩ := bind_ok h
    have hb0 := base_setOutput e tname c hb hc
    have hlk0 : alookup (aset e.output tname c) tname = some c := by rw [alookup_aset, if_pos rfl]
    have hmt : Memo { output := aset e.output tname c, pristine := e.pristine, memoPrefix := e.memoPrefix } tname := by
      unfold Memo; simp only []; rw [hlk0]; rfl
    obtain ⟨p1, w1, s1, k1⟩ := hl _ tname _ c tr.root (e1, c1) (pre2_scratch _ hb0) hmt hc h1
    simp only [] at h2 p1 w1 s1 k1
    obtain ⟨⟨hb1, hdm1, hrel1, _⟩, ⟨hext1, hed1⟩, hnd1, hne1⟩ := p1
    simp only [] at hext1 hnd1 hne1
    -- a name memoized in `e` is memoized in the scratch escaper
    have hMs : ∀ n, Memo e n → (alookup (aset e.output tname c) n).isSome = true :=
      fun n hn => isSome_aset _ _ _ _ hn
    split at h2
    · rename_i hok
      obtain ⟨ae, ha, h3⟩ := bind_ok h2
      obtain ⟨te, ht, h4⟩ := bind_ok h3
      obtain ⟨xe, hx, h5⟩ := bind_ok h4
      cases h5
      have hc1 : c1.state ≠ .error := by
        simp only [Bool.and_eq_true, bne_iff_ne, ne_eq] at hok; exact hok.1
      have hcne : c.state ≠ .error := fun he => hc1 (s1 he)
      obtain ⟨hsub0, hsub1⟩ := mergeEdits_sub _ _ _ ht
      have hmem := mergeEdits_mem _ _ _ ht
      obtain ⟨hE1, hcov⟩ := k1 hc1 (fun _ hq => nomatch hq)
      -- lookups in the merged memo are the lookups of the scratch escaper after the body
      have fwd : ∀ n v, alookup e1.output n = some v →
          alookup (mfold (aset e.output tname c) e1.output) n = some v :=
        fun n v hv => merged_lookup_fwd _ _ hb1.1 n v hv
      have back : ∀ n v, alookup (mfold (aset e.output tname c) e1.output) n = some v →
          alookup e1.output n = some v :=
        fun n v hv => merged_lookup_back _ _ hb0.1 hb1.1 hext1 n v hv
      have hOk1 : ∀ m, MemoOk e1 m → MemoOk { e1 with output := mfold (aset e.output tname c) e1.output } m := fun m ⟨v, hv, hne⟩ => ⟨v, fwd m v hv, hne⟩
      have hM1 : ∀ m, Memo e1 m → (alookup (mfold (aset e.output tname c) e1.output) m).isSome = true := by
        intro m hm
        unfold Memo at hm
        cases hv : alookup e1.output m with
        | none => rw [hv] at hm; cases hm
        | some v => rw [fwd m v hv]; rfl
      have hM0 : ∀ m, Memo e m → (alookup (mfold (aset e.output tname c) e1.output) m).isSome = true := by
        intro m hm
        have := hMs m hm
        cases hv : alookup (aset e.output tname c) m with
        | none => rw [hv] at this; cases this
        | some v => rw [fwd m v (hext1 m v hv)]; rfl
      have htn' : alookup (mfold (aset e.output tname c) e1.output) tname = some c :=
        fwd _ _ (hext1 _ _ hlk0)
      have hOk0 : ∀ m, MemoOk e m → ∃ v, alookup (mfold (aset e.output tname c) e1.output) m = some v ∧ v.state ≠ .error := by
        intro m ⟨v, hv, hne⟩
        by_cases hmt' : m = tname
        · subst hmt'; exact ⟨c, htn', hcne⟩
        · refine ⟨v, fwd m v (hext1 m v ?_), hne⟩
          rw [alookup_aset, if_neg hmt']; exact hv
      refine ⟨⟨same_foldl_aset _ _ hb0.1, same_foldl_aset _ _ hb.2.1, ?_, ?_, ?_⟩, ?_, w1, ⟨?_, hsub0⟩, ?_, ?_, ?_⟩
      · -- dOK
        intro p hp
        rcases mem_foldl_aset _ _ p hp with hp | hp
        · exact hb.2.2.1 p hp
        · exact hb1.2.2.1 p hp
      · intro n c' hc'
        exact hb1.2.2.2.1 n c' (back n c' hc')
      · intro q hq
        rcases hmem q hq with hq | hq
        · exact hM0 _ (hb.2.2.2.2 q hq)
        · exact hM1 _ (hb1.2.2.2.2 q hq)
      · -- DM
        intro p hp
        rcases mem_foldl_aset _ _ p hp with hp | hp
        · by_cases hpt : p.1 = tname
          · unfold Memo; simp only []; rw [hpt, htn']; rfl
          · exact hM0 _ (hdm p hp hpt)
        · exact hM1 _ (hdm1 p hp)
      · -- ExtX
        intro n v hnt hv
        exact fwd n v (hext1 n v (by rw [alookup_aset, if_neg hnt]; exact hv))
      · -- NewD
        intro p hp hm
        rcases mem_foldl_aset _ _ p hp with hp | hp
        · exact hp
        · exact nomatch (hnd1 p hp (hMs _ hm))
      · -- NewE
        intro q hq
        rcases hmem q hq with hq | hq
        · exact .inl hq
        · rcases hne1 q hq with h | h | h
          · exact nomatch h
          · exact .inr (.inl h)
          · exact .inr (.inr (fun hm => h (hMs _ hm)))
      · refine ⟨fun _ => ⟨?_, hcne, hc1, htn'⟩, fun hf => nomatch hf⟩
        -- Rel M0 for the merged escaper
        intro n hokn hn0n
        have hok1 : MemoOk e1 n := by
          obtain ⟨v, hv, hne⟩ := hokn; exact ⟨v, back n v hv, hne⟩
        -- monotonicity of coverage from the scratch escaper / from the outer escaper into the merged one
        have cov1 : ∀ tn i m, Cov e1 tn i m → Cov { e1 with output := mfold (aset e.output tname c) e1.output, tmplEdits := te } tn i m := by
          intro tn i m hcv
          rcases hcv with ⟨q, hq, hk⟩ | hcv
          · exact .inl ⟨q, hsub1 q hq, hk⟩
          · exact .inr (hOk1 m hcv)
        have cov0 : ∀ tn i m, Cov e tn i m → Cov { e1 with output := mfold (aset e.output tname c) e1.output, tmplEdits := te } tn i m := by
          intro tn i m hcv
          rcases hcv with ⟨q, hq, hk⟩ | hcv
          · exact .inl ⟨q, hsub0 q hq, hk⟩
          · exact .inr (hOk0 m hcv)
        by_cases hnt : n = tname
        · subst hnt
          refine ⟨?_, ?_⟩
          · intro q hq hk
            rcases hmem q hq with hq | hq
            · exact absurd hk (hnoed q hq)
            · exact hOk1 _ (hE1 q hq hk)
          · intro tr' htr'
            have : some tr = some tr' := by
              apply htree
              rcases htr' with htr' | htr'
              · exact .inl htr'
              · rcases mem_foldl_aset _ _ _ htr' with hp | hp
                · exact .inr hp
                · exact nomatch (hnd1 _ hp hmt)
            cases this
            exact listAll_mono (cov1 n) _ hcov
        · by_cases hms : (alookup (aset e.output tname c) n).isSome = true
          · -- memoized before this body
            have hme : Memo e n := by
              unfold Memo; rw [alookup_aset, if_neg hnt] at hms; exact hms
            have hoke : MemoOk e n := by
              unfold Memo at hme
              cases hv : alookup e.output n with
              | none => rw [hv] at hme; cases hme
              | some v =>
                obtain ⟨v', hv', hne'⟩ := hok1
                have : alookup e1.output n = some v := hext1 n v (by rw [alookup_aset, if_neg hnt]; exact hv)
                rw [this] at hv'; cases hv'
                exact ⟨v, hv, hne'⟩
            obtain ⟨hce, hct⟩ := hrel n hoke (fun h => h.elim hn0n hnt)
            refine ⟨?_, ?_⟩
            · intro q hq hk
              rcases hmem q hq with hq | hq
              · exact hOk0 _ (hce q hq hk)
              · rcases hne1 q hq with h | h | h
                · exact nomatch h
                · exact absurd (hk ▸ h) hnt
                · exact absurd (hk ▸ hms) h
            · intro tr' htr'
              have : TreeOf env.text e n tr' := by
                rcases htr' with htr' | htr'
                · exact .inl htr'
                · rcases mem_foldl_aset _ _ _ htr' with hp | hp
                  · exact .inr hp
                  · exact nomatch (hnd1 _ hp hms)
              exact listAll_mono (cov0 n) _ (hct tr' this)
          · -- memoized by this body
            obtain ⟨hce, hct⟩ := hrel1 n hok1 hms
            refine ⟨?_, ?_⟩
            · intro q hq hk
              rcases hmem q hq with hq | hq
              · exact absurd (hMs _ (hk ▸ hb.2.2.2.2 q hq)) hms
              · exact hOk1 _ (hce q hq hk)
            · intro tr' htr'
              have : TreeOf env.text e1 n tr' := by
                rcases htr' with htr' | htr'
                · exact .inl htr'
                · rcases mem_foldl_aset _ _ _ htr' with hp | hp
                  · exact absurd (hMs _ (hdm _ hp hnt)) hms
                  · exact .inr hp
              exact listAll_mono (cov1 n) _ (hct tr' this)
    · cases h2
      refine ⟨hb0, ?_, w1, ⟨?_, fun _ hq => hq⟩, fun _ hq _ => hq, fun _ hq => .inl hq, fun hf => (nomatch hf),
        fun _ => ⟨rfl, rfl, rfl⟩⟩
      · intro p hp
        by_cases hpt : p.1 = tname
        · unfold Memo; simp only []; rw [hpt, hlk0]; rfl
        · exact hMs _ (hdm p hp hpt)
      · intro n v hnt hv
        simp only []
        rw [alookup_aset, if_neg hnt]; exact hv


def OutSpec (env : Env) (f : Nat) : Prop :=
  ∀ (M0 : String → Prop) e c tname t r,
    Base env.text e → DMx tname e → Rel env.text M0 e → (∀ n, M0 n → Memo e n) → ¬ Memo e tname →
    TreeIs env.text e tname t → ErrWF c → computeOutCtx env f e c tname t = .ok r →
    Post2 env.text M0 NoS e r.1 ∧ ErrWF r.2 ∧ alookup r.1.output tname = some r.2

theorem dm_setOutput (e : Esc) (k : String) (v : Ctx) (h : DM e) : DM { e with output := aset e.output k v } :=
  fun p hp => isSome_aset _ _ _ _ (h p hp)

/-- re-memoizing `tname` with another good context keeps everything -/
theorem finish_ok {text : TextSet} {M0 : String → Prop} (e1 : Esc) (tname : String) (v : Ctx)
    (hb : Base text e1) (hdm : DM e1) (hrel : Rel text M0 e1) (hmt : MemoOk e1 tname) (hv : ErrWF v)
    (hvne : v.state ≠ .error) :
    Base text { e1 with output := aset e1.output tname v } ∧ DM { e1 with output := aset e1.output tname v } ∧
    Rel text M0 { e1 with output := aset e1.output tname v } := by
  refine ⟨base_setOutput e1 tname v hb hv, dm_setOutput e1 tname v hdm, ?_⟩
  have up : ∀ m, MemoOk e1 m → MemoOk { e1 with output := aset e1.output tname v } m := by
    intro m ⟨c, hc, hne⟩
    by_cases hm : m = tname
    · exact ⟨v, by simp only []; rw [alookup_aset, if_pos hm], hvne⟩
    · exact ⟨c, by simp only []; rw [alookup_aset, if_neg hm]; exact hc, hne⟩
  intro n hok hn0
  have hok1 : MemoOk e1 n := by
    by_cases hm : n = tname
    · rw [hm]; exact hmt
    · obtain ⟨c, hc, hne⟩ := hok
      simp only [] at hc
      rw [alookup_aset, if_neg hm] at hc
      exact ⟨c, hc, hne⟩
  obtain ⟨h1, h2⟩ := hrel n hok1 hn0
  refine ⟨fun q hq hk => up _ (h1 q hq hk), fun tr htr => ?_⟩
  refine listAll_mono ?_ _ (h2 tr htr)
  intro i m hcv
  rcases hcv with hcv | hcv
  · exact .inl hcv
  · exact .inr (up m hcv)

/-- from the facts a body leaves (relative to the escaper before `computeOutCtx`) to a step without exception -/
theorem stp_of_body {e e1 eF : Esc} {tname : String} (hnm : ¬ Memo e tname)
    (hx : ExtX tname e e1) (hnd : NewD e e1) (hne : NewE (· = tname) e e1)
    (ho : ∀ n v, n ≠ tname → alookup e1.output n = some v → alookup eF.output n = some v)
    (ht : eF.tmplEdits = e1.tmplEdits) (hd : eF.derived = e1.derived) : Stp NoS e eF := by
  refine ⟨⟨?_, ?_⟩, ?_, ?_⟩
  · intro n v hv
    have hnt : n ≠ tname := by
      intro h; subst h; apply hnm; unfold Memo; rw [hv]; rfl
    exact ho n v hnt (hx.1 n v hnt hv)
  · intro q hq; rw [ht]; exact hx.2 q hq
  · intro p hp hm; rw [hd] at hp; exact hnd p hp hm
  · intro q hq
    rw [ht] at hq
    rcases hne q hq with h | h | h
    · exact .inl h
    · exact .inr (.inr (fun hm => hnm (h ▸ hm)))
    · exact .inr (.inr h)


theorem out_spec_succ {env f} (hbd : BodySpec env f) : OutSpec env (f + 1) := by
  intro M0 e c tname t r hb hdm hrel hm0 hnm htree hc h
  simp only [computeOutCtx] at h
  obtain ⟨⟨e1, c1, ok⟩, h1, h2⟩ := bind_ok h
  have hn0 : ¬ M0 tname := fun h => hnm (hm0 _ h)
  have hrelx : Rel env.text (fun n => M0 n ∨ n = tname) e := fun n hok hn => hrel n hok (fun h => hn (.inl h))
  have hnoed : ∀ q ∈ e.tmplEdits, q.1.1 ≠ tname := fun q hq hk => hnm (hk ▸ hb.2.2.2.2 q hq)
  obtain ⟨b1, d1, w1, x1, nd1, ne1, t1, f1⟩ :=
    hbd M0 e c tname t (e1, c1, ok) hb hdm hrelx hm0 hn0 hnoed htree hc h1
  simp only [] at h2 b1 d1 w1 x1 nd1 ne1 t1 f1
  have hs1 : Stp NoS e e1 := stp_of_body hnm x1 nd1 ne1 (fun _ _ _ hv => hv) rfl rfl
  cases ok with
  | true =>
    simp only [if_true] at h2
    cases h2
    obtain ⟨r1, hcne, hc1, hlk⟩ := t1 rfl
    obtain ⟨fb, fd, fr⟩ := finish_ok e1 tname c1 b1 d1 r1 ⟨c, hlk, hcne⟩ w1 hc1
    have hs : Stp NoS e { e1 with output := aset e1.output tname c1 } :=
      stp_of_body hnm x1 nd1 ne1 (fun n v hnt hv => by simp only []; rw [alookup_aset, if_neg hnt]; exact hv) rfl rfl
    exact ⟨⟨⟨fb, fd, fr, fun n hn => hs.1.memo (hm0 n hn)⟩, hs⟩, w1, by simp only []; rw [alookup_aset, if_pos rfl]⟩
  | false =>
    simp only [Bool.false_eq_true, if_false] at h2
    obtain ⟨fo, ft, fdv⟩ := f1 rfl
    obtain ⟨⟨e2, c2, ok2⟩, h3, h4⟩ := bind_ok h2
    simp only [] at h4
    -- hypotheses of the second attempt, for the escaper left by the first one
    have hrel1 : Rel env.text (fun n => M0 n ∨ n = tname) e1 := by
      intro n hok hn
      have hnt : n ≠ tname := fun h => hn (.inr h)
      have hoke : MemoOk e n := by
        obtain ⟨v, hv, hne⟩ := hok
        rw [fo, alookup_aset, if_neg hnt] at hv
        exact ⟨v, hv, hne⟩
      exact covered_transfer (hrel n hoke (fun h => hn (.inl h))) hs1 hoke.memo (fun h => h)
    have htree1 : TreeIs env.text e1 tname t := by
      intro tr htr
      apply htree
      rcases htr with htr | htr
      · exact .inl htr
      · exact .inr (fdv ▸ htr)
    have hnoed1 : ∀ q ∈ e1.tmplEdits, q.1.1 ≠ tname := by rw [ft]; exact hnoed
    obtain ⟨b2, d2, w2, x2, nd2, ne2, t2, f2⟩ :=
      hbd M0 e1 c1 tname t (e2, c2, ok2) b1 (fun p hp _ => d1 p hp) hrel1 (fun n hn => hs1.1.memo (hm0 n hn)) hn0
        hnoed1 htree1 w1 h3
    simp only [] at b2 d2 w2 x2 nd2 ne2 t2 f2
    have x12 : ExtX tname e e2 :=
      ⟨fun n v hnt hv => x2.1 n v hnt (x1.1 n v hnt hv), fun q hq => x2.2 q (x1.2 q hq)⟩
    have nd12 : NewD e e2 := fun p hp hm => nd1 p (nd2 p hp (hs1.1.memo hm)) hm
    have ne12 : NewE (· = tname) e e2 := by
      intro q hq
      rcases ne2 q hq with h | h | h
      · exact ne1 q h
      · exact .inr (.inl h)
      · exact .inr (.inr (fun hm => h (hs1.1.memo hm)))
    have hsF : ∀ X : Ctx, Stp NoS e { e2 with output := aset e2.output tname X } := fun X =>
      stp_of_body hnm x12 nd12 ne12 (fun n v hnt hv => by simp only []; rw [alookup_aset, if_neg hnt]; exact hv) rfl rfl
    cases ok2 with
    | true =>
      simp only [if_true] at h4
      cases h4
      obtain ⟨r2, hcne, hc2, hlk⟩ := t2 rfl
      obtain ⟨fb, fd, fr⟩ := finish_ok e2 tname c2 b2 d2 r2 ⟨c1, hlk, hcne⟩ w2 hc2
      exact ⟨⟨⟨fb, fd, fr, fun n hn => (hsF c2).1.memo (hm0 n hn)⟩, hsF c2⟩, w2,
        by simp only []; rw [alookup_aset, if_pos rfl]⟩
    | false =>
      simp only [Bool.false_eq_true, if_false] at h4
      obtain ⟨fo2, ft2, fd2⟩ := f2 rfl
      -- both attempts failed: the memo entry becomes an error context
      have fin : ∀ X : Ctx, ErrWF X → X.state = .error →
          Post2 env.text M0 NoS e { e2 with output := aset e2.output tname X } := by
        intro X hX hXe
        refine ⟨⟨base_setOutput e2 tname X b2 hX, dm_setOutput e2 tname X d2, ?_,
          fun n hn => (hsF X).1.memo (hm0 n hn)⟩, hsF X⟩
        apply rel_step hrel (hsF X) (fun _ h => h.elim)
        intro n hnm' hok _
        obtain ⟨v, hv, hne⟩ := hok
        simp only [] at hv
        by_cases hnt : n = tname
        · rw [alookup_aset, if_pos hnt] at hv
          cases hv
          exact absurd hXe hne
        · rw [alookup_aset, if_neg hnt, fo2, alookup_aset, if_neg hnt, fo, alookup_aset, if_neg hnt] at hv
          exact absurd (by unfold Memo; rw [hv]; rfl) hnm'
      split at h4
      · cases h4
        exact ⟨fin _ (errwf_errorCtx _) rfl, errwf_errorCtx _, by simp only []; rw [alookup_aset, if_pos rfl]⟩
      · rename_i hc1e
        cases h4
        have : c1.state = .error := by simpa using hc1e
        exact ⟨fin c1 w1 this, w1, by simp only []; rw [alookup_aset, if_pos rfl]⟩


theorem template_treeOf {env : Env} {e : Esc} (hb : Base env.text e) (n : String) (tr : Tree)
    (h : TreeOf env.text e n tr) : Esc.template env e n = some (some tr) := by
  unfold Esc.template
  rcases h with h | h
  · rw [h]
  · rcases hb.2.2.1 _ h with h1 | h1
    · simp only [] at h1
      rw [h1]
      simp only []
      rw [alookup_of_mem _ hb.2.1 _ h]; rfl
    · simp only [] at h1
      rw [h1]

theorem template_none {env : Env} {e : Esc} (n : String) (h : Esc.template env e n = none) :
    env.text.lookup n = none := by
  unfold Esc.template at h
  split at h
  · cases h
  · assumption

theorem tree_out_step {env : Env} {f : Nat} (hout : OutSpec env f) {M0 : String → Prop} {e em : Esc} {c : Ctx}
    {dname : String} {t : Option Tree} {r : Esc × Ctx}
    (hp : Pre2 env.text M0 e) (hce : CoreEq e em) (hnm : ¬ Memo e dname)
    (htree : TreeIs env.text em dname t) (hc : ErrWF c) (h : computeOutCtx env f em c dname t = .ok r) :
    Post2 env.text M0 NoS e r.1 ∧ ErrWF r.2 ∧ alookup r.1.output dname = some r.2 := by
  obtain ⟨hb, hdm, hrel, hm0⟩ := pre2_core hce hp
  have hnm' : ¬ Memo em dname := by unfold Memo at hnm ⊢; rw [hce.1]; exact hnm
  obtain ⟨p1, w1, l1⟩ := hout M0 em c dname t r hb (fun q hq _ => hdm q hq) hrel hm0 hnm' htree hc h
  exact ⟨⟨p1.1, (stp_core hce).trans p1.2⟩, w1, l1⟩

theorem tree_spec_succ {env f} (hout : OutSpec env f) : TreeSpec env (f + 1) := by
  intro M0 e c name r hp hc h
  simp only [escapeTree] at h
  split at h
  · rename_i hce
    cases h
    exact ⟨⟨hp, Stp.refl _ _⟩, hc, fun he => he, fun hne => absurd (by simpa using hce) hne⟩
  · rename_i hce
    have hcne : c.state ≠ .error := by simpa using hce
    split at h
    · rename_i out hout'
      cases h
      refine ⟨post2_core ⟨rfl, rfl, rfl⟩ hp, hp.1.2.2.2.1 _ _ hout', fun he => absurd he hcne, ?_⟩
      intro hne
      exact ⟨out, hout', hne⟩
    · rename_i hnone
      have hnm : ¬ Memo e (mangle c name) := by
        unfold Memo; rw [hnone]; simp
      split at h
      · cases h
        exact ⟨post2_core ⟨rfl, rfl, rfl⟩ hp, errwf_errorCtx _, fun he => absurd he hcne, fun hne => absurd rfl hne⟩
      · cases h
        exact ⟨post2_core ⟨rfl, rfl, rfl⟩ hp, errwf_errorCtx _, fun he => absurd he hcne, fun hne => absurd rfl hne⟩
      · rename_i tr htmpl
        split at h
        · split at h
          · -- a template of the mangled name exists already (text set or derived)
            rename_i dt hdt
            obtain ⟨⟨e1, c1⟩, h1, h2⟩ := bind_ok h
            cases h2
            have key := fun hce htree => tree_out_step hout hp hce hnm htree hc h1
            obtain ⟨p1, w1, l1⟩ := key ⟨rfl, rfl, rfl⟩ (by
              intro tr' htr'
              have := template_treeOf (by exact hp.1) _ _ htr'
              rw [this] at hdt
              cases hdt; rfl)
            exact ⟨p1, w1, fun he => absurd he hcne, fun hne => ⟨c1, l1, hne⟩⟩
          · -- a new derived template
            rename_i hdt
            obtain ⟨⟨e1, c1⟩, h1, h2⟩ := bind_ok h
            cases h2
            have htn := template_none _ hdt
            obtain ⟨⟨b1, b2, b3, b4, b5⟩, hdm, hrel, hm0⟩ := hp
            -- the escaper with the new derived entry
            have key2 := fun g1 g2 g3 g4 g5 g6 => hout M0 _ c (mangle c name) _ (e1, c1) g1 g2 g3 g4 g5 g6 hc h1
            have hout2 := key2
              (by
                refine ⟨b1, same_aset _ _ _ b2, ?_, b4, b5⟩
                intro p hp'
                rcases mem_aset_strong _ _ _ p hp' with ⟨hp', _⟩ | rfl
                · exact b3 p hp'
                · exact .inl htn)
              (by
                intro p hp' hpn
                rcases mem_aset_strong _ _ _ p hp' with ⟨hp', _⟩ | rfl
                · exact hdm p hp'
                · exact absurd rfl hpn)
              (by
                intro n hok hn0
                obtain ⟨k1, k2⟩ := hrel n hok hn0
                refine ⟨k1, fun tr' htr' => k2 tr' ?_⟩
                rcases htr' with htr' | htr'
                · exact .inl htr'
                · rcases mem_aset_strong _ _ _ _ htr' with ⟨htr', _⟩ | heq
                  · exact .inr htr'
                  · cases heq
                    exact absurd hok.memo hnm)
              hm0 hnm
              (by
                intro tr' htr'
                rcases htr' with htr' | htr'
                · rw [htn] at htr'; cases htr'
                · rcases mem_aset_strong _ _ _ _ htr' with ⟨_, hk⟩ | heq
                  · exact absurd rfl hk
                  · cases heq; rfl)
            obtain ⟨p1, w1, l1⟩ := hout2
            refine ⟨⟨p1.1, ?_⟩, w1, fun he => absurd he hcne, fun hne => ⟨c1, l1, hne⟩⟩
            refine Stp.trans ?_ p1.2
            refine ⟨⟨fun _ _ h => h, fun _ h => h⟩, ?_, fun _ h => .inl h⟩
            intro p hp' hm
            rcases mem_aset_strong _ _ _ p hp' with ⟨hp', _⟩ | rfl
            · exact hp'
            · exact absurd hm hnm
        · rename_i hdn
          obtain ⟨⟨e1, c1⟩, h1, h2⟩ := bind_ok h
          cases h2
          have hdn' : mangle c name = name := by simpa using hdn
          generalize mangle c name = dn at *
          subst hdn'
          have key := fun hce htree => tree_out_step hout hp hce hnm htree hc h1
          obtain ⟨p1, w1, l1⟩ := key ⟨rfl, rfl, rfl⟩ (by
            intro tr' htr'
            have := template_treeOf (by exact hp.1) _ _ htr'
            rw [this] at htmpl
            cases htmpl; rfl)
          exact ⟨p1, w1, fun he => absurd he hcne, fun hne => ⟨c1, l1, hne⟩⟩


/-- **Coverage invariant of the analysis** (all six mutually recursive functions). -/
theorem analysis_spec (env : Env) : ∀ f,
    NodeSpec env f ∧ ListSpec env f ∧ BranchSpec env f ∧ TreeSpec env f ∧ OutSpec env f ∧ BodySpec env f := by
  intro f
  induction f with
  | zero =>
    refine ⟨?_, ?_, ?_, ?_, ?_, ?_⟩
    · intro M0 tn e c n r _ _ _ h; simp only [escapeNode] at h; cases h
    · intro M0 tn e c l r _ _ _ h; simp only [escapeList] at h; cases h
    · intro M0 tn e c t el b r _ _ _ h; simp only [escapeBranch] at h; cases h
    · intro M0 e c name r _ _ h; simp only [escapeTree] at h; cases h
    · intro M0 e c tname t r _ _ _ _ _ _ _ h; simp only [computeOutCtx] at h; cases h
    · intro M0 e c tname t r _ _ _ _ _ _ _ _ h; simp only [escapeTemplateBody] at h; cases h
  | succ f ih =>
    obtain ⟨hn, hl, hb, ht, ho, hbd⟩ := ih
    exact ⟨node_spec_succ hb ht, list_spec_succ hn hl, branch_spec_succ hl, tree_spec_succ ho, out_spec_succ hbd,
      body_spec_succ hl⟩

/-- the invariant between critical sections: every name memoized with a good context is covered -/
def Good (text : TextSet) (e : Esc) : Prop := Pre2 text (fun _ => False) e

theorem good_fresh (text : TextSet) (e : Esc) (ho : e.output = []) (hd : e.derived = []) (ht : e.tmplEdits = []) :
    Good text e := by
  refine ⟨⟨?_, ?_, ?_, ?_, ?_⟩, ?_, ?_, fun _ h => h.elim⟩
  · rw [ho]; exact same_nil
  · rw [hd]; exact same_nil
  · rw [hd]; exact fun _ h => nomatch h
  · rw [ho]; intro n c h; cases h
  · rw [ht]; exact fun _ h => nomatch h
  · intro p hp; rw [hd] at hp; cases hp
  · intro n ⟨c, hc, _⟩; rw [ho] at hc; cases hc

/-- one top-level analysis (whatever its outcome) keeps the invariant; if it does not end in an error context the
    analysed name is memoized with a good context -/
theorem good_analysis {env : Env} {e : Esc} (hg : Good env.text e) (f : Nat) (name : String)
    (r : Esc × Ctx × String) (h : escapeTree env f e {} name = .ok r) :
    Good env.text r.1 ∧ (r.2.1.state ≠ .error → MemoOk r.1 name) := by
  have hc : ErrWF ({} : Ctx) := errwf_of_ne (by decide)
  obtain ⟨p1, _, _, k1⟩ := (analysis_spec env f).2.2.2.1 (fun _ => False) e {} name r hg hc h
  refine ⟨p1.1, fun hne => ?_⟩
  have := k1 hne
  -- the returned name is `mangle {} name = name`
  cases f with
  | zero => simp only [escapeTree] at h; cases h
  | succ f =>
    have hd : r.2.2 = name := by
      simp only [escapeTree, mangle_text, show (State.text == State.error) = false from rfl,
        Bool.false_eq_true, if_false] at h
      split at h
      · cases h; rfl
      · split at h
        · cases h; rfl
        · cases h; rfl
        · simp only [bne_self_eq_false, Bool.false_eq_true, if_false] at h
          obtain ⟨x, _, h2⟩ := bind_ok h
          cases h2; rfl
    rw [hd] at this; exact this

/-! ### 10d. the commit turns coverage into closedness -/

theorem installStep_lookup (ts : TextSet) (p : String × Tree) (n : String) :
    (installStep ts p).lookup n = ts.lookup n ∨ (n = p.1 ∧ (installStep ts p).lookup n = some (some p.2)) := by
  by_cases hn : n = p.1
  · subst hn
    unfold installStep
    split
    · split
      · exact .inl rfl
      · exact .inr ⟨rfl, by rw [lookup_set, if_pos rfl]⟩
    · exact .inr ⟨rfl, by rw [lookup_set, if_pos rfl]⟩
  · exact .inl (installStep_lookup_other ts p n hn)

theorem install_lookup (ds : List (String × Tree)) : ∀ (ts : TextSet) (n : String),
    (ds.foldl installStep ts).lookup n = ts.lookup n ∨
    ∃ d, (n, d) ∈ ds ∧ (ds.foldl installStep ts).lookup n = some (some d) := by
  induction ds with
  | nil => intro ts n; exact .inl rfl
  | cons q t ih =>
    intro ts n
    rw [List.foldl_cons]
    rcases ih (installStep ts q) n with h | ⟨d, hd, h⟩
    · rcases installStep_lookup ts q n with h1 | ⟨h1, h2⟩
      · exact .inl (h.trans h1)
      · refine .inr ⟨q.2, ?_, h.trans h2⟩
        rw [h1]; exact List.mem_cons_self ..
    · exact .inr ⟨d, List.mem_cons_of_mem _ hd, h⟩

mutual
theorem node_apply_cov (G : String → Prop) (tn : String) (e : Esc)
    (hG : ∀ q ∈ e.tmplEdits, q.1.1 = tn → G q.2) : ∀ (n r : Node), Node.applyEdits tn e n = some r →
    nodeAll (fun id name => HasEdit e tn id ∨ G name) n → nodeAll (fun _ name => G name) r
  | .text id b, r, h, _ => by
    simp only [Node.applyEdits] at h; cases h
    split <;> simp only [nodeAll]
  | .action id p, r, h, _ => by
    simp only [Node.applyEdits] at h
    split at h
    · cases hh : ensurePipelineContains p _ with
      | none => rw [hh] at h; cases h
      | some p' => rw [hh] at h; cases h; simp only [nodeAll]
    · cases h; simp only [nodeAll]
  | .tmpl id name p, r, h, hc => by
    simp only [Node.applyEdits] at h; cases h
    simp only [nodeAll] at hc
    split
    · rename_i q hq
      simp only [nodeAll]
      have hm := List.mem_of_find?_eq_some hq
      have hk := List.find?_some hq
      have hk' : q.1 = (tn, id) := by simpa using hk
      exact hG q hm (by rw [hk'])
    · rename_i hq
      simp only [nodeAll]
      rcases hc with ⟨q, hm, hk⟩ | hc
      · have := List.find?_eq_none.mp hq q hm
        simp [hk] at this
      · exact hc
  | .ifN id p t el, r, h, hc => by
    simp only [Node.applyEdits] at h
    simp only [nodeAll] at hc
    cases ht : NodeList.applyEdits tn e t with
    | none => rw [ht] at h; cases h
    | some t' =>
      cases hel : NodeList.applyEdits tn e el with
      | none => rw [ht, hel] at h; cases h
      | some el' =>
        rw [ht, hel] at h; cases h
        simp only [nodeAll]
        exact ⟨list_apply_cov G tn e hG t t' ht hc.1, list_apply_cov G tn e hG el el' hel hc.2⟩
  | .rangeN id p t el, r, h, hc => by
    simp only [Node.applyEdits] at h
    simp only [nodeAll] at hc
    cases ht : NodeList.applyEdits tn e t with
    | none => rw [ht] at h; cases h
    | some t' =>
      cases hel : NodeList.applyEdits tn e el with
      | none => rw [ht, hel] at h; cases h
      | some el' =>
        rw [ht, hel] at h; cases h
        simp only [nodeAll]
        exact ⟨list_apply_cov G tn e hG t t' ht hc.1, list_apply_cov G tn e hG el el' hel hc.2⟩
  | .withN id p t el, r, h, hc => by
    simp only [Node.applyEdits] at h
    simp only [nodeAll] at hc
    cases ht : NodeList.applyEdits tn e t with
    | none => rw [ht] at h; cases h
    | some t' =>
      cases hel : NodeList.applyEdits tn e el with
      | none => rw [ht, hel] at h; cases h
      | some el' =>
        rw [ht, hel] at h; cases h
        simp only [nodeAll]
        exact ⟨list_apply_cov G tn e hG t t' ht hc.1, list_apply_cov G tn e hG el el' hel hc.2⟩
  | .brk id, r, h, _ => by simp only [Node.applyEdits] at h; cases h; simp only [nodeAll]
  | .cont id, r, h, _ => by simp only [Node.applyEdits] at h; cases h; simp only [nodeAll]
  | .comment id, r, h, _ => by simp only [Node.applyEdits] at h; cases h; simp only [nodeAll]
theorem list_apply_cov (G : String → Prop) (tn : String) (e : Esc)
    (hG : ∀ q ∈ e.tmplEdits, q.1.1 = tn → G q.2) : ∀ (l r : NodeList), NodeList.applyEdits tn e l = some r →
    listAll (fun id name => HasEdit e tn id ∨ G name) l → listAll (fun _ name => G name) r
  | .nil, r, h, _ => by simp only [NodeList.applyEdits] at h; cases h; simp only [listAll]
  | .cons n ns, r, h, hc => by
    simp only [NodeList.applyEdits] at h
    simp only [listAll] at hc
    cases hn : Node.applyEdits tn e n with
    | none => rw [hn] at h; cases h
    | some n' =>
      cases hns : NodeList.applyEdits tn e ns with
      | none => rw [hn, hns] at h; cases h
      | some ns' =>
        rw [hn, hns] at h; cases h
        simp only [listAll]
        exact ⟨node_apply_cov G tn e hG n n' hn hc.1, list_apply_cov G tn e hG ns ns' hns hc.2⟩
end


def Iw (G : String → Prop) (e : Esc) (n : String) (ts : TextSet) : Prop :=
  ∀ tr, ts.lookup n = some (some tr) → listAll (fun id name => HasEdit e n id ∨ G name) tr.root
def Js (G : String → Prop) (n : String) (ts : TextSet) : Prop :=
  ∀ tr, ts.lookup n = some (some tr) → listAll (fun _ name => G name) tr.root

theorem Js.iw {G : String → Prop} {e : Esc} {n : String} {ts : TextSet} (h : Js G n ts) : Iw G e n ts :=
  fun tr htr => listAll_mono (fun _ _ hg => .inr hg) _ (h tr htr)

theorem editStep_IJ (G : String → Prop) (e : Esc) (n : String)
    (hG : ∀ q ∈ e.tmplEdits, q.1.1 = n → G q.2) (ts ts' : TextSet) (m : String)
    (h : editStep e ts m = .ok ts') :
    (Iw G e n ts → Iw G e n ts') ∧ (Js G n ts → Js G n ts') ∧ (m = n → Iw G e n ts → Js G n ts') := by
  by_cases hm : n = m
  · subst hm
    have key : Iw G e n ts → Js G n ts' := by
      intro hi
      unfold editStep at h
      split at h
      · rename_i tr htr
        split at h
        · rename_i r hr
          cases h
          intro tr' htr'
          rw [lookup_set, if_pos rfl] at htr'
          cases htr'
          exact list_apply_cov G n e hG _ _ hr (hi tr htr)
        · cases h
      · rename_i hnt
        cases h
        intro tr' htr'
        exact absurd htr' (hnt tr')
    exact ⟨fun hi => (key hi).iw, fun hj => key hj.iw, fun _ hi => key hi⟩
  · have hl := editStep_lookup_other e ts ts' m n h hm
    refine ⟨?_, ?_, fun h' => absurd h'.symm hm⟩
    · intro hi tr htr; rw [hl] at htr; exact hi tr htr
    · intro hj tr htr; rw [hl] at htr; exact hj tr htr

theorem edits_fold_J (G : String → Prop) (e : Esc) (n : String)
    (hG : ∀ q ∈ e.tmplEdits, q.1.1 = n → G q.2) (names : List String) : ∀ (ts ts' : TextSet),
    names.foldlM (editStep e) ts = .ok ts' → Iw G e n ts → (Js G n ts ∨ n ∈ names) → Js G n ts' := by
  induction names with
  | nil =>
    intro ts ts' h _ hj
    cases h
    rcases hj with hj | hj
    · exact hj
    · cases hj
  | cons m t ih =>
    intro ts ts' h hi hj
    rw [List.foldlM_cons] at h
    obtain ⟨ts1, h1, h2⟩ := bind_ok h
    obtain ⟨k1, k2, k3⟩ := editStep_IJ G e n hG ts ts1 m h1
    apply ih ts1 ts' h2 (k1 hi)
    rcases hj with hj | hj
    · exact .inl (k2 hj)
    · rcases List.mem_cons.mp hj with hj | hj
      · exact .inl (k3 hj.symm hi)
      · exact .inr hj


theorem mem_editNames_of_tmpl (e : Esc) (q : EditKey × String) (h : q ∈ e.tmplEdits) : q.1.1 ∈ editNames e := by
  unfold editNames
  rw [List.mem_eraseDups, List.mem_append, List.mem_append]
  exact .inl (.inr (List.mem_map.mpr ⟨q, h, rfl⟩))

theorem relink_fst (t : TextSet) (p : String × Tree) : (relink t p).1 = p.1 := by
  unfold relink; split <;> rfl

/-- **The commit establishes closedness**: afterwards the invariant holds again (nothing pending), and the installed
    tree of every name memoized with a good context calls only such names. -/
theorem good_commit {text : TextSet} {e1 : Esc} {text2 : TextSet} {e2 : Esc} (hg : Good text e1)
    (h : commit text e1 = .ok (text2, e2)) :
    Good text2 e2 ∧ ∀ n, MemoOk e2 n → Js (MemoOk e2) n text2 := by
  have hpost := commit_post text e1 text2 e2 h
  obtain ⟨pr, h1, rfl⟩ := commit_spec text e1 text2 e2 h
  obtain ⟨⟨b1, b2, b3, b4, b5⟩, hdm, hrel, _⟩ := hg
  have key : ∀ n, MemoOk e1 n → Js (MemoOk e1) n text2 := by
    intro n hok
    obtain ⟨hE, hT⟩ := hrel n hok (fun h => h)
    have hI : Iw (MemoOk e1) { e1 with pristine := pr } n (e1.derived.foldl installStep text) := by
      intro tr htr
      apply hT tr
      rcases install_lookup e1.derived text n with hl | ⟨d, hd, hl⟩
      · exact .inl (hl ▸ htr)
      · rw [hl] at htr; cases htr; exact .inr hd
    refine edits_fold_J (MemoOk e1) { e1 with pristine := pr } n hE (editNames e1) _ _ h1 hI ?_
    by_cases hmem : n ∈ editNames e1
    · exact .inr hmem
    · refine .inl (fun tr htr => listAll_mono ?_ _ (hI tr htr))
      intro i m hc
      rcases hc with ⟨q, hq, hk⟩ | hc
      · have := mem_editNames_of_tmpl e1 q hq
        rw [hk] at this
        exact absurd this hmem
      · exact hc
  refine ⟨⟨⟨b1, ?_, ?_, b4, fun _ hq => (nomatch hq)⟩, ?_, ?_, fun _ hf => hf.elim⟩, key⟩
  · intro p hp q hq hpq
    have h2 := hpost.2.2.2.2.2 p hp
    have h3 := hpost.2.2.2.2.2 q hq
    rw [hpq, h3] at h2
    simp only [Option.some.injEq] at h2
    exact h2.symm
  · intro p hp
    exact .inr (hpost.2.2.2.2.2 p hp)
  · intro p hp
    simp only [List.mem_map] at hp
    obtain ⟨q, hq, rfl⟩ := hp
    unfold Memo
    rw [relink_fst]
    exact hdm q hq
  · intro n hok _
    refine ⟨fun _ hq => (nomatch hq), fun tr htr => ?_⟩
    have hl : text2.lookup n = some (some tr) := by
      rcases htr with htr | htr
      · exact htr
      · exact hpost.2.2.2.2.2 _ htr
    exact listAll_mono (fun _ _ hg => .inr hg) _ (key n hok tr hl)


/-! ### 10e. the API: closedness holds in every reachable state -/

def GoodNs (n : NS) : Prop := Good n.text n.esc

/-- a set that has not been executed yet (empty escaper) satisfies the invariant, whatever was parsed into it -/
theorem goodNs_fresh (n : NS) (ho : n.esc.output = []) (hd : n.esc.derived = []) (ht : n.esc.tmplEdits = []) :
    GoodNs n := good_fresh n.text n.esc ho hd ht

theorem finalError_text (c : Ctx) (h : finalError c = none) : c.state = .text := by
  unfold finalError at h
  split at h
  · rename_i hs; rw [h] at hs; cases hs
  · split at h
    · cases h
    · rename_i hs; simpa using hs

/-- `escapeTemplateTop_spec` with the analysis environment made explicit (its text set is the set's text set) -/
theorem escapeTemplateTop_spec_env (w : World) (ns : Nat) (name : String) (w' : World) (r : Option ErrCode)
    (h : escapeTemplateTop w ns name = .inr (w', r)) :
    ∃ (env : Env) (e1 : Esc) (c : Ctx) (d : String), env.text = (w.ns ns).text ∧
      escapeTree env w.fuel (w.ns ns).esc {} name = .ok (e1, c, d) ∧
      ((∃ code, r = some code ∧ w'.ns ns = { w.ns ns with esc := e1 }) ∨
       (∃ text2 e2, r = none ∧ finalError c = none ∧ commit (w.ns ns).text e1 = .ok (text2, e2) ∧
          w'.ns ns = { w.ns ns with esc := e2, text := text2 })) := by
  unfold escapeTemplateTop at h
  simp only [] at h
  split at h
  · cases h
  · cases h
  · rename_i e1 c d hesc
    refine ⟨_, e1, c, d, rfl, hesc, ?_⟩
    split at h
    · rename_i code _
      simp only [Sum.inr.injEq, Prod.mk.injEq] at h
      obtain ⟨rfl, rfl⟩ := h
      exact .inl ⟨code, rfl, markFailed_ns ..⟩
    · rename_i hfin
      split at h
      · cases h
      · cases h
      · rename_i text2 e2 hc
        simp only [Sum.inr.injEq, Prod.mk.injEq] at h
        obtain ⟨rfl, rfl⟩ := h
        exact .inr ⟨text2, e2, rfl, hfin, hc, markOk_ns ..⟩

/-- **One critical section keeps the invariant; a successful one memoizes the analysed name with a good context and
    leaves the good names closed under `{{template}}` calls.** -/
theorem good_top (w w' : World) (ns : Nat) (name : String) (r : Option ErrCode) (hg : GoodNs (w.ns ns))
    (h : escapeTemplateTop w ns name = .inr (w', r)) :
    GoodNs (w'.ns ns) ∧
    (r = none → MemoOk (w'.ns ns).esc name ∧ Closed (MemoOk (w'.ns ns).esc) (w'.ns ns).text) := by
  obtain ⟨env, e1, c, d, henv, hesc, hr⟩ := escapeTemplateTop_spec_env w ns name w' r h
  have hg' : Good env.text (w.ns ns).esc := by rw [henv]; exact hg
  obtain ⟨g1, m1⟩ := good_analysis hg' _ name _ hesc
  rw [henv] at g1
  simp only [] at g1 m1
  rcases hr with ⟨code, rfl, hns⟩ | ⟨text2, e2, rfl, hfin, hc, hns⟩
  · rw [hns]
    exact ⟨g1, fun hf => nomatch hf⟩
  · obtain ⟨g2, j2⟩ := good_commit g1 hc
    have hout : e2.output = e1.output := (commit_post _ _ _ _ hc).1
    rw [hns]
    refine ⟨g2, fun _ => ⟨?_, ?_⟩⟩
    · have hcs : c.state ≠ .error := by rw [finalError_text c hfin]; decide
      obtain ⟨v, hv, hne⟩ := m1 hcs
      exact ⟨v, by simp only []; rw [hout]; exact hv, hne⟩
    · intro n hn tr htr
      exact listAll_callsIn _ (j2 n hn tr htr)

theorem analyses_other_ns (ns : Nat) : ∀ (names : List String) (w : World) (k : Nat), k ≠ ns →
    (analyses ns w names).ns k = w.ns k := by
  intro names
  induction names with
  | nil => intro w k _; rfl
  | cons n t ih =>
    intro w k hk
    unfold analyses
    split
    · rename_i w' r heq
      obtain ⟨_, _, _, _, _, _, hoth, _⟩ := escapeTemplateTop_spec w ns n w' r heq
      rw [ih w' k hk, hoth k hk]
    · exact ih w k hk

theorem good_analyses (ns : Nat) : ∀ (names : List String) (w : World), GoodNs (w.ns ns) →
    GoodNs ((analyses ns w names).ns ns) := by
  intro names
  induction names with
  | nil => intro w h; exact h
  | cons n t ih =>
    intro w hg
    unfold analyses
    split
    · rename_i w' r heq
      exact ih w' (good_top w w' ns n r hg heq).1
    · exact ih w hg

/-- **C09 frozen, for reachable states — no closedness hypothesis.** Start from any world whose name space `ns`
    satisfies the invariant (in particular: a set that has never been executed, with arbitrary parsed templates,
    `goodNs_fresh`). After any sequence `before` of analyses in that set (successful or failed), let the analysis of
    `o` succeed. Then no sequence `after` of further analyses changes what `o` executes. -/
theorem C09_frozen_reachable (w0 : World) (ns : Nat) (hg : GoodNs (w0.ns ns)) (before : List String)
    (o : TObj) (hons : o.ns = ns) (w1 : World)
    (h : escapeTemplateTop (analyses ns w0 before) ns o.name = .inr (w1, none))
    (after : List String) (d : Value) :
    textExecute (analyses ns w1 after) o d = textExecute w1 o d := by
  obtain ⟨_, hcl⟩ := good_top _ w1 ns o.name none (good_analyses ns before w0 hg) h
  obtain ⟨hm, hc⟩ := hcl rfl
  exact C09_frozen_after_own_analysis (MemoOk (w1.ns ns).esc) _ w1 ns o d hons h (fun _ hn => hn.memo) hm hc after

/-- the same as a statement about the state reached: after its own successful analysis `o` is `Settled`, which the
    complete critical sections of Execute / ExecuteTemplate preserve (`apiExecute_frozen`, `apiExecuteTemplate_frozen`) -/
theorem settled_after_own_analysis (w w1 : World) (ns : Nat) (hg : GoodNs (w.ns ns)) (o : TObj) (hons : o.ns = ns)
    (h : escapeTemplateTop w ns o.name = .inr (w1, none)) :
    Settled (MemoOk (w1.ns ns).esc) w1 o := by
  obtain ⟨_, hcl⟩ := good_top w w1 ns o.name none hg h
  obtain ⟨hm, hc⟩ := hcl rfl
  obtain ⟨hi, _⟩ := own_analysis_establishes w w1 ns o.name h
  subst hons
  exact ⟨Inv.mono hi (fun _ hn => hn.memo), hc, hm⟩


/-! #### non-vacuity of `C09_frozen_reachable`

`Demo.w0` (section 8) is a freshly parsed set. `bad` is analysed first and fails with ErrEndContext — leaving pending
edits for `bad` and `h` in the escaper —, then `A` is analysed successfully; whatever is analysed afterwards, `A`
executes the same. -/
namespace Demo

theorem w0_fresh : GoodNs (w0.ns 0) :=
  goodNs_fresh _ (by decide +kernel) (by decide +kernel) (by decide +kernel)

def checkR : Bool :=
  match escapeTemplateTop w0 0 "bad" with
  | .inr (wb, some .endContext) =>
    (wb.ns 0).esc.actionEdits.length != 0 &&
    (match escapeTemplateTop wb 0 "A" with
     | .inr (_, none) => true
     | _ => false)
  | _ => false

theorem checkR_true : checkR = true := by decide +kernel

theorem A_frozen_after_failed_bad : ∃ w1, escapeTemplateTop (analyses 0 w0 ["bad"]) 0 "A" = .inr (w1, none) ∧
    ∀ (o : TObj) (d : Value) (after : List String), o.ns = 0 → o.name = "A" →
      textExecute (analyses 0 w1 after) o d = textExecute w1 o d := by
  have hc := checkR_true
  unfold checkR at hc
  split at hc
  · rename_i wb hb
    simp only [Bool.and_eq_true] at hc
    obtain ⟨_, hc⟩ := hc
    split at hc
    · rename_i w1 hA
      have hrun : analyses 0 w0 ["bad"] = wb := by
        unfold analyses; rw [hb]; rfl
      refine ⟨w1, by rw [hrun]; exact hA, ?_⟩
      intro o d after hns hname
      exact C09_frozen_reachable w0 0 w0_fresh ["bad"] o hns w1 (by rw [hname, hrun]; exact hA) after d
    · cases hc
  · cases hc

end Demo

/-! ### Summary

Definitions
* `Pre F e`      — every name of `F` is memoized in `e.output`; no pending action/template/text edit names one of `F`.
* `Inv F text e` — `Pre F e` and every derived entry whose name is in `F` IS the installed tree.
  (`NsInv F ns` = the same for one name space; `Settled F w o` adds `Closed F` and `F o.name`.)
* `Closed F text` — the installed tree of every name in `F` calls only names in `F`.
* `Memo e n` / `MemoOk e n` — `n` is memoized / memoized with a context that is not the error context.
* `Good text e` (`GoodNs ns`) — the invariant between critical sections: association lists are functional, derived
  entries agree with the text set, memo values are well-formed error contexts or no error contexts, and every name
  memoized with a good context is `Covered`: its pending template edits have good values and every `{{template}}`
  node of its (installed or derived) tree either has a pending edit or already calls a good name.
* `analyses ns w names` — a sequence of critical sections of Execute calls.

Proved (sections 1–8; all inputs, no reachability assumption unless stated)
* `analysis_inv`, `escapeTree_step`: the six mutually recursive escaper functions keep `Pre F` and never create a
  derived tree with a name of `F` (scratch escapers, the fixpoint retry and merged edits included).
* (a) `commit_keeps`, `commit_post`; (b) `failed_keeps_text`, `failed_frozen`; `top_preserves`,
  `own_analysis_establishes` (from an ARBITRARY world), `walk_congr`, `textExecute_congr_on`.
* (c) `frozen_step`, `frozen_step_any`, `frozen_many`, `C09_frozen_under_inv`, `C09_frozen_after_own_analysis`,
  `C09_frozen_checked`, `apiExecute_frozen`, `apiExecuteTemplate_frozen` (under `Settled`, i.e. with `Closed` as a
  hypothesis), `closedOnB_sound`, `Demo.A_frozen`.

Proved (section 10; the closedness that was a hypothesis before)
* error contexts: `transition_errwf`, `contextAfterText_errwf/_isErr`, `escapeText_post`, `join_errwf`, `join_isErr`:
  every context in the error state is one of the `errorCtx` values, and such a context is sticky.
* `analysis_spec` (six mutually recursive functions): `Good`-style coverage is maintained relative to the names
  memoized when a frame starts; a `{{template}}` node whose callee analysis does not return an error context gets an
  edit to / already names a name memoized with a good context; an error context stays an error context
  (this uses the repaired `escapeTree`), so a body that is kept (`ok`) has all its nodes covered.
* `good_commit`: the commit turns coverage into `Closed (MemoOk e) text` and re-establishes `Good` (nothing pending).
* `good_top`, `good_analyses`: one / many critical sections keep `GoodNs`; `goodNs_fresh`: an unexecuted set is good.
* **`C09_frozen_reachable`**, `settled_after_own_analysis`: the frozen property without any closedness hypothesis.
  `Demo.A_frozen_after_failed_bad`: non-vacuity (a failed analysis with pending edits, then `A`, then anything).
* `C09_frozen_statement_false` (unreachable hand-made state), `Old.rejected` (the former reachable witness).

Not proved
* That `(ns.text, ns.esc)` of an executed set are changed by no API operation other than Execute* (Parse is gated,
  Clone/New/Lookup create or read): `GoodNs`/`Settled` are shown to be preserved by the critical sections of
  Execute/ExecuteTemplate only (`api*_frozen`, `good_top`). That New/Parse/Clone produce a name space with an empty
  escaper (so that `goodNs_fresh` applies) is read off the model (`World.newSet`, `apiClone`: `esc := {}` by default)
  but not stated as a theorem over `Api.step`.
-/

end SafeHtml.Proofs.Frozen
