/- Basic lemmas about the association lists and the world updates of the API model. -/
import SafeHtml.Model.Tmpl.Step
namespace SafeHtml.Model.Tmpl
open SafeHtml

theorem nlookup_nset_same {β} (l : List (Nat × β)) (k : Nat) (v : β) : nlookup (nset l k v) k = some v := by
  simp [nlookup, nset]

theorem nlookup_nset_other {β} (l : List (Nat × β)) (k k' : Nat) (v : β) (hne : k' ≠ k) :
    nlookup (nset l k v) k' = nlookup l k' := by
  have h1 : (k == k') = false := by simp; exact fun h => hne h.symm
  simp only [nlookup, nset, List.find?_cons, h1]
  congr 1
  induction l with
  | nil => rfl
  | cons p t ih =>
    by_cases hp : p.1 = k
    · have : (p.1 == k') = false := by rw [hp]; exact h1
      simp [List.filter_cons, hp, List.find?_cons, this, ih, h1]
    · have hf : (p.1 != k) = true := by simp [hp]
      simp only [List.filter_cons, hf, if_true, List.find?_cons]
      split
      · rfl
      · exact ih

theorem ns_setNs_same (w : World) (k : Nat) (n : NS) : (w.setNs k n).ns k = n := by
  simp [World.ns, World.setNs, nlookup_nset_same]

theorem ns_setNs_other (w : World) (k k' : Nat) (n : NS) (h : k' ≠ k) : (w.setNs k n).ns k' = w.ns k' := by
  simp [World.ns, World.setNs, nlookup_nset_other _ _ _ _ h]

theorem ns_setObj (w : World) (k : Nat) (o : TObj) (k' : Nat) : (w.setObj k o).ns k' = w.ns k' := rfl

theorem ns_bind (w : World) (h id k' : Nat) : (w.bind h id).ns k' = w.ns k' := rfl

theorem objs_setNs (w : World) (k : Nat) (n : NS) : (w.setNs k n).objs = w.objs := rfl
theorem handles_setNs (w : World) (k : Nat) (n : NS) : (w.setNs k n).handles = w.handles := rfl
theorem handles_setObj (w : World) (k : Nat) (o : TObj) : (w.setObj k o).handles = w.handles := rfl

theorem obj_setNs (w : World) (k : Nat) (n : NS) (h : Nat) : (w.setNs k n).obj h = w.obj h := rfl

end SafeHtml.Model.Tmpl

namespace SafeHtml.Model.Tmpl
open SafeHtml

theorem markFailed_escaped (w : World) (n : Nat) (name : String) (e : Esc) (c : ErrCode) :
    ((markFailed w n name e c).ns n).escaped = (w.ns n).escaped := by
  unfold markFailed
  simp only []
  split
  · split <;> simp [ns_setObj, ns_setNs_same]
  · simp [ns_setNs_same]

theorem markOk_escaped (w : World) (n : Nat) (name : String) (t : TextSet) (e : Esc) :
    ((markOk w n name t e).ns n).escaped = (w.ns n).escaped := by
  unfold markOk
  simp only []
  split
  · split <;> simp [ns_setObj, ns_setNs_same]
  · simp [ns_setNs_same]

theorem escapeTemplateTop_escaped (w : World) (n : Nat) (name : String) (w' : World) (r : Option ErrCode)
    (h : escapeTemplateTop w n name = .inr (w', r)) : (w'.ns n).escaped = (w.ns n).escaped := by
  unfold escapeTemplateTop at h
  simp only [] at h
  split at h
  · cases h
  · cases h
  · split at h
    · simp only [Sum.inr.injEq, Prod.mk.injEq] at h; rw [← h.1]; exact markFailed_escaped ..
    · split at h
      · cases h
      · cases h
      · simp only [Sum.inr.injEq, Prod.mk.injEq] at h; rw [← h.1]; exact markOk_escaped ..

/-- the result of escapeTemplateTop is an error exactly when the template was marked failed -/
theorem escapeTemplateTop_none_ok (w : World) (n : Nat) (name : String) (w' : World)
    (h : escapeTemplateTop w n name = .inr (w', none)) :
    ∃ t e, w' = markOk w n name t e := by
  unfold escapeTemplateTop at h
  simp only [] at h
  split at h
  · cases h
  · cases h
  · split at h
    · simp at h
    · split at h
      · cases h
      · cases h
      · rename_i t e _
        simp only [Sum.inr.injEq, Prod.mk.injEq] at h
        exact ⟨t, e, h.1.symm⟩

end SafeHtml.Model.Tmpl
