/-
C12: `Model.isSafeURL` is stable under writing a leading / trailing comma of the URL as `%2c`
(`SafeStable isSafeURL`). Uses the byte-level reading of `safeURLPattern` from `Proofs/UrlRx.lean` (C11).
-/
import SafeHtml.Proofs.UrlSet
import SafeHtml.Proofs.UrlRx
namespace SafeHtml.Proofs.UrlSet
open SafeHtml SafeHtml.Model SafeHtml.Model.UrlSet SafeHtml.UrlRx

theorem span_append_stops (p : Nat → Bool) (B : Bytes) (hB : Stops p B) : ∀ (M : Bytes),
    (M ++ B).takeWhile p = M.takeWhile p ∧ (M ++ B).dropWhile p = M.dropWhile p ++ B := by
  intro M
  induction M with
  | nil => simp [takeWhile_stops p B hB, dropWhile_stops p B hB]
  | cons c t ih =>
    by_cases hc : p c = true
    · simp [hc, ih.1, ih.2]
    · simp [hc]

theorem head_dropWhile_sandwich (p : Nat → Bool) (A B : Bytes) (hA : ∀ a ∈ A, p a = true) (hB : ∀ b ∈ B, p b = true) :
    ∀ (M : Bytes), ((A ++ M ++ B).dropWhile p).head? = (M.dropWhile p).head? := by
  intro M
  rw [List.append_assoc, List.dropWhile_append_of_pos hA]
  induction M with
  | nil =>
    have : B.dropWhile p = [] := by
      have := List.dropWhile_append_of_pos (l₂ := ([] : Bytes)) hB
      simpa using this
    simp [this]
  | cons c t ih =>
    by_cases hc : p c = true
    · simp [hc, ih]
    · simp [hc]

theorem handCaps2_head (t : Bytes) :
    handCaps2 t = match (t.dropWhile isNegB).head? with
      | none => some none
      | some c => if isDelimB c then some none else none := by
  unfold handCaps2
  cases t.dropWhile isNegB <;> rfl

theorem handCaps2_sandwich (A B M : Bytes) (hA : ∀ a ∈ A, isNegB a = true) (hB : ∀ b ∈ B, isNegB b = true) :
    handCaps2 (A ++ M ++ B) = handCaps2 M := by
  rw [handCaps2_head, handCaps2_head M, head_dropWhile_sandwich isNegB A B hA hB M]

/-- `handCaps` with the first alternative read off a given span -/
def capsWith (fallback : Option (Option Bytes)) (tw dw : Bytes) : Option (Option Bytes) :=
  match tw, dw with
  | c :: sch, d :: _ => if d == 58 then some (some (c :: sch)) else fallback
  | _, _ => fallback

theorem handCaps_capsWith (t : Bytes) :
    handCaps t = capsWith (handCaps2 t) (t.takeWhile isSchemeLower) (t.dropWhile isSchemeLower) := by
  unfold handCaps capsWith; rfl

/-- a suffix that starts with a byte that is neither a scheme byte nor `:` does not change the first alternative -/
theorem capsWith_suffix (f : Option (Option Bytes)) (M : Bytes) (b0 : Nat) (rest : Bytes)
    (h1 : isSchemeLower b0 = false) (h2 : b0 ≠ 58) :
    capsWith f ((M ++ b0 :: rest).takeWhile isSchemeLower) ((M ++ b0 :: rest).dropWhile isSchemeLower) =
      capsWith f (M.takeWhile isSchemeLower) (M.dropWhile isSchemeLower) := by
  obtain ⟨e1, e2⟩ := span_append_stops isSchemeLower (b0 :: rest) (stops_cons _ _ _ h1) M
  rw [e1, e2]
  cases hd : M.dropWhile isSchemeLower with
  | nil =>
    cases M.takeWhile isSchemeLower with
    | nil => rfl
    | cons c s => simp [capsWith, h2]
  | cons d r => cases M.takeWhile isSchemeLower <;> rfl

theorem toLower_sandwich (A core B : Bytes) (hA : ∀ b ∈ A, b < 128) (hB : ∀ b ∈ B, b < 128) :
    toLowerForScheme (A ++ core ++ B) = A.map asciiLower ++ toLowerForScheme core ++ B.map asciiLower := by
  rw [List.append_assoc, toLower_ascii_append A _ hA]
  cases B with
  | nil => simp
  | cons c r =>
    rw [toLower_append_ascii core c r (hB c (by simp))]
    have := toLower_ascii_append r [] (fun b hb => hB b (by simp [hb]))
    rw [List.append_nil, toLower_nil, List.append_nil] at this
    rw [this]; simp

/-- the two edge pieces before and after lowering: `,` ↦ `,`, `%2c` ↦ `%2c` -/
theorem handCaps_edge (L L' R R' M : Bytes)
    (hL : (L = [] ∧ L' = []) ∨ (L = [44] ∧ L' = [37, 50, 99]))
    (hR : (R = [] ∧ R' = []) ∨ (R = [44] ∧ R' = [37, 50, 99])) :
    handCaps (L' ++ M ++ R') = handCaps (L ++ M ++ R) := by
  have nL : ∀ a ∈ L, isNegB a = true := by rcases hL with ⟨rfl, _⟩ | ⟨rfl, _⟩ <;> decide
  have nL' : ∀ a ∈ L', isNegB a = true := by rcases hL with ⟨_, rfl⟩ | ⟨_, rfl⟩ <;> decide
  have nR : ∀ a ∈ R, isNegB a = true := by rcases hR with ⟨rfl, _⟩ | ⟨rfl, _⟩ <;> decide
  have nR' : ∀ a ∈ R', isNegB a = true := by rcases hR with ⟨_, rfl⟩ | ⟨_, rfl⟩ <;> decide
  -- second alternative: the same on both sides
  have h2 : handCaps2 (L' ++ M ++ R') = handCaps2 (L ++ M ++ R) :=
    (handCaps2_sandwich L' R' M nL' nR').trans (handCaps2_sandwich L R M nL nR).symm
  rcases hL with ⟨rfl, rfl⟩ | ⟨rfl, rfl⟩
  · -- no leading comma
    rcases hR with ⟨rfl, rfl⟩ | ⟨rfl, rfl⟩
    · rfl
    · rw [handCaps_capsWith, handCaps_capsWith, h2]
      simp only [List.nil_append]
      rw [capsWith_suffix _ M 37 [50, 99] (by decide) (by decide),
          capsWith_suffix _ M 44 [] (by decide) (by decide)]
  · -- leading comma: neither side can match the scheme alternative
    rw [handCaps_capsWith, handCaps_capsWith, h2]
    simp [capsWith, isSchemeLower, isLowerAlpha, isDigit]

theorem isSafeURL_stable : SafeStable isSafeURL := by
  intro u hu hs
  obtain ⟨lead, core, trail, hdec, hl, ht, hres, _, _⟩ := appendURLToSet_spec u hu
  rw [hres, isSafeURL_eq]
  rw [hdec, isSafeURL_eq] at hs
  have a1 : ∀ b ∈ lead, b < 128 := by rcases hl with rfl | rfl <;> decide
  have a2 : ∀ b ∈ trail, b < 128 := by rcases ht with rfl | rfl <;> decide
  have a3 : ∀ b ∈ encComma lead, b < 128 := by rcases hl with rfl | rfl <;> decide
  have a4 : ∀ b ∈ encComma trail, b < 128 := by rcases ht with rfl | rfl <;> decide
  rw [toLower_sandwich _ _ _ a1 a2] at hs
  rw [toLower_sandwich _ _ _ a3 a4]
  rw [handCaps_edge (lead.map asciiLower) ((encComma lead).map asciiLower) (trail.map asciiLower)
      ((encComma trail).map asciiLower) (toLowerForScheme core)
      (by rcases hl with rfl | rfl <;> simp [asciiLower, isUpperAlpha, pct2c])
      (by rcases ht with rfl | rfl <;> simp [asciiLower, isUpperAlpha, pct2c])]
  exact hs

end SafeHtml.Proofs.UrlSet
