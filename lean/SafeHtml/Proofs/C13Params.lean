/-
C13 helper lemmas for TrustedResourceURLWithParams: `sort.Strings` as the unique sorted
permutation (so the result does not depend on the order of the parameter list), and the effect on
the RFC 3986 components (only the query changes).
-/
import SafeHtml.Proofs.C13Escape
namespace SafeHtml.Proofs.C13
open SafeHtml SafeHtml.Model SafeHtml.Spec.Rfc3986 SafeHtml.Spec.TruUrl

theorem bytesLe_total (a b : Bytes) : bytesLe a b = true ∨ bytesLe b a = true := by
  induction a generalizing b with
  | nil => simp [bytesLe]
  | cons x s ih =>
    cases b with
    | nil => simp [bytesLe]
    | cons y t =>
      simp only [bytesLe, Bool.or_eq_true, Bool.and_eq_true, decide_eq_true_eq, beq_iff_eq]
      rcases Nat.lt_trichotomy x y with h | h | h
      · exact Or.inl (Or.inl h)
      · rcases ih t with h' | h'
        · exact Or.inl (Or.inr ⟨h, h'⟩)
        · exact Or.inr (Or.inr ⟨h.symm, h'⟩)
      · exact Or.inr (Or.inl h)

theorem bytesLe_trans (a b c : Bytes) (h1 : bytesLe a b = true) (h2 : bytesLe b c = true) :
    bytesLe a c = true := by
  induction a generalizing b c with
  | nil => simp [bytesLe]
  | cons x s ih =>
    cases b with
    | nil => simp [bytesLe] at h1
    | cons y t =>
      cases c with
      | nil => simp [bytesLe] at h2
      | cons z u =>
        simp only [bytesLe, Bool.or_eq_true, Bool.and_eq_true, decide_eq_true_eq, beq_iff_eq] at *
        rcases h1 with h1 | ⟨h1, h1'⟩
        · rcases h2 with h2 | ⟨h2, h2'⟩
          · exact Or.inl (by omega)
          · exact Or.inl (by omega)
        · rcases h2 with h2 | ⟨h2, h2'⟩
          · exact Or.inl (by omega)
          · exact Or.inr ⟨by omega, ih t u h1' h2'⟩

theorem bytesLe_antisymm (a b : Bytes) (h1 : bytesLe a b = true) (h2 : bytesLe b a = true) : a = b := by
  induction a generalizing b with
  | nil => cases b with
    | nil => rfl
    | cons y t => simp [bytesLe] at h2
  | cons x s ih =>
    cases b with
    | nil => simp [bytesLe] at h1
    | cons y t =>
      simp only [bytesLe, Bool.or_eq_true, Bool.and_eq_true, decide_eq_true_eq, beq_iff_eq] at *
      rcases h1 with h1 | ⟨h1, h1'⟩
      · rcases h2 with h2 | ⟨h2, h2'⟩ <;> omega
      · rcases h2 with h2 | ⟨h2, h2'⟩
        · omega
        · rw [h1, ih t h1' h2']

theorem insertSorted_perm (x : Bytes) (l : List Bytes) : (insertSorted x l).Perm (x :: l) := by
  induction l with
  | nil => simp [insertSorted]
  | cons y ys ih =>
    simp only [insertSorted]
    split
    · exact List.Perm.refl _
    · exact ((List.perm_cons y).2 ih).trans (List.Perm.swap x y ys)

theorem sortStrings_perm (l : List Bytes) : (sortStrings l).Perm l := by
  induction l with
  | nil => simp [sortStrings]
  | cons x l ih =>
    show (insertSorted x (sortStrings l)).Perm (x :: l)
    exact (insertSorted_perm x _).trans ((List.perm_cons x).2 ih)

theorem insertSorted_sorted (x : Bytes) (l : List Bytes)
    (h : l.Pairwise (fun a b => bytesLe a b = true)) :
    (insertSorted x l).Pairwise (fun a b => bytesLe a b = true) := by
  induction l with
  | nil => simp [insertSorted]
  | cons y ys ih =>
    simp only [insertSorted]
    rw [List.pairwise_cons] at h
    split
    · rename_i hxy
      rw [List.pairwise_cons]
      refine ⟨?_, List.pairwise_cons.2 h⟩
      intro a ha
      rcases List.mem_cons.1 ha with rfl | ha
      · exact hxy
      · exact bytesLe_trans _ _ _ hxy (h.1 a ha)
    · rename_i hxy
      rw [List.pairwise_cons]
      refine ⟨?_, ih h.2⟩
      intro a ha
      rcases List.mem_cons.1 ((insertSorted_perm x ys).mem_iff.1 ha) with rfl | ha
      · rcases bytesLe_total a y with h' | h'
        · exact absurd h' hxy
        · exact h'
      · exact h.1 a ha

theorem sortStrings_sorted (l : List Bytes) :
    (sortStrings l).Pairwise (fun a b => bytesLe a b = true) := by
  induction l with
  | nil => simp [sortStrings]
  | cons x l ih => exact insertSorted_sorted x _ ih

/-- the sorted permutation is unique -/
theorem sortStrings_perm_eq (l₁ l₂ : List Bytes) (h : l₁.Perm l₂) : sortStrings l₁ = sortStrings l₂ :=
  List.Perm.eq_of_pairwise (fun a b _ _ h1 h2 => bytesLe_antisymm a b h1 h2)
    (sortStrings_sorted l₁) (sortStrings_sorted l₂)
    ((sortStrings_perm l₁).trans (h.trans (sortStrings_perm l₂).symm))

theorem encodeParams_perm (p₁ p₂ : Args) (h : p₁.Perm p₂) : (encodeParams p₁).Perm (encodeParams p₂) :=
  List.Perm.filterMap _ h

/-- the result does not depend on the order in which the parameters are listed (Go: map iteration order) -/
theorem withParams_perm (t : Bytes) (p₁ p₂ : Args) (h : p₁.Perm p₂) :
    trustedResourceURLWithParams t p₁ = trustedResourceURLWithParams t p₂ := by
  unfold trustedResourceURLWithParams
  rw [sortStrings_perm_eq _ _ (encodeParams_perm p₁ p₂ h)]

/-- the text that is added to the query -/
def addedQuery (ps : Args) : Bytes := joinAmp (sortStrings (encodeParams ps))

theorem joinAmp_bytes (l : List Bytes) : ∀ b ∈ joinAmp l, b = 38 ∨ ∃ x ∈ l, b ∈ x := by
  induction l with
  | nil => simp [joinAmp]
  | cons x l ih =>
    cases l with
    | nil => intro b hb; simp [joinAmp] at hb; exact Or.inr ⟨x, by simp, hb⟩
    | cons y t =>
      intro b hb
      simp only [joinAmp, List.mem_append, List.mem_cons] at hb
      rcases hb with hb | hb | hb
      · exact Or.inr ⟨x, by simp, hb⟩
      · exact Or.inl hb
      · rcases ih b hb with h | ⟨z, hz, hbz⟩
        · exact Or.inl h
        · exact Or.inr ⟨z, List.mem_cons_of_mem _ hz, hbz⟩

/-- the added text contains only unreserved bytes, `%`, `=` and `&` -/
theorem addedQuery_bytes (ps : Args) :
    ∀ b ∈ addedQuery ps, isUnreserved b = true ∨ b = 37 ∨ b = 61 ∨ b = 38 := by
  intro b hb
  rcases joinAmp_bytes _ b hb with h | ⟨x, hx, hbx⟩
  · exact Or.inr (Or.inr (Or.inr h))
  · have hx' := (sortStrings_perm _).mem_iff.1 hx
    simp only [encodeParams, List.mem_filterMap] at hx'
    obtain ⟨kv, _, hkv⟩ := hx'
    split at hkv
    · cases hkv
    · cases hkv
      simp only [List.mem_append, List.mem_cons, queryEscapeURL_eq] at hbx
      rcases hbx with h | h | h
      · rcases pctEncodeAll_bytes _ b h with h | h
        · exact Or.inl h
        · exact Or.inr (Or.inl h)
      · exact Or.inr (Or.inr (Or.inl h))
      · rcases pctEncodeAll_bytes _ b h with h | h
        · exact Or.inl h
        · exact Or.inr (Or.inl h)

theorem cutAt_append (c : Nat) (t : Bytes) : (cutAt c t).1 ++ (cutAt c t).2 = t := by
  induction t with
  | nil => rfl
  | cons b t ih =>
    simp only [cutAt]
    split
    · rfl
    · simp [ih]

/-- pairs with an empty key or value are skipped; nothing to add ⇒ the URL is returned unchanged -/
theorem withParams_nothing (t : Bytes) (ps : Args) (h : encodeParams ps = []) :
    trustedResourceURLWithParams t ps = t := by
  simp [trustedResourceURLWithParams, h, sortStrings, cutAt_append]


theorem cut_fst_eq (c : Nat) (s : Bytes) : (cut c s).1 = (cutAt c s).1 := by
  induction s with
  | nil => rfl
  | cons b t ih =>
    simp only [cut, cutAt]
    split <;> simp [ih]

theorem cutAt_snd_eq (c : Nat) (s : Bytes) :
    (cutAt c s).2 = match (cut c s).2 with | none => [] | some a => c :: a := by
  induction s with
  | nil => rfl
  | cons b t ih =>
    simp only [cut, cutAt]
    split
    · rename_i hb
      simp only [beq_iff_eq] at hb
      simp [hb]
    · simpa using ih

theorem cutAt_fst_not_mem (c : Nat) (s : Bytes) : c ∉ (cutAt c s).1 := by
  induction s with
  | nil => simp [cutAt]
  | cons b t ih =>
    simp only [cutAt]
    split
    · simp
    · rename_i hb
      simp only [beq_iff_eq] at hb
      simp only [List.mem_cons, not_or]
      exact ⟨fun h => hb h.symm, ih⟩

theorem cut_append_of_not_mem (c : Nat) (p q : Bytes) (h : c ∉ p) :
    cut c (p ++ q) = (p ++ (cut c q).1, (cut c q).2) := by
  induction p with
  | nil => simp
  | cons b p ih =>
    simp only [List.mem_cons, not_or] at h
    have hb : (b == c) = false := by simp; exact fun e => h.1 e.symm
    simp [cut, hb, ih h.2]

theorem cut_append_of_some (c : Nat) (p q a : Bytes) (h : (cut c p).2 = some a) :
    cut c (p ++ q) = ((cut c p).1, some (a ++ q)) := by
  induction p with
  | nil => simp [cut] at h
  | cons b p ih =>
    simp only [cut] at h ⊢
    simp only [List.cons_append, cut]
    split
    · rename_i hb
      simp only [hb, if_true] at h
      simp only [Option.some.injEq] at h
      simp [h]
    · rename_i hb
      simp only [hb] at h
      simp [ih h]

theorem cut_snd_none (c : Nat) (p : Bytes) (h : (cut c p).2 = none) : c ∉ p ∧ (cut c p).1 = p := by
  induction p with
  | nil => simp [cut]
  | cons b p ih =>
    simp only [cut] at h ⊢
    split
    · rename_i hb; simp [hb] at h
    · rename_i hb
      simp only [hb] at h
      simp only [beq_iff_eq] at hb
      have := ih h
      simp only [List.mem_cons, not_or]
      exact ⟨⟨fun e => hb e.symm, this.1⟩, by simp [this.2]⟩

theorem cut_cutAt_snd (c : Nat) (s : Bytes) : cut c (cutAt c s).2 = ([], (cut c s).2) := by
  induction s with
  | nil => rfl
  | cons b t ih =>
    simp only [cutAt]
    split
    · rename_i hb; simp [cut, hb]
    · rename_i hb; simp [cut, hb, ih]

theorem split_of (s P B : Bytes) (F Q : Option Bytes) (h1 : cut 35 s = (P, F)) (h2 : cut 63 P = (B, Q)) :
    split s = { scheme := (splitScheme B).1, authority := (splitAuthority (splitScheme B).2).1,
                path := (splitAuthority (splitScheme B).2).2, query := Q, fragment := F } := by
  simp [split, h1, h2]

theorem sortStrings_ne_nil (l : List Bytes) (h : l ≠ []) : sortStrings l ≠ [] := by
  intro e
  have := (sortStrings_perm l).length_eq
  rw [e] at this
  exact h (List.eq_nil_of_length_eq_zero this.symm)

theorem withParams_eq (t : Bytes) (ps : Args) (h : encodeParams ps ≠ []) :
    trustedResourceURLWithParams t ps =
      ((cutAt 35 t).1 ++ (match (cutAt 63 (cutAt 35 t).1).2 with
          | [] => [63] | [_] => [] | _ => [38]) ++ addedQuery ps) ++ (cutAt 35 t).2 := by
  have := sortStrings_ne_nil _ h
  simp only [trustedResourceURLWithParams, addedQuery]
  cases hs : sortStrings (encodeParams ps) with
  | nil => exact absurd hs this
  | cons x l => simp; rfl

theorem addedQuery_no_hash (ps : Args) : 35 ∉ addedQuery ps := by
  intro h
  have := addedQuery_bytes ps 35 h
  revert this
  decide

/-- only the query component changes; the existing query is a prefix of the new one -/
theorem withParams_split (t : Bytes) (ps : Args) (h : encodeParams ps ≠ []) :
    (split (trustedResourceURLWithParams t ps)).scheme = (split t).scheme ∧
    (split (trustedResourceURLWithParams t ps)).authority = (split t).authority ∧
    (split (trustedResourceURLWithParams t ps)).path = (split t).path ∧
    (split (trustedResourceURLWithParams t ps)).fragment = (split t).fragment ∧
    (split (trustedResourceURLWithParams t ps)).query =
      some (match (split t).query with
        | none => addedQuery ps
        | some [] => addedQuery ps
        | some (c :: q) => (c :: q) ++ 38 :: addedQuery ps) := by
  rw [withParams_eq t ps h]
  generalize hurl : (cutAt 35 t).1 = url
  have hnu : 35 ∉ url := hurl ▸ cutAt_fst_not_mem 35 t
  have hct : cut 35 t = (url, (cut 35 t).2) := Prod.ext (by rw [← hurl, cut_fst_eq]) rfl
  have hA := addedQuery_no_hash ps
  generalize addedQuery ps = added at hA ⊢
  cases hq : (cut 63 url).2 with
  | none =>
    obtain ⟨hn, h1⟩ := cut_snd_none 63 url hq
    have hcu : cut 63 url = (url, none) := Prod.ext h1 hq
    have hsep : (cutAt 63 url).2 = [] := by rw [cutAt_snd_eq, hq]
    rw [hsep]
    have hP : 35 ∉ url ++ [63] ++ added := by simp [hnu, hA]
    have hcr : cut 35 (url ++ [63] ++ added ++ (cutAt 35 t).2) = (url ++ [63] ++ added, (cut 35 t).2) := by
      rw [cut_append_of_not_mem 35 _ _ hP, cut_cutAt_snd]; simp
    have hcP : cut 63 (url ++ [63] ++ added) = (url, some added) := by
      rw [List.append_assoc, cut_append_of_not_mem 63 _ _ hn]; simp [cut]
    rw [split_of _ _ _ _ _ hcr hcP, split_of _ _ _ _ _ hct hcu]
    simp
  | some q =>
    have hcu : cut 63 url = ((cut 63 url).1, some q) := Prod.ext rfl hq
    have hsep : (cutAt 63 url).2 = 63 :: q := by rw [cutAt_snd_eq, hq]
    rw [hsep]
    cases q with
    | nil =>
      have hP : 35 ∉ url ++ [] ++ added := by simp [hnu, hA]
      have hcr : cut 35 (url ++ [] ++ added ++ (cutAt 35 t).2) = (url ++ [] ++ added, (cut 35 t).2) := by
        rw [cut_append_of_not_mem 35 _ _ hP, cut_cutAt_snd]; simp
      have hcP : cut 63 (url ++ [] ++ added) = ((cut 63 url).1, some added) := by
        rw [List.append_nil, cut_append_of_some 63 _ _ _ hq]; simp
      rw [split_of _ _ _ _ _ hcr hcP, split_of _ _ _ _ _ hct hcu]
      simp
    | cons c q =>
      have hP : 35 ∉ url ++ [38] ++ added := by simp [hnu, hA]
      have hcr : cut 35 (url ++ [38] ++ added ++ (cutAt 35 t).2) = (url ++ [38] ++ added, (cut 35 t).2) := by
        rw [cut_append_of_not_mem 35 _ _ hP, cut_cutAt_snd]; simp
      have hcP : cut 63 (url ++ [38] ++ added) = ((cut 63 url).1, some (c :: q ++ 38 :: added)) := by
        rw [List.append_assoc, cut_append_of_some 63 _ _ _ hq]; simp
      rw [split_of _ _ _ _ _ hcr hcP, split_of _ _ _ _ _ hct hcu]
      simp

end SafeHtml.Proofs.C13
