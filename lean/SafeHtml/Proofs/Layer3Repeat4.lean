/-
Later executions, fourth part: the HYPOTHESIS-FREE history independence of `Execute` for the single-object world
(`New`; `Parse` — and `New`; `Parse`; `CSPCompatible`), for an ARBITRARY tree: no grammar / analysis hypotheses.

Route: the first `Execute` marks the name space as escaped and runs the analysis (`escapeTemplateTop`), which does not
look at the data. By cases on its outcome (panic / fuel: the object stays unset and the same analysis is re-run with the
same outcome; error: the object is marked failed and the error is sticky; ok: the committed set is installed and the
object is marked ok) the world after the first call does not depend on the data and is a fixed point of `Execute`
whose result is the same function of the data as the first call's (`FixedFrom`). Induction on the earlier calls.
Core Lean only; axioms: propext, Classical.choice, Quot.sound.
-/
import SafeHtml.Proofs.Layer3Repeat3
set_option linter.unusedSimpArgs false
set_option linter.unusedVariables false
namespace SafeHtml.Proofs.Layer3Repeat4
open SafeHtml SafeHtml.Model SafeHtml.Model.Tmpl SafeHtml.Spec SafeHtml.Spec.HtmlTok SafeHtml.Generated.Policy
open SafeHtml.Props.C02 (Untrusted)
open SafeHtml.Proofs.HtmlTokSim
open SafeHtml.Proofs.Layer3 SafeHtml.Proofs.Layer3E2E SafeHtml.Proofs.Layer3Branch SafeHtml.Proofs.Layer3Calls
open SafeHtml.Proofs.Layer3Helpers SafeHtml.Proofs.Layer3Repeat SafeHtml.Proofs.Layer3Repeat2
open SafeHtml.Proofs.CspMono

/-- a world with one registered object (id 1, handle 0) in one name space (id 0) -/
def worldG (v : Validators) (fuel : Nat) (name : String) (st : Status) (tn : Bool) (n : NS) : World :=
  { objs := [(1, { ns := 0, name := name, registered := true, treeNil := tn, status := st })],
    nss := [(0, n)], handles := [(0, 1)], next := 2, fuel := fuel, v := v }

/-- after the first `Execute` on handle 0 the world is a data-independent fixed point of `Execute`, whose result is
    the same function of the data as the first call's -/
def FixedFrom (W : World) : Prop :=
  ∃ W', (∀ d, (apiExecute W 0 d).1 = W') ∧ (∀ d, apiExecute W' 0 d = (W', (apiExecute W 0 d).2))

theorem obj_worldG (v : Validators) (fuel : Nat) (name : String) (st : Status) (tn : Bool) (n : NS) :
    (worldG v fuel name st tn n).obj 0 =
      some (1, { ns := 0, name := name, registered := true, treeNil := tn, status := st }) := by
  simp [worldG, World.obj, nlookup, bind, Option.bind]

theorem ns_worldG (v : Validators) (fuel : Nat) (name : String) (st : Status) (tn : Bool) (n : NS) :
    (worldG v fuel name st tn n).ns 0 = n := by
  simp [worldG, World.ns, nlookup]

theorem setNs_worldG (v : Validators) (fuel : Nat) (name : String) (st : Status) (tn : Bool) (n n' : NS) :
    (worldG v fuel name st tn n).setNs 0 n' = worldG v fuel name st tn n' := by
  simp [worldG, World.setNs, nset]

/-- the three possible outcomes of the analysis -/
theorem escapeTemplateTop_shape (w : World) (nsId : Nat) (name : String) :
    (∃ r, escapeTemplateTop w nsId name = .inl r) ∨
    (∃ e code, escapeTemplateTop w nsId name = .inr (markFailed w nsId name e code, some code)) ∨
    (∃ t e, escapeTemplateTop w nsId name = .inr (markOk w nsId name t e, none)) := by
  unfold escapeTemplateTop
  simp only
  repeat' split
  all_goals first
    | exact .inl ⟨_, rfl⟩
    | exact .inr (.inl ⟨_, _, rfl⟩)
    | exact .inr (.inr ⟨_, _, rfl⟩)

/-- the first `Execute` on an unset object with a tree -/
theorem apiExecute_unset (v : Validators) (fuel : Nat) (name : String) (n : NS) (d : Value) :
    apiExecute (worldG v fuel name .unset false n) 0 d =
      (match escapeTemplateTop (worldG v fuel name .unset false { n with escaped := true }) 0 name with
        | .inl r => (worldG v fuel name .unset false { n with escaped := true }, r)
        | .inr (w', some code) => (w', .err (analysisCls code) [])
        | .inr (w', none) =>
          match nlookup w'.objs 1 with
          | some o' => (w', textExecute w' o' d)
          | none => (w', .unsupported)) := by
  unfold apiExecute
  simp only [obj_worldG, ns_worldG, setNs_worldG]
  rfl

theorem apiExecute_failed (v : Validators) (fuel : Nat) (name : String) (code : ErrCode) (tn : Bool) (n : NS)
    (d : Value) :
    apiExecute (worldG v fuel name (.failed code) tn n) 0 d =
      (worldG v fuel name (.failed code) tn { n with escaped := true }, .err (analysisCls code) []) := by
  unfold apiExecute
  simp only [obj_worldG, ns_worldG, setNs_worldG]

theorem apiExecute_ok (v : Validators) (fuel : Nat) (name : String) (tn : Bool) (n : NS) (d : Value) :
    apiExecute (worldG v fuel name .ok tn n) 0 d =
      (worldG v fuel name .ok tn { n with escaped := true },
        textExecute (worldG v fuel name .ok tn { n with escaped := true })
          { ns := 0, name := name, registered := true, treeNil := tn, status := .ok } d) := by
  unfold apiExecute
  simp only [obj_worldG, ns_worldG, setNs_worldG]

theorem markFailed_worldG (v : Validators) (fuel : Nat) (name : String) (n : NS) (hset : n.set = [(name, 1)])
    (e : Esc) (code : ErrCode) :
    markFailed (worldG v fuel name .unset false n) 0 name e code =
      worldG v fuel name (.failed code) true { n with esc := e } := by
  simp [markFailed, ns_worldG, setNs_worldG, hset, alookup]
  simp [worldG, World.setObj, nset, nlookup]

theorem markOk_worldG (v : Validators) (fuel : Nat) (name : String) (n : NS) (hset : n.set = [(name, 1)])
    (t : TextSet) (e : Esc) :
    ∃ tn, markOk (worldG v fuel name .unset false n) 0 name t e =
      worldG v fuel name .ok tn { n with esc := e, text := t } := by
  refine ⟨(match t.lookup name with | some (some _) => false | _ => true), ?_⟩
  simp [markOk, ns_worldG, setNs_worldG, hset, alookup]
  simp [worldG, World.setObj, nset, nlookup]
  rfl

/-- **the general fixed-point statement** for a one-object world whose object is unset and has a tree -/
theorem fixedFrom_worldG (v : Validators) (fuel : Nat) (name : String) (n : NS) (hset : n.set = [(name, 1)]) :
    FixedFrom (worldG v fuel name .unset false n) := by
  have hset' : ({ n with escaped := true } : NS).set = [(name, 1)] := hset
  rcases escapeTemplateTop_shape (worldG v fuel name .unset false { n with escaped := true }) 0 name with
    ⟨r, h⟩ | ⟨e, code, h⟩ | ⟨t, e, h⟩
  · refine ⟨worldG v fuel name .unset false { n with escaped := true }, fun d => ?_, fun d => ?_⟩
    · rw [apiExecute_unset, h]
    · rw [apiExecute_unset v fuel name n, apiExecute_unset v fuel name { n with escaped := true }]
      show (match escapeTemplateTop (worldG v fuel name .unset false { n with escaped := true }) 0 name with
        | .inl r => (worldG v fuel name .unset false { n with escaped := true }, r)
        | .inr (w', some code) => (w', .err (analysisCls code) [])
        | .inr (w', none) =>
          match nlookup w'.objs 1 with
          | some o' => (w', textExecute w' o' d)
          | none => (w', .unsupported)) = _
      rw [h]
  · rw [markFailed_worldG v fuel name _ hset'] at h
    refine ⟨worldG v fuel name (.failed code) true { { n with escaped := true } with esc := e }, fun d => ?_,
      fun d => ?_⟩
    · rw [apiExecute_unset, h]
    · rw [apiExecute_unset v fuel name n, h, apiExecute_failed]
  · obtain ⟨tn, hm⟩ := markOk_worldG v fuel name _ hset' t e
    rw [hm] at h
    refine ⟨worldG v fuel name .ok tn { { n with escaped := true } with esc := e, text := t }, fun d => ?_,
      fun d => ?_⟩
    · rw [apiExecute_unset, h]
      simp [worldG, nlookup]
    · rw [apiExecute_unset v fuel name n, h, apiExecute_ok]
      simp [worldG, nlookup]

/-- from the fixed-point statement: the result of `Execute(d)` after any earlier executions is that of a first one -/
theorem step_execs_of_fixedFrom (W : World) (h : FixedFrom W) (pre : List Value) (d : Value) :
    (Api.step (execs W pre) (.exec 0 d)).2 = (Api.step W (.exec 0 d)).2 := by
  obtain ⟨W', h1, h2⟩ := h
  have hfix : ∀ pre : List Value, execs W' pre = W' := by
    intro pre
    induction pre with
    | nil => rfl
    | cons d0 ds ih => simp only [execs, Api.step, h2]; exact ih
  cases pre with
  | nil => rfl
  | cons d0 ds =>
    simp only [execs, Api.step, h1, hfix, h2]

theorem setupW_eq_worldG (v : Validators) (fuel : Nat) (name : String) (tr : Tree) :
    setupW v fuel name tr = worldG v fuel name .unset false { set := [(name, 1)], text := [(name, some tr)] } := rfl

theorem setupCsp_eq_worldG (v : Validators) (fuel : Nat) (name : String) (tr : Tree) (hn : tr.name = name) :
    setupCsp v fuel name tr =
      worldG v fuel name .unset false { set := [(name, 1)], text := [(name, some tr)], csp := true } := by
  have h : setupCsp v fuel name tr = (Api.step (setup v fuel name tr) (.csp 0)).1 := rfl
  rw [h, setup_eq v fuel name tr hn]
  simp [Api.step, setupW, World.obj, nlookup, World.ns, World.setNs, nset, bind, Option.bind, worldG]

theorem fixedFrom_setupW (v : Validators) (fuel : Nat) (name : String) (tr : Tree) :
    FixedFrom (setupW v fuel name tr) := by
  rw [setupW_eq_worldG]; exact fixedFrom_worldG v fuel name _ rfl

theorem fixedFrom_setupCsp (v : Validators) (fuel : Nat) (name : String) (tr : Tree) (hn : tr.name = name) :
    FixedFrom (setupCsp v fuel name tr) := by
  rw [setupCsp_eq_worldG v fuel name tr hn]; exact fixedFrom_worldG v fuel name _ rfl

/-- **C06, hypothesis-free, single-object world**: for an ARBITRARY tree (no grammar / analysis hypothesis: the
    analysis may succeed, fail, panic or run out of fuel) the result of `Execute(d)` after any earlier `Execute`
    calls is the result of a first `Execute(d)`. -/
theorem C06_result_history_independent_any_single (v : Validators) (fuel : Nat) (name : String) (tr : Tree)
    (pre : List Value) (d : Value) :
    (Api.step (execs (setupW v fuel name tr) pre) (.exec 0 d)).2 =
      (Api.step (setupW v fuel name tr) (.exec 0 d)).2 :=
  step_execs_of_fixedFrom _ (fixedFrom_setupW v fuel name tr) pre d

theorem C06_result_history_independent_any_single' (v : Validators) (fuel : Nat) (name : String) (tr : Tree)
    (pre1 pre2 : List Value) (d : Value) :
    (Api.step (execs (setupW v fuel name tr) pre1) (.exec 0 d)).2 =
      (Api.step (execs (setupW v fuel name tr) pre2) (.exec 0 d)).2 := by
  rw [C06_result_history_independent_any_single, C06_result_history_independent_any_single v fuel name tr pre2]

/-- the same from `setup` (the `Api.run` form; `tr.name = name` is what makes `Parse` register the tree under the
    object's own name) -/
theorem C06_result_history_independent_any_setup (v : Validators) (fuel : Nat) (name : String) (tr : Tree)
    (hn : tr.name = name) (pre : List Value) (d : Value) :
    (Api.step (execs (setup v fuel name tr) pre) (.exec 0 d)).2 = (Api.step (setup v fuel name tr) (.exec 0 d)).2 := by
  rw [setup_eq v fuel name tr hn]; exact C06_result_history_independent_any_single v fuel name tr pre d

/-- **C06, hypothesis-free, CSP-compatible single-object world** (`New`; `Parse`; `CSPCompatible`) -/
theorem C06_result_history_independent_any_single_csp (v : Validators) (fuel : Nat) (name : String) (tr : Tree)
    (hn : tr.name = name) (pre : List Value) (d : Value) :
    (Api.step (execs (setupCsp v fuel name tr) pre) (.exec 0 d)).2 =
      (Api.step (setupCsp v fuel name tr) (.exec 0 d)).2 :=
  step_execs_of_fixedFrom _ (fixedFrom_setupCsp v fuel name tr hn) pre d

theorem C06_result_history_independent_any_single_csp' (v : Validators) (fuel : Nat) (name : String) (tr : Tree)
    (hn : tr.name = name) (pre1 pre2 : List Value) (d : Value) :
    (Api.step (execs (setupCsp v fuel name tr) pre1) (.exec 0 d)).2 =
      (Api.step (execs (setupCsp v fuel name tr) pre2) (.exec 0 d)).2 := by
  rw [C06_result_history_independent_any_single_csp v fuel name tr hn,
    C06_result_history_independent_any_single_csp v fuel name tr hn pre2]

/-- a later execution with a given result: so has the first execution -/
theorem first_of_later_csp (v : Validators) (fuel : Nat) (name : String) (tr : Tree) (hn : tr.name = name)
    (pre : List Value) (d : Value) (w : World) (r : Ret)
    (h : Api.step (execs (setupCsp v fuel name tr) pre) (.exec 0 d) = (w, r)) :
    Api.step (setupCsp v fuel name tr) (.exec 0 d) = ((Api.step (setupCsp v fuel name tr) (.exec 0 d)).1, r) := by
  have := C06_result_history_independent_any_single_csp v fuel name tr hn pre d
  rw [h] at this
  have this : r = _ := this
  subst this
  rfl

/-- **C01 for a single straight-line template in a CSP-compatible set, later executions** -/
theorem C01_api_single_template_csp_repeat (v : Validators) (fuel : Nat) (name : String) (tr : Tree)
    (ps : List Piece)
    (as : List Arg) (has : ∀ a ∈ as, ActArg a) (cf : Ctx) (es : List EPiece) (hn : tr.name = name)
    (hroot : tr.root = NodeList.ofList (toNodesA 0 ps as)) (hs : SimpleAll v {} ps)
    (ha : analyse v {} ps = some (cf, es)) (hfin : finalError cf = none) (hf : ps.length + 4 ≤ fuel)
    (pre1 pre2 : List Value)
    (d1 d2 : Value) (hu1 : LeavesUntrusted d1 as) (hu2 : LeavesUntrusted d2 as) (o1 o2 : Bytes) (w1 w2 : World)
    (h1 : Api.step (execs (setupCsp v fuel name tr) pre1) (.exec 0 d1) = (w1, .exec (.ok o1)))
    (h2 : Api.step (execs (setupCsp v fuel name tr) pre2) (.exec 0 d2) = (w2, .exec (.ok o2))) :
    skeleton (HtmlTok.tokenize o1).tokens = skeleton (HtmlTok.tokenize o2).tokens ∧
    (HtmlTok.tokenize o1).final = .data ∧ (HtmlTok.tokenize o2).final = .data :=
  C01_api_single_template_csp v fuel name tr ps as has cf es hn hroot hs ha hfin hf d1 d2 hu1 hu2 o1 o2 _ _
    (first_of_later_csp v fuel name tr hn pre1 d1 w1 _ h1) (first_of_later_csp v fuel name tr hn pre2 d2 w2 _ h2)

/-- **C01 for a template with `if` / `with` / `range` in a CSP-compatible set, later executions** -/
theorem C01_api_branch_template_csp_repeat (v : Validators) (fuel : Nat) (name : String) (tr : Tree) (tps : TPs)
    (cf : Ctx)
    (es : ERs) (hn : tr.name = name) (hroot : tr.root = nodesTL 0 tps) (hok : ArgsOKL tps)
    (hs : SimpleRL v {} (eraseL tps)) (ha : analyseRL v {} (eraseL tps) = some (cf, es))
    (hfin : finalError cf = none) (hf : fuelRL (eraseL tps) + 3 ≤ fuel) (pre1 pre2 : List Value) (d1 d2 : Value)
    (hpath : pathL tps d1 d1 = pathL tps d2 d2)
    (hu1 : ∀ x ∈ valsL tps d1 d1, Untrusted x) (hu2 : ∀ x ∈ valsL tps d2 d2, Untrusted x)
    (o1 o2 : Bytes) (w1 w2 : World)
    (h1 : Api.step (execs (setupCsp v fuel name tr) pre1) (.exec 0 d1) = (w1, .exec (.ok o1)))
    (h2 : Api.step (execs (setupCsp v fuel name tr) pre2) (.exec 0 d2) = (w2, .exec (.ok o2))) :
    skeleton (HtmlTok.tokenize o1).tokens = skeleton (HtmlTok.tokenize o2).tokens ∧
    (HtmlTok.tokenize o1).final = .data ∧ (HtmlTok.tokenize o2).final = .data :=
  C01_api_branch_template_csp v fuel name tr tps cf es hn hroot hok hs ha hfin hf d1 d2 hpath hu1 hu2 o1 o2 _ _
    (first_of_later_csp v fuel name tr hn pre1 d1 w1 _ h1) (first_of_later_csp v fuel name tr hn pre2 d2 w2 _ h2)

/-! ### non-vacuity: the sticky-error case and the fuel case

`exMainTree` (`Layer3Helpers`) calls the template "h"; parsed ALONE the set has no "h", so the first analysis FAILS:
the object is marked failed and every later `Execute` returns the same analysis error. With fuel 0 the analysis of
`exTree` runs out of fuel on every call (the object stays unset). -/

def isFailed (w : World) : Bool :=
  match nlookup w.objs 1 with
  | some o => (match o.status with | .failed _ => true | _ => false)
  | none => false

def retErr : Ret → Bool
  | .exec (.err _ _) => true
  | _ => false

def retFuel : Ret → Bool
  | .exec .fuel => true
  | _ => false

example : isFailed (Api.step (setup v0 100 "main" exMainTree) (.exec 0 (exData [60]))).1 = true := by
  decide +kernel

example : retErr (Api.step (execs (setup v0 100 "main" exMainTree) [exData [34, 62, 60], .str [1]])
    (.exec 0 (exData [60, 38]))).2 = true := by
  decide +kernel

example : retFuel (Api.step (execs (setup v0 0 "t" exTree) [exData [34, 62, 60]]) (.exec 0 (exData [60, 38]))).2
    = true := by
  decide +kernel

#print axioms C06_result_history_independent_any_single
#print axioms C06_result_history_independent_any_single'
#print axioms C06_result_history_independent_any_setup
#print axioms C06_result_history_independent_any_single_csp
#print axioms C06_result_history_independent_any_single_csp'
#print axioms C01_api_single_template_csp_repeat
#print axioms C01_api_branch_template_csp_repeat

end SafeHtml.Proofs.Layer3Repeat4
