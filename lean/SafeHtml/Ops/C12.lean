import SafeHtml.Ops.Common
import SafeHtml.Model.UrlSet
import SafeHtml.Oracle.C12
namespace SafeHtml.Ops.C12
open SafeHtml SafeHtml.Ops

/-- real / model result of `urlset.sanitized`: `ok <hex once> <hex twice>` -/
def parseTwo (f : List String) : Option (Bytes × Bytes) :=
  match f with
  | ["ok", a, b] => do
      let x ← unhex a
      let y ← unhex b
      pure (x, y)
  | _ => none

def model (op : String) (a : List Bytes) : Option String :=
  match op, a with
  | "urlset.sanitized", [s] =>
    let once := Model.UrlSet.urlSetSanitized s
    some ("ok " ++ hexOf once ++ " " ++ hexOf (Model.UrlSet.urlSetSanitized once))
  | "urlset.pf", [s] => some (boolRes (Model.UrlSet.parseFloatOk s))
  | _, _ => none

def oracle (op : String) (a : List Bytes) (real : List String) : Option String :=
  match op, a with
  | "urlset.sanitized", [s] =>
    some (match parseTwo real with
      | some (once, twice) => Oracle.C12.sanitized s once twice Generated.Tables.innocuousURL
      | none => "fail:unparsable-real-result")
  | "urlset.pf", [s] =>
    some (match parseBool real with
      | some b => Oracle.C12.pf s b
      | none => "fail:unparsable-real-result")
  | _, _ => none

end SafeHtml.Ops.C12
