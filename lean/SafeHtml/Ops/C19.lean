/-
Line-protocol ops of C19 (every op's LAST argument is the client program text; the model never
reads it, the real side type-checks exactly it):

  api.assign  <func> <param index> <argument encoding> <result description> <program>
  api.convert <type1> <type2> <program>                       T2(x) with x : T1
  api.make    <type> <kind> <program>
  api.var     <var/const> <result description> <program>
  api.leak    <identifier> <program>
  api.probe   <label> <program>                               hand-written; no model

Argument encoding (mirrors tools/harness/c19.go):
  L "lit" | U untyped const | C<t> typed const | V<t> variable | F<t> call | +ab | T<t>e conversion | (e
  <t> ∈ s (string) | m (client-defined string type) | p (the parameter's own type)
  argument: E<expr> | S<t> (xs...) | D (dynamic value of the parameter's class) | G<expr> (via generic helper)
-/
import SafeHtml.Ops.Common
import SafeHtml.Model.Api
import SafeHtml.Oracle.C19
namespace SafeHtml.Ops.C19
open SafeHtml SafeHtml.Ops SafeHtml.Spec.GoTypes

def tyOf (p : StrTy) (c : Nat) : Option StrTy :=
  if c == 115 then some .string else if c == 109 then some .clientDef else if c == 112 then some p else none

/-- prefix parser; `fuel` bounds the recursion (the input length suffices) -/
def parseExpr (p : StrTy) : Nat → List Nat → Option (StrExpr × List Nat)
  | 0, _ => none
  | _ + 1, [] => none
  | fuel + 1, c :: rest =>
    if c == 76 then some (.lit, rest)                    -- L
    else if c == 85 then some (.uconst, rest)            -- U
    else if c == 67 || c == 86 || c == 70 then           -- C V F
      match rest with
      | t :: rest' =>
        match tyOf p t with
        | some ty => some ((if c == 67 then .tconst ty else if c == 86 then .var ty else .call ty), rest')
        | none => none
      | [] => none
    else if c == 43 then                                  -- +
      match parseExpr p fuel rest with
      | some (a, r1) =>
        match parseExpr p fuel r1 with
        | some (b, r2) => some (.cat a b, r2)
        | none => none
      | none => none
    else if c == 84 then                                  -- T
      match rest with
      | t :: rest' =>
        match tyOf p t, parseExpr p fuel rest' with
        | some ty, some (e, r) => some (.conv ty e, r)
        | _, _ => none
      | [] => none
    else if c == 40 then                                  -- (
      match parseExpr p fuel rest with
      | some (e, r) => some (.paren e, r)
      | none => none
    else none

def parseArg (p : StrTy) (s : Bytes) : Option Arg :=
  match s with
  | [68] => some .dyn                                     -- D
  | [83, t] => (tyOf p t).map .spread                     -- S<t>
  | 69 :: rest =>                                         -- E
    match parseExpr p (rest.length + 1) rest with
    | some (e, []) => some (.expr e)
    | _ => none
  | 71 :: rest =>                                         -- G
    match parseExpr p (rest.length + 1) rest with
    | some (e, []) => some (.viaGeneric e)
    | _ => none
  | _ => none

def parseNat (s : Bytes) : Option Nat :=
  if s.isEmpty || !s.all isDigit then none else some (s.foldl (fun a b => a * 10 + (b - 48)) 0)

/-- "safehtml.HTML" ↦ (1, nameKey "HTML") -/
def parseQType (s : Bytes) : Option (Nat × Nat) :=
  match splitOnByte 46 s with
  | [p, n] =>
    if p == B "safehtml" then some (1, nameKey n)
    else if p == B "template" then some (2, nameKey n)
    else none
  | _ => none

def parseMake (s : Bytes) : Option Make :=
  match splitOnByte 58 s with
  | [k] =>
    if k == B "zero" then some .zero
    else if k == B "convString" then some .convString
    else if k == B "convConst" then some .convConst
    else if k == B "litUnkeyed" then some .litUnkeyed
    else if k == B "anonConv" then some .anonConv
    else none
  | [k, f] =>
    if k == B "litKeyed" then some (.litKeyed (nameKey f))
    else if k == B "fieldWrite" then some (.fieldWrite (nameKey f))
    else if k == B "fieldRead" then some (.fieldRead (nameKey f))
    else none
  | _ => none

open SafeHtml.Model.Api in
def model (op : String) (a : List Bytes) : Option String :=
  match op, a with
  | "api.assign", [f, i, arg, _, _] =>
    some (match findFunc (nameKey f), parseNat i with
      | some fn, some idx =>
        match fn.params[idx]? with
        | some c =>
          match parseArg (paramStrTy c) arg with
          | some x => verdict (assignOk fn idx x)
          | none => "bad-arg"
        | none => "rejected"
      | none, some _ => "rejected"
      | _, none => "bad-arg")
  | "api.convert", [t1, t2, _] =>
    some (match parseQType t1, parseQType t2 with
      | some (p1, k1), some (p2, k2) =>
        match findType p1 k1, findType p2 k2 with
        | some x, some y => verdict (convertOk x y)
        | _, _ => "rejected"
      | _, _ => "bad-arg")
  | "api.make", [t, k, _] =>
    some (match parseQType t, parseMake k with
      | some (p, n), some m =>
        match findType p n with
        | some x => verdict (makeOk x m)
        | none => "rejected"
      | _, _ => "bad-arg")
  | "api.var", [v, _, _] => some (verdict (findVar (nameKey v)).isSome)
  | "api.leak", [n, _] =>
    some (verdict (
      (match findFunc (nameKey n) with | some f => f.resultMentionsSC | none => false) ||
      (match findVar (nameKey n) with | some v => v.mentionsSC | none => false) ||
      (match splitOnByte 46 n with
        | [p, t, fld] =>
          match parseQType (p ++ [46] ++ t) with
          | some (pk, tk) =>
            match findType pk tk with
            | some td => td.fields.any fun x => x.key == nameKey fld && x.exported && x.mentionsSC
            | none => false
          | none => false
        | _ => false)))
  | "api.probe", [_, _] => some "no-model"
  | _, _ => none

def parseVerdict (real : List String) : Option Bool :=
  match real with
  | ["compiles"] => some true
  | ["rejected"] => some false
  | _ => none

def oracle (op : String) (a : List Bytes) (real : List String) : Option String :=
  let run (k : Bool → String) : Option String :=
    some (match parseVerdict real with
      | some c => k c
      | none => "fail:unparsable-real-result")
  match op, a with
  | "api.assign", [f, i, arg, r, _] =>
    run fun c =>
      match parseNat i, parseArg .string arg with
      | some idx, some x => Oracle.C19.assign c (nameKey f) idx x r.toStr
      | _, _ => "fail:bad-op"
  | "api.convert", [t1, t2, _] => run fun c => Oracle.C19.convert c t1.toStr t2.toStr
  | "api.make", [t, k, _] => run fun c => Oracle.C19.make c t.toStr k.toStr
  | "api.var", [_, r, _] => run fun c => Oracle.C19.var c r.toStr
  | "api.leak", [_, _] => run fun c => Oracle.C19.leak c
  | "api.probe", [l, _] => run fun c => Oracle.C19.probe c l.toStr
  | _, _ => none

end SafeHtml.Ops.C19
