import SafeHtml.Ops.Common
import SafeHtml.Model.Tru
import SafeHtml.Oracle.C13
namespace SafeHtml.Ops.C13
open SafeHtml SafeHtml.Ops

/-- flat `k1 v1 k2 v2 …` argument list → association list -/
def pairs : List Bytes → Option (List (Bytes × Bytes))
  | [] => some []
  | k :: v :: t => (pairs t).map ((k, v) :: ·)
  | _ => none

def model (op : String) (a : List Bytes) : Option String :=
  match op, a with
  | "tru.format", fmt :: kv => (pairs kv).map fun args => errRes (Model.trustedResourceURLFormat fmt args)
  -- FromFlag with a flag whose text changes between reads: the call behaves as for ONE read, the first
  | "tru.formatflag", f1 :: _f2 :: kv => (pairs kv).map fun args => errRes (Model.trustedResourceURLFormat f1 args)
  | "tru.append", [t, s] => some (errRes (Model.trustedResourceURLAppend t s))
  | "tru.params", base :: kv => (pairs kv).map fun ps => okRes (Model.trustedResourceURLWithParams base ps)
  | "util.query", [s] => some (okRes (Model.queryEscapeURL s))
  | "util.norm", [s] => some (okRes (Model.normalizeURL s))
  | "util.truprefix", [s] => some (boolRes (Model.isSafeTrustedResourceURLPrefix s))
  | "util.dotdot", [s] => some (boolRes (Model.urlContainsDoubleDotSegment s))
  | _, _ => none

def bad : String := "fail:unparsable-real-result"

def oracle (op : String) (a : List Bytes) (real : List String) : Option String :=
  match op, a with
  | "tru.format", fmt :: kv =>
    (pairs kv).map fun args =>
      match parseOptRes real with
      | some r => Oracle.C13.format fmt args r
      | none => bad
  | "tru.formatflag", f1 :: _f2 :: kv =>
    (pairs kv).map fun args =>
      match parseOptRes real with
      | some r => Oracle.C13.format f1 args r
      | none => bad
  | "tru.append", [t, s] =>
    some (match parseOptRes real with
      | some r => Oracle.C13.append t s r
      | none => bad)
  | "tru.params", base :: kv =>
    (pairs kv).map fun ps =>
      match real with
      | ["nondet"] => Oracle.C13.params base ps none
      | ["ok", h] => (match unhex h with | some r => Oracle.C13.params base ps (some r) | none => bad)
      | _ => bad
  | "util.query", [s] =>
    some (match parseOptRes real with
      | some r => Oracle.C13.queryEscape s r
      | none => bad)
  | "util.norm", [_] => some "pass"
  | "util.truprefix", [s] =>
    some (match parseBool real with
      | some b => Oracle.C13.truPrefix s b
      | none => bad)
  | "util.dotdot", [s] =>
    some (match parseBool real with
      | some b => Oracle.C13.dotdot s b
      | none => bad)
  | _, _ => none

end SafeHtml.Ops.C13
