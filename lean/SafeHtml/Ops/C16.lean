import SafeHtml.Ops.Common
import SafeHtml.Model.StyleSheet
import SafeHtml.Oracle.C16
namespace SafeHtml.Ops.C16
open SafeHtml SafeHtml.Ops

def model (op : String) (a : List Bytes) : Option String :=
  match op, a with
  | "css.rule", [sel, st] => some (errRes (Model.cssRule sel st))
  | _, _ => none

def oracle (op : String) (a : List Bytes) (real : List String) : Option String :=
  match op, a with
  | "css.rule", [sel, st] =>
    some (match parseOptRes real with
      | some r => Oracle.C16.check sel st r
      | none => "fail:unparsable-real-result")
  | _, _ => none

end SafeHtml.Ops.C16
