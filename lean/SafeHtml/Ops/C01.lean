/- Ops of C01, C02, C03: one fresh set, one Parse, one Execute (through the general history machinery). -/
import SafeHtml.Ops.Common
import SafeHtml.Ops.Tmpl
import SafeHtml.Oracle.C01
import SafeHtml.Oracle.C03
namespace SafeHtml.Ops.C01
open SafeHtml SafeHtml.Ops SafeHtml.Model.Tmpl

def lastRes (hist : Bytes) : String :=
  ((Ops.Tmpl.runLines (Ops.Tmpl.historyLines hist)).getLast?.map (·.1)).getD "bad"

/-- template text, parsed definitions and data of a `new / parse / exec` history -/
def partsOf (hist : Bytes) : Option (Bytes × List Tree × Value) :=
  let lines := Ops.Tmpl.historyLines hist
  let parse := lines.findSome? fun l =>
    match Ops.Tmpl.fieldsOf l with
    | ["parse", _, text, defs] => do
      let t ← unhex text
      let d ← (unhex defs).bind parseDefsBytes
      pure (t, d)
    | _ => none
  let data := lines.findSome? fun l =>
    match Ops.Tmpl.fieldsOf l with
    | ["exec", _, d] => (unhex d).bind parseValueBytes
    | _ => none
  match parse, data with
  | some (t, d), some v => some (t, d, v)
  | _, _ => none

/-- every string leaf of the data (untrusted strings and the contents of typed values) -/
partial def strLeaves : Value → List Bytes
  | .str b => [b]
  | .safe _ b => [b]
  | .ptr v => strLeaves v
  | .list vs => vs.toList.flatMap strLeaves
  | .map kvs => kvs.toList.flatMap fun p => strLeaves p.2
  | _ => []

/-- names that follow a '.' somewhere in the template text (over-approximation of the fields the template reads) -/
def usedKeys : Bytes → List Bytes
  | [] => []
  | 46 :: t =>
    let nm := t.takeWhile isAlnum
    if nm.isEmpty then usedKeys t else nm :: usedKeys t
  | _ :: t => usedKeys t

/-- the string leaves of the top-level fields the template mentions -/
def usedLeaves (tmpl : Bytes) (v : Value) : List Bytes :=
  let ks := usedKeys tmpl
  match v with
  | .map kvs => kvs.toList.flatMap fun p => if ks.contains (B p.1) then strLeaves p.2 else []
  | v => strLeaves v

/-- wire form of a value (inverse of `parseValue`) -/
partial def wireOf : Value → String
  | .str b => "s " ++ hexOf b
  | .safe t b => "t " ++ (match t with
      | .HTML => "H" | .Script => "S" | .Style => "Y" | .StyleSheet => "E" | .URL => "U"
      | .TrustedResourceURL => "R" | .Identifier => "I" | .URLSet => "X") ++ " " ++ hexOf b
  | .int i => "i " ++ toString i
  | .bool b => if b then "b 1" else "b 0"
  | .nil => "n"
  | .noValue => "n"
  | .ptr v => "p " ++ wireOf v
  | .list vs => "l [ " ++ String.intercalate " " (vs.toList.map wireOf) ++ (if vs.toList.isEmpty then "" else " ") ++ "]"
  | .map kvs => "m { " ++ String.intercalate " " (kvs.toList.map fun p => hexOf (B p.1) ++ " " ++ wireOf p.2) ++
      (if kvs.toList.isEmpty then "" else " ") ++ "}"

/-- `ok <out> <outInert|ierr> <plain|perr>`: executed output, the engine's output for inert values of the
    same shape, and the author's markup rendered by plain text/template with inert values -/
def c01Model (hist : Bytes) : String :=
  let r := lastRes hist
  if !r.startsWith "ok " then r
  else match partsOf hist with
    | none => "bad-hist"
    | some (_, defs, v) =>
      -- the same history with the data replaced
      let lines := Ops.Tmpl.historyLines hist
      let lines' := lines.map fun l =>
        match Ops.Tmpl.fieldsOf l with
        | ["exec", h, _] => "exec " ++ h ++ " " ++ hexOf (B (wireOf v.inertTyped))
        | _ => l
      let ri := ((Ops.Tmpl.runLines lines').getLast?.map (·.1)).getD "bad"
      let outI := if ri.startsWith "ok " then (ri.drop 3).toString else "ierr"
      if (ri.splitOn "unsupported").length > 1 then "unsupported" else
      let pr := plainRender defs "root" v.inert 100000
      match pr.err with
      | none => r ++ " " ++ outI ++ " " ++ hexOf pr.out
      | some .unsupported => "unsupported"
      | some _ => r ++ " " ++ outI ++ " perr"

def model (op : String) (a : List Bytes) : Option String :=
  match op, a with
  | "tmpl.c01", [hist] => some (c01Model hist)
  | "tmpl.c02", [hist] => some (lastRes hist)
  | "tmpl.c03", [_form, _e, _a, _pre, _tag, _contents, h1, h2] => some (lastRes h1 ++ "~" ++ lastRes h2)
  | _, _ => none

def okOut (s : String) : Option Bytes :=
  match (s.splitOn " ").filter (· ≠ "") with
  | "ok" :: h :: _ => unhex h
  | _ => none

def oracle (op : String) (a : List Bytes) (real : List String) : Option String :=
  match op, a with
  | "tmpl.c01", [hist] =>
    some (match real, partsOf hist with
      | ["ok", o, oi, p], some (t, _, _) =>
        match unhex o with
        | some out => Oracle.C01.c01 t out (if oi == "ierr" then none else unhex oi) (if p == "perr" then none else unhex p)
        | none => "fail:unparsable-real-result"
      | _, _ => "pass")
  | "tmpl.c02", [hist] =>
    some (match real, partsOf hist with
      | ["ok", o], some (t, _, v) =>
        match unhex o with
        | some out => Oracle.C01.c02 t out (usedLeaves t v)
        | none => "fail:unparsable-real-result"
      | _, _ => "pass")
  | "tmpl.c03", [form, e, at', pre, tag, contents, _h1, _h2] =>
    some (match (String.intercalate " " real).splitOn "~" with
      | [r1, r2] => Oracle.C03.c03 (strOfBytes form) e at' pre (strOfBytes tag) contents (okOut r1) (okOut r2)
      | _ => "fail:unparsable-real-result")
  | _, _ => none

end SafeHtml.Ops.C01
