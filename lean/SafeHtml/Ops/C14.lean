import SafeHtml.Ops.Common
import SafeHtml.Ops.Tmpl
import SafeHtml.Model.TmplUrl
import SafeHtml.Model.Html
import SafeHtml.Oracle.C14
namespace SafeHtml.Ops.C14
open SafeHtml SafeHtml.Ops SafeHtml.Model

def okErr (b : Bool) : String := if b then "ok" else "err"

def scOf (elem attr : Bytes) : Option TmplUrl.SC :=
  if elem == [97] && attr == [104, 114, 101, 102] then some .truOrUrl
  else if elem == [102, 111, 114, 109] && attr == [97, 99, 116, 105, 111, 110] then some .url
  else if elem == [115, 99, 114, 105, 112, 116] && attr == [115, 114, 99] then some .tru
  else if elem == [113] && attr == [99, 105, 116, 101] then some .other
  else none

/-- predicted output of `<elem attr="P{{.}}">` (`</script>` closed) executed with the string `w` -/
def urlattr (elem attr p w : Bytes) : String :=
  match scOf elem attr with
  | none => "bad-op"
  | some sc =>
    if p.isEmpty then "skip" else
    match TmplUrl.chooseChain sc p with
    | none => "perr"
    | some ch =>
      match TmplUrl.runChain ch w with
      | none => "xerr"
      | some v =>
        okRes ([60] ++ elem ++ [32] ++ attr ++ [61, 34] ++ p ++ htmlEscaped v ++ Oracle.C14.closing elem)

/-- predicted output of `<elem attr="P{{.A}}M{{.B}}">`: the second action is analysed with the static text `P ++ M`
    as its prefix (`c.attr.value` accumulates static text only) -/
def urlattr2 (elem attr p a mid b : Bytes) : String :=
  match scOf elem attr with
  | none => "bad-op"
  | some sc =>
    if p.isEmpty then "skip" else
    match TmplUrl.chooseChain sc p, TmplUrl.chooseChain sc (p ++ mid) with
    | some c1, some c2 =>
      match TmplUrl.runChain c1 a with
      | none => "xerr"
      | some v1 =>
        match TmplUrl.runChain c2 b with
        | none => "xerr"
        | some v2 =>
          okRes ([60] ++ elem ++ [32] ++ attr ++ [61, 34] ++ p ++ htmlEscaped v1 ++ mid ++ htmlEscaped v2 ++
            Oracle.C14.closing elem)
    | _, _ => "perr"

def model (op : String) (a : List Bytes) : Option String :=
  match op, a with
  | "util.query", [s] => some (okRes (queryEscapeURL s))
  | "util.norm", [s] => some (okRes (normalizeURL s))
  | "util.norm2", [s] => some ("ok " ++ hexOf (normalizeURL s) ++ " " ++ hexOf (normalizeURL (normalizeURL s)))
  | "util.dotdot", [s] => some (boolRes (urlContainsDoubleDotSegment s))
  | "go.unescape", [s] => some (okRes (GoHtml.unescapeString s))
  | "tmpl.prefix.url", [p] => some (okErr (TmplUrl.validateURLPrefix p))
  | "tmpl.prefix.tru", [p] => some (okErr (TmplUrl.validateTrustedResourceURLPrefix p))
  | "tmpl.prefix.decode", [p] => some (errRes (TmplUrl.decodeURLPrefix p))
  | "tmpl.urlrange", [_e, _a, _p, _m, _x, _y, hist] =>
    some (((Ops.Tmpl.runLines (Ops.Tmpl.historyLines hist)).getLast?.map (·.1)).getD "bad")
  | "tmpl.link", [_rel, _p, _w, hist] =>
    some (((Ops.Tmpl.runLines (Ops.Tmpl.historyLines hist)).getLast?.map (·.1)).getD "bad")
  | "tmpl.urlattr", [e, atr, p, w] => some (urlattr e atr p w)
  | "tmpl.urlattr2", [e, atr, p, a, mid, b] => some (urlattr2 e atr p a mid b)
  | _, _ => none

def oracle (op : String) (a : List Bytes) (real : List String) : Option String :=
  match op, a with
  | "util.query", [s] =>
    some (match parseOptRes real with
      | some (some r) => Oracle.C14.query s r
      | _ => "fail:unparsable-real-result")
  | "util.norm", [s] =>
    some (match parseOptRes real with
      | some (some r) => Oracle.C14.norm s r
      | _ => "fail:unparsable-real-result")
  | "util.norm2", [_] =>
    some (match real with
      | ["ok", h1, h2] =>
        match unhex h1, unhex h2 with
        | some r, some rr => Oracle.C14.norm2 r rr
        | _, _ => "fail:unparsable-real-result"
      | _ => "fail:unparsable-real-result")
  | "util.dotdot", [s] =>
    some (match parseBool real with
      | some b => if Spec.UrlComp.containsDotDot s && !b then "fail:dotdot-not-detected" else "pass"
      | none => "fail:unparsable-real-result")
  | "go.unescape", [_] => some "pass"
  | "tmpl.prefix.url", [p] =>
    some (match real with
      | ["ok"] => Oracle.C14.acceptedURL p
      | ["err"] => "pass"
      | _ => "fail:unparsable-real-result")
  | "tmpl.prefix.tru", [p] =>
    some (match real with
      | ["ok"] => Oracle.C14.acceptedTRU p
      | ["err"] => "pass"
      | _ => "fail:unparsable-real-result")
  | "tmpl.prefix.decode", [p] =>
    some (match parseOptRes real with
      | some r => Oracle.C14.decode p r
      | none => "fail:unparsable-real-result")
  | "tmpl.link", [rel, p, w, _hist] => some (Oracle.C14.linkattr rel p w real)
  | "tmpl.urlattr", [e, atr, p, w] => some (Oracle.C14.urlattr e atr p w real)
  | "tmpl.urlattr2", [e, atr, p, a, mid, b] => some (Oracle.C14.urlattr2 e atr p a mid b real)
  | "tmpl.urlrange", [e, atr, p, mid, x, y, _hist] => some (Oracle.C14.urlrange e atr p mid x y real)
  | _, _ => none

end SafeHtml.Ops.C14
