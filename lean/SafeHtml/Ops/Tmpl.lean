/- Line-protocol ops of the template engine: one op line = one whole API history.
   Exec steps are annotated `res~fresh~frozen` (see tools/harness/tmpl.go `annotate`). -/
import SafeHtml.Ops.Common
import SafeHtml.Model.Tmpl.Step
import SafeHtml.Model.Tmpl.PrefixLite
namespace SafeHtml.Ops.Tmpl
open SafeHtml SafeHtml.Ops SafeHtml.Model.Tmpl

def fieldsOf (line : String) : List String := (line.splitOn " ").filter (· ≠ "")
def natOf (s : String) : Nat := s.toNat?.getD 0
def strOf (s : String) : String := match unhex s with | some b => strOfBytes b | none => ""

/-- one line of a history as a typed operation (fields are space separated, byte strings hex encoded) -/
def parseOp (line : String) : Option Op :=
  match fieldsOf line with
  | ["new", h, name] => some (.new (natOf h) (strOf name))
  | ["assocnew", h, name, h'] => some (.assocNew (natOf h) (strOf name) (natOf h'))
  | ["parse", h, _text, defs] => ((unhex defs).bind parseDefsBytes).map (.parse (natOf h))
  | ["clone", h, h'] => some (.clone (natOf h) (natOf h'))
  | ["lookup", h, name, h'] => some (.lookup (natOf h) (strOf name) (natOf h'))
  | ["templates", h] => some (.templates (natOf h))
  | ["csp", h] => some (.csp (natOf h))
  | ["exec", h, data] => ((unhex data).bind parseValueBytes).map (.exec (natOf h))
  | ["exect", h, name, data] => ((unhex data).bind parseValueBytes).map (.execT (natOf h) (strOf name))
  | ["exechtml", h, data] => ((unhex data).bind parseValueBytes).map (.execHTML (natOf h))
  | ["execthtml", h, name, data] => ((unhex data).bind parseValueBytes).map (.execTHTML (natOf h) (strOf name))
  | _ => none

/-- one step: the new world, the canonical result and (for panics) the model's panic site -/
def stepLine (w : World) (line : String) : World × String × String :=
  match parseOp line with
  | none => (w, "bad-step", "")
  | some op =>
    let (w', r) := Api.step w op
    (w', r.str, r.site)

/-- run steps on a fresh world; after a panic the remaining steps are skipped; also returns the final world -/
def runLinesW (lines : List String) : List (String × String) × World :=
  let rec go : List String → World → Bool → List (String × String) × World
    | [], w, _ => ([], w)
    | l :: ls, w, dead =>
      if dead then
        let (r, wf) := go ls w true
        (("skipped", "") :: r, wf)
      else
        let (w', r, site) := stepLine w l
        let (rest, wf) := go ls w' (r == "panic")
        ((r, site) :: rest, wf)
  go lines { v := liteValidators } false

def runLines (lines : List String) : List (String × String) := (runLinesW lines).1

/-- did the model ever take a memo hit under a different static attribute prefix (finding classification)? -/
def prefixReuseIn (w : World) : Bool := w.nss.any fun p => p.2.esc.prefixReuse

def opOf (line : String) : String := (fieldsOf line).headD ""
def isExecOp (op : String) : Bool := op == "exec" || op == "exect" || op == "exechtml" || op == "execthtml"
def isDefOp (op : String) : Bool :=
  op == "new" || op == "assocnew" || op == "parse" || op == "clone" || op == "lookup" || op == "csp"

/-- set id of the handle each step operates on (mirrors `stepSets` of the harness). Handles carry
    (set id, template name); `assocnew h name h'` moves every handle that denotes the old template of
    that name into a brand-new set (`*existing = *emptyTmpl`). -/
def stepSets (lines res : List String) : List Nat :=
  let rec go : List (String × String) → List (Nat × Nat × String) → Nat → List Nat
    | [], _, _ => []
    | (l, r) :: rest, tab, next =>
      let f := fieldsOf l
      let h := natOf (f.getD 1 "")
      let cur := (tab.find? (·.1 == h)).map (·.2.1) |>.getD 0
      let curName := (tab.find? (·.1 == h)).map (·.2.2) |>.getD ""
      let put (t : List (Nat × Nat × String)) (x s : Nat) (n : String) := (x, s, n) :: t.filter (·.1 != x)
      match f with
      | ["new", _, n] => next :: go rest (put tab h next (strOf n)) (next + 1)
      | ["assocnew", _, n, h'] =>
        let nm := strOf n
        -- handles in ascending order get fresh ids one by one
        let hs := (tab.filter fun e => e.2.1 == cur && e.2.2 == nm).map (·.1)
        let hsSorted := hs.foldl (fun acc x => (acc.filter (· < x)) ++ [x] ++ (acc.filter (· > x))) []
        let (tab', next') := hsSorted.foldl (fun (acc : List (Nat × Nat × String) × Nat) x =>
          (put acc.1 x acc.2 nm, acc.2 + 1)) (tab, next)
        cur :: go rest (put tab' (natOf h') cur nm) next'
      | ["lookup", _, n, h'] =>
        if r == "nil" then cur :: go rest tab next
        else cur :: go rest (put tab (natOf h') cur (strOf n)) next
      | ["clone", _, h'] =>
        if r == "ok" then cur :: go rest (put tab (natOf h') next curName) (next + 1)
        else cur :: go rest tab next
      | _ => cur :: go rest tab next
  go (lines.zip res) [] 0

def isFailedRes (r : String) : Bool :=
  r.startsWith "err" || r == "panic" || r == "skipped" || r == "timeout"

/-- index of the first exec step of each set -/
def firstExecOf (lines : List String) (sets : List Nat) (s : Nat) : Nat :=
  let idx := (List.range lines.length).find? fun i =>
    isExecOp (opOf (lines.getD i "")) && sets.getD i 0 == s
  idx.getD lines.length

/-- index of the last step before `i` that binds handle `h` -/
def bindStepOf (lines : List String) (i h : Nat) : Nat :=
  let idx := (List.range i).reverse.find? fun j =>
    match fieldsOf (lines.getD j "") with
    | ["new", x, _] => natOf x == h
    | ["assocnew", _, _, x] => natOf x == h
    | ["lookup", _, _, x] => natOf x == h
    | ["clone", _, x] => natOf x == h
    | _ => false
  idx.getD 0

/-- exec steps get `~fresh~frozen` appended, computed by `run` (the model, or nothing for the oracle) -/
def annotateWith (run : List String → List String) (lines res : List String) : List String :=
  let sets := stepSets lines res
  (List.range lines.length).map fun i =>
    let l := lines.getD i ""
    let r := res.getD i ""
    if !isExecOp (opOf l) || r == "skipped" then r
    else
      let fe := firstExecOf lines sets (sets.getD i 0)
      let defs := (List.range i).filter fun j => isDefOp (opOf (lines.getD j "")) && !isFailedRes (res.getD j "")
      let all := defs.map fun j => lines.getD j ""
      let frozen := (defs.filter (· < fe)).map fun j => lines.getD j ""
      let ra := (run (all ++ [l])).getLast?.getD ""
      -- the frozen reference is only defined for handles that existed when the set froze
      let h := natOf ((fieldsOf l).getD 1 "")
      let rf := if bindStepOf lines i h ≥ fe && fe < i then r else (run (frozen ++ [l])).getLast?.getD ""
      r ++ "~" ++ ra ++ "~" ++ rf

def historyLines (h : Bytes) : List String := (strOfBytes h).splitOn "\n" |>.filter (· ≠ "")

def modelHistory (lines : List String) : List String :=
  let res := (runLines lines).map (·.1)
  annotateWith (fun ls => (runLines ls).map (·.1)) lines res

def model (op : String) (a : List Bytes) : Option String :=
  match op, a with
  | "tmpl.hist", [h] => some (String.intercalate ";" (modelHistory (historyLines h)))
  | _, _ => none

end SafeHtml.Ops.Tmpl
