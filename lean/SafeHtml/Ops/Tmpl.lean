/- Line-protocol ops of the template engine: one op line = one whole API history. -/
import SafeHtml.Ops.Common
import SafeHtml.Model.Tmpl.Api
import SafeHtml.Model.Tmpl.PrefixLite
namespace SafeHtml.Ops.Tmpl
open SafeHtml SafeHtml.Ops SafeHtml.Model.Tmpl

/-- one step of a history: fields are space separated, byte strings hex encoded -/
def stepLine (w : World) (line : String) : World × String :=
  let f := (line.splitOn " ").filter (· ≠ "")
  let nat (s : String) : Nat := s.toNat?.getD 0
  let str (s : String) : String := match unhex s with | some b => strOfBytes b | none => ""
  match f with
  | ["new", h, name] =>
    let (w, oid) := w.newSet (str name)
    (w.bind (nat h) oid, "ok")
  | ["assocnew", h, name, h'] =>
    match w.obj (nat h) with
    | some (_, o) =>
      let (w, oid) := w.assocNew o.ns (str name)
      (w.bind (nat h') oid, "ok")
    | none => (w, "unsupported")
  | ["parse", h, _text, defs] =>
    match (unhex defs).bind parseDefsBytes with
    | some ds => apiParse w (nat h) ds
    | none => (w, "bad-defs")
  | ["clone", h, h'] => apiClone w (nat h) (nat h')
  | ["lookup", h, name, h'] => apiLookup w (nat h) (str name) (nat h')
  | ["templates", h] => (w, apiTemplates w (nat h))
  | ["csp", h] =>
    match w.obj (nat h) with
    | some (_, o) => let ns := w.ns o.ns; (w.setNs o.ns { ns with csp := true }, "ok")
    | none => (w, "unsupported")
  | ["exec", h, data] =>
    match (unhex data).bind parseValueBytes with
    | some d => let (w, r) := apiExecute w (nat h) d; (w, r.str)
    | none => (w, "bad-data")
  | ["exect", h, name, data] =>
    match (unhex data).bind parseValueBytes with
    | some d => let (w, r) := apiExecuteTemplate w (nat h) (str name) d; (w, r.str)
    | none => (w, "bad-data")
  | ["exechtml", h, data] =>
    match (unhex data).bind parseValueBytes with
    | some d =>
      let (w, r) := apiExecute w (nat h) d
      (w, match r with | .err c _ => (Res.err c []).str | r => r.str)
    | none => (w, "bad-data")
  | ["execthtml", h, name, data] =>
    match (unhex data).bind parseValueBytes with
    | some d =>
      let (w, r) := apiExecuteTemplate w (nat h) (str name) d
      (w, match r with | .err c _ => (Res.err c []).str | r => r.str)
    | none => (w, "bad-data")
  | _ => (w, "bad-step")

def runHistory (lines : List String) : List String :=
  let rec go : List String → World → Bool → List String
    | [], _, _ => []
    | l :: ls, w, dead =>
      if dead then "skipped" :: go ls w true
      else
        let (w', r) := stepLine w l
        r :: go ls w' (r == "panic")
  go lines { v := liteValidators } false

def model (op : String) (a : List Bytes) : Option String :=
  match op, a with
  | "tmpl.hist", [h] =>
    let lines := (strOfBytes h).splitOn "\n" |>.filter (· ≠ "")
    some (String.intercalate ";" (runHistory lines))
  | _, _ => none

def oracle (_op : String) (_a : List Bytes) (_real : List String) : Option String := none

end SafeHtml.Ops.Tmpl
