import SafeHtml.Ops.Common
import SafeHtml.Model.TrustedSource
import SafeHtml.Oracle.C20
namespace SafeHtml.Ops.C20
open SafeHtml SafeHtml.Ops

def model (op : String) (a : List Bytes) : Option String :=
  match op, a with
  | "tsrc.dir", [d, s, f] => some (errRes (Model.trustedSourceFromConstantDir d (Model.trustedSourceFromConstant s) f))
  | "path.clean", [p] => some (okRes (Spec.Path.clean p))
  | "path.join3", [x, y, z] => some (okRes (Model.filepathJoin [x, y, z]))
  | _, _ => none

/-- real result of `tsrc.dir`: `err` | `ok <hex>` | `ok <hex> relcheck=<what>` -/
def parseDirRes (f : List String) : Option (Option Bytes × String) :=
  match f with
  | ["err"] => some (none, "")
  | ["ok", h] => (unhex h).map fun b => (some b, "")
  | ["ok", h, x] => (unhex h).map fun b => (some b, x)
  | _ => none

def parseOk (f : List String) : Option Bytes :=
  match f with
  | ["ok", h] => unhex h
  | _ => none

def oracle (op : String) (a : List Bytes) (real : List String) : Option String :=
  match op, a with
  | "tsrc.dir", [d, s, f] =>
    some (match parseDirRes real with
      | some (r, x) => Oracle.C20.dir d s f r x
      | none => "fail:unparsable-real-result")
  | "path.clean", [p] =>
    some (match parseOk real with
      | some r => Oracle.C20.cleanOp p r
      | none => "fail:unparsable-real-result")
  | "path.join3", [x, y, z] =>
    some (match parseOk real with
      | some r => Oracle.C20.join3Op x y z r
      | none => "fail:unparsable-real-result")
  | _, _ => none

end SafeHtml.Ops.C20
