import SafeHtml.Ops.Common
import SafeHtml.Ops.Tmpl
import SafeHtml.Oracle.C04
namespace SafeHtml.Ops.C04
open SafeHtml SafeHtml.Ops SafeHtml.Model.Tmpl

def scRes : Option Generated.Policy.SC → String
  | some sc => "ok " ++ sc.name
  | none => "err"

/-- `ok <Name>` / `err` -/
def parseSc (f : List String) : Option (Option String) :=
  match f with
  | ["err"] => some none
  | ["ok", n] => some (some n)
  | _ => none

/-- result of the last step of a one-shot history -/
def lastRes (lines : List String) : String := ((Ops.Tmpl.runLines lines).getLast?.map (·.1)).getD "bad"

def model (op : String) (a : List Bytes) : Option String :=
  match op, a with
  | "pol.attr", [e, atr, rel] => some (scRes (sanitizationContextForAttrVal e atr rel))
  | "pol.elem", [e] => some (scRes (sanitizationContextForElementContent e))
  | "pol.probe", [_form, _e, _a, _rel, _kind, _val, hist] => some (lastRes (Ops.Tmpl.historyLines hist))
  | _, _ => none

def oracle (op : String) (a : List Bytes) (real : List String) : Option String :=
  match op, a with
  | "pol.attr", [e, atr, rel] =>
    some (match parseSc real with
      | some r => Oracle.C04.attr e atr rel r
      | none => "fail:unparsable-real-result")
  | "pol.elem", [e] =>
    some (match parseSc real with
      | some r => Oracle.C04.elem e r
      | none => "fail:unparsable-real-result")
  | "pol.probe", [form, e, atr, rel, kind, val, _hist] =>
    let out : Option Bytes := match real with
      | ["ok", h] => unhex h
      | _ => none
    some (Oracle.C04.probe (strOfBytes form) e atr rel (strOfBytes kind) val out)
  | _, _ => none

end SafeHtml.Ops.C04
