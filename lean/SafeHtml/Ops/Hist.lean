/- `tmpl.hist.<Cxx>`: the same history op under a property-specific name, so that each property's
   check applies its own oracle. -/
import SafeHtml.Oracle.Hist
namespace SafeHtml.Ops.Hist
open SafeHtml

/-- `tmpl.files`: ParseFiles / ParseGlob / ParseFS on real files against the Parse history the documentation equates
    them with (`expect` is set when the text/template parser rejects one of the files: the call returns that error) -/
def model (op : String) (a : List Bytes) : Option String :=
  if op.startsWith "tmpl.hist" then Ops.Tmpl.model "tmpl.hist" a
  else match op, a with
    | "tmpl.files", [_via, _files, _name, _data, h, expect] =>
      if expect.isEmpty then some (((Ops.Tmpl.runLines (Ops.Tmpl.historyLines h)).map (·.1)).getLast?.getD "")
      else some (SafeHtml.Model.Tmpl.strOfBytes expect)
    | _, _ => none

def oracle (op : String) (a : List Bytes) (real : List String) : Option String :=
  match op.splitOn ".", a with
  | ["tmpl", "hist", which], [h] => some (Oracle.Hist.run which h real)
  | ["tmpl", "hist"], [_] => some "pass"
  | ["tmpl", "files"], _ =>
    -- C08: the file-reading entry points return their problems as errors
    match real with
    | r :: _ =>
      if Oracle.Hist.isPanic r then some "fail:file-entry-point-panicked-or-hung"
      else if r == "err-with-template" || r == "nil-without-error" then some "fail:file-entry-point-error-and-result-disagree"
      else some "pass"
    | [] => some "pass"
  | _, _ => none

end SafeHtml.Ops.Hist
