/- `tmpl.hist.<Cxx>`: the same history op under a property-specific name, so that each property's
   check applies its own oracle. -/
import SafeHtml.Oracle.Hist
namespace SafeHtml.Ops.Hist
open SafeHtml

def model (op : String) (a : List Bytes) : Option String :=
  if op.startsWith "tmpl.hist" then Ops.Tmpl.model "tmpl.hist" a else none

def oracle (op : String) (a : List Bytes) (real : List String) : Option String :=
  match op.splitOn ".", a with
  | ["tmpl", "hist", which], [h] => some (Oracle.Hist.run which h real)
  | ["tmpl", "hist"], [_] => some "pass"
  | _, _ => none

end SafeHtml.Ops.Hist
