/- Helpers shared by the per-property op tables of the line-protocol driver. Core Lean only. -/
import SafeHtml.Basic.Bytes
namespace SafeHtml.Ops
open SafeHtml

/-- `some b` ↦ `ok <hex>`, `none` ↦ `panic` -/
def optRes : Option Bytes → String
  | some b => "ok " ++ hexOf b
  | none => "panic"

/-- `some b` ↦ `ok <hex>`, `none` ↦ `err` -/
def errRes : Option Bytes → String
  | some b => "ok " ++ hexOf b
  | none => "err"

def okRes (b : Bytes) : String := "ok " ++ hexOf b
def boolRes (b : Bool) : String := if b then "true" else "false"

/-- parse a real result of the form `ok <hex>` / `panic` / `err` ; outer none = unparsable -/
def parseOptRes (f : List String) : Option (Option Bytes) :=
  match f with
  | ["panic"] => some none
  | ["err"] => some none
  | ["ok", h] => (unhex h).map some
  | _ => none

def parseBool (f : List String) : Option Bool :=
  match f with
  | ["true"] => some true
  | ["false"] => some false
  | _ => none

/-- split a byte string on a separator byte -/
def splitOnByte (sep : Nat) (s : Bytes) : List Bytes :=
  let rec go : Bytes → Bytes → List Bytes
    | [], cur => [cur.reverse]
    | c :: t, cur => if c == sep then cur.reverse :: go t [] else go t (c :: cur)
  go s []

end SafeHtml.Ops
