import SafeHtml.Ops.Common
import SafeHtml.Model.Html
import SafeHtml.Oracle.C10
namespace SafeHtml.Ops.C10
open SafeHtml SafeHtml.Ops

/-- `html.escaped <s>` ↦ `ok <HTMLEscaped(s)> <html.UnescapeString of it>`; the model predicts the second
    field with the spec unescaper of the five references (equal on every text in `Esc`). -/
def model (op : String) (a : List Bytes) : Option String :=
  match op, a with
  | "html.escaped", [s] =>
    let o := Model.htmlEscaped s
    some ("ok " ++ hexOf o ++ " " ++ hexOf (Spec.unescape5 o))
  | "html.concat", args => some (okRes (Model.htmlConcat args))
  | _, _ => none

def oracle (op : String) (a : List Bytes) (real : List String) : Option String :=
  match op, a with
  | "html.escaped", [s] =>
    some (match real with
      | ["ok", ho, hu] =>
        match unhex ho, unhex hu with
        | some o, some u => Oracle.C10.escaped s o u
        | _, _ => "fail:unparsable-real-result"
      | ["panic"] => "fail:panic"
      | _ => "fail:unparsable-real-result")
  | "html.concat", args =>
    some (match parseOptRes real with
      | some (some r) => Oracle.C10.concat args r
      | some none => "fail:panic"
      | none => "fail:unparsable-real-result")
  | _, _ => none

end SafeHtml.Ops.C10
