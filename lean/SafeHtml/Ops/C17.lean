/-
Ops of C17:  script.data <name> <json-term> <script>
json-term (compact prefix encoding of a Go value; the harness parses the same grammar):
  z null | T true | F false | n<len>:<lit> number | s<len>:<bytes> string
  r<len>:<bytes> json.RawMessage | j<len>:<bytes> custom json.Marshaler | x<len>:<bytes> encoding.TextMarshaler
  a<count>:<term>*  []interface{} | m<count>:(<len>:<key><term>)* map[string]interface{}
  o<count>:(<len>:<key><term>)* struct (reflect.StructOf, json tags) | p<term> pointer to the value
  c chan | u func | N NaN | I +Inf | y cyclic pointer | e Marshaler returning an error | E TextMarshaler returning an error
Both sides answer `bad-term` for: trailing bytes, duplicate keys, a struct key outside the json tag
alphabet (or empty, or "-"), a number literal that is not a JSON number.
-/
import SafeHtml.Ops.Common
import SafeHtml.Model.Script
import SafeHtml.Oracle.C17
namespace SafeHtml.Ops.C17
open SafeHtml SafeHtml.Ops SafeHtml.Model.GoJson

def parseLenAux : Nat → Bytes → Option (Nat × Bytes)
  | acc, c :: t => if c == 58 then some (acc, t) else if isDigit c then parseLenAux (acc * 10 + (c - 48)) t else none
  | _, [] => none

/-- `<decimal>:` -/
def parseLen : Bytes → Option (Nat × Bytes)
  | c :: t => if isDigit c then parseLenAux 0 (c :: t) else none
  | [] => none

/-- `<len>:<bytes>` -/
def parseBlob (s : Bytes) : Option (Bytes × Bytes) :=
  match parseLen s with
  | some (n, r) => if r.length < n then none else some (r.take n, r.drop n)
  | none => none

def parseList (p : Bytes → Option (JVal × Bytes)) : Nat → Bytes → Option (List JVal × Bytes)
  | 0, s => some ([], s)
  | n+1, s =>
    match p s with
    | some (v, r) => (parseList p n r).map fun q => (v :: q.1, q.2)
    | none => none

def parseKVs (p : Bytes → Option (JVal × Bytes)) : Nat → Bytes → Option (List (Bytes × JVal) × Bytes)
  | 0, s => some ([], s)
  | n+1, s =>
    match parseBlob s with
    | some (k, r) =>
      match p r with
      | some (v, r') => (parseKVs p n r').map fun q => ((k, v) :: q.1, q.2)
      | none => none
    | none => none

def nodupKeys : List (Bytes × JVal) → Bool
  | [] => true
  | (k, _) :: t => !(t.any fun q => q.1 == k) && nodupKeys t

/-- bytes allowed in a `json:"…"` tag name by encoding/json.isValidTag (ASCII part) -/
def tagByte (c : Nat) : Bool :=
  isAlnum c || [33, 35, 36, 37, 38, 40, 41, 42, 43, 45, 46, 47, 58, 59, 60, 61, 62, 63, 64, 91, 93, 94, 95, 123, 124, 125, 126, 32].contains c

def validStructKey (k : Bytes) : Bool := !k.isEmpty && k != [45] && k.all tagByte

def blobTerm (mk : Bytes → JVal) (t : Bytes) : Option (JVal × Bytes) :=
  (parseBlob t).map fun q => (mk q.1, q.2)

def parseTerm : Nat → Bytes → Option (JVal × Bytes)
  | 0, _ => none
  | _+1, [] => none
  | f+1, c :: t =>
    if c == 122 then some (.null, t)
    else if c == 84 then some (.bool true, t)
    else if c == 70 then some (.bool false, t)
    else if c == 110 then
      match parseBlob t with
      | some (lit, r) => if Spec.Json.isNumber lit then some (.num lit, r) else none
      | none => none
    else if c == 115 then blobTerm .str t
    else if c == 114 then blobTerm .raw t
    else if c == 106 then blobTerm .raw t
    else if c == 120 then blobTerm .text t
    else if c == 97 then
      match parseLen t with
      | some (n, r) => (parseList (parseTerm f) n r).map fun q => (.arr q.1, q.2)
      | none => none
    else if c == 109 || c == 111 then
      match parseLen t with
      | some (n, r) =>
        match parseKVs (parseTerm f) n r with
        | some (kvs, r') =>
          if !nodupKeys kvs then none
          else if c == 111 && !(kvs.all fun q => validStructKey q.1) then none
          else some (.obj (c == 109) kvs, r')
        | none => none
      | none => none
    else if c == 112 then parseTerm f t
    else if c == 99 || c == 117 || c == 78 || c == 73 || c == 121 || c == 101 || c == 69 then some (.bad, t)
    else none

def parseWhole (s : Bytes) : Option JVal :=
  match parseTerm (s.length + 1) s with
  | some (v, []) => some v
  | _ => none

def model (op : String) (a : List Bytes) : Option String :=
  match op, a with
  | "script.data", [name, term, script] =>
    some (match parseWhole term with
      | none => "bad-term"
      | some v =>
        match Model.scriptFromDataAndConstant name v script with
        | .ok r => okRes r
        | .error .name => "err:name -"
        | .error .json => "err:json -")
  | _, _ => none

def parseReal (f : List String) : Option Oracle.C17.Real :=
  match f with
  | ["ok", h] => (unhex h).map .ok
  | ["err:name", h] => (unhex h).map .err
  | ["err:json", h] => (unhex h).map .err
  | _ => none

def oracle (op : String) (a : List Bytes) (real : List String) : Option String :=
  match op, a with
  | "script.data", [name, term, script] =>
    some (match parseWhole term with
      | none => if real == ["bad-term"] then "pass" else "fail:unparsable-term"
      | some v =>
        match parseReal real with
        | some r => Oracle.C17.check name v script r
        | none => "fail:unparsable-real-result")
  | _, _ => none

end SafeHtml.Ops.C17
