import SafeHtml.Ops.Common
import SafeHtml.Model.Url
import SafeHtml.Oracle.C11
namespace SafeHtml.Ops.C11
open SafeHtml SafeHtml.Ops

/-- ASCII projection of the modelled `strings.ToLower`: ASCII bytes as they are, every other rune ↦ 0x80.
    Compared with the same projection of the real `strings.ToLower` (validates the only modelling
    assumption about lower-casing: which runes become ASCII, and where). -/
def lowerProj (s : Bytes) : Bytes :=
  (Utf8.decodeSyms (Model.toLowerForScheme s)).map fun x => if x.rune < 128 then x.rune else 128

def model (op : String) (a : List Bytes) : Option String :=
  match op, a with
  | "url.sanitized", [s] => some (okRes (Model.urlSanitized s))
  | "url.lowerproj", [s] => some (okRes (lowerProj s))
  | _, _ => none

def oracle (op : String) (a : List Bytes) (real : List String) : Option String :=
  match op, a with
  | "url.sanitized", [s] =>
    some (match parseOptRes real with
      | some (some r) => Oracle.C11.sanitized s r
      | some none => "fail:panic"
      | none => "fail:unparsable-real-result")
  | "url.lowerproj", [_] => some "pass"   -- assumption check: compared with the model only
  | _, _ => none

end SafeHtml.Ops.C11
