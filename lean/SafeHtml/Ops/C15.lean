import SafeHtml.Ops.Common
import SafeHtml.Model.Style
import SafeHtml.Oracle.C15
namespace SafeHtml.Ops.C15
open SafeHtml SafeHtml.Ops

/-- list argument: ASCII text `hex,hex,…` (`-` = empty element); empty argument = empty list -/
def parseList (a : Bytes) : Option (List Bytes) :=
  if a.isEmpty then some [] else (splitOnByte 44 a).mapM (fun h => unhex (Bytes.toStr h))

def mkProps (urls fonts : List Bytes) (plain : List Bytes) : Model.StyleProps :=
  { lists := [("BackgroundImageURLs", urls), ("FontFamily", fonts)],
    vals := Oracle.C15.plainNames.zip plain }

def model (op : String) (a : List Bytes) : Option String :=
  match op, a with
  | "style.props", u :: f :: plain =>
    some (match parseList u, parseList f with
      | some us, some fs =>
        if plain.length == Oracle.C15.plainNames.length then okRes (Model.styleFromProperties (mkProps us fs plain))
        else "bad-args"
      | _, _ => "bad-args")
  | "style.const", [s] => some (optRes (Model.styleFromConstant s))
  | _, _ => none

def oracle (op : String) (a : List Bytes) (real : List String) : Option String :=
  match op, a with
  | "style.props", u :: f :: plain =>
    some (match parseList u, parseList f, parseOptRes real with
      | some us, some fs, some (some r) => Oracle.C15.check { urls := us, fonts := fs, plain := plain } r
      | _, _, some none => "fail:constructor-panicked"
      | _, _, _ => "fail:unparsable-real-result")
  | "style.const", [s] =>
    some (match parseOptRes real with
      | some none => "pass"
      | some (some r) =>
        if r != s then "fail:const-altered"
        else if s.contains 60 || s.contains 62 || s.getLast? != some 59 || !s.contains 58 then "fail:const-checks"
        else "pass"
      | none => "fail:unparsable-real-result")
  | _, _ => none

end SafeHtml.Ops.C15
