import SafeHtml.Ops.Common
import SafeHtml.Model.Identifier
import SafeHtml.Oracle.C18
namespace SafeHtml.Ops.C18
open SafeHtml SafeHtml.Ops

def model (op : String) (a : List Bytes) : Option String :=
  match op, a with
  | "ident.const", [v] => some (optRes (Model.identifierFromConstant v))
  | "ident.prefix", [p, v] => some (optRes (Model.identifierFromConstantPrefix p v))
  | _, _ => none

def oracle (op : String) (a : List Bytes) (real : List String) : Option String :=
  match op, a with
  | "ident.const", [v] =>
    some (match parseOptRes real with
      | some r => Oracle.C18.const v r
      | none => "fail:unparsable-real-result")
  | "ident.prefix", [p, v] =>
    some (match parseOptRes real with
      | some r => Oracle.C18.pref p v r
      | none => "fail:unparsable-real-result")
  | _, _ => none

end SafeHtml.Ops.C18
