/- Executable forms of C05–C08 on an API history and its REAL (annotated) results.
   The rules themselves use only the real results; the model is consulted only to decide whether a
   failing case is one of the listed known findings (it must reproduce the real result exactly). -/
import SafeHtml.Ops.Tmpl
namespace SafeHtml.Oracle.Hist
open SafeHtml SafeHtml.Ops.Tmpl

structure StepRes where
  res : String
  fresh : String := ""
  frozen : String := ""
  deriving Repr

def parseStep (s : String) : StepRes :=
  match s.splitOn "~" with
  | [r] => { res := r }
  | [r, a, f] => { res := r, fresh := a, frozen := f }
  | _ => { res := s }

def isErr (r : String) : Bool := r.startsWith "err"
def isOk (r : String) : Bool := r.startsWith "ok"
def isPanic (r : String) : Bool := r == "panic" || r == "timeout"
def isAnalysisErr (r : String) : Bool := r.startsWith "err:analysis"

/-- the bytes part of `ok <hex>` / `err:<cls> <hex>` -/
def outHex (r : String) : String := ((r.splitOn " ").getD 1 "-")

/-- "the bytes written and whether an error is returned" -/
def sameObservable (a b : String) : Bool :=
  (isOk a && isOk b && outHex a == outHex b) || (isErr a && isErr b && outHex a == outHex b)

/-- name of the template each handle denotes (syntactic) -/
def handleNames (lines : List String) : List (Nat × String) :=
  lines.foldl (fun acc l =>
    match fieldsOf l with
    | ["new", h, n] => (natOf h, strOf n) :: acc.filter (·.1 != natOf h)
    | ["assocnew", _, n, h'] => (natOf h', strOf n) :: acc.filter (·.1 != natOf h')
    | ["lookup", _, n, h'] => (natOf h', strOf n) :: acc.filter (·.1 != natOf h')
    | ["clone", h, h'] =>
      let n := (acc.find? (·.1 == natOf h)).map (·.2) |>.getD ""
      (natOf h', n) :: acc.filter (·.1 != natOf h')
    | _ => acc) []

/-- template name an exec step executes, given the handle names known before it -/
def execTarget (names : List (Nat × String)) (l : String) : String :=
  match fieldsOf l with
  | ["exec", h, _] | ["exechtml", h, _] => (names.find? (·.1 == natOf h)).map (·.2) |>.getD ""
  | ["exect", _, n, _] | ["execthtml", _, n, _] => strOf n
  | _ => ""

structure Ctx where
  lines : List String
  steps : List StepRes
  sets : List Nat
  modelAgrees : Bool          -- the model reproduces the real (annotated) results exactly
  modelSites : List String    -- the model's panic site per step
  prefixReuse : Bool          -- the model took a memo hit under a different static attribute prefix
  oddNames : Bool             -- the history defines or executes a template whose name contains "$htmltemplate_"

def mkCtx (hist : Bytes) (real : String) : Ctx :=
  let lines := historyLines hist
  let realSteps := real.splitOn ";"
  let steps := realSteps.map parseStep
  let (mres, wf) := runLinesW lines
  let model := annotateWith (fun ls => (runLines ls).map (·.1)) lines (mres.map (·.1))
  { lines := lines, steps := steps, sets := stepSets lines (steps.map (·.res)),
    -- steps whose execution lies outside the modelled fragment (the analysis is still modelled, so the state stays
    -- faithful) are not compared
    modelAgrees := model.length == realSteps.length &&
      (model.zip realSteps).all (fun p => p.1 == p.2 || (p.1.splitOn "unsupported").length > 1), modelSites := mres.map (·.2), prefixReuse := prefixReuseIn wf,
    oddNames := lines.any fun l => (Ops.Tmpl.fieldsOf l).any fun f =>
      match unhex f with
      | some b => ((SafeHtml.Model.Tmpl.strOfBytes b).splitOn "$htmltemplate_").length > 1
      | none => false }

/-- a failure is attributed to a listed finding only when the model reproduces the real behaviour -/
def verdict (c : Ctx) (clause sig : String) : String :=
  if c.modelAgrees && sig != "" then "fail:" ++ clause ++ ":" ++ sig else "fail:" ++ clause

def firstSome {α} (l : List (Option α)) : Option α := l.findSome? id

def sigOfSite (site : String) : String :=
  if (site.splitOn "{{break}}").length > 1 || (site.splitOn "{{continue}}").length > 1 then "break-continue"
  else if (site.splitOn "nil").length > 1 then "nil-tree"
  else ""

/-! ### C08: no panics, no hangs -/
def c08 (c : Ctx) : String :=
  let idx := (List.range c.steps.length).find? fun i => isPanic ((c.steps.getD i {res := ""}).res)
  match idx with
  | none =>
    -- annotations are runs of the real API too
    let j := (List.range c.steps.length).find? fun i =>
      let s := c.steps.getD i {res := ""}
      isPanic s.fresh || isPanic s.frozen
    match j with
    | none => "pass"
    | some i =>
      -- the reference runs are runs of the real API too; classify with the model's panic site of the same replay
      let defs := (List.range i).filter fun k => isDefOp (opOf (c.lines.getD k "")) && !isFailedRes ((c.steps.getD k {res := ""}).res)
      let site := ((runLines (defs.map (fun k => c.lines.getD k "") ++ [c.lines.getD i ""])).getLast?.map (·.2)).getD ""
      verdict c "panic-on-fresh-set" (sigOfSite site)
  | some i =>
    let site := c.modelSites.getD i ""
    let sig := sigOfSite site
    if (c.steps.getD i {res := ""}).res == "timeout" then "fail:hang" else verdict c "panic" sig

/-! ### C06: result = result on a fresh set with the same definitions -/
def c06 (c : Ctx) : String :=
  let bad := (List.range c.steps.length).findSome? fun i =>
    let s := c.steps.getD i {res := ""}
    if !isExecOp (opOf (c.lines.getD i "")) || s.res == "skipped" || isPanic s.res then none
    else if sameObservable s.res s.fresh then none
    else
      -- the one listed deviation: the memo key of a derived template leaves out the static attribute prefix
      let sig := if c.oddNames then "mangled-name-collision" else if c.prefixReuse then "memo-ignores-attr-prefix" else ""
      some (if isOk s.res && isAnalysisErr s.fresh then ("ok-but-fresh-set-rejects", sig)
        else if isOk s.res && isOk s.fresh then ("output-differs-from-fresh-set", sig)
        else if isErr s.res && isOk s.fresh then ("error-but-fresh-set-succeeds", sig)
        else ("differs-from-fresh-set", sig))
  match bad with
  | none => "pass"
  | some (cl, sig) => verdict c cl sig

/-! ### C05: failure is sticky, nothing is written, ToHTML returns zero -/
def c05 (c : Ctx) : String :=
  let names := fun (i : Nat) => handleNames (c.lines.take i)
  -- (b) zero HTML on error
  if c.steps.any (fun s => (s.res.splitOn "NONZERO").length > 1) then "fail:tohtml-nonzero-on-error" else
  -- (a) sticky within the history
  let sticky := (List.range c.steps.length).findSome? fun i =>
    let s := c.steps.getD i {res := ""}
    let l := c.lines.getD i ""
    if !isExecOp (opOf l) || s.res == "skipped" then none
    else
      let tgt := execTarget (names i) l
      let setI := c.sets.getD i 0
      let failedBefore := (List.range i).any fun j =>
        let lj := c.lines.getD j ""
        isExecOp (opOf lj) && c.sets.getD j 0 == setI && execTarget (names j) lj == tgt &&
          isAnalysisErr ((c.steps.getD j {res := ""}).res)
      if failedBefore && !(isErr s.res && outHex s.res == "-") && !isPanic s.res then
        some ("executes-after-failed-analysis", "")
      else if isAnalysisErr s.res && outHex s.res != "-" then some ("analysis-error-with-output", "")
      else if isAnalysisErr s.fresh && !isPanic s.res && !(isErr s.res && outHex s.res == "-") then
        some ("runs-although-fresh-analysis-fails", if c.prefixReuse then "memo-ignores-attr-prefix" else "")
      else none
  match sticky with
  | none => "pass"
  | some (cl, sig) => verdict c cl sig

/-! ### C07: freeze at first execution; clones isolated -/
def c07 (c : Ctx) : String :=
  let names := fun (i : Nat) => handleNames (c.lines.take i)
  let bad := (List.range c.steps.length).findSome? fun i =>
    let s := c.steps.getD i {res := ""}
    let l := c.lines.getD i ""
    let setI := c.sets.getD i 0
    let fe := firstExecOf c.lines c.sets setI
    if s.res == "skipped" then none
    else if opOf l == "parse" && fe < i && s.res == "ok" then
      -- `t.New(name)` after the execution moves the old template object into a brand-new (unexecuted) set
      let newAfter := (List.range i).any fun j =>
        fe < j && opOf (c.lines.getD j "") == "assocnew" && c.sets.getD j 0 == setI
      some ("parse-after-execute-accepted", if newAfter then "new-after-exec" else "")
    else if opOf l == "clone" && s.res == "ok" then
      -- cloning a template that has already been executed must fail
      let h := natOf ((fieldsOf l).getD 1 "")
      let n := ((names i).find? (·.1 == h)).map (·.2) |>.getD ""
      let executed := (List.range i).any fun j =>
        let lj := c.lines.getD j ""
        isExecOp (opOf lj) && c.sets.getD j 0 == setI && execTarget (names j) lj == n &&
          !isPanic ((c.steps.getD j {res := ""}).res) &&
          -- an execution that got as far as analysing the template
          ((c.steps.getD j {res := ""}).res.startsWith "ok" || isAnalysisErr (c.steps.getD j {res := ""}).res ||
           (c.steps.getD j {res := ""}).res.startsWith "err:exec")
      -- `t.New(name)` after the execution swaps in a fresh template object for that name: Clone then accepts
      let newAfter := (List.range i).any fun j =>
        fe < j && opOf (c.lines.getD j "") == "assocnew" && c.sets.getD j 0 == setI
      if executed then some ("clone-after-execute-accepted", if newAfter then "new-after-exec" else "") else none
    -- "no later output of the set changes": the same call on a fresh set with ALL definition steps made so far
    -- must equal the call on a fresh set with only those made before the first execution (both references are
    -- fresh real sets, so history-dependence of the escaper — C06 — does not enter here)
    -- clone independence: once a set has been cloned (or is a clone), its results must not depend on what was
    -- executed in the related sets: the call equals the same call on a fresh set. A deviation that carries the
    -- signature of an order dependence WITHIN one set (listed under C06) is not counted here.
    else if isExecOp (opOf l) && !isPanic s.res && !isPanic s.fresh && !sameObservable s.res s.fresh &&
        !c.prefixReuse && !c.oddNames &&
        (List.range i).any (fun j => opOf (c.lines.getD j "") == "clone" && (c.steps.getD j {res := ""}).res == "ok") &&
        -- executions in at least two different sets precede or include this step
        ((List.range (i + 1)).filter (fun j => isExecOp (opOf (c.lines.getD j "")))).any (fun j => c.sets.getD j 0 != setI) then
      some ("result-depends-on-executions-in-a-related-set", "")
    else if isExecOp (opOf l) && !isPanic s.fresh && !isPanic s.frozen && !sameObservable s.fresh s.frozen then
      let newAfter := (List.range i).any fun j =>
        fe < j && opOf (c.lines.getD j "") == "assocnew" && c.sets.getD j 0 == setI
      some ("output-changed-after-freeze", if newAfter then "new-after-exec" else "")
    else none
  match bad with
  | none => "pass"
  | some (cl, sig) => verdict c cl sig

def run (which : String) (hist : Bytes) (real : List String) : String :=
  let c := mkCtx hist (String.intercalate " " real)
  if c.steps.length != c.lines.length then "fail:unparsable-real-result"
  -- the harness re-reads every error value it was handed: a call returns what it returns, also later
  else if c.steps.any (fun s => (s.res.splitOn "EARLIER-ERROR-VALUE-CHANGED").length > 1) then
    "fail:an-error-value-returned-by-an-earlier-call-changed"
  else match which with
    | "C05" => c05 c
    | "C06" => c06 c
    | "C07" => c07 c
    | "C08" => c08 c
    -- C09, sequential part: the serial reference the concurrent runs are compared with is itself order-independent
    -- (every call equals the same call on a fresh set) and panic-free
    | "C09" =>
      let r := c08 c
      if r != "pass" then r else
      let r6 := c06 c
      -- an order dependence that carries the signature of a finding listed under C06 is reported there, not here
      if (r6.splitOn ":").length > 2 then "pass" else r6
    | _ => "pass"

end SafeHtml.Oracle.Hist
