/- Executable form of C03 on REAL outputs: the same template executed with a safe-typed value and with the
   plain string of the same contents. Uses the reviewed policy, the spec tokenizer and decoder only. -/
import SafeHtml.Oracle.C01
import SafeHtml.Oracle.C04
import SafeHtml.Spec.UrlComponents
import SafeHtml.Spec.Interchange
namespace SafeHtml.Oracle.C03
open SafeHtml SafeHtml.Spec SafeHtml.Spec.HtmlTok SafeHtml.Spec.Policy SafeHtml.Reviewed.Policy

/-- the safe types whose contents a sanitization context emits intact (documented type contracts) -/
def allowed : RSC → List String
  | .HTML => ["H"] | .HTMLValOnly => ["H"] | .Identifier => ["I"] | .Script => ["S"] | .Style => ["Y"]
  | .StyleSheet => ["E"] | .TrustedResourceURL => ["R"] | .TrustedResourceURLOrURL => ["R", "U"] | .URL => ["U"]
  | _ => []

/-- `form` = dq | sq | content; typed / plain = real results (`some out` = ok) -/
def c03 (form : String) (e a pre : Bytes) (tag : String) (contents : Bytes)
    (typed plain : Option Bytes) : String :=
  -- form "after": the action follows the END tag of element `e` (written with separator `pre` before '>'), so it is
  -- top-level element content whatever `e` is
  -- "script-type": `<script type="…">{{.}}</script>` is script content whatever the type says;
  -- "after-break": the action follows a loop (top-level content) and must not land inside an attribute value
  let ctx : Option Cx := if form == "script-type" then reviewedContent (B "script")
    else if form == "after" || form == "after-break" then reviewedContent [] else if form == "content" then
      (if Oracle.C04.htmlVoid.contains (Oracle.C04.lowerB e) then reviewedContent [] else reviewedContent (Oracle.C04.lowerB e))
    else reviewedAttr (Oracle.C04.lowerB e) (Oracle.C04.lowerB a) []
  match typed with
  | none => "pass"        -- rejected: never a violation of this property
  | some out =>
    -- (1) inside an attribute value nothing may terminate the attribute or the tag
    let r := tokenize out
    let attrOk : Bool :=
      if form == "after-break" then
        -- the typed value is at top level: it must not be found inside any attribute value of the output
        -- (neither in a completed attribute nor — the action being the last thing written — in one left open)
        contents.isEmpty || (!(r.tokens.any fun t => match t with
          | .startTag _ attrs _ => attrs.any fun a => Oracle.C01.contains contents a.2
          | _ => false) &&
          (out.drop (out.length - contents.length) != contents ||
            (tokenize (out.take (out.length - contents.length))).final == .data))
      else if form == "content" || form == "after" || form == "script-type" then true
      else match r.tokens with
        -- exactly the one start tag with the one attribute (the tokenizer may then be in the RCDATA / RAWTEXT /
        -- script state of that element, which is the author's doing)
        | [.startTag n attrs _] => n == Oracle.C04.lowerB e && attrs.map (·.1) == [Oracle.C04.lowerB a] &&
            (r.final == .data || r.final == .rcdata || r.final == .rawtext || r.final == .script || r.final == .plaintext)
        | _ => false
    if !attrOk then "fail:value-terminated-the-attribute-or-tag"
    else
      let isAllowed := match ctx with
        | some (.known sc) => (allowed sc).contains tag
        | _ => false
      if isAllowed then
        -- (2) contents intact in its own context
        let seen : Bytes := if form == "content" || form == "after" || form == "script-type" || form == "after-break" then out
          else match r.tokens with
            | [.startTag _ [(_, v)] _] => CharRef.decodeAttr v
            | _ => []
        -- a static URL prefix may have normalised / query-escaped the value: then "intact" is not claimed
        -- URL contexts run the normalizer on every value: intact up to percent-encoding
        let isUrlCtx := match ctx with
          | some (.known .URL) | some (.known .TrustedResourceURL) | some (.known .TrustedResourceURLOrURL) => true
          | _ => false
        let intact := if isUrlCtx then SafeHtml.Spec.UrlComp.pctDecode seen == SafeHtml.Spec.UrlComp.pctDecode contents
          -- inside an attribute the value passes the HTML escaper, which replaces NUL, other control characters,
          -- noncharacters and invalid UTF-8 by U+FFFD (C10): intact means intact up to that coercion
          else Oracle.C01.contains contents seen ||
            (form != "content" && form != "after" && form != "script-type" && form != "after-break" && Oracle.C01.contains (SafeHtml.Spec.refCoerce contents) seen)
        if (pre.isEmpty || form == "after") && !intact then "fail:typed-value-not-emitted-intact-in-its-own-context"
        else "pass"
      else
        -- (3) in every other context: exactly like the plain string with the same contents
        if typed != plain then "fail:typed-value-treated-differently-from-plain-string"
        else "pass"

end SafeHtml.Oracle.C03
