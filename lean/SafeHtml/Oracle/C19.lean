/-
Executable form of C19 applied to (client program shape, REAL compile verdict) pairs.
Uses only the reviewed lists (Reviewed.Api) and spec predicates (Spec.GoTypes) — never the
regenerated surface or the model.

Verdicts: pass | fail:<clause> | fail:<clause>:<known-finding signature>
-/
import SafeHtml.Spec.GoTypes
import SafeHtml.Reviewed.Api
namespace SafeHtml.Oracle.C19
open SafeHtml SafeHtml.Spec.GoTypes SafeHtml.Reviewed.Api

/-- result description sent by the harness: comma-separated `tag|type`, tag S (structurally a safe
type), P (*Template) or - ; a result also counts when its type NAME is a reviewed safe type. -/
def yieldsSafe (r : String) : Bool :=
  (r.splitOn ",").any fun e =>
    match e.splitOn "|" with
    | [tag, ty] =>
      tag == "S" || tag == "P" || isSafeTypeName ty || isSafeTypeName ((ty.splitOn "]").getLast!) ||
        ty == "*template.Template" || ty == "[]*template.Template"
    | _ => true   -- unparsable: be conservative

/-- (compiles, function key, parameter index, argument, result description) -/
def assign (compiles : Bool) (f i : Nat) (a : Arg) (r : String) : String :=
  if !compiles then "pass"
  else if a.isUntypedConst then "pass"
  else
    let generic := match a with | .viaGeneric _ => true | _ => false
    if isTrusted f i then
      if generic then "fail:const-param:generic-inference" else "fail:const-param"
    else if yieldsSafe r then
      match lookup constructors f with
      | none => if generic then "fail:unreviewed-constructor:generic-inference" else "fail:unreviewed-constructor"
      | some e =>
        match e.status with
        | .covered _ => "pass"
        | .finding s => "fail:constructor:" ++ s
    else "pass"

def rootSafe (n : String) : Bool := safeTypes.any fun t => t.pkg == 1 && t.name == n

/-- `T2(x)` with `x : T1` -/
def convert (compiles : Bool) (t1 t2 : String) : String :=
  if !compiles || t1 == t2 || !isSafeTypeName t2 then "pass"
  else if rootSafe t1 && rootSafe t2 then "fail:convertible:struct-conversion"
  else "fail:convertible"

def make (compiles : Bool) (t kind : String) : String :=
  if !compiles || kind == "zero" then "pass"
  else if isSafeTypeName t then "fail:raw-construction"
  else if kind.startsWith "fieldRead:" then "pass"
  else
    match lookup structs (nameKey (B t)) with
    | none => "fail:unreviewed-field"
    | some e =>
      match e.status with
      | .covered _ => "pass"
      | .finding s => "fail:exported-field:" ++ s

def var (compiles : Bool) (r : String) : String :=
  if compiles && yieldsSafe r then "fail:unreviewed-source" else "pass"

def leak (compiles : Bool) : String := if compiles then "fail:leak" else "pass"

def probe (compiles : Bool) (label : String) : String :=
  match label.splitOn ":" with
  | ["backdoor", sig] => if compiles then "fail:backdoor:" ++ sig else "pass"
  | ["must-reject", _] => if compiles then "fail:must-reject" else "pass"
  | ["must-compile", _] => if compiles then "pass" else "fail:must-compile"
  | _ => "fail:bad-probe-label"

end SafeHtml.Oracle.C19
