/-
Executable form of C14 applied to (input, REAL output) pairs. Uses only Spec functions
(Spec.CharRef = WHATWG attribute-value character references, Spec.UrlComp = WHATWG scheme / RFC 3986 alphabets),
never the model.
-/
import SafeHtml.Spec.CharRef
import SafeHtml.Spec.Policy
import SafeHtml.Spec.UrlComponents
namespace SafeHtml.Oracle.C14
open SafeHtml SafeHtml.Spec SafeHtml.Spec.UrlComp

/-! ### leaf escapers -/

/-- property text: "fully percent-encoded and cannot add '&', '=', '#' or parameters" -/
def query (s r : Bytes) : String :=
  if !unreservedOrPct r then "fail:query-alphabet"
  else if pctDecode r != s then "fail:query-roundtrip"
  else "pass"

/-- property text: "no quotes, angle brackets, spaces, controls, backslashes or non-ASCII bytes" -/
def normByteOk (c : Nat) : Bool :=
  32 < c && c < 127 && c != 34 && c != 39 && c != 60 && c != 62 && c != 92 && c != 96

/-- `r` is `s` with some bytes replaced by their `%hh`; a `%` that starts a valid escape in `s` must be kept -/
def isNormalisationOf : Bytes → Bytes → Bool
  | [], r => r.isEmpty
  | c :: t, r =>
    let validEsc := c == 37 && (match t with
      | a :: b :: _ => isHexDigit a && isHexDigit b
      | _ => false)
    match r with
    | [] => false
    | d :: r' =>
      if validEsc then d == 37 && isNormalisationOf t r'
      else if c != 37 && d == c then isNormalisationOf t r'
      else match r with
        | 37 :: a :: b :: r'' => isHexDigit a && isHexDigit b && hexValue a * 16 + hexValue b == c && isNormalisationOf t r''
        | _ => false

def norm (s r : Bytes) : String :=
  if !r.all normByteOk then "fail:norm-alphabet"
  else if !pctWellFormed r then "fail:norm-stray-percent"
  else if !isNormalisationOf s r then "fail:norm-not-an-escaping-of-input"
  else "pass"

def norm2 (r rr : Bytes) : String :=
  if rr != r then "fail:norm-not-idempotent" else "pass"

/-! ### prefix validators -/

/-- Go's html.UnescapeString does not decode "&#D" (one decimal digit) when followed by a byte other than
    a digit or `;` — the browser does. Signature of the known divergence. -/
def hasShortDecimalRef : Bytes → Bool
  | 38 :: 35 :: d :: n :: t =>
    (isDigit d && !(isDigit n) && n != 59) || hasShortDecimalRef (35 :: d :: n :: t)
  | _ :: t => hasShortDecimalRef t
  | [] => false

/-- no scheme yet, and appended bytes could still produce one -/
def couldBecomeScheme (d : Bytes) : Bool :=
  (whatwgScheme d).isNone &&
  (match preprocess d with
   | [] => true
   | c :: t => isAlpha c && t.all isSchemeChar)

/-- checks common to every accepted URL / TrustedResourceURL prefix; `bd` = what the browser decodes -/
def acceptedCommon (p : Bytes) : String :=
  let bd := CharRef.decodeAttr p
  if p.any isWsOrCtl then "fail:accepted-raw-whitespace-or-control"
  else if CharRef.endsWithCharRefPrefix p then "fail:accepted-partial-character-reference"
  else if bd.any isWsOrCtl then
    (if hasShortDecimalRef p then "fail:accepted-whitespace-or-control-as-reference:short-decimal-charref"
     else "fail:accepted-whitespace-or-control-as-reference")
  else if endsWithPctPrefix bd then "fail:accepted-partial-percent-escape"
  else "pass"

def acceptedURL (p : Bytes) : String :=
  let c := acceptedCommon p
  if c != "pass" then c else
  let bd := CharRef.decodeAttr p
  if couldBecomeScheme bd then "fail:accepted-prefix-completable-into-scheme"
  else if whatwgScheme bd == some javascript then "fail:accepted-javascript-scheme"
  else "pass"

def acceptedTRU (p : Bytes) : String :=
  let c := acceptedCommon p
  if c != "pass" then c else
  let bd := CharRef.decodeAttr p
  if couldBecomeScheme bd then "fail:accepted-prefix-completable-into-scheme"
  else if whatwgScheme bd == some javascript then "fail:accepted-javascript-scheme"
  else if !(bd.contains 63 || bd.contains 35) && endsWithDotSegment bd then
    "fail:accepted-tru-prefix-ending-in-dot-segment"     -- data "." would complete a ".." path segment
  else "pass"

/-- numeric reference whose digits overflow 32 bits: Go wraps (int32), the browser yields U+FFFD.
    Conservative detector: a run of ≥ 8 hex digits or ≥ 10 decimal digits after "&#". -/
def hasLongNumericRef : Bytes → Bool
  | 38 :: 35 :: t =>
    let ds := match t with
      | 120 :: u => u
      | 88 :: u => u
      | _ => t
    ((ds.takeWhile isHexDigit).length ≥ 8) || hasLongNumericRef t
  | _ :: t => hasLongNumericRef t
  | [] => false

/-- "&#x;" : Go yields U+FFFD, the browser keeps the text -/
def hasEmptyHexRef : Bytes → Bool
  | 38 :: 35 :: x :: 59 :: t => ((x == 120 || x == 88)) || hasEmptyHexRef t
  | _ :: t => hasEmptyHexRef t
  | [] => false

def decode (p : Bytes) (real : Option Bytes) : String :=
  match real with
  | none => "pass"
  | some d =>
    let c := acceptedCommon p
    if c != "pass" then c
    else
      -- Go decodes in text mode, the browser in attribute mode: they must agree except for the documented
      -- divergences (legacy names without `;` before `=`/alnum; int32 overflow; "&#x;"; "&#D")
      let bd := CharRef.decodeAttr p
      if d == bd then "pass"
      else if d == CharRef.decodeText p then "pass"
      else if hasLongNumericRef p || hasEmptyHexRef p || hasShortDecimalRef p then "pass"
      else "fail:decoded-prefix-differs-from-browser-decoding"

/-! ### through a real template `<elem attr="P{{.}}">` -/

inductive Ctx | other | url | tru
  deriving DecidableEq

/-- the four fixed templates of the generator -/
def ctxOf (elem attr : Bytes) : Option Ctx :=
  if elem == [97] && attr == [104, 114, 101, 102] then some .url                              -- a href
  else if elem == [102, 111, 114, 109] && attr == [97, 99, 116, 105, 111, 110] then some .url  -- form action
  else if elem == [115, 99, 114, 105, 112, 116] && attr == [115, 114, 99] then some .tru       -- script src
  else if elem == [113] && attr == [99, 105, 116, 101] then some .other                        -- q cite
  else none

def stripPrefix? (p s : Bytes) : Option Bytes :=
  if p.isPrefixOf s then some (s.drop p.length) else none

def stripSuffix? (p s : Bytes) : Option Bytes :=
  if p.isSuffixOf s then some (s.take (s.length - p.length)) else none

def closing (elem : Bytes) : Bytes :=
  if elem == [115, 99, 114, 105, 112, 116] then [34, 62, 60, 47, 115, 99, 114, 105, 112, 116, 62] else [34, 62]

/-- real: `ok out` / `perr` (template rejected) / `xerr` (execution error) -/
def urlattrCtx (c0 : Option Ctx) (elem attr p w : Bytes) (real : List String) : String :=
  match c0 with
  | none => "fail:unknown-template"
  | some ctx =>
  let accepted : String := match ctx with
    | .other => "pass"
    | .url => acceptedURL p
    | .tru => acceptedTRU p
  match real with
  | ["perr"] => if ctx == .other then "fail:unexpected-template-error" else "pass"
  | ["xerr"] =>
    if accepted != "pass" then accepted
    else if ctx == .tru && containsDotDot w then "pass" else "fail:unexpected-execution-error"
  | ["ok", h] =>
    match unhex h with
    | none => "fail:unparsable-real-result"
    | some out =>
    if accepted != "pass" then accepted else
    let opening := [60] ++ elem ++ [32] ++ attr ++ [61, 34] ++ p
    match (stripPrefix? opening out).bind (stripSuffix? (closing elem)) with
    | none => "fail:output-shape"
    | some mid =>
    if mid.contains 34 then "fail:quote-in-attribute-value" else
    if ctx == .other then "pass" else   -- not a URL-typed attribute: no component claim
    let bp := CharRef.decodeAttr p
    let bd := CharRef.decodeAttr (p ++ mid)
    match stripPrefix? bp bd with
    | none => "fail:data-changed-the-decoding-of-the-prefix"
    | some dv =>
    match ctx with
    | .other => "pass"   -- not a URL context: no component claim (dv is the HTML-escaped data)
    | .url =>
      if whatwgScheme bd != whatwgScheme bp then "fail:scheme-changed"
      else if whatwgScheme bd == some javascript then "fail:javascript-scheme"
      else if bp.contains 63 || bp.contains 35 then
        (if !unreservedOrPct dv then "fail:query-part-not-fully-percent-encoded"
         else if pctDecode dv != w then "fail:query-roundtrip"
         else "pass")
      else if unreservedOrPct dv && pctDecode dv == w then "pass"   -- stricter than required
      else norm w dv
    | .tru =>
      if whatwgScheme bd != whatwgScheme bp then "fail:scheme-changed"
      else if !unreservedOrPct dv then "fail:tru-not-fully-percent-encoded"
      else if pctDecode dv != w then "fail:query-roundtrip"
      else if dotDotSegments bd > dotDotSegments bp then "fail:tru-new-dotdot-segment"
      else "pass"
  | _ => "fail:unparsable-real-result"

def urlattr (elem attr p w : Bytes) (real : List String) : String := urlattrCtx (ctxOf elem attr) elem attr p w real

/-- `<link [rel="R"] href="P{{.}}">` executed with the string `w`: the href is a TrustedResourceURL context unless
    the REVIEWED policy relaxes it for this rel; the rel attribute is removed from the real output and the
    remaining `<link href="…">` is judged like the fixed templates. -/
def linkattr (rel p w : Bytes) (real : List String) : String :=
  let ctx : Ctx := match Spec.Policy.reviewedAttr [108, 105, 110, 107] [104, 114, 101, 102] (rel.map asciiLower) with
    | some (.known .TrustedResourceURL) => .tru
    | some (.known .TrustedResourceURLOrURL) => .url
    | _ => .other
  let relAttr : Bytes := [32, 114, 101, 108, 61, 34] ++ rel ++ [34]      -- ` rel="R"`
  let real' : List String := match real with
    | ["ok", h] =>
      match unhex h with
      | some out =>
        if rel.isEmpty then real
        else
          let head : Bytes := [60, 108, 105, 110, 107]                  -- `<link`
          if (head ++ relAttr).isPrefixOf out then ["ok", hexOf (head ++ out.drop (head ++ relAttr).length)] else ["ok", h]
      | none => real
    | ["err:exec", _] => ["xerr"]
    | "err:exec" :: _ => ["xerr"]
    | _ => if (real.headD "").startsWith "err:analysis" then ["perr"] else real
  urlattrCtx (some ctx) [108, 105, 110, 107] [104, 114, 101, 102] p w real'

/-- `<elem attr="P{{.A}}M{{.B}}">`: two actions in one attribute value. Only the claims that do not need the
    position of the data inside the value: no quote, scheme fixed by the first static prefix, and (TrustedResourceURL)
    no ".." path segment beyond those of the static text. A new ".." segment here is the known finding
    `adjacent-actions-dotdot` (each substitution is validated alone) when it straddles the end of the first value
    and the text after it; not when the first value adds it alone or when it arises without the first value. -/
def urlattr2 (elem attr p a mid b : Bytes) (real : List String) : String :=
  match ctxOf elem attr with
  | none => "fail:unknown-template"
  | some ctx =>
  match real with
  | ["perr"] => if ctx == .other then "fail:unexpected-template-error" else "pass"
  | ["xerr"] => if ctx == .tru && (containsDotDot a || containsDotDot b) then "pass" else "fail:unexpected-execution-error"
  | ["ok", h] =>
    match unhex h with
    | none => "fail:unparsable-real-result"
    | some out =>
    let opening := [60] ++ elem ++ [32] ++ attr ++ [61, 34]
    match (stripPrefix? opening out).bind (stripSuffix? (closing elem)) with
    | none => "fail:output-shape"
    | some val =>
    if val.contains 34 then "fail:quote-in-attribute-value" else
    if ctx == .other then "pass" else
    let bd := CharRef.decodeAttr val
    let bs := CharRef.decodeAttr (p ++ mid)
    if whatwgScheme bd != whatwgScheme (CharRef.decodeAttr p) then "fail:scheme-changed"
    else if whatwgScheme bd == some javascript then "fail:javascript-scheme"
    else if ctx == .tru && dotDotSegments bd > dotDotSegments bs then
      -- the listed finding is the segment that straddles the END of the first value and what follows it; a segment
      -- that the first value adds on its own, or that arises without it (static text + second value), is not listed
      (if (mid.isEmpty && b.isEmpty) || dotDotSegments (CharRef.decodeAttr (p ++ a)) > dotDotSegments (CharRef.decodeAttr p)
          || dotDotSegments (CharRef.decodeAttr (p ++ [120] ++ mid ++ b)) > dotDotSegments bs then "fail:tru-new-dotdot-segment"
       else "fail:tru-new-dotdot-segment:adjacent-actions-dotdot")
    else "pass"
  | _ => "fail:unparsable-real-result"

/-- cut `s` at the first occurrence of `sep` -/
def cutAt (sep : Bytes) : Bytes → Option (Bytes × Bytes)
  | [] => if sep.isEmpty then some ([], []) else none
  | c :: t =>
    if sep.isPrefixOf (c :: t) then some ([], (c :: t).drop sep.length)
    else (cutAt sep t).map fun r => (c :: r.1, r.2)

/-- `<elem attr="P{{range .L}}{{.}}M{{end}}">` with L = [x, y] (M contains "~~", the items do not): the value is
    P e₁ M e₂ M. The SECOND item is emitted after the static text P·M; when that text has put the URL into its query or
    fragment part the item must be fully percent-encoded. The engine keeps the sanitizers chosen on the first pass
    (prefix P only): known finding `range-reentry-prefix`. -/
def urlrange (elem attr p mid _x _y : Bytes) (real : List String) : String :=
  match ctxOf elem attr with
  | none => "fail:unknown-template"
  | some ctx =>
  match real with
  | ["ok", h] =>
    match unhex h with
    | none => "fail:unparsable-real-result"
    | some out =>
    let opening := [60] ++ elem ++ [32] ++ attr ++ [61, 34]
    match (stripPrefix? opening out).bind (stripSuffix? (closing elem)) with
    | none => "fail:output-shape"
    | some val =>
    if val.contains 34 then "fail:quote-in-attribute-value" else
    if ctx == .other then "pass" else
    match stripPrefix? p val with
    | none => "fail:output-shape"
    | some rest =>
      match cutAt mid rest with
      | none => "pass"                      -- fewer than one item rendered
      | some (_e1, r2) =>
        match cutAt mid r2 with
        | none => "pass"
        | some (e2, _) =>
          let before := CharRef.decodeAttr (p ++ mid)
          let bd := CharRef.decodeAttr val
          if whatwgScheme bd == some javascript then "fail:javascript-scheme"
          else if (before.contains 63 || before.contains 35) && !unreservedOrPct (CharRef.decodeAttr e2) then
            (if p.contains 63 || p.contains 35 || (CharRef.decodeAttr p).contains 63 || (CharRef.decodeAttr p).contains 35 then
               "fail:range-item-not-escaped-in-query"
             else "fail:range-item-not-escaped-in-query:range-reentry-prefix")
          else "pass"
  | _ => "pass"

end SafeHtml.Oracle.C14
