/-
Executable form of C12 applied to (input, REAL output, REAL output of a second pass).
The srcset parsing is the specification's (`Spec.Srcset.candidates`); the URL test is `Model.isSafeURL`
(what "URLSanitized would leave unchanged" means — covered by C11); everything else (descriptor syntax,
"copied in order from s") is written here independently of `Model.UrlSet`.
-/
import SafeHtml.Spec.Srcset
import SafeHtml.Model.Url
namespace SafeHtml.Oracle.C12
open SafeHtml SafeHtml.Spec.Srcset

def isLetter (c : Nat) : Bool := (65 ≤ c && c ≤ 90) || (97 ≤ c && c ≤ 122)
def lc (c : Nat) : Nat := if 65 ≤ c && c ≤ 90 then c + 32 else c
def isHexDig (c : Nat) : Bool := isDigit c || (65 ≤ c && c ≤ 70) || (97 ≤ c && c ≤ 102)

/-- digits (per `dig`) and `_`, at most one `.`, at least one digit -/
def mantissaShape (dig : Nat → Bool) (m : Bytes) : Bool :=
  m.all (fun c => dig c || c == 95 || c == 46) && (m.filter (· == 46)).length ≤ 1 && m.any dig

/-- optional sign, then a decimal digit, then digits and `_` -/
def exponentShape (e : Bytes) : Bool :=
  let e := match e with
    | c :: t => if c == 43 || c == 45 then t else c :: t
    | [] => []
  match e with
  | d :: t => isDigit d && t.all (fun c => isDigit c || c == 95)
  | [] => false

/-- split at the first byte satisfying `p` (the byte itself is dropped); `none` when there is none -/
def splitAtFirst (p : Nat → Bool) (s : Bytes) : Option (Bytes × Bytes) :=
  match s.dropWhile (fun c => !p c) with
  | [] => none
  | _ :: t => some (s.takeWhile (fun c => !p c), t)

/-- The shape of a Go floating-point literal as accepted by `strconv.ParseFloat` (range not considered, underscore
    placement not considered): `[+-]?(inf|infinity)`, `nan`, `[+-]?0x<hexmant>p<exp>`, `[+-]?<decmant>(e<exp>)?`. -/
def isNumber (s : Bytes) : Bool :=
  let low := s.map lc
  let body := match low with
    | c :: t => if c == 43 || c == 45 then t else c :: t
    | [] => []
  if body == [105, 110, 102] || body == [105, 110, 102, 105, 110, 105, 116, 121] then true
  else if low == [110, 97, 110] then true
  else match body with
    | 48 :: 120 :: rest =>
      match splitAtFirst (· == 112) rest with
      | some (m, e) => mantissaShape isHexDig m && exponentShape e
      | none => false
    | _ =>
      match splitAtFirst (· == 101) body with
      | some (m, e) => mantissaShape isDigit m && exponentShape e
      | none => mantissaShape isDigit body

/-- "a number followed by at most one ASCII letter" -/
def isNumberWithOptionalLetter (m : Bytes) : Bool :=
  isNumber m ||
  (match m.getLast? with
   | some l => isLetter l && isNumber m.dropLast
   | none => false)

def pct2c : Bytes := [37, 50, 99]

/-- the URLs of `s` that may have been written as `u` by "percent-encode a comma glued to the start or end" -/
def originals (u : Bytes) : List Bytes :=
  let lead (v : Bytes) : List Bytes := if pct2c.isPrefixOf v then [44 :: v.drop 3] else []
  let trail (v : Bytes) : List Bytes := if pct2c.isSuffixOf v then [v.take (v.length - 3) ++ [44]] else []
  [u] ++ lead u ++ trail u ++ (lead u).flatMap (fun v => (trail (v.drop 1)).map (fun w => 44 :: w))

/-- earliest occurrence of `p` in `rest` (the text after a byte `prev`) whose neighbours satisfy `lok` / `rok`;
    returns the last byte before, and the text after, the occurrence -/
def findPiece (p : Bytes) (lok rok : Option Nat → Bool) : Option Nat → Bytes → Option (Option Nat × Bytes)
  | prev, [] =>
    if p.isEmpty && lok prev && rok none then some (prev, []) else none
  | prev, c :: t =>
    if lok prev && p.isPrefixOf (c :: t) && rok ((c :: t).drop p.length).head? then
      some (if p.isEmpty then prev else p.getLast?, (c :: t).drop p.length)
    else findPiece p lok rok (some c) t

def wsOrNone (o : Option Nat) : Bool := match o with | none => true | some c => isAsciiWhitespace c
def wsCommaOrNone (o : Option Nat) : Bool := match o with | none => true | some c => isAsciiWhitespace c || c == 44
def wsOnly (o : Option Nat) : Bool := match o with | none => false | some c => isAsciiWhitespace c

/-- the candidates, in order, are copies of pieces of `s`: each URL (possibly with an edge comma where the output
    has `%2c`) is a maximal whitespace-free piece starting at the beginning, after whitespace or after a comma;
    each descriptor is a piece delimited by whitespace on the left and whitespace / comma / end on the right. -/
def copiedInOrder : List Candidate → Option Nat → Bytes → Bool
  | [], _, _ => true
  | (u, ds) :: more, prev, rest =>
    let hits := (originals u).filterMap (fun o => findPiece o wsCommaOrNone wsOrNone prev rest)
    -- earliest end = longest remaining text
    match hits.foldl (fun best h => match best with
        | none => some h
        | some b => if h.2.length > b.2.length then some h else some b) none with
    | none => false
    | some (prev, rest) =>
      match ds with
      | [] => copiedInOrder more prev rest
      | [m] =>
        (match findPiece m wsOnly wsCommaOrNone prev rest with
         | none => false
         | some (prev, rest) => copiedInOrder more prev rest)
      | _ => false

def sanitized (s once twice : Bytes) (innocuous : Bytes) : String :=
  let cs := candidates once
  if cs.isEmpty then "fail:no-candidate-in-result"
  else if !cs.all (fun c => Model.isSafeURL c.1) then "fail:unsafe-url-candidate"
  else if !cs.all (fun c => match c.2 with
      | [] => true
      | [m] => isNumberWithOptionalLetter m
      | _ => false) then "fail:descriptor-not-number-letter"
  else if once != innocuous && !copiedInOrder cs none s then "fail:not-copied-in-order"
  else if twice != once then "fail:not-idempotent"
  else "pass"

def floatByte (c : Nat) : Bool := isDigit c || isLetter c || c == 43 || c == 45 || c == 46 || c == 95

/-- the only fact the proofs use about `strconv.ParseFloat`: accepted strings are over `[0-9A-Za-z+-._]` -/
def pf (s : Bytes) (accepted : Bool) : String :=
  if accepted && !s.all floatByte then "fail:parsefloat-accepts-foreign-byte" else "pass"

end SafeHtml.Oracle.C12
