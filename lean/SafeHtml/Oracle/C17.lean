/-
Executable form of C17 applied to (name, data term, script, REAL result).
Uses the RFC 8259 decoder of Spec/Json and byte-level recognisers only; from the model it takes
nothing but the *type* `JVal`, which is the description of the input value.
-/
import SafeHtml.Spec.Json
import SafeHtml.Model.GoJson
namespace SafeHtml.Oracle.C17
open SafeHtml SafeHtml.Spec.Json
open SafeHtml.Model.GoJson (JVal)

/-- ASCII identifier: `[$_A-Za-z][$_A-Za-z0-9]*` -/
def identStart (c : Nat) : Bool := c == 36 || c == 95 || isAlpha c
def identPart (c : Nat) : Bool := identStart c || isDigit c
def asciiIdent : Bytes → Bool
  | [] => false
  | c :: t => identStart c && t.all identPart

/-- bytewise lexicographic order: encoding/json documents that map keys are sorted -/
def ltB : Bytes → Bytes → Bool
  | [], [] => false
  | [], _ :: _ => true
  | _ :: _, [] => false
  | a :: s, b :: t => a < b || (a == b && ltB s t)

def ins {α} (kv : Bytes × α) : List (Bytes × α) → List (Bytes × α)
  | [] => [kv]
  | x :: t => if ltB kv.1 x.1 then kv :: x :: t else x :: ins kv t

def sortByKey {α} (l : List (Bytes × α)) : List (Bytes × α) := l.foldr ins []

mutual
/-- the JSON value of the data (strings as the code points Go's decoding gives, invalid byte = U+FFFD;
    Marshaler / RawMessage output = what it denotes as a JSON text); `none` = not encodable -/
def expected : JVal → Option JsonValue
  | .null => some .null
  | .bool b => some (.bool b)
  | .num lit => if isNumber lit then some (.num lit) else none
  | .str s => some (.str (Utf8.decodeRunes s))
  | .text s => some (.str (Utf8.decodeRunes s))
  | .raw b => decodeLossy b
  | .bad => none
  | .arr xs => (expectedL xs).map .arr
  | .obj isMap kvs =>
    (expectedM kvs).map fun ps =>
      .obj ((if isMap then sortByKey ps else ps).map fun p => (Utf8.decodeRunes p.1, p.2))
def expectedL : List JVal → Option (List JsonValue)
  | [] => some []
  | x :: t =>
    match expected x, expectedL t with
    | some a, some b => some (a :: b)
    | _, _ => none
def expectedM : List (Bytes × JVal) → Option (List (Bytes × JsonValue))
  | [] => some []
  | (k, x) :: t =>
    match expected x, expectedM t with
    | some a, some b => some ((k, a) :: b)
    | _, _ => none
end

mutual
/-- every Marshaler / RawMessage output in the tree is a strict (UTF-8) JSON text -/
def strictOk : JVal → Bool
  | .raw b => (decode b).isSome
  | .arr xs => strictOkL xs
  | .obj _ kvs => strictOkM kvs
  | _ => true
def strictOkL : List JVal → Bool
  | [] => true
  | x :: t => strictOk x && strictOkL t
def strictOkM : List (Bytes × JVal) → Bool
  | [] => true
  | (_, x) :: t => strictOk x && strictOkM t
end

/-- no `<`, `>`, `&`, and no U+2028 / U+2029 (E2 80 A8 / E2 80 A9) -/
def inert : Bytes → Bool
  | [] => true
  | c :: t =>
    c != 60 && c != 62 && c != 38 &&
    !(c == 226 && (match t with | b :: d :: _ => b == 128 && (d == 168 || d == 169) | _ => false)) &&
    inert t

inductive Real where
  | ok (r : Bytes)
  | err (script : Bytes)     -- the Script returned beside the error

def check (name : Bytes) (v : JVal) (script : Bytes) (real : Real) : String :=
  let nameOk := asciiIdent name
  let exp := expected v
  match real with
  | .ok r =>
    if !nameOk then "fail:non-identifier-name-accepted"
    else match exp with
      | none => "fail:unencodable-data-accepted"
      | some e =>
        let pre := [118, 97, 114, 32] ++ name ++ [32, 61, 32]
        let suf := [59, 10] ++ script
        if !(pre.isPrefixOf r) || r.length < pre.length + suf.length then "fail:frame"
        else
          let rest := r.drop pre.length
          let j := rest.take (rest.length - suf.length)
          if rest.drop (rest.length - suf.length) != suf then "fail:frame"
          else if !inert j then "fail:inert"
          else match decodeWith (!strictOk v) j with
            | none => "fail:not-a-json-text"
            | some d => if d == e then "pass" else "fail:roundtrip"
  | .err s =>
    if !s.isEmpty then "fail:error-with-nonzero-script"
    else if nameOk && name.length ≥ 2 && exp.isSome then "fail:valid-call-rejected"
    else "pass"

end SafeHtml.Oracle.C17
