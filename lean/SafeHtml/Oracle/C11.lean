/- Executable form of C11 applied to (input, REAL output) pairs. Uses only Spec/UrlScheme (independent
   of the model and of the regex): WHATWG preprocessing + scheme states, on the bytes and on the decoded
   code points, raw and after one round of character-reference decoding. -/
import SafeHtml.Spec.UrlScheme
namespace SafeHtml.Oracle.C11
open SafeHtml SafeHtml.Spec.UrlScheme

/-- does a WHATWG parser find the javascript scheme (checked on bytes and on Go's code points) -/
def seesJavascript (s : Bytes) : Bool :=
  whatwgScheme s == some javascript || whatwgScheme (Utf8.decodeRunes s) == some javascript

def sanitized (s real : Bytes) : String :=
  if real != s && real != innocuous then "fail:shape"
  else if real == s && seesJavascript s then "fail:javascript-scheme"
  else if real == s && seesJavascript (decodeRefs s) then "fail:javascript-scheme-after-charref-decoding"
  else if real != s && (match asciiSchemePrefix s with
      | some sch => sch.map asciiLower != javascript
      | none => false) then "fail:complete-ascii-scheme-rejected"
  else if real != s && noColonAmpBeforeFirstDelim s then "fail:complete-relative-rejected"
  else "pass"

end SafeHtml.Oracle.C11
