/-
Executable form of C13 applied to (input, REAL output) pairs.  Uses only Spec.Rfc3986 and
Spec.TruUrl, never the model.  Verdicts: "pass" | "fail:<clause>" | "fail:<clause>:<signature>".
Signatures (classes of genuine defects of the unpatched library, each removed by one fix-C13-*.diff):
  fold               prefix accepted only through a non-ASCII case fold (U+017F for s, U+212A for k)
  adjacent-dot       Format: a `..` segment assembled from pieces that pass the per-argument check
  append-dotdot      Append: the appended string makes the path climb
  netpath-empty-arg  Format: an empty argument turns `/x…` into `//…` or `/\…`
-/
import SafeHtml.Spec.TruUrl
namespace SafeHtml.Oracle.C13
open SafeHtml SafeHtml.Spec.Rfc3986 SafeHtml.Spec.TruUrl

abbrev Args := List (Bytes × Bytes)

/-- replace U+017F (c5 bf) by `s` and U+212A (e2 84 aa) by `k` -/
def defold : Bytes → Bytes
  | [] => []
  | 0xC5 :: 0xBF :: t => 115 :: defold t
  | 0xE2 :: 0x84 :: 0xAA :: t => 107 :: defold t
  | c :: t => c :: defold t

def prefixVerdict (s : Bytes) : Option String :=
  if safePrefix s then none
  else if safePrefix (defold s) then some "fail:prefix:fold"
  else some "fail:prefix"

def isPrefixB (p s : Bytes) : Bool := p.isPrefixOf s

/-- two leading bytes that a browser reads as `//` -/
def netPathLike : Bytes → Bool
  | a :: b :: _ => (a == 47 || a == 92) && (b == 47 || b == 92)
  | _ => false

def hasQF (s : Bytes) : Bool := s.any fun c => c == 63 || c == 35

/-- does the resolved path of `r` stay inside the directory that the literal text `lit` spells out? -/
def staysInDir (lit r : Bytes) : Bool :=
  if hasQF lit then true
  else
    let d := resolvedPath (dirOf (split lit).path)
    isPrefixB d (resolvedPath (split r).path)

def format (fmt : Bytes) (args : Args) (real : Option Bytes) : String :=
  match real with
  | none => "pass"                       -- an error is always allowed
  | some r =>
    match prefixVerdict fmt with
    | some v => v
    | none =>
    if (labels fmt).any (fun l => (args.lookup l).isNone) then "fail:missing-arg-accepted"
    else
    let expect := subst (fun l => pctEncodeAll ((args.lookup l).getD [])) fmt
    if r != expect then "fail:subst"
    else
    let pf := split fmt
    let pr := split r
    let emptyArg := (labels fmt).any (fun l => (args.lookup l).getD [] == [])
    let sigNet := if emptyArg then ":netpath-empty-arg" else ""
    if netPathLike r != netPathLike fmt then "fail:components" ++ sigNet
    else if pf.scheme != pr.scheme || pf.authority != pr.authority then "fail:components" ++ sigNet
    else if (segments pf.path).length != (segments pr.path).length then "fail:components"
    else if pf.query.isSome != pr.query.isSome || pf.fragment.isSome != pr.fragment.isSome then "fail:components"
    else if !staysInDir (literalPrefix fmt) r then
      (if (labels fmt).any (fun l => hasDoubleDot ((args.lookup l).getD [])) then "fail:no-climb"
       else "fail:no-climb:adjacent-dot")
    else "pass"

def append (t s : Bytes) (real : Option Bytes) : String :=
  match real with
  | none => "pass"
  | some r =>
    match prefixVerdict t with
    | some v => v
    | none =>
    if r != t ++ pctEncodeAll s then "fail:subst"
    else
    let pt := split t
    let pr := split r
    if netPathLike r != netPathLike t || pt.scheme != pr.scheme || pt.authority != pr.authority then "fail:components"
    else if !hasQF t && (segments pt.path).length != (segments pr.path).length then "fail:components"
    else if pt.query.isSome != pr.query.isSome || pt.fragment.isSome != pr.fragment.isSome then "fail:components"
    else if !staysInDir t r then "fail:no-climb:append-dotdot"
    else "pass"

def splitOn (sep : Nat) (s : Bytes) : List Bytes :=
  let rec go : Bytes → Bytes → List Bytes
    | [], cur => [cur.reverse]
    | c :: t, cur => if c == sep then cur.reverse :: go t [] else go t (c :: cur)
  go s []

def bytesLe : Bytes → Bytes → Bool
  | [], _ => true
  | _ :: _, [] => false
  | a :: s, b :: t => a < b || (a == b && bytesLe s t)

def sortedLe : List Bytes → Bool
  | a :: b :: t => bytesLe a b && sortedLe (b :: t)
  | _ => true

def sameMultiset (a b : List (Bytes × Bytes)) : Bool :=
  a.length == b.length && a.all fun p => a.count p == b.count p

/-- `real = none` here means the harness saw different results for different map insertion orders -/
def params (base : Bytes) (ps : Args) (real : Option Bytes) : String :=
  match real with
  | none => "fail:order-dependent"
  | some r =>
    let want := ps.filter fun kv => !(kv.1.isEmpty || kv.2.isEmpty)
    let pb := split base
    let pr := split r
    if pb.scheme != pr.scheme || pb.authority != pr.authority || pb.path != pr.path then "fail:params-changed-before-query"
    else if pb.fragment != pr.fragment then "fail:params-changed-fragment"
    else if want.isEmpty then (if r == base then "pass" else "fail:params-changed-query")
    else
    let q0 := pb.query.getD []
    match pr.query with
    | none => "fail:params-missing"
    | some q =>
      if !isPrefixB q0 q then "fail:params-existing-query-not-preserved"
      else
      let added := q.drop q0.length
      let added := if q0.isEmpty then added else
        (match added with | 38 :: t => t | _ => 63 :: added)   -- a `?` can never be part of the added text
      if !(added.all fun c => isUnreserved c || c == 37 || c == 61 || c == 38) then "fail:params-not-encoded"
      else
      let items := splitOn 38 added
      let kvs := items.map fun it => let c := cut 61 it; (pctDecode c.1, pctDecode (c.2.getD []))
      if !(items.all fun it => (cut 61 it).2.isSome && isUnreservedOrPct (cut 61 it).1 &&
            isUnreservedOrPct ((cut 61 it).2.getD [])) then "fail:params-not-encoded"
      else if !sameMultiset kvs want then "fail:params-wrong-pairs"
      else if !sortedLe items then "fail:params-not-sorted"
      else "pass"

def queryEscape (s : Bytes) (real : Option Bytes) : String :=
  match real with
  | none => "fail:panic"
  | some r =>
    if !isUnreservedOrPct r then "fail:unreserved"
    else if r != pctEncodeAll s then "fail:escape-differs"
    else "pass"

def truPrefix (s : Bytes) (real : Bool) : String :=
  if real then (prefixVerdict s).getD "pass" else "pass"

def dotdot (s : Bytes) (real : Bool) : String :=
  if !real && hasDoubleDot s then "fail:dotdot-missed" else "pass"

end SafeHtml.Oracle.C13
