/- Executable form of C10 applied to (input, REAL output) pairs. Uses only Spec/Esc and Spec/Interchange
   (and the UTF-8 vocabulary); independent of the model and of the regenerated tables. -/
import SafeHtml.Spec.Esc
import SafeHtml.Spec.Interchange
namespace SafeHtml.Oracle.C10
open SafeHtml SafeHtml.Spec

/-- `o` = real `HTMLEscaped(s).String()`, `u` = Go's `html.UnescapeString(o)` computed by the harness -/
def escaped (s o u : Bytes) : String :=
  if !Esc o then "fail:not-inert(special-or-bare-ampersand)"
  else if !validUtf8 o then "fail:invalid-utf8"
  else if (Utf8.decodeRunes o).any (fun r => isBadRune r || !isScalar r) then "fail:forbidden-code-point"
  else if unescape5 o != refCoerce s then "fail:roundtrip(spec-unescape)"
  else if u != refCoerce s then "fail:roundtrip(go-html.UnescapeString)"
  else "pass"

def concat (args : List Bytes) (real : Bytes) : String :=
  if real != args.flatten then "fail:concat-not-plain-concatenation"
  else if args.all Esc && !Esc real then "fail:concat-of-inert-not-inert"
  else "pass"

end SafeHtml.Oracle.C10
