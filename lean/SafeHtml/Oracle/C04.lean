/- Executable form of C04 on REAL verdicts: the reviewed policy (Spec/Policy + Reviewed/Policy) is the yardstick. -/
import SafeHtml.Spec.Policy
namespace SafeHtml.Oracle.C04
open SafeHtml SafeHtml.Spec.Policy SafeHtml.Reviewed.Policy

/-- real verdict of the policy function: `some name` or `none` (refused) -/
def attr (e a rel : Bytes) (real : Option String) : String :=
  if leqOpt (reviewedAttr e a rel) (real.map cxOfName) then "pass"
  else "fail:attr-context-weaker-than-reviewed"

def elem (e : Bytes) (real : Option String) : String :=
  if leqOpt (contentCtx revTabs e) (real.map cxOfName) then "pass"
  else "fail:content-context-weaker-than-reviewed"

def enumWords : RSC → List Bytes
  | .AsyncEnum => asyncEnumValues | .DirEnum => dirEnumValues
  | .LoadingEnum => loadingEnumValues | .TargetEnum => targetEnumValues
  | _ => []

def allowedTypes : RSC → List String
  | .HTMLValOnly => ["H"] | .Identifier => ["I"] | .Script => ["S"] | .Style => ["Y"] | .StyleSheet => ["E"]
  | .TrustedResourceURL => ["R"] | _ => []

def lowerB (s : Bytes) : Bytes := s.map asciiLower

/-- HTML void elements (WHATWG): area base br col embed hr img input link meta source track wbr, plus the obsolete keygen param -/
def htmlVoid : List Bytes :=
  [[97,114,101,97], [98,97,115,101], [98,114], [99,111,108], [101,109,98,101,100], [104,114], [105,109,103],
   [105,110,112,117,116], [108,105,110,107], [109,101,116,97], [115,111,117,114,99,101], [116,114,97,99,107], [119,98,114],
   [107,101,121,103,101,110], [112,97,114,97,109]]

/-- black-box probe `<E A="{{.}}">` / `<E>{{.}}</E>` in one of the forms
    dq sq unq attrname tagname content; `valKind` is "s" (plain string) or a safe-type tag;
    `real` = some output (accepted) or none (any error). -/
def probe (form : String) (e a rel : Bytes) (valKind : String) (val : Bytes) (real : Option Bytes) : String :=
  match real with
  | none => "pass"                      -- refusing is always allowed by this property
  | some out =>
    if form == "unq" then "fail:unquoted-attribute-value-accepted"
    else if form == "attrname" then "fail:action-in-attribute-name-accepted"
    -- `<{{.}}>`: accepted only because the engine turns the `<` into `&lt;` (then nothing is a tag name)
    else if form == "tagname" then
      (if [38, 108, 116, 59].isPrefixOf out then "pass" else "fail:action-in-tag-name-accepted")
    else
      -- a void element has no content: what follows its start tag is content of the enclosing (here: no) element
      -- "selfclose": `<e/>{{.}}</e>` — the solidus does not close a non-void HTML element (it does for the foreign
      -- roots svg / math, whose content then is top-level content); "cond-glued": the attribute `a` follows a
      -- conditional valueless attribute, its name glued to {{end}}
      let foreign := lowerB e == B "svg" || lowerB e == B "math"
      let verdict := if form == "content" then
          (if htmlVoid.contains (lowerB e) then reviewedContent [] else reviewedContent (lowerB e))
        else if form == "selfclose" || form == "selfclose-attr" then
          (if htmlVoid.contains (lowerB e) || foreign then reviewedContent [] else reviewedContent (lowerB e))
        else reviewedAttr (lowerB e) (lowerB a) (lowerB rel)
      match verdict with
      | none => "fail:accepted-where-reviewed-policy-refuses"
      | some .unknown => "pass"
      | some (.known sc) =>
        if typedOnly sc && !(allowedTypes sc).contains valKind then "fail:typed-only-context-accepted-other-value"
        else if isEnum sc && !(enumWords sc).any (fun w => containsSub ([34] ++ w ++ [34]) out || containsSub ([39] ++ w ++ [39]) out) then
          "fail:enum-context-emitted-unlisted-word"
        else if (sc == .URL || sc == .TrustedResourceURLOrURL) && valKind == "s" &&
            (lowerB val).take 11 == [106, 97, 118, 97, 115, 99, 114, 105, 112, 116, 58] &&
            containsSub [106, 97, 118, 97, 115, 99, 114, 105, 112, 116, 58] (lowerB out) then
          "fail:url-context-kept-javascript-url"
        else "pass"

end SafeHtml.Oracle.C04
