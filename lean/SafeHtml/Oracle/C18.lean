/- Executable form of C18 applied to (input, REAL output) pairs. Uses only the byte-level recogniser. -/
import SafeHtml.Basic.Bytes
namespace SafeHtml.Oracle.C18

def isIdentTail (c : Nat) : Bool := c == 45 || c == 95 || isAlnum c

def specIdent : Bytes → Bool
  | [] => false
  | c :: t => isAlpha c && t.all isIdentTail

/-- `real = none` means the call panicked (allowed by the property). -/
def const (v : Bytes) (real : Option Bytes) : String :=
  match real with
  | none => "pass"
  | some r =>
    if !specIdent r then "fail:result-not-identifier"
    else if r != v then "fail:result-differs-from-constant"
    else "pass"

def pref (p v : Bytes) (real : Option Bytes) : String :=
  match real with
  | none => "pass"
  | some r =>
    if !specIdent r then "fail:result-not-identifier"
    else if r != p ++ [45] ++ v then "fail:result-not-prefix-hyphen-value"
    else "pass"

end SafeHtml.Oracle.C18
