/-
Executable form of C20 applied to (input, REAL output) pairs. Uses only Spec.Path (never the model).
-/
import SafeHtml.Spec.Path
namespace SafeHtml.Oracle.C20
open SafeHtml SafeHtml.Spec.Path

/-- `real = none`: the call returned an error (always allowed by the property).
    `relcheck`: the disagreement reported by the harness' own `filepath.Rel/Dir/Base/SplitList`
    cross-check of the same result ("" = none). -/
def dir (d s f : Bytes) (real : Option Bytes) (relcheck : String) : String :=
  match real with
  | none => if relcheck == "" then "pass" else "fail:unexpected-relcheck-on-error"
  | some r =>
    let base := join [d, s]
    let verdict :=
      if r == base || r == clean base then "pass"
      else if r == child base f then
        if f.contains 47 then "fail:separator-in-filename"
        else if f.contains 58 then "fail:list-separator-in-filename"
        else if f == dotdot then "fail:dotdot-filename"
        else if f == [] || f == dot then "fail:result-not-clean"
        else "pass"
      else "fail:not-base-or-direct-child"
    if verdict != "pass" then verdict
    else
      -- the same in path components, and rootedness
      let cr := components r
      let cb := components base
      if !(cr == cb || (cr == cb ++ [f] && plainName f)) then "fail:components"
      else if isRooted r != isRooted base then "fail:rootedness"
      else if relcheck != "" then "fail:filepath-rel-crosscheck"
      else "pass"

/-- `filepath.Clean` real output vs the spec vocabulary, plus: the output is a fixed point -/
def cleanOp (p : Bytes) (real : Bytes) : String :=
  if real != clean p then "fail:spec-clean-differs-from-filepath"
  else if clean real != real then "fail:clean-not-idempotent"
  else "pass"

def join3Op (a b c : Bytes) (real : Bytes) : String :=
  if real != join [a, b, c] then "fail:spec-join-differs-from-filepath"
  else if real != [] && clean real != real then "fail:join-result-not-clean"
  else "pass"

end SafeHtml.Oracle.C20
