/-
Executable form of C15 applied to (StyleProperties, REAL output) pairs.
Uses the CSS Syntax 3 spec functions and a hand-written (reviewed) field table; the only model
function used is `Model.isSafeURL`, as an opaque predicate ("a URL that URLSanitized approves").
-/
import SafeHtml.Spec.CssParse
import SafeHtml.Basic.Utf8
import SafeHtml.Model.Url
namespace SafeHtml.Oracle.C15
open SafeHtml SafeHtml.Spec.Css

inductive K where
  | regular | enum | urls | fonts
  deriving DecidableEq

/-- reviewed table: Go field, documented property name, kind — in the documented order -/
def reviewed : List (String × String × K) := [
  ("BackgroundImageURLs", "background-image", .urls), ("FontFamily", "font-family", .fonts),
  ("Display", "display", .enum), ("BackgroundColor", "background-color", .regular),
  ("BackgroundPosition", "background-position", .regular), ("BackgroundRepeat", "background-repeat", .regular),
  ("BackgroundSize", "background-size", .regular), ("Color", "color", .regular), ("Height", "height", .regular),
  ("Width", "width", .regular), ("Left", "left", .regular), ("Right", "right", .regular), ("Top", "top", .regular),
  ("Bottom", "bottom", .regular), ("FontWeight", "font-weight", .regular), ("Padding", "padding", .regular),
  ("ZIndex", "z-index", .regular)]

def plainNames : List String := (reviewed.filter (fun e => e.2.2 == .regular || e.2.2 == .enum)).map (·.1)

def str (s : String) : List Nat := s.toList.map (·.toNat)

/-- "zGoSafezInvalidPropertyValue" -/
def innocuousValue : List Nat := str "zGoSafezInvalidPropertyValue"
/-- "about:invalid#zGoSafez" -/
def innocuousURL : List Nat := str "about:invalid#zGoSafez"

/-- documented alphabet of the regular fields: alphanumerics, space, tab, and `+-.!#%_/*` -/
def docRegularChar (c : Nat) : Bool :=
  isAlnum c || c == 32 || c == 9 || c == 43 || c == 45 || c == 46 || c == 33 || c == 35 || c == 37 ||
  c == 95 || c == 47 || c == 42

/-- … and no comment markers `//`, `/*`, `*/` -/
def noCommentMarkers : List Nat → Bool
  | a :: b :: t =>
    !((a == 47 && b == 47) || (a == 47 && b == 42) || (a == 42 && b == 47)) && noCommentMarkers (b :: t)
  | _ => true

def docRegular (v : List Nat) : Bool := v.all docRegularChar && noCommentMarkers v
def docEnum (v : List Nat) : Bool := v.all (fun c => isAlpha c || c == 45)

/-- `[a-zA-Z][-a-zA-Z]+` : names that are emitted unquoted -/
def bareFontName : List Nat → Bool
  | c :: d :: t => isAlpha c && (d :: t).all (fun x => isAlpha x || x == 45)
  | _ => false

def dropSpaces (v : List Nat) : List Nat := v.filter (· != 32)

/-- what a conforming tokenizer reads back from an escaped string: NUL arrives as U+FFFD;
    comparison is modulo U+0020 (a space directly after a hex escape belongs to the escape) -/
def sameModSpaces (decoded : List Nat) (orig : Bytes) : Bool :=
  let o := (Utf8.decodeRunes orig).map (fun c => if c == 0 then 0xFFFD else c)
  if o.contains 32 then dropSpaces decoded == dropSpaces o else decoded == o

def isWsCV (c : CV) : Bool := c.isWs

/-- split the value of a list-valued declaration at top-level commas, whitespace removed -/
def splitCommas (v : List CV) : List (List CV) :=
  let rec go : List CV → List CV → List (List CV)
    | [], cur => [cur.reverse]
    | c :: t, cur =>
      match c with
      | .tok .comma => cur.reverse :: go t []
      | .tok .whitespace => go t cur
      | _ => go t (c :: cur)
  go v []

def unquote (name : Bytes) : Bytes :=
  if name.length ≥ 3 && name.head? == some 34 && name.getLast? == some 34 then (name.drop 1).take (name.length - 2)
  else name

def checkUrlItem (u : Bytes) (item : List CV) : Bool :=
  match item with
  | [.func n [.tok (.string v true)] true] =>
    n == str "url" && (if Model.isSafeURL u then sameModSpaces v u else v == innocuousURL)
  | _ => false

def checkFontItem (name : Bytes) (item : List CV) : Bool :=
  match item with
  | [.tok (.ident n)] => bareFontName name && n == name
  | [.tok (.string v true)] => !bareFontName name && sameModSpaces v (unquote name)
  | _ => false

def zipAll {α β} (f : α → β → Bool) : List α → List β → Bool
  | [], [] => true
  | a :: as, b :: bs => f a b && zipAll f as bs
  | _, _ => false

structure Input where
  urls : List Bytes
  fonts : List Bytes
  plain : List Bytes      -- aligned with `plainNames`

def plainOf (inp : Input) (name : String) : Bytes :=
  match (plainNames.zip inp.plain).find? (fun e => e.1 == name) with
  | some e => e.2
  | none => []

def isDecl : Item → Option Decl
  | .decl d => some d
  | _ => none

/-- the expectation for one non-empty field against its declaration -/
def checkField (inp : Input) (e : String × String × K) (d : Decl) : Option String :=
  if d.name != str e.2.1 then some "fail:declaration-name-or-order"
  else if !allClosedL d.value then some "fail:open-block-in-value"
  else match e.2.2 with
    | .urls =>
      if zipAll checkUrlItem inp.urls (splitCommas d.value) then none else some "fail:background-image-url"
    | .fonts =>
      if zipAll checkFontItem inp.fonts (splitCommas d.value) then none else some "fail:font-family-item"
    | k =>
      let v := plainOf inp e.1
      let rv := Utf8.decodeRunes v
      let doc := if k == .enum then docEnum rv else docRegular rv
      if !doc then
        (if flattenL d.value == [.ident innocuousValue] && !d.important then none
         else some "fail:filter-outside-documented-alphabet")
      else
        -- inside the alphabet: the declaration is what the value alone parses to
        match declList (tokenize (str e.2.1 ++ [58] ++ rv ++ [59])) with
        | [.decl d'] =>
          if flattenL d'.value == flattenL d.value && d'.important == d.important then none
          else if flattenL d.value == [.ident innocuousValue] then none   -- stricter than documented is allowed
          else some "fail:value-merged-or-altered"
        | _ => if flattenL d.value == [.ident innocuousValue] then none else some "fail:value-merged-or-altered"

def nonEmpty (inp : Input) (e : String × String × K) : Bool :=
  match e.2.2 with
  | .urls => !inp.urls.isEmpty
  | .fonts => !inp.fonts.isEmpty
  | _ => !(plainOf inp e.1).isEmpty

def checkAll (inp : Input) : List (String × String × K) → List Decl → Option String
  | [], [] => none
  | e :: es, d :: ds =>
    match checkField inp e d with
    | some f => some f
    | none => checkAll inp es ds
  | _, _ => some "fail:declaration-count"

def check (inp : Input) (out : Bytes) : String :=
  let cps := Utf8.decodeRunes out
  let toksC := tokenizeC cps
  if out.contains 60 then "fail:contains-lt"
  else if !(out.isEmpty || out.getLast? == some 59) then "fail:does-not-end-with-semicolon"
  else if toksC.any isComment then "fail:comment-in-output"
  else if toksC.any isBadTok then "fail:bad-or-unterminated-token"
  else
    let items := declList (toksC.filter (fun t => !isComment t))
    match items.mapM isDecl with
    | none => "fail:not-a-pure-declaration-list"
    | some ds =>
      match checkAll inp (reviewed.filter (nonEmpty inp)) ds with
      | some f => f
      | none => "pass"

end SafeHtml.Oracle.C15
