/-
Executable form of C16 applied to (selector, style, REAL result) pairs. Spec functions only.
-/
import SafeHtml.Spec.CssParse
import SafeHtml.Basic.Utf8
namespace SafeHtml.Oracle.C16
open SafeHtml SafeHtml.Spec.Css

/-- bracket discipline of a token list as the parser sees it: every `)`/`]`/`}` closes the innermost
    open block of its kind, nothing stays open -/
def balanced : List Tok → List Tok → Bool
  | stack, [] => stack.isEmpty
  | stack, t :: ts =>
    match closerOf t with
    | some cl => balanced (cl :: stack) ts
    | none =>
      if t = .rparen || t = .rbrack || t = .rbrace then
        (match stack with
          | top :: rest => top = t && balanced rest ts
          | [] => false)
      else balanced stack ts

/-- tokens a selector must not contribute -/
def forbiddenInSelector : Tok → Option String
  | .lbrace => some "lbrace"
  | .rbrace => some "rbrace"
  | .semicolon => some "semicolon"
  | .atKeyword _ => some "at-keyword"
  | .delim 64 => some "at-sign"
  | .delim 60 => some "lt"
  | .cdo => some "lt"
  | .comment _ => some "comment"
  | .badString => some "bad-string"
  | .badUrl => some "bad-url"
  | .string _ false => some "unterminated-string"
  | .url _ false => some "unterminated-url"
  | _ => none

/-- is `style` a complete block body: appending `}` yields exactly its tokens plus `}`, no token-level
    errors, blocks balanced (so that a `{}` block around it ends at the appended `}`) -/
def styleWellFormed (st : List Nat) : Bool :=
  let ts := tokenizeC st
  tokenizeC (st ++ [125]) == ts ++ [.rbrace] && !ts.any isBadTok && balanced [] ts

def isWsTok (t : Tok) : Bool := t = .whitespace
def isWsOrCd (t : Tok) : Bool := t = .whitespace || t = .cdc || t = .cdo

def checkRule (top : Bool) (selT styT all : List Tok) : Bool :=
  match ruleList top all with
  | [.qualified q] =>
    q.closed && flattenL q.prelude == selT.dropWhile (if top then isWsOrCd else isWsTok) &&
      flattenL q.block == styT && allClosedL q.prelude
  | _ => false

def check (sel style : Bytes) (real : Option Bytes) : String :=
  match real with
  | none => "pass"
  | some r =>
    if r != sel ++ [123] ++ style ++ [125] then "fail:result-not-selector-brace-style-brace"
    else if sel.contains 60 then "fail:selector-contributes-lt"   -- also inside strings: `</style>` ends the HTML element
    else
      let selC := tokenizeC (Utf8.decodeRunes sel)
      match selC.findSome? forbiddenInSelector with
      | some w => "fail:selector-contributes-" ++ w
      | none =>
        if !balanced [] selC then "fail:selector-unbalanced-brackets"
        else
          let st := Utf8.decodeRunes style
          if !styleWellFormed st then "pass"   -- style outside the type contract: nothing claimed
          else
            let all := tokenize (Utf8.decodeRunes r)
            let selT := selC.filter (fun t => !isComment t)
            let styT := tokenize st
            if !checkRule false selT styT all then "fail:not-a-single-qualified-rule"
            else if !checkRule true selT styT all then "fail:not-a-single-qualified-rule-at-top-level"
            else "pass"

end SafeHtml.Oracle.C16
